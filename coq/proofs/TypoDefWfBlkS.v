(* Helper library for TypoDefWfBlk.v, part S: Open of the two definition list parsers (deflist_open: what it
   returns and where the nodes it looks at are; defdesc_open: the invariant after it). *)
Require Import GM.model.Base GM.model.Util GM.model.Reader GM.model.ReaderSpec GM.model.Blocks GM.model.ListItem
               GM.model.LeafBlocks GM.model.CodeBlock GM.model.LinkDest GM.model.Regex GM.model.HtmlWriter
               GM.model.Html GM.model.HtmlSpec GM.model.BlockParse GM.model.InlineParse GM.model.TypoDefParseD.
Require Import GM.proofs.ReaderProofs GM.proofs.BlockRangeProofs GM.proofs.ParseInv
               GM.proofs.ParseBlocksRangeA GM.proofs.TypoDefWfBlkB GM.proofs.TypoDefWfBlkT GM.proofs.TypoDefWfBlkC
               GM.proofs.TypoDefWfBlkD GM.proofs.TypoDefWfBlkE GM.proofs.TypoDefWfBlkG GM.proofs.TypoDefWfBlkI
               GM.proofs.TypoDefWfBlkM GM.proofs.TypoDefWfBlkR.
From Coq Require Import ZArith Lia Sorted.
Open Scope Z_scope.

(* the line the reader is at *)
Definition rline (r : reader) : option bytes := if r_in_range r then Some (r_view r) else None.
Lemma rline_rkey a b : rkey a = rkey b -> rline a = rline b.
Proof.
  intros H. destruct (rkey_view _ _ H) as [Ev _]. unfold rline. rewrite Ev.
  unfold rkey in H. injection H as H1 H2 H3. rewrite (in_range_eq a b H2 H1). reflexivity.
Qed.

(* the guards of the two definition list parsers: a colon at the position of the first byte that is not
   white space, no indentation *)
Definition guardC (s : st) : Prop :=
  0 <= c_boff (s_c s) /\ c_bind (s_c s) = 0 /\ at_ (line_of (rline (s_r s))) (c_boff (s_c s)) = Ok 58%N.

Lemma prev_id_in x : forall l prev y, prev_id x l prev = Some y -> prev = Some y \/ In y l.
Proof.
  induction l as [|z t IH]; intros prev y H; cbn [prev_id] in H; [discriminate|].
  destruct (Nat.eqb x z); [left; exact H|]. destruct (IH (Some z) y H) as [E|Hin]; [injection E as <-; right; left; reflexivity|right; right; exact Hin].
Qed.

Section S.
Variable space_table punct_table : list N.
Variable norm : bytes -> bytes.
Variable re_t1o re_t1c re_t2 re_t3 re_t4 re_t5 re_t6 re_t7 : re.
Variable allowed_tags : list bytes.
Variable src : bytes.
Hypothesis sp32 : is_space space_table 32%N = true.
Set Default Proof Using "All".
Notation CC f := (f space_table punct_table norm re_t1o re_t1c re_t2 re_t3 re_t4 re_t5 re_t6 re_t7 allowed_tags src sp32) (only parsing).
Notation SInv := (SInv space_table src).
Notation HI := (HI space_table src).
Notation nodeP := (nodeP space_table src).
Notation heapS := (heapS space_table src).
Notation Jinv := (Jinv src).
Notation openS := (openS src).

(* ---------- peek, with the line as a function of the reader ---------- *)
Lemma peek_s_rline s s' l sg A D N : SInv FF s A D N -> peek_line_s s = Ok (s', l, sg) ->
  SInv FF s' A D N /\ s_h s' = s_h s /\ s_c s' = s_c s /\ rkey (s_r s') = rkey (s_r s) /\ l = rline (s_r s).
Proof.
  intros HS H. destruct (CC peek_s_ok _ _ _ _ _ _ _ HS H) as [HS1 [Eh1 [Ec1 [_ [_ [El _]]]]]].
  pose proof (CC peek_s_rkey _ _ _ _ (proj1 (proj1 HS)) H) as Ek. csplit; auto.
Qed.

(* ---------- definitionListParser.Open ---------- *)
Lemma deflist_open_raw s parent s' o A D N : SInv FF s A D N ->
  deflist_open s parent = Ok (s', o) ->
  match o with
  | None => SInv FF s' A D N /\ s_h s' = s_h s /\ s_c s' = s_c s /\ rkey (s_r s') = rkey (s_r s)
  | Some (node, hc, rp) =>
    hc = true /\ guardC s /\
    exists s1 pn l ln w, SInv FF s1 A D N /\ s_h s1 = s_h s /\ s_c s1 = s_c s /\ rkey (s_r s1) = rkey (s_r s) /\
      nth_error (s_h s) parent = Some pn /\ is_dl pn = false /\ last_id (bch pn) = Some l /\
      nth_error (s_h s) l = Some ln /\ 0 <= w /\
      ((rp = true /\ bk ln = BParagraph /\ node = length (s_h s) /\
        s' = st_h s1 (s_h s ++ [set_seg (set_i2 (mknode BHTML 100) w) (para_ref l)])) \/
       (rp = false /\ bk ln = BParagraph /\
        (exists nl, nth_error (s_h s) node = Some nl /\ is_dl nl = true /\ In node (bch pn)) /\
        exists h1, hupd (s_h s) node (fun m => set_seg (set_i2 m w) (para_ref l)) = Ok h1 /\ s' = st_h s1 h1) \/
       (rp = false /\ node = l /\ is_dl ln = true /\
        exists h1, hupd (s_h s) l (fun m => set_seg (set_i2 m w) None) = Ok h1 /\ s' = st_h s1 h1))
  end.
Proof.
  intros HS H. unfold deflist_open in H. bind_inv H pn Epn. apply hget_ok in Epn.
  destruct (is_dl pn) eqn:Hpdl. { injection H as <- <-. csplit; auto. }
  bind_inv H x Ex. destruct x as [[s1 line] sg].
  destruct (peek_s_rline _ _ _ _ _ _ _ HS Ex) as [HS1 [Eh1 [Ec1 [Ek1 El]]]].
  assert (forall X : result (st * open_res), X = Ok (s1, None) -> X = Ok (s', o) ->
            match o with None => SInv FF s' A D N /\ s_h s' = s_h s /\ s_c s' = s_c s /\ rkey (s_r s') = rkey (s_r s) | Some _ => False end) as Hnone.
  { intros X -> E. injection E as <- <-. csplit; auto. }
  cbv zeta in H. rewrite Ec1 in H.
  destruct (Z.ltb_spec (c_boff (s_c s)) 0) as [Hneg|Hpos]; [specialize (Hnone _ eq_refl H); destruct o; [destruct Hnone|exact Hnone]|].
  bind_inv H ch Ech.
  destruct (negb (N.eqb ch 58) || negb (c_bind (s_c s) =? 0))%bool eqn:Eg; [specialize (Hnone _ eq_refl H); destruct o; [destruct Hnone|exact Hnone]|].
  apply Bool.orb_false_iff in Eg. destruct Eg as [Eg1 Eg2]. apply Bool.negb_false_iff in Eg1, Eg2.
  apply N.eqb_eq in Eg1. apply Z.eqb_eq in Eg2. subst ch.
  assert (guardC s) as Hg. { unfold guardC. rewrite <- El. auto. }
  match type of H with (if ?w0 <? 1 then _ else _) = _ => set (w1 := w0) in *; destruct (Z.ltb_spec w1 1) as [Hw|Hw] end;
    [specialize (Hnone _ eq_refl H); destruct o; [destruct Hnone|exact Hnone]|].
  set (w := (if 8 <=? w1 then 5 else w1) + c_boff (s_c s) + 1) in *.
  assert (0 <= w) as Hw0 by (unfold w; destruct (8 <=? w1); lia).
  destruct (last_id (bch pn)) as [l|] eqn:Elast; [|specialize (Hnone _ eq_refl H); destruct o; [destruct Hnone|exact Hnone]].
  bind_inv H ln Eln. apply hget_ok in Eln. rewrite Eh1 in Eln.
  destruct (bkind_eqb (bk ln) BParagraph) eqn:Ekl.
  - apply (CC bkind_eqb_eq) in Ekl. bind_inv H prev Eprev. destruct prev as [lst|].
    + bind_inv H h1 Eh. injection H as <- <-. split; [reflexivity|]. split; [exact Hg|].
      exists s1, pn, l, ln, w. csplit; auto. right. left. csplit; auto.
      * destruct (prev_id l (bch pn) None) as [pv|] eqn:Epv; [|injection Eprev as E; discriminate E].
        bind_inv Eprev pvn Epvn. apply hget_ok in Epvn. rewrite Eh1 in Epvn.
        destruct (is_dl pvn) eqn:Hpv; injection Eprev as E; [|discriminate E]. subst pv. exists pvn. csplit; auto.
        destruct (prev_id_in _ _ _ _ Epv) as [E'|Hin]; [discriminate E'|exact Hin].
      * exists h1. rewrite <- Eh1. auto.
    + unfold new_node, halloc in H. cbv beta iota zeta in H. injection H as <- <-. split; [reflexivity|]. split; [exact Hg|].
      exists s1, pn, l, ln, w. csplit; auto. left. rewrite Eh1. csplit; auto.
  - destruct (is_dl ln) eqn:Hldl; [|specialize (Hnone _ eq_refl H); destruct o; [destruct Hnone|exact Hnone]].
    bind_inv H h1 Eh. injection H as <- <-. split; [reflexivity|]. split; [exact Hg|].
    exists s1, pn, l, ln, w. csplit; auto. right. right. csplit; auto. exists h1. rewrite <- Eh1. auto.
Qed.

(* ---------- where the children of the parent are ---------- *)
(* the paragraph the list parser takes over: the last child of the parent (the last block of the spine) *)
Lemma last_para_pos fl s A D N pn l ln : SInv fl s A D N -> nth_error (s_h s) (lastid (ids (A ++ N))) = Some pn ->
  is_dl pn = false -> In l (bch pn) -> nth_error (s_h s) l = Some ln -> bk ln = BParagraph ->
  ~ In l (ids (A ++ N)) /\ (In l (ids D) -> D = [(l, PParagraph)]).
Proof.
  intros [_ HH] Ep Hpdl Hl El Kl. pose proof (hi_heap _ _ _ _ _ _ _ _ HH) as HS. pose proof (hi_open _ _ _ _ _ _ _ _ HH) as HO.
  set (p := lastid (ids (A ++ N))) in *.
  assert (child (s_h s) p l) as Hpl by (exists pn; auto).
  split. { intros Hin. eapply (CC spine_not_child_of_last); eassumption. }
  intros HlD. destruct (os_chain _ _ _ _ _ _ HO) as [Hc|[HN [x Hx]]].
  2: { rewrite Hx in HlD. destruct HlD as [E|[]]. cbn [fst] in E. subst x. exact Hx. }
  assert (forall z, child (s_h s) l z -> False) as Hleaf.
  { intros z Hz. destruct (parent_container _ _ _ _ _ HS Hz) as [nq [Eq Kq]]. assert (nq = ln) by congruence. subst nq.
    rewrite (CC cnt_not_html) in Kq by congruence. rewrite Kl in Kq. discriminate. }
  destruct (in_adj_cons (lastid (ids A)) _ _ HlD) as [q Hq]. pose proof (Hc q l Hq) as Hql.
  assert (q = p) as Eq.
  { destruct Hql as [nq [Eq Hin]]. destruct (hs_K _ _ _ HS q nq l Eq Hin) as [n1 [E1 P1]].
    destruct (hs_K _ _ _ HS p pn l Ep Hl) as [n2 [E2 P2]]. congruence. }
  (* the predecessor of l in the chain is the head: the last of A *)
  assert (q = lastid (ids A) /\ exists t, ids D = l :: t) as [EqA [t Et]].
  { apply Adj_cons in Hq. destruct Hq as [[E1 [t E2]]|Hq]; [split; [exact E1|exists t; exact E2]|exfalso].
    apply Adj_in in Hq. destruct Hq as [HqD _]. rewrite Eq in HqD.
    destruct (CC lastid_cases (ids (A ++ N))) as [[E0 Ep0]|[_ HpAN]].
    - fold p in Ep0. rewrite Ep0 in HqD. exact (chain_no_root _ _ _ _ _ HS Hc HqD).
    - fold p in HpAN. rewrite ids_app in HpAN. apply in_app_or in HpAN. destruct HpAN as [HpA|HpN].
      + pose proof (os_ndD _ _ _ _ _ _ HO) as Hnd. rewrite ids_app in Hnd. exact (CC nodup_app_disj _ _ _ Hnd HpA HqD).
      + destruct (os_dup _ _ _ _ _ _ HO p HqD HpN) as [n0 [E0 K0]]. assert (n0 = pn) by congruence. subst n0. congruence. }
  destruct D as [|[d dp] D1]; [destruct HlD|]. cbn [ids map fst] in Et. injection Et as -> Et.
  destruct (os_pair _ _ _ _ _ _ HO l dp) as [n0 [E0 K0]]; [apply in_or_app; right; left; reflexivity|].
  assert (n0 = ln) by congruence. subst n0. assert (dp = PParagraph) as -> by (apply (CC pkind_para); congruence).
  destruct D1 as [|[d2 dp2] D2]; [reflexivity|exfalso]. apply (Hleaf d2). apply Hc.
  exists [lastid (ids A)], (ids D2). reflexivity.
Qed.

(* ---------- what the description parser needs of the paragraph whose number the list holds ---------- *)
Definition PF (s : st) (A D N : list (nat * bparser)) (para : nat) : Prop :=
  (exists prn, nth_error (s_h s) para = Some prn /\ bk prn = BParagraph) /\ ~ In para (ids (A ++ N)) /\
  (In para (ids D) -> D = [(para, PParagraph)]).
Definition PndF (s : st) (A D N : list (nat * bparser)) (parent : nat) : Prop :=
  forall pn sg, nth_error (s_h s) parent = Some pn -> is_dl pn = true -> b_seg pn = Some sg ->
  PF s A D N (Z.to_nat (s_start sg)).

Lemma S_lastid_app_ne (A N : list (nat * bparser)) : N <> [] -> lastid (ids (A ++ N)) = lastid (ids N).
Proof.
  intros HN. destruct (CC exists_last_or_nil N) as [->|[N' [[y bq] ->]]]; [congruence|].
  rewrite app_assoc, !(CC ids_snoc). rewrite !lastid_snoc. reflexivity.
Qed.

Lemma ip_any bs cur width pos padding : indent_position bs cur width = (pos, padding) ->
  (pos = -1 /\ padding = -1) \/ (0 <= pos /\ 0 <= padding).
Proof.
  intros H. unfold indent_position, indent_position_padding in H.
  destruct (Z.eqb_spec width 0); [injection H as <- <-; right; lia|].
  destruct (indent_position_loop bs cur 0 0 0 width) as [w i] eqn:E. apply ipl_mono in E.
  destruct (Z.leb_spec width w); injection H as <- <-; [right|left]; lia.
Qed.

(* ---------- definitionDescriptionParser.Open ---------- *)
Lemma nodeP_dd : nodeP (set_tight (mknode BHTML 102) false).
Proof. constructor; cbn [set_tight mknode blines b_seg bk b_i1 b_i2 bch]; try discriminate; auto; try lia. Qed.

Lemma st_eta (s : st) : s = {| s_h := s_h s; s_c := s_c s; s_r := s_r s |}.
Proof. destruct s; reflexivity. Qed.

Lemma defdesc_open_ok s parent s' o A D N : SInv FF s A D N -> parent = lastid (ids (A ++ N)) -> PndF s A D N parent ->
  defdesc_open space_table s parent = Ok (s', o) ->
  s_c s' = s_c s /\
  match o with
  | None => SInv FF s' A D N /\ s_h s' = s_h s /\ rkey (s_r s') = rkey (s_r s) /\
            (guardC s -> exists pn, nth_error (s_h s) parent = Some pn /\ is_dl pn = false)
  | Some (node, hc, rp) =>
    hc = true /\ rp = false /\ (length (s_h s) <= node)%nat /\ S node = length (s_h s') /\
    nth_error (s_h s') node = Some (set_tight (mknode BHTML 102) false) /\
    SInv FF s' A D N /\ kb_le (s_h s) (s_h s') /\ nopend (s_h s') (A ++ D ++ N)
  end.
Proof.
  intros HS Hpar HPF H. unfold defdesc_open in H.
  bind_inv H x Ex. destruct x as [[s1 line] sg0].
  destruct (peek_s_rline _ _ _ _ _ _ _ HS Ex) as [HS1 [Eh1 [Ec1 [Ek1 El]]]].
  cbv zeta in H. rewrite Ec1 in H.
  destruct (Z.ltb_spec (c_boff (s_c s)) 0) as [Hneg|Hpos].
  { injection H as <- <-. csplit; auto. intros [G _]. lia. }
  bind_inv H ch Ech.
  destruct (negb (N.eqb ch 58) || negb (c_bind (s_c s) =? 0))%bool eqn:Eg.
  { injection H as <- <-. csplit; auto. intros [_ [G2 G3]]. rewrite <- El in G3. rewrite Ech in G3. injection G3 as ->.
    rewrite G2 in Eg. discriminate Eg. }
  bind_inv H pn Epn. apply hget_ok in Epn. rewrite Eh1 in Epn.
  destruct (is_dl pn) eqn:Hpdl; cbn [negb] in H.
  2: { injection H as <- <-. csplit; auto. intros _. exists pn. auto. }
  bind_inv H h1 Eh1'. apply hupd_ok in Eh1'. destruct Eh1' as [pn' [Epn' ->]]. assert (pn' = pn) by congruence. subst pn'. clear Epn'.
  pose proof (hi_heap _ _ _ _ _ _ _ _ (proj2 HS)) as HhS. pose proof (hi_open _ _ _ _ _ _ _ _ (proj2 HS)) as HoS.
  pose proof (nth_some_lt _ _ _ Epn) as Lpn.
  (* the parent is an opened block *)
  assert (In parent (ids (A ++ N))) as HpAN.
  { destruct (CC lastid_cases (ids (A ++ N))) as [[_ E0]|[_ Hin]]; [|rewrite Hpar; exact Hin].
    exfalso. rewrite <- Hpar in E0. subst parent. destruct (hs_root _ _ _ HhS) as [n0 [En0 [K0 _]]]. rewrite E0 in Epn.
    assert (n0 = pn) by congruence. subst n0. apply is_dl_kind in Hpdl. destruct Hpdl as [Kd _]. congruence. }
  destruct (in_ids_inv _ _ (in_AN_all A D N parent HpAN)) as [pbp HpE].
  (* the list with its b_seg cleared *)
  set (h1 := hset (s_h s1) parent (set_seg pn None)) in *.
  assert (SInv FF (st_h s1 h1) A D N) as HS2.
  { destruct HS1 as [HR1 HH1]. split; [exact HR1|]. cbn [st_h s_h s_c s_r]. unfold h1.
    eapply (CC HI_set_dl); try eassumption; try reflexivity.
    - rewrite Eh1. exact Epn.
    - exact (np_dl _ _ _ (hs_node _ _ _ HhS _ _ Epn) Hpdl).
    - left. reflexivity. }
  assert (kb_le (s_h s) h1) as Hk1.
  { unfold h1. rewrite Eh1. eapply kb_le_hset; [exact Epn|reflexivity|reflexivity]. }
  assert (nopend h1 (A ++ D ++ N)) as Hnp1.
  { intros x bq n Hin Enx Hdl. unfold h1 in Enx. rewrite Eh1 in Enx. destruct (Nat.eq_dec x parent) as [->|Hne].
    - rewrite nth_hset_eq in Enx by exact Lpn. injection Enx as <-. reflexivity.
    - rewrite nth_hset_ne in Enx by congruence. destruct (b_seg n) as [sg|] eqn:Esg; [exfalso|reflexivity].
      destruct (os_pend _ _ _ _ _ _ HoS x bq n Hin Enx Hdl ltac:(congruence)) as [HN Ex'].
      apply Hne. rewrite Ex', Hpar. symmetry. apply S_lastid_app_ne. exact HN. }
  bind_inv H s3 E3.
  assert (SInv FF s3 A D N /\ s_c s3 = s_c s /\ s_r s3 = s_r s1 /\ kb_le (s_h s) (s_h s3) /\ nopend (s_h s3) (A ++ D ++ N)) as [HS3 [Ec3 [Er3 [Hk3 Hnp3]]]].
  { destruct (b_seg pn) as [sg|] eqn:Esg.
    2: { injection E3 as <-. csplit; auto. }
    set (para := Z.to_nat (s_start sg)) in *.
    destruct (HPF pn sg Epn Hpdl Esg) as [[prn [Eprn Kprn]] [HpaAN HpaD]]. fold para in Eprn, HpaAN, HpaD.
    assert (para <> parent) as Hpp by (intros E; apply HpaAN; rewrite E; exact HpAN).
    destruct (os_pend _ _ _ _ _ _ HoS parent pbp pn HpE Epn Hpdl ltac:(congruence)) as [HN EpN].
    bind_inv E3 prn1 Eprn1. apply hget_ok in Eprn1. cbn [st_h s_h] in Eprn1. unfold h1 in Eprn1. rewrite Eh1, nth_hset_ne in Eprn1 by congruence.
    assert (prn1 = prn) by congruence. subst prn1.
    bind_inv E3 stt Et. rewrite (st_eta stt) in Et. rewrite (st_eta (st_h s1 h1)) in Et. cbn [st_h s_h s_c s_r] in Et.
    pose proof HS2 as [HR2 HH2]. cbn [st_h s_h s_c s_r] in HR2, HH2.
    destruct (np_para _ _ _ (hs_node _ _ _ HhS _ _ Eprn) Kprn) as [Hpl _].
    destruct (CC add_terms_ok _ (s_c s1) A D N parent (blines prn) h1 (s_r s1) (s_h stt) (s_c stt) (s_r stt) HH2 HN Hpar) as
      [HHt [Ect [Ert [Hlt [Hotht [nl [nl' [Enl [Enl' [Kl' [Pl' [Ll' [Il' [Bl' Cl']]]]]]]]]]]]]]; auto.
    { destruct HR2 as [_ [E _]]. exact E. }
    { exists (set_seg pn None). split; [unfold h1; rewrite Eh1; apply nth_hset_eq; exact Lpn|].
      unfold cnt. change (is_dl (set_seg pn None)) with (is_dl pn). rewrite Hpdl, Bool.orb_true_r. reflexivity. }
    bind_inv E3 prn2 Eprn2. apply hget_ok in Eprn2.
    assert (nth_error h1 para = Some prn) as Eprn_h1 by (unfold h1; rewrite Eh1, nth_hset_ne by congruence; exact Eprn).
    rewrite (Hotht para prn Eprn_h1 Hpp) in Eprn2. injection Eprn2 as <-.
    destruct (bpar prn) as [pp|] eqn:Ppp; [|discriminate].
    bind_inv E3 hr Er. injection E3 as <-. cbn [st_h s_h s_c s_r].
    assert (para <> pp) as Hnpp.
    { intros E. rewrite <- E in Ppp. exact (hs_noself _ _ _ HhS _ _ Eprn Ppp). }
    destruct (CC HI_remove_para _ _ _ A D N pp para hr HHt Er Hnpp HpaAN) as [HHr [Hlr [Hkr Hothr]]].
    { intros Hin. split; [exact HN|exact (HpaD Hin)]. }
    assert (kind_le h1 (s_h stt)) as Hkt.
    { intros j m Ej. destruct (Nat.eq_dec j parent) as [->|Hj].
      - assert (m = nl) by congruence. subst m. exists nl'. auto.
      - exists m. split; [apply Hotht; assumption|reflexivity]. }
    assert (SInv FF (st_h stt hr) A D N) as HSr.
    { split; cbn [st_h s_h s_c s_r]; rewrite ?Ect, ?Ert; [exact HR2|exact HHr]. }
    cbn [st_h s_h s_c s_r]. csplit; auto; try congruence.
    - eapply kb_le_trans; [exact Hk1|]. apply kind_kb_le. eapply kind_le_trans; eassumption.
    - intros x bq n Hin Enx Hdl.
      destruct (os_pair _ _ _ _ _ _ (hi_open _ _ _ _ _ _ _ _ HH2) x bq Hin) as [n1 [En1 _]].
      destruct (kind_le_nth _ _ _ _ (kind_le_trans _ _ _ Hkt Hkr) En1) as [n' [En' [_ [_ [Kdl [_ [_ [_ Ksg]]]]]]]].
      assert (n' = n) by congruence. subst n'. rewrite Kdl in Hdl. rewrite (Ksg Hdl). eapply Hnp1; eassumption. }
  match type of H with (let '(_, _) := ?e in _) = _ => destruct e as [cpos padding] eqn:Eip end.
  bind_inv H r Er. unfold new_node, halloc in H. cbv beta iota zeta in H. injection H as <- <-.
  cbn [st_h st_r s_h s_c s_r].
  (* the line is not empty: the reader is in range *)
  assert (r_in_range (s_r s1) = true) as Hir.
  { destruct (r_in_range (s_r s)) eqn:Eir.
    - destruct HS as [HRs _]. destruct HS1 as [HR1 _]. cbn [rd_ok] in HRs, HR1.
      unfold rkey in Ek1. injection Ek1 as K1 K2 K3. rewrite (in_range_eq _ _ K2 K1). exact Eir.
    - unfold rline in El. rewrite Eir in El. subst line. cbn [line_of] in Ech. unfold at_ in Ech.
      destruct ((0 <=? c_boff (s_c s)) && (c_boff (s_c s) <? zlen (@nil BinNums.N)))%bool eqn:Eb; [|discriminate].
      apply andb_true_iff in Eb. destruct Eb as [_ Eb]. unfold zlen in Eb. cbn in Eb. lia. }
  assert (R2 src r /\ Rle (s_r s3) r) as [HRr Hle].
  { rewrite Er3 in *. destruct HS3 as [HR3 _]. cbn [rd_ok] in HR3. rewrite Er3 in HR3.
    destruct (ip_any _ _ _ _ _ Eip) as [[-> ->]|[Hc Hp]].
    - eapply adv_pad_ok; [exact HR3| | |exact Er]; [lia|intros Hf; exfalso; lia].
    - eapply adv_pad_ok; [exact HR3| | |exact Er]; [lia|]. intros _. right. split; [lia|exact Hir]. }
  pose proof (CC SInv_reader _ _ _ _ _ HS3 HRr Hle) as HS4.
  pose proof (CC SInv_alloc FF _ (set_tight (mknode BHTML 102) false) A D N HS4 nodeP_dd eq_refl eq_refl ltac:(discriminate)) as HS5.
  cbn [st_h st_r s_h s_c s_r] in HS5.
  csplit; auto.
  - apply kb_le_length. exact Hk3.
  - rewrite app_length. cbn [length]. lia.
  - apply nth_app_new.
  - eapply kb_le_trans; [exact Hk3|apply kb_le_app].
  - intros x bq n Hin Enx Hdl. apply nth_app_inv in Enx. destruct Enx as [[-> ->]|[_ Enx]]; [discriminate Hdl|].
    eapply Hnp3; eassumption.
Qed.

End S.
