(* Helper file for FootnoteWfTotBlkCont.v: listItemParser.Open (list_item_open_s) under the state
   invariant SI. *)
Require Import GM.model.Base GM.model.Util GM.model.Reader GM.model.ReaderSpec GM.model.Blocks GM.model.ListItem
               GM.model.LeafBlocks GM.model.CodeBlock GM.model.LinkDest GM.model.Regex GM.model.BlockParse.
Require Import GM.proofs.ReaderProofs GM.proofs.BlocksProofs GM.proofs.BlockRangeProofs
               GM.proofs.ParseBlocksTotalReader GM.proofs.FootnoteWfTotBlkPad GM.proofs.FootnoteWfTotBlkPad2 GM.proofs.FootnoteWfTotBlkDefs GM.proofs.FootnoteWfTotBlkSpec
               GM.proofs.FootnoteWfTotBlkSt.
From Coq Require Import ZArith Lia List Bool.
Open Scope Z_scope.

Section S.
Variable space_table : list N.
Variable src : bytes.
Variable lst : option nat.
Hypothesis tbl : TblOK space_table.
Notation SI := (SI space_table src lst).
Notation open_post := (open_post space_table src lst).

(* ---------- util.IndentWidth: pure facts ---------- *)
(* a tab step is between 1 and 4 columns *)
Lemma lio_tab_step x : 1 <= 4 - x mod 4 <= 4.
Proof. pose proof (Z.mod_pos_bound x 4 ltac:(lia)). lia. Qed.

(* the width only grows *)
Lemma lio_iw_mono bs : forall cur w pos, w <= fst (indent_width_pos bs cur w pos).
Proof.
  induction bs as [|c bs IH]; intros cur w pos; cbn [indent_width_pos]; [cbn [fst]; lia|].
  destruct (N.eqb c 32).
  - specialize (IH cur (w + 1) (pos + 1)). lia.
  - destruct (N.eqb c 9); [|cbn [fst]; lia].
    specialize (IH cur (w + (4 - (cur + w) mod 4)) (pos + 1)). pose proof (lio_tab_step (cur + w)). lia.
Qed.

(* a non-zero width means that the first byte is a blank or a tab *)
Lemma lio_iw_first bs cur : fst (indent_width bs cur) <> 0 -> exists c r, bs = c :: r /\ (c = 32%N \/ c = 9%N).
Proof.
  unfold indent_width. destruct bs as [|c r]; cbn [indent_width_pos]; [cbn [fst]; lia|].
  intros H. exists c, r. split; [reflexivity|].
  destruct (N.eqb_spec c 32) as [E|E]; [left; exact E|].
  destruct (N.eqb_spec c 9) as [E9|E9]; [right; exact E9|]. cbn [fst] in H. lia.
Qed.

Lemma lio_iw_ge1 c r cur : c = 32%N \/ c = 9%N -> 1 <= fst (indent_width (c :: r) cur).
Proof.
  intros [->| ->]; unfold indent_width; cbn [indent_width_pos]; rewrite ?N.eqb_refl.
  - pose proof (lio_iw_mono r cur (0 + 1) (0 + 1)). lia.
  - change (N.eqb 9 32) with false. cbv iota.
    pose proof (lio_iw_mono r cur (0 + (4 - (cur + 0) mod 4)) (0 + 1)). pose proof (lio_tab_step (cur + 0)). lia.
Qed.

(* ---------- util.IndentPosition: it finds a position when the indentation is wide enough ---------- *)
Lemma lio_ip_loop bs cur width : forall w i pos, width <= fst (indent_width_pos bs cur w pos) ->
  exists w' i', indent_position_loop bs cur w i 0 width = (w', i') /\ width <= w' /\ i <= i' <= i + zlen bs /\
    (forall k, 0 <= k < i' - i -> nth (Z.to_nat k) bs 0%N <> 10%N).
Proof.
  induction bs as [|c bs IH]; intros w i pos H; cbn [indent_position_loop indent_width_pos] in *.
  - cbn [fst] in H. exists w, i. rewrite zlen_nil. csplit; auto; try lia.
  - change (0 <? 0) with false. cbv iota. rewrite zlen_cons. pose proof (zlen_nonneg bs) as Hnn.
    assert (Hstop : width <= w -> exists w' i', (w, i) = (w', i') /\ width <= w' /\ i <= i' <= i + (1 + zlen bs) /\
                       (forall k, 0 <= k < i' - i -> nth (Z.to_nat k) (c :: bs) 0%N <> 10%N)).
    { intros Hw. exists w, i. csplit; auto; try lia. }
    assert (Hgo : forall w1 c0, c0 <> 10%N -> c = c0 ->
              width <= fst (indent_width_pos bs cur w1 (pos + 1)) ->
              exists w' i', indent_position_loop bs cur w1 (i + 1) 0 width = (w', i') /\ width <= w' /\
                 i <= i' <= i + (1 + zlen bs) /\
                 (forall k, 0 <= k < i' - i -> nth (Z.to_nat k) (c :: bs) 0%N <> 10%N)).
    { intros w1 c0 Hc0 Ec Hw1. destruct (IH w1 (i + 1) (pos + 1) Hw1) as (w' & i' & E & Q1 & Q2 & Q3).
      exists w', i'. csplit; auto; try lia. intros k Hk.
      destruct (Z.eq_dec k 0) as [->|Hk0]; [cbn [Z.to_nat nth]; congruence|].
      replace (Z.to_nat k) with (S (Z.to_nat (k - 1))) by lia. cbn [nth]. apply Q3. lia. }
    destruct (N.eqb_spec c 9) as [E9|E9]; cbn [andb].
    + replace (N.eqb c 32) with false in H by (subst c; reflexivity).
      destruct (Z.ltb_spec w width) as [Hlt|Hge].
      * unfold tab_width. apply (Hgo _ 9%N); [discriminate|exact E9|exact H].
      * replace (N.eqb c 32) with false by (subst c; reflexivity). cbn [andb]. apply Hstop. lia.
    + destruct (N.eqb_spec c 32) as [E32|E32]; cbn [andb].
      * destruct (Z.ltb_spec w width) as [Hlt|Hge]; [|apply Hstop; lia].
        apply (Hgo _ 32%N); [discriminate|exact E32|exact H].
      * cbn [fst] in H. apply Hstop. exact H.
Qed.

Lemma lio_indent_position bs cur width : 1 <= width <= fst (indent_width bs cur) ->
  exists pos pad, indent_position bs cur width = (pos, pad) /\ 0 <= pos <= zlen bs /\ 0 <= pad /\
    (forall k, 0 <= k < pos -> nth (Z.to_nat k) bs 0%N <> 10%N).
Proof.
  intros Hw. unfold indent_position, indent_position_padding.
  destruct (Z.eqb_spec width 0) as [E|_]; [lia|].
  destruct (lio_ip_loop bs cur width 0 0 0 ltac:(unfold indent_width in Hw; lia)) as (w' & i' & E & Q1 & Q2 & Q3).
  rewrite E. destruct (Z.leb_spec width w') as [_|Hlt]; [|lia].
  exists (i' - 0), (w' - width). csplit; auto; try lia.
Qed.

(* ---------- leading blanks ---------- *)
Lemma lio_count_blanks_ge l : forall p, 0 <= p <= zlen l ->
  (forall k, 0 <= k < p -> nth (Z.to_nat k) l 0%N = 32%N) -> p <= count_blanks l.
Proof.
  induction l as [|c l IH]; intros p Hp Hk; cbn [count_blanks].
  - unfold zlen in Hp. cbn [length] in Hp. lia.
  - rewrite zlen_cons in Hp. destruct (Z.eq_dec p 0) as [->|Hp0].
    + pose proof (br_count_blanks_range l). destruct (N.eqb c 32); lia.
    + pose proof (Hk 0 ltac:(lia)) as H0. cbn [Z.to_nat nth] in H0. subst c. rewrite N.eqb_refl.
      specialize (IH (p - 1) ltac:(lia)).
      assert (p - 1 <= count_blanks l); [|lia]. apply IH. intros k Hk1.
      specialize (Hk (k + 1) ltac:(lia)). replace (Z.to_nat (k + 1)) with (S (Z.to_nat k)) in Hk by lia. exact Hk.
Qed.

(* ---------- the shape of a recognised list item line ---------- *)
Lemma lio_tail_shape (line : bytes) (ind i : Z) (t : N) (m : lmatch) (typ : N) :
  parse_list_item_tail line ind i t = (m, typ) -> typ <> 0%N ->
  m1 m = ind /\ m3 m = i /\
  (m4 m = -1 \/
   (m4 m = i /\ i < zlen line /\
    ((nth_byte line i = 10%N /\ m5 m = zlen line) \/ fst (indent_width (zskip i line) 0) <> 0))).
Proof.
  intros H Htyp. unfold parse_list_item_tail in H. cbv zeta in H.
  destruct (Z.ltb_spec i (zlen line)) as [Hlt|Hge]; cbn [andb] in H.
  2:{ destruct (Z.leb_spec (zlen line) i) as [_|C]; [|lia]. injection H as <- _. cbn [m1 m3 m4]. auto. }
  destruct (Z.leb_spec (zlen line) i) as [C|_]; [lia|].
  destruct (N.eqb_spec (nth_byte line i) 10) as [E10|E10]; cbn [negb andb] in H.
  - rewrite andb_false_r in H. injection H as <- _. cbn [m1 m3 m4 m5]. csplit; auto. right. csplit; auto.
  - destruct (Z.eqb_spec (fst (indent_width (zskip i line) 0)) 0) as [E0|E0].
    + injection H as _ <-. congruence.
    + injection H as <- _. cbn [m1 m3 m4 m5]. csplit; auto.
Qed.

Lemma lio_pli_shape (line : bytes) (m : lmatch) (typ : N) :
  parse_list_item line = (m, typ) -> typ <> 0%N ->
  m1 m = count_blanks line /\
  (m4 m = -1 \/
   (m4 m = m3 m /\ m3 m < zlen line /\
    ((nth_byte line (m3 m) = 10%N /\ m5 m = zlen line) \/ fst (indent_width (zskip (m3 m) line) 0) <> 0))).
Proof.
  intros H Htyp. unfold parse_list_item in H. cbv zeta in H.
  destruct (3 <? count_blanks line); [injection H as _ <-; congruence|].
  destruct (zlen line <=? count_blanks line); [injection H as _ <-; congruence|].
  destruct (N.eqb (nth_byte line (count_blanks line)) 45 || N.eqb (nth_byte line (count_blanks line)) 42
            || N.eqb (nth_byte line (count_blanks line)) 43)%bool.
  { destruct (lio_tail_shape _ _ _ _ _ _ H Htyp) as (A1 & A3 & A4). rewrite A3. auto. }
  destruct ((count_digits (zskip (count_blanks line) line) =? 0) || (9 <? count_digits (zskip (count_blanks line) line)))%bool.
  { injection H as _ <-. congruence. }
  match type of H with (if ?b then _ else _) = _ => destruct b end.
  2:{ injection H as _ <-. congruence. }
  destruct (lio_tail_shape _ _ _ _ _ _ H Htyp) as (A1 & A3 & A4). rewrite A3. auto.
Qed.

Lemma lio_sp10 : is_space space_table 10 = true.
Proof. rewrite tbl. reflexivity. Qed.

(* calcListOffset is 1 or the width of the white space behind the marker *)
Lemma lio_calc_cases line m lo :
  calc_list_offset space_table line m lo = 1 \/
  (is_blank space_table (zskip (m4 m) line) = false /\
   calc_list_offset space_table line m lo = fst (indent_width (zskip (m4 m) line) (lo + m4 m)) /\
   fst (indent_width (zskip (m4 m) line) (lo + m4 m)) <= 4).
Proof.
  unfold calc_list_offset. destruct (m4 m <? 0); cbn [orb]; [auto|].
  destruct (is_blank space_table (zskip (m4 m) line)); [auto|].
  destruct (Z.ltb_spec 4 (fst (indent_width (zskip (m4 m) line) (lo + m4 m)))) as [C|C]; [auto|]. right. auto.
Qed.

(* a line that ends behind the marker with a newline: the rest is blank *)
Lemma lio_nl_rest_blank r i : RI r -> 0 <= i < zlen (r_view r) -> nth_byte (r_view r) i = 10%N ->
  is_blank space_table (zfirst (zlen (r_view r) - i) (zskip i (r_view r))) = true /\
  is_blank space_table (zskip i (r_view r)) = true.
Proof.
  intros HI Hi E. unfold nth_byte in E.
  assert (Hl : i = zlen (r_view r) - 1).
  { destruct (Z.eq_dec i (zlen (r_view r) - 1)) as [Q|Q]; [exact Q|].
    exfalso. apply (view_no_nl r i HI ltac:(lia)). exact E. }
  assert (Hs : zskip i (r_view r) = [10%N]).
  { unfold zskip. rewrite skipn_split by lia. rewrite E. f_equal.
    replace (i + 1) with (zlen (r_view r)) by lia. unfold zlen. rewrite Nat2Z.id. apply skipn_all. }
  rewrite Hs. replace (zlen (r_view r) - i) with 1 by lia.
  unfold zfirst, is_blank. change (Z.to_nat 1) with 1%nat. cbn [firstn forallb].
  rewrite lio_sp10. auto.
Qed.

(* listItemParser.Open on the reader *)
Lemma lio_reader off r : RI r -> r_in_range r = true -> 0 <= off ->
  exists o, list_item_open space_table off r = Ok o /\
    match o with
    | None => snd (parse_list_item (r_view r)) = 0%N
    | Some (no, r', kids) => 0 <= no /\ RI r' /\ same_line r r' /\
        (kids = true -> s_start (r_pos r) + 1 <= s_start (r_pos r'))
    end.
Proof.
  intros HI Hin Hoff. unfold list_item_open.
  destruct (ri_peek r HI) as [r1 (E1 & R1 & P1 & _)]. rewrite E1, Hin. cbn [bind]. cbv beta iota.
  destruct (parse_list_item (r_view r)) as [m typ] eqn:Epl.
  destruct (N.eqb_spec typ 0) as [Et|Et].
  { exists None. split; [reflexivity|]. exact Et. }
  destruct (parse_list_item_in_range _ _ _ Epl Et) as (G1 & G2 & G3 & G4).
  destruct (lio_pli_shape _ _ _ Epl Et) as (F1 & F4).
  destruct (Z.ltb_spec 3 (m1 m - off)) as [C|_]; [lia|].
  destruct (ri_line_offset r1 R1) as [r2 (E2 & R2 & P2 & _)]. rewrite E2. cbn [bind]. cbv beta iota.
  pose proof (same_pos_trans _ _ _ P1 P2) as P12.
  set (lo := r_column r1 (r_head r1)).
  pose proof (lio_calc_cases (r_view r) m lo) as Hco.
  set (co := calc_list_offset space_table (r_view r) m lo) in *.
  (* the result when the item starts with a blank line *)
  assert (Hblank : 1 <= co ->
    exists o, Ok (Some (m3 m + co, r2, false)) = Ok o /\
      match o with
      | None => snd (m, typ) = 0%N
      | Some (no, r', kids) => 0 <= no /\ RI r' /\ same_line r r' /\
          (kids = true -> s_start (r_pos r) + 1 <= s_start (r_pos r'))
      end).
  { intros Hc. eexists. split; [reflexivity|]. cbv beta iota. csplit; [lia|exact R2|apply same_pos_line, P12|discriminate]. }
  destruct F4 as [F4|(F4 & F5 & F6)].
  { rewrite F4. change (-1 <? 0) with true. cbn [orb]. apply Hblank.
    destruct Hco as [->|(_ & Hc & _)]; [lia|]. unfold calc_list_offset in co. subst co.
    rewrite F4. change (-1 <? 0) with true. cbn [orb]. lia. }
  destruct (Z.ltb_spec (m4 m) 0) as [C|_]; [lia|]. cbn [orb].
  destruct F6 as [(E10 & F6)|F6].
  { destruct (lio_nl_rest_blank r (m3 m) HI ltac:(lia) E10) as [B1 B2].
    rewrite F4, F6, B1. apply Hblank. destruct Hco as [->|(Hc & _)]; [lia|]. rewrite F4, B2 in Hc. discriminate. }
  destruct (lio_iw_first _ _ F6) as (c & rest & Ebs & Hc).
  pose proof (lio_iw_ge1 c rest (lo + m4 m) Hc) as Hw. rewrite <- Ebs, <- F4 in Hw.
  assert (Hco1 : 1 <= co <= fst (indent_width (zskip (m4 m) (r_view r)) (lo + m4 m))).
  { destruct Hco as [->|(_ & -> & _)]; lia. }
  destruct (is_blank space_table (zfirst (m5 m - m4 m) (zskip (m4 m) (r_view r)))); [apply Hblank; lia|].
  destruct (lio_indent_position _ _ _ Hco1) as (pos & pad & Eip & Hpos & Hpad & Hnl). rewrite Eip.
  pose proof (ri_bounds r HI) as Hb. pose proof (view_zlen r (proj1 HI)) as Hvz.
  pose proof (same_pos_view _ _ P12) as Hv2. pose proof (same_pos_in_range _ _ P12) as Hin2. rewrite Hin in Hin2.
  assert (Hp2 : r_pos r2 = r_pos r) by (destruct P12 as (_ & Q & _); exact Q).
  rewrite F4 in Hpos, Hnl. unfold zskip in Hpos, Hnl. rewrite zlen_skipn in Hpos by lia.
  destruct (ri_advance_and_set_padding_in_line r2 (m3 m + pos) pad R2 Hin2) as [r3 (E3 & R3 & L3 & S3)].
  - rewrite Hv2. lia.
  - intros k Hk. rewrite Hv2. destruct (Z.lt_ge_cases k (m3 m)) as [Hlt|Hge].
    + apply view_no_nl; [exact HI|lia].
    + specialize (Hnl (k - m3 m) ltac:(lia)). rewrite nth_skipn_add in Hnl.
      replace (Z.to_nat (m3 m) + Z.to_nat (k - m3 m))%nat with (Z.to_nat k) in Hnl by lia. exact Hnl.
  - exact Hpad.
  - rewrite E3. cbn [bind]. eexists. split; [reflexivity|]. cbv beta iota.
    csplit; [lia|exact R3|eapply same_line_trans; [apply same_pos_line, P12|exact L3]|].
    intros _. rewrite S3, Hp2.
    assert (s_pad (r_pos r) <= count_blanks (r_view r)); [|lia].
    apply lio_count_blanks_ge; [lia|]. intros k Hk. apply nth_view_pad. exact Hk.
Qed.

(* lastOffset of a List node: the Offset of its last item, which is not negative *)
Lemma lio_last_offset h parent pn : HInv space_table src lst h -> nth_error h parent = Some pn -> bk pn = BList ->
  exists off, last_offset h parent = Ok off /\ 0 <= off.
Proof.
  intros HH Hp Hk. unfold last_offset. rewrite (hget_some _ _ _ Hp). cbn [bind].
  destruct (last_id (bch pn)) as [c|] eqn:El.
  - apply last_id_in in El.
    pose proof (hi_ch_valid _ _ _ _ _ _ HH Hp) as Hch. rewrite Forall_forall in Hch. specialize (Hch c El). cbv beta in Hch.
    destruct (nth_error_ex_lt h c ltac:(lia)) as [cn Hc].
    pose proof (hi_list _ _ _ _ HH parent pn c cn Hp Hk El Hc) as Hkc.
    pose proof (hi_ok _ _ _ _ HH c cn Hc) as Hok. unfold node_ok in Hok. rewrite Hkc in Hok.
    rewrite (hget_some _ _ _ Hc). cbn [bind]. rewrite Hkc. cbn [bkind_eqb]. exists (b_i1 cn). auto.
  - exists 0. split; [reflexivity|lia].
Qed.

Lemma list_item_open_ok s parent pn : SI s -> sin s -> nth_error (s_h s) parent = Some pn ->
  exists s' o, list_item_open_s space_table s parent = Ok (s', o) /\ open_post PListItem parent s s' o /\
    (bk pn = BList -> snd (parse_list_item (sview s)) <> 0%N -> o <> None) /\
    (bk pn <> BList -> o = None).
Proof.
  intros HS Hin Hp. unfold list_item_open_s. rewrite (hget_some _ _ _ Hp). cbn [bind].
  assert (Hnone : open_post PListItem parent s s None).
  { unfold open_post. csplit; auto; try apply r_le_refl; try apply same_pos_refl. unfold cframe. csplit; reflexivity. }
  destruct (bkind_eqb_spec (bk pn) BList) as [Hk|Hk]; cbn [negb].
  2:{ exists s, None. csplit; auto. }
  destruct (lio_last_offset _ _ _ (si_h _ _ _ _ HS) Hp Hk) as [off [Eo Hoff]]. rewrite Eo. cbn [bind].
  destruct (lio_reader off (s_r s) (si_r _ _ _ _ HS) Hin Hoff) as [o [El Ho]]. rewrite El. cbn [bind].
  destruct o as [[[no r'] kids]|].
  2:{ exists s, None. csplit; auto. }
  destruct Ho as (Hno & R' & L' & Hst).
  set (s2 := st_c (st_r s r') (cset_empty (s_c s) false)).
  assert (HS2 : SI s2).
  { apply SI_set_c; [apply SI_set_r; [exact HS|exact R'|apply same_line_le, L'|exact (PadB_list_item_open _ _ _ _ _ _ El (si_pad _ _ _ _ HS))]|].
    destruct (si_c _ _ _ _ HS) as [C1 C2 C3 C4]. constructor; cbn [st_r s_h cset_empty c_len c_arr c_tmp_para c_fence]; assumption. }
  destruct (new_node_ok space_table src lst s2 (mknode BListItem no) HS2) as (N1 & N2 & N3 & N4 & N5);
    try reflexivity.
  { unfold node_ok. cbn [mknode bk b_i1]. exact Hno. }
  { cbn [mknode bk]. discriminate. }
  destruct (new_node s2 (mknode BListItem no)) as [s3 id]. cbn [fst snd] in N1, N2, N3, N4, N5.
  exists s3, (Some (id, kids, false)). split; [reflexivity|].
  csplit; [|discriminate|intros C; contradiction].
  unfold open_post. rewrite N5, N4. cbn [s2 st_c st_r s_h s_c s_r] in *.
  csplit; [exact N1|apply same_line_le, L'|unfold cframe; cbn [cset_empty c_arr c_len c_boff c_bind]; auto|].
  exists (mknode BListItem no). cbn [mknode bk bpar bch kind_of_parser cset_empty c_fence c_tmp_para is_container].
  csplit; auto; try discriminate.
  unfold open_extra. rewrite N5. cbn [st_c st_r s_r]. split; [exists pn; auto|]. intros Hkids. auto.
Qed.

End S.
