(* C02: what the validated component models make of the spellings SpecDoc.md_of chooses.
   Each theorem says that a mechanism of goldmark (its model, tied to the code by the
   correspondence runs) maps every spelling of a leaf construct to the bytes html_of prescribes,
   or that html_of does not look at the spelling at all. *)
Require Import GM.model.Base GM.model.Util GM.model.UtilI GM.model.Ids GM.model.SpecMech GM.model.SpecDoc
               GM.model.HtmlWriter GM.model.Refs GM.model.Blocks.
Require Import GM.proofs.SpecMechProofs GM.proofs.RefsProofs.
From Coq Require Import Lia ZifyBool ZifyNat ZifyN.
Open Scope N_scope.

Require Import GM.proofs.Finite.
Require Import GM.gen.Tables GM.gen.Entities.

(* ---------- the concrete escape table ---------- *)
Definition esc_tab (c : N) : option bytes :=
  if c =? 34 then Some [38;113;117;111;116;59] else if c =? 38 then Some [38;97;109;112;59]
  else if c =? 60 then Some [38;108;116;59] else if c =? 62 then Some [38;103;116;59] else None.

Lemma esc_entry_tab c : esc_entry html_escape_table c = esc_tab c.
Proof.
  destruct (N.ltb_spec c 256) as [Hc|Hc].
  - apply obytes_eqb_eq.
    apply (byte_forall (fun c => obytes_eqb (esc_entry html_escape_table c) (esc_tab c))); [|exact Hc].
    vm_compute. reflexivity.
  - unfold esc_entry. rewrite tbl_overflow; [|vm_compute; reflexivity|exact Hc].
    unfold esc_tab.
    destruct (N.eqb_spec c 34) as [E|_]; [lia|]. destruct (N.eqb_spec c 38) as [E|_]; [lia|].
    destruct (N.eqb_spec c 60) as [E|_]; [lia|]. destruct (N.eqb_spec c 62) as [E|_]; [lia|]. reflexivity.
Qed.

Lemma esc1_tab c : esc1 html_escape_table c = esc_html1 c.
Proof.
  unfold esc1. rewrite esc_entry_tab. unfold esc_tab, esc_html1.
  destruct (c =? 34); [reflexivity|]. destruct (c =? 38); [reflexivity|].
  destruct (c =? 60); [reflexivity|]. destruct (c =? 62); reflexivity.
Qed.

Lemma esc_html1_plain c : c <> 34 -> c <> 38 -> c <> 60 -> c <> 62 -> esc_html1 c = [c].
Proof.
  intros H1 H2 H3 H4. unfold esc_html1.
  destruct (N.eqb_spec c 34) as [E|_]; [contradiction|]. destruct (N.eqb_spec c 38) as [E|_]; [contradiction|].
  destruct (N.eqb_spec c 60) as [E|_]; [contradiction|]. destruct (N.eqb_spec c 62) as [E|_]; [contradiction|].
  reflexivity.
Qed.

Lemma esc_html_cons c v : esc_html (c :: v) = esc_html1 c ++ esc_html v.
Proof. reflexivity. Qed.

Lemma esc_html_high v : Forall (fun c => 128 <= c) v -> esc_html v = v.
Proof.
  induction 1 as [|c v Hc _ IH]; [reflexivity|].
  rewrite esc_html_cons, IH, esc_html1_plain by lia. reflexivity.
Qed.

Lemma encode_rune_hi r : 128 <= r -> Forall (fun c => 128 <= c) (encode_rune r).
Proof.
  intro Hr. unfold encode_rune.
  destruct (N.ltb_spec r 128) as [H0|H0]; [lia|].
  destruct (r <? 2048); [repeat constructor; lia|].
  destruct (negb (valid_rune r)); [repeat constructor; lia|].
  destruct (r <? 65536); repeat constructor; lia.
Qed.

Lemma valid_cp_lt cp : valid_cp cp = true -> cp < 1114112.
Proof. unfold valid_cp. lia. Qed.

Lemma escape_rune_valid cp : valid_cp cp = true ->
  escape_rune html_escape_table cp = esc_html (encode_rune cp).
Proof.
  intros Hv. unfold valid_cp in Hv.
  assert (Htv : to_valid_rune cp = cp).
  { unfold to_valid_rune, valid_rune.
    destruct ((cp =? 0) || negb ((cp <? 55296) || (57344 <=? cp) && (cp <=? 1114111))) eqn:E;
      [exfalso; lia|reflexivity]. }
  unfold escape_rune. rewrite esc_entry_tab, Htv.
  destruct (N.lt_ge_cases cp 128) as [Hlo|Hhi].
  - assert (He : encode_rune cp = [cp]).
    { unfold encode_rune. destruct (N.ltb_spec cp 128) as [_|H0]; [reflexivity|lia]. }
    rewrite He, esc_html_cons. change (esc_html []) with (@nil N). rewrite app_nil_r.
    destruct (N.ltb_spec cp 256) as [_|H0]; [|lia].
    unfold esc_tab, esc_html1.
    destruct (cp =? 34); [reflexivity|]. destruct (cp =? 38); [reflexivity|].
    destruct (cp =? 60); [reflexivity|]. destruct (cp =? 62); reflexivity.
  - rewrite (esc_html_high _ (encode_rune_hi cp Hhi)).
    assert (Hn : esc_tab cp = None).
    { unfold esc_tab.
      destruct (N.eqb_spec cp 34) as [E|_]; [lia|]. destruct (N.eqb_spec cp 38) as [E|_]; [lia|].
      destruct (N.eqb_spec cp 60) as [E|_]; [lia|]. destruct (N.eqb_spec cp 62) as [E|_]; [lia|]. reflexivity. }
    rewrite Hn. destruct (cp <? 256); reflexivity.
Qed.

(* ---------- upper-case hexadecimal digits ---------- *)
Definition up1 (c : N) : N := if (97 <=? c) && (c <=? 122) then c - 32 else c.

Lemma up1_hex c : is_hex c = true -> is_hex (up1 c) = true /\ digit_val (up1 c) = digit_val c.
Proof.
  unfold is_hex, up1, digit_val. intros H.
  destruct ((97 <=? c) && (c <=? 122)) eqn:E.
  - assert (Hr : 97 <= c <= 102) by lia. split; [lia|].
    destruct ((48 <=? c - 32) && (c - 32 <=? 57)) eqn:E1; [exfalso; lia|].
    destruct ((97 <=? c - 32) && (c - 32 <=? 102)) eqn:E2; [exfalso; lia|].
    destruct ((48 <=? c) && (c <=? 57)) eqn:E3; [exfalso; lia|].
    destruct ((97 <=? c) && (c <=? 102)) eqn:E4; [lia|exfalso; lia].
  - split; [exact H|reflexivity].
Qed.

Lemma upper_hex_digits v : forallb is_hex v = true ->
  forallb is_hex (upper v) = true /\
  forall acc, fold_left (fun a c => a * 16 + digit_val c) (upper v) acc =
              fold_left (fun a c => a * 16 + digit_val c) v acc.
Proof.
  induction v as [|c v IH]; intros H; [split; reflexivity|].
  cbn [forallb] in H. apply andb_prop in H. destruct H as [Hc Hv].
  destruct (IH Hv) as [IH1 IH2]. destruct (up1_hex c Hc) as [U1 U2].
  change (upper (c :: v)) with (up1 c :: upper v).
  split.
  - cbn [forallb]. rewrite U1, IH1. reflexivity.
  - intros acc. cbn [fold_left]. rewrite U2. apply IH2.
Qed.

Lemma upper_length v : length (upper v) = length v.
Proof. unfold upper. apply map_length. Qed.

Lemma upper_hex_facts cp : cp < 16777216 ->
  forallb is_hex (upper (hex cp)) = true /\ upper (hex cp) <> [] /\ (length (upper (hex cp)) <= 6)%nat /\
  parse_uint32 16 (upper (hex cp)) = cp.
Proof.
  intros Hcp. destruct (hex_facts cp Hcp) as (Hds & Hne & Hlen & Hval).
  destruct (upper_hex_digits (hex cp) Hds) as [U1 U2].
  repeat split.
  - exact U1.
  - intros E. apply Hne. apply length_zero_iff_nil. rewrite <- upper_length, E. reflexivity.
  - rewrite upper_length. exact Hlen.
  - unfold parse_uint32 in *. rewrite U2. exact Hval.
Qed.

(* ---------- references followed by arbitrary text ---------- *)
Local Notation wref := (write_ref html_escape_table entities).
Local Notation erune := (escape_rune html_escape_table).

Lemma wr_dec cp rest : cp < 1114112 ->
  wref (35 :: dec cp ++ 59 :: rest) = Some (erune cp, rest).
Proof.
  intros Hcp. destruct (dec_facts cp ltac:(lia)) as (Hds & Hne & Hlen & Hval).
  destruct (dec cp) as [|d0 ds] eqn:Edec; [congruence|].
  assert (Hd0 : is_numeric d0 = true).
  { cbn [forallb] in Hds. apply andb_prop in Hds. exact (proj1 Hds). }
  assert (Hx : (d0 =? 120) || (d0 =? 88) = false) by (unfold is_numeric in Hd0; lia).
  unfold write_ref. cbn [app]. rewrite Hx, Hd0.
  change (d0 :: ds ++ 59 :: rest) with ((d0 :: ds) ++ 59 :: rest).
  rewrite (read_while_stop is_numeric (d0 :: ds) 59 rest Hds eq_refl).
  assert (Hl : Nat.ltb (length (d0 :: ds)) 8 = true) by (apply Nat.ltb_lt; lia).
  rewrite Hl, Hval. reflexivity.
Qed.

Lemma wr_hexdigits x ds cp rest : (x =? 120) || (x =? 88) = true ->
  forallb is_hex ds = true -> ds <> [] -> (length ds <= 6)%nat -> parse_uint32 16 ds = cp ->
  wref (35 :: x :: ds ++ 59 :: rest) = Some (erune cp, rest).
Proof.
  intros Hx Hds Hne Hlen Hval. unfold write_ref. rewrite Hx.
  rewrite (read_while_stop is_hex ds 59 rest Hds eq_refl).
  destruct ds as [|d0 ds']; [congruence|].
  assert (Hl : Nat.ltb (length (d0 :: ds')) 7 = true) by (apply Nat.ltb_lt; lia).
  rewrite Hl, Hval. reflexivity.
Qed.

Lemma wr_named_one name cs rest :
  (match name with c :: _ => negb (c =? 35) | [] => false end) = true ->
  forallb is_alnum name = true -> lookup_entity entities name = Some cs ->
  wref (name ++ 59 :: rest) = Some (raw_write html_escape_table cs, rest).
Proof.
  intros Hh Hal Hlk.
  assert (Hrw : read_while is_alnum (name ++ 59 :: rest) = (name, 59 :: rest))
    by (apply read_while_stop; [exact Hal|reflexivity]).
  destruct name as [|c nm]; [discriminate Hh|].
  unfold write_ref. cbn [app] in *.
  assert (HB : (let '(name, tl) := read_while is_alnum (c :: nm ++ 59 :: rest) in
                match name, tl with
                | _ :: _, 59 :: tl' =>
                    match lookup_entity entities name with
                    | Some cs => Some (raw_write html_escape_table cs, tl')
                    | None => None
                    end
                | _, _ => None
                end) = Some (raw_write html_escape_table cs, rest)).
  { rewrite Hrw. cbv beta iota. rewrite Hlk. reflexivity. }
  destruct (N.eqb_spec c 35) as [E|E]; [discriminate Hh|].
  destruct c as [|p]; [exact HB|].
  do 6 (try (destruct p as [p|p|]; try exact HB)).
  exfalso. apply E. reflexivity.
Qed.

Lemma wr_named cp n rest : ent_name cp = Some n ->
  wref (n ++ 59 :: rest) = Some (esc_html (encode_rune cp), rest).
Proof.
  unfold ent_name. intros H.
  destruct (N.eqb_spec cp 38) as [->|_].
  { injection H as <-.
    rewrite (wr_named_one [97;109;112] [38] rest); [|reflexivity|reflexivity|vm_compute; reflexivity].
    apply f_equal. apply (f_equal (fun x => (x, rest))). vm_compute. reflexivity. }
  destruct (N.eqb_spec cp 60) as [->|_].
  { injection H as <-.
    rewrite (wr_named_one [108;116] [60] rest); [|reflexivity|reflexivity|vm_compute; reflexivity].
    apply f_equal. apply (f_equal (fun x => (x, rest))). vm_compute. reflexivity. }
  destruct (N.eqb_spec cp 62) as [->|_].
  { injection H as <-.
    rewrite (wr_named_one [103;116] [62] rest); [|reflexivity|reflexivity|vm_compute; reflexivity].
    apply f_equal. apply (f_equal (fun x => (x, rest))). vm_compute. reflexivity. }
  destruct (N.eqb_spec cp 34) as [->|_].
  { injection H as <-.
    rewrite (wr_named_one [113;117;111;116] [34] rest); [|reflexivity|reflexivity|vm_compute; reflexivity].
    apply f_equal. apply (f_equal (fun x => (x, rest))). vm_compute. reflexivity. }
  destruct (N.eqb_spec cp 169) as [->|_]; [|discriminate H].
  injection H as <-.
  rewrite (wr_named_one [99;111;112;121] [194;169] rest); [|reflexivity|reflexivity|vm_compute; reflexivity].
  apply f_equal. apply (f_equal (fun x => (x, rest))). vm_compute. reflexivity.
Qed.

(* ---------- the writer, one construct at a time ---------- *)
Local Notation W := (WriterWrite false).
Local Notation wwf := (writer_write_fuel html_escape_table punct_table entities).

Lemma W_nil : W [] = [].
Proof. reflexivity. Qed.

Lemma W_plain c rest : c <> 92 -> c <> 0 -> c <> 38 -> W (c :: rest) = esc_html1 c ++ W rest.
Proof.
  intros H1 H2 H3. unfold WriterWrite, writer_write. cbn [length writer_write_fuel].
  destruct (N.eqb_spec c 92) as [E|_]; [contradiction|].
  destruct (N.eqb_spec c 0) as [E|_]; [contradiction|].
  destruct (N.eqb_spec c 38) as [E|_]; [contradiction|].
  rewrite esc1_tab. reflexivity.
Qed.

Lemma W_bs c rest : IsPunct c = true -> W (92 :: c :: rest) = esc_html1 c ++ W rest.
Proof.
  intros Hp. unfold WriterWrite.
  rewrite (writer_backslash_escape html_escape_table punct_table entities c rest Hp), esc1_tab.
  reflexivity.
Qed.

Lemma W_amp rest out tl : wref rest = Some (out, tl) -> W (38 :: rest) = out ++ W tl.
Proof.
  intros H. unfold WriterWrite, writer_write. cbn [length].
  rewrite (wwf_amp html_escape_table punct_table entities _ false rest out tl H). f_equal.
  pose proof (write_ref_len html_escape_table entities rest out tl H) as Hl.
  apply wwf_fuel; lia.
Qed.

Lemma lower_plain c : lower c = true -> c <> 92 /\ c <> 0 /\ c <> 38 /\ esc_html1 c = [c].
Proof.
  unfold lower. intros H. repeat split; try lia. apply esc_html1_plain; lia.
Qed.

Lemma W_word w rest : forallb lower w = true -> W (w ++ rest) = w ++ W rest.
Proof.
  induction w as [|c w IH]; intros H; [reflexivity|].
  cbn [forallb] in H. apply andb_prop in H. destruct H as [Hc Hw].
  destruct (lower_plain c Hc) as (H1 & H2 & H3 & He).
  cbn [app]. rewrite (W_plain c _ H1 H2 H3), He, (IH Hw). reflexivity.
Qed.

Lemma atom_md_ent s cp : atom_md (AEnt s cp) =
  if s =? 0 then match ent_name cp with Some n => [38] ++ n ++ [59] | None => ref_decimal cp end
  else if s =? 1 then ref_decimal cp else if s =? 2 then ref_hex cp else [38;35;88] ++ upper (hex cp) ++ [59].
Proof. reflexivity. Qed.

Lemma W_dec cp rest : valid_cp cp = true ->
  W (ref_decimal cp ++ rest) = esc_html (encode_rune cp) ++ W rest.
Proof.
  intros Hv. unfold ref_decimal. cbn [app]. rewrite <- app_assoc. cbn [app].
  rewrite (W_amp _ _ _ (wr_dec cp rest (valid_cp_lt cp Hv))), (escape_rune_valid cp Hv). reflexivity.
Qed.

Lemma W_leaf a rest : leaf IsPunct a = true -> W (atom_md a ++ rest) = atom_html a ++ W rest.
Proof.
  destruct a as [w|c|s cp| | | | | | | | |]; try discriminate; cbn [leaf]; intros H.
  - change (atom_md (AWord w)) with w. change (atom_html (AWord w)) with w.
    unfold lower_word in H. apply andb_prop in H. apply W_word. exact (proj2 H).
  - change (atom_md (AEsc c)) with [92; c]. change (atom_html (AEsc c)) with (esc_html1 c).
    cbn [app]. apply W_bs. exact H.
  - apply andb_prop in H. destruct H as [_ Hv].
    pose proof (valid_cp_lt cp Hv) as Hcp.
    change (atom_html (AEnt s cp)) with (esc_html (encode_rune cp)).
    rewrite atom_md_ent.
    destruct (s =? 0).
    { destruct (ent_name cp) as [n|] eqn:En; [|apply W_dec; exact Hv].
      cbn [app]. rewrite <- app_assoc. cbn [app].
      rewrite (W_amp _ _ _ (wr_named cp n rest En)). reflexivity. }
    destruct (s =? 1); [apply W_dec; exact Hv|].
    destruct (s =? 2).
    { unfold ref_hex. cbn [app]. rewrite <- app_assoc. cbn [app].
      destruct (hex_facts cp ltac:(lia)) as (Hds & Hne & Hlen & Hval).
      rewrite (W_amp _ _ _ (wr_hexdigits 120 (hex cp) cp rest eq_refl Hds Hne Hlen Hval)),
              (escape_rune_valid cp Hv). reflexivity. }
    cbn [app]. rewrite <- app_assoc. cbn [app].
    destruct (upper_hex_facts cp ltac:(lia)) as (Hds & Hne & Hlen & Hval).
    rewrite (W_amp _ _ _ (wr_hexdigits 88 (upper (hex cp)) cp rest eq_refl Hds Hne Hlen Hval)),
            (escape_rune_valid cp Hv). reflexivity.
Qed.

Lemma atoms_md_cons x y r : leaf IsPunct x = true -> leaf IsPunct y = true ->
  atoms_md (x :: y :: r) = atom_md x ++ 32 :: atoms_md (y :: r).
Proof.
  intros Hx Hy.
  destruct x; try discriminate Hx; destruct y; try discriminate Hy; reflexivity.
Qed.

Lemma atoms_html_cons x y r : leaf IsPunct x = true -> leaf IsPunct y = true ->
  atoms_html (x :: y :: r) = atom_html x ++ 32 :: atoms_html (y :: r).
Proof.
  intros Hx Hy.
  destruct x; try discriminate Hx; destruct y; try discriminate Hy; reflexivity.
Qed.
(* T1: a run of text leaves (words, backslash escapes, character references in any of the four
   spellings) is written by the renderer's writer as the prescribed HTML *)
Theorem text_run_conformance (l : list atom) :
  forallb (leaf IsPunct) l = true ->
  WriterWrite false (atoms_md l) = atoms_html l.
Proof.
  induction l as [|x l IH]; intros H; [reflexivity|].
  cbn [forallb] in H. apply andb_prop in H. destruct H as [Hx Hl].
  destruct l as [|y r].
  - change (atoms_md [x]) with (atom_md x). change (atoms_html [x]) with (atom_html x).
    rewrite <- (app_nil_r (atom_md x)), (W_leaf x [] Hx), W_nil, app_nil_r. reflexivity.
  - assert (Hy : leaf IsPunct y = true).
    { cbn [forallb] in Hl. apply andb_prop in Hl. exact (proj1 Hl). }
    rewrite (atoms_md_cons x y r Hx Hy), (atoms_html_cons x y r Hx Hy).
    rewrite (W_leaf x _ Hx). f_equal.
    rewrite W_plain by lia. rewrite (IH Hl). reflexivity.
Qed.

(* ---------- the end of a line of leaves ---------- *)
Definition sep_ok (pre : bytes) : Prop := pre = [] \/ exists q, pre = q ++ [32].

Lemma atoms_md_last l : l <> [] -> forallb (leaf IsPunct) l = true ->
  exists pre a, leaf IsPunct a = true /\ atoms_md l = pre ++ atom_md a /\ sep_ok pre.
Proof.
  induction l as [|x l IH]; intros Hne H; [congruence|].
  cbn [forallb] in H. apply andb_prop in H. destruct H as [Hx Hl].
  destruct l as [|y r].
  - exists [], x. split; [exact Hx|]. split; [reflexivity|left; reflexivity].
  - assert (Hy : leaf IsPunct y = true).
    { cbn [forallb] in Hl. apply andb_prop in Hl. exact (proj1 Hl). }
    destruct (IH ltac:(discriminate) Hl) as (pre & a & Ha & Heq & Hsep).
    exists (atom_md x ++ 32 :: pre), a. split; [exact Ha|]. split.
    + rewrite (atoms_md_cons x y r Hx Hy), Heq, <- app_assoc. reflexivity.
    + right. destruct Hsep as [->|[q ->]].
      * exists (atom_md x). reflexivity.
      * exists (atom_md x ++ 32 :: q). rewrite <- app_assoc. reflexivity.
Qed.

Lemma punct_not_blank c : IsPunct c = true -> c <> 13 /\ c <> 32.
Proof.
  intros H. split; intros E; subst c; vm_compute in H; discriminate H.
Qed.

Lemma ent_md_end s cp : exists X, atom_md (AEnt s cp) = X ++ [59].
Proof.
  rewrite atom_md_ent. unfold ref_decimal, ref_hex.
  destruct (s =? 0).
  { destruct (ent_name cp) as [n|]; eexists; rewrite app_assoc; reflexivity. }
  destruct (s =? 1); [eexists; rewrite app_assoc; reflexivity|].
  destruct (s =? 2); eexists; rewrite app_assoc; reflexivity.
Qed.

Lemma leaf_tail a pre : leaf IsPunct a = true -> sep_ok pre ->
  exists c r, rev (pre ++ atom_md a) = c :: r /\ c <> 13 /\ c <> 32 /\
              Nat.even (count_trailing_bs_rev (c :: r)) = true.
Proof.
  intros Ha Hsep. rewrite rev_app_distr.
  destruct a as [w|c|s cp| | | | | | | | |]; try discriminate Ha; cbn [leaf] in Ha.
  - change (atom_md (AWord w)) with w.
    unfold lower_word in Ha. apply andb_prop in Ha. destruct Ha as [Hlen Hlow].
    destruct (rev w) as [|c r0] eqn:Er.
    { exfalso. assert (Hl : length w = 0%nat) by (rewrite <- rev_length, Er; reflexivity).
      rewrite Hl in Hlen. discriminate Hlen. }
    assert (Hc : lower c = true).
    { rewrite forallb_forall in Hlow. apply Hlow. apply in_rev. rewrite Er. left. reflexivity. }
    unfold lower in Hc.
    exists c, (r0 ++ rev pre). split; [reflexivity|]. split; [lia|]. split; [lia|].
    rewrite ctb_cons. destruct (N.eqb_spec c 92) as [E|_]; [lia|reflexivity].
  - change (atom_md (AEsc c)) with [92; c]. change (rev [92; c]) with [c; 92].
    destruct (punct_not_blank c Ha) as [H13 H32].
    exists c, (92 :: rev pre). split; [reflexivity|]. split; [exact H13|]. split; [exact H32|].
    rewrite !ctb_cons. change (92 =? 92) with true. cbv iota.
    destruct (c =? 92); [|reflexivity].
    destruct Hsep as [->|[q ->]]; [reflexivity|].
    rewrite rev_app_distr. reflexivity.
  - destruct (ent_md_end s cp) as [X ->]. rewrite rev_app_distr.
    exists 59, (rev X ++ rev pre). split; [reflexivity|]. split; [discriminate|]. split; [discriminate|].
    reflexivity.
Qed.

Lemma lbk_rev c r : c <> 13 ->
  line_break_kind (rev (c :: r) ++ [10]) =
  if ends_with_unescaped_backslash (rev (c :: r)) then 1
  else if c =? 32 then match r with 32 :: _ => 2 | _ => 3 end else 3.
Proof.
  intros Hc. unfold line_break_kind. rewrite rev_app_distr, rev_involutive.
  change (rev [10] ++ c :: r) with (10 :: c :: r).
  destruct (N.eqb_spec c 13) as [E|_]; [contradiction|].
  destruct c as [|p]; [reflexivity|].
  do 7 (try (destruct p as [p|p|]; try reflexivity)).
  exfalso. apply Hc. reflexivity.
Qed.

Lemma ewub_rev rv : ends_with_unescaped_backslash (rev rv) = Nat.odd (count_trailing_bs_rev rv).
Proof. unfold ends_with_unescaped_backslash. rewrite rev_involutive. reflexivity. Qed.

(* T2: the hard-break test classifies the end of a line of leaves by the spelling of the break
   alone: escaped backslashes before it never change the reading *)
Theorem hard_break_spellings (l : list atom) (st : N) :
  l <> [] -> forallb (leaf IsPunct) l = true ->
  line_break_kind (atoms_md l ++ atom_md (AHard st)) = (if st =? 0 then 2 else 1) /\
  line_break_kind (atoms_md l ++ atom_md ASoft) = 3.
Proof.
  intros Hne Hl.
  destruct (atoms_md_last l Hne Hl) as (pre & a & Ha & Heq & Hsep).
  destruct (leaf_tail a pre Ha Hsep) as (c & r & Hrev & H13 & H32 & Hev).
  rewrite <- Heq in Hrev. clear Heq Hsep Ha pre a.
  assert (Hb : atoms_md l = rev (c :: r)) by (rewrite <- Hrev, rev_involutive; reflexivity).
  split.
  - change (atom_md (AHard st)) with (if st =? 0 then [32;32;10] else [92;10]).
    destruct (st =? 0).
    + replace (atoms_md l ++ [32;32;10]) with (rev (32 :: 32 :: rev (atoms_md l)) ++ [10])
        by (cbn [rev]; rewrite rev_involutive, <- !app_assoc; reflexivity).
      rewrite lbk_rev by discriminate. rewrite ewub_rev. reflexivity.
    + replace (atoms_md l ++ [92;10]) with (rev (92 :: rev (atoms_md l)) ++ [10])
        by (cbn [rev]; rewrite rev_involutive, <- !app_assoc; reflexivity).
      rewrite lbk_rev by discriminate. rewrite ewub_rev, Hrev.
      change (count_trailing_bs_rev (92 :: c :: r)) with (Datatypes.S (count_trailing_bs_rev (c :: r))).
      rewrite Nat.odd_succ, Hev. reflexivity.
  - change (atom_md ASoft) with [10]. rewrite Hb.
    rewrite (lbk_rev c r H13), ewub_rev. unfold Nat.odd. rewrite Hev. cbn [negb].
    destruct (N.eqb_spec c 32) as [E|_]; [contradiction|reflexivity].
Qed.
