(* HeadingOptsWf, part N (fork of ParseBlocksRangeN.v): openBlocks of the heading-options model
   (try_parsersH, open_blocks_loopH, open_blocksH) keeps the Range invariant and the attribute invariant AI. *)
Require Import GM.model.Base GM.model.Util GM.model.Reader GM.model.ReaderSpec GM.model.Blocks GM.model.ListItem
               GM.model.LeafBlocks GM.model.CodeBlock GM.model.LinkDest GM.model.Regex GM.model.HtmlWriter
               GM.model.Html GM.model.HtmlSpec GM.model.BlockParse GM.model.InlineParse.
Require Import GM.model.Attr GM.model.Ids GM.model.HeadingOpts.
Require Import GM.proofs.ReaderProofs GM.proofs.BlockRangeProofs GM.proofs.ParseInv GM.proofs.HeadingOptsWfDefs
               GM.proofs.ParseBlocksRangeA GM.proofs.HeadingOptsWfBlkB GM.proofs.HeadingOptsWfBlkC
               GM.proofs.HeadingOptsWfBlkD GM.proofs.HeadingOptsWfBlkE
               GM.proofs.HeadingOptsWfBlkG GM.proofs.HeadingOptsWfBlkJ GM.proofs.HeadingOptsWfBlkM
               GM.proofs.HeadingOptsWfAttr GM.proofs.HeadingOptsWfBlkR.
From Coq Require Import ZArith Lia Sorted.
Open Scope Z_scope.

Section N.
Variable hc : hcfg.
Variable space_table punct_table : list N.
Variable norm : bytes -> bytes.
Variable re_t1o re_t1c re_t2 re_t3 re_t4 re_t5 re_t6 re_t7 : re.
Variable allowed_tags : list bytes.
Variable utf8len_table : list N.
Variable spaces : bytes.
Variable src : bytes.
Hypothesis sp32 : is_space space_table 32%N = true.
Set Default Proof Using "All".

(* lemmas of parts C and D take all the section variables: CC supplies them *)
Notation CC f := (f space_table punct_table norm re_t1o re_t1c re_t2 re_t3 re_t4 re_t5 re_t6 re_t7 allowed_tags src sp32) (only parsing).
Notation SInv := (SInv space_table src).
Notation HI := (HI space_table src).
Notation nodeP := (nodeP space_table src).
Notation heapS := (heapS space_table src).
Notation Jinv := (Jinv src).
Notation openS := (openS src).
Notation pline := (pline space_table src).
Notation oline := (oline src).
Notation fin_lines := (fin_lines src).
Notation NLseg := (NLseg src).
Notation fin_linesH := (fin_linesH src).
Notation fin := (fin src).
Notation cont_post := (cont_post space_table src).
Notation item_guard := (item_guard space_table).
Notation verdict := (verdict space_table).
Hypothesis Hsrc : bytes_ok src.
Notation CE f := (f space_table punct_table norm re_t1o re_t1c re_t2 re_t3 re_t4 re_t5 re_t6 re_t7 allowed_tags src sp32) (only parsing).
Notation CJ f := (f space_table punct_table norm re_t1o re_t1c re_t2 re_t3 re_t4 re_t5 re_t6 re_t7 allowed_tags src sp32 Hsrc) (only parsing).
Notation OInv := (OInv space_table src).
Notation popen_post := (popen_post space_table src).
Notation CR f := (f hc space_table punct_table norm re_t1o re_t1c re_t2 re_t3 re_t4 re_t5 re_t6 re_t7 allowed_tags utf8len_table spaces src sp32 Hsrc) (only parsing).

(* ---------- what transformParagraph and Continue of paragraphs leave alone ---------- *)
(* every node below L but `node` keeps kind and parent, and stays childless if it was *)
Definition fr (node L : nat) (h h' : heap) : Prop :=
  forall j nj, nth_error h j = Some nj -> j <> node -> (j < L)%nat ->
  exists nj', nth_error h' j = Some nj' /\ bk nj' = bk nj /\ bpar nj' = bpar nj /\ (bch nj = [] -> bch nj' = []).
Lemma fr_refl node L h : fr node L h h.
Proof. intros j nj E _ _. exists nj. auto. Qed.
Lemma fr_trans node L a b c : fr node L a b -> fr node L b c -> fr node L a c.
Proof.
  intros H1 H2 j nj E Hj Hl. destruct (H1 j nj E Hj Hl) as [n1 [E1 [K1 [P1 C1]]]]. destruct (H2 j n1 E1 Hj Hl) as [n2 [E2 [K2 [P2 C2]]]].
  exists n2. csplit; auto; congruence.
Qed.
Lemma fr_app node L h n : fr node L h (h ++ [n]).
Proof. intros j nj E _ _. exists nj. rewrite nth_error_app1 by (eapply nth_some_lt; eassumption). auto. Qed.
Lemma fr_hupd node L h i f h' : hupd h i f = Ok h' ->
  (i <> node -> (i < L)%nat -> forall n, bk (f n) = bk n /\ bpar (f n) = bpar n /\ (bch n = [] -> bch (f n) = [])) -> fr node L h h'.
Proof.
  intros H Hf j nj E Hj Hl. apply hupd_ok in H. destruct H as [n [En ->]]. destruct (Nat.eq_dec j i) as [->|Hne].
  - assert (nj = n) by congruence. subst nj. exists (f n). rewrite nth_hset_eq by (eapply nth_some_lt; eassumption).
    destruct (Hf Hj Hl n) as [K [P C]]. auto.
  - exists nj. rewrite nth_hset_ne by congruence. auto.
Qed.

Lemma transform_frame s node s' gone : transform_paragraph space_table punct_table norm s node = Ok (s', gone) ->
  fr node (length (s_h s)) (s_h s) (s_h s').
Proof.
  intros H. unfold transform_paragraph in H. bind_inv H s1 E1. bind_inv H n1 En1. injection H as <- _.
  unfold lrd_transform in E1. bind_inv E1 n En. bind_inv E1 br Ebr. bind_inv E1 x Ex. destruct x as [c removes].
  bind_inv E1 lines El. destruct lines as [|l0 ls].
  - unfold new_node, halloc in E1. cbv beta iota zeta in E1. cbn [st_c st_h s_h s_c] in E1.
    destruct (bpar n) as [p|]; [|discriminate]. bind_inv E1 h1 Eh. injection E1 as <-. cbn [st_h s_h].
    eapply fr_trans; [apply fr_app|].
    unfold replace_child in Eh. bind_inv Eh no Eno. destruct (opt_nat_eqb (bpar no) (Some p)).
    + bind_inv Eh h2 E2. bind_inv Eh h3 E3.
      eapply fr_trans; [eapply fr_hupd; [exact E2|]|eapply fr_trans; [eapply fr_hupd; [exact E3|]|eapply fr_hupd; [exact Eh|]]].
      * intros _ _ m. cbn [set_ch bk bpar bch]. csplit; auto. intros ->. reflexivity.
      * intros _ Hl. lia.
      * intros Hne _. congruence.
    + injection Eh as <-. apply fr_refl.
  - cbn [st_c s_h] in E1. bind_inv E1 h1 Eh. injection E1 as <-. cbn [st_h s_h].
    eapply fr_hupd; [exact Eh|]. intros Hne _. congruence.
Qed.

Lemma paragraph_continue_shape s node s' cont : paragraph_continue space_table s node = Ok (s', cont) ->
  shape_le (s_h s) (s_h s').
Proof.
  intros H. unfold paragraph_continue in H. bind_inv H x Ex. destruct x as [[s1 l] sg].
  unfold peek_line_s in Ex. bind_inv Ex y Ey. destruct y as [[r1 l1] sg1]. injection Ex as <- <- <-. cbn [st_r s_h] in H.
  destruct (Reader.is_blank space_table (line_of l1)).
  - injection H as <- _. apply shape_le_refl.
  - bind_inv H h1 Eh. bind_inv H s2 Ea. injection H as <- _. unfold advance_s in Ea. bind_inv Ea r2 Er. injection Ea as <-.
    cbn [st_r st_h s_h]. apply hupd_ok in Eh. destruct Eh as [n [En ->]]. eapply shape_le_hset; [exact En|apply (CC same_shape_lines)].
Qed.


(* ---------- list items are only opened below lists ---------- *)
Lemma list_item_open_parent s parent s' x : list_item_open_s space_table s parent = Ok (s', Some x) ->
  exists pn, nth_error (s_h s) parent = Some pn /\ bk pn = BList.
Proof.
  intros H. unfold list_item_open_s in H. bind_inv H pn Epn. apply hget_ok in Epn.
  destruct (bkind_eqb (bk pn) BList) eqn:Ek; cbn [negb] in H; [|discriminate].
  apply (CC bkind_eqb_eq) in Ek. eauto.
Qed.

(* ---------- the state after AppendChild and the append to the opened blocks ---------- *)
Lemma uniqS_snoc E y bq : uniqS E -> (bq = PSetext -> forall z, ~ In (z, PSetext) E) -> uniqS (E ++ [(y, bq)]).
Proof.
  intros Hu Hn a b Ha Hb. apply in_app_or in Ha. apply in_app_or in Hb.
  destruct Ha as [Ha|[Ha|[]]], Hb as [Hb|[Hb|[]]].
  - apply Hu; assumption.
  - injection Hb as -> ->. destruct (Hn eq_refl a Ha).
  - injection Ha as -> ->. destruct (Hn eq_refl b Hb).
  - congruence.
Qed.

Lemma attach_state fl s1 s3 A D N node bp nn np blank :
  OInv fl s1 A D N -> nth_error (s_h s1) node = Some nn -> bpar nn = None -> bch nn = [] -> bk nn = pkind bp ->
  (bp = PATX -> fin_linesH (blines nn)) -> (bp = PParagraph -> Forall NLseg (blines nn)) ->
  (bp = PSetext -> (forall z, ~ In (z, PSetext) (A ++ D ++ N)) /\
     exists tmp t, c_tmp_para (s_c s1) = Some tmp /\ nth_error (s_h s1) tmp = Some t /\ bk t = BParagraph /\
                   fin_lines (blines t) /\ ~ In tmp (ids (A ++ D ++ N)) /\ tmp <> node) ->
  (forall tmp y, c_tmp_para (s_c s1) = Some tmp -> In (y, PSetext) (A ++ D ++ N) -> tmp <> node) ->
  ~ In node (ids (A ++ D ++ N)) -> node <> 0%nat ->
  nth_error (s_h s1) (lastid (ids (A ++ N))) = Some np -> container (bk np) = true ->
  (bk nn = BListItem -> bk np = BList) ->
  s_r s3 = s_r s1 -> s_c s3 = push_opened (s_c s1) (node, bp) ->
  append_child (hset (s_h s1) node (set_blank nn blank)) (lastid (ids (A ++ N))) node = Ok (s_h s3) ->
  OInv fl s3 A D (N ++ [(node, bp)]).
Proof.
  intros [[HR HH] [HO Hu]] En Pn Cn Kn Hatx Hpara Hset Htmp Hni Hn0 Ep Kp Hli Er Ec Ha.
  assert (nodeP (set_blank nn blank)) as HnP.
  { eapply nodeP_same; [exact (hs_node _ _ _ (hi_heap _ _ _ _ _ _ _ _ HH) _ _ En)|reflexivity..|].
    intros _. exact Cn. }
  assert (HI (rd_bound fl (s_r s1)) (hset (s_h s1) node (set_blank nn blank)) (s_c s1) A D N) as HH2.
  { eapply (CE HI_hset_free); [exact HH|exact En|exact Pn|repeat split|reflexivity|exact HnP]. }
  assert (node <> lastid (ids (A ++ N))) as Hcp.
  { destruct (CE lastid_cases (ids (A ++ N))) as [[_ E]|[_ Hin]]; [congruence|]. intros E. apply Hni. rewrite E.
    rewrite !ids_app in *. apply in_app_or in Hin. apply in_or_app. destruct Hin; [left; assumption|right; apply in_or_app; right; assumption]. }
  assert (forall j nj, j <> node -> nth_error (s_h s1) j = Some nj ->
            nth_error (hset (s_h s1) node (set_blank nn blank)) j = Some nj) as Hother.
  { intros j nj Hj Ej. rewrite nth_hset_ne by congruence. exact Ej. }
  assert (nth_error (hset (s_h s1) node (set_blank nn blank)) node = Some (set_blank nn blank)) as En2.
  { apply nth_hset_eq. eapply nth_some_lt; eassumption. }
  assert (HI (rd_bound fl (s_r s1)) (s_h s3) (s_c s1) A D (N ++ [(node, bp)])) as HH3.
  { eapply (CE HI_attach) with (nn := set_blank nn blank) (np := np); try exact Ha; try exact HH2; try exact En2; auto.
    - intros E. destruct (Hset E) as [_ [tmp [t [T1 [T2 [T3 [T4 [T5 T6]]]]]]]]. exists tmp, t. csplit; auto. }
  split; [|split].
  - split; [rewrite Er; exact HR|]. rewrite Er, Ec. eapply (CC HI_ctx); [exact HH3|reflexivity..].
  - rewrite Ec. replace (A ++ D ++ N ++ [(node, bp)]) with ((A ++ D ++ N) ++ [(node, bp)]) by (rewrite <- !app_assoc; reflexivity).
    apply (CE Oeq_push). exact HO.
  - replace (A ++ D ++ N ++ [(node, bp)]) with ((A ++ D ++ N) ++ [(node, bp)]) by (rewrite <- !app_assoc; reflexivity).
    apply uniqS_snoc; [exact Hu|]. intros E. exact (proj1 (Hset E)).
Qed.


(* ---------- only the setext parser touches the temporary paragraph of the context ---------- *)
Lemma peek_line_s_c s s' l sg : peek_line_s s = Ok (s', l, sg) -> s_c s' = s_c s /\ s_h s' = s_h s.
Proof. unfold peek_line_s. intros H. bind_inv H x Ex. destruct x as [[r l1] sg1]. injection H as <- _ _. auto. Qed.
Lemma line_offset_s_c s s' o : line_offset_s s = Ok (s', o) -> s_c s' = s_c s /\ s_h s' = s_h s.
Proof. unfold line_offset_s. intros H. bind_inv H x Ex. destruct x as [r o1]. injection H as <- _. auto. Qed.
Lemma advance_s_c s n s' : advance_s s n = Ok s' -> s_c s' = s_c s /\ s_h s' = s_h s.
Proof. unfold advance_s. intros H. bind_inv H r Er. injection H as <-. auto. Qed.

Ltac ctx_step H :=
  match type of H with
  | bind (peek_line_s _) _ = Ok _ => let x := fresh "x" in let E := fresh "E" in bind_inv H x E; destruct x as [[? ?] ?]; apply peek_line_s_c in E; destruct E as [? ?]
  | bind (line_offset_s _) _ = Ok _ => let x := fresh "x" in let E := fresh "E" in bind_inv H x E; destruct x as [? ?]; apply line_offset_s_c in E; destruct E as [? ?]
  | bind (advance_s _ _) _ = Ok _ => let x := fresh "x" in let E := fresh "E" in bind_inv H x E; apply advance_s_c in E; destruct E as [? ?]
  | bind _ _ = Ok _ => let x := fresh "x" in let E := fresh "E" in bind_inv H x E
  | (if ?b then _ else _) = Ok _ => destruct b
  | match ?x with Some _ => _ | None => _ end = Ok _ => destruct x
  | (let '(_, _) := ?x in _) = Ok _ => destruct x
  | Ok _ = Ok _ => injection H as <- <-
  end.

Ltac ctx_done :=
  cbn [st_h st_c st_r s_c cset_skip cset_empty cset_fence c_tmp_para] in *;
  repeat match goal with Hc : s_c ?a = _ |- context [s_c ?a] => rewrite Hc; cbn [st_h st_c st_r s_c cset_skip cset_empty cset_fence c_tmp_para] end;
  reflexivity.

Lemma p_open_tmp bp s parent s' o :
  p_open space_table re_t1o re_t2 re_t3 re_t4 re_t5 re_t6 re_t7 allowed_tags bp s parent = Ok (s', o) ->
  bp <> PSetext -> c_tmp_para (s_c s') = c_tmp_para (s_c s).
Proof.
  intros H Hbp. destruct bp; cbn [p_open] in H; try congruence.
  - unfold thematic_open, new_node, halloc in H. repeat ctx_step H; ctx_done.
  - unfold list_open, new_node, halloc in H. repeat ctx_step H; ctx_done.
  - unfold list_item_open_s, new_node, halloc in H. repeat ctx_step H; try destruct p as [[? ?] ?]; repeat ctx_step H; ctx_done.
  - unfold code_open, new_node, halloc in H. repeat ctx_step H; try destruct p as [? ?]; repeat ctx_step H; ctx_done.
  - unfold atx_open_s, new_node, halloc in H. repeat ctx_step H; try destruct p as [? ?]; repeat ctx_step H; ctx_done.
  - unfold fenced_open, new_node, halloc in H. repeat ctx_step H; try destruct p as [[[? ?] ?] ?]; repeat ctx_step H; ctx_done.
  - unfold bq_open, new_node, halloc in H. repeat ctx_step H; ctx_done.
  - unfold html_open, new_node, halloc in H. cbv zeta in H. repeat ctx_step H; ctx_done.
  - unfold paragraph_open, new_node, halloc in H. repeat ctx_step H; ctx_done.
Qed.


(* ---------- the paragraph a setext heading line follows ---------- *)
Lemma nodup_app_disj {X} (a b : list X) x : NoDup (a ++ b) -> In x a -> In x b -> False.
Proof.
  induction a as [|y t IH]; cbn [app]; intros H Ha Hb; [destruct Ha|]. inversion H as [|? ? Hy Ht]; subst.
  destruct Ha as [->|Ha]; [apply Hy; apply in_or_app; right; exact Hb|auto].
Qed.

Lemma setext_pos fl s A D last lp nl parent :
  SInv fl s A D [] -> Oeq (s_c s) (A ++ D ++ []) -> last_opened (s_c s) = Some (last, lp) ->
  nth_error (s_h s) last = Some nl -> bk nl = BParagraph -> bpar nl = Some parent -> parent = lastid (ids (A ++ [])) ->
  D = [(last, PParagraph)] /\ lastchild (s_h s) parent last /\ (forall z, ~ In (z, PSetext) (A ++ D ++ [])).
Proof.
  intros HS HO Elo Enl Knl Pnl Hpar. rewrite app_nil_r in Hpar.
  pose proof (CC last_opened_spec _ _ HO) as Hlo. rewrite Elo in Hlo. destruct Hlo as [E' HE].
  pose proof HS as [_ HH]. pose proof (hi_heap _ _ _ _ _ _ _ _ HH) as HhS. pose proof (hi_open _ _ _ _ _ _ _ _ HH) as HoS.
  assert (In (last, lp) (A ++ D ++ [])) as Hin by (rewrite HE; apply in_or_app; right; left; reflexivity).
  destruct (CE SInv_entry _ _ _ _ _ _ _ HS Hin) as [n0 [En0 [K0 _]]]. assert (n0 = nl) by congruence. subst n0.
  assert (lp = PParagraph) as -> by (apply (CE pkind_para); congruence).
  assert (forall z, ~ In (z, PSetext) (A ++ D ++ [])) as Hno.
  { intros z Hz. destruct (CE SInv_entry _ _ _ _ _ _ _ HS Hz) as [nz [Ez [Kz _]]]. cbn [pkind] in Kz.
    assert (z = last) as ->.
    { change last with (fst (last, PParagraph)). rewrite app_nil_r in HE, Hz. eapply (CC leaf_entry_top); try eassumption.
      - eapply in_ids. exact Hz.
      - rewrite Kz. reflexivity. }
    congruence. }
  destruct (CC snoc_cases _ _ _ _ _ HE) as [[N' EN]|[[_ [D' ED]]|[_ [ED [A' EA]]]]].
  - destruct N'; discriminate.
  - destruct (CC exists_last_or_nil D') as [->|[D'' [[f fp] ->]]].
    + cbn [app] in ED. subst D. csplit; auto. pose proof (os_lc _ _ _ _ _ _ HoS eq_refl) as Hl. cbn [fst] in Hl. rewrite Hpar. exact Hl.
    + exfalso. subst D. pose proof (os_chain _ _ _ _ _ _ HoS) as Hc.
      assert (child (s_h s) f last) as Hch.
      { apply Hc. rewrite !(CC ids_snoc). cbn [fst]. exists (lastid (ids A) :: ids D''), []. rewrite <- app_assoc. reflexivity. }
      destruct Hch as [nf [Ef Hl]]. destruct (hs_K _ _ _ HhS f nf last Ef Hl) as [nc [Ec Pc]].
      assert (f = lastid (ids A)) as Ef' by congruence.
      assert (In f (ids ((D'' ++ [(f, fp)]) ++ [(last, PParagraph)]))) as HfD.
      { rewrite !(CC ids_snoc). cbn [fst]. apply in_or_app. left. apply in_or_app. right. left. reflexivity. }
      destruct (CE lastid_cases (ids A)) as [[_ E0]|[_ HinA]].
      * eapply chain_no_root; [exact HhS|exact Hc|]. rewrite <- E0, <- Ef'. exact HfD.
      * pose proof (os_nodup _ _ _ _ _ _ HoS) as Hnd. rewrite (ids_app A), (ids_app _ []) in Hnd. rewrite <- Ef' in HinA.
        eapply nodup_app_disj; [exact Hnd|exact HinA|]. apply in_or_app. left. exact HfD.
  - exfalso. subst A. rewrite (CE lastid_ids_snoc) in Hpar. subst parent.
    eapply hs_noself; [exact HhS|exact Enl|exact Pnl].
Qed.


Lemma append_child_length h p c h1 : append_child h p c = Ok h1 -> length h1 = length h.
Proof.
  unfold append_child. intros H. bind_inv H h0 E0. apply hupd_ok in E0. destruct E0 as [n0 [_ ->]].
  apply hupd_ok in H. destruct H as [n1 [_ ->]]. rewrite !length_hset. reflexivity.
Qed.

Lemma lastid_app_ne (A N : list (nat * bparser)) : N <> [] -> lastid (ids (A ++ N)) = lastid (ids N).
Proof.
  intros HN. destruct (CC exists_last_or_nil N) as [->|[N' [[y bq] ->]]]; [congruence|].
  rewrite app_assoc, !(CE lastid_ids_snoc). reflexivity.
Qed.

(* ---------- the state wrapper ---------- *)
Lemma hlift_ok {X} x (r : result (st * X)) x' (a : X) : hlift x r = Ok (x', a) -> exists s', r = Ok (s', a) /\ x' = sth_s x s'.
Proof.
  unfold hlift. intros H. bind_inv H y Ey. destruct y as [s' a']. cbn [fst snd] in H. injection H as <- <-. eauto.
Qed.
Lemma hlift0_ok x r x' : hlift0 x r = Ok x' -> exists s', r = Ok s' /\ x' = sth_s x s'.
Proof. unfold hlift0. intros H. bind_inv H s' Es. injection H as <-. eauto. Qed.

(* ---------- Open of any parser of the heading-options model ---------- *)
Lemma p_open_h_spec bp x parent x' o A D N : SInv FF (hx_s x) A D N -> AI (hx_attrs x) ->
  Oeq (s_c (hx_s x)) (A ++ D ++ N) -> PC N (s_h (hx_s x)) ->
  p_open_h hc space_table punct_table re_t1o re_t2 re_t3 re_t4 re_t5 re_t6 re_t7 allowed_tags bp x parent = Ok (x', o) ->
  popen_post bp (hx_s x) parent (hx_s x') o A D N /\ AI (hx_attrs x') /\
  (bp <> PSetext -> c_tmp_para (s_c (hx_s x')) = c_tmp_para (s_c (hx_s x))) /\
  (bp = PListItem -> forall y, o = Some y -> exists pn, nth_error (s_h (hx_s x)) parent = Some pn /\ bk pn = BList).
Proof.
  intros HS HA HO HPC H.
  assert (bp = PATX \/ (bp <> PATX /\ exists s', p_open space_table re_t1o re_t2 re_t3 re_t4 re_t5 re_t6 re_t7 allowed_tags bp (hx_s x) parent = Ok (s', o) /\
                                     x' = sth_s x s')) as [->|[Hne [s' [E ->]]]].
  { destruct bp; cbn [p_open_h] in H; try (right; split; [discriminate|apply hlift_ok; exact H]). left; reflexivity. }
  - cbn [p_open_h] in H. destruct (CR atx_open_h_ok _ _ _ _ _ _ HS HA H) as [Hp HA']. csplit.
    + apply (CC open_post_popen). exact Hp.
    + exact HA'.
    + intros _. rewrite (CR atx_open_h_ctx _ _ _ H). reflexivity.
    + discriminate.
  - cbn [sth_s hx_s hx_attrs]. csplit.
    + eapply (CC p_open_spec); eassumption.
    + exact HA.
    + apply (p_open_tmp _ _ _ _ _ E).
    + intros -> y ->. cbn [p_open] in E. eapply list_item_open_parent; exact E.
Qed.

(* ---------- the bookkeeping of one call of openBlocks, relative to its start ---------- *)
Section Track.
Variables (s0 : st) (A D0 : list (nat * bparser)) (cont0 : bool).

Record Trk (s : st) (D N : list (nat * bparser)) (res : Z) (cont : bool) : Prop := {
  tk_len : (length (s_h s0) <= length (s_h s))%nat;
  tk_D : D = D0 \/ (D = [] /\ exists x, D0 = [(x, PParagraph)]);
  tk_arr : N = [] -> c_arr (s_c s) = c_arr (s_c s0);
  tk_res : (res = noBlocksOpened /\ N = []) \/ (res = newBlocksOpened /\ N <> []);
  tk_cont : cont = true -> cont0 = true /\ (N = [] -> D = D0 /\ shape_le (s_h s0) (s_h s));
  tk_new : forall y, In y (ids N) -> (length (s_h s0) <= y)%nat }.

Definition TPre (s : st) (D N : list (nat * bparser)) (parent : nat) : Prop :=
  OInv FF s A D N /\ parent = lastid (ids (A ++ N)) /\ topC (A ++ N).

Lemma Trk_same s s1 D N res cont : Trk s D N res cont -> s_h s1 = s_h s -> c_arr (s_c s1) = c_arr (s_c s) -> Trk s1 D N res cont.
Proof. intros [T1 T2 T3 T4 T5 T6] Eh Ea. constructor; rewrite ?Eh, ?Ea; auto. Qed.

Lemma TPre_same s s1 D N parent : TPre s D N parent -> SInv FF s1 A D N -> c_arr (s_c s1) = c_arr (s_c s) ->
  c_len (s_c s1) = c_len (s_c s) -> TPre s1 D N parent.
Proof.
  intros [[_ [HO Hu]] [Hp Ht]] HS Ea El. split; [|split; assumption]. split; [exact HS|]. split; [|exact Hu].
  eapply (CE Oeq_same); eassumption.
Qed.


(* the tail of a successful Open: Blank flag, AppendChild, append to the opened blocks *)
Lemma tail_okH fl (xa : sth) D N parent node bp blank (lb : option (nat * bparser)) nn h2 x2 h3 :
  OInv fl (hx_s xa) A D N -> nth_error (s_h (hx_s xa)) node = Some nn -> bpar nn = None -> bch nn = [] -> bk nn = pkind bp ->
  (bp = PATX -> fin_linesH (blines nn)) -> (bp = PParagraph -> Forall NLseg (blines nn)) ->
  (bp = PSetext -> (forall z, ~ In (z, PSetext) (A ++ D ++ N)) /\
     exists tmp t, c_tmp_para (s_c (hx_s xa)) = Some tmp /\ nth_error (s_h (hx_s xa)) tmp = Some t /\ bk t = BParagraph /\
                   fin_lines (blines t) /\ ~ In tmp (ids (A ++ D ++ N)) /\ tmp <> node) ->
  (forall tmp y, c_tmp_para (s_c (hx_s xa)) = Some tmp -> In (y, PSetext) (A ++ D ++ N) -> tmp <> node) ->
  ~ In node (ids (A ++ D ++ N)) -> node <> 0%nat -> topC (A ++ N) -> parent = lastid (ids (A ++ N)) ->
  (bp = PListItem -> exists pn, nth_error (s_h (hx_s xa)) parent = Some pn /\ bk pn = BList) ->
  (forall last lp, lb = Some (last, lp) -> last <> node /\ exists nl q, nth_error (s_h (hx_s xa)) last = Some nl /\ bpar nl = Some q) ->
  hupd (s_h (hx_s xa)) node (fun n => set_blank n blank) = Ok h2 ->
  match lb with
  | Some (last, _) =>
      att <- attached (s_h (hx_s (sth_s xa (st_h (hx_s xa) h2)))) last ;;
      (if negb att
       then close_blocksH hc space_table punct_table norm utf8len_table spaces (sth_s xa (st_h (hx_s xa) h2))
              (Z.of_nat (c_len (s_c (hx_s (sth_s xa (st_h (hx_s xa) h2))))) - 1)
              (Z.of_nat (c_len (s_c (hx_s (sth_s xa (st_h (hx_s xa) h2))))) - 1)
       else Ok (sth_s xa (st_h (hx_s xa) h2)))
  | None => Ok (sth_s xa (st_h (hx_s xa) h2))
  end = Ok x2 ->
  append_child (s_h (hx_s x2)) parent node = Ok h3 ->
  OInv fl (st_c (st_h (hx_s x2) h3) (push_opened (s_c (hx_s x2)) (node, bp))) A D (N ++ [(node, bp)]) /\
  length h3 = length (s_h (hx_s xa)) /\ hx_attrs x2 = hx_attrs xa.
Proof.
  intros HO En Pn Cn Kn Hatx Hpara Hset Htmp Hni Hn0 Htop Hpar Hli Hlb Eh2 Es2 Eh3.
  apply hupd_ok in Eh2. destruct Eh2 as [nn0 [En0 ->]]. assert (nn0 = nn) by congruence. subst nn0.
  assert (x2 = sth_s xa (st_h (hx_s xa) (hset (s_h (hx_s xa)) node (set_blank nn blank)))) as ->.
  { destruct lb as [[last lp]|]; [|injection Es2 as <-; reflexivity].
    destruct (Hlb last lp eq_refl) as [Hne [nl [q [Enl Pnl]]]].
    unfold attached, hget in Es2. cbn [sth_s hx_s st_h s_h] in Es2. rewrite nth_hset_ne in Es2 by congruence. rewrite Enl in Es2.
    cbn [bind] in Es2. rewrite Pnl in Es2. cbn [negb] in Es2. injection Es2 as <-. reflexivity. }
  cbn [sth_s hx_s hx_attrs st_h s_h s_c] in *.
  destruct (CE parent_node fl (hx_s xa) A D N (proj1 HO) Htop) as [np [Ep Kp]].
  split; [|split; [|reflexivity]].
  - subst parent. eapply (attach_state fl (hx_s xa) _ A D N node bp nn np blank); try eassumption; try reflexivity.
    intros Kli. assert (bp = PListItem) as Eb by (destruct bp; cbn [pkind] in *; congruence).
    destruct (Hli Eb) as [pn [Epn Kpn]]. congruence.
  - apply append_child_length in Eh3. rewrite Eh3. apply length_hset.
Qed.

Lemma nth_app_old {X} (h : list X) n i x : nth_error h i = Some x -> nth_error (h ++ [n]) i = Some x.
Proof. intros H. rewrite nth_error_app1 by (eapply nth_some_lt; eassumption). exact H. Qed.

Lemma try_parsersH_ok blank w : forall bps x D N parent res cont t, TPre (hx_s x) D N parent -> Trk (hx_s x) D N res cont ->
  AI (hx_attrs x) ->
  try_parsersH hc space_table punct_table norm re_t1o re_t2 re_t3 re_t4 re_t5 re_t6 re_t7 allowed_tags utf8len_table spaces
    bps parent blank cont res w x = Ok t ->
  match t with
  | TRetryH p' cont' res' x' => exists D' N', TPre (hx_s x') D' N' p' /\ Trk (hx_s x') D' N' res' cont' /\ AI (hx_attrs x')
  | TDoneH res' x' => exists D' N', OInv WW (hx_s x') A D' N' /\ Trk (hx_s x') D' N' res' cont /\
                                    (N' = [] -> OInv FF (hx_s x') A D' N') /\ AI (hx_attrs x')
  end.
Proof.
  induction bps as [|bp rest IH]; intros x D N parent res cont t HP HT HA H.
  - cbn [try_parsersH] in H. injection H as <-. exists D, N. destruct HP as [HO _]. csplit; auto. apply (CE OInv_FW). exact HO.
  - cbn [try_parsersH] in H.
    destruct (cont && (res =? noBlocksOpened) && negb (can_interrupt_paragraph bp))%bool; [eapply IH; eassumption|].
    destruct ((3 <? w) && negb (can_accept_indented bp))%bool; [eapply IH; eassumption|].
    cbv zeta in H. bind_inv H y Ex. destruct y as [x1 o].
    pose proof HP as [[HS [HO Hu]] [Hpar Htop]].
    assert (PC N (s_h (hx_s x))) as HPC.
    { intros HN. rewrite <- (lastid_app_ne A N HN). eapply (CE parent_node); eassumption. }
    destruct (p_open_h_spec bp x parent x1 o A D N HS HA HO HPC Ex) as [[Ea [El Hpost]] [HA1 [Htmp1 Hli1]]].
    set (s := hx_s x) in *. set (s1 := hx_s x1) in *.
    assert (Oeq (s_c s1) (A ++ D ++ N)) as HO1 by (eapply (CE Oeq_same); eassumption).
    assert (last_opened (s_c s1) = last_opened (s_c s)) as Elo1 by (unfold last_opened; rewrite Ea, El; reflexivity).
    destruct o as [[[node hch] rp]|].
    2: { destruct Hpost as [HS1 Eh1]. eapply IH; [eapply TPre_same; eassumption|eapply Trk_same; eassumption|exact HA1|exact H]. }
    destruct Hpost as [Hnode [[n [Eh1 [Pn [Cn [Kn [Hatx Hpara]]]]]] [HW1 [Hhc [Hrpf Hrpt]]]]].
    assert (nth_error (s_h s1) node = Some n) as En1 by (rewrite Eh1, Hnode; apply nth_app_new).
    assert (forall y, In y (ids (A ++ D ++ N)) -> (y < node)%nat) as Hold.
    { intros y Hy. apply in_ids_inv in Hy. destruct Hy as [bq Hy].
      destruct (CE SInv_entry _ _ _ _ _ _ _ HS Hy) as [ny [_ [_ Hlt]]]. lia. }
    assert (node <> 0%nat) as Hn0.
    { destruct HS as [_ HH]. destruct (hs_root _ _ _ (hi_heap _ _ _ _ _ _ _ _ HH)) as [r0 [E0 _]]. apply nth_some_lt in E0. lia. }
    assert (~ In node (ids (A ++ D ++ N))) as Hni by (intros Hi; apply Hold in Hi; lia).
    assert (length (s_h s1) = S (length (s_h s))) as Hlen1 by (rewrite Eh1, app_length; cbn [length]; lia).
    destruct rp.
    + (* RequireParagraph: a setext heading *)
      destruct (Hrpt eq_refl) as [-> [-> [HF1 [-> [last [lp [nl [Elo [Etmp [Enl [Knl Pnl]]]]]]]]]]].
      rewrite Elo in H. bind_inv H r Er. bind_inv Er pn Epn. apply hget_ok in Epn.
      assert (nth_error (s_h s1) last = Some nl) as Enl1 by (rewrite Eh1; apply nth_app_old; exact Enl).
      rewrite <- Elo1 in Elo.
      destruct (setext_pos FF s1 A D last lp nl parent HF1 HO1 Elo Enl1 Knl Pnl Hpar) as [-> [[pn' [Epn' Hlc]] Hno]].
      assert (pn' = pn) by congruence. subst pn'. rewrite Hlc in Er. cbn [opt_nat_eqb] in Er. rewrite Nat.eqb_refl in Er.
      assert (lp = PParagraph) as ->.
      { assert (In (last, lp) (A ++ [(last, PParagraph)] ++ [])) as Hin.
        { pose proof (CC last_opened_spec _ _ HO1) as Hs. rewrite Elo in Hs. destruct Hs as [E' HE]. rewrite HE. apply in_or_app. right. left. reflexivity. }
        destruct (CE SInv_entry _ _ _ _ _ _ _ HF1 Hin) as [n0 [En0 [K0 _]]]. apply (CE pkind_para). congruence. }
      bind_inv Er x2 Ec2. cbn [p_close_h] in Ec2. apply hlift0_ok in Ec2. destruct Ec2 as [s2 [Ec2 ->]]. cbn [p_close] in Ec2.
      cbn [sth_s hx_s] in Er. fold s1 in Ec2.
      assert (~ In last (ids (A ++ [] ++ []))) as Hlast.
      { destruct HF1 as [_ HH]. pose proof (os_nodup _ _ _ _ _ _ (hi_open _ _ _ _ _ _ _ _ HH)) as Hnd.
        cbn [app]. rewrite app_nil_r. rewrite ids_app in Hnd. intros Hi. eapply nodup_app_disj; [exact Hnd|exact Hi|left; reflexivity]. }
      (* Close takes the paragraph out of the opened blocks at once: a closed paragraph is no open one *)
      destruct (CE paragraph_close_ok FF s1 last s2 A [] [] HF1 Ec2) as [HF2 [Ec2' [Er2 [Hlen2 [Hsh2 [n2 [En2 Ffin2]]]]]]].
      destruct (Hsh2 last nl Enl1) as [n2a [En2a [Kn2 [Pn2 _]]]]. assert (n2a = n2) by congruence. subst n2a.
      fold s1 in Epn. destruct (Hsh2 parent pn Epn) as [pn2 [Epn2 _]].
      destruct (Nat.eqb (c_len (s_c s2)) 0); [discriminate|].
      set (s3 := st_c s2 (cset_open (s_c s2) (c_arr (s_c s2)) (Init.Nat.pred (c_len (s_c s2))))) in *.
      bind_inv Er t4 Et. destruct t4 as [s4 gone].
      assert (SInv FF s3 A [] []) as HF3 by (apply (CC SInv_ctx); auto).
      assert (forall y, ~ In (y, PSetext) (A ++ [] ++ [])) as Hnos.
      { intros z Hz. apply (Hno z). cbn [app] in *. rewrite app_nil_r in Hz. apply in_or_app. left. exact Hz. }
      destruct (CJ transform_paragraph_closed_ok FF s3 last s4 gone A [] [] n2 parent pn2 HF3 En2 ltac:(congruence) ltac:(congruence)
                  Epn2 Hlast Hnos Ffin2 Et) as [T1 [T2 [T3 [T4 [T5 [T6 [T7 T8]]]]]]].
      pose proof (transform_frame _ _ _ _ Et) as Hfr. cbn [s3 st_c s_h] in Hfr, T5.
      assert (Oeq (s_c s4) (A ++ [] ++ [])) as HO4.
      { eapply (CE Oeq_same); [|exact T1|exact T2]. cbn [s3 st_c s_c app]. rewrite app_nil_r. rewrite Ec2'.
        eapply (CE Oeq_pop). cbn [app] in HO1. exact HO1. }
      assert (uniqS (A ++ [] ++ [])) as Hu4.
      { eapply (CE uniqS_incl); [exact Hu|]. intros e He. cbn [app] in He. rewrite app_nil_r in He. apply in_or_app. left. exact He. }
      assert (c_arr (s_c s4) = c_arr (s_c s)) as Earr4 by (rewrite T1; cbn [s3 st_c s_c cset_open c_arr]; congruence).
      assert (length (s_h s0) <= length (s_h s4))%nat as Hlen4 by (pose proof (tk_len _ _ _ _ _ HT); lia).
      assert (D0 = [(last, PParagraph)]) as ED0.
      { destruct (tk_D _ _ _ _ _ HT) as [E|[E _]]; [congruence|discriminate]. }
      destruct gone.
      * (* the paragraph held only link reference definitions *)
        injection Er as <-. injection H as <-. cbn [sth_s hx_s hx_attrs]. exists [], []. split; [|split; [|exact HA1]].
        -- split; [|split; assumption]. split; [exact T7|]. split; assumption.
        -- constructor; auto.
           ++ right. split; [reflexivity|]. eauto.
           ++ intros _. rewrite Earr4. apply (tk_arr _ _ _ _ _ HT). reflexivity.
           ++ destruct (tk_res _ _ _ _ _ HT) as [Hr|[_ Hr]]; [left; exact Hr|congruence].
           ++ discriminate.
           ++ intros y [].
      * (* the heading is attached, the paragraph becomes its temporary paragraph *)
        injection Er as <-. pose proof T7 as HF4'. destruct (T8 eq_refl) as [l4 [El4 [Kl4 Ffin4]]].
        bind_inv H h5 Eh5. bind_inv H x5 Es5. bind_inv H h6 Eh6. injection H as <-.
        (* the new node after Close and Transform *)
        destruct (Hsh2 node n En1) as [n2' [En2' [K2 [P2 C2]]]].
        assert (node <> last) as Hnl by (apply nth_some_lt in Enl; lia).
        destruct (Hfr node n2' En2' Hnl ltac:(lia)) as [n4 [En4 [K4 [P4 C4]]]].
        destruct (tail_okH FF (sth_s (sth_s x1 s2) s4) [] [] parent node PSetext blank (Some (last, PParagraph)) n4 h5 x5 h6) as [HO6 [Hlen6 Hat6]];
          cbn [sth_s hx_s hx_attrs]; auto.
        -- split; [exact HF4'|split; assumption].
        -- congruence.
        -- apply C4. congruence.
        -- cbn [pkind]. cbn [pkind] in Kn. congruence.
        -- discriminate.
        -- discriminate.
        -- intros _. split; [intros z Hz; apply (Hno z); cbn [app] in *; rewrite app_nil_r in Hz; apply in_or_app; left; exact Hz|].
           exists last, l4. csplit; auto. rewrite T3. cbn [s3 st_c s_c cset_open c_tmp_para]. rewrite Ec2'. exact Etmp.
        -- intros tmp y _ Hy. exfalso. apply (Hno y). cbn [app] in *. rewrite app_nil_r in Hy. apply in_or_app. left. exact Hy.
        -- intros Hi. apply Hni. cbn [app] in *. rewrite app_nil_r in Hi. rewrite ids_app in *. apply in_or_app. left. exact Hi.
        -- discriminate.
        -- intros l' lp' E. injection E as <- <-. split; [auto|]. destruct (bpar l4) as [q|] eqn:Pq.
           ++ eauto.
           ++ pose proof (proj2 (T6 l4 El4) Pq). discriminate.
        -- cbn [sth_s hx_s hx_attrs] in *. exists [], ([] ++ [(node, PSetext)]). split; [apply (CE OInv_FW); exact HO6|].
           split; [|split; [intros E; discriminate|rewrite Hat6; exact HA1]].
           constructor; auto.
           ++ cbn [st_c st_h s_h]. lia.
           ++ right. split; [reflexivity|]. eauto.
           ++ intros E. discriminate.
           ++ right. split; [reflexivity|discriminate].
           ++ intros Hc. split; [exact (proj1 (tk_cont _ _ _ _ _ HT Hc))|intros E; discriminate].
           ++ intros y [<-|[]]. cbn [fst]. pose proof (tk_len _ _ _ _ _ HT). lia.
    + (* an ordinary Open *)
      pose proof (Hrpf eq_refl) as Hbp. cbn [bind] in H. bind_inv H h2 Eh2. bind_inv H x2 Es2. bind_inv H h3 Eh3.
      pose proof (Htmp1 Hbp) as Etmp. fold s s1 in Etmp.
      assert (forall fl, SInv fl s1 A D N -> OInv fl (st_c (st_h (hx_s x2) h3) (push_opened (s_c (hx_s x2)) (node, bp))) A D (N ++ [(node, bp)]) /\
                         length h3 = length (s_h s1) /\ hx_attrs x2 = hx_attrs x1) as Hatt.
      { intros fl HS1. eapply (tail_okH fl x1 D N parent node bp blank (last_opened (s_c s)) n h2 x2 h3); auto; try eassumption.
        - split; [exact HS1|split; assumption].
        - intros E. congruence.
        - intros tmp y Et Hy. destruct HS as [_ HH]. destruct (os_tmp _ _ _ _ _ _ (hi_open _ _ _ _ _ _ _ _ HH) y Hy) as [tmp' [t' [T1 [T2 _]]]].
          fold s1 in Et. rewrite Etmp in Et. assert (tmp' = tmp) by congruence. subst tmp'. apply nth_some_lt in T2. lia.
        - intros E. destruct (Hli1 E _ eq_refl) as [pn [Epn Kpn]].
          exists pn. split; [fold s1; rewrite Eh1; apply nth_app_old; exact Epn|exact Kpn].
        - intros last lp Elo.
          assert (In last (ids (A ++ D ++ N))) as Hin.
          { pose proof (CC last_opened_spec _ _ HO) as Hs. rewrite Elo in Hs. destruct Hs as [E' HE]. rewrite HE, (CC ids_snoc).
            apply in_or_app. right. left. reflexivity. }
          split; [apply Hold in Hin; lia|]. destruct (CE opened_attached _ _ _ _ _ _ HS Hin) as [q [ny [Ey' Py]]].
          exists ny, q. split; [fold s1; rewrite Eh1; apply nth_app_old; exact Ey'|exact Py]. }
      assert (Trk (st_c (st_h (hx_s x2) h3) (push_opened (s_c (hx_s x2)) (node, bp))) D (N ++ [(node, bp)]) newBlocksOpened cont) as HT3.
      { destruct (Hatt WW HW1) as [_ [Hlen3 _]]. constructor.
        - cbn [st_c st_h s_h]. pose proof (tk_len _ _ _ _ _ HT). fold s in H0. lia.
        - exact (tk_D _ _ _ _ _ HT).
        - intros E. destruct N; discriminate.
        - right. split; [reflexivity|]. destruct N; discriminate.
        - intros Hc. split; [exact (proj1 (tk_cont _ _ _ _ _ HT Hc))|intros E; destruct N; discriminate].
        - intros y Hy. rewrite (CC ids_snoc) in Hy. apply in_app_or in Hy. destruct Hy as [Hy|[<-|[]]].
          + exact (tk_new _ _ _ _ _ HT y Hy).
          + cbn [fst]. pose proof (tk_len _ _ _ _ _ HT). fold s in H0. lia. }
      assert (AI (hx_attrs x2)) as HA2 by (rewrite (proj2 (proj2 (Hatt WW HW1))); exact HA1).
      destruct hch.
      * injection H as <-. cbn [sth_s hx_s hx_attrs]. destruct (Hhc eq_refl) as [Kc HF1]. exists D, (N ++ [(node, bp)]).
        split; [|split; [exact HT3|exact HA2]].
        split; [exact (proj1 (Hatt FF HF1))|]. split.
        -- rewrite app_assoc. rewrite (CE lastid_ids_snoc). reflexivity.
        -- intros E' y bq HE. rewrite app_assoc in HE. apply app_inj_tail in HE. destruct HE as [_ HE]. injection HE as <- <-. exact Kc.
      * injection H as <-. cbn [sth_s hx_s hx_attrs]. exists D, (N ++ [(node, bp)]). split; [exact (proj1 (Hatt WW HW1))|]. split; [exact HT3|].
        split; [|exact HA2]. intros E. destruct N; discriminate.
Qed.

Lemma open_blocks_loopH_ok blank : forall fuel parent x D N res cont res' cont' x', TPre (hx_s x) D N parent -> Trk (hx_s x) D N res cont ->
  AI (hx_attrs x) ->
  open_blocks_loopH hc space_table punct_table norm re_t1o re_t2 re_t3 re_t4 re_t5 re_t6 re_t7 allowed_tags utf8len_table spaces
    fuel parent blank cont res x = Ok (res', cont', x') ->
  exists D' N', OInv WW (hx_s x') A D' N' /\ Trk (hx_s x') D' N' res' cont' /\ (N' = [] -> OInv FF (hx_s x') A D' N') /\ AI (hx_attrs x').
Proof.
  induction fuel as [|f IH]; intros parent x D N res cont res' cont' x' HP HT HA H; [discriminate|].
  cbn [open_blocks_loopH] in H. bind_inv H y Ex. destruct y as [[s1 line] sg].
  pose proof HP as [[HS [HO Hu]] [Hpar Htop]].
  destruct (CC peek_s_ok _ _ _ _ _ _ _ HS Ex) as [HS1 [Eh1 [Ec1 _]]].
  bind_inv H y Ey. destruct y as [s2 off].
  destruct (CC loff_s_ok _ _ _ _ _ _ HS1 Ey) as [HS2 [Eh2 [Ec2 _]]].
  destruct (indent_width (line_of line) off) as [w pos].
  match type of H with context [st_c s2 ?c] => set (c3 := c) in * end.
  assert (c_tmp_para c3 = c_tmp_para (s_c s2) /\ c_fence c3 = c_fence (s_c s2) /\ c_refs c3 = c_refs (s_c s2) /\
          c_arr c3 = c_arr (s_c s2) /\ c_len c3 = c_len (s_c s2)) as [C1 [C2 [C3 [C4 C5]]]].
  { unfold c3. destruct (zlen (line_of line) <=? w); cbn [cset_off c_tmp_para c_fence c_refs c_arr c_len]; auto. }
  assert (TPre (st_c s2 c3) D N parent) as HP3.
  { eapply TPre_same; [exact HP|apply (CC SInv_ctx); auto|cbn [st_c s_c]; congruence|cbn [st_c s_c]; congruence]. }
  assert (Trk (st_c s2 c3) D N res cont) as HT3.
  { eapply Trk_same; [exact HT|cbn [st_c s_h]; congruence|cbn [st_c s_c]; congruence]. }
  cbv zeta in H.
  match type of H with (if ?b then _ else _) = _ => destruct b end.
  - injection H as <- <- <-. cbn [sth_s hx_s hx_attrs]. exists D, N. destruct HP3 as [HO3 _]. csplit; auto. apply (CE OInv_FW). exact HO3.
  - bind_inv H t Et.
    pose proof (try_parsersH_ok _ _ _ (sth_s x (st_c s2 c3)) _ _ _ _ _ _ HP3 HT3 HA Et) as Ht. destruct t as [p' c' r' st'|r' st'].
    + destruct Ht as [D' [N' [HP' [HT' HA']]]]. eapply IH; eassumption.
    + injection H as <- <- <-. exact Ht.
Qed.

End Track.

Lemma shape_le_length h h' : shape_le h h' -> (length h <= length h')%nat.
Proof.
  intros H. destruct (Nat.le_gt_cases (length h) (length h')) as [Hle|Hgt]; [exact Hle|exfalso].
  destruct (nth_error h (length h')) as [n|] eqn:E.
  - destruct (H _ _ E) as [n' [E' _]]. apply nth_some_lt in E'. lia.
  - apply nth_error_None in E. lia.
Qed.

(* ---------- openBlocks ---------- *)
Lemma open_blocksH_ok fuel parent blank x A D res x' : OInv FF (hx_s x) A D [] -> AI (hx_attrs x) -> topC A -> parent = lastid (ids A) ->
  open_blocksH hc space_table punct_table norm re_t1o re_t1c re_t2 re_t3 re_t4 re_t5 re_t6 re_t7 allowed_tags utf8len_table spaces
    fuel parent blank x = Ok (res, x') ->
  exists D' N', OInv WW (hx_s x') A D' N' /\
    (D' = D \/ (D' = [] /\ exists y, D = [(y, PParagraph)] /\ ~ In y (ids N') /\ (N' = [] -> c_arr (s_c (hx_s x')) = c_arr (s_c (hx_s x))))) /\
    (res = paragraphContinuation -> D' = D /\ N' = [] /\ shape_le (s_h (hx_s x)) (s_h (hx_s x'))) /\
    (res <> newBlocksOpened -> N' = []) /\ (length (s_h (hx_s x)) <= length (s_h (hx_s x')))%nat /\
    AI (hx_attrs x').
Proof.
  intros HO0 HA Htop Hpar H. unfold open_blocksH in H. bind_inv H cont0 Ec0. bind_inv H y Ex. destruct y as [[res1 cont1] x1].
  set (s := hx_s x) in *.
  assert (TPre A s D [] parent) as HP.
  { split; [exact HO0|]. rewrite app_nil_r. auto. }
  assert (Trk s D cont0 s D [] noBlocksOpened cont0) as HT.
  { constructor; auto. - intros Hc. split; [exact Hc|]. intros _. split; [reflexivity|apply shape_le_refl]. - intros y []. }
  destruct (open_blocks_loopH_ok s A D cont0 blank _ _ x _ _ _ _ _ _ _ HP HT HA Ex) as [D' [N' [HW1 [HT1 [HF1 HA1]]]]].
  set (s1 := hx_s x1) in *.
  assert (D' = D \/ (D' = [] /\ exists y, D = [(y, PParagraph)] /\ ~ In y (ids N') /\ (N' = [] -> c_arr (s_c s1) = c_arr (s_c s)))) as HD.
  { destruct (tk_D _ _ _ _ _ _ _ _ HT1) as [E|[E [y Ey']]]; [left; exact E|right]. split; [exact E|]. exists y. csplit; auto.
    - intros Hi. apply (tk_new _ _ _ _ _ _ _ _ HT1) in Hi.
      assert (In (y, PParagraph) (A ++ D ++ [])) as Hin by (rewrite Ey'; apply in_or_app; right; left; reflexivity).
      destruct (CE SInv_entry _ _ _ _ _ _ _ (proj1 HO0) Hin) as [_ [_ [_ Hlt]]]. lia.
    - exact (tk_arr _ _ _ _ _ _ _ _ HT1). }
  pose proof (tk_len _ _ _ _ _ _ _ _ HT1) as Hlen1.
  destruct ((res1 =? noBlocksOpened) && cont1)%bool eqn:Ecnd.
  - apply andb_true_iff in Ecnd. destruct Ecnd as [Er1 ->]. apply Z.eqb_eq in Er1. subst res1.
    destruct (tk_res _ _ _ _ _ _ _ _ HT1) as [[_ ->]|[Hr _]]; [|discriminate].
    destruct (tk_cont _ _ _ _ _ _ _ _ HT1 eq_refl) as [-> Hc]. destruct (Hc eq_refl) as [-> Hsh1].
    pose proof (HF1 eq_refl) as [HS1 [HO1 Hu1]].
    destruct (last_opened (s_c s1)) as [[l lp]|] eqn:Elo; [|discriminate].
    bind_inv H z Ey. destruct z as [[s2 c2] k2]. injection H as <- <-. cbn [sth_s hx_s hx_attrs].
    pose proof (CC last_opened_spec _ _ HO1) as Hs. rewrite Elo in Hs. destruct Hs as [E' HE].
    destruct HO0 as [HS0 [HO0 Hu0]]. rewrite HE in HO0. rewrite (CE Oeq_last _ _ _ HO0) in Ec0.
    unfold is_paragraph in Ec0. bind_inv Ec0 nl Enl. apply hget_ok in Enl. injection Ec0 as Ek. apply (CC bkind_eqb_eq) in Ek.
    assert (In (l, lp) (A ++ D ++ [])) as Hin by (rewrite HE; apply in_or_app; right; left; reflexivity).
    destruct (CE SInv_entry _ _ _ _ _ _ _ HS0 Hin) as [n0 [En0 [K0 _]]]. assert (n0 = nl) by congruence. subst n0.
    assert (lp = PParagraph) as -> by (apply (CE pkind_para); congruence).
    cbn [p_continue] in Ey. bind_inv Ey z Ez. destruct z as [s2' c2']. cbn [fst snd] in Ey. injection Ey as <- <- <-.
    destruct (CC paragraph_continue_ok _ _ _ _ _ _ _ HS1 Hin Ez) as [Ea [El [Hcf Hct]]].
    pose proof (paragraph_continue_shape _ _ _ _ Ez) as Hsh2.
    exists D, []. csplit.
    + split; [destruct c2'; [apply Hct; reflexivity|apply (CC SInv_FW); apply Hcf; reflexivity]|].
      split; [eapply (CE Oeq_same); eassumption|exact Hu1].
    + left. reflexivity.
    + intros _. csplit; auto. eapply shape_le_trans; eassumption.
    + intros _. reflexivity.
    + apply shape_le_length in Hsh2. lia.
    + exact HA1.
  - injection H as <- <-. exists D', N'. csplit; auto.
    + intros E. destruct (tk_res _ _ _ _ _ _ _ _ HT1) as [[Hr _]|[Hr _]]; rewrite Hr in E; discriminate.
    + intros Hne. destruct (tk_res _ _ _ _ _ _ _ _ HT1) as [[_ Hr]|[Hr _]]; [exact Hr|congruence].
Qed.

End N.
