(* Block quotes around plain paragraphs, block phase, part 1: heaps with the current node last,
   open quotes, and the steps of the paragraph parser on a text line behind markers. *)
Require Import GM.model.Base GM.model.Util GM.model.Reader GM.model.ListItem GM.model.Blocks GM.model.CodeBlock
               GM.model.Regex GM.model.BlockParse.
Require Import GM.gen.Tables GM.proofs.SpecParaBytes GM.proofs.SpecParaReader GM.proofs.SpecParaBlocks
               GM.proofs.SpecQuoteShape GM.proofs.SpecQuoteMachine GM.proofs.SpecQuoteReader.
From Coq Require Import List NArith ZArith Bool Lia.
Import ListNotations.
Open Scope Z_scope.

Opaque space_table punct_table.

(* ---------- heaps ---------- *)
Lemma hget_app_last h n : hget (h ++ [n]) (length h) = Ok n.
Proof. unfold hget. rewrite nth_error_last. reflexivity. Qed.
Lemma hupd_app_last h n f : hupd (h ++ [n]) (length h) f = Ok (h ++ [f n]).
Proof. unfold hupd. rewrite hget_app_last. cbn [bind]. rewrite hset_app_last. reflexivity. Qed.
Lemma hget_app1 h t i n : nth_error h i = Some n -> hget (h ++ t) i = Ok n.
Proof.
  intros H. unfold hget. rewrite nth_error_app1; [rewrite H; reflexivity|].
  apply nth_error_Some. rewrite H. discriminate.
Qed.
Lemma hset_app1 h t : forall i x, (i < length h)%nat -> hset (h ++ t) i x = hset h i x ++ t.
Proof.
  induction h as [|y h IH]; intros i x Hi; [cbn [length] in Hi; lia|].
  destruct i as [|i]; [reflexivity|]. cbn [app hset]. rewrite IH by (cbn [length] in Hi; lia). reflexivity.
Qed.
Lemma hset_length h : forall i x, length (hset h i x) = length h.
Proof. induction h as [|y h IH]; intros i x; [reflexivity|]. destruct i; cbn [hset length]; [reflexivity|rewrite IH; reflexivity]. Qed.
Lemma nth_error_hset_same h : forall i x, (i < length h)%nat -> nth_error (hset h i x) i = Some x.
Proof.
  induction h as [|y h IH]; intros i x Hi; [cbn [length] in Hi; lia|].
  destruct i as [|i]; [reflexivity|]. cbn [hset nth_error]. apply IH. cbn [length] in Hi. lia.
Qed.
Lemma nth_error_hset_other h : forall i j x, i <> j -> nth_error (hset h i x) j = nth_error h j.
Proof.
  induction h as [|y h IH]; intros i j x Hij; [reflexivity|].
  destruct i as [|i]; destruct j as [|j]; cbn [hset nth_error]; try reflexivity; [congruence|]. apply IH. congruence.
Qed.
Lemma add_children_length h P ids : length (add_children h P ids) = length h.
Proof. unfold add_children. destruct (nth_error h P); [apply hset_length|reflexivity]. Qed.
Lemma add_children_last h n ids : add_children (h ++ [n]) (length h) ids = h ++ [set_ch n (bch n ++ ids)].
Proof. unfold add_children. rewrite nth_error_last. apply hset_app_last. Qed.
Lemma append_child_last h n P pn : nth_error h P = Some pn ->
  append_child (h ++ [n]) P (length h) = Ok (add_children h P [length h] ++ [set_par n (Some P)]).
Proof.
  intros HP. assert (Hlt : (P < length h)%nat) by (apply nth_error_Some; rewrite HP; discriminate).
  unfold append_child. rewrite hupd_app_last. cbn [bind].
  unfold hupd. rewrite (hget_app1 h _ P pn HP). cbn [bind]. rewrite hset_app1 by exact Hlt.
  unfold add_children. rewrite HP. reflexivity.
Qed.

(* ---------- open quotes ---------- *)
Definition is_bq (h : heap) (q : nat) : Prop :=
  exists n, nth_error h q = Some n /\ bk n = BBlockquote /\ exists p, bpar n = Some p.
Lemma is_bq_lt h q : is_bq h q -> (q < length h)%nat.
Proof. intros (n & Hn & _). apply nth_error_Some. rewrite Hn. discriminate. Qed.
Lemma is_bq_app h t q : is_bq h q -> is_bq (h ++ t) q.
Proof.
  intros (n & Hn & Hk & Hp). exists n. split; [|split; assumption].
  rewrite nth_error_app1; [exact Hn|]. apply nth_error_Some. rewrite Hn. discriminate.
Qed.
Lemma is_bq_add_children h P ids q : is_bq h q -> is_bq (add_children h P ids) q.
Proof.
  intros (n & Hn & Hk & Hp). unfold add_children. destruct (nth_error h P) as [pn|] eqn:HP; [|exists n; auto].
  destruct (Nat.eq_dec P q) as [->|Hne].
  - rewrite Hn in HP. injection HP as <-. exists (set_ch n (bch n ++ ids)). split; [|split; assumption].
    apply nth_error_hset_same. apply nth_error_Some. rewrite Hn. discriminate.
  - exists n. split; [|split; assumption]. rewrite nth_error_hset_other by exact Hne. exact Hn.
Qed.
Lemma is_bq_last h par cs bl p : par = Some p -> is_bq (h ++ [qnode par cs bl]) (length h).
Proof. intros ->. exists (qnode (Some p) cs bl). split; [apply nth_error_last|]. split; [reflexivity|]. exists p. reflexivity. Qed.
(* replacing the last node, which is not a quote *)
Lemma is_bq_front h x y q : is_bq (h ++ [x]) q -> bk x <> BBlockquote -> is_bq (h ++ [y]) q.
Proof.
  intros (n & Hn & Hk & Hp) Hx.
  assert (Hlt : (q < length h)%nat).
  { assert (Hq : (q < length (h ++ [x]))%nat) by (apply nth_error_Some; rewrite Hn; discriminate).
    rewrite app_length in Hq. cbn [length] in Hq.
    destruct (Nat.eq_dec q (length h)) as [->|Hne]; [|lia].
    rewrite nth_error_last in Hn. injection Hn as <-. contradiction. }
  exists n. split; [|split; assumption]. rewrite nth_error_app1 in Hn |- * by exact Hlt. exact Hn.
Qed.
Lemma is_bq_not_para h q : is_bq h q -> is_paragraph h q = Ok false.
Proof. intros (n & Hn & Hk & _). unfold is_paragraph, hget. rewrite Hn. cbn [bind]. rewrite Hk. reflexivity. Qed.
Lemma is_bq_attached h q : is_bq h q -> attached h q = Ok true.
Proof. intros (n & Hn & _ & p & Hp). unfold attached, hget. rewrite Hn. cbn [bind]. rewrite Hp. reflexivity. Qed.

Definition qop (q : list nat) : list (nat * bparser) := map (fun i => (i, PBlockquote)) q.
Lemma qop_length q : length (qop q) = length q.
Proof. apply map_length. Qed.
Lemma qop_app a b : qop (a ++ b) = qop a ++ qop b.
Proof. apply map_app. Qed.

(* ---------- contexts: the opened blocks and what is left of the backing array ---------- *)
Definition octx (op junk : list (nat * bparser)) : pctx := ctx (op ++ junk) (length op).
Lemma opened_octx op junk : opened (octx op junk) = op.
Proof. unfold opened, octx, ctx. cbn [c_len c_arr]. rewrite firstn_app, firstn_all, Nat.sub_diag. cbn [firstn]. apply app_nil_r. Qed.
Lemma last_opened_nil junk : last_opened (octx [] junk) = None.
Proof. reflexivity. Qed.
Lemma nth_error_mid {A} (a : list A) x b : nth_error (a ++ x :: b) (length a) = Some x.
Proof. induction a as [|y a IH]; cbn [app length nth_error]; [reflexivity|exact IH]. Qed.
Lemma last_opened_snoc op x junk : last_opened (octx (op ++ [x]) junk) = Some x.
Proof.
  unfold last_opened, octx, ctx. cbn [c_len c_arr]. rewrite app_length. cbn [length]. rewrite Nat.add_1_r.
  rewrite <- app_assoc. cbn [app]. apply nth_error_mid.
Qed.
Lemma push_octx op junk be : push_opened (octx op junk) be = octx (op ++ [be]) (skipn 1 junk).
Proof.
  unfold push_opened, octx, ctx, cset_open. cbn [c_len c_arr c_boff c_bind c_refs c_skip_list c_empty_item c_fence c_tmp_para].
  rewrite firstn_app, firstn_all, Nat.sub_diag. cbn [firstn]. rewrite app_nil_r.
  replace (skipn (S (length op)) (op ++ junk)) with (skipn 1 junk).
  2:{ rewrite skipn_app. rewrite (@skipn_all2 _ (S (length op)) op) by lia. replace (S (length op) - length op)%nat with 1%nat by lia. reflexivity. }
  rewrite app_length. cbn [length]. rewrite Nat.add_1_r. rewrite <- app_assoc. reflexivity.
Qed.
Lemma cset_off_octx op junk : cset_off (octx op junk) 0 0 = octx op junk.
Proof. reflexivity. Qed.
