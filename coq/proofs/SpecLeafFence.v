(* Leaf blocks, block phase: a fenced code block (three backticks, an info word or none, code
   lines of letters and blanks, the closing fence).  The fence opens a node that records the
   info segment, every following line is content (empty lines too) until the closing fence,
   after which the rest of that line is looked at by openBlocks and the block is closed. *)
Require Import GM.model.Base GM.model.Util GM.model.Reader GM.model.ListItem GM.model.Blocks GM.model.LeafBlocks GM.model.CodeBlock
               GM.model.Regex GM.model.BlockParse.
Require Import GM.gen.Tables GM.proofs.SpecParaBytes GM.proofs.SpecParaReader GM.proofs.SpecParaBlocks GM.proofs.SpecParaBlocks2
               GM.proofs.SpecLeafBytes GM.proofs.SpecLeafStep GM.proofs.SpecLeafAtx.
From Coq Require Import List NArith ZArith Bool Lia.
Import ListNotations.
Open Scope Z_scope.

Opaque space_table punct_table.

(* ---------- bytes ---------- *)
Definition notick (v : bytes) : Prop := forallb (fun c => negb (N.eqb c 96)) v = true.
Lemma notick_skipn v : forall n, notick v -> notick (skipn n v).
Proof.
  unfold notick. induction v as [|c r IH]; intros n H; [destruct n; reflexivity|].
  destruct n as [|n]; [exact H|]. cbn [skipn]. cbn [forallb] in H. apply andb_true_iff in H. apply IH. apply H.
Qed.
Lemma notick_count v : notick v -> count_byte 96 v = 0.
Proof.
  unfold notick. destruct v as [|c r]; [reflexivity|]. cbn [forallb count_byte]. intros H. apply andb_true_iff in H.
  destruct H as [H _]. apply negb_true_iff in H. rewrite H. reflexivity.
Qed.
Lemma textc_notick l : forallb textc l = true -> notick (l ++ [10%N]).
Proof.
  intros H. unfold notick. rewrite forallb_app. cbn [forallb]. rewrite ?andb_true_r.
  apply forallb_forall. intros c Hc. pose proof (proj1 (forallb_forall _ _) H c Hc) as Ht. apply textc_range in Ht.
  apply negb_true_iff. apply N.eqb_neq. lia.
Qed.
Lemma wordc_all_textc v : forallb wordc v = true -> forallb textc v = true.
Proof.
  intros H. apply forallb_forall. intros c Hc. apply wordc_textc. exact (proj1 (forallb_forall _ _) H c Hc).
Qed.

(* ---------- the opening fence ---------- *)
Lemma count_ticks x : notick x -> count_byte 96 (ticks ++ x) = 3.
Proof. intros H. unfold ticks. cbn [app count_byte]. change (N.eqb 96 96) with true. cbv iota. rewrite (notick_count x H). reflexivity. Qed.

Lemma fence_open_line info : forallb wordc info = true ->
  fence_open space_table (ticks ++ info ++ [10%N]) 0 =
  Ok (Some (96%N, 0, 3, match info with [] => None | _ => Some (3, 3 + zlen info) end)).
Proof.
  intros Hw. pose proof (textc_notick info (wordc_all_textc info Hw)) as Hnt.
  unfold fence_open. change (0 <? 0) with false. cbv iota.
  unfold at_ at 1. rewrite zlen_app. change (zlen ticks) with 3.
  pose proof (zlen_nonneg (info ++ [10%N])) as Hn.
  replace ((0 <=? 0) && (0 <? 3 + zlen (info ++ [10%N])))%bool with true.
  2:{ symmetry. apply andb_true_iff. split; [reflexivity|apply Z.ltb_lt; lia]. }
  cbn [Z.to_nat nth ticks app bind]. change (N.eqb 96 96) with true. cbn [orb negb]. cbv iota zeta.
  rewrite zskip_0. fold ticks. change (96%N :: 96%N :: 96%N :: info ++ [10%N]) with (ticks ++ info ++ [10%N]).
  rewrite (count_ticks _ Hnt). change (3 <? 3) with false. cbv iota. rewrite Z.add_0_l.
  rewrite (zlen_app info). change (zlen [10%N]) with 1.
  assert (Hsk : zskip 3 (ticks ++ info ++ [10%N]) = info ++ [10%N]) by reflexivity. rewrite !Hsk. clear Hsk.
  destruct info as [|c0 r0] eqn:Einfo.
  - change (zlen (@nil N)) with 0. change (3 <? 3 + (0 + 1) - 1) with false. cbv iota. reflexivity.
  - rewrite <- Einfo in *.
    assert (Hpos : 0 < zlen info) by (rewrite Einfo, zlen_cons; pose proof (zlen_nonneg r0); lia).
    replace (3 <? 3 + (zlen info + 1) - 1) with true by (symmetry; apply Z.ltb_lt; lia). cbv iota.
    assert (Hlast : exists r c, info = r ++ [c] /\ wordc c = true).
    { destruct (@exists_last _ info) as (r & c & E); [rewrite Einfo; discriminate|]. exists r, c. split; [exact E|].
      rewrite E in Hw. rewrite forallb_app in Hw. apply andb_true_iff in Hw. destruct Hw as [_ Hw]. cbn [forallb] in Hw.
      rewrite andb_true_r in Hw. exact Hw. }
    destruct Hlast as (r & c & Er & Hc).
    assert (Hl : trim_left_space_len space_table (info ++ [10%N]) = 0).
    { rewrite Einfo. cbn [app trim_left_space_len]. cbn [forallb] in Hw. rewrite Einfo in Hw. cbn [forallb] in Hw.
      apply andb_true_iff in Hw. destruct Hw as [Hc0 _]. rewrite (word_not_space c0 Hc0). reflexivity. }
    assert (Hr : trim_right_space_len space_table (info ++ [10%N]) = 1).
    { rewrite Er. rewrite <- app_assoc. apply (trim_right_letter r c [10%N] Hc). left. reflexivity. }
    rewrite Hl, Hr. rewrite zlen_app. change (zlen [10%N]) with 1.
    replace (0 <? zlen info + 1 - 1) with true by (symmetry; apply Z.ltb_lt; lia). cbv iota.
    rewrite zskip_0. replace (zlen info + 1 - 1 - 0) with (zlen info) by lia. rewrite zfirst_zlen_app.
    replace (existsb (N.eqb 96) info) with false.
    2:{ symmetry. apply not_true_is_false. intros Hex. apply existsb_exists in Hex. destruct Hex as (x & Hx & Hx96).
        apply N.eqb_eq in Hx96. subst x. pose proof (proj1 (forallb_forall _ _) Hw 96%N Hx) as H96. discriminate. }
    cbn [andb]. cbv iota.
    replace (3 + 0) with 3 by lia. replace (3 + (zlen info + 1) - 1) with (3 + zlen info) by lia. reflexivity.
Qed.

(* ---------- a line inside the fence ---------- *)
Lemma fence_continue_text l : forallb textc l = true ->
  fence_continue space_table (l ++ [10%N]) 0 0 96 0 3 = inr (0, 0).
Proof.
  intros H. unfold fence_continue. destruct (indent_width (l ++ [10%N]) 0) as [w pos].
  unfold zskip. rewrite (notick_count _ (notick_skipn _ _ (textc_notick l H))).
  change (3 <=? 0) with false. rewrite andb_false_r. cbn [andb]. cbv iota.
  unfold indent_position_padding. change (0 =? 0) with true. cbv iota. change (0 <? 0) with false. cbv iota. reflexivity.
Qed.
Lemma fence_continue_close term : term = [10%N] \/ term = [] ->
  fence_continue space_table (ticks ++ term) 0 0 96 0 3 = inl 3.
Proof. intros [-> | ->]; vm_compute; reflexivity. Qed.

(* ---------- nodes and contexts ---------- *)
Definition fnode (off : Z) (info : bytes) (ls : list seg) (bl : bool) : bnode :=
  {| bk := BFenced; bpar := Some 0%nat; bch := []; blines := ls; bblank := bl; b_i1 := 0; b_i2 := 0; b_tight := true;
     b_seg := info_seg off info |}.
Lemma node_of_fence off info lines bl :
  node_of off (LFence info lines) bl = fnode off info (fence_segs (off + 3 + zlen info + 1) lines) bl.
Proof. reflexivity. Qed.
Definition fheap (cs : list nat) (cl : list bnode) (off : Z) (info : bytes) (ls : list seg) (bl : bool) : heap :=
  dnode cs :: cl ++ [fnode off info ls bl].
Definition fctx (cl : list bnode) (tl : list (nat * bparser)) (n : nat) (bo bi : Z) (open : bool) : pctx :=
  ctxG ((S (length cl), PFenced) :: tl) n bo bi (if open then Some (96%N, 0, 3, S (length cl)) else None).

(* ---------- Advance over bytes that are no newlines (the slow path) ---------- *)
Lemma advance_slow_plain v : forall fuel src pre post k a b,
  src = pre ++ v ++ post -> no_nl v -> (length v < fuel)%nat ->
  r_advance_slow fuel (rd src k a b (zlen pre) None (-1)) (zlen v) = Ok (rd src k a b (zlen pre + zlen v) None (-1)).
Proof.
  induction v as [|c r IH]; intros fuel src pre post k a b Hsrc Hnl Hf; (destruct fuel as [|f]; [cbn [length] in Hf; lia|]).
  - cbn [r_advance_slow]. change (zlen (@nil N)) with 0. cbn [Z.ltb andb]. cbv iota. rewrite Z.add_0_r. reflexivity.
  - unfold no_nl in Hnl. cbn [forallb] in Hnl. apply andb_true_iff in Hnl. destruct Hnl as [Hc Hr]. apply negb_true_iff in Hc.
    cbn [r_advance_slow].
    set (R := rd src k a b (zlen pre) None (-1)).
    change (s_start (r_pos R)) with (zlen pre). change (s_pad (r_pos R)) with 0. change (r_len R) with (zlen src).
    change (r_src R) with src.
    change (rset_pos R {| s_start := zlen pre + 1; s_stop := s_stop (r_pos R); s_pad := 0; s_fnl := s_fnl (r_pos R) |})
      with (rd src k a b (zlen pre + 1) None (-1)).
    pose proof (zlen_nonneg pre) as Hp. pose proof (zlen_nonneg r) as Hq. pose proof (zlen_nonneg post) as Hs.
    replace ((0 <? zlen (c :: r)) && (zlen pre <? zlen src))%bool with true.
    2:{ symmetry. apply andb_true_iff. split; apply Z.ltb_lt; [rewrite zlen_cons; lia|]. rewrite Hsrc, !zlen_app, zlen_cons. lia. }
    change (0 =? 0) with true. cbn [negb]. cbv iota.
    rewrite Hsrc at 1. cbn [app]. rewrite (at_mid pre c (r ++ post) (zlen pre) eq_refl). cbn [bind]. rewrite Hc.
    replace (zlen (c :: r) - 1) with (zlen r) by (rewrite zlen_cons; lia).
    replace (zlen pre + 1) with (zlen (pre ++ [c])) by (rewrite zlen_app; reflexivity).
    rewrite (IH f src (pre ++ [c]) post k a b); [| |exact Hr|cbn [length] in Hf; lia].
    + replace (zlen (pre ++ [c]) + zlen r) with (zlen pre + zlen (c :: r)); [reflexivity|].
      rewrite zlen_app, zlen_cons. change (zlen [c]) with 1. lia.
    + rewrite Hsrc. rewrite <- app_assoc. reflexivity.
Qed.

Lemma advance_ticks src pre term rest k a b :
  src = pre ++ (ticks ++ term) ++ rest -> a = zlen pre -> term = [10%N] \/ term = [] ->
  r_advance (rd src k a b a (SomeB (ticks ++ term)) 0) 3 = Ok (rd src k a b (a + 3) None (-1)).
Proof.
  intros Hsrc -> [-> | ->].
  - apply advance_fast. reflexivity.
  - unfold r_advance, rd, rset_loff, rset_peeked. cbn [r_peeked r_pos s_pad r_src r_line r_head r_loff s_start s_stop s_fnl].
    rewrite app_nil_r. change (3 <? zlen ticks) with false. cbn [andb]. cbv iota.
    change (Z.to_nat 3 + 1)%nat with 4%nat.
    pose proof (advance_slow_plain ticks 4 src pre rest k (zlen pre) b) as H.
    unfold rd in H. change (zlen ticks) with 3 in H. apply H; [rewrite Hsrc, app_nil_r; reflexivity|reflexivity|unfold ticks; cbn [length]; lia].
Qed.

(* ---------- the reader in the middle of a line ---------- *)
Lemma peek_mid src k a b st lo v : 0 <= st < zlen src -> slice src st b = Ok v ->
  r_peek_line (rd src k a b st None lo) = Ok (rd src k a b st (SomeB v) lo, SomeB v, lseg st b).
Proof.
  intros Hr Hs. unfold r_peek_line. rewrite in_range_rd by lia.
  unfold rd at 1. cbn [r_peeked]. unfold rd at 1 2. cbn [r_src r_pos].
  unfold seg_value. cbn [s_start s_stop s_pad s_fnl]. rewrite Hs.
  cbn [bind]. change (0 =? 0) with true. change (0 <? 0) with false. cbn iota. reflexivity.
Qed.
Lemma line_offset_mid src k a b st pk v : a < st -> slice src a st = Ok v ->
  r_line_offset (rd src k a b st pk (-1)) = Ok (rd src k a b st pk (col_width v 0), col_width v 0).
Proof.
  intros Ha Hs. unfold r_line_offset, rd. cbn [r_loff r_head r_pos s_start s_pad r_src].
  change (-1 <? 0) with true. cbv iota. replace (a <? st) with true by (symmetry; apply Z.ltb_lt; lia).
  rewrite Hs. cbn [bind]. rewrite Z.sub_0_r. reflexivity.
Qed.

Section Driver.
Variable norm : bytes -> bytes.
Variables re_t1o re_t1c re_t2 re_t3 re_t4 re_t5 re_t6 re_t7 : re.
Variable allowed_tags : list bytes.
Notation TRY := (try_parsers space_table punct_table norm re_t1o re_t2 re_t3 re_t4 re_t5 re_t6 re_t7 allowed_tags).
Notation OB := (open_blocks space_table punct_table norm re_t1o re_t1c re_t2 re_t3 re_t4 re_t5 re_t6 re_t7 allowed_tags).
Notation EACH := (each_opened space_table punct_table norm re_t1o re_t1c re_t2 re_t3 re_t4 re_t5 re_t6 re_t7 allowed_tags).
Notation LINES := (lines_loop space_table punct_table norm re_t1o re_t1c re_t2 re_t3 re_t4 re_t5 re_t6 re_t7 allowed_tags).
Notation PBL := (parse_blocks_loop space_table punct_table norm re_t1o re_t1c re_t2 re_t3 re_t4 re_t5 re_t6 re_t7 allowed_tags).
Notation CLOSE := (close_blocks space_table punct_table norm).
Notation STEP := (block_step norm re_t1o re_t1c re_t2 re_t3 re_t4 re_t5 re_t6 re_t7 allowed_tags).

(* ---------- the fenced code block parser opens ---------- *)
Lemma fenced_open_line h arr src pre info rest k a b :
  at_line src pre (ticks ++ info ++ [10%N]) rest a b -> forallb wordc info = true ->
  fenced_open space_table (mkst h (ctxG arr 0 0 0 None) (rd src k a b a (SomeB (ticks ++ info ++ [10%N])) 0)) =
  Ok (mkst (h ++ [set_seg (mknode BFenced 0) (info_seg a info)]) (ctxG arr 0 0 0 (Some (96%N, 0, 3, length h)))
           (rd src k a b a (SomeB (ticks ++ info ++ [10%N])) 0), Some (length h, false, false)).
Proof.
  intros Hat Hw.
  assert (Hr : 0 <= a /\ a < b /\ b <= zlen src) by (apply (at_line_in_range _ _ _ _ _ _ Hat); discriminate).
  unfold fenced_open. rewrite peek_s_cached by lia. cbn [bind line_of s_c ctxG c_boff].
  rewrite (fence_open_line info Hw). cbn [bind].
  unfold lseg. cbn [s_start s_pad]. unfold new_node, halloc, st_h, st_c. cbn [s_h s_c s_r].
  destruct info as [|c0 r0]; [reflexivity|].
  cbn [info_seg].
  replace (a - 0 + 3 =? a - 0 + (3 + zlen (c0 :: r0))) with false.
  2:{ symmetry. apply Z.eqb_neq. rewrite zlen_cons. pose proof (zlen_nonneg r0). lia. }
  replace (a - 0 + 3) with (a + 3) by lia. replace (a - 0 + (3 + zlen (c0 :: r0))) with (a + 3 + zlen (c0 :: r0)) by lia.
  reflexivity.
Qed.

Lemma fence_try cs cl arr src pre info rest k blank :
  src = pre ++ (ticks ++ info ++ [10%N]) ++ rest -> forallb wordc info = true ->
  TRY (candidates 96) 0%nat blank false noBlocksOpened 0
      (mkst (dnode cs :: cl) (ctx arr 0)
            (rd src k (zlen pre) (zlen pre + zlen (ticks ++ info ++ [10%N])) (zlen pre) (SomeB (ticks ++ info ++ [10%N])) 0)) =
  Ok (TDone newBlocksOpened
        (mkst (fheap (cs ++ [S (length cl)]) cl (zlen pre) info [] blank) (fctx cl (skipn 1 arr) 1 0 0 true)
              (rd src k (zlen pre) (zlen pre + zlen (ticks ++ info ++ [10%N])) (zlen pre) (SomeB (ticks ++ info ++ [10%N])) 0))).
Proof.
  intros Hsrc Hw.
  assert (Hat : at_line src pre (ticks ++ info ++ [10%N]) rest (zlen pre) (zlen pre + zlen (ticks ++ info ++ [10%N]))) by (rewrite Hsrc; apply at_line_here).
  change (candidates 96) with [PFenced; PCodeBlock; PParagraph]. rewrite ctx_ctxG.
  rewrite (try_opened norm re_t1o re_t2 re_t3 re_t4 re_t5 re_t6 re_t7 allowed_tags PFenced [PCodeBlock; PParagraph] cs cl arr 0 0
             (Some (96%N, 0, 3, S (length cl))) (set_seg (mknode BFenced 0) (info_seg (zlen pre) info))
             (rd src k (zlen pre) (zlen pre + zlen (ticks ++ info ++ [10%N])) (zlen pre) (SomeB (ticks ++ info ++ [10%N])) 0) blank).
  - reflexivity.
  - reflexivity.
  - cbn [p_open]. rewrite (fenced_open_line _ arr src pre info rest k _ _ Hat Hw). reflexivity.
Qed.

(* ---------- a content line ---------- *)
Lemma fenced_continue_text cs cl tl off info acc bl src pre l rest k a b :
  at_line src pre (l ++ [10%N]) rest a b -> forallb textc l = true ->
  fenced_continue space_table (mkst (fheap cs cl off info acc bl) (fctx cl tl 1 0 0 true) (rd src k a b a (SomeB (l ++ [10%N])) (-1))) (S (length cl)) =
  Ok (mkst (fheap cs cl off info (acc ++ [fseg a b]) bl) (fctx cl tl 1 0 0 true) (rd src k a b (b - 1) None (-1)), true).
Proof.
  intros Hat Hl.
  assert (Hr : 0 <= a /\ a < b /\ b <= zlen src) by (apply (at_line_in_range _ _ _ _ _ _ Hat); destruct l; discriminate).
  assert (Hlen : b - a = zlen (l ++ [10%N])) by (destruct Hat as (_ & Ha & Hb); lia).
  unfold fenced_continue. cbn [s_c fctx ctxG c_fence]. rewrite peek_s_cached by lia. cbn [bind].
  unfold fence_continue_r. cbn [s_r]. rewrite peek_cached by lia. cbn [bind]. rewrite line_offset_fresh. cbn [bind].
  unfold lseg at 1. cbn [s_pad]. rewrite (fence_continue_text l Hl).
  change (0 =? 0) with true. cbv iota. cbn [bind].
  unfold r_advance_and_set_padding. unfold lseg. cbn [s_start s_stop s_pad].
  rewrite advance_fast by lia. cbn [bind].
  unfold rd at 1. cbn [r_pos s_pad]. change (0 <? 0) with false. cbv iota.
  unfold st_r. cbn [s_h s_c s_r bind]. unfold fheap. rewrite hupd_last. cbn [bind]. unfold st_h. cbn [s_h s_c s_r].
  unfold fnode, set_lines. cbn [bk bpar bch blines bblank b_i1 b_i2 b_tight b_seg]. unfold fseg.
  replace (a + 0) with a by lia. replace (a + (b - a - 0 - 1)) with (b - 1) by lia. reflexivity.
Qed.

Lemma each_fence_text cs cl tl off info acc bl src pre l rest k a b stats :
  at_line src pre (l ++ [10%N]) rest a b -> forallb textc l = true ->
  exists e, EACH 2 [(S (length cl), PFenced)] 0%nat 0 0 stats
       (mkst (fheap cs cl off info acc bl) (fctx cl tl 1 0 0 true) (rd src k a b a None (-1))) =
  Ok (inr (mkst (fheap cs cl off info (acc ++ [fseg a b]) bl) (fctx cl tl 1 0 0 true) (rd src k a b (b - 1) None (-1))),
      (k, 0, e) :: stats).
Proof.
  intros Hat Hl. eexists.
  cbn [each_opened]. change (0 <? 0) with false. cbv iota. cbn [Z.to_nat nth_error].
  rewrite (peek_s_fresh _ _ src pre (l ++ [10%N]) rest k a b (-1) Hat) by (destruct l; discriminate).
  cbn [bind s_h]. unfold fheap at 1. rewrite is_paragraph_last_gen. cbn [fnode bk bkind_eqb bind negb]. cbv iota.
  cbn [p_continue]. fold (fheap cs cl off info acc bl).
  rewrite (fenced_continue_text cs cl tl off info acc bl src pre l rest k a b Hat Hl). cbn [bind fst snd andb]. cbv iota.
  change (0 + 1) with 1. change (0 <? 1) with true. cbv iota.
  unfold rline. cbn [s_r]. unfold rd at 1. cbn [r_line]. reflexivity.
Qed.

(* ---------- the closing fence ---------- *)
Lemma fenced_continue_close cs cl tl off info acc bl src pre term rest k a b :
  at_line src pre (ticks ++ term) rest a b -> term = [10%N] \/ term = [] ->
  fenced_continue space_table (mkst (fheap cs cl off info acc bl) (fctx cl tl 1 0 0 true) (rd src k a b a (SomeB (ticks ++ term)) (-1))) (S (length cl)) =
  Ok (mkst (fheap cs cl off info acc bl) (fctx cl tl 1 0 0 true) (rd src k a b (a + 3) None (-1)), false).
Proof.
  intros Hat Ht.
  assert (Hr : 0 <= a /\ a < b /\ b <= zlen src) by (apply (at_line_in_range _ _ _ _ _ _ Hat); discriminate).
  unfold fenced_continue. cbn [s_c fctx ctxG c_fence]. rewrite peek_s_cached by lia. cbn [bind].
  unfold fence_continue_r. cbn [s_r]. rewrite peek_cached by lia. cbn [bind]. rewrite line_offset_fresh. cbn [bind].
  unfold lseg at 1. cbn [s_pad]. rewrite (fence_continue_close term Ht).
  destruct Hat as (Hsrc & Ha & Hb).
  rewrite (advance_ticks src pre term rest k a b Hsrc Ha Ht). cbn [bind]. reflexivity.
Qed.

(* openBlocks behind the closing fence: the rest of the line is a newline or nothing *)
Lemma open_blocks_behind_fence f cs cl tl off info acc bl src pre term rest k a b blank :
  at_line src pre (ticks ++ term) rest a b -> term_ok term rest ->
  exists bo r,
  OB (S f) 0%nat blank (mkst (fheap cs cl off info acc bl) (fctx cl tl 1 0 0 true) (rd src k a b (a + 3) None (-1))) =
  Ok (noBlocksOpened, mkst (fheap cs cl off info acc bl) (fctx cl tl 1 bo bo true) r) /\
  r_advance_line r = r_advance_line (rd src k a b (a + 3) None (-1)) /\ r_src r = src /\
  (term = [10%N] -> bo = 0).
Proof.
  intros Hat Ht.
  assert (Hr : 0 <= a /\ a < b /\ b <= zlen src) by (apply (at_line_in_range _ _ _ _ _ _ Hat); discriminate).
  destruct Hat as (Hsrc & Ha & Hb).
  assert (Hsl : slice src a (a + 3) = Ok ticks).
  { rewrite Hsrc. rewrite <- app_assoc. apply slice_mid; [exact Ha|]. change (zlen ticks) with 3. lia. }
  unfold open_blocks. cbn [s_c s_h]. unfold last_opened at 1. cbn [fctx ctxG c_len c_arr nth_error].
  unfold fheap at 1. rewrite is_paragraph_last_gen. cbn [fnode bk bkind_eqb bind].
  cbn [open_blocks_loop]. unfold peek_line_s. cbn [s_r].
  destruct Ht as [-> | [-> ->]].
  - (* a newline follows *)
    assert (Hb4 : b = a + 4) by (rewrite Hb, Ha, zlen_app; change (zlen ticks) with 3; change (zlen [10%N]) with 1; lia).
    exists 0. eexists. split; [|split; [|split]].
    + rewrite (peek_mid src k a b (a + 3) (-1) [10%N]) by (try lia;
        rewrite Hsrc; replace (pre ++ (ticks ++ [10%N]) ++ rest) with ((pre ++ ticks) ++ [10%N] ++ rest) by (rewrite <- !app_assoc; reflexivity);
        apply slice_mid; rewrite zlen_app; change (zlen ticks) with 3; change (zlen [10%N]) with 1; lia).
      cbn [bind]. unfold st_r. cbn [s_h s_c s_r]. unfold line_offset_s. cbn [s_r].
      rewrite (line_offset_mid src k a b (a + 3) _ ticks) by (try lia; exact Hsl).
      cbn [bind]. unfold st_r. cbn [s_h s_c s_r line_of].
      unfold indent_width. cbn [indent_width_pos]. change (N.eqb 10 32) with false. change (N.eqb 10 9) with false. cbv iota.
      change (zlen [10%N] <=? 0) with false. cbv iota.
      unfold st_c. cbn [s_h s_c s_r]. change (N.eqb 10 10) with true. cbv iota. cbn [bind andb]. cbv iota. reflexivity.
    + reflexivity.
    + reflexivity.
    + reflexivity.
  - (* the source ends *)
    rewrite app_nil_r in *. assert (Hb3 : b = a + 3) by (rewrite Hb, Ha; change (zlen ticks) with 3; lia).
    assert (Hend : zlen src = a + 3).
    { rewrite Hsrc, !zlen_app. change (zlen ticks) with 3. change (zlen (@nil N)) with 0. lia. }
    exists (-1). eexists. split; [|split; [|split]].
    + rewrite peek_eof by lia. cbn [bind]. unfold st_r. cbn [s_h s_c s_r]. unfold line_offset_s. cbn [s_r].
      rewrite (line_offset_mid src k a b (a + 3) _ ticks) by (try lia; exact Hsl).
      cbn [bind]. unfold st_r. cbn [s_h s_c s_r line_of].
      unfold indent_width. cbn [indent_width_pos]. change (zlen (@nil N) <=? 0) with true. cbv iota.
      unfold st_c. cbn [s_h s_c s_r]. cbn [bind andb]. cbv iota. reflexivity.
    + reflexivity.
    + reflexivity.
    + discriminate.
Qed.

Lemma each_fence_close cs cl tl off info acc bl src pre term rest k a b stats :
  at_line src pre (ticks ++ term) rest a b -> term_ok term rest ->
  exists e bo r,
  EACH 2 [(S (length cl), PFenced)] 0%nat 0 0 stats
       (mkst (fheap cs cl off info acc bl) (fctx cl tl 1 0 0 true) (rd src k a b a None (-1))) =
  Ok (inr (mkst (fheap cs cl off info acc bl) (fctx cl tl 0 bo bo false) r), (k, 0, e) :: stats) /\
  r_advance_line r = r_advance_line (rd src k a b (a + 3) None (-1)) /\ r_src r = src /\
  (term = [10%N] -> bo = 0).
Proof.
  intros Hat Ht.
  destruct (open_blocks_behind_fence (2 * length (ticks ++ term) + 7) cs cl tl off info acc bl src pre term rest k a b
              (is_blank_line (k - 1) 0 ((k, 0, Reader.is_blank space_table (ticks ++ term)) :: stats)) Hat Ht)
    as (bo & r & Hob & Hadv & Hsrc & Hbo).
  eexists. exists bo, r. split; [|split; [|split]]; try assumption.
  cbn [each_opened]. change (0 <? 0) with false. cbv iota. cbn [Z.to_nat nth_error].
  rewrite (peek_s_fresh _ _ src pre (ticks ++ term) rest k a b (-1) Hat) by discriminate.
  cbn [bind s_h]. unfold fheap at 1. rewrite is_paragraph_last_gen. cbn [fnode bk bkind_eqb bind negb]. cbv iota.
  cbn [p_continue]. fold (fheap cs cl off info acc bl).
  rewrite (fenced_continue_close cs cl tl off info acc bl src pre term rest k a b Hat (term_ok_cases _ _ Ht)).
  cbn [bind fst snd]. cbv iota.
  change (0 =? 0) with true. cbv iota. cbn [bind nth_error].
  unfold rline. cbn [s_r]. rewrite !r_line_rd.
  replace (2 * length (ticks ++ term) + 8)%nat with (S (2 * length (ticks ++ term) + 7))%nat by lia.
  rewrite Hob. cbn [bind]. change (noBlocksOpened =? paragraphContinuation) with false. cbn [negb]. cbv iota.
  cbn [s_c fctx ctxG c_arr nth_error bind]. rewrite Nat.eqb_refl.
  unfold fheap, fctx.
  rewrite (close_blocks_leaf norm cs cl (fnode off info acc bl) PFenced tl bo bo (Some (96%N, 0, 3, S (length cl))) None r 0%nat); [reflexivity|reflexivity|reflexivity|].
  cbn [p_close]. unfold fenced_close. cbn [s_c ctxG c_fence]. rewrite Nat.eqb_refl. reflexivity.
Qed.


(* ---------- the loop over the lines of the block ---------- *)
Lemma opened_fctx1 cl tl bo bi open : opened (fctx cl tl 1 bo bi open) = [(S (length cl), PFenced)].
Proof. reflexivity. Qed.
Lemma opened_fctx0 cl tl bo bi open : opened (fctx cl tl 0 bo bi open) = [].
Proof. reflexivity. Qed.
Lemma no_nl_ticks : no_nl ticks.
Proof. reflexivity. Qed.

Lemma fence_lines_loop ls : forall fuel cs cl tl off info acc bl pre k stats src term suf,
  forallb (forallb textc) ls = true -> term_ok term suf ->
  src = pre ++ code_text ls ++ ticks ++ term ++ suf ->
  (length ls + 2 <= fuel)%nat ->
  exists stats' bo k',
    LINES fuel 0%nat stats (mkst (fheap cs cl off info acc bl) (fctx cl tl 1 0 0 true)
                                 (rdA src k pre (code_text ls ++ ticks ++ term ++ suf))) =
    Ok (inr (mkst (fheap cs cl off info (acc ++ fence_segs (zlen pre) ls) bl) (fctx cl tl 0 bo bo false)
                  (rdA src k' (pre ++ code_text ls ++ ticks ++ term) suf)), stats') /\
    (term = [10%N] -> bo = 0).
Proof.
  induction ls as [|l ls IH]; intros fuel cs cl tl off info acc bl pre k stats src term suf Hls Ht Hsrc Hfuel.
  - destruct fuel as [|[|f]]; [cbn [length] in Hfuel; lia|cbn [length] in Hfuel; lia|].
    cbn [code_text flat_map app] in *.
    assert (Hat : at_line src pre (ticks ++ term) suf (zlen pre) (zlen pre + zlen (ticks ++ term))).
    { split; [|split; reflexivity]. rewrite Hsrc. rewrite <- !app_assoc. reflexivity. }
    destruct (each_fence_close cs cl tl off info acc bl src pre term suf k _ _ stats Hat Ht) as (e & bo & r & Hrun & Hadv & Hrs & Hbo).
    exists ((k, 0, e) :: stats), bo, (k + 1). split; [|exact Hbo].
    cbn [lines_loop s_c]. rewrite !opened_fctx1. cbn [length]. change (zlen [(S (length cl), PFenced)] - 1) with 0.
    rewrite (rdA_fline src k pre _ (ticks ++ term)) by (apply fline_text; [exact no_nl_ticks|exact Ht]).
    rewrite Hrun. cbn [bind]. unfold advance_line_s at 1 2. unfold st_r. cbn [s_h s_c s_r]. rewrite opened_fctx0.
    rewrite Hadv.
    rewrite (advance_line_suf' src (pre ++ ticks ++ term) suf); [|rewrite Hsrc, <- !app_assoc; reflexivity|rewrite (zlen_app pre); reflexivity].
    rewrite app_nil_r. reflexivity.
  - destruct fuel as [|f]; [lia|]. cbn [length] in Hfuel.
    cbn [forallb] in Hls. apply andb_true_iff in Hls. destruct Hls as [Hl Hls].
    change (code_text (l :: ls)) with ((l ++ [10%N]) ++ code_text ls) in *.
    set (rest := code_text ls ++ ticks ++ term ++ suf) in *.
    assert (Hsrc1 : src = pre ++ (l ++ [10%N]) ++ rest) by (rewrite Hsrc; unfold rest; rewrite <- !app_assoc; reflexivity).
    assert (Hat : at_line src pre (l ++ [10%N]) rest (zlen pre) (zlen pre + zlen (l ++ [10%N]))) by (rewrite Hsrc1; apply at_line_here).
    destruct (each_fence_text cs cl tl off info acc bl src pre l rest k _ _ stats Hat Hl) as (e & Hrun).
    destruct (IH f cs cl tl off info (acc ++ [fseg (zlen pre) (zlen pre + zlen (l ++ [10%N]))]) bl (pre ++ l ++ [10%N]) (k + 1)
                ((k, 0, e) :: stats) src term suf Hls Ht) as (stats' & bo & k' & Hrun' & Hbo).
    { rewrite Hsrc1. unfold rest. rewrite <- !app_assoc. reflexivity. }
    { lia. }
    exists stats', bo, k'. split; [|exact Hbo].
    cbn [lines_loop s_c]. rewrite !opened_fctx1. cbn [length]. change (zlen [(S (length cl), PFenced)] - 1) with 0.
    replace (((l ++ [10%N]) ++ code_text ls) ++ ticks ++ term ++ suf) with ((l ++ [10%N]) ++ rest) by (unfold rest; rewrite <- !app_assoc; reflexivity).
    rewrite (rdA_fline src k pre _ (l ++ [10%N])).
    2:{ rewrite <- app_assoc. apply (fline_text l [10%N] rest); [apply text_no_nl; exact Hl|left; reflexivity]. }
    rewrite Hrun. cbn [bind]. unfold advance_line_s. unfold st_r. cbn [s_h s_c s_r].
    rewrite (advance_line_suf' src (pre ++ l ++ [10%N]) rest); [|rewrite Hsrc1, <- !app_assoc; reflexivity|rewrite (zlen_app pre); reflexivity].
    unfold rest. rewrite Hrun'.
    replace (pre ++ ((l ++ [10%N]) ++ code_text ls) ++ ticks ++ term) with ((pre ++ l ++ [10%N]) ++ code_text ls ++ ticks ++ term)
      by (rewrite <- !app_assoc; reflexivity).
    replace (acc ++ fence_segs (zlen pre) (l :: ls))
      with ((acc ++ [fseg (zlen pre) (zlen pre + zlen (l ++ [10%N]))]) ++ fence_segs (zlen (pre ++ l ++ [10%N])) ls); [reflexivity|].
    rewrite <- app_assoc. cbn [fence_segs app]. rewrite !zlen_app. change (zlen [10%N]) with 1.
    rewrite !Z.add_assoc. reflexivity.
Qed.

Lemma code_text_len ls : (length ls <= length (code_text ls))%nat.
Proof. induction ls as [|l ls IH]; [reflexivity|]. cbn [code_text flat_map length]. rewrite !app_length. cbn [length]. fold (code_text ls). lia. Qed.

(* ---------- the whole block ---------- *)
Lemma fence_block_step info ls : lblock_ok (LFence info ls) = true -> STEP (LFence info ls).
Proof.
  cbn [lblock_ok]. intros Hok. apply andb_true_iff in Hok. destruct Hok as [Hw Hls].
  intros f eb term suf next cs cl arr pre k stats src Hpt Ht Hsrc Hnext.
  cbn [lblock_src] in *.
  set (line := ticks ++ info ++ [10%N]).
  set (rest := code_text ls ++ ticks ++ term ++ suf).
  assert (Hsrc1 : src = pre ++ line ++ rest) by (rewrite Hsrc; unfold line, rest; rewrite <- !app_assoc; reflexivity).
  assert (Hfl : fline (line ++ rest) = line).
  { unfold line. replace ((ticks ++ info ++ [10%N]) ++ rest) with ((ticks ++ info) ++ [10%N] ++ rest) by (rewrite <- !app_assoc; reflexivity).
    rewrite (fline_text (ticks ++ info) [10%N] rest); [rewrite <- app_assoc; reflexivity| |left; reflexivity].
    apply no_nl_app; [exact no_nl_ticks|]. apply text_no_nl. apply wordc_all_textc. exact Hw. }
  set (blank := is_blank_line (k - 1) 0 stats).
  pose proof (fence_try cs cl arr src pre info rest k blank Hsrc1 Hw) as Htry. fold line in Htry.
  assert (Hfuel : (length ls + 2 <= S (length src))%nat).
  { rewrite Hsrc, !app_length. pose proof (code_text_len ls). unfold ticks. cbn [length]. lia. }
  destruct (fence_lines_loop ls (S (length src)) (cs ++ [S (length cl)]) cl (skipn 1 arr) (zlen pre) info [] blank (pre ++ line) (k + 1)
              stats src term suf Hls Ht) as (stats' & bo & k' & Hrun & Hbo).
  { rewrite Hsrc1. unfold rest. rewrite <- !app_assoc. reflexivity. }
  { exact Hfuel. }
  assert (Hstep : PBL (S (S f)) 0%nat stats (mkst (dnode cs :: cl) (ctx arr 0) (rdA src k pre ((ticks ++ info ++ [10%N] ++ code_text ls ++ ticks) ++ term ++ suf))) =
                  PBL (S f) 0%nat stats'
                      (mkst (fheap (cs ++ [S (length cl)]) cl (zlen pre) info (fence_segs (zlen (pre ++ line)) ls) blank)
                            (fctx cl (skipn 1 arr) 0 bo bo false)
                            (rdA src k' ((pre ++ line) ++ code_text ls ++ ticks ++ term) suf))).
  { replace ((ticks ++ info ++ [10%N] ++ code_text ls ++ ticks) ++ term ++ suf) with (line ++ rest) by (unfold line, rest; rewrite <- !app_assoc; reflexivity).
    change (line ++ rest) with ((96%N :: [96%N; 96%N] ++ info ++ [10%N]) ++ rest).
    match type of Htry with _ = Ok (TDone _ ?s1) =>
      rewrite (pbl_open norm re_t1o re_t1c re_t2 re_t3 re_t4 re_t5 re_t6 re_t7 allowed_tags (S f) cs cl arr src pre 96%N
                 ([96%N; 96%N] ++ info ++ [10%N]) rest k stats s1) end.
    - unfold advance_line_s at 1. unfold st_r. cbn [s_h s_c s_r].
      rewrite (advance_line_suf' src (pre ++ line) rest); [|rewrite Hsrc1, <- app_assoc; reflexivity|rewrite zlen_app; reflexivity].
      unfold rest. rewrite Hrun. cbn [bind app]. reflexivity.
    - exact Hsrc1.
    - exact Hfl.
    - reflexivity.
    - exact Htry.
    - reflexivity. }
  assert (Hoff : zlen (pre ++ line) = zlen pre + 3 + zlen info + 1).
  { unfold line. rewrite !zlen_app. change (zlen ticks) with 3. change (zlen [10%N]) with 1. lia. }
  destruct (ptail_nil_inv _ _ _ Hpt) as [(-> & -> & ->)|(-> & ->)].
  - (* the source ends behind the block *)
    eexists stats', _, blank. split; [|split; [|split]].
    + rewrite Hstep. cbn [parse_blocks_loop]. unfold src_of. cbn [s_r]. unfold rdA at 1 2. rewrite !r_src_rd.
      unfold r_skip_blank_lines. cbn [skip_blank_lines]. rewrite peek_eof.
      2:{ rewrite Hsrc1. unfold rest. repeat rewrite zlen_app. change (zlen (@nil N)) with 0. lia. }
      cbn [bind negb]. cbv iota. unfold st_r. cbn [s_h s_c s_r]. reflexivity.
    + cbn [s_h]. unfold fheap. rewrite node_of_fence, Hoff. reflexivity.
    + reflexivity.
    + discriminate.
  - (* an empty line follows *)
    destruct (Hnext eq_refl) as (c0 & nx & -> & Hc0).
    assert (Hterm : term = [10%N]) by (apply (term_ok_nonempty term _ Ht); discriminate).
    rewrite (Hbo Hterm) in Hstep.
    eexists [], _, blank. split; [|split; [|split]].
    + rewrite Hstep. unfold fctx. cbv iota.
      rewrite (pbl_skip_gap norm re_t1o re_t1c re_t2 re_t3 re_t4 re_t5 re_t6 re_t7 allowed_tags (S f) _ _ 0 0 src _ c0 nx k' stats').
      * reflexivity.
      * rewrite Hsrc1. unfold rest. rewrite <- !app_assoc. reflexivity.
      * exact Hc0.
    + cbn [s_h]. unfold fheap. rewrite node_of_fence, Hoff. reflexivity.
    + reflexivity.
    + intros _. eexists _, _, _. split; [|split; [|split]].
      4:{ cbn [s_r]. reflexivity. }
      * cbn [s_c]. rewrite ctx_ctxG. reflexivity.
      * rewrite Hsrc1. unfold rest. rewrite Hterm. rewrite <- !app_assoc. reflexivity.
      * unfold line. rewrite Hterm. repeat rewrite zlen_app. change (zlen ticks) with 3. change (zlen [10%N]) with 1. lia.
Qed.

End Driver.
