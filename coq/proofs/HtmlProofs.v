(* C03 / C04 / C01 for the L1 renderer: on well-formed trees, safe-mode rendering never fails
   and emits only inert, well-nested markup from the fixed vocabulary, with no script-capable
   or local-file URL in any href / src.

   STATUS: all three theorems (render_total, safe_render_inert, safe_render_inert_xhtml) are
   proved exactly as stated in the skeleton; `Print Assumptions` says "Closed under the global
   context" for each.
   - No statement was found false; no counterexample exists to record.
   - model/HtmlSpec.v was NOT changed (wf_tree / node_ok / wf_node / TextOut / AttrOut / Inert /
     InertX are as given).
   - No Section hypothesis was added: the four of the skeleton (table_std, url_ok,
     entities_bytes, filters_no_url) suffice.  On the real tables they are discharged by
     Concrete.html_escape_table_std, Concrete.real_url_tables_ok, Concrete.real_entities_bytes and,
     for filters_no_url, by [filters_no_url_b_spec] below with
       filters_no_url_b [f_global; ...; f_td] = true   (vm_compute; checked: true on gen/Filters.v).
   Structure of the proof:
   - render_total: render_enter / the closing write are total under node_ok (+ well-formed children
     for code spans and image alt text), then induction on the tree (tree_ind').
   - inertness is proved once for an abstract language I closed under nil / ++ / text / the
     placeholder comment / void elements in the dialect of the configuration / elements
     (Section Gen), and instantiated with Inert (x := xhtml c) and InertX (xhtml c = true).
     [node_shape] is the per-kind lemma; TableHeader / TableRow have the split shape
     "inert body ++ optional <tbody> opener / </tbody> closer" ([Shape]) and are reassembled at
     the Table node ([rows_shape], [node_inert]). *)
Require Import GM.model.Base GM.model.Util GM.model.Reader GM.model.HtmlDecode GM.model.UrlSpec.
Require Import GM.model.HtmlWriter GM.model.Ids GM.model.Html GM.model.HtmlSpec.
Require Import GM.proofs.Finite GM.proofs.EscapeProofs GM.proofs.HtmlWriterProofs.
From Coq Require Import ZArith Lia.
Open Scope N_scope.

(* ================= generic helpers ================= *)
Lemma bind_ok {A B} (r : result A) (k : A -> result B) o :
  bind r k = Ok o -> exists a, r = Ok a /\ k a = Ok o.
Proof. destruct r as [a| |]; cbn [bind]; intro H; [exists a; auto | discriminate H | discriminate H]. Qed.

Lemma Ok_inj {A} (a b : A) : Ok a = Ok b -> a = b.
Proof. intro H. injection H as H. exact H. Qed.
Lemma Ok_pair_inj {A B} (a a' : A) (b b' : B) : Ok (a, b) = Ok (a', b') -> a = a' /\ b = b'.
Proof. intro H. injection H as H1 H2. split; assumption. Qed.

Fixpoint tree_ind' (P : tree -> Prop)
  (H : forall k l a cs, Forall P cs -> P (Node k l a cs)) (t : tree) : P t :=
  match t with
  | Node k l a cs =>
    H k l a cs ((fix go (l : list tree) : Forall P l :=
                   match l with
                   | [] => Forall_nil P
                   | x :: r => Forall_cons x (tree_ind' P H x) (go r)
                   end) cs)
  end.

(* ================= TextOut ================= *)
Lemma TextOut_app a b : TextOut a -> TextOut b -> TextOut (a ++ b).
Proof.
  intros Ha Hb. induction Ha as [|c w H1 H2 H3 H4 _ IH|body w Hb' _ IH].
  - exact Hb.
  - cbn [app]. apply to_plain; assumption.
  - rewrite <- !app_assoc. apply to_ref; assumption.
Qed.

Lemma EscOut_TextOut v : EscOut v -> TextOut v.
Proof.
  intro H. induction H as [|c w H1 H2 H3 H4 _ IH| w _ IH| w _ IH| w _ IH| w _ IH].
  - apply to_nil.
  - apply to_plain; assumption.
  - apply (to_ref [113;117;111;116] w); [reflexivity | exact IH].
  - apply (to_ref [97;109;112] w); [reflexivity | exact IH].
  - apply (to_ref [108;116] w); [reflexivity | exact IH].
  - apply (to_ref [103;116] w); [reflexivity | exact IH].
Qed.

Definition plain_c (c : N) : bool := negb (c =? 60) && negb (c =? 62) && negb (c =? 34) && negb (c =? 38).
Definition plain_b (v : bytes) : bool := forallb plain_c v.

Lemma plain_text v : plain_b v = true -> TextOut v.
Proof.
  induction v as [|c v IH]; cbn [plain_b forallb]; [intros _; apply to_nil|].
  intro H. apply andb_prop in H as [Hc Hv]. unfold plain_c in Hc.
  apply andb_prop in Hc as [Hc H4]. apply andb_prop in Hc as [Hc H3]. apply andb_prop in Hc as [H1 H2].
  apply negb_true_iff, N.eqb_neq in H1, H2, H3, H4.
  apply to_plain; try assumption. apply IH. exact Hv.
Qed.

Lemma plain_b_app a b : plain_b a = true -> plain_b b = true -> plain_b (a ++ b) = true.
Proof. unfold plain_b. rewrite forallb_app. intros -> ->. reflexivity. Qed.

Lemma dec_fuel_plain f : forall n acc, plain_b acc = true -> plain_b (dec_fuel f n acc) = true.
Proof.
  induction f as [|f IH]; intros n acc Hacc; cbn [dec_fuel]; [exact Hacc|].
  destruct (N.ltb_spec n 10) as [Hn|Hn].
  - cbn [plain_b forallb]. fold (plain_b acc). rewrite Hacc, andb_true_r.
    unfold plain_c.
    destruct (N.eqb_spec (48 + n) 60); [lia|]. destruct (N.eqb_spec (48 + n) 62); [lia|].
    destruct (N.eqb_spec (48 + n) 34); [lia|]. destruct (N.eqb_spec (48 + n) 38); [lia|]. reflexivity.
  - apply IH. cbn [plain_b forallb]. fold (plain_b acc). rewrite Hacc, andb_true_r.
    pose proof (N.mod_upper_bound n 10 ltac:(lia)) as Hm.
    unfold plain_c.
    destruct (N.eqb_spec (48 + n mod 10) 60); [lia|]. destruct (N.eqb_spec (48 + n mod 10) 62); [lia|].
    destruct (N.eqb_spec (48 + n mod 10) 34); [lia|]. destruct (N.eqb_spec (48 + n mod 10) 38); [lia|]. reflexivity.
Qed.

Lemma zdec_plain z : plain_b (zdec z) = true.
Proof.
  unfold zdec, Ids.dec. destruct (z <? 0)%Z.
  - apply plain_b_app; [reflexivity|]. apply dec_fuel_plain. reflexivity.
  - apply dec_fuel_plain. reflexivity.
Qed.

Lemma zdec_text z : TextOut (zdec z).
Proof. apply plain_text, zdec_plain. Qed.

(* text_ok *)
Lemma read_while_split p v : v = fst (read_while p v) ++ snd (read_while p v).
Proof. apply read_while_app. Qed.

Lemma text_ok_fuel_out f : forall v, text_ok_fuel f v = true -> TextOut v.
Proof.
  induction f as [|f IH]; intros v; cbn [text_ok_fuel].
  - destruct v; [intros _; apply to_nil | discriminate].
  - destruct v as [|c rest]; [intros _; apply to_nil|].
    destruct (N.eqb_spec c 60) as [E1|E1]; [discriminate|].
    destruct (N.eqb_spec c 62) as [E2|E2]; [discriminate|].
    destruct (N.eqb_spec c 34) as [E3|E3]; [discriminate|].
    cbn [orb].
    destruct (N.eqb_spec c 38) as [E4|E4].
    + subst c.
      match goal with |- context [read_while ?p rest] =>
        pose proof (read_while_split p rest) as Hs; destruct (read_while p rest) as [body tl] end.
      cbn [fst snd] in Hs.
      destruct tl as [|d tl']; [discriminate|].
      destruct (N.eqb_spec d 59) as [Ed|Ed].
      * subst d. intro H. apply andb_prop in H as [Hb Ht].
        rewrite Hs. apply (to_ref body tl' Hb). apply IH. exact Ht.
      * intro H. exfalso.
        destruct d as [|p]; [discriminate H|].
        repeat (destruct p as [p|p|]; try discriminate H). apply Ed. reflexivity.
    + intro H. apply to_plain; try assumption. apply IH. exact H.
Qed.

Lemma text_ok_out v : text_ok v = true -> TextOut v.
Proof. apply text_ok_fuel_out. Qed.

(* ================= attributes ================= *)
Lemma AttrsT_app a b : AttrsT a -> AttrsT b -> AttrsT (a ++ b).
Proof.
  intros Ha Hb. induction Ha as [|x w Hx _ IH]; [exact Hb|].
  rewrite <- app_assoc. apply att_cons; assumption.
Qed.

Lemma AttrsT_one a : AttrOut a -> AttrsT a.
Proof. intro H. rewrite <- (app_nil_r a). apply att_cons; [exact H | apply att_nil]. Qed.

Definition attr1 (name val : bytes) : bytes := [32] ++ name ++ [61;34] ++ val ++ [34].

(* a literal attribute whose name is not href / src *)
Lemma attr1_plain name val : attr_name_ok name = true -> bytes_eqb name a_href = false ->
  bytes_eqb name a_src = false -> TextOut val -> AttrsT (attr1 name val).
Proof.
  intros Hn H1 H2 Hv. apply AttrsT_one. unfold attr1. apply at_one; [exact Hn | exact Hv|].
  intros [E|E]; subst name; discriminate.
Qed.

Lemma attr1_url name val : attr_name_ok name = true -> TextOut val -> browser_dangerous val = false ->
  AttrsT (attr1 name val).
Proof.
  intros Hn Hv Hd. apply AttrsT_one. unfold attr1. apply at_one; [exact Hn | exact Hv|].
  intros _. exact Hd.
Qed.

(* ================= segments ================= *)
Lemma seg_value_total src s : seg_in src s = true -> exists v, seg_value src s = Ok v.
Proof.
  unfold seg_in, seg_value, slice. intro H.
  apply andb_prop in H as [H Hp]. rewrite H. cbn [bind].
  destruct (Z.ltb_spec (s_pad s) 0) as [Hn|Hn]; [apply Z.leb_le in Hp; lia|].
  destruct (s_fnl s); [|eexists; reflexivity].
  match goal with |- context [rev ?r] => destruct (rev r) as [|x xs] end; [eexists; reflexivity|].
  destruct (N.eqb x 10); eexists; reflexivity.
Qed.

(* ================= well-formedness, unfolded ================= *)
Definition is_table_k (k : kind) : bool := match k with KTable => true | _ => false end.
Definition is_rowish_k (k : kind) : bool := match k with KTableHeader | KTableRow => true | _ => false end.
Definition is_cell_k (k : kind) : bool := match k with KTableCell _ => true | _ => false end.

Lemma wf_node_eq src it ir t :
  wf_node src it ir t =
  node_ok src it t && (if is_cell_k (t_kind t) then ir else true) &&
  forallb (wf_node src (is_table_k (t_kind t)) (is_rowish_k (t_kind t))) (t_children t).
Proof.
  destruct t as [k l a cs]. cbn [wf_node t_kind t_children].
  f_equal. f_equal. destruct k; reflexivity.
Qed.

Lemma wf_node_parts src it ir t : wf_node src it ir t = true ->
  node_ok src it t = true /\ (is_cell_k (t_kind t) = true -> ir = true) /\
  Forall (fun ch => wf_node src (is_table_k (t_kind t)) (is_rowish_k (t_kind t)) ch = true) (t_children t).
Proof.
  rewrite wf_node_eq. intro H. apply andb_prop in H as [H H3]. apply andb_prop in H as [H1 H2].
  split; [exact H1|]. split.
  - intro Hc. rewrite Hc in H2. exact H2.
  - apply Forall_forall. intros x Hx. rewrite forallb_forall in H3. apply H3. exact Hx.
Qed.

Lemma all_bytes_b_spec v : all_bytes_b v = true -> all_bytes v.
Proof.
  unfold all_bytes_b, all_bytes. intro H. apply Forall_forall. intros x Hx.
  rewrite forallb_forall in H. apply H in Hx. apply N.ltb_lt in Hx. exact Hx.
Qed.

Section L1.
Variable html_escape_table : list (option bytes).
Variable punct_table : list N.
Variable entities : list (bytes * bytes).
Variable url_escape_table : list N.
Variable utf8len_table : list N.
Variable f_global f_blockquote f_list f_listitem f_thematic f_link f_image f_table f_thead f_tr f_th f_td : list bytes.

Hypothesis table_std : forall c, esc_entry html_escape_table c = esc_std c.
Hypothesis url_ok : url_tables_ok url_escape_table utf8len_table = true.
Hypothesis entities_bytes : Forall (fun e => Forall (fun c => c < 256) (snd e)) entities.
(* no allow-list lets a user attribute named href or src through *)
Hypothesis filters_no_url :
  Forall (fun f => ~ In a_href f /\ ~ In a_src f)
         [f_global; f_blockquote; f_list; f_listitem; f_thematic; f_link; f_image; f_table; f_thead; f_tr; f_th; f_td].

Notation render := (render html_escape_table punct_table entities url_escape_table utf8len_table
  f_global f_blockquote f_list f_listitem f_thematic f_link f_image f_table f_thead f_tr f_th f_td).
Notation render_node := (render_node html_escape_table punct_table entities url_escape_table utf8len_table
  f_global f_blockquote f_list f_listitem f_thematic f_link f_image f_table f_thead f_tr f_th f_td).
Notation render_enter := (render_enter html_escape_table punct_table entities url_escape_table utf8len_table
  f_global f_blockquote f_list f_listitem f_thematic f_link f_image f_table f_thead f_tr f_th f_td).
Notation render_texts := (render_texts html_escape_table punct_table entities).
Notation write_lines := (write_lines html_escape_table).
Notation attrs_of := (attrs_of html_escape_table).
Notation table_cell_open := (table_cell_open html_escape_table).
Notation writer_write := (writer_write html_escape_table punct_table entities false).
Notation raw_write := (raw_write html_escape_table).
Notation url_value := (url_value html_escape_table punct_table entities url_escape_table utf8len_table).

(* ---------- the walk, with the nested fixpoints named ---------- *)
Definition render_children (c : rcfg) (src : bytes) (pk : kind) : list tree -> result bytes :=
  fix go (l : list tree) : result bytes :=
  match l with
  | [] => Ok []
  | ch :: rest =>
      a <- render_node c src (Some pk) (match rest with [] => false | _ => true end)
                       (match rest with [] => true | _ => false end) ch ;;
      b <- go rest ;; Ok (a ++ b)
  end.
Lemma render_children_nil c src pk : render_children c src pk [] = Ok [].
Proof. reflexivity. Qed.
Lemma render_children_cons c src pk ch rest : render_children c src pk (ch :: rest) =
  (a <- render_node c src (Some pk) (match rest with [] => false | _ => true end)
                       (match rest with [] => true | _ => false end) ch ;;
   b <- render_children c src pk rest ;; Ok (a ++ b)).
Proof. reflexivity. Qed.

Definition close_of (c : rcfg) (src : bytes) (parent : option kind) (hn il : bool) (t : tree) : result bytes :=
  match t_kind t, parent with
  | KTableCell _, Some KTableHeader => Ok (tag_close n_th ++ [10])
  | KTableCell _, _ => Ok (tag_close n_td ++ [10])
  | _, _ => render_leave c src hn il t
  end.

Lemma render_node_eq c src parent hn il t :
  render_node c src parent hn il t =
  (e <- render_enter c src parent t ;;
   inner <- (if snd e then render_children c src (t_kind t) (t_children t) else Ok []) ;;
   close <- close_of c src parent hn il t ;;
   Ok (fst e ++ inner ++ close)).
Proof.
  destruct t as [k l a cs]. cbn [Html.render_node].
  destruct (render_enter c src parent (Node k l a cs)) as [[op walk]| |]; reflexivity.
Qed.

Definition texts_list (src : bytes) : list tree -> result bytes :=
  fix go (l : list tree) : result bytes :=
  match l with
  | [] => Ok []
  | ch :: rest => a <- render_texts src ch ;; b <- go rest ;; Ok (a ++ b)
  end.
Lemma texts_list_cons src ch rest : texts_list src (ch :: rest) =
  (a <- render_texts src ch ;; b <- texts_list src rest ;; Ok (a ++ b)).
Proof. reflexivity. Qed.

Definition codespan_body (src : bytes) : list tree -> result bytes :=
  fix go (l : list tree) : result bytes :=
  match l with
  | [] => Ok []
  | Node (KText s _ _ _) _ _ _ :: rest =>
      v <- seg_value src s ;;
      r <- go rest ;;
      Ok ((match rev v with
           | 10 :: pre => raw_write (rev pre) ++ raw_write [32]
           | _ => raw_write v
           end) ++ r)
  | _ :: _ => Panic
  end.
Lemma codespan_body_text src s b1 b2 b3 l a cc rest :
  codespan_body src (Node (KText s b1 b2 b3) l a cc :: rest) =
  (v <- seg_value src s ;;
   r <- codespan_body src rest ;;
   Ok ((match rev v with
        | 10 :: pre => raw_write (rev pre) ++ raw_write [32]
        | _ => raw_write v
        end) ++ r)).
Proof. reflexivity. Qed.

(* ---------- text pieces ---------- *)
Lemma raw_text v : TextOut (raw_write v).
Proof. apply EscOut_TextOut, raw_write_out, table_std. Qed.

Lemma esc_text v : TextOut (escape_html html_escape_table v).
Proof. apply EscOut_TextOut, escape_html_out, table_std. Qed.

Lemma ww_text v : TextOut (writer_write v).
Proof. apply EscOut_TextOut. unfold HtmlWriter.writer_write. apply writer_write_fuel_out, table_std. Qed.

Lemma url_text u d r : TextOut (url_value u d r).
Proof.
  unfold HtmlWriter.url_value. cbv zeta.
  match goal with |- context [if ?b then _ else _] => destruct b end; [apply esc_text | apply to_nil].
Qed.

(* ================= C01: totality ================= *)
Lemma write_lines_total src ls : forallb (seg_in src) ls = true -> exists r, write_lines src ls = Ok r.
Proof.
  induction ls as [|s ls IH]; cbn [forallb Html.write_lines]; [intros _; eexists; reflexivity|].
  intro H. apply andb_prop in H as [Hs Hl].
  destruct (seg_value_total _ _ Hs) as [v ->]. destruct (IH Hl) as [r ->]. cbn [bind]. eexists; reflexivity.
Qed.

Lemma secure_lines_total src ls : forallb (seg_in src) ls = true -> exists r, secure_lines src ls = Ok r.
Proof.
  induction ls as [|s ls IH]; cbn [forallb secure_lines]; [intros _; eexists; reflexivity|].
  intro H. apply andb_prop in H as [Hs Hl].
  destruct (seg_value_total _ _ Hs) as [v ->]. destruct (IH Hl) as [r ->]. cbn [bind]. eexists; reflexivity.
Qed.

Lemma raw_segments_total src ls : forallb (seg_in src) ls = true -> exists r, raw_segments src ls = Ok r.
Proof.
  induction ls as [|s ls IH]; cbn [forallb raw_segments]; [intros _; eexists; reflexivity|].
  intro H. apply andb_prop in H as [Hs Hl].
  destruct (seg_value_total _ _ Hs) as [v ->]. destruct (IH Hl) as [r ->]. cbn [bind]. eexists; reflexivity.
Qed.

Lemma node_ok_parts src it k lines attrs cs : node_ok src it (Node k lines attrs cs) = true ->
  forallb (seg_in src) lines = true /\ attrs_ok attrs = true.
Proof.
  cbn [node_ok]. intro H. apply andb_prop in H as [H _]. apply andb_prop in H. exact H.
Qed.

Lemma texts_list_out src cs :
  Forall (fun t => exists a, render_texts src t = Ok a /\ TextOut a) cs ->
  exists a, texts_list src cs = Ok a /\ TextOut a.
Proof.
  intro H. induction H as [|t cs (a & Ha & Ta) _ (b & Hb & Tb)].
  - exists []. split; [reflexivity | apply to_nil].
  - rewrite texts_list_cons, Ha, Hb. cbn [bind]. exists (a ++ b). split; [reflexivity | apply TextOut_app; assumption].
Qed.

(* renderTexts on a well-formed subtree: total, and plain text *)
Lemma render_texts_out src : forall t it ir, wf_node src it ir t = true ->
  exists a, render_texts src t = Ok a /\ TextOut a.
Proof.
  induction t as [k lines attrs cs IH] using tree_ind'. intros it ir Hwf.
  apply wf_node_parts in Hwf as (Hok & _ & Hch). cbn [t_kind t_children] in Hch.
  assert (Hgen : exists a, texts_list src cs = Ok a /\ TextOut a).
  { apply texts_list_out. apply Forall_forall. intros ch Hin.
    rewrite Forall_forall in IH, Hch. exact (IH ch Hin _ _ (Hch ch Hin)). }
  destruct k; try exact Hgen.
  - (* KText *)
    cbn [node_ok] in Hok. apply andb_prop in Hok as [_ Hs].
    cbn [Html.render_texts]. destruct (seg_value_total _ _ Hs) as [v ->]. cbn [bind].
    eexists. split; [reflexivity|].
    destruct raw; [apply raw_text|]. apply TextOut_app; [apply ww_text|].
    destruct (hard || soft); [apply plain_text; reflexivity | apply to_nil].
  - (* KString *)
    cbn [node_ok] in Hok. apply andb_prop in Hok as [_ Hs]. apply andb_prop in Hs as [_ Hc].
    cbn [Html.render_texts]. eexists. split; [reflexivity|].
    destruct code; [apply text_ok_out; exact Hc|].
    destruct raw; [apply raw_text | apply ww_text].
Qed.

Lemma codespan_total src cs :
  forallb is_text_node cs = true ->
  Forall (fun ch => exists it ir, wf_node src it ir ch = true) cs ->
  exists b, codespan_body src cs = Ok b.
Proof.
  intros Ht Hw. induction Hw as [|ch cs (it & ir & Hwf) _ IH]; [eexists; reflexivity|].
  cbn [forallb] in Ht. apply andb_prop in Ht as [Hk Hr].
  destruct ch as [k l a cc]. unfold is_text_node in Hk. cbn [t_kind] in Hk.
  destruct k; try discriminate Hk.
  apply wf_node_parts in Hwf as (Hok & _ & _). cbn [node_ok] in Hok. apply andb_prop in Hok as [_ Hs].
  rewrite codespan_body_text.
  destruct (seg_value_total _ _ Hs) as [v ->]. destruct (IH Hr) as [b ->]. cbn [bind]. eexists; reflexivity.
Qed.

Lemma find_attr_none_nil n : find_attr n [] = None.
Proof. reflexivity. Qed.

Lemma table_cell_open_total c tag f a attrs : style_ok attrs = true ->
  exists o, table_cell_open c tag f a attrs = Ok o.
Proof.
  intro Hs. unfold Html.table_cell_open.
  assert (Hst : match find_attr a_style (match attrs with Some l => l | None => [] end) with
                | Some (AVBytes _) | None => True | Some _ => False end).
  { destruct attrs as [l|]; cbn [style_ok] in Hs |- *.
    - destruct (find_attr a_style l) as [[b|b|]|]; try discriminate Hs; exact I.
    - exact I. }
  destruct a; try (eexists; reflexivity).
  all: match goal with |- context [if (?m =? 1)%Z then _ else _] => destruct (m =? 1)%Z; [eexists; reflexivity|];
         destruct (m =? 2)%Z; [|eexists; reflexivity] end.
  all: destruct (find_attr a_style (match attrs with Some l => l | None => [] end)) as [[b|b|]|];
       try contradiction; eexists; reflexivity.
Qed.

Definition child_wf (src : bytes) (ch : tree) : Prop := exists it ir, wf_node src it ir ch = true.

Lemma enter_total c src parent it k lines attrs cs :
  node_ok src it (Node k lines attrs cs) = true ->
  (is_cell_k k = true -> parent <> None) ->
  Forall (child_wf src) cs ->
  exists e, render_enter c src parent (Node k lines attrs cs) = Ok e.
Proof.
  intros Hok Hpar Hch.
  destruct (node_ok_parts _ _ _ _ _ _ Hok) as [Hlines Hattrs].
  cbn [node_ok] in Hok. apply andb_prop in Hok as [_ Hk].
  destruct k; cbn [Html.render_enter]; try (eexists; reflexivity).
  - (* heading *)
    assert (E : ((0 <=? level) && (level <=? 6))%Z = true) by (clear - Hk; lia). rewrite E. eexists; reflexivity.
  - destruct (write_lines_total _ _ Hlines) as [r ->]. eexists; reflexivity.
  - destruct (write_lines_total _ _ Hlines) as [r ->]. eexists; reflexivity.
  - destruct (unsafe c); [|eexists; reflexivity].
    destruct (secure_lines_total _ _ Hlines) as [r ->]. eexists; reflexivity.
  - (* text *)
    destruct (seg_value_total _ _ Hk) as [v ->]. cbn [bind]. destruct raw; eexists; reflexivity.
  - (* code span *)
    destruct (codespan_total src cs Hk Hch) as [b Hb].
    change (exists e, (body <- codespan_body src cs ;;
              Ok (tag_open n_code ++ attrs_of f_global attrs ++ [62] ++ body ++ tag_close n_code, false)) = Ok e).
    rewrite Hb. eexists; reflexivity.
  - (* image *)
    assert (Ha : exists a, texts_list src cs = Ok a /\ TextOut a).
    { apply texts_list_out. apply (Forall_impl _ (P := child_wf src)); [|exact Hch].
      intros ch (it' & ir' & Hw). exact (render_texts_out src ch _ _ Hw). }
    destruct Ha as (alt & Halt & _).
    change (exists e, (alt <- texts_list src cs ;;
       Ok ([60;105;109;103;32;115;114;99;61;34] ++ url_value (unsafe c) dest true ++ [34;32;97;108;116;61;34] ++ alt ++ [34] ++
            (match title with Some t => [32;116;105;116;108;101;61;34] ++ writer_write t ++ [34] | None => [] end) ++
            attrs_of f_image attrs ++ void_end c [], false)) = Ok e).
    rewrite Halt. eexists; reflexivity.
  - (* raw html *)
    destruct (unsafe c); [|eexists; reflexivity].
    destruct (raw_segments_total _ _ Hk) as [r ->]. eexists; reflexivity.
  - (* table cell *)
    destruct parent as [pk|]; [|exfalso; apply Hpar; reflexivity].
    destruct (table_cell_open_total c n_th f_th a attrs Hk) as [o1 H1].
    destruct (table_cell_open_total c n_td f_td a attrs Hk) as [o2 H2].
    destruct pk; rewrite ?H1, ?H2; eexists; reflexivity.
Qed.

Lemma close_total c src parent hn il it k lines attrs cs :
  node_ok src it (Node k lines attrs cs) = true ->
  exists cl, close_of c src parent hn il (Node k lines attrs cs) = Ok cl.
Proof.
  intro Hok. cbn [node_ok] in Hok. apply andb_prop in Hok as [_ Hk].
  unfold close_of. cbn [t_kind].
  destruct k; cbn [render_leave]; try (eexists; reflexivity).
  - assert (E : ((0 <=? level) && (level <=? 6))%Z = true) by (clear - Hk; lia). rewrite E. eexists; reflexivity.
  - destruct closure as [cl|]; [|eexists; reflexivity].
    destruct (unsafe c); [|eexists; reflexivity].
    destruct (seg_value_total _ _ Hk) as [v ->]. eexists; reflexivity.
  - destruct parent as [[]|]; eexists; reflexivity.
Qed.

Lemma render_node_total c src : forall t parent hn il it ir,
  wf_node src it ir t = true -> (ir = true -> parent <> None) ->
  exists o, render_node c src parent hn il t = Ok o.
Proof.
  induction t as [k lines attrs cs IH] using tree_ind'. intros parent hn il it ir Hwf Hpar.
  apply wf_node_parts in Hwf as (Hok & Hcell & Hch). cbn [t_kind t_children] in Hcell, Hch.
  rewrite render_node_eq. cbn [t_kind t_children].
  assert (Hcw : Forall (child_wf src) cs).
  { apply (Forall_impl _ (P := fun ch => wf_node src (is_table_k k) (is_rowish_k k) ch = true)); [|exact Hch].
    intros ch Hw. exists (is_table_k k), (is_rowish_k k). exact Hw. }
  destruct (enter_total c src parent it k lines attrs cs Hok (fun H => Hpar (Hcell H)) Hcw) as [[op walk] ->].
  destruct (close_total c src parent hn il it k lines attrs cs Hok) as [cl ->].
  cbn [bind fst snd].
  assert (Hin : exists inner, render_children c src k cs = Ok inner).
  { clear Hok Hcell Hcw. induction cs as [|ch rest IHr]; [eexists; reflexivity|]. rewrite render_children_cons.
    inversion IH as [|x xs Hx Hxs]; subst x xs. inversion Hch as [|x xs Hwx Hwxs]; subst x xs.
    destruct (Hx (Some k) (match rest with [] => false | _ => true end) (match rest with [] => true | _ => false end)
                 _ _ Hwx ltac:(intros _; discriminate)) as [o1 ->].
    destruct (IHr Hxs Hwxs) as [o2 ->]. eexists; reflexivity. }
  destruct Hin as [inner Hin]. destruct walk; [rewrite Hin|]; eexists; reflexivity.
Qed.

(* ================= C03 / C04: inert output in safe mode ================= *)
Lemma fno f : In f [f_global; f_blockquote; f_list; f_listitem; f_thematic; f_link; f_image; f_table; f_thead; f_tr; f_th; f_td] ->
  ~ In a_href f /\ ~ In a_src f.
Proof. intro H. exact (proj1 (Forall_forall _ _) filters_no_url f H). Qed.

Definition no_url (f : list bytes) : Prop := ~ In a_href f /\ ~ In a_src f.

Lemma render_attributes_T f l : no_url f ->
  Forall (fun a => attr_name_ok (a_name a) = true) l ->
  AttrsT (render_attributes html_escape_table (filt f) l).
Proof.
  intros [H1 H2] H. unfold render_attributes.
  induction H as [|a l Ha _ IH]; cbn [flat_map]; [apply att_nil|].
  destruct (attr_passes (filt f) a) eqn:Hp; [|exact IH].
  apply att_cons; [|exact IH]. unfold render_attr. apply at_one; [exact Ha | apply esc_text |].
  intros Hn. exfalso. unfold attr_passes, filt in Hp. apply orb_true_iff in Hp as [Hp|Hp].
  - apply existsb_exists in Hp as (x & Hx & Hxe). apply bytes_eqb_eq in Hxe. subst x.
    destruct Hn as [E|E]; rewrite E in Hx; auto.
  - destruct Hn as [E|E]; rewrite E in Hp; discriminate Hp.
Qed.

Lemma attrs_ok_names l : attrs_ok (Some l) = true -> Forall (fun a => attr_name_ok (a_name a) = true) l.
Proof.
  cbn [attrs_ok]. intro H. apply Forall_forall. intros x Hx. rewrite forallb_forall in H.
  apply H in Hx. apply andb_prop in Hx as [Hx _]. exact Hx.
Qed.

Lemma attrs_of_T f attrs : attrs_ok attrs = true -> no_url f -> AttrsT (attrs_of f attrs).
Proof.
  intros Ha Hf. destruct attrs as [l|]; cbn [Html.attrs_of]; [|apply att_nil].
  apply render_attributes_T; [exact Hf | apply attrs_ok_names; exact Ha].
Qed.

Lemma set_attr_names n v l : attr_name_ok n = true ->
  Forall (fun a => attr_name_ok (a_name a) = true) l ->
  Forall (fun a => attr_name_ok (a_name a) = true) (set_attr n v l).
Proof.
  intros Hn H. induction H as [|a l Ha Hl IH]; cbn [set_attr].
  - constructor; [exact Hn | constructor].
  - destruct (bytes_eqb (a_name a) n); constructor; assumption.
Qed.

Lemma bd_hash w : browser_dangerous (35 :: w) = false.
Proof. reflexivity. Qed.
Lemma bd_m w : browser_dangerous (109 :: w) = false.
Proof. reflexivity. Qed.

Lemma cell_open_shape c tag f a attrs o : no_url f -> attrs_ok attrs = true ->
  table_cell_open c tag f a attrs = Ok o -> exists ats, AttrsT ats /\ o = tag_open tag ++ ats ++ [62].
Proof.
  intros Hf Ha. unfold Html.table_cell_open.
  assert (Hal : Forall (fun x => attr_name_ok (a_name x) = true) (match attrs with Some l => l | None => [] end)).
  { destruct attrs as [l|]; [apply attrs_ok_names; exact Ha | constructor]. }
  assert (HA : AttrsT (attrs_of f attrs)) by (apply attrs_of_T; assumption).
  assert (Hgen : Ok (tag_open tag ++ attrs_of f attrs ++ [62]) = Ok o -> exists ats, AttrsT ats /\ o = tag_open tag ++ ats ++ [62]).
  { intro H. apply Ok_inj in H as <-. exists (attrs_of f attrs). split; [exact HA | reflexivity]. }
  assert (Hal' : forall nm, TextOut nm ->
     (if ((if (talign c =? 0)%Z then if xhtml c then 1%Z else 2%Z else talign c) =? 1)%Z
      then Ok (tag_open tag ++
               match find_attr a_align (match attrs with Some l => l | None => [] end) with
               | Some _ => []
               | None => [32] ++ a_align ++ [61; 34] ++ nm ++ [34]
               end ++ attrs_of f attrs ++ [62])
      else if ((if (talign c =? 0)%Z then if xhtml c then 1%Z else 2%Z else talign c) =? 2)%Z
      then match find_attr a_style (match attrs with Some l => l | None => [] end) with
           | Some (AVBytes v) =>
               Ok (tag_open tag ++ render_attributes html_escape_table (filt f)
                     (set_attr a_style (AVBytes (v ++ [59] ++ text_align ++ nm)) (match attrs with Some l => l | None => [] end)) ++ [62])
           | Some _ => Panic
           | None =>
               Ok (tag_open tag ++ render_attributes html_escape_table (filt f)
                     (set_attr a_style (AVBytes (text_align ++ nm)) (match attrs with Some l => l | None => [] end)) ++ [62])
           end
      else Ok (tag_open tag ++ attrs_of f attrs ++ [62])) = Ok o ->
     exists ats, AttrsT ats /\ o = tag_open tag ++ ats ++ [62]).
  { intros nm Hnm.
    destruct ((if (talign c =? 0)%Z then if xhtml c then 1%Z else 2%Z else talign c) =? 1)%Z.
    - intro H. apply Ok_inj in H as <-.
      destruct (find_attr a_align (match attrs with Some l => l | None => [] end)).
      + exists (attrs_of f attrs). split; [exact HA | reflexivity].
      + exists (attr1 a_align nm ++ attrs_of f attrs). split.
        * apply AttrsT_app; [|exact HA]. apply attr1_plain; try reflexivity. exact Hnm.
        * unfold attr1. rewrite <- !app_assoc. reflexivity.
    - destruct ((if (talign c =? 0)%Z then if xhtml c then 1%Z else 2%Z else talign c) =? 2)%Z; [|exact Hgen].
      destruct (find_attr a_style (match attrs with Some l => l | None => [] end)) as [[v|v|]|];
        try discriminate; intro H; apply Ok_inj in H as <-; eexists; (split; [|reflexivity]);
        apply render_attributes_T; try exact Hf; apply set_attr_names; try exact Hal; reflexivity. }
  destruct a; cbv zeta; [ | | | exact Hgen]; apply Hal'; apply plain_text; reflexivity.
Qed.

Section Gen.
Variable c : rcfg.
Hypothesis Hsafe : unsafe c = false.
Variable I : bytes -> Prop.
Definition void (name attrs : bytes) : bytes := [60] ++ name ++ attrs ++ (if xhtml c then [32;47;62] else [62]).
Definition elem (name attrs body : bytes) : bytes := [60] ++ name ++ attrs ++ [62] ++ body ++ [60;47] ++ name ++ [62].
Hypothesis I_nil : I [].
Hypothesis I_app : forall a b, I a -> I b -> I (a ++ b).
Hypothesis I_text : forall t, TextOut t -> I t.
Hypothesis I_omitted : I omitted.
Hypothesis I_void : forall name attrs, In name void_names -> AttrsT attrs -> I (void name attrs).
Hypothesis I_elem : forall name attrs body, In name elem_names -> AttrsT attrs -> I body -> I (elem name attrs body).

Lemma I_cast a b : I a -> a = b -> I b.
Proof. intros H <-. exact H. Qed.

Definition Shape (k : kind) (hn il : bool) (o : bytes) : Prop :=
  match k with
  | KTableHeader => exists b, I b /\ o = b ++ (if hn then tag_open n_tbody ++ [62;10] else [])
  | KTableRow => exists b, I b /\ o = b ++ (if il then tag_close n_tbody ++ [10] else [])
  | _ => I o
  end.

Ltac in_list := first [left; reflexivity | right; in_list].
Ltac fno_tac := apply fno; cbn [In]; in_list.

Ltac solveT :=
  lazymatch goal with
  | |- TextOut [] => apply to_nil
  | |- TextOut (_ ++ _) => apply TextOut_app; solveT
  | |- TextOut (zdec _) => apply zdec_text
  | |- TextOut (fn_ref_id _ _) => unfold fn_ref_id; solveT
  | |- TextOut (raw_write _) => apply raw_text
  | |- TextOut (writer_write _) => apply ww_text
  | |- TextOut (escape_html _ _) => apply esc_text
  | |- TextOut (url_value _ _ _) => apply url_text
  | |- TextOut (if ?b then _ else _) => destruct b; solveT
  | |- TextOut _ => first [assumption | apply plain_text; reflexivity | apply text_ok_out; reflexivity | idtac]
  end.

Ltac solveA :=
  lazymatch goal with
  | |- AttrsT [] => apply att_nil
  | |- AttrsT (_ ++ _) => apply AttrsT_app; solveA
  | |- AttrsT (attrs_of _ _) => apply attrs_of_T; [assumption | fno_tac]
  | |- AttrsT (attr1 _ _) => first [assumption | apply attr1_plain; [reflexivity | reflexivity | reflexivity | solveT] | idtac]
  | |- AttrsT _ => first [assumption | idtac]
  end.

Ltac solveI :=
  lazymatch goal with
  | |- I [] => apply I_nil
  | |- I omitted => apply I_omitted
  | |- I (elem _ _ _) => apply I_elem; [unfold elem_names; cbn [In]; in_list | solveA | solveI]
  | |- I (void _ _) => apply I_void; [unfold void_names; cbn [In]; in_list | solveA]
  | |- I (_ ++ _) => apply I_app; solveI
  | |- I _ => first [assumption | apply I_text; solveT]
  end.

Ltac norm :=
  unfold elem, void, attr1, void_end, br_tag, tag_open, tag_close, fn_ref_id;
  try destruct (xhtml c);
  cbn [Html.attrs_of];
  repeat (progress (rewrite <- ?app_assoc; cbn [app])); rewrite ?app_nil_r; reflexivity.

Ltac fin S := apply (I_cast S); [solveI | norm].

Lemma write_lines_text src ls r : write_lines src ls = Ok r -> TextOut r.
Proof.
  revert r. induction ls as [|s ls IH]; cbn [Html.write_lines]; intros r H.
  - apply Ok_inj in H as <-. apply to_nil.
  - apply bind_ok in H as (v & _ & H). apply bind_ok in H as (r' & Hr & H). apply Ok_inj in H as <-.
    apply TextOut_app; [apply raw_text | apply IH; exact Hr].
Qed.

Lemma codespan_body_text_out src cs b : codespan_body src cs = Ok b -> TextOut b.
Proof.
  revert b. induction cs as [|ch cs IH]; intros b H.
  - apply Ok_inj in H as <-. apply to_nil.
  - destruct ch as [k l a cc]. destruct k; try discriminate H.
    rewrite codespan_body_text in H.
    apply bind_ok in H as (v & _ & H). apply bind_ok in H as (r' & Hr & H). apply Ok_inj in H as <-.
    apply TextOut_app; [|apply IH; exact Hr].
    destruct (rev v) as [|x pre]; [apply raw_text|].
    destruct x as [|p]; [apply raw_text|].
    repeat (destruct p as [p|p|]; try apply raw_text).
    apply TextOut_app; apply raw_text.
Qed.

Lemma heading_cases lv : ((1 <=? lv) && (lv <=? 6))%Z = true ->
  (lv = 1 \/ lv = 2 \/ lv = 3 \/ lv = 4 \/ lv = 5 \/ lv = 6)%Z.
Proof. lia. Qed.

Lemma node_shape src parent hn il it k lines attrs cs op walk cl inner :
  node_ok src it (Node k lines attrs cs) = true ->
  Forall (child_wf src) cs ->
  render_enter c src parent (Node k lines attrs cs) = Ok (op, walk) ->
  close_of c src parent hn il (Node k lines attrs cs) = Ok cl ->
  I inner -> (walk = false -> inner = []) ->
  Shape k hn il (op ++ inner ++ cl).
Proof.
  intros Hok Hch Henter Hclose Hinner Hwalk.
  destruct (node_ok_parts _ _ _ _ _ _ Hok) as [Hlines Hattrs].
  cbn [node_ok] in Hok. apply andb_prop in Hok as [_ Hk].
  unfold close_of in Hclose. cbn [t_kind] in Hclose.
  destruct k; cbn [Html.render_enter] in Henter; cbn [render_leave] in Hclose;
    rewrite ?Hsafe in Henter; rewrite ?Hsafe in Hclose; cbn [Shape].
  - (* KDocument *) apply Ok_pair_inj in Henter as [ <- <- ]. apply Ok_inj in Hclose as <-. solveI.
  - (* KTextBlock *) apply Ok_pair_inj in Henter as [ <- <- ]. apply Ok_inj in Hclose as <-. solveI.
  - (* KParagraph *) apply Ok_pair_inj in Henter as [ <- <- ]. apply Ok_inj in Hclose as <-.
    fin (elem n_p (attrs_of f_global attrs) inner ++ [10]).
  - (* KHeading *)
    assert (E : ((0 <=? level) && (level <=? 6))%Z = true) by (clear - Hk; lia). rewrite E in Henter, Hclose.
    apply Ok_pair_inj in Henter as [ <- <- ]. apply Ok_inj in Hclose as <-.
    apply heading_cases in Hk.
    destruct Hk as [ -> | [ -> | [ -> | [ -> | [ -> | -> ] ] ] ] ].
    + change (zdec 1) with [49]. fin (elem [104;49] (attrs_of f_global attrs) inner ++ [10]).
    + change (zdec 2) with [50]. fin (elem [104;50] (attrs_of f_global attrs) inner ++ [10]).
    + change (zdec 3) with [51]. fin (elem [104;51] (attrs_of f_global attrs) inner ++ [10]).
    + change (zdec 4) with [52]. fin (elem [104;52] (attrs_of f_global attrs) inner ++ [10]).
    + change (zdec 5) with [53]. fin (elem [104;53] (attrs_of f_global attrs) inner ++ [10]).
    + change (zdec 6) with [54]. fin (elem [104;54] (attrs_of f_global attrs) inner ++ [10]).
  - (* KThematicBreak *) apply Ok_pair_inj in Henter as [ <- <- ]. apply Ok_inj in Hclose as <-.
    fin (void n_hr (attrs_of f_thematic attrs) ++ [10] ++ inner).
  - (* KBlockquote *) apply Ok_pair_inj in Henter as [ <- <- ]. apply Ok_inj in Hclose as <-.
    destruct attrs as [l|].
    + fin (elem n_blockquote (attrs_of f_blockquote (Some l)) inner ++ [10]).
    + fin (elem n_blockquote [] ([10] ++ inner) ++ [10]).
  - (* KCodeBlock *)
    apply bind_ok in Henter as (l & Hl & Henter). apply Ok_pair_inj in Henter as [ <- <- ]. apply Ok_inj in Hclose as <-.
    apply write_lines_text in Hl.
    fin (elem n_pre [] (elem n_code [] (l ++ inner)) ++ [10]).
  - (* KFencedCodeBlock *)
    apply bind_ok in Henter as (l & Hl & Henter). apply Ok_pair_inj in Henter as [ <- <- ]. apply Ok_inj in Hclose as <-.
    apply write_lines_text in Hl.
    destruct lang as [lg|].
    + fin (elem n_pre [] (elem n_code (attr1 [99;108;97;115;115] ([108;97;110;103;117;97;103;101;45] ++ writer_write lg)) (l ++ inner)) ++ [10]).
    + fin (elem n_pre [] (elem n_code [] (l ++ inner)) ++ [10]).
  - (* KHTMLBlock *)
    apply Ok_pair_inj in Henter as [ <- <- ]. destruct closure as [cl0|]; apply Ok_inj in Hclose as <-; solveI.
  - (* KList *) apply Ok_pair_inj in Henter as [ <- <- ]. apply Ok_inj in Hclose as <-.
    destruct ordered; cbn [andb].
    + destruct (negb (start =? 1)%Z).
      * fin (elem n_ol (attr1 [115;116;97;114;116] (zdec start) ++ attrs_of f_list attrs) ([10] ++ inner) ++ [10]).
      * fin (elem n_ol (attrs_of f_list attrs) ([10] ++ inner) ++ [10]).
    + fin (elem n_ul (attrs_of f_list attrs) ([10] ++ inner) ++ [10]).
  - (* KListItem *) apply Ok_pair_inj in Henter as [ <- <- ]. apply Ok_inj in Hclose as <-.
    destruct cs as [|[[] ? ? ?] ?].
    all: first [ fin (elem n_li (attrs_of f_listitem attrs) inner ++ [10])
               | fin (elem n_li (attrs_of f_listitem attrs) ([10] ++ inner) ++ [10]) ].
  - (* KText *)
    apply bind_ok in Henter as (v & _ & Henter). apply Ok_inj in Hclose as <-.
    destruct raw; apply Ok_pair_inj in Henter as [ <- <- ]; [solveI|].
    destruct (hard || soft && hardwraps c).
    + fin ((writer_write v ++ void [98;114] [] ++ [10]) ++ inner).
    + destruct soft; solveI.
  - (* KString *) apply Ok_pair_inj in Henter as [ <- <- ]. apply Ok_inj in Hclose as <-.
    apply andb_prop in Hk as [_ Hc].
    destruct code; [|destruct raw; solveI].
    cbn [negb orb] in Hc. apply text_ok_out in Hc. solveI.
  - (* KCodeSpan *)
    change (render_enter c src parent (Node KCodeSpan lines attrs cs)) with
      (body <- codespan_body src cs ;;
       Ok (tag_open n_code ++ attrs_of f_global attrs ++ [62] ++ body ++ tag_close n_code, false)) in Henter.
    apply bind_ok in Henter as (body & Hb & Henter). apply Ok_pair_inj in Henter as [ <- <- ]. apply Ok_inj in Hclose as <-.
    rewrite (Hwalk eq_refl). apply codespan_body_text_out in Hb.
    fin (elem n_code (attrs_of f_global attrs) body).
  - (* KEmphasis *) apply Ok_pair_inj in Henter as [ <- <- ]. apply Ok_inj in Hclose as <-.
    destruct (level =? 2)%Z.
    + fin (elem n_strong (attrs_of f_global attrs) inner).
    + fin (elem n_em (attrs_of f_global attrs) inner).
  - (* KLink *) apply Ok_pair_inj in Henter as [ <- <- ]. apply Ok_inj in Hclose as <-.
    assert (Hd : browser_dangerous (url_value false dest true) = false).
    { apply (url_value_safe html_escape_table punct_table entities url_escape_table utf8len_table table_std url_ok entities_bytes). apply all_bytes_b_spec.
      destruct title; [apply andb_prop in Hk as [Hk _]|]; exact Hk. }
    assert (Hu : AttrsT (attr1 a_href (url_value false dest true))).
    { apply attr1_url; [reflexivity | apply url_text | exact Hd]. }
    destruct title as [ti|].
    + fin (elem n_a (attr1 a_href (url_value false dest true) ++ attr1 [116;105;116;108;101] (writer_write ti) ++ attrs_of f_link attrs) inner).
    + fin (elem n_a (attr1 a_href (url_value false dest true) ++ attrs_of f_link attrs) inner).
  - (* KImage *)
    change (render_enter c src parent (Node (KImage dest title) lines attrs cs)) with
      (alt <- texts_list src cs ;;
       Ok ([60;105;109;103;32;115;114;99;61;34] ++ url_value (unsafe c) dest true ++ [34;32;97;108;116;61;34] ++ alt ++ [34] ++
            (match title with Some t => [32;116;105;116;108;101;61;34] ++ writer_write t ++ [34] | None => [] end) ++
            attrs_of f_image attrs ++ void_end c [], false)) in Henter.
    apply bind_ok in Henter as (alt & Halt & Henter). apply Ok_pair_inj in Henter as [ <- <- ]. apply Ok_inj in Hclose as <-.
    rewrite (Hwalk eq_refl).
    assert (Ta : TextOut alt).
    { assert (Ha : exists a, texts_list src cs = Ok a /\ TextOut a).
      { apply texts_list_out. apply (Forall_impl _ (P := child_wf src)); [|exact Hch].
        intros ch (it' & ir' & Hw). exact (render_texts_out src ch _ _ Hw). }
      destruct Ha as (alt' & Halt' & Ta). change (texts_list src cs = Ok alt) in Halt. rewrite Halt in Halt'. injection Halt' as <-. exact Ta. }
    assert (Hd : browser_dangerous (url_value false dest true) = false).
    { apply (url_value_safe html_escape_table punct_table entities url_escape_table utf8len_table table_std url_ok entities_bytes). apply all_bytes_b_spec.
      destruct title; [apply andb_prop in Hk as [Hk _]|]; exact Hk. }
    assert (Hu : AttrsT (attr1 a_src (url_value false dest true))).
    { apply attr1_url; [reflexivity | apply url_text | exact Hd]. }
    destruct title as [ti|].
    + fin (void [105;109;103] (attr1 a_src (url_value false dest true) ++ attr1 [97;108;116] alt ++ attr1 [116;105;116;108;101] (writer_write ti) ++ attrs_of f_image attrs)).
    + fin (void [105;109;103] (attr1 a_src (url_value false dest true) ++ attr1 [97;108;116] alt ++ attrs_of f_image attrs)).
  - (* KAutoLink *) apply Ok_pair_inj in Henter as [ <- <- ]. apply Ok_inj in Hclose as <-.
    apply andb_prop in Hk as [Hu _]. apply all_bytes_b_spec in Hu.
    pose proof (url_value_safe html_escape_table punct_table entities url_escape_table utf8len_table table_std url_ok entities_bytes url false Hu) as Hd.
    set (pre := if email && negb (has_prefix_ci url [109;97;105;108;116;111;58]) then [109;97;105;108;116;111;58] else []).
    assert (HA : AttrsT (attr1 a_href (pre ++ url_value false url false))).
    { apply attr1_url; [reflexivity | | ].
      - apply TextOut_app; [|apply url_text]. unfold pre. destruct (email && _); apply plain_text; reflexivity.
      - unfold pre. destruct (email && _); [apply bd_m | exact Hd]. }
    destruct attrs as [l|].
    + fin (elem n_a (attr1 a_href (pre ++ url_value false url false) ++ attrs_of f_link (Some l)) (escape_html html_escape_table label) ++ inner).
    + fin (elem n_a (attr1 a_href (pre ++ url_value false url false)) (escape_html html_escape_table label) ++ inner).
  - (* KRawHTML *) apply Ok_pair_inj in Henter as [ <- <- ]. apply Ok_inj in Hclose as <-. rewrite (Hwalk eq_refl). solveI.
  - (* KTable *) apply Ok_pair_inj in Henter as [ <- <- ]. apply Ok_inj in Hclose as <-.
    fin (elem n_table (attrs_of f_table attrs) ([10] ++ inner) ++ [10]).
  - (* KTableHeader *) apply Ok_pair_inj in Henter as [ <- <- ]. apply Ok_inj in Hclose as <-.
    exists (elem n_thead (attrs_of f_thead attrs) ([10] ++ elem n_tr [] ([10] ++ inner) ++ [10]) ++ [10]).
    split; [solveI | norm].
  - (* KTableRow *) apply Ok_pair_inj in Henter as [ <- <- ]. apply Ok_inj in Hclose as <-.
    exists (elem n_tr (attrs_of f_tr attrs) ([10] ++ inner) ++ [10]).
    split; [solveI | norm].
  - (* KTableCell *)
    destruct parent as [pk|]; [|discriminate Henter].
    assert (Hcell : exists nm ats, (nm = n_th \/ nm = n_td) /\ AttrsT ats /\ op = tag_open nm ++ ats ++ [62] /\
                                  cl = tag_close nm ++ [10] /\ walk = true).
    { destruct pk;
        apply bind_ok in Henter as (o & Ho & Henter); apply Ok_pair_inj in Henter as [ <- <- ]; apply Ok_inj in Hclose as <-;
        (apply cell_open_shape in Ho; [|fno_tac|exact Hattrs]); destruct Ho as (at' & HA & ->);
        eexists; exists at'; (split; [|split; [exact HA | split; [reflexivity | split; reflexivity]]]); auto. }
    destruct Hcell as (nm & at' & Hnm & HA & -> & -> & _).
    apply (I_cast (elem nm at' inner ++ [10])); [|norm].
    destruct Hnm as [-> | ->]; solveI.
  - (* KStrikethrough *) apply Ok_pair_inj in Henter as [ <- <- ]. apply Ok_inj in Hclose as <-.
    fin (elem n_del (attrs_of f_global attrs) inner).
  - (* KTaskCheckBox *) apply Ok_pair_inj in Henter as [ <- <- ]. apply Ok_inj in Hclose as <-.
    destruct checked.
    + fin (void [105;110;112;117;116] (attr1 [99;104;101;99;107;101;100] [] ++ attr1 [100;105;115;97;98;108;101;100] [] ++ attr1 [116;121;112;101] [99;104;101;99;107;98;111;120]) ++ [32] ++ inner).
    + fin (void [105;110;112;117;116] (attr1 [100;105;115;97;98;108;101;100] [] ++ attr1 [116;121;112;101] [99;104;101;99;107;98;111;120]) ++ [32] ++ inner).
  - (* KFootnoteLink *) apply Ok_pair_inj in Henter as [ <- <- ]. apply Ok_inj in Hclose as <-.
    assert (HA : AttrsT (attr1 a_href ([35;102;110;58] ++ zdec idx))).
    { apply attr1_url; [reflexivity | solveT | apply bd_hash]. }
    fin (elem [115;117;112] (attr1 [105;100] (fn_ref_id refidx idx))
           (elem n_a (attr1 a_href ([35;102;110;58] ++ zdec idx) ++ attr1 [99;108;97;115;115] [102;111;111;116;110;111;116;101;45;114;101;102] ++ attr1 [114;111;108;101] [100;111;99;45;110;111;116;101;114;101;102]) (zdec idx)) ++ inner).
  - (* KFootnoteBacklink *) apply Ok_pair_inj in Henter as [ <- <- ]. apply Ok_inj in Hclose as <-.
    assert (HA : AttrsT (attr1 a_href ([35] ++ fn_ref_id refidx idx))).
    { apply attr1_url; [reflexivity | unfold fn_ref_id; solveT | apply bd_hash]. }
    fin ([38;35;49;54;48;59] ++ elem n_a (attr1 a_href ([35] ++ fn_ref_id refidx idx) ++ attr1 [99;108;97;115;115] [102;111;111;116;110;111;116;101;45;98;97;99;107;114;101;102] ++ attr1 [114;111;108;101] [100;111;99;45;98;97;99;107;108;105;110;107])
                       [38;35;120;50;49;97;57;59;38;35;120;102;101;48;101;59] ++ inner).
  - (* KFootnote *) apply Ok_pair_inj in Henter as [ <- <- ]. apply Ok_inj in Hclose as <-.
    fin (elem n_li (attr1 [105;100] ([102;110;58] ++ zdec idx) ++ attrs_of f_listitem attrs) ([10] ++ inner) ++ [10]).
  - (* KFootnoteList *) apply Ok_pair_inj in Henter as [ <- <- ]. apply Ok_inj in Hclose as <-.
    fin (elem [100;105;118] (attr1 [99;108;97;115;115] [102;111;111;116;110;111;116;101;115] ++ attr1 [114;111;108;101] [100;111;99;45;101;110;100;110;111;116;101;115] ++ attrs_of f_global attrs)
           ([10] ++ void n_hr [] ++ [10] ++ elem n_ol [] ([10] ++ inner) ++ [10]) ++ [10]).
  - (* KDefinitionList *) apply Ok_pair_inj in Henter as [ <- <- ]. apply Ok_inj in Hclose as <-.
    fin (elem n_dl (attrs_of f_global attrs) ([10] ++ inner) ++ [10]).
  - (* KDefinitionTerm *) apply Ok_pair_inj in Henter as [ <- <- ]. apply Ok_inj in Hclose as <-.
    fin (elem n_dt (attrs_of f_global attrs) inner ++ [10]).
  - (* KDefinitionDescription *) apply Ok_pair_inj in Henter as [ <- <- ]. apply Ok_inj in Hclose as <-.
    destruct tight.
    + fin (elem n_dd (attrs_of f_global attrs) inner ++ [10]).
    + fin (elem n_dd (attrs_of f_global attrs) ([10] ++ inner) ++ [10]).
  - (* KOther *) apply Ok_pair_inj in Henter as [ <- <- ]. apply Ok_inj in Hclose as <-. solveI.
Qed.

Lemma not_rowish src t : node_ok src false t = true -> is_rowish_k (t_kind t) = false.
Proof.
  destruct t as [k l a cs]. cbn [node_ok t_kind]. intro H. apply andb_prop in H as [_ H].
  destruct k; try reflexivity; discriminate H.
Qed.

Lemma Shape_generic k hn il o : is_rowish_k k = false -> Shape k hn il o -> I o.
Proof. destruct k; cbn [is_rowish_k Shape]; intros E H; try exact H; discriminate E. Qed.

Lemma children_inert src pk : forall cs inner,
  Forall (fun ch => forall hn il o, render_node c src (Some pk) hn il ch = Ok o -> I o) cs ->
  render_children c src pk cs = Ok inner -> I inner.
Proof.
  induction cs as [|ch rest IH]; intros inner HF Hr.
  - apply Ok_inj in Hr as <-. apply I_nil.
  - rewrite render_children_cons in Hr.
    apply bind_ok in Hr as (a & Ha & Hr). apply bind_ok in Hr as (b & Hb & Hr). apply Ok_inj in Hr as <-.
    inversion HF as [|x xs Hx Hxs]; subst x xs.
    apply I_app; [exact (Hx _ _ _ Ha) | exact (IH _ Hxs Hb)].
Qed.

Lemma rows_shape src : forall rows r,
  Forall (fun ch => forall hn il o, render_node c src (Some KTable) hn il ch = Ok o ->
                    exists b, I b /\ o = b ++ (if il then tag_close n_tbody ++ [10] else [])) rows ->
  render_children c src KTable rows = Ok r ->
  exists b, I b /\ r = b ++ (match rows with [] => [] | _ => tag_close n_tbody ++ [10] end).
Proof.
  induction rows as [|ch rest IH]; intros r HF Hr.
  - apply Ok_inj in Hr as <-. exists []. split; [apply I_nil | reflexivity].
  - rewrite render_children_cons in Hr.
    apply bind_ok in Hr as (a & Ha & Hr). apply bind_ok in Hr as (b & Hb & Hr). apply Ok_inj in Hr as <-.
    inversion HF as [|x xs Hx Hxs]; subst x xs.
    destruct (Hx _ _ _ Ha) as (b1 & I1 & ->).
    destruct rest as [|r1 rest'].
    + apply Ok_inj in Hb as <-. exists b1. split; [exact I1 | rewrite app_nil_r; reflexivity].
    + destruct (IH _ Hxs Hb) as (b2 & I2 & ->).
      exists (b1 ++ b2). split; [apply I_app; assumption|].
      rewrite <- ?app_assoc, ?app_nil_r; reflexivity.
Qed.

Lemma node_inert src : forall t parent hn il it ir o,
  wf_node src it ir t = true -> render_node c src parent hn il t = Ok o -> Shape (t_kind t) hn il o.
Proof.
  induction t as [k lines attrs cs IH] using tree_ind'. intros parent hn il it ir o Hwf Hr.
  apply wf_node_parts in Hwf as (Hok & _ & Hch). cbn [t_kind t_children] in Hch.
  rewrite render_node_eq in Hr. apply bind_ok in Hr as ([op walk] & Henter & Hr). cbn [fst snd] in Hr.
  apply bind_ok in Hr as (inner & Hin & Hr). apply bind_ok in Hr as (cl & Hcl & Hr). apply Ok_inj in Hr as <-.
  cbn [t_kind t_children] in Hin |- *.
  assert (Hcw : Forall (child_wf src) cs).
  { apply (Forall_impl _ (P := fun ch => wf_node src (is_table_k k) (is_rowish_k k) ch = true)); [|exact Hch].
    intros ch Hw. exists (is_table_k k), (is_rowish_k k). exact Hw. }
  apply (node_shape src parent hn il it k lines attrs cs op walk cl inner Hok Hcw Henter Hcl).
  - destruct walk; [|apply Ok_inj in Hin as <-; apply I_nil].
    destruct (is_table_k k) eqn:Htab.
    + (* the table family, as a unit *)
      destruct k; try discriminate Htab. clear Htab.
      cbn [node_ok] in Hok. apply andb_prop in Hok as [_ Hk].
      destruct cs as [|[hk hl ha hc] rows]; [discriminate Hk|].
      destruct hk; try discriminate Hk.
      apply andb_prop in Hk as [_ Hrows].
      rewrite render_children_cons in Hin.
      apply bind_ok in Hin as (oh & Hoh & Hin). apply bind_ok in Hin as (r & Hrr & Hin). apply Ok_inj in Hin as <-.
      inversion IH as [|x xs IHh IHrows]; subst x xs. inversion Hch as [|x xs Hwh Hwrows]; subst x xs.
      pose proof (IHh _ _ _ _ _ _ Hwh Hoh) as Sh. cbn [t_kind Shape] in Sh. destruct Sh as (bh & Ibh & ->).
      destruct (rows_shape src rows r) as (br & Ibr & ->); [|exact Hrr|].
      * rewrite Forall_forall in IHrows, Hwrows |- *. intros ch Hch' hn' il' o' Ho'.
        rewrite forallb_forall in Hrows. specialize (Hrows ch Hch').
        pose proof (IHrows ch Hch' _ _ _ _ _ _ (Hwrows ch Hch') Ho') as S.
        unfold is_table_row in Hrows. destruct (t_kind ch); try discriminate Hrows. exact S.
      * destruct rows as [|r1 rows'].
        -- rewrite !app_nil_r. apply I_app; assumption.
        -- apply (I_cast (bh ++ elem n_tbody [] ([10] ++ br) ++ [10])); [solveI | norm].
    + apply (children_inert src k cs inner); [|exact Hin].
      rewrite Forall_forall in IH, Hch |- *. intros ch Hch' hn' il' o' Ho'.
      pose proof (IH ch Hch' _ _ _ _ _ _ (Hch ch Hch') Ho') as S.
      apply Shape_generic in S; [exact S|].
      apply (not_rowish src). specialize (Hch ch Hch'). apply wf_node_parts in Hch as (Hok' & _ & _). exact Hok'.
  - intros ->. apply Ok_inj in Hin as <-. reflexivity.
Qed.

Lemma root_inert src t o : wf_tree src t = true ->
  Html.render html_escape_table punct_table entities url_escape_table utf8len_table
    f_global f_blockquote f_list f_listitem f_thematic f_link f_image f_table f_thead f_tr f_th f_td c src t = Ok o -> I o.
Proof.
  intros Hwf Hr. unfold wf_tree in Hwf. apply andb_prop in Hwf as [_ Hwf]. unfold Html.render in Hr.
  pose proof (node_inert src t None false true false false o Hwf Hr) as S.
  apply Shape_generic in S; [exact S|].
  apply (not_rowish src). apply wf_node_parts in Hwf as (Hok & _ & _). exact Hok.
Qed.

End Gen.

(* rendering a well-formed tree never panics (every option combination) *)
Theorem render_total c src t : wf_tree src t = true -> exists o, render c src t = Ok o.
Proof.
  unfold wf_tree, Html.render. intro H. apply andb_prop in H as [_ H].
  apply (render_node_total c src t None false true false false H). intro E. discriminate E.
Qed.

(* safe mode: the output is inert markup (this includes the URL clause of C04 through AttrOut) *)
Theorem safe_render_inert c src t o : unsafe c = false -> wf_tree src t = true ->
  render c src t = Ok o -> Inert o.
Proof.
  intros Hs Hwf Hr.
  apply (root_inert c Hs Inert in_nil in_app in_text in_omitted
           (fun n a => in_void n a (xhtml c)) in_elem src t o Hwf Hr).
Qed.

(* with XHTML every void element is self-closed *)
Theorem safe_render_inert_xhtml c src t o : unsafe c = false -> xhtml c = true -> wf_tree src t = true ->
  render c src t = Ok o -> InertX o.
Proof.
  intros Hs Hx Hwf Hr.
  refine (root_inert c Hs InertX ix_nil ix_app ix_text ix_omitted _ ix_elem src t o Hwf Hr).
  intros n a Hn Ha. unfold void. rewrite Hx. apply ix_void; assumption.
Qed.

End L1.

(* boolean form of filters_no_url, for discharging it by computation on the dumped allow-lists *)
Definition filters_no_url_b (fs : list (list bytes)) : bool :=
  forallb (fun f => negb (existsb (bytes_eqb a_href) f) && negb (existsb (bytes_eqb a_src) f)) fs.

Lemma filters_no_url_b_spec fs : filters_no_url_b fs = true ->
  Forall (fun f => ~ In a_href f /\ ~ In a_src f) fs.
Proof.
  unfold filters_no_url_b. intro H. apply Forall_forall. intros f Hf.
  rewrite forallb_forall in H. apply H in Hf. apply andb_prop in Hf as [H1 H2].
  apply negb_true_iff in H1, H2.
  split; intro Hin.
  - assert (E : existsb (bytes_eqb a_href) f = true).
    { apply existsb_exists. exists a_href. split; [exact Hin | apply bytes_eqb_eq; reflexivity]. }
    rewrite E in H1. discriminate H1.
  - assert (E : existsb (bytes_eqb a_src) f = true).
    { apply existsb_exists. exists a_src. split; [exact Hin | apply bytes_eqb_eq; reflexivity]. }
    rewrite E in H2. discriminate H2.
Qed.
