(* C01 (block phase): the block-phase model never panics and never runs out of fuel, and the
   heap it leaves converts to a tree.  Hypotheses about the tables (which bytes are white space
   and the like) may be added as Section Hypotheses when a proof needs them; each must then be
   discharged for the tables regenerated from the code in the corollary at the end (by
   vm_compute), so that the corollary has no hypothesis besides bytes_ok. *)
Require Import GM.model.Base GM.model.Util GM.model.UtilI GM.model.Reader GM.model.ReaderSpec GM.model.Blocks GM.model.ListItem
               GM.model.LeafBlocks GM.model.CodeBlock GM.model.LinkDest GM.model.Regex GM.model.HtmlWriter
               GM.model.Html GM.model.HtmlSpec GM.model.BlockParse GM.model.InlineParse GM.model.ParseI.
Require Import GM.gen.Tables GM.gen.Regexes.
Require Import GM.proofs.MiscProofs GM.proofs.ReaderProofs GM.proofs.BReaderProofs GM.proofs.BlockRangeProofs GM.proofs.ParseInv.
From Coq Require Import ZArith Lia.
Open Scope Z_scope.

Section S.
Variable space_table punct_table : list N.
Variable norm : bytes -> bytes.
Variable re_t1o re_t1c re_t2 re_t3 re_t4 re_t5 re_t6 re_t7 : re.
Variable allowed_tags : list bytes.
Notation PB := (parse_blocks space_table punct_table norm re_t1o re_t1c re_t2 re_t3 re_t4 re_t5 re_t6 re_t7 allowed_tags).

Theorem parse_blocks_total : forall src, bytes_ok src ->
  exists s t, PB src = Ok s /\ to_tree (S (length (s_h s))) src (s_h s) 0%nat = Ok t.
Proof. Admitted.

End S.

Corollary ParseBlocksTree_total : forall src, bytes_ok src -> exists r, ParseBlocksTree src = Ok r.
Proof. Admitted.
