(* C01 (block phase): the block-phase model never panics and never runs out of fuel, and the
   heap it leaves converts to a tree.  The single hypothesis about the tables, TblOK (the white
   space table marks exactly the bytes 9, 10, 13 and 32), is a Section Hypothesis of
   parse_blocks_total and is discharged for the tables regenerated from the code in the corollary
   at the end (by computation), so that the corollary has no hypothesis besides bytes_ok.
   The proof lives in the helper files ParseBlocksTotal*.v:
     Reader (reader invariant RI, monotonicity), Defs (heap/context invariants, heap operations),
     Spec (postconditions of Open/Continue/Close), St, Shape (LineInv), Lrd (link reference
     definitions), Transform, Leaf, Leaf2, Cont*, Pair (per-parser lemmas), Close (closeBlocks),
     Open (openBlocks), Each (the loop over the opened blocks), Drive (outer loops, to_tree). *)
Require Import GM.model.Base GM.model.Util GM.model.UtilI GM.model.Reader GM.model.ReaderSpec GM.model.Blocks GM.model.ListItem
               GM.model.LeafBlocks GM.model.CodeBlock GM.model.LinkDest GM.model.Regex GM.model.HtmlWriter
               GM.model.Html GM.model.HtmlSpec GM.model.BlockParse GM.model.InlineParse GM.model.ParseI.
Require Import GM.gen.Tables GM.gen.Regexes.
Require Import GM.proofs.MiscProofs GM.proofs.ReaderProofs GM.proofs.BReaderProofs GM.proofs.BlockRangeProofs GM.proofs.ParseInv.
Require Import GM.proofs.ParseBlocksTotalSpec GM.proofs.ParseBlocksTotalDrive.
From Coq Require Import ZArith Lia.
Open Scope Z_scope.

Section S.
Variable space_table punct_table : list N.
Variable norm : bytes -> bytes.
Variable re_t1o re_t1c re_t2 re_t3 re_t4 re_t5 re_t6 re_t7 : re.
Variable allowed_tags : list bytes.
Notation PB := (parse_blocks space_table punct_table norm re_t1o re_t1c re_t2 re_t3 re_t4 re_t5 re_t6 re_t7 allowed_tags).
(* the white space table marks exactly tab, newline, carriage return and blank *)
Hypothesis tbl : TblOK space_table.

Theorem parse_blocks_total : forall src, bytes_ok src ->
  exists s t, PB src = Ok s /\ to_tree (S (length (s_h s))) src (s_h s) 0%nat = Ok t.
Proof.
  intros src _.
  exact (parse_blocks_tree_ok space_table punct_table norm re_t1o re_t1c re_t2 re_t3 re_t4 re_t5 re_t6 re_t7 allowed_tags src tbl).
Qed.

End S.

(* the generated white space table satisfies TblOK *)
Lemma space_table_ok : TblOK space_table.
Proof.
  intros c. unfold is_space, tbl.
  destruct (N.ltb_spec c 256) as [Hlt|Hge].
  - assert (H : forallb (fun n => Bool.eqb (N.eqb (nth n space_table 0%N) 1)
                                 ((N.of_nat n =? 9) || (N.of_nat n =? 10) || (N.of_nat n =? 13) || (N.of_nat n =? 32))%N)
                        (seq 0 256) = true) by (vm_compute; reflexivity).
    rewrite forallb_forall in H. specialize (H (N.to_nat c)).
    rewrite N2Nat.id in H. apply Bool.eqb_prop. apply H. apply in_seq. lia.
  - rewrite nth_overflow by (change (length space_table) with 256%nat; lia).
    destruct (N.eqb_spec c 9) as [->|_]; [lia|]. destruct (N.eqb_spec c 10) as [->|_]; [lia|].
    destruct (N.eqb_spec c 13) as [->|_]; [lia|]. destruct (N.eqb_spec c 32) as [->|_]; [lia|]. reflexivity.
Qed.

Corollary ParseBlocksTree_total : forall src, bytes_ok src -> exists r, ParseBlocksTree src = Ok r.
Proof.
  intros src Hb. unfold ParseBlocksTree, ParseBlocks.
  destruct (parse_blocks_total space_table punct_table ToLinkReference
              re_htmlBlockType1Open re_htmlBlockType1Close re_htmlBlockType2Open re_htmlBlockType3Open
              re_htmlBlockType4Open re_htmlBlockType5Open re_htmlBlockType6 re_htmlBlockType7 allowed_block_tags
              space_table_ok src Hb) as [s [t [E1 E2]]].
  rewrite E1. cbn [bind]. rewrite E2. cbn [bind]. eexists. reflexivity.
Qed.
