(* Helper file for TypoDefWfTotBlkDl.v: the detaching append_childD, definitionListParser.Open /
   Continue and the declining definitionDescriptionParser.Open under SD = SI + TC. *)
Require Import GM.model.Base GM.model.Util GM.model.Reader GM.model.ReaderSpec GM.model.Blocks GM.model.ListItem
               GM.model.LeafBlocks GM.model.CodeBlock GM.model.LinkDest GM.model.Regex GM.model.BlockParse
               GM.model.TypoDefParseD.
Require Import GM.proofs.ReaderProofs GM.proofs.BlocksProofs GM.proofs.ParseBlocksTotalReader
               GM.proofs.ParseBlocksTotalDefs GM.proofs.ParseBlocksTotalSpec GM.proofs.ParseBlocksTotalSt
               GM.proofs.ParseBlocksTotalShape GM.proofs.ParseBlocksTotalLeaf GM.proofs.ParseBlocksTotalLeaf2
               GM.proofs.ParseBlocksTotalPair
               GM.proofs.TypoDefWfTotBlkDefs GM.proofs.TypoDefWfTotBlkSpec GM.proofs.TypoDefWfTotBlkTc.
From Coq Require Import ZArith Lia List Bool.
Import ListNotations.
Open Scope Z_scope.

(* ---------- small facts ---------- *)
Lemma dl_set_par_back cn p : bpar cn = Some p -> set_par (set_par cn None) (Some p) = cn.
Proof. destruct cn. cbn. intros ->. reflexivity. Qed.

(* the sibling in front of x *)
Lemma dl_prev_id x : forall l prev pv, prev_id x l prev = Some pv -> prev = Some pv \/ (In pv l /\ pv <> x).
Proof.
  induction l as [|y tl IH]; intros prev pv H; cbn [prev_id] in H; [discriminate|].
  destruct (Nat.eqb_spec x y) as [E|NE]; [left; exact H|].
  destruct (IH _ _ H) as [E|[I N]].
  - injection E as <-. right. split; [left; reflexivity|congruence].
  - right. split; [right; exact I|exact N].
Qed.

(* IndentPosition for any requested width that does not exceed the indentation (a width <= 0 asks
   for nothing: position 0 and the missing width as padding) *)
Lemma dl_indent_position bs cur width : width <= fst (indent_width bs cur) ->
  exists pos pad, indent_position bs cur width = (pos, pad) /\ 0 <= pos <= zlen bs /\ 0 <= pad /\
    (forall k, 0 <= k < pos -> nth (Z.to_nat k) bs 0%N <> 10%N).
Proof.
  intros Hw. destruct (Z.le_gt_cases 0 width) as [Hp|Hn]; [apply lp_indent_position; lia|].
  pose proof (zlen_nonneg bs) as Hbs.
  unfold indent_position, indent_position_padding.
  destruct (Z.eqb_spec width 0) as [E|_]; [lia|].
  assert (El : indent_position_loop bs cur 0 0 0 width = (0, 0)).
  { destruct bs as [|c r]; [reflexivity|]. cbn [indent_position_loop]. change (0 <? 0) with false. cbv iota.
    destruct (Z.ltb_spec 0 width) as [C|_]; [lia|]. rewrite !andb_false_r. reflexivity. }
  rewrite El. destruct (Z.leb_spec width 0) as [_|C]; [|lia].
  exists (0 - 0), (0 - width). csplit; try reflexivity; try lia.
Qed.

Lemma dl_zlen_zskip1 (l : bytes) : 0 < zlen l -> zlen (zskip 1 l) = zlen l - 1.
Proof.
  intros H. destruct l as [|c r]; [unfold zlen in H; cbn in H; lia|]. rewrite zlen_cons. unfold zskip. change (Z.to_nat 1) with 1%nat. cbn [skipn]. lia.
Qed.
Lemma dl_nth_zskip1 (l : bytes) k : 0 <= k -> nth (Z.to_nat k) (zskip 1 l) 0%N = nth (Z.to_nat (k + 1)) l 0%N.
Proof.
  intros Hk. unfold zskip. rewrite nth_skipn_add. f_equal. lia.
Qed.

Section S.
Variable space_table : list N.
Variable src : bytes.
Notation SI := (SI space_table src).
Notation SD := (SD space_table src).
Notation HInv := (HInv space_table src).
Notation HStep := (HStep space_table src).
Notation node_ok := (node_ok space_table src).

(* ---------- append_childD ---------- *)
Lemma dl_append_childD_new h p c cn : nth_error h c = Some cn -> bpar cn = None ->
  append_childD h p c = append_child h p c.
Proof. intros E P. unfold append_childD. rewrite (hget_some _ _ _ E). cbn [bind]. rewrite P. reflexivity. Qed.

Lemma dl_append_childD_move h p c pn cn : HInv h -> TC h -> nth_error h p = Some pn -> nth_error h c = Some cn ->
  In c (bch pn) -> bk pn <> BList -> bk cn <> BListItem ->
  exists h', append_childD h p c = Ok h' /\ HStep h h' /\ TC h' /\ length h' = length h /\
    bpar cn = Some p /\ nth_error h' c = Some cn /\
    nth_error h' p = Some (set_ch pn (remove_id c (bch pn) ++ [c])) /\
    (forall j, j <> p -> j <> c -> nth_error h' j = nth_error h j).
Proof.
  intros HH HT Hp Hc Hin Kp Kc.
  destruct (tc_par _ HT p pn c Hp Hin) as [cn' [Ec Epar]]. rewrite Hc in Ec. injection Ec as <-.
  pose proof (hi_par _ _ _ HH c cn p Hc Epar) as Hpc.
  assert (Hne : c <> p) by lia.
  assert (Hcl : (c < length h)%nat) by (eapply nth_error_lt, Hc).
  assert (Hpl : (p < length h)%nat) by (eapply nth_error_lt, Hp).
  unfold append_childD. rewrite (hget_some _ _ _ Hc). cbn [bind]. rewrite Epar.
  destruct (remove_child_TC_spec h p c pn cn HT Hp Hc Hin Hne) as [Er _].
  destruct (remove_child_ok space_table src h p c cn HH Hc) as [h1 (Er' & St1 & L1 & F1 & _)].
  rewrite Er in Er'. injection Er' as E1. rewrite Er. cbn [bind].
  pose proof (TC_remove_child h p c _ HT Er Hne) as HT1.
  rewrite E1 in HT1 |- *.
  assert (Hp1 : nth_error h1 p = Some (set_ch pn (remove_id c (bch pn)))).
  { rewrite <- E1. rewrite hset_other by lia. apply hset_same. exact Hpl. }
  assert (Hc1 : nth_error h1 c = Some (set_par cn None)).
  { rewrite <- E1. apply hset_same. rewrite hset_length. exact Hcl. }
  destruct St1 as (HH1 & X1 & Lm1).
  destruct (append_child_ok space_table src h1 p c _ _ HH1 Hp1 Hc1 Hpc) as [h2 (Ea & St2 & L2 & Hc2 & Hp2 & F2)].
  { cbn [set_ch set_par bk]. intros K. contradiction. }
  { cbn [set_ch set_par bk]. intros K. contradiction. }
  exists h2. split; [exact Ea|]. csplit.
  - eapply HStep_trans; [split; [exact HH1|split; [exact X1|exact Lm1]]|exact St2].
  - eapply TC_append_child; [exact HT1|exact Ea|exact Hc1|reflexivity|exact Hne].
  - lia.
  - reflexivity.
  - rewrite Hc2. f_equal. apply dl_set_par_back. exact Epar.
  - rewrite Hp2. reflexivity.
  - intros j J1 J2. rewrite F2 by assumption. apply F1; assumption.
Qed.

(* ---------- SD under the local steps ---------- *)
Lemma dl_SD_scache s s1 : SD s -> SI s1 -> scache s s1 -> SD s1.
Proof. intros [_ HT] S1 (E & _). split; [exact S1|]. rewrite E. exact HT. Qed.

(* an update of a BHTML node that keeps kind, children, parent and lines *)
Lemma dl_SD_upd s i n n' : SD s -> nth_error (s_h s) i = Some n -> bk n = BHTML ->
  bk n' = bk n -> bch n' = bch n -> bpar n' = bpar n -> blines n' = blines n ->
  SD (st_h s (hset (s_h s) i n')).
Proof.
  intros [HS HT] Hi K Hk Hc Hp Hl. split.
  - apply (upd_node_ok space_table src s i n n' HS Hi Hk Hc Hp).
    + pose proof (hi_ok _ _ _ (si_h _ _ _ HS) i n Hi) as Hok. unfold ParseBlocksTotalDefs.node_ok in *.
      rewrite Hk, K. rewrite K in Hok. rewrite Hl. exact Hok.
    + rewrite Hk, K. discriminate.
  - cbn [st_h s_h]. eapply TC_hset; eassumption.
Qed.

(* a new detached node without children *)
Lemma dl_SD_new s nd : SD s -> bch nd = [] -> bpar nd = None -> node_ok nd -> bk nd <> BParagraph ->
  SD (st_h s (s_h s ++ [nd])).
Proof.
  intros [HS HT] Hc Hp Hok Hk. split.
  - destruct (new_node_ok space_table src s nd HS Hc Hp Hok) as (N1 & _); [intros K; contradiction|].
    rewrite new_node_eq in N1. exact N1.
  - cbn [st_h s_h]. apply TC_alloc; assumption.
Qed.

(* ---------- definitionListParser.Open ---------- *)
Lemma dl_deflist_open_ok s parent pn : SD s -> sin s -> BoffOK s -> OffOK s -> nth_error (s_h s) parent = Some pn ->
  exists s1 o, deflist_open s parent = Ok (s1, o) /\
    SD s1 /\ same_pos (s_r s) (s_r s1) /\ s_c s1 = s_c s /\
    match o with
    | None => s_h s1 = s_h s
    | Some (node, kids, req) =>
      kids = true /\ is_dl pn = false /\ DLine s /\
      exists l ln W, last_id (bch pn) = Some l /\ nth_error (s_h s) l = Some ln /\ Wok s W /\
        ((req = true /\ bk ln = BParagraph /\ node = length (s_h s) /\
          s_h s1 = s_h s ++ [set_seg (set_i2 (mknode BHTML 100) W) (para_ref l)])
         \/
         (req = false /\ bk ln = BParagraph /\ node <> l /\ In node (bch pn) /\
          exists nn, nth_error (s_h s) node = Some nn /\ is_dl nn = true /\
                     s_h s1 = hset (s_h s) node (set_seg (set_i2 nn W) (para_ref l)))
         \/
         (req = false /\ is_dl ln = true /\ node = l /\
          s_h s1 = hset (s_h s) l (set_seg (set_i2 ln W) None)))
    end.
Proof.
  intros HD Hin [B1 B2] HO Hp. pose proof HD as [HS HT]. unfold deflist_open.
  rewrite (hget_some _ _ _ Hp). cbn [bind].
  destruct (is_dl pn) eqn:Edl.
  { exists s, None. split; [reflexivity|]. csplit; auto. apply same_pos_refl. }
  destruct (peek_line_s_ok _ _ s HS) as [s1 (E1 & S1 & C1 & _)]. rewrite E1. cbn [bind].
  pose proof Hin as Hin'. unfold sin in Hin'. rewrite Hin'. cbn [line_of]. pose proof C1 as (CH & CC & CP).
  pose proof (dl_SD_scache s s1 HD S1 C1) as HD1.
  assert (Hnone : exists s2 o, Ok (s1, @None (nat * bool * bool)) = Ok (s2, o) /\
             SD s2 /\ same_pos (s_r s) (s_r s2) /\ s_c s2 = s_c s /\
             match o with None => s_h s2 = s_h s | Some _ => False end).
  { exists s1, None. split; [reflexivity|]. csplit; auto. }
  assert (Hdone : (exists s2 o, Ok (s1, @None (nat * bool * bool)) = Ok (s2, o) /\
             SD s2 /\ same_pos (s_r s) (s_r s2) /\ s_c s2 = s_c s /\
             match o with None => s_h s2 = s_h s | Some _ => False end) ->
           exists s2 o, Ok (s1, @None (nat * bool * bool)) = Ok (s2, o) /\
             SD s2 /\ same_pos (s_r s) (s_r s2) /\ s_c s2 = s_c s /\
             match o with
             | None => s_h s2 = s_h s
             | Some (node, kids, req) =>
               kids = true /\ false = false /\ DLine s /\
               exists l ln W, last_id (bch pn) = Some l /\ nth_error (s_h s) l = Some ln /\ Wok s W /\
                ((req = true /\ bk ln = BParagraph /\ node = length (s_h s) /\
                  s_h s2 = s_h s ++ [set_seg (set_i2 (mknode BHTML 100) W) (para_ref l)])
                 \/
                 (req = false /\ bk ln = BParagraph /\ node <> l /\ In node (bch pn) /\
                  exists nn, nth_error (s_h s) node = Some nn /\ is_dl nn = true /\
                     s_h s2 = hset (s_h s) node (set_seg (set_i2 nn W) (para_ref l)))
                 \/
                 (req = false /\ is_dl ln = true /\ node = l /\
                  s_h s2 = hset (s_h s) l (set_seg (set_i2 ln W) None)))
             end).
  { intros (s2 & o & A & B & C & D & F). exists s2, o. csplit; auto. destruct o as [x|]; [contradiction|exact F]. }
  rewrite CC. cbv zeta.
  destruct (Z.ltb_spec (c_boff (s_c s)) 0) as [Hneg|Hpos]; [apply Hdone, Hnone|].
  rewrite at_nth by lia. cbn [bind].
  destruct (N.eqb_spec (nth (Z.to_nat (c_boff (s_c s))) (sview s) 0%N) 58) as [E58|N58]; cbn [negb orb];
    [|apply Hdone, Hnone].
  destruct (Z.eqb_spec (c_bind (s_c s)) 0) as [Ei|Ni]; cbn [negb]; [|apply Hdone, Hnone].
  destruct (HO Ei Hpos) as [Eb0 Epad].
  assert (HDL : DLine s).
  { unfold DLine. rewrite Eb0 in E58. unfold nth_byte. csplit; auto. rewrite Eb0 in B1. exact B1. }
  rewrite Eb0. change (0 + 1) with 1.
  set (w0 := fst (indent_width (zskip 1 (sview s)) 1)).
  destruct (Z.ltb_spec w0 1) as [Hw|Hw]; [apply Hdone, Hnone|].
  set (w1 := if 8 <=? w0 then 5 else w0).
  assert (HW : Wok s (w1 + 0 + 1)).
  { exists w1. fold w0. split; [|lia]. unfold w1. destruct (Z.leb_spec 8 w0); lia. }
  destruct (last_id (bch pn)) as [l|] eqn:El; [|apply Hdone, Hnone].
  pose proof (last_id_in _ _ El) as Hlin.
  pose proof (hi_ch _ _ _ (si_h _ _ _ HS) parent pn Hp) as Hch. rewrite Forall_forall in Hch.
  destruct (nth_error_ex_lt (s_h s) l ltac:(apply Hch; exact Hlin)) as [ln Hl].
  rewrite CH. rewrite (hget_some _ _ _ Hl). cbn [bind].
  destruct (bkind_eqb_spec (bk ln) BParagraph) as [Kl|Kl].
  - (* the last child is a paragraph *)
    assert (Hprev : exists pl,
      match prev_id l (bch pn) None with
      | None => Ok None
      | Some pv => pvn <- hget (s_h s) pv ;; Ok (if is_dl pvn then Some pv else None)
      end = Ok pl /\
      match pl with
      | None => True
      | Some lst => lst <> l /\ In lst (bch pn) /\ exists nn, nth_error (s_h s) lst = Some nn /\ is_dl nn = true
      end).
    { destruct (prev_id l (bch pn) None) as [pv|] eqn:Epv; [|exists None; split; [reflexivity|exact I]].
      destruct (dl_prev_id _ _ _ _ Epv) as [C|[I1 I2]]; [discriminate|].
      destruct (nth_error_ex_lt (s_h s) pv ltac:(apply Hch; exact I1)) as [pvn Hpv].
      rewrite (hget_some _ _ _ Hpv). cbn [bind]. destruct (is_dl pvn) eqn:Ed.
      - exists (Some pv). split; [reflexivity|]. csplit; auto. exists pvn. auto.
      - exists None. split; [reflexivity|exact I]. }
    destruct Hprev as [pl [Epl Hpl]]. rewrite Epl. cbn [bind].
    destruct pl as [lst|].
    + destruct Hpl as (P1 & P2 & nn & P3 & P4).
      rewrite (hupd_ok _ _ _ _ P3). cbn [bind].
      eexists _, _. split; [reflexivity|]. csplit; auto.
      * rewrite <- CH. apply dl_SD_upd with (n := nn); auto; [rewrite CH; exact P3|apply is_dl_kind; exact P4].
      * exists l, ln, (w1 + 0 + 1). csplit; auto. right. left. csplit; auto. exists nn. csplit; auto.
    + rewrite new_node_eq. eexists _, _. split; [reflexivity|]. csplit; auto.
      * apply dl_SD_new; auto; [|discriminate]. unfold ParseBlocksTotalDefs.node_ok. cbn. constructor.
      * exists l, ln, (w1 + 0 + 1). csplit; auto. left. cbn [st_h s_h]. rewrite CH. csplit; auto.
  - destruct (is_dl ln) eqn:Edl2; [|apply Hdone, Hnone].
    rewrite (hupd_ok _ _ _ _ Hl). cbn [bind].
    eexists _, _. split; [reflexivity|]. csplit; auto.
    + rewrite <- CH. apply dl_SD_upd with (n := ln); auto; [rewrite CH; exact Hl|apply is_dl_kind; exact Edl2].
    + exists l, ln, (w1 + 0 + 1). csplit; auto. right. right. csplit; auto.
Qed.

(* ---------- definitionListParser.Continue ---------- *)
Lemma dl_deflist_continue_ok s node n : SI s -> sin s -> nth_error (s_h s) node = Some n ->
  exists s' c, deflist_continue space_table s node = Ok (s', c) /\ SI s' /\ s_h s' = s_h s /\ s_c s' = s_c s /\
    same_line (s_r s) (s_r s').
Proof.
  intros HS Hin Hn. unfold deflist_continue.
  destruct (peek_line_s_ok _ _ s HS) as [sa (Ea & Sa & Ca & _)]. rewrite Ea. cbn [bind].
  pose proof Hin as Hin'. unfold sin in Hin'. rewrite Hin'. cbn [line_of]. pose proof Ca as (Ha & Hca & Hpa).
  destruct (Reader.is_blank space_table (sview s)).
  { exists sa, true. csplit; auto. apply same_pos_line. exact Hpa. }
  rewrite Ha, (hget_some _ _ _ Hn). cbn [bind].
  destruct (line_offset_s_ok _ _ sa Sa) as [sb (Eb & Sb & Cb & _)]. rewrite Eb. cbn [bind]. cbv zeta.
  pose proof Cb as (Hb1 & Hcb & Hpb).
  assert (Hsb : same_pos (s_r s) (s_r sb)) by (eapply same_pos_trans; eassumption).
  destruct (Z.ltb_spec (fst (indent_width (sview s) (soff sa))) (b_i2 n)) as [Hlt|Hge].
  { exists sb, false. csplit; auto; try congruence. apply same_pos_line. exact Hsb. }
  destruct (dl_indent_position (sview s) (soff sa) (b_i2 n) Hge) as (pos & pad & E & Hp1 & Hp2 & Hp3). rewrite E.
  assert (Hv : r_view (s_r sb) = sview s) by (apply same_pos_view; exact Hsb).
  destruct (ri_advance_and_set_padding_in_line (s_r sb) pos pad (si_r _ _ _ Sb)) as [r' (Er & Rr & Lr & _)].
  - rewrite (same_pos_in_range _ _ Hsb). exact Hin'.
  - rewrite Hv. exact Hp1.
  - rewrite Hv. exact Hp3.
  - exact Hp2.
  - rewrite Er. cbn [bind]. eexists _, _. split; [reflexivity|]. cbn [st_r s_h s_c s_r]. csplit; try congruence.
    + apply SI_set_r; [exact Sb|exact Rr|apply same_line_le; exact Lr].
    + eapply same_line_trans; [apply same_pos_line; exact Hsb|exact Lr].
Qed.

(* ---------- definitionDescriptionParser.Open below a node that is no definition list ---------- *)
Lemma dl_defdesc_open_none s parent pn : SI s -> sin s -> BoffOK s -> nth_error (s_h s) parent = Some pn -> is_dl pn = false ->
  exists s1, defdesc_open space_table s parent = Ok (s1, None) /\ SI s1 /\ scache s s1.
Proof.
  intros HS Hin [B1 B2] Hp Edl. unfold defdesc_open.
  destruct (peek_line_s_ok _ _ s HS) as [s1 (E1 & S1 & C1 & _)]. rewrite E1. cbn [bind].
  pose proof Hin as Hin'. unfold sin in Hin'. rewrite Hin'. cbn [line_of]. pose proof C1 as (CH & CC & CP).
  rewrite CC. cbv zeta.
  destruct (Z.ltb_spec (c_boff (s_c s)) 0) as [Hneg|Hpos]; [exists s1; auto|].
  rewrite at_nth by lia. cbn [bind].
  match goal with |- context [if ?b then _ else _] => destruct b end; [exists s1; auto|].
  rewrite CH, (hget_some _ _ _ Hp). cbn [bind]. rewrite Edl. cbn [negb]. exists s1. auto.
Qed.

End S.
