(* C11 for the model with the DefinitionList extension, block phase: with the extension off the
   generalised copy of the block driver (model/TypoDefParseD.v) is the driver of the default parser
   (model/BlockParse.v), for every source and every outcome; the heap the default driver leaves has
   no node that the copy reads as a DefinitionList, DefinitionTerm or DefinitionDescription node.
   The copy differs from the core in reads of a node before Continue / Close (the node exists:
   cvalid; it is no node of the extension: dheap), in the detaching AppendChild (the node Open
   returned is still detached: hRk) and in a type assertion on the paragraph of RequireParagraph. *)
Require Import GM.model.Base GM.model.Util GM.model.Reader GM.model.Blocks GM.model.ListItem
               GM.model.LeafBlocks GM.model.CodeBlock GM.model.LinkDest GM.model.Regex
               GM.model.BlockParse GM.model.TypoDefParseD.
Require Import GM.proofs.GfmConservativeDefs GM.proofs.ParseBlocksTotalDefs GM.proofs.TypoDefConservativeBlkInv.
Require Import GM.proofs.TypoDefConservativeBlkA GM.proofs.TypoDefConservativeBlkB GM.proofs.TypoDefConservativeBlkC.
From Coq Require Import List ZArith NArith Bool Lia.
Import ListNotations.
Open Scope Z_scope.

(* the opened blocks are nodes of the heap *)
Definition cvalid (s : st) : Prop := Forall (fun e => (fst e < length (s_h s))%nat) (c_arr (s_c s)).
Definition Inv (s : st) : Prop := dheap (s_h s) /\ cvalid s.

Lemma Inv_step s s' : Inv s -> hRk 0 (s_h s) (s_h s') -> incl (c_arr (s_c s')) (c_arr (s_c s)) -> Inv s'.
Proof.
  intros [D V] HR HI. split; [eapply hRk_dheap; eassumption|].
  unfold cvalid in *. rewrite Forall_forall in *. intros e He. specialize (V e (HI e He)).
  pose proof (hRk_len _ _ _ HR). lia.
Qed.
Lemma Inv_sR k s s' : Inv s -> sR k s s' -> Inv s'.
Proof.
  intros HI (H & A & _). eapply Inv_step; [exact HI|eapply hRk_mono; [|exact H]; lia|]. rewrite A. apply incl_refl.
Qed.
Lemma Inv_st_r s r : Inv s -> Inv (st_r s r).
Proof. intros H. exact H. Qed.

Lemma attached_inv h i b : attached h i = Ok b -> exists n, nth_error h i = Some n.
Proof. unfold attached. intros H. gc_bind H n En. exists n. apply hget_inv, En. Qed.
Lemma is_paragraph_inv h i b : is_paragraph h i = Ok b -> exists n, nth_error h i = Some n /\ b = bkind_eqb (bk n) BParagraph.
Proof. unfold is_paragraph. intros H. gc_bind H n En. injection H as <-. exists n. split; [apply hget_inv, En|reflexivity]. Qed.

Lemma append_childD_core h p c n : nth_error h c = Some n -> bpar n = None -> append_childD h p c = append_child h p c.
Proof. intros E P. unfold append_childD. rewrite (hget_some _ _ _ E). cbn [bind]. rewrite P. reflexivity. Qed.

Definition try_st (t : try_res) : st := match t with TRetry _ _ _ s => s | TDone _ s => s end.
Definition sum_st (r : st + st) : st := match r with inl s => s | inr s => s end.

Ltac fin := split; [reflexivity|intros ? HH; discriminate HH].
Ltac bstep x E :=
  match goal with
  | |- (bind ?e _ = _) /\ _ => destruct e as [x| |] eqn:E; cbn [bind]; [|fin|fin]
  end.

Section Blk.
Variable space_table punct_table : list N.
Variable norm : bytes -> bytes.
Variable re_t1o re_t1c re_t2 re_t3 re_t4 re_t5 re_t6 re_t7 : re.
Variable allowed_tags : list bytes.
Notation p_open := (p_open space_table re_t1o re_t2 re_t3 re_t4 re_t5 re_t6 re_t7 allowed_tags).
Notation p_continue := (p_continue space_table re_t1c).
Notation p_close := (p_close space_table).
Notation p_continueD := (p_continueD space_table re_t1c).
Notation p_closeD := (p_closeD space_table).
Notation TP := (transform_paragraph space_table punct_table norm).
Notation CR := (close_range space_table punct_table norm).
Notation CRD := (close_rangeD space_table punct_table norm).
Notation CB := (close_blocks space_table punct_table norm).
Notation CBD := (close_blocksD space_table punct_table norm).
Notation TRY := (try_parsers space_table punct_table norm re_t1o re_t2 re_t3 re_t4 re_t5 re_t6 re_t7 allowed_tags).
Notation TRYD := (try_parsersD space_table punct_table norm re_t1o re_t2 re_t3 re_t4 re_t5 re_t6 re_t7 allowed_tags).
Notation OBL := (open_blocks_loop space_table punct_table norm re_t1o re_t2 re_t3 re_t4 re_t5 re_t6 re_t7 allowed_tags).
Notation OBLD := (open_blocks_loopD false space_table punct_table norm re_t1o re_t2 re_t3 re_t4 re_t5 re_t6 re_t7 allowed_tags).
Notation OB := (open_blocks space_table punct_table norm re_t1o re_t1c re_t2 re_t3 re_t4 re_t5 re_t6 re_t7 allowed_tags).
Notation OBD := (open_blocksD false space_table punct_table norm re_t1o re_t1c re_t2 re_t3 re_t4 re_t5 re_t6 re_t7 allowed_tags).
Notation EO := (each_opened space_table punct_table norm re_t1o re_t1c re_t2 re_t3 re_t4 re_t5 re_t6 re_t7 allowed_tags).
Notation EOD := (each_openedD false space_table punct_table norm re_t1o re_t1c re_t2 re_t3 re_t4 re_t5 re_t6 re_t7 allowed_tags).
Notation LL := (lines_loop space_table punct_table norm re_t1o re_t1c re_t2 re_t3 re_t4 re_t5 re_t6 re_t7 allowed_tags).
Notation LLD := (lines_loopD false space_table punct_table norm re_t1o re_t1c re_t2 re_t3 re_t4 re_t5 re_t6 re_t7 allowed_tags).
Notation PBL := (parse_blocks_loop space_table punct_table norm re_t1o re_t1c re_t2 re_t3 re_t4 re_t5 re_t6 re_t7 allowed_tags).
Notation PBLD := (parse_blocks_loopD false space_table punct_table norm re_t1o re_t1c re_t2 re_t3 re_t4 re_t5 re_t6 re_t7 allowed_tags).

Lemma p_closeD_core s bp node n : dheap (s_h s) -> nth_error (s_h s) node = Some n -> p_closeD bp s node = p_close bp s node.
Proof.
  intros D E. unfold TypoDefParseD.p_closeD. rewrite (hget_some _ _ _ E). cbn [bind].
  destruct (dheap_nth _ _ _ D E) as (-> & _ & ->). reflexivity.
Qed.
Lemma p_continueD_core s bp node n : dheap (s_h s) -> nth_error (s_h s) node = Some n -> p_continueD bp s node = p_continue bp s node.
Proof.
  intros D E. unfold TypoDefParseD.p_continueD. rewrite (hget_some _ _ _ E). cbn [bind].
  destruct (dheap_nth _ _ _ D E) as (-> & _ & ->). reflexivity.
Qed.

Lemma close_range_core : forall cnt s blocks i, dheap (s_h s) ->
  CRD s blocks cnt i = CR s blocks cnt i /\ (forall s', CR s blocks cnt i = Ok s' -> sR (length (s_h s)) s s').
Proof.
  induction cnt as [|k IH]; intros s blocks i D; cbn [close_rangeD close_range].
  - split; [reflexivity|]. intros s' E. injection E as <-. apply sR_refl.
  - destruct ((i <? 0) || (zlen blocks <=? i)); [fin|].
    destruct (nth_error blocks (Z.to_nat i)) as [[node p]|]; [|fin].
    bstep isp Eisp. bstep att Eatt. bstep s1 Es1.
    assert (H1 : sR (length (s_h s)) s s1).
    { destruct (isp && att); [|injection Es1 as <-; apply sR_refl].
      gc_bind Es1 x Ex. destruct x as [s2 g]. injection Es1 as <-. cbn [fst].
      eapply transform_paragraph_sR; [|exact Ex]. lia. }
    pose proof (sR_dheap _ _ _ H1 D) as D1.
    bstep att2 Eatt2. destruct (attached_inv _ _ _ Eatt2) as [n1 En1].
    destruct att2.
    + rewrite (p_closeD_core s1 p node n1 D1 En1). bstep s2 Es2.
      assert (H2 : sR (length (s_h s1)) s1 s2) by (eapply p_close_sR; [|exact Es2]; lia).
      destruct (IH s2 blocks (i - 1) (sR_dheap _ _ _ H2 D1)) as [Heq Hpost]. split; [exact Heq|].
      intros s' E. eapply sR_seq; [exact H1|]. eapply sR_seq; [exact H2|]. exact (Hpost s' E).
    + cbn [bind]. destruct (IH s1 blocks (i - 1) D1) as [Heq Hpost]. split; [exact Heq|].
      intros s' E. eapply sR_seq; [exact H1|]. exact (Hpost s' E).
Qed.

Lemma close_blocks_core s from to : dheap (s_h s) ->
  CBD s from to = CB s from to /\
  (forall s', CB s from to = Ok s' -> hRk (length (s_h s)) (s_h s) (s_h s') /\ incl (c_arr (s_c s')) (c_arr (s_c s))).
Proof.
  intros D. unfold close_blocksD, close_blocks.
  destruct (close_range_core (Z.to_nat (from - to + 1)) s (opened (s_c s)) from D) as [Heq Hpost]. rewrite Heq.
  destruct (CR s (opened (s_c s)) (Z.to_nat (from - to + 1)) from) as [s1| |]; cbn [bind]; [|fin|fin].
  destruct (Hpost s1 eq_refl) as (HR & HA & _).
  split; [reflexivity|]. intros s' E.
  destruct (from =? Z.of_nat (c_len (s_c s1)) - 1).
  - destruct ((to <? 0) || (Z.of_nat (c_len (s_c s1)) <? to)); [discriminate|]. injection E as <-.
    cbn [st_c s_h s_c cset_open c_arr]. split; [exact HR|]. rewrite HA. apply incl_refl.
  - destruct ((to <? 0) || (from + 1 <? to) || (Z.of_nat (c_len (s_c s1)) <? from + 1)); [discriminate|]. injection E as <-.
    cbn [st_c s_h s_c cset_open c_arr]. split; [exact HR|]. rewrite <- HA.
    apply incl_app; [apply incl_firstn|]. apply incl_app; [|apply incl_skipn].
    eapply incl_tran; [apply incl_skipn|apply incl_firstn].
Qed.

Lemma try_parsers_core : forall bps parent blank cont res w s, Inv s ->
  TRYD (map DCore bps) parent blank cont res w s = TRY bps parent blank cont res w s /\
  (forall t, TRY bps parent blank cont res w s = Ok t -> Inv (try_st t)).
Proof.
  induction bps as [|bp rest IH]; intros parent blank cont res w s HI; cbn [map try_parsersD try_parsers].
  - split; [reflexivity|]. intros t E. injection E as <-. exact HI.
  - cbn [can_interrupt_paragraphD can_accept_indentedD p_openD recorded].
    destruct (cont && (res =? noBlocksOpened) && negb (can_interrupt_paragraph bp)); [apply IH, HI|].
    destruct ((3 <? w) && negb (can_accept_indented bp)); [apply IH, HI|].
    bstep x Ex. destruct x as [s1 o]. apply p_open_post in Ex. destruct Ex as (HA1 & HL1 & Ho).
    destruct o as [[[node hc] rp]|].
    2:{ apply IH. destruct HI as [D V]. split; [rewrite Ho; exact D|]. unfold cvalid. rewrite Ho, HA1. exact V. }
    destruct Ho as (n & Hh1 & Hnode & Hpar & Hdn & Hrp).
    assert (HR1 : hRk 0 (s_h s) (s_h s1)) by (rewrite Hh1; apply hRk_alloc, Hdn).
    assert (HI1 : Inv s1) by (eapply Inv_step; [exact HI|exact HR1|rewrite HA1; apply incl_refl]).
    assert (En1 : nth_error (s_h s1) node = Some n) by (rewrite Hh1, Hnode; apply nth_error_alloc_new).
    assert (Hlt1 : (node < length (s_h s1))%nat) by (eapply nth_error_lt, En1).
    (* the RequireParagraph part *)
    set (RD := (if rp then match last_opened (s_c s) with Some (last, lp) =>
                  pn <- hget (s_h s1) parent ;; if opt_nat_eqb (Some last) (last_id (bch pn)) then s <- p_closeD lp s1 last ;; _ else _ | None => _ end else _) : result (st + st)).
    set (R := (if rp then match last_opened (s_c s) with Some (last, lp) =>
                  pn <- hget (s_h s1) parent ;; if opt_nat_eqb (Some last) (last_id (bch pn)) then s <- p_close lp s1 last ;; _ else _ | None => _ end else _) : result (st + st)).
    assert (HR : RD = R /\ forall r, R = Ok r -> hRk (length (s_h s1)) (s_h s1) (s_h (sum_st r)) /\ c_arr (s_c (sum_st r)) = c_arr (s_c s1)).
    { subst RD R. destruct rp.
      2:{ split; [reflexivity|]. intros r E. injection E as <-. cbn [sum_st]. split; [apply hRk_refl|reflexivity]. }
      destruct (Hrp eq_refl) as (last & lp & ln & El & Eln & Kln). rewrite El.
      bstep pn Epn.
      destruct (opt_nat_eqb (Some last) (last_id (bch pn))).
      2:{ split; [reflexivity|]. intros r E. injection E as <-. cbn [sum_st]. split; [apply hRk_refl|reflexivity]. }
      assert (Eln1 : nth_error (s_h s1) last = Some ln) by (rewrite Hh1; apply nth_error_alloc_old, Eln).
      rewrite (p_closeD_core s1 lp last ln (proj1 HI1) Eln1).
      bstep s2 Es2.
      assert (H2 : sR (length (s_h s1)) s1 s2) by (eapply p_close_sR; [|exact Es2]; lia).
      destruct (Nat.eqb (c_len (s_c s2)) 0); [fin|].
      destruct (hRk_nth _ _ _ _ _ (proj1 H2) Eln1) as (ln2 & Eln2 & Kln2 & _).
      unfold is_paragraph at 1. cbn [st_c s_h]. rewrite (hget_some _ _ _ Eln2). cbn [bind].
      rewrite Kln2, Kln. cbn [bkind_eqb negb].
      bstep t Et. destruct t as [s3 gone].
      assert (H3 : sR (length (s_h s1)) (st_c s2 (cset_open (s_c s2) (c_arr (s_c s2)) (Init.Nat.pred (c_len (s_c s2))))) s3).
      { eapply sR_mono; [|eapply (transform_paragraph_sR _ _ _ (length (s_h s2))); [|exact Et]]; [apply (sR_len _ _ _ H2)|].
        cbn [st_c s_h]. lia. }
      split; [reflexivity|]. intros r E.
      assert (Hs3 : sum_st r = s3) by (destruct gone; injection E as <-; reflexivity). rewrite Hs3.
      destruct H2 as (H2h & H2a & _). destruct H3 as (H3h & H3a & _). cbn [st_c s_h s_c cset_open c_arr] in H3h, H3a.
      split; [eapply hRk_trans; eassumption|congruence]. }
    destruct HR as [HReq HRpost]. rewrite HReq. clear HReq RD.
    destruct R as [r| |] eqn:ER; cbn [bind]; [|fin|fin]. clear ER.
    destruct (HRpost r eq_refl) as [HR2 HA2]. clear HRpost.
    destruct r as [s2|s2]; cbn [sum_st] in HR2, HA2.
    2:{ split; [reflexivity|]. intros t E. injection E as <-. cbn [try_st].
        eapply Inv_step; [exact HI1|eapply hRk_mono; [|exact HR2]; lia|rewrite HA2; apply incl_refl]. }
    bstep h3 Eh3.
    assert (HR3 : hRk (length (s_h s1)) (s_h s2) h3) by (eapply hRk_hupd_simple; [exact Eh3|]; intros m; cbn; auto).
    pose proof (hRk_trans _ _ _ _ HR2 HR3) as HR13.
    pose proof (hRk_dheap _ _ _ HR13 (proj1 HI1)) as D3.
    set (SD := match last_opened (s_c s) with Some (last, _) => att <- attached (s_h (st_h s2 h3)) last ;; if negb att then CBD _ _ _ else _ | None => _ end).
    set (S := match last_opened (s_c s) with Some (last, _) => att <- attached (s_h (st_h s2 h3)) last ;; if negb att then CB _ _ _ else _ | None => _ end).
    assert (HS : SD = S /\ forall s4, S = Ok s4 -> hRk (length h3) h3 (s_h s4) /\ incl (c_arr (s_c s4)) (c_arr (s_c s2))).
    { subst SD S. destruct (last_opened (s_c s)) as [[last lp]|].
      2:{ split; [reflexivity|]. intros s4 E. injection E as <-. cbn [st_h s_h s_c]. split; [apply hRk_refl|apply incl_refl]. }
      bstep att Eatt. destruct (negb att).
      - apply (close_blocks_core (st_h s2 h3)). exact D3.
      - split; [reflexivity|]. intros s4 E. injection E as <-. cbn [st_h s_h s_c]. split; [apply hRk_refl|apply incl_refl]. }
    destruct HS as [HSeq HSpost]. rewrite HSeq. clear HSeq SD.
    destruct S as [s4| |] eqn:ES; cbn [bind]; [|fin|fin]. clear ES.
    destruct (HSpost s4 eq_refl) as [HR4 HA4]. clear HSpost.
    assert (HR14 : hRk (length (s_h s1)) (s_h s1) (s_h s4)).
    { eapply hRk_trans; [exact HR13|]. eapply hRk_mono; [|exact HR4]. apply (hRk_len _ _ _ HR13). }
    destruct (hRk_nth _ _ _ _ _ HR14 En1) as (n4 & En4 & _ & _ & Hp4).
    rewrite (append_childD_core _ parent node n4 En4 (Hp4 Hlt1 Hpar)).
    bstep h5 Eh5.
    assert (HI5 : Inv (st_c (st_h s4 h5) (push_opened (s_c s4) (node, bp)))).
    { pose proof (hRk_append_child 0 _ _ _ _ Eh5 ltac:(lia)) as HR5.
      assert (HR05 : hRk 0 (s_h s) h5).
      { eapply hRk_trans; [exact HR1|]. eapply hRk_trans; [eapply hRk_mono; [|exact HR14]; lia|exact HR5]. }
      split; cbn [st_c st_h s_h s_c]; [eapply hRk_dheap; [exact HR05|apply HI]|].
      unfold cvalid. cbn [st_c st_h s_h s_c push_opened cset_open c_arr].
      assert (Hold : Forall (fun e => (fst e < length h5)%nat) (c_arr (s_c s4))).
      { destruct HI as [_ V]. unfold cvalid in V. rewrite Forall_forall in *. intros e He.
        apply HA4 in He. rewrite HA2, HA1 in He. specialize (V e He). pose proof (hRk_len _ _ _ HR05). lia. }
      rewrite Forall_forall in *. intros e He. apply in_app_or in He. destruct He as [He|He].
      - apply Hold. eapply incl_firstn, He.
      - apply in_app_or in He. destruct He as [[<-|[]]|He].
        + cbn [fst]. rewrite (append_child_length _ _ _ _ Eh5). eapply nth_error_lt, En4.
        + apply Hold. eapply incl_skipn, He. }
    split; [reflexivity|]. intros t E. destruct hc; injection E as <-; exact HI5.
Qed.

Lemma candidatesD_off c : candidatesD false c = map DCore (candidates c).
Proof. reflexivity. Qed.

Lemma open_blocks_loop_core : forall fuel parent blank cont res s, Inv s ->
  OBLD fuel parent blank cont res s = OBL fuel parent blank cont res s /\
  (forall r, OBL fuel parent blank cont res s = Ok r -> Inv (snd r)).
Proof.
  induction fuel as [|f IH]; intros parent blank cont res s HI; cbn [open_blocks_loopD open_blocks_loop]; [fin|].
  bstep x Ex. destruct x as [[s1 line] sg]. destruct (peek_line_s_inv _ _ _ _ Ex) as [r1 ->].
  bstep y Ey. destruct y as [s2 off]. destruct (line_offset_s_inv _ _ _ Ey) as [r2 ->].
  destruct (Blocks.indent_width (line_of line) off) as [w pos].
  match goal with |- context [st_c ?a ?c] => set (s3 := st_c a c) end.
  assert (HI3 : Inv s3).
  { eapply Inv_step; [exact HI|apply hRk_refl|]. subst s3. cbn [st_c st_r s_c s_h].
    destruct (zlen (line_of line) <=? w); cbn [cset_off c_arr]; apply incl_refl. }
  match goal with |- ((if ?b then _ else _) = _) /\ _ => destruct b end.
  { split; [reflexivity|]. intros r E. injection E as <-. exact HI3. }
  rewrite candidatesD_off.
  replace (if pos <? zlen (line_of line) then map DCore (candidates (nth_byte (line_of line) pos)) else map DCore free_parsers)
    with (map DCore (if pos <? zlen (line_of line) then candidates (nth_byte (line_of line) pos) else free_parsers))
    by (destruct (pos <? zlen (line_of line)); reflexivity).
  destruct (try_parsers_core (if pos <? zlen (line_of line) then candidates (nth_byte (line_of line) pos) else free_parsers)
              parent blank cont res w s3 HI3) as [Heq Hpost]. rewrite Heq.
  destruct (TRY _ parent blank cont res w s3) as [t| |]; cbn [bind]; [|fin|fin].
  specialize (Hpost t eq_refl). destruct t as [p2 c2 r2' s4|r2' s4]; cbn [try_st] in Hpost.
  - apply IH. exact Hpost.
  - split; [reflexivity|]. intros r E. injection E as <-. exact Hpost.
Qed.

Lemma last_opened_valid s l lp : cvalid s -> last_opened (s_c s) = Some (l, lp) -> exists n, nth_error (s_h s) l = Some n.
Proof.
  unfold cvalid, last_opened. intros V E. destruct (c_len (s_c s)) as [|k]; [discriminate|].
  apply nth_error_In in E. rewrite Forall_forall in V. specialize (V _ E). cbn [fst] in V.
  apply nth_error_ex_lt. exact V.
Qed.

Lemma open_blocks_core fuel parent blank s : Inv s ->
  OBD fuel parent blank s = OB fuel parent blank s /\ (forall r, OB fuel parent blank s = Ok r -> Inv (snd r)).
Proof.
  intros HI. unfold open_blocksD, open_blocks.
  bstep cn0 Ecn0.
  destruct (open_blocks_loop_core fuel parent blank cn0 noBlocksOpened s HI) as [Heq Hpost]. rewrite Heq.
  destruct (OBL fuel parent blank cn0 noBlocksOpened s) as [[[res c2] s2]| |]; cbn [bind]; [|fin|fin].
  specialize (Hpost _ eq_refl). cbn [snd] in Hpost.
  destruct ((res =? noBlocksOpened) && c2).
  2:{ split; [reflexivity|]. intros r E. injection E as <-. exact Hpost. }
  destruct (last_opened (s_c s2)) as [[l lp]|] eqn:El; [|fin].
  destruct (last_opened_valid _ _ _ (proj2 Hpost) El) as [n En].
  rewrite (p_continueD_core s2 lp l n (proj1 Hpost) En).
  bstep y Ey. destruct y as [[s3 c3] k3].
  split; [reflexivity|]. intros r E. injection E as <-. cbn [snd].
  eapply Inv_sR; [exact Hpost|]. eapply (p_continue_sR _ _ 0%nat). exact Ey.
Qed.

Lemma Inv_close_blocks s from to s' : Inv s -> CB s from to = Ok s' -> Inv s'.
Proof.
  intros HI E. destruct (proj2 (close_blocks_core s from to (proj1 HI)) s' E) as [HR HA].
  eapply Inv_step; [exact HI|eapply hRk_mono; [|exact HR]; lia|exact HA].
Qed.

Lemma each_opened_core : forall fuel captured root i last_index stats s, Inv s ->
  EOD fuel captured root i last_index stats s = EO fuel captured root i last_index stats s /\
  (forall r, EO fuel captured root i last_index stats s = Ok r -> Inv (sum_st (fst r))).
Proof.
  induction fuel as [|f IH]; intros captured root i last_index stats s HI; cbn [each_openedD each_opened]; [fin|].
  destruct (last_index <? i).
  { split; [reflexivity|]. intros r E. injection E as <-. exact HI. }
  destruct (nth_error captured (Z.to_nat i)) as [[node bp]|]; [|fin].
  bstep x Ex. destruct x as [[s1 line] sg]. destruct (peek_line_s_inv _ _ _ _ Ex) as [r1 ->].
  assert (HI1 : Inv (st_r s r1)) by exact HI.
  destruct line as [line|].
  2:{ destruct (close_blocks_core (st_r s r1) last_index 0 (proj1 HI1)) as [Heq _]. rewrite Heq.
    destruct (CB (st_r s r1) last_index 0) as [s2| |] eqn:E2; cbn [bind]; [|fin|fin].
    split; [reflexivity|]. intros r E. injection E as <-. cbn [fst sum_st]. unfold advance_line_s.
    apply Inv_st_r. eapply Inv_close_blocks; eassumption. }
  bstep isp Eisp. destruct (is_paragraph_inv _ _ _ Eisp) as (n & En & _).
  set (CD := (if negb isp then y <- p_continueD bp (st_r s r1) node ;; _ else _) : result (st * bool * bool)).
  set (C := (if negb isp then y <- p_continue bp (st_r s r1) node ;; _ else _) : result (st * bool * bool)).
  assert (HC : CD = C /\ forall c, C = Ok c -> Inv (fst (fst c))).
  { subst CD C. destruct (negb isp).
    - rewrite (p_continueD_core (st_r s r1) bp node n (proj1 HI1) En).
      bstep y Ey. destruct y as [[s2 c2] k2]. split; [reflexivity|]. intros c E. injection E as <-. cbn [fst].
      eapply Inv_sR; [exact HI1|]. eapply (p_continue_sR _ _ 0%nat). exact Ey.
    - split; [reflexivity|]. intros c E. injection E as <-. exact HI1. }
  destruct HC as [HCeq HCpost]. rewrite HCeq. clear HCeq CD.
  destruct C as [[[s2 cn2] kids]| |] eqn:EC; cbn [bind]; [|fin|fin]. clear EC.
  specialize (HCpost _ eq_refl). cbn [fst] in HCpost.
  destruct cn2.
  - destruct (kids && (i =? last_index)).
    + destruct (open_blocks_core (2 * length line + 8) node
                 (is_blank_line (rline (st_r s r1) - 1) i ((rline (st_r s r1), i, Reader.is_blank space_table line) :: stats))
                 s2 HCpost) as [Heq Hpost]. rewrite Heq.
      destruct (OB _ node _ s2) as [o| |]; cbn [bind]; [|fin|fin].
      split; [reflexivity|]. intros r E. injection E as <-. cbn [fst sum_st]. apply Hpost. reflexivity.
    + apply IH. exact HCpost.
  - bstep tp Etp. bstep lnode Elnode.
    destruct (open_blocks_core (2 * length line + 8) tp
               (is_blank_line (rline (st_r s r1) - 1) i ((rline (st_r s r1), i, Reader.is_blank space_table line) :: stats))
               s2 HCpost) as [Heq Hpost]. rewrite Heq.
    destruct (OB _ tp _ s2) as [[res s3]| |]; cbn [bind]; [|fin|fin].
    specialize (Hpost _ eq_refl). cbn [snd] in Hpost.
    destruct (negb (res =? paragraphContinuation)).
    2:{ split; [reflexivity|]. intros r E. injection E as <-. exact Hpost. }
    bstep nl Enl.
    match goal with |- (bind (CBD s3 ?a ?b) _ = _) /\ _ =>
      destruct (close_blocks_core s3 a b (proj1 Hpost)) as [Heq2 _]; rewrite Heq2;
      destruct (CB s3 a b) as [s4| |] eqn:E4; cbn [bind]; [|fin|fin] end.
    split; [reflexivity|]. intros r E. injection E as <-. cbn [fst sum_st]. eapply Inv_close_blocks; eassumption.
Qed.

Lemma lines_loop_core : forall fuel root stats s, Inv s ->
  LLD fuel root stats s = LL fuel root stats s /\ (forall r, LL fuel root stats s = Ok r -> Inv (sum_st (fst r))).
Proof.
  induction fuel as [|f IH]; intros root stats s HI; cbn [lines_loopD lines_loop]; [fin|].
  destruct (opened (s_c s)) as [|e0 cap].
  { split; [reflexivity|]. intros r E. injection E as <-. exact HI. }
  destruct (each_opened_core (S (length (e0 :: cap))) (e0 :: cap) root 0 (zlen (e0 :: cap) - 1) stats s HI) as [Heq Hpost].
  rewrite Heq.
  destruct (EO _ (e0 :: cap) root 0 _ stats s) as [[r st1]| |]; cbn [bind]; [|fin|fin].
  specialize (Hpost _ eq_refl). cbn [fst] in Hpost.
  destruct r as [s1|s1]; cbn [sum_st] in Hpost.
  - split; [reflexivity|]. intros r E. injection E as <-. exact Hpost.
  - apply IH. unfold advance_line_s. apply Inv_st_r. exact Hpost.
Qed.

Lemma parse_blocks_loop_core : forall fuel root stats s, Inv s ->
  PBLD fuel root stats s = PBL fuel root stats s /\ (forall s', PBL fuel root stats s = Ok s' -> Inv s').
Proof.
  induction fuel as [|f IH]; intros root stats s HI; cbn [parse_blocks_loopD parse_blocks_loop]; [fin|].
  bstep x Ex. destruct x as [[[r a] lines] ok].
  assert (HI1 : Inv (st_r s r)) by exact HI.
  destruct (negb ok).
  { split; [reflexivity|]. intros s' E. injection E as <-. exact HI1. }
  match goal with |- (bind (open_blocksD _ _ _ _ _ _ _ _ _ _ _ _ _ ?fu ?ro ?bl ?ss) _ = _) /\ _ =>
    destruct (open_blocks_core fu ro bl ss HI1) as [Heq Hpost]; rewrite Heq;
    destruct (OB fu ro bl ss) as [[res s1]| |]; cbn [bind]; [|fin|fin] end.
  specialize (Hpost _ eq_refl). cbn [snd] in Hpost.
  destruct (negb (res =? newBlocksOpened)).
  { split; [reflexivity|]. intros s' E. injection E as <-. exact Hpost. }
  assert (HI2 : Inv (advance_line_s s1)) by (unfold advance_line_s; apply Inv_st_r; exact Hpost).
  match goal with |- (bind (lines_loopD _ _ _ _ _ _ _ _ _ _ _ _ _ ?fu ?ro ?sts ?ss) _ = _) /\ _ =>
    destruct (lines_loop_core fu ro sts ss HI2) as [Heq2 Hpost2]; rewrite Heq2;
    destruct (LL fu ro sts ss) as [[r2 st2]| |]; cbn [bind]; [|fin|fin] end.
  specialize (Hpost2 _ eq_refl). cbn [fst] in Hpost2.
  destruct r2 as [s2|s2]; cbn [sum_st] in Hpost2.
  - split; [reflexivity|]. intros s' E. injection E as <-. exact Hpost2.
  - apply IH. exact Hpost2.
Qed.

Lemma init_Inv src : Inv {| s_h := [mknode BDocument 0]; s_c := init_ctx; s_r := new_reader src |}.
Proof.
  split; cbn [s_h s_c].
  - constructor; [|constructor]. apply (dnode_kind (mknode BDocument 0)). cbn. discriminate.
  - unfold cvalid. cbn [s_c init_ctx c_arr]. constructor.
Qed.

Lemma parse_blocksD_off_sec : forall src,
  parse_blocksD false space_table punct_table norm re_t1o re_t1c re_t2 re_t3 re_t4 re_t5 re_t6 re_t7 allowed_tags src =
  parse_blocks space_table punct_table norm re_t1o re_t1c re_t2 re_t3 re_t4 re_t5 re_t6 re_t7 allowed_tags src.
Proof.
  intros src. unfold parse_blocksD, parse_blocks.
  exact (proj1 (parse_blocks_loop_core (S (length src)) 0%nat [] _ (init_Inv src))).
Qed.

Lemma parse_blocks_dheap_sec : forall src s,
  parse_blocks space_table punct_table norm re_t1o re_t1c re_t2 re_t3 re_t4 re_t5 re_t6 re_t7 allowed_tags src = Ok s ->
  dheap (s_h s).
Proof.
  intros src s E. unfold parse_blocks in E.
  exact (proj1 (proj2 (parse_blocks_loop_core (S (length src)) 0%nat [] _ (init_Inv src)) s E)).
Qed.
End Blk.

(* with the DefinitionList extension off, the block phase is that of the default parser *)
Theorem parse_blocksD_off : forall space_table punct_table norm re_t1o re_t1c re_t2 re_t3 re_t4 re_t5 re_t6 re_t7 allowed_tags src,
  parse_blocksD false space_table punct_table norm re_t1o re_t1c re_t2 re_t3 re_t4 re_t5 re_t6 re_t7 allowed_tags src =
  parse_blocks space_table punct_table norm re_t1o re_t1c re_t2 re_t3 re_t4 re_t5 re_t6 re_t7 allowed_tags src.
Proof. intros. apply parse_blocksD_off_sec. Qed.

(* the heap the default block phase leaves has no node of the extension *)
Theorem parse_blocks_dheap : forall space_table punct_table norm re_t1o re_t1c re_t2 re_t3 re_t4 re_t5 re_t6 re_t7 allowed_tags src s,
  parse_blocks space_table punct_table norm re_t1o re_t1c re_t2 re_t3 re_t4 re_t5 re_t6 re_t7 allowed_tags src = Ok s ->
  dheap (s_h s).
Proof. intros until s. apply parse_blocks_dheap_sec. Qed.
