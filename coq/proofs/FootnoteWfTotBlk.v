(* C01 (block phase of the parser model with extension.Footnote, model/FootnoteParseBlock.v): parse_blocksF
   never panics and never runs out of fuel.  Only the existence of the result is stated here; the facts about
   the heap it leaves are proved in FootnoteWfBlk*.v from `= Ok x`, and the conversion of the heap to a tree
   (after the AST transformer of the extension) is not part of this file.
   The single hypothesis about the tables, TblOK (the white space table marks exactly the bytes 9, 10, 13, 32;
   ParseBlocksTotalSpec.v and, identically, FootnoteWfTotBlkSpec.v), is discharged for the generated table
   by ParseBlocksTotal.space_table_ok in the corollary.
   The proof is a FORK + PORT of the core proof ParseBlocksTotal*.v; helper files FootnoteWfTotBlk*.v, in
   compile order:
     (core, unchanged) ParseBlocksTotalReader, ParseBlocksTotalLrd;
     Pad, Pad2 (NEW: the padding of the reader position is <= 3; needed for the progress of footnote_open),
     Defs (heap/context/state invariants with the new parameter lst = the FootnoteList node: node numbers
           increase from parent to child except on edges that start at the FootnoteList), Spec, St, Shape,
     Transform, Leaf, Leaf2, ContBq, ContClose, ContItem, ContOpen, Cont, Pair (the ten core parsers),
     Fn (NEW: footnote_open / footnote_continue / footnote_close), Close (close_blocksF),
     OpenI (interface), OpenA, OpenB (open_blocksF), EachA, Each (each_openedF), Drive (outer loops). *)
Require Import GM.model.Base GM.model.Util GM.model.UtilI GM.model.Reader GM.model.ReaderSpec GM.model.Blocks GM.model.ListItem
               GM.model.LeafBlocks GM.model.CodeBlock GM.model.LinkDest GM.model.Regex GM.model.Html GM.model.HtmlI
               GM.model.DelimI GM.model.BlockParse GM.model.FootnoteParseBlock GM.model.FootnoteParse GM.model.FootnoteI.
Require Import GM.gen.Tables GM.gen.Regexes.
Require Import GM.proofs.MiscProofs GM.proofs.ReaderProofs GM.proofs.ParseInv.
Require Import GM.proofs.ParseBlocksTotalSpec GM.proofs.ParseBlocksTotal.
Require GM.proofs.FootnoteWfTotBlkSpec GM.proofs.FootnoteWfTotBlkOpenI GM.proofs.FootnoteWfTotBlkOpenB GM.proofs.FootnoteWfTotBlkDrive.
From Coq Require Import ZArith Lia.
Open Scope Z_scope.

(* the two copies of TblOK are the same definition *)
Lemma TblOK_fork space_table : TblOK space_table -> FootnoteWfTotBlkSpec.TblOK space_table.
Proof. intros H. exact H. Qed.

Theorem parse_blocksF_total : forall space_table punct_table norm re_t1o re_t1c re_t2 re_t3 re_t4 re_t5 re_t6 re_t7 allowed_tags src,
  TblOK space_table -> bytes_ok src ->
  exists x, parse_blocksF space_table punct_table norm re_t1o re_t1c re_t2 re_t3 re_t4 re_t5 re_t6 re_t7 allowed_tags src = Ok x.
Proof.
  intros space_table punct_table norm re_t1o re_t1c re_t2 re_t3 re_t4 re_t5 re_t6 re_t7 allowed_tags src tbl _.
  pose proof (TblOK_fork _ tbl) as tbl'.
  destruct (FootnoteWfTotBlkDrive.parse_blocksF_ok space_table punct_table norm re_t1o re_t1c re_t2 re_t3 re_t4 re_t5 re_t6 re_t7
              allowed_tags src tbl'
              (FootnoteWfTotBlkOpenB.open_blocksF_ok space_table punct_table norm re_t1o re_t1c re_t2 re_t3 re_t4 re_t5 re_t6 re_t7
                 allowed_tags src tbl')) as [x [E _]].
  exists x. exact E.
Qed.

Corollary ParseBlocksF_total : forall src, bytes_ok src ->
  exists x, parse_blocksF space_table punct_table ToLinkReference
              re_htmlBlockType1Open re_htmlBlockType1Close re_htmlBlockType2Open re_htmlBlockType3Open
              re_htmlBlockType4Open re_htmlBlockType5Open re_htmlBlockType6 re_htmlBlockType7 allowed_block_tags src = Ok x.
Proof.
  intros src Hb. exact (parse_blocksF_total _ _ _ _ _ _ _ _ _ _ _ _ src space_table_ok Hb).
Qed.
