(* C01 (inline phase): the inline-phase model never panics and never runs out of fuel on a block
   whose lines satisfy lines_ok.  Hypotheses about the tables may be added as Section Hypotheses
   when a proof needs them; each must then be discharged for the tables regenerated from the code
   in the corollary at the end (by vm_compute). *)
Require Import GM.model.Base GM.model.Util GM.model.UtilI GM.model.Reader GM.model.ReaderSpec GM.model.Blocks GM.model.ListItem
               GM.model.LeafBlocks GM.model.CodeSpan GM.model.LinkDest GM.model.Regex GM.model.Delim GM.model.DelimI GM.model.HtmlWriter
               GM.model.Html GM.model.HtmlSpec GM.model.BlockParse GM.model.InlineParse GM.model.ParseI.
Require Import GM.gen.Tables GM.gen.Regexes.
Require Import GM.proofs.MiscProofs GM.proofs.ReaderProofs GM.proofs.BReaderProofs GM.proofs.BlockRangeProofs GM.proofs.ParseInv.
(* helper libraries, in compile order: ParseInlineTotalHeap, ParseInlineTotalDelim, ParseInlineTotalEmph,
   ParseInlineTotalLabel, ParseInlineTotalCtx, ParseInlineTotalTree, ParseInlineTotalReader, ParseInlineTotalReader2,
   ParseInlineTotalParsers, ParseInlineTotalLink, ParseInlineTotalDrive *)
Require Import GM.proofs.ParseInlineTotalReader2 GM.proofs.ParseInlineTotalParsers GM.proofs.ParseInlineTotalLink
               GM.proofs.ParseInlineTotalDrive.
From Coq Require Import ZArith Lia.
Open Scope Z_scope.

Section S.
Variable space_table punct_table : list N.
Variable norm : bytes -> bytes.
Variable url_table email_table : list N.
Variable re_email_domain re_open_tag re_close_tag : re.
Variable punct_rune space_rune : N -> bool.
Notation IC := (inline_children space_table punct_table norm url_table email_table
                  re_email_domain re_open_tag re_close_tag punct_rune space_rune).

(* The two regular expressions of raw_html.go must not match the empty string: the raw HTML parser
   returns a node whenever they match, and a node over zero bytes would make parseBlock retry at the
   same position for ever.  Without these hypotheses the statement is false: with
   re_open_tag := RCap 0 REmpty, src = "<a" ([60;97]), lines = [mkseg 0 2] and the regenerated tables
   the model returns OutOfFuel (checked with vm_compute).  Both hold by computation for the
   regenerated regular expressions (see the corollary). *)
Hypothesis Hopen : re_nonempty re_open_tag = true.
Hypothesis Hclose : re_nonempty re_close_tag = true.

Theorem inline_children_total : forall refs src lines,
  bytes_ok src -> lines_ok src lines -> exists ts, IC refs src lines = Ok ts.
Proof.
  apply inline_children_total_of_link; [exact Hopen|exact Hclose|].
  intros refs src segs first Hfirst s dl ll Iv Hin.
  exact (link_parse_spec src segs first Hfirst space_table punct_table norm refs s dl ll Iv Hin).
Qed.

End S.

Corollary InlineChildren_total : forall refs src lines,
  bytes_ok src -> lines_ok src lines -> exists ts, InlineChildren refs src lines = Ok ts.
Proof.
  intros refs src lines Hsrc Hlines. unfold InlineChildren.
  apply inline_children_total; [vm_compute; reflexivity|vm_compute; reflexivity|exact Hsrc|exact Hlines].
Qed.
