(* C01 (inline phase): the inline-phase model never panics and never runs out of fuel on a block
   whose lines satisfy lines_ok.  Hypotheses about the tables may be added as Section Hypotheses
   when a proof needs them; each must then be discharged for the tables regenerated from the code
   in the corollary at the end (by vm_compute). *)
Require Import GM.model.Base GM.model.Util GM.model.UtilI GM.model.Reader GM.model.ReaderSpec GM.model.Blocks GM.model.ListItem
               GM.model.LeafBlocks GM.model.CodeSpan GM.model.LinkDest GM.model.Regex GM.model.Delim GM.model.DelimI GM.model.HtmlWriter
               GM.model.Html GM.model.HtmlSpec GM.model.BlockParse GM.model.InlineParse GM.model.ParseI.
Require Import GM.gen.Tables GM.gen.Regexes.
Require Import GM.proofs.MiscProofs GM.proofs.ReaderProofs GM.proofs.BReaderProofs GM.proofs.BlockRangeProofs GM.proofs.ParseInv.
From Coq Require Import ZArith Lia.
Open Scope Z_scope.

Section S.
Variable space_table punct_table : list N.
Variable norm : bytes -> bytes.
Variable url_table email_table : list N.
Variable re_email_domain re_open_tag re_close_tag : re.
Variable punct_rune space_rune : N -> bool.
Notation IC := (inline_children space_table punct_table norm url_table email_table
                  re_email_domain re_open_tag re_close_tag punct_rune space_rune).

Theorem inline_children_total : forall refs src lines,
  bytes_ok src -> lines_ok src lines -> exists ts, IC refs src lines = Ok ts.
Proof. Admitted.

End S.

Corollary InlineChildren_total : forall refs src lines,
  bytes_ok src -> lines_ok src lines -> exists ts, InlineChildren refs src lines = Ok ts.
Proof. Admitted.
