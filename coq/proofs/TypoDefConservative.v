(* C11 for the model of the parser with extension.Typographer and extension.DefinitionList
   (model/TypoDefI.v): with both switches off it is the model of the default parser; the
   Typographer does not change the tree of a source without any of the bytes 39 34 44 45 46 60 62
   (apostrophe, double quote, comma, hyphen, full stop, less-than, greater-than); the
   DefinitionList does not change the tree of a source without ':'. *)
Require Import GM.model.Base GM.model.Util GM.model.Reader GM.model.HtmlWriter GM.model.Html GM.model.HtmlI
               GM.model.BlockParse GM.model.InlineParse GM.model.ParseI GM.model.TypoDefParseT GM.model.TypoDefParseD GM.model.TypoDefParse GM.model.TypoDefI.
Require Import GM.model.UtilI GM.model.DelimI GM.gen.Tables GM.gen.Regexes.
Require Import GM.proofs.ParseInv.
Require Import GM.proofs.GfmConservativeDefs GM.proofs.GfmConservativeTree
               GM.proofs.TypoDefConservativeInl GM.proofs.TypoDefConservativeTypo GM.proofs.TypoDefConservativeTree
               GM.proofs.TypoDefConservativeBlkInv GM.proofs.TypoDefConservativeBlk GM.proofs.TypoDefConservativeDef.
From Coq Require Import List NArith ZArith Bool.
Import ListNotations.
Open Scope N_scope.

Definition td_none : tcfg := {| t_typo := false; t_deflist := false |}.
Definition with_typo (tc : tcfg) (b : bool) : tcfg := {| t_typo := b; t_deflist := t_deflist tc |}.
Definition with_deflist (tc : tcfg) (b : bool) : tcfg := {| t_typo := t_typo tc; t_deflist := b |}.
Definition lacks_all (cs : list N) (src : bytes) : Prop := forall c, In c cs -> ~ In c src.

(* ================= both extensions off ================= *)
(* the block phase with the DefinitionList parsers off is the block phase of the default parser
   (TypoDefConservativeBlk*.v), its heap has no definition list node, so to_treeD is to_tree
   (TypoDefConservativeTree.v); the inline phase with the Typographer off is the inline phase of
   the default parser and hands the quote counters on (TypoDefConservativeInl.v) *)
Theorem typodef_none_is_default : forall src, ParseTreeTD td_none src = ParseTree src.
Proof.
  intros src. unfold ParseTreeTD, parse_treeTD, parse_blocks_treeTD, ParseTree, ParseBlocksTree, ParseBlocks.
  cbn [t_deflist t_typo td_none]. rewrite parse_blocksD_off.
  destruct (parse_blocks _ _ _ _ _ _ _ _ _ _ _ _ src) as [s| |] eqn:Es; cbn [bind]; try reflexivity.
  rewrite (to_treeD_core src (s_h s) (parse_blocks_dheap _ _ _ _ _ _ _ _ _ _ _ _ _ _ Es)).
  destruct (to_tree (S (length (s_h s))) src (s_h s) 0%nat) as [t| |] eqn:Et; cbn [bind]; try reflexivity.
  rewrite (attach_inlinesTD_core _ (InlineChildren (c_refs (s_c s)) src)).
  - destruct (attach_inlines (InlineChildren (c_refs (s_c s)) src) t) as [t'| |]; reflexivity.
  - intros cnt lines. unfold InlineChildren. apply inline_childrenT_core.
  - eapply to_tree_bkinds. exact Et.
Qed.

(* ================= the DefinitionList ================= *)
(* the switch is read in the parser table at the trigger ':' only (candidatesD), and no line of a
   source without ':' has one (TypoDefConservativeDef*.v); the hypothesis bytes_ok is not used *)
Theorem deflist_conservative : forall tc src, bytes_ok src -> lacks_all [58] src ->
  ParseTreeTD (with_deflist tc true) src = ParseTreeTD (with_deflist tc false) src.
Proof.
  intros tc src _ Hl. unfold ParseTreeTD, parse_treeTD, parse_blocks_treeTD. cbn [t_deflist t_typo with_deflist].
  rewrite parse_blocksD_deflist; [reflexivity|]. apply Hl. left. reflexivity.
Qed.

(* ================= the Typographer ================= *)
(* The statement of the skeleton,

     Theorem typographer_conservative : forall tc src, bytes_ok src -> lacks_all [39; 34; 45; 46; 60; 62] src ->
       ParseTreeTD (with_typo tc true) src = ParseTreeTD (with_typo tc false) src.

   is FALSE as written (UNPROVED, counterexample below): the typographer parser is also registered on ',' (44), where it never yields a node,
   but parseBlock flushes the text in front of a character some parser is registered on
   (MergeOrAppendTextSegment) and continues with a new segment, and the rest of the line is
   appended as a Text node of its own (AppendChild, no merge).  For the source "a,b" the
   paragraph gets the two Text nodes "a" and ",b" with the Typographer and the one Text node
   "a,b" without it: *)
Lemma typographer_conservative_counterexample :
  bytes_ok [97; 44; 98] /\ lacks_all [39; 34; 45; 46; 60; 62] [97; 44; 98] /\
  forall tc, ParseTreeTD (with_typo tc true) [97; 44; 98] <> ParseTreeTD (with_typo tc false) [97; 44; 98].
Proof.
  split; [reflexivity|]. split.
  - intros c Hc Hin. cbn [In] in Hc, Hin.
    destruct Hin as [<-|[<-|[<-|[]]]]; (destruct Hc as [Hc|[Hc|[Hc|[Hc|[Hc|[Hc|[]]]]]]]; discriminate Hc).
  - intros [ty [|]]; unfold with_typo; cbn [t_deflist]; vm_compute; intros H; discriminate H.
Qed.

(* With the comma among the excluded bytes the statement holds, for every source (bytes_ok is
   not needed): *)
Theorem typographer_conservative_comma : forall tc src, lacks_all [39; 34; 44; 45; 46; 60; 62] src ->
  ParseTreeTD (with_typo tc true) src = ParseTreeTD (with_typo tc false) src.
Proof.
  intros tc src Hl.
  assert (Hok : forall c, In c src -> okbyte c).
  { intros c Hc. unfold okbyte.
    repeat split; intros ->; (eapply Hl; [|exact Hc]); cbn [In]; tauto. }
  unfold ParseTreeTD, parse_treeTD, parse_blocks_treeTD. cbn [t_deflist t_typo with_typo].
  apply gc_bind_ext. intros [t refs] _.
  rewrite (attach_inlinesTD_ext _ _ (fun cnt lines =>
    inline_childrenT_typo _ _ _ _ _ _ _ _ _ _ _ _ _ _ refs cnt src lines Hok)).
  reflexivity.
Qed.
