(* C11 for the GFM parser model, inline phase: with the Strikethrough, TaskList and Linkify
   extensions off, the generalised copy of the inline phase (model/InlineParseX.v) is the inline
   phase of the default parser (model/InlineParse.v).  The copy differs from the core where the
   core heap has a Delimiter node with the character '~' or an Emphasis node of level <= 0
   (there is none: gheap, GfmConservativePrim.v) and in an extra read of the parent node (which
   exists: the heap does not shrink, GfmConservativePrimLen.v). *)
Require Import GM.model.Base GM.model.Util GM.model.Reader GM.model.Blocks GM.model.ListItem GM.model.Regex GM.model.Delim GM.model.HtmlWriter GM.model.Html
               GM.model.BlockParse GM.model.InlineParse GM.model.InlineParseX.
Require Import GM.proofs.GfmConservativeDefs GM.proofs.GfmConservativePrim GM.proofs.GfmConservativePrimLen.
From Coq Require Import List ZArith NArith Bool Lia.
Import ListNotations.
Open Scope Z_scope.


Section Inl.
Variable space_table punct_table : list N.
Variable norm : bytes -> bytes.
Variable refs : list (bytes * (bytes * option bytes)).
Variable url_table email_table : list N.
Variable re_email_domain re_open_tag re_close_tag : re.
Variable punct_rune space_rune : N -> bool.
Variable re_task re_url re_www : re.
Variable xc : xcfg.
Hypothesis xc_strike : x_strike xc = false.
Hypothesis xc_task : x_task xc = false.
Hypothesis xc_linkify : x_linkify xc = false.
Variable in_item : bool.

(* goals of the shape  X = C /\ (forall r, C = Ok r -> Q r)  where X and C start with the same bind *)
Ltac fin := split; [reflexivity|intros ? HH; discriminate HH].
Ltac bstep x E :=
  match goal with
  | |- (bind ?e _ = _) /\ _ => destruct e as [x| |] eqn:E; cbn [bind]; [|fin|fin]
  end.

Lemma nth_error_iset_same h : forall i n m, nth_error h i = Some m -> nth_error (iset h i n) i = Some n.
Proof. induction h as [|x t IH]; intros [|i] n m H; cbn in *; try discriminate; eauto. Qed.
Lemma nth_error_iset_other h : forall i n j, j <> i -> nth_error (iset h i n) j = nth_error h j.
Proof. induction h as [|x t IH]; intros [|i] n [|j] H; cbn; auto; try congruence. Qed.

(* a delimiter stays a delimiter (with its character) when characters are consumed *)
Lemma consume_chars_dget h d n h' : consume_chars h d n = Ok h' ->
  (exists x, dget h' d = Ok x) /\ (forall o x, dget h o = Ok x -> exists x', dget h' o = Ok x').
Proof.
  unfold consume_chars. intros H. gc_bind H nd End. unfold iget in End.
  destruct (nth_error h d) as [m|] eqn:Em; [|discriminate]. injection End as ->.
  destruct (ik nd) eqn:Ek; try discriminate. injection H as <-.
  assert (Hd : exists x, dget (iset h d (iset_kind nd (IDelim (seg_with_stop s (s_start s + (len - n))) can_open can_close (len - n) orig ch dprev dnext))) d = Ok x).
  { unfold dget, iget. rewrite (nth_error_iset_same h d _ nd Em). cbn [bind ik iset_kind]. eexists. reflexivity. }
  split; [exact Hd|]. intros o x Hx. destruct (Nat.eq_dec o d) as [->|Hne]; [exact Hd|].
  unfold dget, iget in *. rewrite nth_error_iset_other by exact Hne. exists x. exact Hx.
Qed.

Lemma on_match_core ch consume : ch <> 126%N -> on_match ch consume = IEmphasis consume.
Proof. intros H. unfold on_match. destruct (N.eqb_spec ch 126) as [E|_]; [contradiction|reflexivity]. Qed.

Lemma closer_loop_core : forall fuel c closer b, gctx c ->
  closer_loopX fuel c closer b = closer_loop fuel c closer b /\
  (forall c', closer_loop fuel c closer b = Ok c' -> gctx c').
Proof.
  induction fuel as [|f IH]; intros c closer b Hg; cbn [closer_loopX closer_loop]; [fin|].
  destruct closer as [cl|]; [|split; [reflexivity|intros c' E; injection E as <-; exact Hg]].
  bstep x Ex. destruct x as [[[[[[[sg c_open] c_close] c_len] c_orig] c_ch] c_prev] c_next].
  destruct (negb c_close); [apply IH; exact Hg|].
  bstep r Er. destruct r as [found maybe]. destruct found as [[op consume]|].
  - pose proof (find_opener_pos _ _ _ _ _ _ _ _ _ _ _ _ Er) as Hpos.
    bstep h1 Eh1. bstep h2 Eh2.
    assert (Hg2 : gheap h2) by (eapply consume_chars_g; [exact Eh2|]; eapply consume_chars_g; [exact Eh1|exact Hg]).
    destruct (consume_chars_dget _ _ _ _ Eh1) as [[x1 Hx1] _].
    destruct (proj2 (consume_chars_dget _ _ _ _ Eh2) _ _ Hx1) as [x2 Hx2].
    cbn [i_h cx_h]. rewrite Hx2. cbn [bind].
    destruct x2 as [[[[[[[sg2 o_open] o_close] o_len] o_orig] o_ch] o_prev] o_next].
    rewrite (on_match_core o_ch consume (dget_ch_g _ _ _ _ _ _ _ _ _ _ Hg2 Hx2)).
    destruct (new_inode (cx_h c h2) (IEmphasis consume)) as [c3 node] eqn:En.
    assert (Hg3 : gctx c3) by (eapply new_inode_g; [exact En|apply cx_h_g; exact Hg2|exact Hpos]).
    bstep opn Eopn. destruct (ipar opn) as [parent|]; [|fin].
    bstep child Ech. bstep h4 Eh4. bstep h5 Eh5.
    assert (Hg5 : gheap h5) by (eapply i_insert_after_g; [exact Eh5|]; eapply move_children_g; [exact Eh4|exact Hg3]).
    cbn [i_h cx_h]. bstep od Eod. destruct od as [[[[[[[sg6 a6] b6] l6] g6] ch6] p6] o_next6].
    bstep c7 Ec7.
    assert (Hg7 : gctx c7) by (eapply remove_between_g; [exact Ec7|apply cx_h_g; exact Hg5]).
    bstep od8 Eod8. destruct od8 as [[[[[[[sg8 a8] b8] o_len8] g8] ch8] p8] n8].
    bstep c9 Ec9.
    assert (Hg9 : gctx c9).
    { destruct (o_len8 =? 0); [eapply remove_delimiter_g; [exact Ec9|exact Hg7]|injection Ec9 as <-; exact Hg7]. }
    bstep cd Ecd. destruct cd as [[[[[[[sg10 a10] b10] cl_len] g10] ch10] p10] cl_next].
    destruct (cl_len =? 0).
    + bstep c11 Ec11. apply IH. eapply remove_delimiter_g; [exact Ec11|exact Hg9].
    + apply IH. exact Hg9.
  - bstep c2 Ec2. apply IH.
    destruct (negb maybe && negb c_open); [eapply remove_delimiter_g; [exact Ec2|exact Hg]|injection Ec2 as <-; exact Hg].
Qed.

Lemma process_delimiters_core fuel c b : gctx c ->
  process_delimitersX fuel c b = process_delimiters fuel c b /\
  (forall c', process_delimiters fuel c b = Ok c' -> gctx c').
Proof.
  intros Hg. unfold process_delimitersX, process_delimiters.
  destruct (i_dlast c) as [last|]; [|split; [reflexivity|intros c' E; injection E as <-; exact Hg]].
  bstep closer Ecl. destruct closer as [cl|].
  - destruct (closer_loop_core fuel c (Some cl) b Hg) as [Heq Hinv]. rewrite Heq.
    destruct (closer_loop fuel c (Some cl) b) as [c2| |]; cbn [bind]; [|fin|fin].
    split; [reflexivity|]. intros c' E. eapply clear_delimiters_g; [exact E|]. apply Hinv. reflexivity.
  - split; [reflexivity|]. intros c' E. eapply clear_delimiters_g; [exact E|exact Hg].
Qed.

Lemma process_link_label_core s link last : gst s ->
  process_link_labelX s link last = process_link_label s link last /\
  (forall s', process_link_label s link last = Ok s' -> gst s').
Proof.
  intros Hg. unfold process_link_labelX, process_link_label.
  pose proof (pop_bottom_h (t_c s)) as Hp. destruct (pop_bottom (t_c s)) as [c b]. cbn [fst] in Hp.
  assert (Hgc : gctx c) by (unfold gctx; rewrite Hp; exact Hg).
  destruct (process_delimiters_core (ifuel s) c b Hgc) as [Heq Hinv]. rewrite Heq.
  destruct (process_delimiters (ifuel s) c b) as [c2| |]; cbn [bind]; [|fin|fin].
  bstep nx Enx. bstep h Eh. split; [reflexivity|]. intros s' E. injection E as <-.
  unfold gst. cbn [t_c ist_c i_h cx_h]. eapply move_children_g; [exact Eh|]. apply Hinv. reflexivity.
Qed.

Notation LP := (link_parse space_table punct_table norm refs).
Notation LPX := (link_parseX space_table punct_table norm refs).

Lemma link_parse_core s parent : gst s ->
  LPX s parent = LP s parent /\ (forall r, LP s parent = Ok r -> gst (fst r)).
Proof.
  intros Hg. unfold link_parseX, link_parse. cbv zeta.
  bstep y Ey. destruct y as [[r0 line] segment].
  destruct line as [[|c0 rest]|]; [fin| |fin].
  (* opening a label *)
  assert (Hopen : forall (s1 : ist) start stop im (r : result (ist * option nat)),
    gst s1 ->
    r = (let '(c, st) := new_inode (t_c s1) (ILabel (mkseg start stop) im None None None None) in
         c <- push_label c st ;; r <- b_advance (t_r s1) 1 ;; Ok ({| t_c := c; t_r := r |}, Some st)) ->
    forall q, r = Ok q -> gst (fst q)).
  { intros s1 start stop im r Hg1 -> q E.
    destruct (new_inode (t_c s1) _) as [c st] eqn:En.
    gc_bind E c2 Ec2. gc_bind E r2 Er2. injection E as <-. unfold gst. cbn [fst t_c].
    eapply push_label_g; [exact Ec2|]. eapply new_inode_g; [exact En|exact Hg1|exact I]. }
  destruct (N.eqb c0 33).
  { destruct rest as [|c1 rest']; [split; [reflexivity|intros q E; injection E as <-; exact Hg]|].
    destruct (N.eqb c1 91); [|split; [reflexivity|intros q E; injection E as <-; exact Hg]].
    bstep r1 Er1. split; [reflexivity|]. eapply Hopen; [|reflexivity].
    unfold gst. cbn [t_c ist_r]. rewrite push_bottom_h. exact Hg. }
  destruct (N.eqb c0 91).
  { split; [reflexivity|]. eapply Hopen; [|reflexivity].
    unfold gst. cbn [t_c ist_r ist_c]. rewrite push_bottom_h. exact Hg. }
  cbn [t_c ist_r].
  destruct (i_labels (t_c s)) as [tlist|]; [|split; [reflexivity|intros q E; injection E as <-; exact Hg]].
  bstep x Ex. destruct x as [[[[[x1 x2] x3] x4] x5] tl_last].
  destruct tl_last as [last|].
  2:{ split; [reflexivity|]. intros q E. injection E as <-. unfold gst. cbn [fst t_c ist_c]. rewrite pop_bottom_h. exact Hg. }
  bstep r1 Er1. cbn [t_c ist_r t_r]. bstep c1 Ec1.
  assert (Hg1 : gctx c1) by (eapply remove_label_g; [exact Ec1|exact Hg]).
  cbn [t_c ist_c t_r].
  (* every later state before the link node has the heap of c1 *)
  assert (Hfail : forall sx, t_c sx = c1 -> forall q, label_fail sx last = Ok q -> gst (fst q)).
  { intros sx Hc [s' res] E. cbn [fst]. eapply label_fail_g; [|exact E]. unfold gst. rewrite Hc. exact Hg1. }
  bstep len Elen.
  destruct (998 <? len); [split; [reflexivity|]; apply Hfail; reflexivity|].
  bstep lx Elx. destruct lx as [[[[[lsg is_image] y3] y4] y5] y6].
  bstep ln Eln. bstep lpar Elpar. bstep lparn Elparn. bstep has_link Ehl.
  destruct has_link; [split; [reflexivity|]; apply Hfail; reflexivity|].
  bstep pk Epk.
  match goal with |- (bind ?e _ = _) /\ _ =>
    assert (Ho : forall o, e = Ok o -> match o with inl sx => t_c sx = c1 | inr (sx, _) => t_c sx = c1 end) end.
  { intros o E. destruct (N.eqb pk 40).
    - gc_bind E p Ep. destruct p as [r2 res]. injection E as <-. reflexivity.
    - destruct (N.eqb pk 91).
      + gc_bind E p Ep. destruct p as [[r2 res] hv]. destruct res; [injection E as <-; reflexivity|].
        destruct hv; injection E as <-; reflexivity.
      + injection E as <-. reflexivity. }
  bstep o Eo. specialize (Ho o eq_refl).
  destruct o as [sx|[sx res]]; [split; [reflexivity|]; apply Hfail; exact Ho|].
  match goal with |- (bind ?e _ = _) /\ _ =>
    assert (Hf : forall o, e = Ok o -> match o with inl sy => t_c sy = c1 | inr (sy, _) => t_c sy = c1 end) end.
  { intros o E. destruct res as [dt|]; [injection E as <-; exact Ho|].
    gc_bind E r3 Er3. gc_bind E v Ev. cbn [t_r ist_r] in E. destruct (999 <? zlen v); [injection E as <-; exact Ho|].
    destruct (lookup_ref norm refs v); injection E as <-; exact Ho. }
  bstep fn Efn. specialize (Hf fn eq_refl).
  destruct fn as [sy|[sy [dest title]]]; [split; [reflexivity|]; apply Hfail; exact Hf|].
  destruct (new_inode (t_c sy) (ILink dest title)) as [c2 link] eqn:En2.
  assert (Hg2 : gst (ist_c sy c2)).
  { unfold gst. cbn [t_c ist_c]. eapply new_inode_g; [exact En2|rewrite Hf; exact Hg1|exact I]. }
  destruct (process_link_label_core (ist_c sy c2) link last Hg2) as [Heq Hinv]. rewrite Heq.
  destruct (process_link_label (ist_c sy c2) link last) as [s3| |]; cbn [bind]; [|fin|fin].
  specialize (Hinv s3 eq_refl).
  bstep ln2 Eln2. bstep lpar2 Elpar2. bstep h4 Eh4.
  assert (Hg4 : gheap h4) by (eapply i_remove_g; [exact Eh4|exact Hinv]).
  cbn [t_c ist_c].
  destruct is_image; [|split; [reflexivity|intros q E; injection E as <-; unfold gst; cbn [fst t_c ist_c i_h cx_h]; exact Hg4]].
  destruct (new_inode (cx_h (t_c s3) h4) (IImage dest title)) as [c5 img] eqn:En5.
  assert (Hg5 : gctx c5) by (eapply new_inode_g; [exact En5|apply cx_h_g; exact Hg4|exact I]).
  bstep lk Elk.
  assert (Hmv : forall l h h', (fix mv (l : list nat) (h : iheap) {struct l} : result iheap :=
            match l with [] => Ok h | x :: t => h <- i_append h img x ;; mv t h end) l h = Ok h' -> gheap h -> gheap h').
  { induction l as [|x t IHl]; intros h h' E Hh; [injection E as <-; exact Hh|].
    gc_bind E h1 Eh1. eapply IHl; [exact E|]. eapply i_append_g; [exact Eh1|exact Hh]. }
  bstep h6 Eh6. split; [reflexivity|]. intros q E. injection E as <-. unfold gst. cbn [fst t_c ist_c i_h cx_h].
  eapply Hmv; [exact Eh6|exact Hg5].
Qed.

Notation IP := (ip_parse space_table punct_table norm url_table email_table re_email_domain re_open_tag re_close_tag punct_rune space_rune refs).
Notation IPX := (ip_parseX space_table punct_table norm url_table email_table re_email_domain re_open_tag re_close_tag punct_rune space_rune re_task re_url re_www refs).
Notation TI := (try_inline space_table punct_table norm url_table email_table re_email_domain re_open_tag re_close_tag punct_rune space_rune refs).
Notation TIX := (try_inlineX space_table punct_table norm url_table email_table re_email_domain re_open_tag re_close_tag punct_rune space_rune re_task re_url re_www refs).
Notation SL := (scan_line space_table punct_table norm url_table email_table re_email_domain re_open_tag re_close_tag punct_rune space_rune refs).
Notation SLX := (scan_lineX xc space_table punct_table norm url_table email_table re_email_domain re_open_tag re_close_tag punct_rune space_rune re_task re_url re_www refs).

Definition liftres (y : ist * option nat) : ist * option (nat * bool) :=
  (fst y, match snd y with Some n => Some (n, false) | None => None end).

Lemma ip_parse_core p s parent : gst s ->
  IPX in_item (XCore p) s parent = (y <- IP p s parent ;; Ok (liftres y)) /\
  (forall r, IP p s parent = Ok r -> gst (fst r)).
Proof.
  intros Hg. destruct p; unfold ip_parseX, ip_parse; cbv zeta.
  - split; [reflexivity|]. intros [s' res] E. eapply code_span_parse_s_g; [exact Hg|exact E].
  - destruct (link_parse_core s parent Hg) as [Heq Hinv]. rewrite Heq. split; [reflexivity|exact Hinv].
  - split; [reflexivity|]. intros [s' res] E. eapply autolink_parse_g; [exact Hg|exact E].
  - split; [reflexivity|]. intros [s' res] E. eapply raw_html_parse_g; [exact Hg|exact E].
  - split; [reflexivity|]. intros [s' res] E. eapply emphasis_parse_g; [exact Hg|exact E].
Qed.

Lemma try_inline_core : forall ips s parent sl sp, gst s ->
  TIX in_item (map XCore ips) s parent sl sp = (y <- TI ips s parent sl sp ;; Ok (liftres y)) /\
  (forall r, TI ips s parent sl sp = Ok r -> gst (fst r)).
Proof.
  induction ips as [|p rest IH]; intros s parent sl sp Hg; cbn [map try_inlineX try_inline].
  - split; [reflexivity|]. intros r E. injection E as <-. exact Hg.
  - destruct (ip_parse_core p s parent Hg) as [Heq Hinv]. rewrite Heq.
    destruct (IP p s parent) as [[s1 n1]| |]; cbn [bind]; [|fin|fin].
    specialize (Hinv _ eq_refl). cbn [fst] in Hinv. unfold liftres at 1. cbn [fst snd].
    destruct n1 as [n1|].
    + split; [reflexivity|]. intros r E. injection E as <-. exact Hinv.
    + bstep r1 Er1. apply IH. unfold gst. cbn [t_c ist_r]. exact Hinv.
Qed.

Lemma inline_parsersX_core c : inline_parsersX xc c = map XCore (inline_parsers c).
Proof.
  unfold inline_parsersX, inline_parsers. rewrite xc_strike, xc_task, xc_linkify.
  destruct (N.eqb c 96); [reflexivity|]. destruct (N.eqb c 91); [rewrite orb_true_r; reflexivity|].
  rewrite orb_false_r. destruct (N.eqb c 33 || N.eqb c 93); [reflexivity|].
  destruct (N.eqb c 60); [reflexivity|]. destruct (N.eqb c 42 || N.eqb c 95); [reflexivity|].
  destruct (N.eqb c 126); [reflexivity|]. destruct (N.eqb c 32 || N.eqb c 40); reflexivity.
Qed.

Definition liftx (s : ist) : xst := {| xs_s := s; xs_flushed := None; xs_http := [] |}.
Definition lift_scan (y : (ist * bool) + (ist * Z * seg)) : (xst * bool) + (xst * Z * seg) :=
  match y with inl (s, e) => inl (liftx s, e) | inr (s, n, sp) => inr (liftx s, n, sp) end.
Definition scan_state (y : (ist * bool) + (ist * Z * seg)) : ist :=
  match y with inl (s, _) => s | inr (s, _, _) => s end.
Definition inv (s : ist) (parent : nat) : Prop := gst s /\ (parent < length (i_h (t_c s)))%nat.

Lemma scan_line_core : forall fuel line i ll n esc sp s parent, inv s parent ->
  SLX in_item fuel line i ll n esc sp (liftx s) parent = (y <- SL fuel line i ll n esc sp s parent ;; Ok (lift_scan y)) /\
  (forall y, SL fuel line i ll n esc sp s parent = Ok y -> inv (scan_state y) parent).
Proof.
  induction fuel as [|f IH]; intros line i ll n esc sp s parent Hinv; cbn [scan_lineX scan_line]; [fin|].
  destruct (ll <=? i); [split; [reflexivity|intros y E; injection E as <-; exact Hinv]|].
  destruct (zskip i line) as [|c tl]; [split; [reflexivity|intros y E; injection E as <-; exact Hinv]|].
  destruct (N.eqb c 10); [split; [reflexivity|intros y E; injection E as <-; exact Hinv]|].
  cbv zeta. rewrite inline_parsersX_core.
  set (isspace := is_space space_table c && negb (N.eqb c 13) && negb false).
  set (consult := is_punct punct_table c && negb esc || isspace || (i =? 0)).
  set (pchar := if isspace || (i =? 0) && negb (is_punct punct_table c) then 32%N else c).
  set (cips := if consult then inline_parsers pchar else []).
  assert (Hips : (if consult then map XCore (inline_parsers pchar) else []) = map XCore cips)
    by (subst cips; destruct consult; reflexivity).
  rewrite Hips. clear Hips.
  set (RX := match map XCore cips with [] => _ | _ :: _ => _ end).
  set (R := match cips with [] => _ | _ :: _ => _ end).
  assert (HR : RX = (r <- R ;; Ok (match r with inl s1 => inl (liftx s1) | inr (s1, n1, sp1) => inr (liftx s1, n1, sp1) end)) /\
               (forall r, R = Ok r -> inv (match r with inl s1 => s1 | inr (s1, _, _) => s1 end) parent)).
  { subst RX R. destruct cips as [|p0 rest0] eqn:Ecips.
    - cbn [map bind]. split; [reflexivity|]. intros r E. injection E as <-. exact Hinv.
    - assert (Hsp : isspace = false).
      { destruct isspace eqn:Esp; [|reflexivity]. exfalso. subst cips pchar. cbn [orb] in Ecips.
        destruct consult; discriminate Ecips. }
      change (map XCore (p0 :: rest0)) with (XCore p0 :: map XCore rest0).
      cbv iota. change (XCore p0 :: map XCore rest0) with (map XCore (p0 :: rest0)).
      cbn [xs_s liftx].
      bstep rd Erd. cbn [t_r t_c ist_r ist_c].
      match goal with |- (bind ?e _ = _) /\ _ =>
        assert (Ht : forall t, e = Ok t -> inv (fst t) parent) end.
      { intros t E. destruct (negb (i =? 0)).
        - gc_bind E bt Ebt. gc_bind E c' Ec'. injection E as <-. cbn [fst]. destruct Hinv as [Hg Hl]. split.
          + unfold gst. cbn [t_c ist_c]. eapply merge_or_append_g; [exact Ec'|exact Hg].
          + cbn [t_c ist_c]. apply merge_or_append_len in Ec'. cbn [t_c ist_r] in Ec'. lia.
        - injection E as <-. exact Hinv. }
      bstep t Et. specialize (Ht t eq_refl). destruct t as [s1 sp1]. cbn [fst] in Ht. destruct Ht as [Hg1 Hl1].
      destruct (try_inline_core (p0 :: rest0) s1 parent (b_line rd) (b_pos rd) Hg1) as [Heq Hpre]. rewrite Heq.
      destruct (TI (p0 :: rest0) s1 parent (b_line rd) (b_pos rd)) as [[s2 node]| |] eqn:Eti; cbn [bind]; [|fin|fin].
      specialize (Hpre _ eq_refl). cbn [fst] in Hpre. apply try_inline_len in Eti.
      unfold liftres. cbn [fst snd]. destruct node as [nd|].
      + bstep h Eh. split; [reflexivity|]. intros r E. injection E as <-. split.
        * unfold gst. cbn [t_c ist_c i_h cx_h]. eapply i_append_g; [exact Eh|exact Hpre].
        * cbn [t_c ist_c i_h cx_h]. apply i_append_len in Eh. lia.
      + assert (Hpn : exists pn, iget (i_h (t_c s2)) parent = Ok pn).
        { unfold iget. destruct (nth_error (i_h (t_c s2)) parent) as [pn|] eqn:En; [eexists; reflexivity|].
          apply nth_error_None in En. lia. }
        destruct Hpn as [pn Hpn]. rewrite Hpn. cbn [bind]. rewrite Hsp. cbn [andb].
        split; [reflexivity|]. intros r E. injection E as <-. split; [exact Hpre|lia]. }
  destruct HR as [HR1 HR2]. rewrite HR1. clear HR1 RX.
  destruct R as [r| |]; cbn [bind]; [|fin|fin]. specialize (HR2 r eq_refl).
  destruct r as [s1|[[s1 n1] sp1]].
  - split; [reflexivity|]. intros y E. injection E as <-. exact HR2.
  - destruct esc; [apply IH; exact HR2|]. destruct (N.eqb c 92); apply IH; exact HR2.
Qed.

Notation PBL := (parse_block_loop space_table punct_table norm url_table email_table re_email_domain re_open_tag re_close_tag punct_rune space_rune refs).
Notation PBLX := (parse_block_loopX xc space_table punct_table norm url_table email_table re_email_domain re_open_tag re_close_tag punct_rune space_rune re_task re_url re_www refs).

Lemma parse_block_loop_core : forall fuel s parent esc, inv s parent ->
  PBLX in_item fuel (liftx s) parent esc = (s' <- PBL fuel s parent esc ;; Ok (liftx s')) /\
  (forall s', PBL fuel s parent esc = Ok s' -> inv s' parent).
Proof.
  induction fuel as [|f IH]; intros s parent esc Hinv; cbn [parse_block_loopX parse_block_loop]; [fin|].
  cbn [xs_s liftx]. bstep y Ey. destruct y as [[r line] sg0].
  destruct line as [line|]; [|split; [reflexivity|intros s' E; injection E as <-; exact Hinv]].
  match goal with |- context [if ?b then (?x, true, true, false) else ?y] => set (LL := if b then (x, true, true, false) else y) end. destruct LL as [[[line_length hard] visible] soft].
  assert (Hinv0 : inv (ist_r s r) parent) by exact Hinv.
  cbn [xs_s xst_s liftx t_r ist_r].
  change (xst_s (liftx s) (ist_r s r)) with (liftx (ist_r s r)).
  destruct (scan_line_core (S (length line)) line 0 line_length 0 esc (b_pos r) (ist_r s r) parent Hinv0) as [Heq Hpre].
  rewrite Heq. clear Heq.
  destruct (SL (S (length line)) line 0 line_length 0 esc (b_pos r) (ist_r s r) parent) as [z| |]; cbn [bind]; [|fin|fin].
  specialize (Hpre z eq_refl).
  destruct z as [[s1 e1]|[[s1 n1] sp1]]; cbn [lift_scan scan_state] in *.
  - apply IH. exact Hpre.
  - cbn [xs_s liftx]. bstep r1 Er1.
    change (xst_s (liftx s1) (ist_r s1 r1)) with (liftx (ist_r s1 r1)). cbn [xs_s liftx t_r t_c ist_r].
    destruct (negb (b_line r =? b_line r1)); [apply IH; exact Hpre|].
    bstep diff Ed. destruct Hpre as [Hg1 Hl1].
    set (TX := (if hard && visible then _ else _) : result (ictx + ictx * seg)).
    set (T := (if hard && visible then _ else _) : result (ictx * seg)).
    assert (HT : TX = (t <- T ;; Ok (inr t)) /\
                 (forall t, T = Ok t -> gctx (fst t) /\ (length (i_h (t_c s1)) <= length (i_h (fst t)))%nat)).
    { subst TX T. destruct (hard && visible).
      - split; [reflexivity|]. intros t E. injection E as <-. cbn [fst]. split; [exact Hg1|lia].
      - bstep trimmed Etr. destruct (seg_is_empty trimmed).
        2:{ split; [reflexivity|]. intros t E. injection E as <-. cbn [fst]. split; [exact Hg1|lia]. }
        bstep pn Epn. destruct (last_id (ich pn)) as [lst|].
        2:{ split; [reflexivity|]. intros t E. injection E as <-. cbn [fst]. split; [exact Hg1|lia]. }
        bstep ln Eln. destruct (ik ln);
          try (split; [reflexivity|]; intros t E; injection E as <-; cbn [fst]; split; [exact Hg1|lia]).
        destruct (_ && _ && _ && _).
        2:{ split; [reflexivity|]. intros t E. injection E as <-. cbn [fst]. split; [exact Hg1|lia]. }
        bstep ts' Ets. cbn [xs_flushed liftx opt_nat_eqb]. rewrite andb_false_r.
        bstep h Eh. split; [reflexivity|]. intros t E. injection E as <-. cbn [fst i_h cx_h]. split.
        + eapply iupd_kind_g; [exact Eh|exact Hg1|exact I].
        + eapply iupd_len. exact Eh. }
    destruct HT as [HT1 HT2]. rewrite HT1. clear HT1 TX.
    destruct T as [[c tseg]| |]; cbn [bind]; [|fin|fin]. specialize (HT2 _ eq_refl). cbn [fst] in HT2. destruct HT2 as [Hgc Hlc].
    destruct (new_inode c (IText tseg soft hard false)) as [c2 tx] eqn:En.
    bstep h Eh. bstep r2 Er2. cbn [xst_s liftx xs_flushed xs_http].
    change {| xs_s := {| t_c := cx_h c2 h; t_r := r2 |}; xs_flushed := None; xs_http := [] |}
      with (liftx {| t_c := cx_h c2 h; t_r := r2 |}).
    apply IH. split.
    + unfold gst. cbn [t_c i_h cx_h]. eapply i_append_g; [exact Eh|]. eapply new_inode_g; [exact En|exact Hgc|exact I].
    + cbn [t_c i_h cx_h]. apply i_append_len in Eh. apply new_inode_len in En. lia.
Qed.

Notation PB := (parse_block space_table punct_table norm url_table email_table re_email_domain re_open_tag re_close_tag punct_rune space_rune refs).
Notation PBX := (parse_blockX xc space_table punct_table norm url_table email_table re_email_domain re_open_tag re_close_tag punct_rune space_rune re_task re_url re_www refs).

Lemma parse_block_core src lines :
  PBX in_item src lines = (c <- PB src lines ;; Ok (c, [])) /\ (forall c, PB src lines = Ok c -> gctx c).
Proof.
  unfold parse_blockX, parse_block. bstep r Er.
  assert (Hinv : inv {| t_c := init_ictx; t_r := r |} 0%nat).
  { split; [|cbn; lia]. unfold gst, gheap. cbn [t_c init_ictx i_h]. constructor; [exact I|constructor]. }
  change {| xs_s := {| t_c := init_ictx; t_r := r |}; xs_flushed := None; xs_http := [] |}
    with (liftx {| t_c := init_ictx; t_r := r |}).
  destruct (parse_block_loop_core (2 * length src + 2 * length lines + 8) _ 0%nat false Hinv) as [Heq Hpre].
  rewrite Heq. clear Heq.
  destruct (PBL (2 * length src + 2 * length lines + 8) {| t_c := init_ictx; t_r := r |} 0%nat false) as [s1| |];
    cbn [bind]; [|fin|fin].
  destruct (Hpre s1 eq_refl) as [Hg1 _]. cbn [xs_s liftx xs_http].
  destruct (process_delimiters_core (ifuel s1) (t_c s1) BNil Hg1) as [Heq2 Hpre2]. rewrite Heq2.
  destruct (process_delimiters (ifuel s1) (t_c s1) BNil) as [c2| |]; cbn [bind]; [|fin|fin].
  specialize (Hpre2 c2 eq_refl).
  split; [reflexivity|]. intros c E. eapply link_close_block_g; [exact E|exact Hpre2].
Qed.

Lemma itree_core src h : gheap h -> forall fuel i, itreeX fuel src h [] i = itree fuel src h i.
Proof.
  intros Hg. induction fuel as [|f IH]; intros i; cbn [itreeX itree]; [reflexivity|].
  destruct (iget h i) as [n| |] eqn:En; cbn [bind]; try reflexivity.
  pose proof (iget_g h i n Hg En) as Hk.
  assert (Hm : map_res (itreeX f src h []) (ich n) = map_res (itree f src h) (ich n)).
  { generalize (ich n). induction l as [|x r IHl]; cbn [map_res]; [reflexivity|]. rewrite IH, IHl. reflexivity. }
  rewrite Hm. destruct (map_res (itree f src h) (ich n)) as [kids| |]; cbn [bind]; try reflexivity.
  destruct (ik n); try reflexivity.
  cbn [gk] in Hk.
  destruct (Z.eqb_spec level 0) as [E|_]; [lia|]. destruct (Z.eqb_spec level (-1)) as [E|_]; [lia|].
  destruct (Z.eqb_spec level (-2)) as [E|_]; [lia|]. reflexivity.
Qed.

Theorem inline_children_core src lines :
  inline_childrenX xc space_table punct_table norm url_table email_table re_email_domain re_open_tag re_close_tag
                   punct_rune space_rune re_task re_url re_www refs in_item src lines =
  inline_children space_table punct_table norm url_table email_table re_email_domain re_open_tag re_close_tag
                  punct_rune space_rune refs src lines.
Proof.
  unfold inline_childrenX, inline_children.
  destruct (parse_block_core src lines) as [Heq Hpre]. rewrite Heq.
  destruct (PB src lines) as [c| |]; cbn [bind]; try reflexivity.
  rewrite (itree_core src (i_h c) (Hpre c eq_refl)). reflexivity.
Qed.
End Inl.
