(* C16 for the Footnote parser model, part 2: the insertion sort of the AST transformer
   (model/FootnoteParse.v sort_children = ast.BaseNode.SortChildren with the comparator of the
   footnote transformer) yields a sorted permutation. *)
Require Import GM.model.Base GM.model.FootnoteParse.
From Coq Require Import List ZArith Lia Bool Permutation Sorted.
Import ListNotations.
Open Scope Z_scope.

Definition keys (l : list (nat * Z)) : list Z := map snd l.

Lemma sort_insert_after_spec : forall rest c cur, snd c < snd cur ->
  StronglySorted Z.le (keys (c :: rest)) ->
  StronglySorted Z.le (keys (sort_insert_after c rest cur)) /\
  Permutation (sort_insert_after c rest cur) (cur :: c :: rest).
Proof.
  induction rest as [|nx rest' IH]; intros c cur Hlt Hs; cbn [sort_insert_after].
  - split; [|apply perm_swap]. cbn [keys map]. constructor; [constructor; constructor|]. constructor; [lia|constructor].
  - unfold fn_cmp. cbn [keys map] in Hs. apply StronglySorted_inv in Hs. destruct Hs as [Hs Hall].
    destruct (Z.ltb_spec (snd nx) (snd cur)) as [Hn|Hn].
    + change (-1 <? 0) with true. cbv iota.
      destruct (IH nx cur Hn Hs) as [S1 P1]. split.
      * cbn [keys map]. constructor; [exact S1|]. apply Forall_forall. intros z Hz.
        apply (Permutation_in _ (Permutation_map snd P1)) in Hz. cbn [map] in Hz.
        destruct Hz as [<-|Hz]; [lia|]. rewrite Forall_forall in Hall. apply Hall. exact Hz.
      * eapply perm_trans; [apply perm_skip; exact P1|]. apply perm_swap.
    + change (1 <? 0) with false. cbv iota. split; [|apply perm_swap].
      cbn [keys map]. constructor.
      * constructor; [exact Hs|]. apply StronglySorted_inv in Hs. destruct Hs as [_ Hall2].
        constructor; [lia|]. eapply Forall_impl; [|exact Hall2]. cbv beta. intros a Ha. lia.
      * constructor; [lia|exact Hall].
Qed.

Lemma sort_step_spec sorted cur : StronglySorted Z.le (keys sorted) ->
  StronglySorted Z.le (keys (sort_step sorted cur)) /\ Permutation (sort_step sorted cur) (cur :: sorted).
Proof.
  intros Hs. unfold sort_step. destruct sorted as [|s0 rest].
  - split; [cbn [keys map]; constructor; constructor|apply Permutation_refl].
  - unfold fn_cmp. destruct (Z.ltb_spec (snd s0) (snd cur)) as [Hlt|Hge].
    + change (0 <=? -1) with false. cbv iota. apply sort_insert_after_spec; assumption.
    + change (0 <=? 1) with true. cbv iota. split; [|apply Permutation_refl].
      cbn [keys map] in *. constructor; [exact Hs|]. apply StronglySorted_inv in Hs. destruct Hs as [_ Hall].
      constructor; [lia|]. eapply Forall_impl; [|exact Hall]. cbv beta. intros a Ha. lia.
Qed.

Lemma sort_fold l : forall acc, StronglySorted Z.le (keys acc) ->
  StronglySorted Z.le (keys (fold_left sort_step l acc)) /\ Permutation (fold_left sort_step l acc) (l ++ acc).
Proof.
  induction l as [|x l IH]; intros acc Hs; cbn [fold_left].
  - split; [exact Hs|apply Permutation_refl].
  - destruct (sort_step_spec acc x Hs) as [S1 P1]. destruct (IH _ S1) as [S2 P2]. split; [exact S2|].
    eapply perm_trans; [exact P2|]. eapply perm_trans; [apply Permutation_app_head; exact P1|].
    cbn [app]. apply Permutation_sym, Permutation_middle.
Qed.

Theorem sort_children_spec l :
  StronglySorted Z.le (keys (sort_children l)) /\ Permutation (sort_children l) l.
Proof.
  unfold sort_children. destruct (sort_fold l [] (SSorted_nil _)) as [S P]. split; [exact S|].
  rewrite app_nil_r in P. exact P.
Qed.
