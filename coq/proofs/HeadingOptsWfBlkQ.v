(* HeadingOptsWf, part Q: the Close functions of the heading parsers with the options
   (model/HeadingOpts.v: parse_last_line_attributes, auto_heading_id, atx_close_h, setext_close_h)
   keep the Range invariant of the block phase. *)
Require Import GM.model.Base GM.model.Util GM.model.Reader GM.model.ReaderSpec GM.model.Blocks GM.model.ListItem
               GM.model.LeafBlocks GM.model.CodeBlock GM.model.LinkDest GM.model.Regex GM.model.HtmlWriter
               GM.model.Html GM.model.HtmlSpec GM.model.Attr GM.model.Ids GM.model.BlockParse GM.model.InlineParse
               GM.model.HeadingOpts.
Require Import GM.proofs.ReaderProofs GM.proofs.BlockRangeProofs GM.proofs.ParseInv
               GM.proofs.ParseBlocksRangeA GM.proofs.HeadingOptsWfBlkB GM.proofs.HeadingOptsWfBlkC
               GM.proofs.HeadingOptsWfBlkD GM.proofs.HeadingOptsWfBlkE
               GM.proofs.HeadingOptsWfBlkG GM.proofs.HeadingOptsWfBlkH GM.proofs.HeadingOptsWfBlkI GM.proofs.HeadingOptsWfBlkJ
               GM.proofs.AttrProofs GM.proofs.IdsProofs GM.proofs.HeadingOptsWfDefs GM.proofs.HeadingOptsWfAttr.
From Coq Require Import ZArith Lia Sorted.
Open Scope Z_scope.

(* what a closing step leaves unchanged *)
Definition cframe (s s' : st) : Prop :=
  c_arr (s_c s') = c_arr (s_c s) /\ c_len (s_c s') = c_len (s_c s) /\ s_r s' = s_r s /\
  (length (s_h s) <= length (s_h s'))%nat.
Lemma cframe_refl s : cframe s s.
Proof. unfold cframe. csplit; auto. Qed.
Lemma cframe_trans a b c : cframe a b -> cframe b c -> cframe a c.
Proof. unfold cframe. intros [H1 [H2 [H3 H4]]] [K1 [K2 [K3 K4]]]. csplit; try congruence. lia. Qed.

Lemma in_mid {X} (A D N : list X) e : In e (A ++ (D ++ [e]) ++ N).
Proof. apply in_or_app. right. apply in_or_app. left. apply in_or_app. right. left. reflexivity. Qed.

Section Scan.
Variable space_table punct_table : list N.
Notation parse_attrs := (ParseAttributesModel space_table punct_table).
Notation last_line_scan := (last_line_scan space_table punct_table).

(* ---------- the scan of the last line ---------- *)
Lemma lls_adv line r n r' : RInv r -> r_src r = line -> 0 <= n -> r_advance r n = Ok r' -> RInv r' /\ r_src r' = line.
Proof.
  intros Hi Hs Hn H. destruct (adv_ok r n r' Hi Hn H) as [H1 [[H2 _] _]]. split; [exact H1|congruence].
Qed.

Lemma lls_inv line : bytes_ok line -> forall fuel r res st_ en res' st' en',
  RInv r -> r_src r = line -> 0 <= st_ <= zlen line -> (forall l, res = Some l -> Forall pattr_ok l) ->
  last_line_scan fuel r res st_ en = Ok (res', st', en') ->
  0 <= st' <= zlen line /\ (forall l, res' = Some l -> Forall pattr_ok l).
Proof.
  intros Hb fuel. induction fuel as [|f IH]; intros r res st_ en res' st' en' Hi Hs Hst Hres H; [discriminate|].
  cbn [HeadingOpts.last_line_scan] in H. bind_inv H c Ec.
  destruct (N.eqb c 255).
  { injection H as <- <- <-. split; assumption. }
  destruct (N.eqb c 92).
  { bind_inv H r1 E1. destruct (lls_adv line r 1 r1 Hi Hs ltac:(lia) E1) as [Hi1 Hs1].
    bind_inv H c2 Ec2. bind_inv H r2 E2.
    assert (RInv r2 /\ r_src r2 = line) as [Hi2 Hs2].
    { destruct (N.eqb c2 123); [eapply lls_adv; [exact Hi1|exact Hs1| |exact E2]; lia|]. injection E2 as <-. auto. }
    eapply IH; [exact Hi2|exact Hs2|exact Hst|exact Hres|exact H]. }
  destruct (N.eqb c 123).
  { bind_inv H z Ez. destruct z as [r2 res2].
    destruct (parse_attrs_RInv space_table punct_table r r2 res2 Hi Ez) as [Hi2 [Hs2 _]].
    bind_inv H r3 E3.
    destruct (set_position_restores r2 (r_line r) (r_pos r) Hi2) as [r3' [E3' [Hi3 [Hs3 _]]]].
    { exists r. csplit; auto. }
    rewrite E3' in E3. injection E3 as ->.
    bind_inv H r4 E4. destruct (lls_adv line r3 1 r4 Hi3 ltac:(congruence) ltac:(lia) E4) as [Hi4 Hs4].
    eapply IH; [exact Hi4|exact Hs4| | |exact H].
    - pose proof (ri_range r Hi) as Hr. rewrite Hs in Hr. exact Hr.
    - intros l ->. eapply parse_attrs_pattr_ok; [exact Hi| |exact Ez]. rewrite Hs. exact Hb. }
  bind_inv H r1 E1. destruct (lls_adv line r 1 r1 Hi Hs ltac:(lia) E1) as [Hi1 Hs1].
  eapply IH; [exact Hi1|exact Hs1|exact Hst|exact Hres|exact H].
Qed.

Lemma new_reader_src line : r_src (new_reader line) = line.
Proof. unfold new_reader. rewrite advance_line_src. reflexivity. Qed.

End Scan.

Lemma sorted_snoc_inv (P : list seg) x : sorted_le (P ++ [x]) ->
  sorted_le P /\ (forall a, In a P -> s_stop a <= s_start x).
Proof.
  unfold sorted_le. induction P as [|p P IH]; cbn [app]; intros H.
  - split; [constructor|intros a []].
  - inversion H as [|? ? Hs Hf]; subst. destruct (IH Hs) as [H1 H2]. split.
    + constructor; [exact H1|]. rewrite Forall_forall in *. intros b Hb. apply Hf. apply in_or_app. left. exact Hb.
    + intros a [<-|Ha]; [|apply H2; exact Ha]. rewrite Forall_forall in Hf. apply Hf. apply in_or_app. right. left. reflexivity.
Qed.

Lemma sorted_snoc' (l : list seg) sg : sorted_le l -> (forall a, In a l -> s_stop a <= s_start sg) -> sorted_le (l ++ [sg]).
Proof.
  unfold sorted_le. induction l as [|p l IH]; cbn [app]; intros H Ha.
  - constructor; constructor.
  - inversion H as [|? ? Hs Hf]; subst. constructor.
    + apply IH; [exact Hs|]. intros a Hin. apply Ha. right. exact Hin.
    + apply Forall_app. split; [exact Hf|]. constructor; [|constructor]. apply Ha. left. reflexivity.
Qed.

Section Shrink.
Variable src : bytes.
Notation fin_linesH := (fin_linesH src).
Notation olineE := (olineE src).

(* shrinking the stop of the last line of a heading *)
Lemma fin_linesH_shrink P x v : fin_linesH (P ++ [x]) -> s_start x <= v <= s_stop x ->
  fin_linesH (P ++ [seg_set_stop x v]).
Proof.
  intros [H1 [H2 H3]] Hv. apply Forall_app in H1. destruct H1 as [H1 Hx]. inversion Hx as [|? ? Hx1 _]; subst.
  apply sorted_segs_iff in H2. destruct H2 as [H2 H2n]. rewrite removelast_last in H2n.
  apply sorted_snoc_inv in H2. destruct H2 as [H2 H2']. rewrite removelast_last in H3.
  split; [|split].
  - apply Forall_app. split; [exact H1|]. constructor; [|constructor].
    destruct Hx1 as (A1 & A2 & A3 & A4). unfold olineE, seg_set_stop. cbn [s_start s_stop s_pad s_fnl]. repeat split; auto; lia.
  - apply sorted_segs_iff. split; [|rewrite removelast_last; exact H2n].
    apply sorted_snoc'; [exact H2|]. intros a Ha. cbn [seg_set_stop s_start]. apply H2'. exact Ha.
  - rewrite removelast_last. exact H3.
Qed.
End Shrink.

Section Q.
Variable hc : hcfg.
Variable space_table punct_table : list N.
Variable norm : bytes -> bytes.
Variable re_t1o re_t1c re_t2 re_t3 re_t4 re_t5 re_t6 re_t7 : re.
Variable allowed_tags : list bytes.
Variable utf8len_table : list N.
Variable spaces : bytes.
Variable src : bytes.
Hypothesis sp32 : is_space space_table 32%N = true.
Set Default Proof Using "All".

Notation CC f := (f space_table punct_table norm re_t1o re_t1c re_t2 re_t3 re_t4 re_t5 re_t6 re_t7 allowed_tags src sp32) (only parsing).
Notation SInv := (SInv space_table src).
Notation HI := (HI space_table src).
Notation nodeP := (nodeP space_table src).
Notation heapS := (heapS space_table src).
Notation Jinv := (Jinv src).
Notation openS := (openS src).
Notation pline := (pline space_table src).
Notation oline := (oline src).
Notation fin_lines := (fin_lines src).
Notation fin := (fin src).
Hypothesis Hsrc : bytes_ok src.
Notation CE f := (f space_table punct_table norm re_t1o re_t1c re_t2 re_t3 re_t4 re_t5 re_t6 re_t7 allowed_tags src sp32) (only parsing).
Notation CJ f := (f space_table punct_table norm re_t1o re_t1c re_t2 re_t3 re_t4 re_t5 re_t6 re_t7 allowed_tags src sp32 Hsrc) (only parsing).
Notation OInv := (OInv space_table src).

Notation fin_linesH := (fin_linesH src).
Notation parse_last_line_attributes := (parse_last_line_attributes space_table punct_table).
Notation auto_heading_id := (auto_heading_id space_table utf8len_table spaces).

(* ---------- changing the lines of a heading that is not opened (any more) ---------- *)
Lemma HI_set_closed_heading b h c A D N node n n' :
  HI b h c A D N -> ~ In node (ids (A ++ D ++ N)) -> nth_error h node = Some n -> bk n = BHeading ->
  same_shape n n' -> nodeP n' -> fin_linesH (blines n') -> HI b (hset h node n') c A D N.
Proof.
  intros [H1 H2 H3 H4 H5] Hni En Kn Hsh Hn' Hf. pose proof Hsh as [Sk [Sp Sc]].
  assert (bk n' = BHeading) as Kn' by congruence.
  constructor.
  - apply Bnd_hset; [exact H1|]. intros Hk. congruence.
  - eapply heapS_hset; eassumption.
  - eapply Jinv_hset; [exact H3|exact En|]. intros _. left. split; intros K; [congruence|exact Hf].
  - eapply openS_hset; [exact H4|exact En|exact Hsh|]. right. split; [intros [Hp|[Ht [y Hy]]]|].
    + apply Hni. eapply in_ids. exact Hp.
    + destruct (os_tmp _ _ _ _ _ _ H4 y Hy) as [tmp [t [E1 [E2 [Kt _]]]]].
      assert (tmp = node) by congruence. subst tmp. assert (t = n) by congruence. subst t. congruence.
    + intros Hp. exfalso. apply Hni. eapply in_ids. exact Hp.
  - exact H5.
Qed.

Lemma seg_value_plain sg : olineE src sg -> seg_value src sg = Ok (sub src (s_start sg) (s_stop sg)) /\
  zlen (sub src (s_start sg) (s_stop sg)) = s_stop sg - s_start sg.
Proof.
  intros (A1 & A2 & A3 & A4). unfold seg_value. rewrite slice_sub by lia. cbn [bind]. rewrite A3, A4. cbn.
  split; [reflexivity|]. apply zlen_sub; lia.
Qed.

(* parseLastLineAttributes on a heading that has been dropped from the opened blocks *)
Lemma plla_ok fl x node x' A D N n : SInv fl (hx_s x) A D N -> AI (hx_attrs x) -> ~ In node (ids (A ++ D ++ N)) ->
  nth_error (s_h (hx_s x)) node = Some n -> bk n = BHeading -> fin_linesH (blines n) ->
  parse_last_line_attributes x node = Ok x' ->
  SInv fl (hx_s x') A D N /\ cframe (hx_s x) (hx_s x') /\ AI (hx_attrs x') /\
  exists n', nth_error (s_h (hx_s x')) node = Some n' /\ bk n' = BHeading /\ fin_linesH (blines n').
Proof.
  intros HS Ha Hni En Kn Hf H.
  assert (SInv fl (hx_s x) A D N /\ cframe (hx_s x) (hx_s x) /\ AI (hx_attrs x) /\
          exists n', nth_error (s_h (hx_s x)) node = Some n' /\ bk n' = BHeading /\ fin_linesH (blines n')) as Hsame.
  { csplit; auto; [apply cframe_refl|]. exists n. auto. }
  pose proof (CE SInv_src _ _ _ _ _ HS) as Esrc.
  unfold HeadingOpts.parse_last_line_attributes in H. unfold hget in H. rewrite En in H. cbn [bind] in H.
  destruct (rev (blines n)) as [|last pre] eqn:Erev; [injection H as <-; exact Hsame|].
  assert (blines n = rev pre ++ [last]) as El.
  { rewrite <- (rev_involutive (blines n)), Erev. reflexivity. }
  rewrite Esrc in H. bind_inv H line Eline.
  assert (olineE src last) as Hlast.
  { destruct Hf as [Hf _]. rewrite El in Hf. apply Forall_app in Hf. destruct Hf as [_ Hf]. inversion Hf; assumption. }
  destruct (seg_value_plain last Hlast) as [Ev Hz]. rewrite Ev in Eline. injection Eline as <-.
  set (line := sub src (s_start last) (s_stop last)) in *.
  assert (bytes_ok line) as Hbl by (eapply J_seg_value_bytes; [exact Hsrc|exact Ev]).
  bind_inv H sc Esc. destruct sc as [[res st_] en].
  assert (0 <= 0 <= zlen line) as Hz0 by (pose proof (zlen_nonneg line); lia).
  assert (forall l : list (bytes * pval), None = Some l -> Forall pattr_ok l) as Hn0 by (intros l; discriminate).
  destruct (lls_inv space_table punct_table line Hbl _ _ _ _ _ _ _ _ (new_reader_inv line) (new_reader_src line)
              Hz0 Hn0 Esc) as [Hst Hres].
  destruct res as [attrs|]; [|injection H as <-; exact Hsame].
  destruct ((en <? 0) || (zlen line <? en))%bool; [discriminate|].
  destruct (Reader.is_blank space_table (zskip en line)); [|injection H as <-; exact Hsame].
  bind_inv H h1 Eh1. injection H as <-. cbn [sth_s hx_s hx_attrs].
  apply hupd_ok in Eh1. destruct Eh1 as [n0 [En0 ->]]. assert (n0 = n) by congruence. subst n0.
  set (n' := set_lines n (rev pre ++ [seg_set_stop last (s_start last + st_)])).
  assert (fin_linesH (blines n')) as Hf'.
  { cbn [n' set_lines blines]. apply fin_linesH_shrink; [rewrite <- El; exact Hf|]. lia. }
  assert (nodeP n') as Hn'.
  { destruct HS as [_ HH]. pose proof (hs_node _ _ _ (hi_heap _ _ _ _ _ _ _ _ HH) _ _ En) as [N1 N2 N3 N4 N5 N6 N7].
    constructor; cbn [n' set_lines blines b_seg bk b_i1 bch]; auto; try (intros Hk; congruence).
    destruct Hf' as [Hf' _]. eapply Forall_impl; [|exact Hf']. intros a (A1 & A2 & A3 & A4). unfold seg_inr. lia. }
  csplit.
  - destruct HS as [HR HH]. split; [exact HR|]. cbn [st_h s_h s_c s_r].
    eapply HI_set_closed_heading; try eassumption. apply (CE same_shape_lines).
  - unfold cframe. cbn [st_h s_h s_c s_r]. rewrite length_hset. csplit; auto.
  - apply AI_set_node_attrs; [exact Ha|]. apply Hres. reflexivity.
  - exists n'. cbn [st_h s_h]. split; [apply nth_hset_eq; eapply nth_some_lt; exact En|]. split; [exact Kn|exact Hf'].
Qed.

(* ---------- AutoHeadingID: the heap, the context and the reader are not touched ---------- *)
Lemma id_chars_bytes v : forallb id_char v = true -> all_bytes_b v = true.
Proof.
  unfold all_bytes_b. intros H. rewrite forallb_forall in *. intros c Hc. specialize (H c Hc). unfold id_char in H.
  apply N.ltb_lt.
  apply orb_true_iff in H. destruct H as [H|H]; [apply orb_true_iff in H; destruct H as [H|H]|].
  - apply andb_true_iff in H. destruct H as [_ H]. apply N.leb_le in H. lia.
  - apply andb_true_iff in H. destruct H as [_ H]. apply N.leb_le in H. lia.
  - apply N.eqb_eq in H. lia.
Qed.

Lemma ahi_ok x node x' : AI (hx_attrs x) -> auto_heading_id x node = Ok x' -> hx_s x' = hx_s x /\ AI (hx_attrs x').
Proof.
  intros Ha H. unfold HeadingOpts.auto_heading_id in H.
  assert (forall y, (n <- hget (s_h (hx_s x)) node ;;
            line <- match rev (blines n) with [] => Ok [] | last :: _ => seg_value (src_of (hx_s x)) last end ;;
            g <- generate utf8len_table space_table spaces (hx_ids x) line true ;;
            let '(id, t) := g in Ok (set_node_attr (sth_ids x t) node n_id (AVBytes id))) = Ok y ->
          hx_s y = hx_s x /\ AI (hx_attrs y)) as Hgen.
  { intros y Hy. bind_inv Hy n En. bind_inv Hy line El. bind_inv Hy g Eg. destruct g as [id t]. injection Hy as <-.
    split; [reflexivity|]. apply AI_set_node_attr; [exact Ha|apply AttrProofs.n_id_ok|].
    pose proof (generate_fresh _ _ _ _ _ _ _ _ Eg) as [_ [_ [_ Hc]]]. cbn [aval_bytes]. apply id_chars_bytes. exact Hc. }
  destruct (node_id_attr x node) as [[v|v|]|]; [|apply Hgen; exact H..].
  injection H as <-. split; [reflexivity|exact Ha].
Qed.

(* the heading after the core Close of a setext heading: it has the lines of the temporary paragraph *)
Lemma setext_close_node fl s node s' A D N : SInv fl s A (D ++ [(node, PSetext)]) N ->
  setext_close space_table s node = Ok s' ->
  exists n', nth_error (s_h s') node = Some n' /\ bk n' = BHeading /\ fin_lines (blines n').
Proof.
  intros [HR HH] H. unfold setext_close in H. bind_inv H n En. apply hget_ok in En.
  destruct (blines n) as [|sg ln] eqn:Eln; [discriminate|].
  destruct (c_tmp_para (s_c s)) as [tmp|] eqn:Etmp; [|discriminate].
  bind_inv H h1 Eh1. apply hupd_ok in Eh1. destruct Eh1 as [n0 [En0 ->]].
  assert (n0 = n) by congruence. subst n0. cbn [st_c st_h s_h s_c s_r] in H.
  bind_inv H t Et. apply hget_ok in Et.
  pose proof (in_mid A D N (node, PSetext)) as Hin.
  pose proof (hi_open _ _ _ _ _ _ _ _ HH) as HO. pose proof (hi_heap _ _ _ _ _ _ _ _ HH) as HS.
  destruct (os_pair _ _ _ _ _ _ HO node PSetext Hin) as [n9 [En9 Kn]].
  assert (n9 = n) by congruence. subst n9. cbn [pkind] in Kn.
  destruct (os_tmp _ _ _ _ _ _ HO node Hin) as [tmp0 [t0 [T1 [T2 [Kt [Ft Hnt]]]]]].
  assert (tmp0 = tmp) by congruence. subst tmp0.
  assert (tmp <> node) as Htn.
  { intros ->. apply Hnt. eapply in_ids. exact Hin. }
  rewrite nth_hset_ne in Et by congruence. assert (t0 = t) by congruence. subst t0.
  pose proof (np_para _ _ _ (hs_node _ _ _ HS _ _ T2) Kt) as [_ [_ Hne]].
  destruct (blines t) as [|sg1 lt] eqn:Elt; [congruence|].
  bind_inv H h2 Eh2. apply hupd_ok in Eh2. destruct Eh2 as [n1 [En1 ->]].
  rewrite nth_hset_eq in En1 by (eapply nth_some_lt; exact En). injection En1 as <-.
  rewrite (CE hset_hset) in H.
  set (n2 := set_blank (set_lines (set_lines n []) (sg1 :: lt)) (bblank t)) in H.
  assert (nth_error (hset (s_h s) node n2) node = Some n2) as E2 by (apply nth_hset_eq; eapply nth_some_lt; exact En).
  assert (bk n2 = BHeading /\ fin_lines (blines n2)) as [K2 F2] by (split; [exact Kn|exact Ft]).
  destruct (bpar t) as [tp|] eqn:Ept.
  - bind_inv H h3 Eh3. injection H as <-. cbn [st_c st_h s_h s_c s_r].
    assert (tmp <> tp) as Hne2.
    { intros <-. apply (hs_noself _ _ _ HS _ _ T2). exact Ept. }
    apply remove_child_spec in Eh3; [|exact Hne2].
    destruct Eh3 as [nx [Ex [[_ ->]|[Px [np [Ep [Hlen [E1x [E1p E1o]]]]]]]]]; [exists n2; auto|].
    pose proof (remove_data_le _ h3 tp tmp nx np Ex Ep E1x E1p E1o) as Hdl.
    destruct (Hdl node n2 E2) as [n3 [E3 [K3 L3]]]. exists n3. rewrite L3. csplit; auto. congruence.
  - injection H as <-. cbn [st_c st_h s_h s_c s_r]. exists n2. auto.
Qed.

(* the two option steps on a heading that has been dropped from the opened blocks *)
Lemma close_opts_ok fl (attr_step : sth -> result sth) x node x' A D N n :
  (forall y, attr_step y = Ok y \/ attr_step y = parse_last_line_attributes y node) ->
  SInv fl (hx_s x) A D N -> AI (hx_attrs x) -> ~ In node (ids (A ++ D ++ N)) ->
  nth_error (s_h (hx_s x)) node = Some n -> bk n = BHeading -> fin_linesH (blines n) ->
  (x1 <- attr_step x ;; if h_autoid hc then auto_heading_id x1 node else Ok x1) = Ok x' ->
  SInv fl (hx_s x') A D N /\ cframe (hx_s x) (hx_s x') /\ AI (hx_attrs x').
Proof.
  intros Hstep HS Ha Hni En Kn Hf H. bind_inv H x1 E1.
  assert (SInv fl (hx_s x1) A D N /\ cframe (hx_s x) (hx_s x1) /\ AI (hx_attrs x1)) as [HS1 [Hc1 Ha1]].
  { destruct (Hstep x) as [Es|Es]; rewrite Es in E1.
    - injection E1 as <-. csplit; auto. apply cframe_refl.
    - destruct (plla_ok fl x node x1 A D N n HS Ha Hni En Kn Hf E1) as [P1 [P2 [P3 _]]]. auto. }
  destruct (h_autoid hc).
  - destruct (ahi_ok x1 node x' Ha1 H) as [Es Ha']. rewrite Es. auto.
  - injection H as <-. auto.
Qed.

Lemma atx_close_h_ok fl x node x' A D N : SInv fl (hx_s x) A (D ++ [(node, PATX)]) N -> AI (hx_attrs x) ->
  atx_close_h hc space_table punct_table utf8len_table spaces x node = Ok x' ->
  SInv fl (hx_s x') A D N /\ cframe (hx_s x) (hx_s x') /\ AI (hx_attrs x').
Proof.
  intros HS Ha H.
  destruct (CE SInv_entry _ _ _ _ _ _ _ HS (in_mid _ _ _ _)) as [n [En [Kn _]]]. cbn [pkind] in Kn.
  assert (fin_linesH (blines n)) as Hf.
  { destruct HS as [_ HH]. destruct (os_atx _ _ _ _ _ _ (hi_open _ _ _ _ _ _ _ _ HH) node (in_mid _ _ _ _)) as [n0 [En0 F]].
    assert (n0 = n) by congruence. subst n0. exact F. }
  assert (~ In node (ids (A ++ D ++ N))) as Hni.
  { destruct HS as [_ HH]. exact (CE dropD_notin A D N node PATX (os_nodup _ _ _ _ _ _ (hi_open _ _ _ _ _ _ _ _ HH))). }
  assert (SInv fl (hx_s x) A D N) as HS0.
  { eapply (CE SInv_drop); [exact HS|]. intros m Em _. assert (m = n) by congruence. subst m.
    split; intros K; [congruence|exact Hf]. }
  unfold atx_close_h in H.
  eapply (close_opts_ok fl (fun x => if h_attr hc then match node_id_attr x node with Some _ => Ok x
                                       | None => parse_last_line_attributes x node end else Ok x));
    [|exact HS0|exact Ha|exact Hni|exact En|exact Kn|exact Hf|exact H].
  intros y. cbv beta. destruct (h_attr hc); [|left; reflexivity]. destruct (node_id_attr y node); [left|right]; reflexivity.
Qed.

Lemma setext_close_h_ok fl x node x' A D N : SInv fl (hx_s x) A (D ++ [(node, PSetext)]) N -> AI (hx_attrs x) ->
  (forall y, In (y, PSetext) (A ++ (D ++ [(node, PSetext)]) ++ N) -> y = node) ->
  setext_close_h hc space_table punct_table utf8len_table spaces x node = Ok x' ->
  SInv fl (hx_s x') A D N /\ cframe (hx_s x) (hx_s x') /\ AI (hx_attrs x').
Proof.
  intros HS Ha Honly H. unfold setext_close_h in H. bind_inv H x0 E0.
  unfold hlift0 in E0. bind_inv E0 s0 Es0. injection E0 as <-.
  destruct (CE setext_close_ok fl (hx_s x) node s0 A D N HS Honly Es0) as [HS0 [F1 [F2 [F3 F4]]]].
  destruct (setext_close_node fl (hx_s x) node s0 A D N HS Es0) as [n [En [Kn Fn]]].
  assert (~ In node (ids (A ++ D ++ N))) as Hni.
  { destruct HS as [_ HH]. exact (CE dropD_notin A D N node PSetext (os_nodup _ _ _ _ _ _ (hi_open _ _ _ _ _ _ _ _ HH))). }
  assert (cframe (hx_s x) s0) as Hc0 by (unfold cframe; auto).
  destruct (close_opts_ok fl (fun x => if h_attr hc then parse_last_line_attributes x node else Ok x)
              (sth_s x s0) node x' A D N n) as [R1 [R2 R3]]; auto.
  - intros y. cbv beta. destruct (h_attr hc); [right|left]; reflexivity.
  - apply (fin_lines_H src). exact Fn.
  - csplit; auto. eapply cframe_trans; [exact Hc0|exact R2].
Qed.

End Q.
