(* The inline phase on the lines of a heading of the parser with the Attribute option (hwInl).

   parseLastLineAttributes cuts the attribute block off the last line of a heading, so the LAST line
   segment may be empty (HeadingOptsWfDefs.lines_okH_b), which is outside the hypothesis lines_ok of the
   core theorems (ParseInlineRange.InlineChildren_ok, ParseInlineTotal.InlineChildren_total: the block
   reader invariant needs non-empty segments).  Three cases (HeadingOptsWfDefs.segs_okH_cases):
     (a) all segments non-empty: the core theorems;
     (b) one empty segment: the block reader is out of range at once, there are no inline children;
     (c) lines = pre ++ [e], pre <> [], e empty:  InlineChildren refs src (pre ++ [e]) = InlineChildren refs src pre
         (inline_children_app, HeadingOptsWfInlE.v; lock-step simulation of the two block readers,
         HeadingOptsWfInlA.v .. E.v), PROVIDED every line of pre ends at the end of the source or with a
         newline (HeadingOptsWfNl.lines_nlH_b).  Without that hypothesis the equality is FALSE:
           src = "a\n{#x}", lines = [mkseg 0 1; mkseg 2 2]:  Ok []   but   [mkseg 0 1]:  Ok [Text [0,1)]
         (the final Advance of parseBlock at the end of the last real line takes the `Stop < r.last` branch
         of blockReader.Advance, the line number changes and parseBlock skips the Text node).

   UNPROVED (believed true: Ok and wf_node in about 10^4 evaluated cases also without the newline
   hypothesis, but the result differs from the one over pre, so it does not follow from the core theorems):
     Theorem InlineChildren_okH_general : forall refs src lines ts, bytes_ok src -> refs_ok refs -> lines_okH_b src lines = true ->
       InlineChildren refs src lines = Ok ts -> Forall (fun t => wf_node src false false t = true) ts.
     Theorem InlineChildren_totalH_general : forall refs src lines, bytes_ok src -> lines_okH_b src lines = true ->
       exists ts, InlineChildren refs src lines = Ok ts.
   The block phase guarantees lines_okN_b = lines_okH_b && lines_nlH_b (statements agreed with hoWf). *)
Require Import GM.model.Base GM.model.Util GM.model.UtilI GM.model.Reader GM.model.ReaderSpec GM.model.ListItem GM.model.HtmlWriter GM.model.Html GM.model.HtmlSpec
               GM.model.BlockParse GM.model.InlineParse GM.model.DelimI GM.model.ParseI.
Require Import GM.gen.Tables GM.gen.Regexes.
Require Import GM.proofs.BReaderProofs GM.proofs.ParseInv GM.proofs.ParseInlineRangeReader GM.proofs.HeadingOptsWfDefs GM.proofs.HeadingOptsWfNl.
Require GM.proofs.ParseInlineRange GM.proofs.ParseInlineTotal.
Require Import GM.proofs.HeadingOptsWfInlE.
From Coq Require Import List ZArith NArith Bool Lia.
Import ListNotations.
Open Scope Z_scope.

(* ---------- case (b): one empty segment ---------- *)
Lemma new_block_reader_one_empty src a p f :
  exists r, new_block_reader src [{| s_start := a; s_stop := a; s_pad := p; s_fnl := f |}] = Ok r /\ b_in_range r = false.
Proof.
  unfold new_block_reader, b_reset_position. cbn -[Z.add Z.sub Z.ltb Z.leb Z.eqb].
  unfold seg_at. cbn. unfold b_advance_line, b_set_position. cbn.
  eexists. split; [reflexivity|]. unfold b_in_range. cbn. rewrite Z.ltb_irrefl. rewrite andb_false_r. reflexivity.
Qed.

Lemma InlineChildren_out refs src lines r :
  new_block_reader src lines = Ok r -> b_in_range r = false -> InlineChildren refs src lines = Ok [].
Proof.
  intros Hr Hout. unfold InlineChildren, inline_children, parse_block. rewrite Hr. cbn [bind].
  replace (2 * length src + 2 * length lines + 8)%nat with (S (2 * length src + 2 * length lines + 7))%nat by lia.
  cbn [parse_block_loop t_r]. unfold b_peek_line. rewrite Hout. cbn [bind].
  cbn. reflexivity.
Qed.

(* ---------- case (c): the hypotheses of the simulation from the boolean checks ---------- *)
Lemma sorted_app_last pre e : segs_sorted_b (pre ++ [e]) = true -> pre <> [] ->
  segs_sorted_b pre = true /\ last_stop pre <= s_start e.
Proof.
  induction pre as [|a tl IH]; intros H Hne; [congruence|].
  destruct tl as [|b tl'].
  - cbn in H. rewrite andb_true_r in H. apply Z.leb_le in H. split; [reflexivity|]. unfold last_stop. cbn. exact H.
  - change (segs_sorted_b ((a :: b :: tl') ++ [e])) with ((s_stop a <=? s_start b) && segs_sorted_b ((b :: tl') ++ [e])) in H.
    apply andb_true_iff in H as [H1 H2]. destruct (IH H2 ltac:(discriminate)) as [I1 I2]. split.
    + change (segs_sorted_b (a :: b :: tl')) with ((s_stop a <=? s_start b) && segs_sorted_b (b :: tl')). rewrite H1, I1. reflexivity.
    + rewrite last_stop_cons by discriminate. exact I2.
Qed.

Lemma InlineChildren_app refs src pre e ts :
  forallb (seg_ok_b src) pre = true -> pre <> [] -> seg_e_b src e = true -> s_start e = s_stop e ->
  segs_sorted_b (pre ++ [e]) = true -> lines_nlH_b src (pre ++ [e]) = true ->
  InlineChildren refs src pre = Ok ts -> InlineChildren refs src (pre ++ [e]) = Ok ts.
Proof.
  intros Hp Hne He Hee Hs Hn. destruct (sorted_app_last pre e Hs Hne) as [Hsp Hke].
  destruct (lines_ok_segs src pre (conj Hp Hsp)) as [Hsegs Hpads].
  unfold seg_e_b in He. repeat (apply andb_true_iff in He as [He ?]).
  unfold InlineChildren. apply inline_children_app; try assumption.
  - lia.
  - apply negb_true_iff. assumption.
  - unfold lines_nlH_b in Hn. rewrite removelast_last in Hn. apply Forall_forall. intros sg Hsg.
    rewrite forallb_forall in Hn. specialize (Hn sg Hsg). unfold seg_nl_b in Hn. apply orb_true_iff in Hn as [Hn|Hn].
    + left. lia.
    + right. apply N.eqb_eq. exact Hn.
  - lia.
Qed.

(* the three cases of lines_okN_b *)
Lemma lines_okN_cases src lines : lines_okN_b src lines = true ->
  lines_ok src lines \/
  (exists a p f, lines = [{| s_start := a; s_stop := a; s_pad := p; s_fnl := f |}]) \/
  (exists pre e, lines = pre ++ [e] /\ lines_ok src pre /\ pre <> [] /\ seg_e_b src e = true /\ s_start e = s_stop e /\
                 segs_sorted_b (pre ++ [e]) = true /\ lines_nlH_b src (pre ++ [e]) = true).
Proof.
  unfold lines_okN_b, lines_okH_b. intros H. apply andb_true_iff in H as [H Hn]. apply andb_true_iff in H as [H Hs].
  destruct (segs_okH_cases src lines H) as [Hall|(pre & e & -> & Hp & He & Hee)].
  - left. split; assumption.
  - right. destruct pre as [|p0 pre'].
    + left. destruct e as [a b p f]. cbn [s_start s_stop] in Hee. subst b. exists a, p, f. reflexivity.
    + right. exists (p0 :: pre'), e. split; [reflexivity|]. destruct (sorted_app_last _ _ Hs ltac:(discriminate)) as [Hsp _].
      split; [split; assumption|]. split; [discriminate|]. auto.
Qed.

(* ---------- the theorems ---------- *)
Theorem InlineChildren_okH : forall refs src lines ts,
  bytes_ok src -> refs_ok refs -> lines_okN_b src lines = true ->
  InlineChildren refs src lines = Ok ts -> Forall (fun t => wf_node src false false t = true) ts.
Proof.
  intros refs src lines ts Hsrc Hrefs Hl H.
  destruct (lines_okN_cases src lines Hl) as [Hok|[(a & p & f & ->)|(pre & e & -> & Hok & Hne & He & Hee & Hs & Hn)]].
  - exact (ParseInlineRange.InlineChildren_ok refs src lines ts Hsrc Hrefs Hok H).
  - destruct (new_block_reader_one_empty src a p f) as (r & Hr & Hout).
    rewrite (InlineChildren_out refs src _ r Hr Hout) in H. inversion H. constructor.
  - destruct (ParseInlineTotal.InlineChildren_total refs src pre Hsrc Hok) as [ts0 H0].
    rewrite (InlineChildren_app refs src pre e ts0 (proj1 Hok) Hne He Hee Hs Hn H0) in H. inversion H; subst ts0.
    exact (ParseInlineRange.InlineChildren_ok refs src pre ts Hsrc Hrefs Hok H0).
Qed.

Theorem InlineChildren_totalH : forall refs src lines,
  bytes_ok src -> lines_okN_b src lines = true -> exists ts, InlineChildren refs src lines = Ok ts.
Proof.
  intros refs src lines Hsrc Hl.
  destruct (lines_okN_cases src lines Hl) as [Hok|[(a & p & f & ->)|(pre & e & -> & Hok & Hne & He & Hee & Hs & Hn)]].
  - exact (ParseInlineTotal.InlineChildren_total refs src lines Hsrc Hok).
  - destruct (new_block_reader_one_empty src a p f) as (r & Hr & Hout). exists []. exact (InlineChildren_out refs src _ r Hr Hout).
  - destruct (ParseInlineTotal.InlineChildren_total refs src pre Hsrc Hok) as [ts0 H0]. exists ts0.
    exact (InlineChildren_app refs src pre e ts0 (proj1 Hok) Hne He Hee Hs Hn H0).
Qed.

(* the equality itself, for whoever needs more than wf and totality *)
Theorem InlineChildren_empty_last : forall refs src pre e,
  bytes_ok src -> lines_okN_b src (pre ++ [e]) = true -> pre <> [] -> s_start e = s_stop e ->
  InlineChildren refs src (pre ++ [e]) = InlineChildren refs src pre.
Proof.
  intros refs src pre e Hsrc Hl Hne Hee.
  destruct (lines_okN_cases src (pre ++ [e]) Hl) as [Hok|[(a & p & f & E)|(pre2 & e2 & E & Hok & Hne2 & He & Hee2 & Hs & Hn)]].
  - exfalso. destruct Hok as [Hf _]. rewrite forallb_app in Hf. apply andb_true_iff in Hf as [_ Hf]. cbn [forallb] in Hf. rewrite andb_true_r in Hf.
    unfold seg_ok_b in Hf. repeat (apply andb_true_iff in Hf as [Hf ?]). lia.
  - exfalso. destruct pre as [|x [|y t]]; [congruence|discriminate E|discriminate E].
  - apply app_inj_tail in E as [-> ->].
    destruct (ParseInlineTotal.InlineChildren_total refs src pre2 Hsrc Hok) as [ts0 H0]. rewrite H0.
    exact (InlineChildren_app refs src pre2 e2 ts0 (proj1 Hok) Hne He Hee Hs Hn H0).
Qed.
