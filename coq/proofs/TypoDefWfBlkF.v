(* Helper library for TypoDefWfBlk.v, part F: Continue of list items; Continue of any parser. *)
Require Import GM.model.Base GM.model.Util GM.model.Reader GM.model.ReaderSpec GM.model.Blocks GM.model.ListItem
               GM.model.LeafBlocks GM.model.CodeBlock GM.model.LinkDest GM.model.Regex GM.model.HtmlWriter
               GM.model.Html GM.model.HtmlSpec GM.model.BlockParse GM.model.InlineParse GM.model.TypoDefParseD.
Require Import GM.proofs.ReaderProofs GM.proofs.BlockRangeProofs GM.proofs.ParseInv
               GM.proofs.ParseBlocksRangeA GM.proofs.TypoDefWfBlkB GM.proofs.TypoDefWfBlkT GM.proofs.TypoDefWfBlkC
               GM.proofs.TypoDefWfBlkD.
From Coq Require Import ZArith Lia Sorted.
Open Scope Z_scope.

Section F.
Variable space_table punct_table : list N.
Variable norm : bytes -> bytes.
Variable re_t1o re_t1c re_t2 re_t3 re_t4 re_t5 re_t6 re_t7 : re.
Variable allowed_tags : list bytes.
Variable src : bytes.
Hypothesis sp32 : is_space space_table 32%N = true.
Set Default Proof Using "All".

(* lemmas of parts C and D take all the section variables: CC supplies them *)
Notation CC f := (f space_table punct_table norm re_t1o re_t1c re_t2 re_t3 re_t4 re_t5 re_t6 re_t7 allowed_tags src sp32) (only parsing).
Notation SInv := (SInv space_table src).
Notation HI := (HI space_table src).
Notation nodeP := (nodeP space_table src).
Notation heapS := (heapS space_table src).
Notation Jinv := (Jinv src).
Notation openS := (openS src).
Notation pline := (pline space_table src).
Notation oline := (oline src).
Notation fin_lines := (fin_lines src).
Notation fin := (fin src).
Notation cont_post := (cont_post space_table src).
Notation item_guard := (item_guard space_table).
Notation verdict := (verdict space_table).

(* the offset of the last item of a list is not negative *)
Lemma last_offset_nonneg h p o : heapS h -> last_offset h p = Ok o -> 0 <= o.
Proof.
  intros Hh H. unfold last_offset in H. bind_inv H n En.
  destruct (last_id (bch n)) as [c|]; [|injection H as <-; lia].
  bind_inv H cn Ec. apply hget_ok in Ec. destruct (bkind_eqb (bk cn) BListItem) eqn:Ek; [|discriminate].
  injection H as <-. apply (CC bkind_eqb_eq) in Ek. exact (np_item _ _ _ (hs_node _ _ _ Hh _ _ Ec) Ek).
Qed.

(* ---------- list_item.go Continue ---------- *)
Lemma list_item_continue_ok s node s' cont A D N : SInv FF s A D N -> In (node, PListItem) (A ++ D ++ N) ->
  r_in_range (s_r s) = true -> item_guard s node ->
  list_item_continue space_table s node = Ok (s', cont) -> cont_post PListItem s s' cont A D N.
Proof.
  intros HS Hin Hir Hg H. unfold list_item_continue in H. bind_inv H n En. apply hget_ok in En.
  bind_inv H x Ex. destruct x as [[s1 l] sg].
  destruct (CC peek_s_ok _ _ _ _ _ _ _ HS Ex) as [HS1 [Eh1 [Ec1 [Ep1 [Esg [El [Ein Esrc1]]]]]]].
  pose proof (CC peek_s_rkey _ _ _ _ (proj1 (proj1 HS)) Ex) as Ek1.
  rewrite Hir in El. subst l. cbn [line_of] in H.
  destruct (Reader.is_blank space_table (r_view (s_r s))) eqn:Eb.
  { bind_inv H s2 Ea. injection H as <- <-.
    pose proof (view_nonempty _ (proj1 (proj1 HS)) Hir) as Hne.
    assert (0 <= zlen (r_view (s_r s)) - 1) as Hn0 by lia.
    destruct (CC adv_s_full _ _ _ _ _ _ HS1 Hn0 Ea) as [HS2 [Eh2 Ec2]].
    unfold cont_post. cbn [pkind container]. rewrite Ec2, Ec1. csplit; auto. }
  destruct (bpar n) as [p|] eqn:Ebp; [|discriminate]. cbn [bind] in H.
  bind_inv H offset Eoff. cbv zeta in H.
  bind_inv H y Ey. destruct y as [s2 off].
  destruct (CC loff_s_ok _ _ _ _ _ _ HS1 Ey) as [HS2 [Eh2 [Ec2 [Ep2 Ein2]]]].
  destruct (CC loff_s_rkey _ _ _ (proj1 (proj1 HS1)) Ey) as [Ek2 Eoffv].
  destruct (rkey_view _ _ Ek1) as [Ev1 [Ecol1 _]].
  assert (off = r_column (s_r s) (r_head (s_r s))) as Eoff' by congruence.
  rewrite Eh1 in Eoff.
  pose proof (last_offset_nonneg _ _ _ (hi_heap _ _ _ _ _ _ _ _ (proj2 HS)) Eoff) as Hoff0.
  pose proof (Hg n p En Ebp offset Eoff Eb) as Hv. unfold indent_of in Hv. rewrite <- Eoff' in Hv.
  set (line := r_view (s_r s)) in *. set (indent := fst (indent_width line off)) in *.
  assert (forall X : result (st * bool),
            X = (let '(pos, padding) := indent_position line off offset in
                 r <- r_advance_and_set_padding (s_r s2) pos padding ;; Ok (st_r s2 r, true)) ->
            X = Ok (s', cont) -> offset <= indent -> cont_post PListItem s s' cont A D N) as Hgo.
  { intros X -> HX Hle. destruct (indent_position line off offset) as [pos padding] eqn:Eip.
    bind_inv HX r Er. injection HX as <- <-.
    pose proof (ip_defined _ _ _ _ _ Eip Hle) as Hd.
    destruct (ip_range _ _ _ _ _ Hoff0 Eip) as [[Hp _]|[Hp [Hq Hpq]]]; [contradiction|].
    assert (0 < padding -> 1 <= s_start (r_pos (s_r s2)) \/ (1 <= pos /\ r_in_range (s_r s2) = true)) as Hpd
      by (intros Hq0; right; split; [lia|congruence]).
    destruct (adv_pad_ok src _ _ _ _ (proj1 HS2) (proj1 Hp) Hpd Er) as [HR3 Hle3].
    pose proof (CC SInv_reader _ _ _ _ _ HS2 HR3 Hle3) as HS3.
    unfold cont_post. cbn [pkind container st_r s_c]. rewrite Ec2, Ec1. csplit; auto. }
  assert (cont_post PListItem s s2 false A D N) as Hfalse.
  { unfold cont_post. cbn [pkind container]. rewrite Ec2, Ec1. csplit; auto. }
  match type of H with (if (?e || _) && _ then _ else _) = _ => set (is_empty := e) in * end.
  destruct ((is_empty || (indent <? offset)) && (indent <? 4))%bool eqn:Ecd.
  - destruct (matches_list_item line true) as [m typ] eqn:Em. cbn [snd] in Hv.
    destruct (N.eqb_spec typ 0) as [E0|E0]; cbn [negb] in H.
    + destruct is_empty; cbn [negb] in H.
      * eapply Hgo; [reflexivity|exact H|]. destruct Hv as [Hv|[_ Hv]]; [exact Hv|contradiction].
      * injection H as <- <-. exact Hfalse.
    + injection H as <- <-. unfold cont_post. cbn [pkind container st_c s_c cset_skip c_arr c_len].
      rewrite Ec2, Ec1. csplit; auto; intros _; apply (CC SInv_ctx); auto;
        cbn [cset_skip c_tmp_para c_fence c_refs]; congruence.
  - eapply Hgo; [reflexivity|exact H|]. destruct Hv as [Hv|[Hv _]]; [exact Hv|].
    destruct (Z.ltb_spec indent 4) as [_|]; [|lia]. rewrite Bool.andb_true_r in Ecd.
    apply Bool.orb_false_iff in Ecd. destruct Ecd as [_ Ecd]. lia.
Qed.

(* ---------- Continue of any parser ---------- *)
Lemma p_continue_ok bp s node s' cont kids A D N : SInv FF s A D N -> In (node, bp) (A ++ D ++ N) ->
  r_in_range (s_r s) = true -> (bp = PListItem -> item_guard s node) ->
  (forall n, nth_error (s_h s) node = Some n -> is_dl n = false) ->
  p_continue space_table re_t1c bp s node = Ok (s', cont, kids) ->
  cont_post bp s s' cont A D N /\ kids = container (pkind bp) /\
  (bp = PList -> cont = true -> verdict s' node).
Proof.
  intros HS Hin Hir Hg Hndl H. destruct bp; cbn [p_continue] in H.
  all: try (injection H as <- <- <-; cbn [pkind container]; csplit; auto; try discriminate;
            unfold cont_post; csplit; auto; discriminate).
  all: bind_inv H x Ex; destruct x as [s1 c1]; cbn [fst snd] in H; injection H as <- <- <-; cbn [pkind container].
  - destruct (CC list_continue_ok _ _ _ _ _ _ _ HS Hir Ex) as [H1 [_ [_ H2]]]. csplit; auto.
  - csplit; auto; [|discriminate]. eapply list_item_continue_ok; eauto.
  - csplit; auto; [|discriminate]. eapply (CC code_continue_ok); eauto.
  - csplit; auto; [|discriminate]. eapply (CC fenced_continue_ok); eauto.
  - csplit; auto; [|discriminate]. eapply (CC bq_continue_ok); eauto.
  - csplit; auto; [|discriminate]. eapply (CC html_continue_ok); eauto.
  - csplit; auto; [|discriminate]. eapply (CC paragraph_continue_ok); eauto.
Qed.

End F.
