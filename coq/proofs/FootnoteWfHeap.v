(* Heap operations of the footnote AST transformer (model/FootnoteParse.v) under the heap
   invariant of the core block phase (ParseBlocksRangeB.heapS: parent/child consistency, no
   order on node numbers) and the finality of attached nodes (Jinv with no open block). *)
Require Import GM.model.Base GM.model.Util GM.model.Reader GM.model.ListItem GM.model.Regex GM.model.HtmlWriter GM.model.Html GM.model.HtmlSpec
               GM.model.BlockParse GM.model.InlineParse GM.model.FootnoteParseBlock.
Require Import GM.proofs.ParseInv GM.proofs.ParseBlocksRangeA GM.proofs.ParseBlocksRangeB.
From Coq Require Import List ZArith Lia Bool Permutation.
Import ListNotations.
Open Scope Z_scope.

(* the data of old nodes is kept; the heap may grow *)
Definition tstep (h h' : heap) : Prop :=
  (length h <= length h')%nat /\
  forall i n, nth_error h i = Some n ->
    exists n', nth_error h' i = Some n' /\ bk n' = bk n /\ b_i1 n' = b_i1 n /\ b_i2 n' = b_i2 n /\
               blines n' = blines n /\ b_seg n' = b_seg n.
Lemma tstep_refl h : tstep h h.
Proof. split; [lia|]. intros i n H. exists n. auto 10. Qed.
Lemma tstep_trans a b c : tstep a b -> tstep b c -> tstep a c.
Proof.
  intros [L1 H1] [L2 H2]. split; [lia|]. intros i n H.
  destruct (H1 i n H) as (n1 & E1 & A1 & A2 & A3 & A4 & A5).
  destruct (H2 i n1 E1) as (n2 & E2 & B1 & B2 & B3 & B4 & B5). exists n2. repeat split; congruence.
Qed.

Section H.
Variable space_table : list N.
Variable src : bytes.
Notation heapS := (heapS space_table src).
Notation nodeP := (nodeP space_table src).
Notation Jinv := (Jinv src).
Notation fin := (fin src).

Definition HS (h : heap) : Prop := heapS h /\ Jinv h [].

Lemma fin_other n : bk n <> BParagraph -> bk n <> BHeading -> fin n.
Proof. intros H1 H2 [K|K]; congruence. Qed.

(* ---------- an update of one node that keeps kind, parent, children, lines, segment, b_i1 ---------- *)
Lemma HS_hset_data h i n n' : HS h -> nth_error h i = Some n ->
  bk n' = bk n -> bpar n' = bpar n -> bch n' = bch n -> blines n' = blines n -> b_seg n' = b_seg n -> b_i1 n' = b_i1 n ->
  HS (hset h i n').
Proof.
  intros [HS1 HJ] E K P C L S I. split.
  - apply (heapS_hset space_table src h i n n' HS1 E); [split; [exact K|split; [exact P|exact C]]|].
    apply (nodeP_same space_table src n n'); auto.
    + apply (hs_node _ _ _ HS1 i n E).
    + intros Hc. rewrite C. apply (np_leaf _ _ _ (hs_node _ _ _ HS1 i n E) Hc).
  - apply (Jinv_hset src h [] i n n' HJ E). intros Hp. left. rewrite P in Hp.
    destruct (HJ i n E Hp) as [Hf|[]]. apply (fin_same src n n' Hf L K).
Qed.

(* ---------- RemoveChild of a child from its parent ---------- *)
Lemma remove_child_HS h p c h1 nc : HS h -> remove_child h p c = Ok h1 -> c <> p ->
  nth_error h c = Some nc -> bpar nc = Some p ->
  HS h1 /\ tstep h h1 /\ length h1 = length h /\
  nth_error h1 c = Some (set_par nc None) /\
  (exists np, nth_error h p = Some np /\ nth_error h1 p = Some (set_ch np (remove_id c (bch np)))) /\
  (forall j, j <> c -> j <> p -> nth_error h1 j = nth_error h j).
Proof.
  intros [HS1 HJ] H Hne Ec Pc.
  destruct (remove_child_spec h p c h1 H Hne) as [nc' [Ec' [[Hbad _]|[_ [np [Ep [Hlen [E1c [E1p E1o]]]]]]]]].
  { assert (nc' = nc) by congruence. subst. contradiction. }
  assert (nc' = nc) by congruence. subst nc'.
  split; [split|].
  - exact (heapS_remove space_table src h h1 p c nc np Hne Ec Ep Pc E1c E1p E1o HS1).
  - exact (Jinv_remove src h h1 p c nc np Ep E1c E1p E1o [] HJ).
  - split; [|split; [exact Hlen|split; [exact E1c|split; [exists np; auto|exact E1o]]]].
    split; [lia|]. intros j m Hj. destruct (Nat.eq_dec j c) as [->|J1].
    + assert (m = nc) by congruence. subst. eexists. split; [exact E1c|]. cbn. auto 10.
    + destruct (Nat.eq_dec j p) as [->|J2].
      * assert (m = np) by congruence. subst. eexists. split; [exact E1p|]. cbn. auto 10.
      * exists m. rewrite E1o by assumption. auto 10.
Qed.

(* ---------- AppendChild of a detached node (which may have children) ---------- *)
Section AppendGen.
Variables (h h1 : heap) (p c : nat) (nc np : bnode).
Hypothesis Hcp : c <> p.
Hypothesis Ec : nth_error h c = Some nc.
Hypothesis Ep : nth_error h p = Some np.
Hypothesis E1c : nth_error h1 c = Some (set_par nc (Some p)).
Hypothesis E1p : nth_error h1 p = Some (set_ch np (bch np ++ [c])).
Hypothesis E1o : forall j, j <> c -> j <> p -> nth_error h1 j = nth_error h j.

Lemma heapS_append_gen : heapS h -> bpar nc = None -> container (bk np) = true -> c <> 0%nat ->
  (bk nc = BListItem -> bk np = BList) -> heapS h1.
Proof.
  intros [Hroot HK Hnd Hns Hit Hnode] Pc Kp Hc0 Hli.
  pose proof (append_cases h h1 p c nc np E1c E1p E1o) as Hcases.
  pose proof (append_bpar_same h h1 p c np Ep E1p E1o) as Hsame.
  assert (forall x nx, nth_error h1 x = Some nx -> exists nx0, nth_error h x = Some nx0 /\ bk nx0 = bk nx) as Hkind.
  { intros x nx Hx. apply Hcases in Hx. destruct Hx as [[-> ->]|[[-> ->]|[_ [_ Hx]]]]; eexists; split; try eassumption; reflexivity. }
  constructor.
  - destruct Hroot as [n0 [E0 [K0 P0]]]. destruct (Nat.eq_dec 0 p) as [<-|Hne].
    + eexists. split; [exact E1p|]. assert (n0 = np) by congruence. subst. auto.
    + exists n0. rewrite E1o by congruence. auto.
  - intros q nq x Hq Hx. apply Hcases in Hq. destruct Hq as [[-> ->]|[[-> ->]|[H1 [H2 Hq]]]].
    + cbn [set_par bch] in Hx. destruct (HK c nc x Ec Hx) as [nx [Ex Px]].
      assert (x <> c) as Hxc by (intros ->; apply (Hns c nc Ec); congruence).
      destruct (Hsame x nx Hxc Ex) as [nx' [Ex' Px']]. exists nx'. split; congruence.
    + cbn [set_ch bch] in Hx. apply in_app_or in Hx. destruct Hx as [Hx|[<-|[]]].
      * destruct (HK p np x Ep Hx) as [nx [Ex Px]].
        assert (x <> c) as Hxc by (intros ->; congruence).
        destruct (Hsame x nx Hxc Ex) as [nx' [Ex' Px']]. exists nx'. split; congruence.
      * eexists. split; [exact E1c|reflexivity].
    + destruct (HK q nq x Hq Hx) as [nx [Ex Px]].
      assert (x <> c) as Hxc by (intros ->; congruence).
      destruct (Hsame x nx Hxc Ex) as [nx' [Ex' Px']]. exists nx'. split; congruence.
  - intros q nq Hq. apply Hcases in Hq. destruct Hq as [[-> ->]|[[-> ->]|[H1 [H2 Hq]]]].
    + cbn [set_par bch]. eapply Hnd; eassumption.
    + cbn [set_ch bch]. apply NoDup_app_snoc.
      * eapply Hnd; eassumption.
      * intros Hin. destruct (HK p np c Ep Hin) as [nx [Ex Px]]. congruence.
    + eapply Hnd; eassumption.
  - intros q nq Hq. apply Hcases in Hq. destruct Hq as [[-> ->]|[[-> ->]|[H1 [H2 Hq]]]].
    + cbn [set_par bpar]. congruence.
    + cbn [set_ch bpar]. eapply Hns; eassumption.
    + eapply Hns; eassumption.
  - intros q nq x nx Hq Hin Hx Kx. destruct (Hkind x nx Hx) as [nx0 [Ex0 Kx0]].
    apply Hcases in Hq. destruct Hq as [[-> ->]|[[-> ->]|[H1 [H2 Hq]]]].
    + cbn [set_par bch bk] in *. eapply (Hit c nc x nx0); try eassumption. congruence.
    + cbn [set_ch bch bk] in *. apply in_app_or in Hin. destruct Hin as [Hin|[<-|[]]].
      * eapply (Hit p np x nx0); try eassumption. congruence.
      * apply Hli. assert (nx0 = nc) by congruence. subst. congruence.
    + eapply (Hit q nq x nx0); try eassumption. congruence.
  - intros q nq Hq. apply Hcases in Hq. destruct Hq as [[-> ->]|[[-> ->]|[H1 [H2 Hq]]]].
    + apply (nodeP_same space_table src nc); auto; [eapply Hnode; eassumption|].
      intros Hk. cbn [set_par bch]. apply (np_leaf _ _ _ (Hnode _ _ Ec) Hk).
    + apply (nodeP_same space_table src np); auto; [eapply Hnode; eassumption|]. intros Hk. congruence.
    + eapply Hnode; eassumption.
Qed.

Lemma Jinv_append_fin : Jinv h [] -> fin nc -> Jinv h1 [].
Proof.
  intros HJ Hf q nq Hq Hp. apply (append_cases h h1 p c nc np E1c E1p E1o) in Hq.
  destruct Hq as [[-> ->]|[[-> ->]|[H1 [H2 Hq]]]].
  - left. apply (fin_same src nc); auto.
  - cbn [set_ch bpar] in Hp. destruct (HJ p np Ep Hp) as [Hf'|[]]. left. apply (fin_same src np); auto.
  - exact (HJ q nq Hq Hp).
Qed.

Lemma append_tstep : length h1 = length h -> tstep h h1.
Proof.
  intros Hlen. split; [lia|]. intros j m Hj. destruct (Nat.eq_dec j c) as [->|J1].
  - assert (m = nc) by congruence. subst. eexists. split; [exact E1c|]. cbn. auto 10.
  - destruct (Nat.eq_dec j p) as [->|J2].
    + assert (m = np) by congruence. subst. eexists. split; [exact E1p|]. cbn. auto 10.
    + exists m. rewrite E1o by assumption. auto 10.
Qed.
End AppendGen.

Lemma append_child_HS h p c h1 nc np : HS h -> append_child h p c = Ok h1 -> c <> p -> c <> 0%nat ->
  nth_error h c = Some nc -> nth_error h p = Some np -> bpar nc = None -> container (bk np) = true ->
  bk nc <> BListItem -> fin nc ->
  HS h1 /\ tstep h h1 /\ length h1 = length h /\
  nth_error h1 c = Some (set_par nc (Some p)) /\ nth_error h1 p = Some (set_ch np (bch np ++ [c])) /\
  (forall j, j <> c -> j <> p -> nth_error h1 j = nth_error h j).
Proof.
  intros [HS1 HJ] H Hne Hc0 Ec Ep Pc Kp Kc Hf.
  destruct (append_child_spec h p c h1 H Hne) as (nc' & np' & Ec' & Ep' & Hlen & E1c & E1p & E1o).
  assert (nc' = nc) by congruence. assert (np' = np) by congruence. subst nc' np'.
  split; [split|].
  - eapply (heapS_append_gen h h1 p c nc np); eauto. intros K. contradiction.
  - eapply (Jinv_append_fin h h1 p c nc np); eauto.
  - split; [eapply (append_tstep h h1 p c nc np); eauto|]. auto.
Qed.

(* ---------- a new childless leaf node appended to a container (the FootnoteBacklink placeholder) ---------- *)
Lemma place_HS h f nf h2 : HS h -> nth_error h f = Some nf -> container (bk nf) = true ->
  append_child (h ++ [mknode BThematicBreak 0]) f (length h) = Ok h2 ->
  HS h2 /\ tstep h h2 /\ length h2 = S (length h) /\
  nth_error h2 f = Some (set_ch nf (bch nf ++ [length h])) /\
  (forall j, j <> f -> (j < length h)%nat -> nth_error h2 j = nth_error h j).
Proof.
  intros [HS1 HJ] Ef Kf H.
  pose proof (nth_some_lt _ _ _ Ef) as Hfl.
  set (nd := mknode BThematicBreak 0) in *.
  assert (HPn : nodeP nd).
  { constructor; cbn; try discriminate; auto. }
  assert (HSa : HS (h ++ [nd])).
  { split; [apply (heapS_app space_table src h nd HS1); [reflexivity|reflexivity|exact HPn]|apply Jinv_app; [exact HJ|reflexivity]]. }
  assert (Efa : nth_error (h ++ [nd]) f = Some nf) by (rewrite nth_error_app1 by exact Hfl; exact Ef).
  assert (Eca : nth_error (h ++ [nd]) (length h) = Some nd) by apply nth_app_new.
  destruct (hs_root _ _ _ HS1) as [n0 [E0 _]]. pose proof (nth_some_lt _ _ _ E0) as Hpos.
  destruct (append_child_HS (h ++ [nd]) f (length h) h2 nd nf HSa H) as (A1 & A2 & A3 & A4 & A5 & A6); auto; try lia.
  { discriminate. } { apply fin_other; discriminate. }
  split; [exact A1|]. split.
  - eapply tstep_trans; [|exact A2]. split; [rewrite app_length; cbn; lia|].
    intros i n Hi. exists n. rewrite nth_error_app1 by (eapply nth_some_lt; eassumption). auto 10.
  - split; [rewrite A3, app_length; cbn; lia|]. split; [exact A5|].
    intros j J1 J2. rewrite A6 by lia. apply nth_error_app1. exact J2.
Qed.

(* ---------- the children of a node permuted ---------- *)
Lemma perm_ch_HS h l ln ch : HS h -> nth_error h l = Some ln -> Permutation ch (bch ln) ->
  HS (hset h l (set_ch ln ch)).
Proof.
  intros [[Hroot HK Hnd Hns Hit Hnode] HJ] El Hp.
  pose proof (nth_some_lt _ _ _ El) as Hl.
  assert (Hget : forall j m, nth_error (hset h l (set_ch ln ch)) j = Some m ->
            (j = l /\ m = set_ch ln ch) \/ (j <> l /\ nth_error h j = Some m)).
  { intros j m Hj. apply nth_hset_inv in Hj. destruct Hj as [[-> [-> _]]|[J Hj]]; auto. }
  assert (Hold : forall j m, nth_error h j = Some m -> exists m', nth_error (hset h l (set_ch ln ch)) j = Some m' /\
            bk m' = bk m /\ bpar m' = bpar m).
  { intros j m Hj. destruct (Nat.eq_dec j l) as [->|J].
    - exists (set_ch ln ch). rewrite nth_hset_eq by exact Hl. assert (m = ln) by congruence. subst. auto.
    - exists m. rewrite nth_hset_ne by congruence. auto. }
  split; [constructor|].
  - destruct Hroot as [n0 [E0 [K0 P0]]]. destruct (Hold 0%nat n0 E0) as [m' [E' [K' P']]]. exists m'. split; [exact E'|]. split; congruence.
  - intros p np c Hpn Hc. destruct (Hget p np Hpn) as [[-> ->]|[J Hpn']].
    + cbn [set_ch bch] in Hc. apply (Permutation_in _ Hp) in Hc. destruct (HK l ln c El Hc) as [nc [Ec Pc]].
      destruct (Hold c nc Ec) as [m' [E' [_ P']]]. exists m'. split; [exact E'|congruence].
    + destruct (HK p np c Hpn' Hc) as [nc [Ec Pc]]. destruct (Hold c nc Ec) as [m' [E' [_ P']]]. exists m'. split; [exact E'|congruence].
  - intros p np Hpn. destruct (Hget p np Hpn) as [[-> ->]|[J Hpn']].
    + cbn [set_ch bch]. apply (Permutation_NoDup (Permutation_sym Hp)). eapply Hnd; eassumption.
    + eapply Hnd; eassumption.
  - intros j m Hj. destruct (Hget j m Hj) as [[-> ->]|[J Hj']].
    + cbn [set_ch bpar]. eapply Hns; eassumption.
    + eapply Hns; eassumption.
  - intros p np c nc Hpn Hin Hc Kc.
    assert (exists nc0, nth_error h c = Some nc0 /\ bk nc0 = bk nc) as [nc0 [Ec0 Kc0]].
    { destruct (Hget c nc Hc) as [[-> ->]|[_ Hc']]; [exists ln; auto|exists nc; auto]. }
    destruct (Hget p np Hpn) as [[-> ->]|[J Hpn']].
    + cbn [set_ch bch bk] in *. apply (Permutation_in _ Hp) in Hin. eapply (Hit l ln c nc0); try eassumption. congruence.
    + eapply (Hit p np c nc0); try eassumption. congruence.
  - intros j m Hj. destruct (Hget j m Hj) as [[-> ->]|[J Hj']]; [|eapply Hnode; eassumption].
    apply (nodeP_same space_table src ln); auto; [eapply Hnode; eassumption|].
    intros Hk. cbn [set_ch bch]. pose proof (np_leaf _ _ _ (Hnode l ln El) Hk) as Hnil. rewrite Hnil in Hp.
    apply Permutation_sym, Permutation_nil in Hp. exact Hp.
  - intros c nc Hc Hpar. destruct (Hget c nc Hc) as [[-> ->]|[J Hc']].
    + cbn [set_ch bpar] in Hpar. destruct (HJ l ln El Hpar) as [Hf|[]]. left. apply (fin_same src ln); auto.
    + exact (HJ c nc Hc' Hpar).
Qed.

End H.
