(* Plain paragraphs, block phase, part 1: the steps of the block driver on a text line
   (opening a paragraph, continuing it) and on closing it (the link reference definition
   transformer does nothing, the paragraph parser trims the last line). *)
Require Import GM.model.Base GM.model.Util GM.model.Reader GM.model.ListItem GM.model.Blocks GM.model.CodeBlock
               GM.model.Regex GM.model.BlockParse.
Require Import GM.gen.Tables GM.proofs.SpecParaBytes GM.proofs.SpecParaReader.
From Coq Require Import List NArith ZArith Bool Lia.
Import ListNotations.
Open Scope Z_scope.

Opaque space_table punct_table.

(* ---------- states ---------- *)
Definition dnode (cs : list nat) : bnode :=
  {| bk := BDocument; bpar := None; bch := cs; blines := []; bblank := false; b_i1 := 0; b_i2 := 0; b_tight := true; b_seg := None |}.
Definition pnode (par : option nat) (ls : list seg) (bl : bool) : bnode :=
  {| bk := BParagraph; bpar := par; bch := []; blines := ls; bblank := bl; b_i1 := 0; b_i2 := 0; b_tight := true; b_seg := None |}.
Definition ctx (arr : list (nat * bparser)) (len : nat) : pctx :=
  {| c_arr := arr; c_len := len; c_boff := 0; c_bind := 0; c_refs := []; c_skip_list := false;
     c_empty_item := false; c_fence := None; c_tmp_para := None |}.
Notation mkst h c r := {| s_h := h; s_c := c; s_r := r |}.

(* ---------- the heap: document node, closed nodes, the current node last ---------- *)
Lemma nth_error_last {A} (l : list A) x : nth_error (l ++ [x]) (length l) = Some x.
Proof. rewrite nth_error_app2 by lia. rewrite Nat.sub_diag. reflexivity. Qed.
Lemma hget_last d cl n : hget (d :: cl ++ [n]) (S (length cl)) = Ok n.
Proof. unfold hget. cbn [nth_error]. rewrite nth_error_last. reflexivity. Qed.
Lemma hset_app_last cl : forall n m, hset (cl ++ [n]) (length cl) m = cl ++ [m].
Proof. induction cl as [|x cl IH]; intros n m; [reflexivity|]. cbn [app length hset]. rewrite IH. reflexivity. Qed.
Lemma hset_last d cl n m : hset (d :: cl ++ [n]) (S (length cl)) m = d :: cl ++ [m].
Proof. cbn [hset]. rewrite hset_app_last. reflexivity. Qed.
Lemma hupd_last d cl n f : hupd (d :: cl ++ [n]) (S (length cl)) f = Ok (d :: cl ++ [f n]).
Proof. unfold hupd. rewrite hget_last. cbn [bind]. rewrite hset_last. reflexivity. Qed.
Lemma hupd_root d t f : hupd (d :: t) 0 f = Ok (f d :: t).
Proof. reflexivity. Qed.
Lemma is_paragraph_last d cl par ls bl : is_paragraph (d :: cl ++ [pnode par ls bl]) (S (length cl)) = Ok true.
Proof. unfold is_paragraph. rewrite hget_last. reflexivity. Qed.
Lemma attached_last d cl p ls bl : attached (d :: cl ++ [pnode (Some p) ls bl]) (S (length cl)) = Ok true.
Proof. unfold attached. rewrite hget_last. reflexivity. Qed.

(* ---------- state-level reader steps ---------- *)
Lemma peek_s_fresh h c src pre line rest k a b lo : at_line src pre line rest a b -> line <> [] ->
  peek_line_s (mkst h c (rd src k a b a None lo)) = Ok (mkst h c (rd src k a b a (Some line) lo), Some line, lseg a b).
Proof.
  intros Hat Hne. unfold peek_line_s. cbn [s_r s_h s_c]. rewrite (peek_fresh src pre line rest k a b lo Hat Hne). reflexivity.
Qed.
Lemma peek_s_cached h c src k a b v lo : 0 <= a < zlen src ->
  peek_line_s (mkst h c (rd src k a b a (Some v) lo)) = Ok (mkst h c (rd src k a b a (Some v) lo), Some v, lseg a b).
Proof. intros H. unfold peek_line_s. cbn [s_r s_h s_c]. rewrite (peek_cached src k a b v lo H). reflexivity. Qed.
Lemma peek_s_eof h c src k a b st pk lo : zlen src <= st ->
  peek_line_s (mkst h c (rd src k a b st pk lo)) = Ok (mkst h c (rd src k a b st pk lo), None, lseg st b).
Proof. intros H. unfold peek_line_s. cbn [s_r s_h s_c]. rewrite (peek_eof src k a b st pk lo H). reflexivity. Qed.
Lemma line_offset_s_fresh h c src k a b pk :
  line_offset_s (mkst h c (rd src k a b a pk (-1))) = Ok (mkst h c (rd src k a b a pk 0), 0).
Proof. unfold line_offset_s. cbn [s_r s_h s_c]. rewrite line_offset_fresh. reflexivity. Qed.
Lemma advance_s_fast h c src k a b v lo n : n < zlen v ->
  advance_s (mkst h c (rd src k a b a (Some v) lo)) n = Ok (mkst h c (rd src k a b (a + n) None (-1))).
Proof. intros H. unfold advance_s. cbn [s_r s_h s_c]. rewrite (advance_fast src k a b v lo n H). reflexivity. Qed.

(* ---------- a text line ---------- *)
(* the current line is body ++ term at [a, b) *)
Record cur_line (src pre body term rest : bytes) (a b : Z) : Prop := {
  cl_at : at_line src pre (body ++ term) rest a b;
  cl_body : body_okb body = true;
  cl_term : term_ok term rest
}.
Lemma cur_line_range src pre body term rest a b : cur_line src pre body term rest a b -> 0 <= a /\ a < b /\ b <= zlen src.
Proof. intros [Hat Hb Ht]. apply (at_line_in_range _ _ _ _ _ _ Hat). apply text_line_nonempty. exact Hb. Qed.
Lemma cur_line_len src pre body term rest a b : cur_line src pre body term rest a b -> b - a = zlen body + zlen term.
Proof. intros [(Hs & Ha & Hb) _ _]. rewrite zlen_app in Hb. lia. Qed.
Lemma term_ok_cases term rest : term_ok term rest -> term = [10%N] \/ term = [].
Proof. intros [H|[H _]]; auto. Qed.

Lemma indent_position_text body term : body_okb body = true -> indent_position (body ++ term) 0 4 = (-1, -1).
Proof.
  intros H. destruct (body_ok_head body H) as (c & r & -> & Hc). apply wordc_range in Hc.
  unfold indent_position, indent_position_padding. change (4 =? 0) with false. cbv iota.
  cbn [app indent_position_loop]. change (0 <? 0) with false. cbv iota.
  replace (N.eqb c 9) with false by (symmetry; apply N.eqb_neq; lia).
  replace (N.eqb c 32) with false by (symmetry; apply N.eqb_neq; lia). reflexivity.
Qed.

(* the indented code block parser declines *)
Lemma code_open_text h c src pre body term rest k a b :
  cur_line src pre body term rest a b ->
  code_open space_table (mkst h c (rd src k a b a (SomeB (body ++ term)) 0)) =
  Ok (mkst h c (rd src k a b a (SomeB (body ++ term)) 0), None).
Proof.
  intros Hc. pose proof (cur_line_range _ _ _ _ _ _ _ Hc) as Hr.
  unfold code_open, code_block_open. cbn [s_r].
  rewrite (peek_cached src k a b (body ++ term) 0) by lia. cbn [bind].
  rewrite line_offset_cached. cbn [bind].
  rewrite (indent_position_text body term (cl_body _ _ _ _ _ _ _ Hc)).
  change (-1 <? 0) with true. cbn [orb]. cbv iota. reflexivity.
Qed.

(* the paragraph parser opens: a new detached node with the line *)
Lemma paragraph_open_text h c src pre body term rest k a b :
  cur_line src pre body term rest a b ->
  paragraph_open space_table (mkst h c (rd src k a b a (SomeB (body ++ term)) 0)) =
  Ok (mkst (h ++ [pnode None [mkseg a b] false]) c (rd src k a b (b - 1) None (-1)), Some (length h, false, false)).
Proof.
  intros Hc. pose proof (cur_line_range _ _ _ _ _ _ _ Hc) as Hr. pose proof (cur_line_len _ _ _ _ _ _ _ Hc) as Hl.
  destruct Hc as [Hat Hb Ht].
  unfold paragraph_open. rewrite peek_s_cached by lia. cbn [bind].
  unfold seg_trim_left_space, src_of. cbn [s_r s_h s_c].
  unfold rd at 1. cbn [r_src]. unfold lseg. cbn [s_start s_stop].
  destruct Hat as (Hs & Ha & Hb'). rewrite Hs at 1. rewrite (slice_mid pre (body ++ term) rest a b Ha Hb').
  cbn [bind]. rewrite (text_line_trim_left body term Hb). rewrite Z.add_0_r.
  unfold seg_is_empty, mkseg. cbn [s_start s_stop s_pad].
  replace (b <=? a) with false by (symmetry; apply Z.leb_gt; lia). cbn [andb]. cbv iota.
  unfold new_node, halloc. cbn [s_h]. unfold st_h. cbn [s_h s_c s_r].
  unfold seg_len. cbn [s_start s_stop s_pad].
  rewrite advance_s_fast by (rewrite zlen_app; lia). cbn [bind].
  replace (a + (b - a + 0 - 1)) with (b - 1) by lia. reflexivity.
Qed.

(* ---------- contexts ---------- *)
Lemma cset_off_ctx arr n : cset_off (ctx arr n) 0 0 = ctx arr n.
Proof. reflexivity. Qed.
Lemma last_opened_idle arr : last_opened (ctx arr 0) = None.
Proof. reflexivity. Qed.
Lemma last_opened_open be tl : last_opened (ctx (be :: tl) 1) = Some be.
Proof. reflexivity. Qed.
Lemma opened_open be tl : opened (ctx (be :: tl) 1) = [be].
Proof. reflexivity. Qed.
Lemma opened_idle arr : opened (ctx arr 0) = [].
Proof. reflexivity. Qed.
Lemma push_opened_idle arr be : push_opened (ctx arr 0) be = ctx (be :: skipn 1 arr) 1.
Proof. reflexivity. Qed.

(* ---------- closing a paragraph ---------- *)
(* a line of an open paragraph: inside the source, beginning with a letter *)
Definition good_seg (src : bytes) (sg : seg) : Prop :=
  exists a b ch v, sg = mkseg a b /\ slice src a b = Ok (ch :: v) /\ wordc ch = true.

Lemma good_seg_value src sg : good_seg src sg -> exists ch v, seg_value src sg = Ok (ch :: v) /\ wordc ch = true.
Proof.
  intros (a & b & ch & v & -> & Hs & Hc). exists ch, v. split; [|exact Hc].
  unfold seg_value, mkseg. cbn [s_start s_stop s_pad s_fnl]. rewrite Hs. reflexivity.
Qed.
Lemma good_seg_trim_left src sg : good_seg src sg -> seg_trim_left_space space_table src sg = Ok sg.
Proof.
  intros (a & b & ch & v & -> & Hs & Hc). unfold seg_trim_left_space, mkseg. cbn [s_start s_stop].
  rewrite Hs. cbn [bind trim_left_space_len]. rewrite (word_not_space ch Hc). rewrite Z.add_0_r. reflexivity.
Qed.
Lemma map_trim_left_good src ls : Forall (good_seg src) ls -> map_res (seg_trim_left_space space_table src) ls = Ok ls.
Proof.
  induction 1 as [|sg ls Hg _ IH]; [reflexivity|].
  cbn [map_res]. rewrite (good_seg_trim_left src sg Hg). cbn [bind]. rewrite IH. reflexivity.
Qed.
Lemma cur_line_good src pre body term rest a b : cur_line src pre body term rest a b -> good_seg src (mkseg a b).
Proof.
  intros [(Hs & Ha & Hb) Hbody Ht]. destruct (body_ok_head body Hbody) as (ch & r & Hr & Hc).
  exists a, b, ch, (r ++ term). split; [reflexivity|]. split; [|exact Hc].
  rewrite Hs. rewrite (slice_mid pre (body ++ term) rest a b Ha Hb). rewrite Hr. reflexivity.
Qed.
Lemma cur_line_trim_right src pre body term rest a b : cur_line src pre body term rest a b ->
  seg_trim_right_space space_table src (mkseg a b) = Ok (mkseg a (a + zlen body)).
Proof.
  intros Hc. pose proof (cur_line_len _ _ _ _ _ _ _ Hc) as Hl. destruct Hc as [(Hs & Ha & Hb) Hbody Ht].
  unfold seg_trim_right_space, mkseg. cbn [s_start s_stop s_pad].
  rewrite Hs. rewrite (slice_mid pre (body ++ term) rest a b Ha Hb). cbn [bind].
  rewrite (text_line_trim_right body term Hbody (term_ok_cases _ _ Ht)). rewrite zlen_app.
  pose proof (body_ok_nonempty body Hbody) as Hn.
  replace (zlen term =? zlen body + zlen term) with false by (symmetry; apply Z.eqb_neq; lia).
  unfold mksegp. f_equal. f_equal. lia.
Qed.

Lemma match_nonempty {A B} (l : list A) (X : B) (F : list A -> B) : l <> [] ->
  match l with [] => X | x :: t => F (x :: t) end = F l.
Proof. destruct l; [congruence|reflexivity]. Qed.

Lemma paragraph_close_text cs cl acc src pre body term rest a b bl c r :
  r_src r = src -> Forall (good_seg src) acc -> cur_line src pre body term rest a b ->
  paragraph_close space_table (mkst (dnode cs :: cl ++ [pnode (Some 0%nat) (acc ++ [mkseg a b]) bl]) c r) (S (length cl)) =
  Ok (mkst (dnode cs :: cl ++ [pnode (Some 0%nat) (acc ++ [mkseg a (a + zlen body)]) bl]) c r).
Proof.
  intros Hsrc Hacc Hc. unfold paragraph_close. cbn [s_h]. rewrite hget_last. cbn [bind pnode blines].
  assert (Hne : acc ++ [mkseg a b] <> []) by (destruct acc; discriminate).
  rewrite (match_nonempty (acc ++ [mkseg a b]) _
             (fun ls => ls0 <- map_res (seg_trim_left_space space_table (src_of (mkst (dnode cs :: cl ++ [pnode (Some 0%nat) (acc ++ [mkseg a b]) bl]) c r))) ls;;
                        match rev ls0 with
                        | [] => Panic
                        | lst :: pre0 =>
                          lst0 <- seg_trim_right_space space_table (src_of (mkst (dnode cs :: cl ++ [pnode (Some 0%nat) (acc ++ [mkseg a b]) bl]) c r)) lst;;
                          h <- hupd (dnode cs :: cl ++ [pnode (Some 0%nat) (acc ++ [mkseg a b]) bl]) (S (length cl)) (fun m => set_lines m (rev pre0 ++ [lst0]));;
                          Ok (st_h (mkst (dnode cs :: cl ++ [pnode (Some 0%nat) (acc ++ [mkseg a b]) bl]) c r) h)
                        end) Hne).
  unfold src_of. cbn [s_r]. rewrite Hsrc.
  rewrite map_trim_left_good by (apply Forall_app; split; [exact Hacc|constructor; [exact (cur_line_good _ _ _ _ _ _ _ Hc)|constructor]]).
  cbn [bind]. rewrite rev_app_distr. cbn [rev app].
  rewrite (cur_line_trim_right _ _ _ _ _ _ _ Hc). cbn [bind]. rewrite rev_involutive.
  rewrite hupd_last. cbn [bind]. reflexivity.
Qed.

(* the link reference definition transformer finds no definition *)
Lemma seg_at_last_ok (l : list seg) : l <> [] -> exists x, seg_at l (zlen l - 1) = Ok x.
Proof.
  intros Hne. destruct (exists_last Hne) as (l' & x & ->). exists x.
  assert (E : zlen (l' ++ [x]) - 1 = zlen l') by (rewrite zlen_app; unfold zlen; cbn [length]; lia).
  unfold seg_at. rewrite E. pose proof (zlen_nonneg l') as Hp.
  replace ((0 <=? zlen l') && (zlen l' <? zlen (l' ++ [x])))%bool with true.
  2:{ symmetry. apply andb_true_iff. split; [apply Z.leb_le|apply Z.ltb_lt]; lia. }
  replace (Z.to_nat (zlen l')) with (length l') by (unfold zlen; lia).
  rewrite nth_error_last. reflexivity.
Qed.

Lemma new_block_reader_first src first more : exists br,
  new_block_reader src (first :: more) = Ok br /\ b_src br = src /\ b_pos br = first /\ b_segs br = first :: more.
Proof.
  destruct (seg_at_last_ok (first :: more)) as (l & Hl); [discriminate|].
  eexists. split.
  - unfold new_block_reader, b_reset_position.
    unfold bset_loff, bset_last, bset_head, bset_line, bset_pos, b_nsegs. cbn [b_src b_segs b_line b_pos b_head b_last b_loff].
    replace (0 <? zlen (first :: more)) with true.
    2:{ symmetry. apply Z.ltb_lt. rewrite zlen_cons. pose proof (zlen_nonneg more). lia. }
    rewrite Hl. cbn [bind].
    unfold b_advance_line, b_set_position.
    unfold bset_loff, bset_last, bset_head, bset_line, bset_pos, b_nsegs. cbn [b_src b_segs b_line b_pos b_head b_last b_loff].
    change (-1 + 1) with 0. unfold mkseg at 1. cbn [s_start]. change (-1 =? -1) with true. cbv iota.
    replace (0 <? zlen (first :: more)) with true.
    2:{ symmetry. apply Z.ltb_lt. rewrite zlen_cons. pose proof (zlen_nonneg more). lia. }
    unfold seg_at at 1.
    replace ((0 <=? 0) && (0 <? zlen (first :: more)))%bool with true.
    2:{ symmetry. apply andb_true_iff. split; [reflexivity|]. apply Z.ltb_lt. rewrite zlen_cons. pose proof (zlen_nonneg more). lia. }
    cbn [Z.to_nat nth_error bind b_src b_segs b_line b_pos b_head b_last b_loff]. reflexivity.
  - cbn [b_src b_pos b_segs]. auto.
Qed.

Section Lrd.
Variable norm : bytes -> bytes.

Lemma b_peek_line_cases r ch v : seg_value (b_src r) (b_pos r) = Ok (ch :: v) ->
  b_peek_line r = Ok (r, SomeB (ch :: v), b_pos r) \/ b_peek_line r = Ok (r, None, b_pos r).
Proof.
  intros H. unfold b_peek_line. destruct (b_in_range r); [left|right; reflexivity]. rewrite H. reflexivity.
Qed.

Lemma parse_lrd_text r c ch v : seg_value (b_src r) (b_pos r) = Ok (ch :: v) -> wordc ch = true ->
  parse_lrd space_table punct_table norm r c = Ok (r, c, -1, -1).
Proof.
  intros Hv Hc. unfold parse_lrd.
  replace (bfuel r) with (S (bfuel r - 1)) by (unfold bfuel; lia).
  unfold b_skip_spaces. cbn [skip_spaces].
  destruct (b_peek_line_cases r ch v Hv) as [Hp|Hp]; rewrite Hp; cbn [bind].
  - cbn [skip_spaces_inner]. rewrite (word_not_space ch Hc). cbn [bind]. rewrite Hp. cbn [bind].
    pose proof (wordc_range ch Hc) as Hr.
    unfold indent_width. cbn [indent_width_pos].
    replace (N.eqb ch 32) with false by (symmetry; apply N.eqb_neq; lia).
    replace (N.eqb ch 9) with false by (symmetry; apply N.eqb_neq; lia).
    change (3 <? 0) with false. change (0 =? 0) with true. cbn [negb]. cbv iota.
    unfold at_. rewrite zlen_cons. pose proof (zlen_nonneg v) as Hn.
    replace ((0 <=? 0) && (0 <? 1 + zlen v))%bool with true.
    2:{ symmetry. apply andb_true_iff. split; [reflexivity|apply Z.ltb_lt; lia]. }
    cbn [Z.to_nat nth bind].
    replace (N.eqb ch 91) with false by (symmetry; apply N.eqb_neq; lia). reflexivity.
  - rewrite Hp. cbn [bind]. reflexivity.
Qed.

Lemma transform_paragraph_text cs cl first more bl c r :
  good_seg (r_src r) first ->
  transform_paragraph space_table punct_table norm (mkst (dnode cs :: cl ++ [pnode (Some 0%nat) (first :: more) bl]) c r) (S (length cl)) =
  Ok (mkst (dnode cs :: cl ++ [pnode (Some 0%nat) (first :: more) bl]) c r, false).
Proof.
  intros Hg. destruct (good_seg_value _ _ Hg) as (ch & v & Hv & Hc).
  unfold transform_paragraph, lrd_transform. cbn [s_h]. rewrite hget_last. cbn [bind pnode blines].
  unfold src_of. cbn [s_r].
  destruct (new_block_reader_first (r_src r) first more) as (br & Hbr & Hsrc & Hpos & Hsegs).
  rewrite Hbr. cbn [bind].
  replace (length (r_src r) + length (first :: more) + 2)%nat with (S (length (r_src r) + length (first :: more) + 1))%nat by lia.
  cbn [lrd_loop s_c].
  rewrite (parse_lrd_text br c ch v) by (rewrite ?Hsrc, ?Hpos; assumption).
  cbn [bind]. change (-1 <? -1) with false. cbv iota. cbn [apply_removes bind].
  unfold st_c. cbn [s_h s_c s_r bpar]. rewrite hupd_last. cbn [bind]. unfold st_h. cbn [s_h s_c s_r].
  rewrite hget_last. cbn [bind]. reflexivity.
Qed.
End Lrd.

Section Driver.
Variable norm : bytes -> bytes.
Variables re_t1o re_t1c re_t2 re_t3 re_t4 re_t5 re_t6 re_t7 : re.
Variable allowed_tags : list bytes.
Notation TRY := (try_parsers space_table punct_table norm re_t1o re_t2 re_t3 re_t4 re_t5 re_t6 re_t7 allowed_tags).
Notation OBL := (open_blocks_loop space_table punct_table norm re_t1o re_t2 re_t3 re_t4 re_t5 re_t6 re_t7 allowed_tags).
Notation OB := (open_blocks space_table punct_table norm re_t1o re_t1c re_t2 re_t3 re_t4 re_t5 re_t6 re_t7 allowed_tags).
Notation EACH := (each_opened space_table punct_table norm re_t1o re_t1c re_t2 re_t3 re_t4 re_t5 re_t6 re_t7 allowed_tags).
Notation LINES := (lines_loop space_table punct_table norm re_t1o re_t1c re_t2 re_t3 re_t4 re_t5 re_t6 re_t7 allowed_tags).
Notation PBL := (parse_blocks_loop space_table punct_table norm re_t1o re_t1c re_t2 re_t3 re_t4 re_t5 re_t6 re_t7 allowed_tags).
Notation CLOSE := (close_blocks space_table punct_table norm).
Notation POPEN := (p_open space_table re_t1o re_t2 re_t3 re_t4 re_t5 re_t6 re_t7 allowed_tags).

(* no block is open: the free parsers are tried, the paragraph parser opens *)
Lemma try_open_text cs cl arr src pre body term rest k a b blank :
  cur_line src pre body term rest a b ->
  TRY free_parsers 0%nat blank false noBlocksOpened 0
      (mkst (dnode cs :: cl) (ctx arr 0) (rd src k a b a (SomeB (body ++ term)) 0)) =
  Ok (TDone newBlocksOpened
        (mkst (dnode (cs ++ [S (length cl)]) :: cl ++ [pnode (Some 0%nat) [mkseg a b] blank])
              (ctx ((S (length cl), PParagraph) :: skipn 1 arr) 1) (rd src k a b (b - 1) None (-1)))).
Proof.
  intros Hc. unfold free_parsers. cbn [try_parsers andb can_interrupt_paragraph can_accept_indented negb].
  change (3 <? 0) with false. cbn [andb]. cbv iota.
  cbn [s_c]. rewrite last_opened_idle.
  cbn [p_open]. rewrite (code_open_text _ _ _ _ _ _ _ _ _ _ Hc). cbn [bind]. cbv iota.
  cbn [andb can_interrupt_paragraph can_accept_indented negb]. cbv iota.
  rewrite (paragraph_open_text _ _ _ _ _ _ _ _ _ _ Hc). cbn [bind]. cbv iota.
  cbn [s_h s_c s_r length].
  rewrite <- app_comm_cons. rewrite hupd_last. cbn [bind]. unfold st_h. cbn [s_h s_c s_r].
  rewrite last_opened_idle. cbn [bind s_h s_c s_r].
  unfold append_child. rewrite hupd_last. cbn [bind]. rewrite hupd_root. cbn [bind].
  unfold st_c. cbn [s_h s_c s_r]. rewrite push_opened_idle. reflexivity.
Qed.

Lemma line_skip_text body term : body_okb body = true ->
  match SomeB (body ++ term) with None => true | Some [] => true | Some (c :: _) => N.eqb c 10 end = false.
Proof.
  intros H. destruct (body_ok_head body H) as (ch & r & -> & Hc). apply wordc_range in Hc.
  cbn [app]. apply N.eqb_neq. lia.
Qed.
Lemma candidates_text body term : body_okb body = true -> candidates (nth_byte (body ++ term) 0) = free_parsers.
Proof.
  intros H. destruct (body_ok_head body H) as (ch & r & -> & Hc). unfold nth_byte. cbn [app Z.to_nat nth].
  apply word_candidates. exact Hc.
Qed.
Lemma text_line_zlen body term : body_okb body = true -> 0 < zlen (body ++ term).
Proof. intros H. rewrite zlen_app. pose proof (body_ok_nonempty body H). pose proof (zlen_nonneg term). lia. Qed.

(* openBlocks with no block open, on a text line: a paragraph is opened *)
Lemma open_blocks_idle_text f cs cl arr src pre body term rest k a b blank :
  cur_line src pre body term rest a b ->
  OB (S f) 0%nat blank (mkst (dnode cs :: cl) (ctx arr 0) (rd src k a b a (SomeB (body ++ term)) (-1))) =
  Ok (newBlocksOpened,
      mkst (dnode (cs ++ [S (length cl)]) :: cl ++ [pnode (Some 0%nat) [mkseg a b] blank])
           (ctx ((S (length cl), PParagraph) :: skipn 1 arr) 1) (rd src k a b (b - 1) None (-1))).
Proof.
  intros Hc. pose proof (cur_line_range _ _ _ _ _ _ _ Hc) as Hr. pose proof (cl_body _ _ _ _ _ _ _ Hc) as Hb.
  unfold open_blocks. cbn [s_c]. rewrite last_opened_idle. cbn [bind].
  cbn [open_blocks_loop]. rewrite peek_s_cached by lia. cbn [bind]. rewrite line_offset_s_fresh. cbn [bind line_of].
  rewrite (text_line_indent body term 0 Hb).
  replace (zlen (body ++ term) <=? 0) with false by (symmetry; apply Z.leb_gt; apply text_line_zlen; exact Hb).
  unfold st_c. cbn [s_h s_c s_r]. rewrite cset_off_ctx. rewrite (line_skip_text body term Hb).
  replace (0 <? zlen (body ++ term)) with true by (symmetry; apply Z.ltb_lt; apply text_line_zlen; exact Hb).
  rewrite (candidates_text body term Hb).
  rewrite (try_open_text cs cl arr src pre body term rest k a b blank Hc). cbn [bind].
  change (newBlocksOpened =? noBlocksOpened) with false. cbn [andb]. reflexivity.
Qed.

(* openBlocks with the paragraph open, on a text line: paragraph continuation *)
Lemma open_blocks_cont_text f cs cl tl ls bl src pre body term rest k a b blank :
  cur_line src pre body term rest a b ->
  OB (S f) 0%nat blank (mkst (dnode cs :: cl ++ [pnode (Some 0%nat) ls bl])
                             (ctx ((S (length cl), PParagraph) :: tl) 1) (rd src k a b a (SomeB (body ++ term)) (-1))) =
  Ok (paragraphContinuation,
      mkst (dnode cs :: cl ++ [pnode (Some 0%nat) (ls ++ [mkseg a b]) bl])
           (ctx ((S (length cl), PParagraph) :: tl) 1) (rd src k a b (b - 1) None (-1))).
Proof.
  intros Hc. pose proof (cur_line_range _ _ _ _ _ _ _ Hc) as Hr. pose proof (cl_body _ _ _ _ _ _ _ Hc) as Hb.
  pose proof (cur_line_len _ _ _ _ _ _ _ Hc) as Hl.
  unfold open_blocks. cbn [s_c s_h]. rewrite last_opened_open. rewrite is_paragraph_last. cbn [bind].
  cbn [open_blocks_loop]. rewrite peek_s_cached by lia. cbn [bind]. rewrite line_offset_s_fresh. cbn [bind line_of].
  rewrite (text_line_indent body term 0 Hb).
  replace (zlen (body ++ term) <=? 0) with false by (symmetry; apply Z.leb_gt; apply text_line_zlen; exact Hb).
  unfold st_c. cbn [s_h s_c s_r]. rewrite cset_off_ctx. rewrite (line_skip_text body term Hb).
  replace (0 <? zlen (body ++ term)) with true by (symmetry; apply Z.ltb_lt; apply text_line_zlen; exact Hb).
  rewrite (candidates_text body term Hb).
  unfold free_parsers. cbn [try_parsers andb can_interrupt_paragraph negb].
  change (noBlocksOpened =? noBlocksOpened) with true. cbn [andb bind]. cbv iota.
  cbn [s_c]. rewrite last_opened_open. cbn [p_continue].
  unfold paragraph_continue. rewrite peek_s_cached by lia. cbn [bind line_of].
  rewrite (text_line_not_blank body term Hb). cbn [s_h]. rewrite hupd_last. cbn [bind].
  unfold st_h. cbn [s_h s_c s_r]. unfold seg_len, lseg. cbn [s_start s_stop s_pad].
  rewrite advance_s_fast by (rewrite zlen_app; lia). cbn [bind fst snd].
  replace (a + (b - a + 0 - 1)) with (b - 1) by lia. reflexivity.
Qed.

(* openBlocks with the paragraph open, on an empty line: nothing opens, the paragraph does not continue *)
Lemma open_blocks_cont_blank f cs cl tl ls bl src pre rest k a b blank :
  at_line src pre [10%N] rest a b ->
  OB (S f) 0%nat blank (mkst (dnode cs :: cl ++ [pnode (Some 0%nat) ls bl])
                             (ctx ((S (length cl), PParagraph) :: tl) 1) (rd src k a b a (SomeB [10%N]) (-1))) =
  Ok (noBlocksOpened,
      mkst (dnode cs :: cl ++ [pnode (Some 0%nat) ls bl])
           (ctx ((S (length cl), PParagraph) :: tl) 1) (rd src k a b a (SomeB [10%N]) 0)).
Proof.
  intros Hat. assert (Hr : 0 <= a /\ a < b /\ b <= zlen src) by (apply (at_line_in_range _ _ _ _ _ _ Hat); discriminate).
  unfold open_blocks. cbn [s_c s_h]. rewrite last_opened_open. rewrite is_paragraph_last. cbn [bind].
  cbn [open_blocks_loop]. rewrite peek_s_cached by lia. cbn [bind]. rewrite line_offset_s_fresh. cbn [bind line_of].
  unfold indent_width. cbn [indent_width_pos]. change (N.eqb 10 32) with false. change (N.eqb 10 9) with false. cbv iota.
  change (zlen [10%N] <=? 0) with false. cbv iota.
  unfold st_c. cbn [s_h s_c s_r]. rewrite cset_off_ctx. change (N.eqb 10 10) with true. cbv iota. cbn [bind]. cbv iota.
  change (noBlocksOpened =? noBlocksOpened) with true. cbn [andb]. cbv iota.
  cbn [s_c]. rewrite last_opened_open. cbn [p_continue].
  unfold paragraph_continue. rewrite peek_s_cached by lia. cbn [bind line_of Reader.is_blank].
  rewrite nl_is_space. cbn [andb bind fst snd]. reflexivity.
Qed.

(* closeBlocks of the one open paragraph *)
Lemma close_blocks_para cs cl tl acc src pre body term rest a b bl r :
  r_src r = src -> Forall (good_seg src) acc -> cur_line src pre body term rest a b ->
  CLOSE (mkst (dnode cs :: cl ++ [pnode (Some 0%nat) (acc ++ [mkseg a b]) bl]) (ctx ((S (length cl), PParagraph) :: tl) 1) r) 0 0 =
  Ok (mkst (dnode cs :: cl ++ [pnode (Some 0%nat) (acc ++ [mkseg a (a + zlen body)]) bl]) (ctx ((S (length cl), PParagraph) :: tl) 0) r).
Proof.
  intros Hsrc Hacc Hc. unfold close_blocks. cbn [s_c]. rewrite opened_open.
  change (Z.to_nat (0 - 0 + 1)) with 1%nat. cbn [close_range].
  change (0 <? 0) with false. change (zlen [(S (length cl), PParagraph)] <=? 0) with false. cbn [orb]. cbv iota.
  cbn [Z.to_nat nth_error s_h]. rewrite is_paragraph_last. cbn [bind]. rewrite attached_last. cbn [bind andb]. cbv iota.
  assert (Hg : good_seg (r_src r) (hd (mkseg a b) (acc ++ [mkseg a b]))).
  { rewrite Hsrc. destruct Hacc as [|x acc' Hx Hacc']; cbn [app hd]; [exact (cur_line_good _ _ _ _ _ _ _ Hc)|exact Hx]. }
  destruct (acc ++ [mkseg a b]) as [|first more] eqn:E; [destruct acc; discriminate|]. cbn [hd] in Hg.
  rewrite (transform_paragraph_text norm cs cl first more bl _ r Hg). cbn [bind fst s_h].
  rewrite attached_last. cbn [bind]. cbv iota. cbn [p_close]. rewrite <- E.
  rewrite (paragraph_close_text cs cl acc src pre body term rest a b bl _ r Hsrc Hacc Hc). cbn [bind].
  cbn [s_c ctx c_len]. change (0 =? Z.of_nat 1 - 1) with true. cbv iota.
  change (0 <? 0) with false. change (Z.of_nat 1 <? 0) with false. cbn [orb]. cbv iota. reflexivity.
Qed.
End Driver.
