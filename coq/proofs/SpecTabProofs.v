(* C02: the tab spelling of structural indentation (SpecDoc.respell) keeps every byte of a line
   in its column: after the specification's expansion of tabs to the next multiple of four, the
   respelled line and the original are the same bytes. *)
Require Import GM.model.Base GM.model.SpecDoc.
From Coq Require Import Lia ZifyBool ZifyNat ZifyN.
Open Scope N_scope.

(* column reached after the bytes of [s], starting at column [col] *)
Fixpoint end_col (s : bytes) (col : N) : N :=
  match s with
  | [] => col
  | c :: r => if c =? 9 then end_col r ((col / 4 + 1) * 4) else end_col r (col + 1)
  end.

Lemma expand_app (a b : bytes) : forall col,
  expand (a ++ b) col = expand a col ++ expand b (end_col a col).
Proof.
  induction a as [|c a IH]; intros col.
  - reflexivity.
  - cbn [app expand end_col]. destruct (c =? 9).
    + rewrite IH, app_assoc. reflexivity.
    + rewrite IH. reflexivity.
Qed.

Lemma end_col_app (a b : bytes) : forall col,
  end_col (a ++ b) col = end_col b (end_col a col).
Proof.
  induction a as [|c a IH]; intros col.
  - reflexivity.
  - cbn [app end_col]. destruct (c =? 9); apply IH.
Qed.

Lemma expand_blanks (k : nat) : forall col, expand (repeat 32 k) col = repeat 32 k.
Proof.
  induction k as [|k IH]; intros col.
  - reflexivity.
  - cbn [repeat expand]. change (32 =? 9) with false. cbv iota. rewrite IH. reflexivity.
Qed.

Lemma end_col_blanks (k : nat) : forall col, end_col (repeat 32 k) col = col + N.of_nat k.
Proof.
  induction k as [|k IH]; intros col.
  - cbn [repeat end_col]. lia.
  - cbn [repeat end_col]. change (32 =? 9) with false. cbv iota. rewrite IH. lia.
Qed.

Lemma repeat_snoc (A : Type) (x : A) (k : nat) : repeat x (S k) = repeat x k ++ [x].
Proof.
  induction k as [|k IH].
  - reflexivity.
  - change (repeat x (S (S k))) with (x :: repeat x (S k)).
    change (repeat x (S k) ++ [x]) with (x :: (repeat x k ++ [x])).
    f_equal. exact IH.
Qed.

Ltac Zify.zify_post_hook ::= Z.div_mod_to_equations.

(* a tab met at column col-run with run pending blanks, where col+1 is a tab stop *)
Lemma tab_stop_arith (col : N) (run : nat) :
  N.of_nat run <= col mod 4 -> (col + 1) mod 4 = 0 ->
  N.to_nat (4 - (col - N.of_nat run) mod 4) = S run /\
  ((col - N.of_nat run) / 4 + 1) * 4 = col + 1.
Proof. intros Hrun Hstop. split; lia. Qed.

Lemma no_stop_arith (col : N) (run : nat) :
  N.of_nat run <= col mod 4 -> (col + 1) mod 4 <> 0 ->
  N.of_nat (S run) <= (col + 1) mod 4 /\ col + 1 - N.of_nat (S run) = col - N.of_nat run.
Proof. intros Hrun Hstop. split; lia. Qed.

Lemma respell_inv (s : bytes) : forall col run,
  N.of_nat run <= col mod 4 ->
  expand (respell s col run) (col - N.of_nat run) = repeat 32 run ++ expand s col /\
  end_col (respell s col run) (col - N.of_nat run) = end_col s col.
Proof.
  induction s as [|c r IH]; intros col run Hrun.
  - cbn [respell expand end_col]. rewrite expand_blanks, end_col_blanks, app_nil_r.
    split; [reflexivity|lia].
  - cbn [respell]. destruct (N.eqb_spec c 32) as [Hc32|Hc32].
    + subst c. cbn [expand end_col]. change (32 =? 9) with false. cbv iota.
      destruct (N.eqb_spec ((col + 1) mod 4) 0) as [Hstop|Hstop].
      * destruct (tab_stop_arith col run Hrun Hstop) as [Hk Hnext].
        cbn [expand end_col]. change (9 =? 9) with true. cbv iota.
        rewrite Hk, Hnext.
        destruct (IH (col + 1) 0%nat) as [IHe IHc]; [cbn; lia|].
        replace (col + 1 - N.of_nat 0) with (col + 1) in IHe, IHc by lia.
        rewrite IHe, IHc. split; [|reflexivity].
        rewrite repeat_snoc, <- app_assoc. reflexivity.
      * destruct (no_stop_arith col run Hrun Hstop) as [Hrun' Hcol].
        destruct (IH (col + 1) (S run) Hrun') as [IHe IHc].
        rewrite Hcol in IHe, IHc. rewrite IHe, IHc. split; [|reflexivity].
        rewrite repeat_snoc, <- app_assoc. reflexivity.
    + assert (Hback : col - N.of_nat run + N.of_nat run = col) by lia.
      destruct (N.eqb_spec c 9) as [Hc9|Hc9].
      * subst c. rewrite expand_app, end_col_app, expand_blanks, end_col_blanks, Hback.
        cbn [expand end_col]. change (9 =? 9) with true. cbv iota.
        destruct (IH ((col / 4 + 1) * 4) 0%nat) as [IHe IHc]; [cbn; lia|].
        replace ((col / 4 + 1) * 4 - N.of_nat 0) with ((col / 4 + 1) * 4) in IHe, IHc by lia.
        rewrite IHe, IHc. split; reflexivity.
      * rewrite expand_app, end_col_app, expand_blanks, end_col_blanks, Hback.
        cbn [expand end_col]. destruct (N.eqb_spec c 9) as [Hc9'|_]; [contradiction|].
        destruct (IH (col + 1) 0%nat) as [IHe IHc]; [cbn; lia|].
        replace (col + 1 - N.of_nat 0) with (col + 1) in IHe, IHc by lia.
        rewrite IHe, IHc. split; reflexivity.
Qed.

Lemma respell_inv0 (s : bytes) :
  expand (respell s 0 0) 0 = expand s 0 /\ end_col (respell s 0 0) 0 = end_col s 0.
Proof.
  destruct (respell_inv s 0 0%nat) as [He Hc]; [cbn; lia|].
  change (0 - N.of_nat 0) with 0 in He, Hc. split; assumption.
Qed.

Lemma expand_no_tab (s : bytes) : (forall c, In c s -> c <> 9) -> forall col, expand s col = s.
Proof.
  induction s as [|c r IH]; intros Hs col.
  - reflexivity.
  - cbn [expand]. destruct (N.eqb_spec c 9) as [Hc|Hc].
    + exfalso. apply (Hs c); [left; reflexivity|assumption].
    + rewrite IH; [reflexivity|]. intros d Hd. apply Hs. right. assumption.
Qed.

Theorem respell_same_columns (s : bytes) : expand (respell s 0 0) 0 = expand s 0.
Proof. apply respell_inv0. Qed.

Theorem line_md_same_columns (l : line) : expand (line_md true l) 0 = expand (line_md false l) 0.
Proof.
  unfold line_md. destruct (respell_inv0 (fst l)) as [He Hc].
  rewrite !expand_app, He, Hc. reflexivity.
Qed.

(* a prefix without tabs is its own expansion, so the respelled prefix expands to the original *)
Theorem respell_expands_to_original (s : bytes) : (forall c, In c s -> c <> 9) -> expand (respell s 0 0) 0 = s.
Proof.
  intros Hs. rewrite respell_same_columns. apply expand_no_tab. assumption.
Qed.
