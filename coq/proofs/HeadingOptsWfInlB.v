(* HeadingOptsWfInl, part B (hwInl): the generic reader loops (SkipSpaces, ReadRune, FindClosure), the
   link destination and the code span parser under the lock-step relation Sim of part A; and the
   way back from RInv0 to the invariant RI of the core proofs. *)
Require Import GM.model.Base GM.model.Util GM.model.Reader GM.model.ReaderSpec GM.model.ListItem GM.model.CodeSpan GM.model.LinkDest
               GM.model.BlockParse GM.model.InlineParse.
Require Import GM.proofs.BReaderProofs GM.proofs.ParseInv GM.proofs.ParseInlineRangeReader GM.proofs.ParseInlineRangeParsers GM.proofs.HeadingOptsWfInlA.
From Coq Require Import ZArith Lia ZifyBool List Bool.
Import ListNotations.
Open Scope Z_scope.

(* step through a bind in a hypothesis *)
Ltac bd H x Hx :=
  match type of H with
  | bind ?X _ = _ => destruct X as [x| |] eqn:Hx; cbn [bind] in H; [|discriminate H|discriminate H]
  end.

Section B.
Variable space_table punct_table : list N.
Variable src : bytes.
Variable pre : list seg.
Variable e : seg.
Hypothesis Hpre : segs_ok src pre.
Hypothesis Hpads : Forall (fun s => s_pad s = 0) pre.
Hypothesis Hne : pre <> [].
Hypothesis He1 : s_start e = s_stop e.
Hypothesis He2 : s_pad e = 0.
Hypothesis He3 : s_fnl e = false.
Hypothesis Hke : last_stop pre <= s_start e.

Notation Sim := (Sim src pre e).
Notation EQS := (EQS src pre e).
Notation EQ := (EQ pre e).
Notation RInv0 := (RInv0 src pre).
Notation RInv1 := (RInv1 src pre e).
Notation k' := (last_stop pre).
Notation k := (s_start e).
Notation m := (zlen pre).

(* the lemmas of part A with the section hypotheses supplied *)
Ltac inst L := let X := fresh in pose proof (L src pre e) as X;
  repeat match type of X with ?P -> _ => specialize (X ltac:(assumption)) end; exact X.
Definition a_peek := ltac:(inst sim_peek).
Definition a_peek_line := ltac:(inst sim_peek_line).
Definition a_set_position := ltac:(inst sim_set_position).
Definition a_advance_line := ltac:(inst sim_advance_line).
Definition a_advance := ltac:(inst sim_advance).
Definition a_advance_fast := ltac:(inst sim_advance_fast).
Definition a_value := ltac:(inst sim_value).
Definition a_range := ltac:(inst sim_range).
Definition a_in_eqs := ltac:(inst sim_in_eqs).
Definition a_cur_facts := ltac:(inst cur_facts).
Definition a_kp_pos := ltac:(inst kp_pos).
Definition a_m_pos := ltac:(inst m_pos).

Lemma sim_inv0 r r' : Sim r r' -> RInv0 r.
Proof. intros (I & _). exact I. Qed.
Lemma sim_inv1 r r' : Sim r r' -> RInv1 r'.
Proof. intros (_ & J & _). exact J. Qed.

(* ---------- back to the invariant of the core proofs ---------- *)
Lemma RI_of r : RInv0 r -> b_in_range r = true -> RI src pre r.
Proof.
  intros I Hin. apply in_range_true in Hin. rewrite (i_segs _ _ _ I), (i_last _ _ _ I) in Hin. destruct Hin as [Hl [Hs0 Hs1]].
  pose proof (i_line _ _ _ I) as Hl0. pose proof a_kp_pos as Hk.
  destruct (nth_pre_lt pre (b_line r)) as [sg Hsg]; [lia|].
  destruct (i_cur _ _ _ I sg Hsg) as (C1 & C2 & C3 & C4). destruct (a_cur_facts _ _ Hsg) as (F1 & F2 & F3 & _).
  constructor; try (apply I); try assumption.
  constructor.
  - rewrite (i_src _ _ _ I), (i_segs _ _ _ I). exact Hpre.
  - rewrite (i_last _ _ _ I), (i_segs _ _ _ I). reflexivity.
  - exact Hl0.
  - rewrite (i_pad _ _ _ I). lia.
  - apply I.
  - rewrite (i_segs _ _ _ I). intros s Hs. rewrite Hsg in Hs. inversion Hs; subst s. repeat split; try lia; try assumption.
  - right. rewrite (i_segs _ _ _ I), (i_src _ _ _ I). split; [exact Hne|]. lia.
  - intros C. destruct (C (i_loff _ _ _ I)).
Qed.

(* ---------- SkipSpaces ---------- *)
Lemma sim_skip_spaces_inner : forall line i r r' chars sg r1 res, Sim r r' ->
  skip_spaces_inner space_table breader b_advance line i r chars sg = Ok (r1, res) ->
  exists r1', skip_spaces_inner space_table breader b_advance line i r' chars sg = Ok (r1', res) /\ Sim r1 r1'.
Proof.
  induction line as [|c tl IH]; intros i r r' chars sg r1 res S H; cbn [skip_spaces_inner] in *.
  - inversion H; subst. exists r'. auto.
  - destruct (is_space space_table c).
    + bd H r2 E2. destruct (a_advance r r' 1 r2 S ltac:(lia) E2) as (r2' & E2' & S2 & _). rewrite E2'. cbn [bind].
      exact (IH _ _ _ _ _ _ _ S2 H).
    + inversion H; subst. exists r'. auto.
Qed.

Lemma sim_skip_spaces : forall fuel fuel' r r' chars r1 sg ch ok, (fuel <= fuel')%nat -> Sim r r' ->
  skip_spaces space_table breader b_peek_line b_advance fuel r chars = Ok (r1, sg, ch, ok) ->
  exists r1' sg', skip_spaces space_table breader b_peek_line b_advance fuel' r' chars = Ok (r1', sg', ch, ok) /\ Sim r1 r1'.
Proof.
  induction fuel as [|f IH]; intros fuel' r r' chars r1 sg ch ok Hf S H; [discriminate H|].
  destruct fuel' as [|f']; [lia|]. cbn [skip_spaces] in *.
  bd H x Ex. destruct x as [[r0 ln] sg0].
  destruct (a_peek_line r r' r0 ln sg0 S Ex) as [-> [(v & -> & Hin & Q & -> & E')|(-> & Hin & E')]]; rewrite E'; cbn [bind].
  - bd H y Ey. destruct y as [r2 res].
    destruct (sim_skip_spaces_inner _ _ _ _ _ _ _ _ S Ey) as (r2' & Ey' & S2). rewrite Ey'. cbn [bind].
    destruct res as [[sg2 ch2]|].
    + inversion H; subst. exists r2'. eexists. split; [reflexivity|exact S2].
    + eapply (IH f' r2 r2'); [lia|exact S2|exact H].
  - inversion H; subst. exists r', (b_pos r'). auto.
Qed.

Lemma bfuel_le r r' : Sim r r' -> (bfuel r <= bfuel r')%nat.
Proof.
  intros (I & J & _). unfold bfuel. rewrite (i_src _ _ _ I), (j_src _ _ _ _ J), (i_segs _ _ _ I), (j_segs _ _ _ _ J), app_length. lia.
Qed.

Lemma sim_b_skip_spaces r r' r1 sg ch ok : Sim r r' -> b_skip_spaces space_table (bfuel r) r = Ok (r1, sg, ch, ok) ->
  exists r1' sg', b_skip_spaces space_table (bfuel r') r' = Ok (r1', sg', ch, ok) /\ Sim r1 r1'.
Proof. intros S H. exact (sim_skip_spaces _ _ _ _ _ _ _ _ _ (bfuel_le _ _ S) S H). Qed.

Lemma sim_skip_spaces_r r r' r1 : Sim r r' -> skip_spaces_r space_table r = Ok r1 ->
  exists r1', skip_spaces_r space_table r' = Ok r1' /\ Sim r1 r1'.
Proof.
  unfold skip_spaces_r. intros S H. bd H x Ex. destruct x as [[[r2 sg] ch] ok]. inversion H; subst r2.
  destruct (sim_b_skip_spaces _ _ _ _ _ _ S Ex) as (r1' & sg' & E' & S1). rewrite E'. cbn [bind]. exists r1'. auto.
Qed.

(* ---------- ReadRune ---------- *)
Lemma sim_read_rune r r' r1 rn w eof : Sim r r' -> b_read_rune r = Ok (r1, rn, w, eof) ->
  exists r1', b_read_rune r' = Ok (r1', rn, w, eof) /\ Sim r1 r1'.
Proof.
  unfold b_read_rune, read_rune. intros S H. bd H x Ex. destruct x as [[r0 ln] sg0].
  destruct (a_peek_line r r' r0 ln sg0 S Ex) as [-> [(v & -> & Hin & Q & -> & E')|(-> & Hin & E')]]; rewrite E'; cbn [bind].
  - destruct (decode_rune v) as [rn0 w0]. pose proof (N2Z.is_nonneg w0) as Hw. destruct (N.eqb rn0 65533).
    + inversion H; subst. exists r'. auto.
    + bd H r2 E2. inversion H; subst. destruct (a_advance r r' _ r1 S Hw E2) as (r2' & E2' & S2 & _). rewrite E2'. cbn [bind]. exists r2'. auto.
  - inversion H; subst. exists r'. auto.
Qed.

(* ---------- FindClosure ---------- *)
Lemma fc_scan_closed_nonneg opts o c : forall fuel bs i opened cso j, 0 <= i ->
  fc_scan punct_table fuel opts o c bs i opened cso = Ok (FcClosed j) -> 0 <= j.
Proof.
  intros fuel bs i opened cso j Hi H. pose proof (fc_scan_closed punct_table opts o c fuel bs i opened cso j H). lia.
Qed.

Lemma sim_fc_lines opts o c : forall fuel fuel' r r' opened cso ret r1 res, (fuel <= fuel')%nat -> Sim r r' ->
  fc_lines punct_table breader b_peek_line b_advance b_advance_line fuel opts o c r opened cso ret = Ok (r1, res) ->
  exists r1', fc_lines punct_table breader b_peek_line b_advance b_advance_line fuel' opts o c r' opened cso ret = Ok (r1', res) /\ Sim r1 r1'.
Proof.
  induction fuel as [|f IH]; intros fuel' r r' opened cso ret r1 res Hf S H; [discriminate H|].
  destruct fuel' as [|f']; [lia|]. cbn [fc_lines] in *.
  bd H x Ex. destruct x as [[r0 ln] sg0].
  destruct (a_peek_line r r' r0 ln sg0 S Ex) as [-> [(v & -> & Hin & Q & -> & E')|(-> & Hin & E')]]; rewrite E'; cbn [bind].
  - bd H sc Esc. cbn [bind]. destruct sc as [j| |op2 cso2].
    + bd H r2 E2. inversion H; subst.
      assert (Hj : 0 <= j + 1) by (pose proof (fc_scan_closed_nonneg _ _ _ _ _ 0 _ _ _ ltac:(lia) Esc); lia).
      destruct (a_advance r r' (j + 1) r1 S Hj E2) as (r2' & E2' & S2 & _). rewrite E2'. cbn [bind]. exists r2'. auto.
    + inversion H; subst. exists r'. auto.
    + destruct (negb (o_newline opts)); [inversion H; subst; exists r'; auto|].
      bd H r2 E2. destruct (a_advance_line r r' r2 S E2) as (r2' & E2' & S2 & _). rewrite E2'. cbn [bind].
      apply (IH f' r2 r2'); [lia|exact S2|exact H].
  - inversion H; subst. exists r'. auto.
Qed.

Lemma sim_find_closure r r' o c opts r1 res : Sim r r' ->
  b_find_closure punct_table (bfuel r) r o c opts = Ok (r1, res) ->
  exists r1', b_find_closure punct_table (bfuel r') r' o c opts = Ok (r1', res) /\ Sim r1 r1'.
Proof.
  unfold b_find_closure, find_closure, b_position. intros S H.
  bd H x Ex. destruct x as [r2 res2].
  destruct (sim_fc_lines opts o c _ _ _ _ _ _ _ _ _ (bfuel_le _ _ S) S Ex) as (r2' & Ex' & S2). rewrite Ex'. cbn [bind].
  destruct (negb (o_advance opts)).
  - bd H r3 E3. inversion H; subst.
    destruct (a_set_position r2 r2' r r' r1 (sim_inv0 _ _ S2) (sim_inv1 _ _ S2) S E3) as (r3' & E3' & S3 & _). rewrite E3'. cbn [bind]. exists r3'. auto.
  - cbn [bind] in *. inversion H; subst. exists r2'. auto.
Qed.

(* ---------- values of segment lists ---------- *)
Lemma sim_b_value r r' sg v : Sim r r' -> b_value r sg = Ok v -> b_value r' sg = Ok v.
Proof.
  intros (I & J & _). apply a_value; [apply (i_src _ _ _ I)|apply (i_segs _ _ _ I)|apply (j_src _ _ _ _ J)|apply (j_segs _ _ _ _ J)].
Qed.
Lemma sim_bvalues r r' : Sim r r' -> forall l v, bvalues r l = Ok v -> bvalues r' l = Ok v.
Proof.
  intros S. induction l as [|x t IH]; intros v H; cbn [bvalues] in *; [exact H|].
  bd H a Ea. bd H w Ew. rewrite (sim_b_value _ _ _ _ S Ea), (IH w eq_refl). exact H.
Qed.

(* ---------- parseLinkDestination ---------- *)
Lemma pld_adv_nonneg line d adv : parse_link_destination space_table punct_table line = Some (d, adv) -> 0 <= adv.
Proof. intros H. pose proof (parse_link_destination_range space_table punct_table line d adv H) as [Hr _]. lia. Qed.

Lemma sim_parse_link_destination r r' r1 dest : Sim r r' ->
  b_parse_link_destination space_table punct_table r = Ok (r1, dest) ->
  exists r1', b_parse_link_destination space_table punct_table r' = Ok (r1', dest) /\ Sim r1 r1'.
Proof.
  unfold b_parse_link_destination. intros S H.
  bd H x Ex. destruct x as [[[r2 sg] ch] ok].
  destruct (sim_b_skip_spaces _ _ _ _ _ _ S Ex) as (r2' & sg' & E' & S2). rewrite E'. cbn [bind].
  bd H y Ey. destruct y as [[r0 ln] sg0].
  destruct (a_peek_line r2 r2' r0 ln sg0 S2 Ey) as [-> [(v & -> & Hin & Q & -> & E2')|(-> & Hin & E2')]]; rewrite E2'; cbn [bind line_of] in *.
  - destruct (parse_link_destination space_table punct_table v) as [[d adv]|] eqn:Ed.
    + bd H r3 E3. inversion H; subst. pose proof (pld_adv_nonneg _ _ _ Ed) as Ha.
      destruct (a_advance r2 r2' _ r1 S2 Ha E3) as (r3' & E3' & S3 & _). rewrite E3'. cbn [bind]. exists r3'. auto.
    + inversion H; subst. exists r2'. auto.
  - destruct (parse_link_destination space_table punct_table []) as [[d adv]|] eqn:Ed.
    + bd H r3 E3. inversion H; subst. pose proof (pld_adv_nonneg _ _ _ Ed) as Ha.
      destruct (a_advance r2 r2' _ r1 S2 Ha E3) as (r3' & E3' & S3 & _). rewrite E3'. cbn [bind]. exists r3'. auto.
    + inversion H; subst. exists r2'. auto.
Qed.

(* ---------- the code span parser ---------- *)
Lemma sim_code_span_lines opener : forall fuel fuel' r r' acc res, (fuel <= fuel')%nat -> Sim r r' -> 0 <= opener ->
  code_span_lines fuel r opener acc = Ok res ->
  match res with
  | None => code_span_lines fuel' r' opener acc = Ok None
  | Some (segs, r1) => exists r1', code_span_lines fuel' r' opener acc = Ok (Some (segs, r1')) /\ Sim r1 r1'
  end.
Proof.
  induction fuel as [|f IH]; intros fuel' r r' acc res Hf S Ho H; [discriminate H|].
  destruct fuel' as [|f']; [lia|]. cbn [code_span_lines] in *.
  bd H x Ex. destruct x as [[r0 ln] sg0].
  destruct (a_peek_line r r' r0 ln sg0 S Ex) as [-> [(v & -> & Hin & Q & -> & E')|(-> & Hin & E')]]; rewrite E'; cbn [bind].
  - destruct (find_closer (Datatypes.S (length v)) v 0 opener) as [i|] eqn:Ec.
    + bd H r2 E2. inversion H; subst res.
      assert (Hi : 0 <= i) by (pose proof (find_closer_range _ _ _ _ _ Ec); lia).
      destruct (a_advance r r' i r2 S Hi E2) as (r2' & E2' & S2 & _). rewrite E2'. cbn [bind]. exists r2'. auto.
    + bd H r2 E2. destruct (a_advance_line r r' r2 S E2) as (r2' & E2' & S2 & _). rewrite E2'. cbn [bind].
      apply (IH f' r2 r2'); [lia|exact S2|exact Ho|exact H].
  - inversion H; subst res. reflexivity.
Qed.

Lemma sim_code_span_parse r r' res r1 : Sim r r' -> b_in_range r = true ->
  code_span_parse space_table r = Ok (res, r1) ->
  exists r1', code_span_parse space_table r' = Ok (res, r1') /\ Sim r1 r1'.
Proof.
  unfold code_span_parse. intros S Hin H.
  bd H x Ex. destruct x as [[r0 ln] sg0].
  destruct (a_peek_line r r' r0 ln sg0 S Ex) as [-> [(v & -> & _ & Q & -> & E')|(-> & Hout & _)]]; [|congruence].
  rewrite E'. cbn [bind].
  pose proof (count_byte_range 96 v) as Hc.
  bd H r2 E2. destruct (a_advance r r' _ r2 S (proj1 Hc) E2) as (r2' & E2' & S2 & _). rewrite E2'. cbn [bind].
  bd H y Ey.
  assert (Hfu : (Datatypes.S (length (b_segs r2)) <= Datatypes.S (length (b_segs r2')))%nat).
  { destruct S2 as (I2 & J2 & _). rewrite (i_segs _ _ _ I2), (j_segs _ _ _ _ J2), app_length. lia. }
  pose proof (sim_code_span_lines _ _ _ _ _ _ _ Hfu S2 (proj1 Hc) Ey) as Hy.
  destruct y as [[segs r3]|].
  - destruct Hy as (r3' & Ey' & S3). rewrite Ey'. cbn [bind].
    assert (Es : b_src r3' = b_src r3) by (destruct S3 as (I3 & J3 & _); rewrite (i_src _ _ _ I3), (j_src _ _ _ _ J3); reflexivity).
    rewrite Es. destruct (all_blank space_table (b_src r3) segs) as [bl| |]; cbn [bind] in *; try discriminate.
    destruct bl; [inversion H; subst; exists r3'; auto|].
    destruct segs as [|fs tl]; [discriminate H|]. destruct (rev (fs :: tl)) as [|ls rl]; [discriminate H|].
    match type of H with bind ?X _ = _ => destruct X as [cf| |]; cbn [bind] in *; try discriminate end.
    match type of H with bind ?X _ = _ => destruct X as [cl| |]; cbn [bind] in *; try discriminate end.
    destruct (cf && cl)%bool; inversion H; subst; exists r3'; auto.
  - rewrite Hy. cbn [bind]. bd H r3 E3. inversion H; subst.
    destruct (a_set_position r2 r2' r2 r2' r1 (sim_inv0 _ _ S2) (sim_inv1 _ _ S2) S2 E3) as (r3' & E3' & S3 & _).
    rewrite E3'. cbn [bind]. exists r3'. auto.
Qed.

End B.
