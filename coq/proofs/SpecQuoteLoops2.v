(* Block quotes around plain paragraphs, block phase, part 8: the loops of the parser model over
   all the lines of a quoted document follow the abstract machine; the block phase theorem. *)
Require Import GM.model.Base GM.model.Util GM.model.UtilI GM.model.Reader GM.model.ListItem GM.model.Blocks GM.model.CodeBlock
               GM.model.Regex GM.model.BlockParse GM.model.SpecDoc GM.model.HtmlWriter GM.model.Html GM.model.ParseI.
Require Import GM.gen.Tables GM.gen.Regexes GM.proofs.SpecParaBytes GM.proofs.SpecParaReader GM.proofs.SpecParaBlocks GM.proofs.SpecParaBlocks2
               GM.proofs.SpecQuoteShape GM.proofs.SpecQuoteMachine GM.proofs.SpecQuoteReader GM.proofs.SpecQuoteSteps
               GM.proofs.SpecQuoteSteps2 GM.proofs.SpecQuoteSteps3 GM.proofs.SpecQuoteEach GM.proofs.SpecQuoteEach2
               GM.proofs.SpecQuoteRel GM.proofs.SpecQuoteLoops GM.proofs.SpecQuoteRun.
From Coq Require Import List NArith ZArith Bool Lia.
Import ListNotations.
Open Scope Z_scope.

Lemma gt_not_space : is_space space_table 62%N = false.
Proof. vm_compute. reflexivity. Qed.

Opaque space_table punct_table.

(* ---------- lines ---------- *)
Definition nolastsep (ls : list qline) : Prop :=
  match last ls (LTxt [] []) with LTxt _ _ => True | LSep _ => False end.
Lemma nolastsep_tail l l' r : nolastsep (l :: l' :: r) -> nolastsep (l' :: r).
Proof. unfold nolastsep. cbn [last]. tauto. Qed.
Lemma ltext_cons tb l ls : ltext tb (l :: ls) = lbytes l ++ (match ls with [] => tb | _ => [10%N] end) ++ ltext tb ls.
Proof. destruct ls as [|l' r]; [cbn [ltext]; rewrite app_nil_r; reflexivity|reflexivity]. Qed.
Lemma ltext_lines tb ls : (length ls <= S (length (ltext tb ls)))%nat.
Proof.
  induction ls as [|l [|l' r] IH]; [cbn; lia|cbn [length]; lia|].
  rewrite ltext_cons2, !app_length. cbn [length] in *. lia.
Qed.
Lemma line_not_blank ms body term : body_okb body = true -> Reader.is_blank space_table (chain ms ++ body ++ term) = false.
Proof.
  intros Hb. destruct ms as [|s ms]; [cbn [chain app]; apply text_line_not_blank; exact Hb|].
  destruct (mk_cons s) as [l Hl]. cbn [chain]. rewrite Hl. cbn [app Reader.is_blank]. rewrite gt_not_space. reflexivity.
Qed.
Lemma last_lines :
  (forall b sg, qb_ok b = true -> exists fr ms body, qb_lines sg b = fr ++ [LTxt ms body]) /\
  (forall bs sg sepl, qbs_ok bs = true -> exists fr ms body, qbs_lines sg sepl bs = fr ++ [LTxt ms body]).
Proof.
  apply qb_qbs_ind.
  - intros p sg Hp. cbn [qb_ok] in Hp. destruct (para_ok_inv p Hp) as (b & r & -> & _ & _).
    destruct (exists_last (l := b :: r)) as (p' & x & E); [discriminate|]. rewrite E. cbn [qb_lines]. rewrite map_app. cbn [map].
    exists (map (LTxt sg) p'), sg, x. reflexivity.
  - intros st bs IH sg Hok. cbn [qb_ok qb_lines] in *. apply IH. exact Hok.
  - intros b IH sg sepl Hok. cbn [qbs_ok qbs_lines] in *. apply IH. exact Hok.
  - intros b IHb r IHr sg sepl Hok. cbn [qbs_ok qbs_lines] in *. apply andb_true_iff in Hok. destruct Hok as [_ Hr].
    destruct (IHr sg sepl Hr) as (fr & ms & body & E). rewrite E.
    exists (qb_lines sg b ++ sepl :: fr), ms, body. rewrite <- app_assoc. reflexivity.
Qed.
Lemma qdoc_nolastsep d : qbs_ok d = true -> nolastsep (qdoc_lines d).
Proof.
  intros Hok. destruct (proj2 last_lines d [] (LSep None) Hok) as (fr & ms & body & E).
  unfold qdoc_lines, nolastsep. rewrite E, last_last. exact I.
Qed.

Section Driver.
Variable norm : bytes -> bytes.
Variables re_t1o re_t1c re_t2 re_t3 re_t4 re_t5 re_t6 re_t7 : re.
Variable allowed_tags : list bytes.
Notation OB := (open_blocks space_table punct_table norm re_t1o re_t1c re_t2 re_t3 re_t4 re_t5 re_t6 re_t7 allowed_tags).
Notation EACH := (each_opened space_table punct_table norm re_t1o re_t1c re_t2 re_t3 re_t4 re_t5 re_t6 re_t7 allowed_tags).
Notation LINES := (lines_loop space_table punct_table norm re_t1o re_t1c re_t2 re_t3 re_t4 re_t5 re_t6 re_t7 allowed_tags).
Notation PBL := (parse_blocks_loop space_table punct_table norm re_t1o re_t1c re_t2 re_t3 re_t4 re_t5 re_t6 re_t7 allowed_tags).

(* what parseBlocks does with the result of the per-line loop *)
Definition K (fp : nat) (y : (st + st) * list (Z * Z * bool)) : result st :=
  let '(r, stats) := y in match r with inl s => Ok s | inr s => PBL fp 0%nat stats s end.

(* no block is open: back to the outer loop *)
Lemma lines_done f src tl s m k pre suf stats :
  Rel src tl s m k pre suf -> a_q s = [] -> a_p s = false ->
  LINES (S f) 0%nat stats m = Ok (inr m, stats).
Proof.
  intros [_ _ _ [junk Hctx] _ _ _ _] Hq Hp. cbn [lines_loop]. rewrite Hctx. unfold aop. rewrite Hq, Hp. reflexivity.
Qed.

(* the end of the source with the paragraph open *)
Lemma lines_eof f src tl s m k pre stats :
  Rel src tl s m k pre [] -> a_p s = true ->
  exists sfin stats', LINES (S f) 0%nat stats m = Ok (inl sfin, stats') /\
                      map unblank (s_h sfin) = afinal tl s /\ c_refs (s_c sfin) = [].
Proof.
  intros [Hsrc Hoff Hheap [junk Hctx] Hrd Hbq Hpar Hroot] Hp.
  destruct m as [h c r]. cbn [s_h s_c s_r] in *. subst c r.
  destruct (Hpar Hp) as (h0 & pp & acc & a & e & bl & pre0 & body0 & term0 & Hh & Hacc & Hcur & Hpre & Htl).
  subst h.
  assert (Hlh : length (a_h s) = S (length h0)).
  { rewrite <- Hheap, map_length, app_length. cbn [length]. lia. }
  assert (Hq0 : Forall (is_bq h0) (a_q s)).
  { eapply Forall_impl; [|exact Hbq]. intros x Hx. eapply is_bq_front_inv; [exact Hx|apply pnode_not_bq]. }
  assert (Hcap : aop s = qop (a_q s) ++ [(length h0, PParagraph)]).
  { unfold aop. rewrite Hp, Hlh. replace (S (length h0) - 1)%nat with (length h0) by lia. reflexivity. }
  rewrite Hcap in *.
  pose proof (cur_line_len _ _ _ _ _ _ _ Hcur) as Hlen0.
  eexists. eexists. split; [|split].
  - erewrite lines_loop_step; [|cbn [s_c]; apply opened_octx|destruct (qop (a_q s)); discriminate].
    cbn [s_r]. unfold rdA.
    replace (zlen (qop (a_q s) ++ [(length h0, PParagraph)]) - 1) with (zlen (a_q s))
      by (rewrite zlen_app, zlen_qop; change (zlen [(length h0, PParagraph)]) with 1; lia).
    rewrite (each_eof_at norm re_t1o re_t1c re_t2 re_t3 re_t4 re_t5 re_t6 re_t7 allowed_tags
               _ (a_q s) junk 0%nat stats h0 pp acc bl src pre0 body0 term0 [] a e k _ _ _ Hacc Hcur Hq0).
    2:{ rewrite Hsrc, app_nil_r. lia. }
    cbn [bind]. reflexivity.
  - cbn [advance_line_s st_r s_h]. unfold afinal. rewrite <- Hheap, !map_app. cbn [map]. rewrite !unblank_pnode, upd_last_app.
    unfold trim_node. cbn [pnode blines set_lines]. rewrite trim_segs_app.
    replace (e - tl) with (a + zlen body0) by lia. reflexivity.
  - reflexivity.
Qed.

Lemma skip_blank_line f src k a b pre line rest : at_line src pre line rest a b -> line <> [] ->
  Reader.is_blank space_table line = false ->
  r_skip_blank_lines space_table (S f) (rd src k a b a None (-1)) =
  Ok (rd src k a b a (SomeB line) (-1), lseg a b, 0, true).
Proof.
  intros Hat Hne Hnb. unfold r_skip_blank_lines. cbn [skip_blank_lines].
  rewrite (peek_fresh src pre line rest k a b (-1) Hat Hne). cbn [bind]. rewrite Hnb. reflexivity.
Qed.

(* the outer loop: the first line of a top-level block *)
Lemma pbl_first fp src tl s m k pre ms body term rest stats :
  Rel src tl s m k pre ((chain ms ++ body) ++ term ++ rest) -> a_q s = [] -> a_p s = false ->
  body_okb body = true -> term_ok term rest ->
  exists stats1 m1,
    PBL (S fp) 0%nat stats m = (y <- LINES (S (length src)) 0%nat stats1 m1 ;; K fp y) /\
    Rel src (zlen term) (astep (zlen term) s (LTxt ms body)) m1 (k + 1) (pre ++ (chain ms ++ body) ++ term) rest.
Proof.
  intros [Hsrc Hoff Hheap [junk Hctx] Hrd Hbq Hpar Hroot] Hq Hp Hb Ht.
  destruct m as [h c r]. cbn [s_h s_c s_r] in *. subst c r.
  assert (Hlh : length (a_h s) = length h) by (rewrite <- Hheap, map_length; reflexivity).
  destruct (nth_error h 0%nat) as [pn|] eqn:HP; [|apply nth_error_None in HP; lia].
  set (L := chain ms ++ body ++ term).
  assert (HL : (chain ms ++ body) ++ term = L) by (unfold L; rewrite <- app_assoc; reflexivity).
  assert (Hsrc' : src = pre ++ L ++ rest) by (rewrite Hsrc, <- HL, <- !app_assoc; reflexivity).
  assert (Hat : at_line src pre L rest (zlen pre) (zlen pre + zlen L)) by (rewrite Hsrc'; apply at_line_here).
  assert (Hcap : aop s = qop []) by (unfold aop; rewrite Hp, Hq; reflexivity).
  rewrite Hcap in *.
  assert (HneL : L <> []).
  { unfold L. destruct (chain_body_head ms body term Hb) as (c1 & tail & E & _). rewrite E. discriminate. }
  assert (Ha : 0 <= zlen pre) by apply zlen_nonneg.
  set (blank := is_blank_line (k - 1) 0 stats).
  set (sg := mkseg (zlen pre + zlen (chain ms)) (zlen pre + zlen L)).
  exists stats. eexists. split.
  - cbn [parse_blocks_loop]. unfold src_of. cbn [s_r].
    rewrite (rdA_line src k pre (chain ms ++ body) term rest) by (first [exact Ht|apply no_nl_app; [apply no_nl_chain|apply no_nl_body; exact Hb]]).
    rewrite HL. rewrite ?r_src_rd.
    rewrite (skip_blank_line _ src k _ _ pre L rest Hat HneL (line_not_blank ms body term Hb)). cbn [bind]. cbv iota. cbn [negb].
    unfold st_r. cbn [s_h s_c s_r]. change (0 =? 0) with true. cbn [negb]. cbv iota.
    unfold rline. cbn [s_r]. rewrite ?r_line_rd, ?r_src_rd. fold blank.
    rewrite (ob_first norm re_t1o re_t1c re_t2 re_t3 re_t4 re_t5 re_t6 re_t7 allowed_tags _ ms h pn [] junk src pre body term rest k
               (zlen pre) (zlen pre + zlen L) (zlen pre) (SomeB L) 0%nat blank); try assumption.
    2:{ pose proof (chain_length ms). rewrite Hsrc', !app_length. unfold L. rewrite !app_length. lia. }
    2:{ constructor. }
    2:{ right. reflexivity. }
    cbn [bind]. change (newBlocksOpened =? newBlocksOpened) with true. cbn [negb]. cbv iota.
    unfold src_of. cbn [s_r]. rewrite ?r_src_rd.
    rewrite (advance_after src k _ _ _ _ _ pre L rest) by (try exact Hsrc'; reflexivity).
    unfold rdA at 1. rewrite ?r_src_rd. fold (rdA src (k + 1) (pre ++ L) rest). fold sg. reflexivity.
  - assert (Hla : length (add_children h 0%nat [length h]) = length h) by apply add_children_length.
    assert (Hheap' : map unblank (add_children h 0%nat [length h] ++ first_nodes blank 0%nat (length h) (length ms) [sg]) =
                     a_h (astep (zlen term) s (LTxt ms body))).
    { cbn [astep]. rewrite Hp. cbn [a_h]. rewrite map_app, unblank_add_children, unblank_first_nodes, Hheap, Hlh, Hq.
      cbn [lastq last length]. rewrite Nat.sub_0_r. f_equal. f_equal.
      unfold sg. rewrite Hoff. unfold L. rewrite !zlen_app.
      replace (zlen pre + zlen (chain ms) + zlen body + zlen term) with (zlen pre + (zlen (chain ms) + (zlen body + zlen term))) by lia.
      reflexivity. }
    destruct (first_nodes_split blank (length ms) 0%nat (length h) [sg]) as (front & pp' & Efn & Hlf).
    rewrite HL. split; cbn [s_h s_c s_r].
    + rewrite Hsrc'. rewrite <- !app_assoc. reflexivity.
    + cbn [astep]. rewrite Hp. cbn [a_off]. rewrite Hoff, zlen_app. unfold L. rewrite !zlen_app. lia.
    + exact Hheap'.
    + eexists. f_equal. unfold aop. rewrite <- Hheap'. cbn [astep]. rewrite Hp. cbn [a_q a_p].
      rewrite map_length, app_length, first_nodes_length, Hla, Hlh, Hq. cbn [length app]. rewrite Nat.sub_0_r.
      replace (length h + S (length ms) - 1)%nat with (length h + length ms)%nat by lia.
      cbn [qop map app]. reflexivity.
    + reflexivity.
    + cbn [astep]. rewrite Hp. cbn [a_q]. rewrite Hlh, Hq. cbn [length app]. rewrite Nat.sub_0_r.
      apply Forall_forall. intros y Hy. apply in_seq in Hy.
      replace y with (length h + (y - length h))%nat by lia. apply first_nodes_bq; [exact Hla|lia].
    + intros _. exists (add_children h 0%nat [length h] ++ front), pp', [], (zlen pre + zlen (chain ms)), (zlen pre + zlen L), blank, (pre ++ chain ms), body, term.
      split; [rewrite Efn, <- app_assoc; reflexivity|]. split; [constructor|].
      split.
      { split; [|exact Hb|exact Ht]. apply at_line_shift. exact Hat. }
      split; [unfold L; rewrite <- !app_assoc; reflexivity|reflexivity].
    + rewrite app_length, first_nodes_length. lia.
Qed.
(* all the remaining lines LS of the document, from inside the per-line loop *)
Lemma main_lines src tb (Htb : term_ok tb []) : forall n LS, (length LS <= n)%nat ->
  forall s m k pre tl fl fp stats,
  Rel src tl s m k pre (ltext tb LS) -> avalid s LS -> nolastsep LS ->
  (a_p s = true \/ ((1 <= length (a_q s))%nat /\ LS <> [])) -> (LS = [] -> tl = zlen tb) ->
  (length LS < fl)%nat -> (length LS <= fp)%nat -> (length LS <= length src)%nat ->
  exists sfin, (y <- LINES fl 0%nat stats m ;; K fp y) = Ok sfin /\
               map unblank (s_h sfin) = afinal (zlen tb) (arun (zlen tb) s LS) /\ c_refs (s_c sfin) = [].
Proof.
  induction n as [|n IH]; intros LS Hn s m k pre tl fl fp stats HR Hv Hnl Hinv Htl Hfl Hfp Hsl.
  - destruct LS as [|l LS']; [|cbn [length] in Hn; lia].
    destruct Hinv as [Hp|[_ Hne]]; [|congruence].
    destruct fl as [|fl]; [cbn [length] in Hfl; lia|].
    destruct (lines_eof fl src tl s m k pre stats HR Hp) as (sfin & stats' & Hrun & Hh & Hrefs).
    exists sfin. rewrite Hrun. cbn [bind K]. split; [reflexivity|]. split; [|exact Hrefs].
    rewrite Hh, (Htl eq_refl). reflexivity.
  - destruct LS as [|l LS'].
    { apply (IH [] (Nat.le_0_l _) s m k pre tl fl fp stats); assumption. }
    cbn [length] in Hn, Hfl, Hfp, Hsl. destruct fl as [|fl]; [lia|].
    set (term := match LS' with [] => tb | _ => [10%N] end).
    set (rest := ltext tb LS').
    assert (Hterm : term_ok term rest).
    { unfold term, rest. destruct LS' as [|l' r]; [exact Htb|left; reflexivity]. }
    assert (Harun : arun (zlen tb) s (l :: LS') = arun (zlen tb) (astep (zlen term) s l) LS').
    { unfold term. destruct LS' as [|l' r]; reflexivity. }
    assert (Hv' : avalid (astep (zlen term) s l) LS').
    { unfold term. destruct LS' as [|l' r]; [exact I|]. cbn [avalid] in Hv. exact (proj2 Hv). }
    assert (Hnl' : nolastsep LS').
    { destruct LS' as [|l' r]; [exact I|exact (nolastsep_tail _ _ _ Hnl)]. }
    assert (Htl' : LS' = [] -> zlen term = zlen tb) by (intros ->; reflexivity).
    rewrite ltext_cons in HR. fold term rest in HR.
    cbn [avalid] in Hv. destruct Hv as [Hlv _].
    rewrite Harun.
    destruct l as [ms body|tau].
    + (* a text line *)
      cbn [lvalid] in Hlv. destruct Hlv as [Hb Hlen]. cbn [lbytes] in HR.
      assert (Hstep : exists stats' m', LINES (S fl) 0%nat stats m = LINES fl 0%nat stats' m' /\
                 Rel src (zlen term) (astep (zlen term) s (LTxt ms body)) m' (k + 1) (pre ++ (chain ms ++ body) ++ term) rest).
      { destruct (a_p s) eqn:Hp.
        - apply (step_cont norm re_t1o re_t1c re_t2 re_t3 re_t4 re_t5 re_t6 re_t7 allowed_tags fl src tl s m k pre ms body term rest stats HR Hp Hlen Hb Hterm).
        - destruct Hinv as [Hc|[Hq1 _]]; [discriminate|].
          apply (step_open norm re_t1o re_t1c re_t2 re_t3 re_t4 re_t5 re_t6 re_t7 allowed_tags fl src tl s m k pre ms body term rest stats HR Hp Hq1 Hlen Hb Hterm). }
      destruct Hstep as (stats' & m' & Hrun & HR').
      rewrite Hrun.
      apply (IH LS' ltac:(lia) _ m' (k + 1) _ (zlen term) fl fp stats' HR' Hv' Hnl'); try lia; try exact Htl'.
      left. cbn [astep]. destruct (a_p s); reflexivity.
    + (* a separator line *)
      cbn [lvalid] in Hlv. destruct Hlv as [Hp Hlen].
      destruct LS' as [|l0 LS''].
      { unfold nolastsep in Hnl. cbn [last] in Hnl. contradiction. }
      unfold term in *. change (zlen [10%N]) with 1 in *.
      assert (Hlen' : (length (sep_ms tau) <= length (a_q s))%nat).
      { rewrite sep_ms_length. destruct tau as [t|]; [exact Hlen|lia]. }
      destruct (step_sep norm re_t1o re_t1c re_t2 re_t3 re_t4 re_t5 re_t6 re_t7 allowed_tags fl src tl s m k pre tau rest stats HR Hp Hlen')
        as (stats' & m' & Hrun & HR').
      rewrite Hrun.
      destruct tau as [t|].
      * (* inside the top-level block *)
        apply (IH (l0 :: LS'') ltac:(cbn [length] in *; lia) _ m' (k + 1) _ 0 fl fp stats' (HR' 0) Hv' Hnl'); try (cbn [length] in *; lia); try discriminate.
        right. split; [|discriminate]. cbn [astep a_q]. rewrite firstn_length. lia.
      * (* the empty line: back to the outer loop, the first line of the next block *)
        set (s1 := astep 1 s (LSep None)) in *.
        assert (Hq1 : a_q s1 = []) by reflexivity. assert (Hp1 : a_p s1 = false) by reflexivity.
        destruct fl as [|fl]; [cbn [length] in Hfl; lia|].
        rewrite (lines_done fl src 0 s1 m' (k + 1) _ _ stats' (HR' 0) Hq1 Hp1). cbn [bind K].
        cbn [length] in Hfp. destruct fp as [|fp]; [lia|].
        cbn [avalid] in Hv'. destruct Hv' as [Hlv0 Hv''].
        destruct l0 as [ms body|tau0]; [|cbn [lvalid] in Hlv0; rewrite Hp1 in Hlv0; destruct Hlv0; discriminate].
        cbn [lvalid] in Hlv0. destruct Hlv0 as [Hb _].
        set (term0 := match LS'' with [] => tb | _ => [10%N] end).
        set (rest0 := ltext tb LS'').
        assert (Hterm0 : term_ok term0 rest0).
        { unfold term0, rest0. destruct LS'' as [|l' r]; [exact Htb|left; reflexivity]. }
        pose proof (HR' 0) as HR0. unfold rest in HR0. rewrite ltext_cons in HR0. fold term0 rest0 in HR0. cbn [lbytes] in HR0.
        destruct (pbl_first fp src 0 s1 m' (k + 1) _ ms body term0 rest0 stats' HR0 Hq1 Hp1 Hb Hterm0) as (stats1 & m1 & Hpbl & HR1).
        rewrite Hpbl.
        assert (Harun0 : arun (zlen tb) s1 (LTxt ms body :: LS'') = arun (zlen tb) (astep (zlen term0) s1 (LTxt ms body)) LS'').
        { unfold term0. destruct LS'' as [|l' r]; reflexivity. }
        rewrite Harun0.
        assert (Hv0 : avalid (astep (zlen term0) s1 (LTxt ms body)) LS'').
        { unfold term0. destruct LS'' as [|l' r]; [exact I|exact Hv'']. }
        assert (Hnl0 : nolastsep LS'').
        { destruct LS'' as [|l' r]; [exact I|exact (nolastsep_tail _ _ _ Hnl')]. }
        apply (IH LS'' ltac:(cbn [length] in *; lia) _ m1 (k + 1 + 1) _ (zlen term0) (S (length src)) fp stats1 HR1 Hv0 Hnl0);
          try (cbn [length] in *; lia).
        { left. reflexivity. }
        { unfold term0. intros ->. reflexivity. }
Qed.

(* the whole document from the outer loop *)
Lemma main_doc src tb LS s m k stats fp :
  term_ok tb [] -> Rel src 0 s m k [] (ltext tb LS) -> a_q s = [] -> a_p s = false ->
  LS <> [] -> avalid s LS -> nolastsep LS -> (length LS <= fp)%nat ->
  exists sfin, PBL fp 0%nat stats m = Ok sfin /\
               map unblank (s_h sfin) = afinal (zlen tb) (arun (zlen tb) s LS) /\ c_refs (s_c sfin) = [].
Proof.
  intros Htb HR Hq Hp Hne Hv Hnl Hfp.
  destruct LS as [|l0 LS']; [congruence|]. cbn [length] in Hfp. destruct fp as [|fp]; [lia|].
  cbn [avalid] in Hv. destruct Hv as [Hlv0 Hv'].
  destruct l0 as [ms body|tau0]; [|cbn [lvalid] in Hlv0; rewrite Hp in Hlv0; destruct Hlv0; discriminate].
  cbn [lvalid] in Hlv0. destruct Hlv0 as [Hb _].
  set (term0 := match LS' with [] => tb | _ => [10%N] end).
  set (rest0 := ltext tb LS').
  assert (Hterm0 : term_ok term0 rest0).
  { unfold term0, rest0. destruct LS' as [|l' r]; [exact Htb|left; reflexivity]. }
  assert (Hlen : (length (LTxt ms body :: LS') <= S (length src))%nat).
  { rewrite (R_src _ _ _ _ _ _ _ HR). cbn [app]. apply ltext_lines. }
  rewrite ltext_cons in HR. fold term0 rest0 in HR. cbn [lbytes] in HR.
  destruct (pbl_first fp src 0 s m k [] ms body term0 rest0 stats HR Hq Hp Hb Hterm0) as (stats1 & m1 & Hpbl & HR1).
  rewrite Hpbl.
  assert (Harun0 : arun (zlen tb) s (LTxt ms body :: LS') = arun (zlen tb) (astep (zlen term0) s (LTxt ms body)) LS').
  { unfold term0. destruct LS' as [|l' r]; reflexivity. }
  rewrite Harun0.
  assert (Hv0 : avalid (astep (zlen term0) s (LTxt ms body)) LS').
  { unfold term0. destruct LS' as [|l' r]; [exact I|exact Hv']. }
  assert (Hnl0 : nolastsep LS').
  { destruct LS' as [|l' r]; [exact I|exact (nolastsep_tail _ _ _ Hnl)]. }
  cbn [length] in Hlen.
  apply (main_lines src tb Htb (length LS') LS' (le_n _) _ m1 (k + 1) _ (zlen term0) (S (length src)) fp stats1 HR1 Hv0 Hnl0); try lia.
  - left. cbn [astep]. rewrite Hp. reflexivity.
  - unfold term0. intros ->. reflexivity.
Qed.
End Driver.
