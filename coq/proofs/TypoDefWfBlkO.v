(* Helper library for TypoDefWfBlk.v, part O (first half of the fork of ParseBlocksRangeN.v): what the steps of openBlocks leave
   alone (frames of transformParagraph / Close / Continue of paragraphs), the entry of a new block in the opened blocks
   (attach_state), the paragraph a setext heading line follows, the line the loop looks at and the guards of the
   definition list parsers (Off, LineG), the parser lists of the loop (DShape). *)
Require Import GM.model.Base GM.model.Util GM.model.Reader GM.model.ReaderSpec GM.model.Blocks GM.model.ListItem
               GM.model.LeafBlocks GM.model.CodeBlock GM.model.LinkDest GM.model.Regex GM.model.HtmlWriter
               GM.model.Html GM.model.HtmlSpec GM.model.BlockParse GM.model.InlineParse GM.model.TypoDefParseD.
Require Import GM.proofs.ReaderProofs GM.proofs.BlockRangeProofs GM.proofs.ParseInv
               GM.proofs.ParseBlocksRangeA GM.proofs.TypoDefWfBlkB GM.proofs.TypoDefWfBlkT GM.proofs.TypoDefWfBlkC
               GM.proofs.TypoDefWfBlkD GM.proofs.TypoDefWfBlkE
               GM.proofs.TypoDefWfBlkG GM.proofs.TypoDefWfBlkH GM.proofs.TypoDefWfBlkJ GM.proofs.TypoDefWfBlkM
               GM.proofs.TypoDefWfBlkR GM.proofs.TypoDefWfBlkS.
Require GM.proofs.TypoDefConservativeBlkInv GM.proofs.TypoDefConservativeBlkA GM.proofs.TypoDefConservativeBlk.
From Coq Require Import ZArith Lia Sorted.
Open Scope Z_scope.

Section O.
Variable space_table punct_table : list N.
Variable norm : bytes -> bytes.
Variable re_t1o re_t1c re_t2 re_t3 re_t4 re_t5 re_t6 re_t7 : re.
Variable allowed_tags : list bytes.
Variable src : bytes.
Hypothesis sp32 : is_space space_table 32%N = true.
Set Default Proof Using "All".

(* lemmas of parts C and D take all the section variables: CC supplies them *)
Notation CC f := (f space_table punct_table norm re_t1o re_t1c re_t2 re_t3 re_t4 re_t5 re_t6 re_t7 allowed_tags src sp32) (only parsing).
Notation SInv := (SInv space_table src).
Notation HI := (HI space_table src).
Notation nodeP := (nodeP space_table src).
Notation heapS := (heapS space_table src).
Notation Jinv := (Jinv src).
Notation openS := (openS src).
Notation pline := (pline space_table src).
Notation oline := (oline src).
Notation fin_lines := (fin_lines src).
Notation fin := (fin src).
Notation cont_post := (cont_post space_table src).
Notation item_guard := (item_guard space_table).
Notation verdict := (verdict space_table).
Hypothesis Hsrc : bytes_ok src.
Notation CE f := (f space_table punct_table norm re_t1o re_t1c re_t2 re_t3 re_t4 re_t5 re_t6 re_t7 allowed_tags src sp32) (only parsing).
Notation CJ f := (f space_table punct_table norm re_t1o re_t1c re_t2 re_t3 re_t4 re_t5 re_t6 re_t7 allowed_tags src sp32 Hsrc) (only parsing).
Notation OInv := (OInv space_table src).


(* ---------- what transformParagraph and Close of paragraphs leave alone ---------- *)
(* every node below L but `node` keeps its data and its parent, and stays childless if it was *)
Definition fr (node L : nat) (h h' : heap) : Prop :=
  forall j nj, nth_error h j = Some nj -> j <> node -> (j < L)%nat ->
  exists nj', nth_error h' j = Some nj' /\ bk nj' = bk nj /\ bpar nj' = bpar nj /\ (bch nj = [] -> bch nj' = []) /\
    b_i1 nj' = b_i1 nj /\ b_i2 nj' = b_i2 nj /\ b_seg nj' = b_seg nj /\ blines nj' = blines nj.
Lemma fr_refl node L h : fr node L h h.
Proof. intros j nj E _ _. exists nj. csplit; auto. Qed.
Lemma fr_trans node L a b c : fr node L a b -> fr node L b c -> fr node L a c.
Proof.
  intros H1 H2 j nj E Hj Hl. destruct (H1 j nj E Hj Hl) as [n1 [E1 [K1 [P1 [C1 [I1 [J1 [S1 L1]]]]]]]].
  destruct (H2 j n1 E1 Hj Hl) as [n2 [E2 [K2 [P2 [C2 [I2 [J2 [S2 L2]]]]]]]].
  exists n2. csplit; auto; congruence.
Qed.
Lemma fr_app node L h n : fr node L h (h ++ [n]).
Proof. intros j nj E _ _. exists nj. rewrite nth_error_app1 by (eapply nth_some_lt; eassumption). csplit; auto. Qed.
Lemma fr_hupd node L h i f h' : hupd h i f = Ok h' ->
  (i <> node -> (i < L)%nat -> forall n, bk (f n) = bk n /\ bpar (f n) = bpar n /\ (bch n = [] -> bch (f n) = []) /\
     b_i1 (f n) = b_i1 n /\ b_i2 (f n) = b_i2 n /\ b_seg (f n) = b_seg n /\ blines (f n) = blines n) -> fr node L h h'.
Proof.
  intros H Hf j nj E Hj Hl. apply hupd_ok in H. destruct H as [n [En ->]]. destruct (Nat.eq_dec j i) as [->|Hne].
  - assert (nj = n) by congruence. subst nj. exists (f n). rewrite nth_hset_eq by (eapply nth_some_lt; eassumption).
    split; [reflexivity|]. apply Hf; assumption.
  - exists nj. rewrite nth_hset_ne by congruence. csplit; auto.
Qed.

Lemma transform_frame s node s' gone : transform_paragraph space_table punct_table norm s node = Ok (s', gone) ->
  fr node (length (s_h s)) (s_h s) (s_h s').
Proof.
  intros H. unfold transform_paragraph in H. bind_inv H s1 E1. bind_inv H n1 En1. injection H as <- _.
  unfold lrd_transform in E1. bind_inv E1 n En. bind_inv E1 br Ebr. bind_inv E1 x Ex. destruct x as [c removes].
  bind_inv E1 lines El. destruct lines as [|l0 ls].
  - unfold new_node, halloc in E1. cbv beta iota zeta in E1. cbn [st_c st_h s_h s_c] in E1.
    destruct (bpar n) as [p|]; [|discriminate]. bind_inv E1 h1 Eh. injection E1 as <-. cbn [st_h s_h].
    eapply fr_trans; [apply fr_app|].
    unfold replace_child in Eh. bind_inv Eh no Eno. destruct (opt_nat_eqb (bpar no) (Some p)).
    + bind_inv Eh h2 E2. bind_inv Eh h3 E3.
      eapply fr_trans; [eapply fr_hupd; [exact E2|]|eapply fr_trans; [eapply fr_hupd; [exact E3|]|eapply fr_hupd; [exact Eh|]]].
      * intros _ _ m. cbn [set_ch bk bpar bch b_i1 b_i2 b_seg blines]. csplit; auto. intros ->. reflexivity.
      * intros _ Hl. lia.
      * intros Hne _. congruence.
    + injection Eh as <-. apply fr_refl.
  - cbn [st_c s_h] in E1. bind_inv E1 h1 Eh. injection E1 as <-. cbn [st_h s_h].
    eapply fr_hupd; [exact Eh|]. intros Hne _. congruence.
Qed.

(* Close of a paragraph changes the lines of that paragraph only *)
Lemma paragraph_close_frame s node n s' : nth_error (s_h s) node = Some n -> blines n <> [] ->
  paragraph_close space_table s node = Ok s' ->
  forall j, j <> node -> nth_error (s_h s') j = nth_error (s_h s) j.
Proof.
  intros En0 Hne H j Hj. unfold paragraph_close in H. bind_inv H n1 En. apply hget_ok in En. assert (n1 = n) by congruence. subst n1.
  destruct (blines n) as [|l0 lt] eqn:El; [congruence|]. bind_inv H ls Els.
  destruct (rev ls) as [|lst pre]; [discriminate|]. bind_inv H lst' Et. bind_inv H h1 Eh. injection H as <-.
  apply hupd_ok in Eh. destruct Eh as [n1 [_ ->]]. cbn [st_h s_h]. apply nth_hset_ne. congruence.
Qed.

Lemma paragraph_continue_shape s node s' cont : paragraph_continue space_table s node = Ok (s', cont) ->
  shape_le (s_h s) (s_h s').
Proof.
  intros H. unfold paragraph_continue in H. bind_inv H x Ex. destruct x as [[s1 l] sg].
  unfold peek_line_s in Ex. bind_inv Ex y Ey. destruct y as [[r1 l1] sg1]. injection Ex as <- <- <-. cbn [st_r s_h] in H.
  destruct (Reader.is_blank space_table (line_of l1)).
  - injection H as <- _. apply shape_le_refl.
  - bind_inv H h1 Eh. bind_inv H s2 Ea. injection H as <- _. unfold advance_s in Ea. bind_inv Ea r2 Er. injection Ea as <-.
    cbn [st_r st_h s_h]. apply hupd_ok in Eh. destruct Eh as [n [En ->]]. eapply shape_le_hset; [exact En|apply (CC same_shape_lines)].
Qed.


(* ---------- list items are only opened below lists ---------- *)
Lemma list_item_open_parent s parent s' x : list_item_open_s space_table s parent = Ok (s', Some x) ->
  exists pn, nth_error (s_h s) parent = Some pn /\ bk pn = BList.
Proof.
  intros H. unfold list_item_open_s in H. bind_inv H pn Epn. apply hget_ok in Epn.
  destruct (bkind_eqb (bk pn) BList) eqn:Ek; cbn [negb] in H; [|discriminate].
  apply (CC bkind_eqb_eq) in Ek. eauto.
Qed.

Lemma uniqS_snoc E y bq : uniqS E -> (bq = PSetext -> forall z, ~ In (z, PSetext) E) -> uniqS (E ++ [(y, bq)]).
Proof.
  intros Hu Hn a b Ha Hb. apply in_app_or in Ha. apply in_app_or in Hb.
  destruct Ha as [Ha|[Ha|[]]], Hb as [Hb|[Hb|[]]].
  - apply Hu; assumption.
  - injection Hb as -> ->. destruct (Hn eq_refl a Ha).
  - injection Ha as -> ->. destruct (Hn eq_refl b Hb).
  - congruence.
Qed.

(* ---------- only the setext parser touches the temporary paragraph of the context ---------- *)
Lemma peek_line_s_c s s' l sg : peek_line_s s = Ok (s', l, sg) -> s_c s' = s_c s /\ s_h s' = s_h s.
Proof. unfold peek_line_s. intros H. bind_inv H x Ex. destruct x as [[r l1] sg1]. injection H as <- _ _. auto. Qed.
Lemma line_offset_s_c s s' o : line_offset_s s = Ok (s', o) -> s_c s' = s_c s /\ s_h s' = s_h s.
Proof. unfold line_offset_s. intros H. bind_inv H x Ex. destruct x as [r o1]. injection H as <- _. auto. Qed.
Lemma advance_s_c s n s' : advance_s s n = Ok s' -> s_c s' = s_c s /\ s_h s' = s_h s.
Proof. unfold advance_s. intros H. bind_inv H r Er. injection H as <-. auto. Qed.

Ltac ctx_step H :=
  match type of H with
  | bind (peek_line_s _) _ = Ok _ => let x := fresh "x" in let E := fresh "E" in bind_inv H x E; destruct x as [[? ?] ?]; apply peek_line_s_c in E; destruct E as [? ?]
  | bind (line_offset_s _) _ = Ok _ => let x := fresh "x" in let E := fresh "E" in bind_inv H x E; destruct x as [? ?]; apply line_offset_s_c in E; destruct E as [? ?]
  | bind (advance_s _ _) _ = Ok _ => let x := fresh "x" in let E := fresh "E" in bind_inv H x E; apply advance_s_c in E; destruct E as [? ?]
  | bind _ _ = Ok _ => let x := fresh "x" in let E := fresh "E" in bind_inv H x E
  | (if ?b then _ else _) = Ok _ => destruct b
  | match ?x with Some _ => _ | None => _ end = Ok _ => destruct x
  | (let '(_, _) := ?x in _) = Ok _ => destruct x
  | Ok _ = Ok _ => injection H as <- <-
  end.

Ltac ctx_done :=
  cbn [st_h st_c st_r s_c cset_skip cset_empty cset_fence c_tmp_para] in *;
  repeat match goal with Hc : s_c ?a = _ |- context [s_c ?a] => rewrite Hc; cbn [st_h st_c st_r s_c cset_skip cset_empty cset_fence c_tmp_para] end;
  reflexivity.

Lemma p_open_tmp bp s parent s' o :
  p_open space_table re_t1o re_t2 re_t3 re_t4 re_t5 re_t6 re_t7 allowed_tags bp s parent = Ok (s', o) ->
  bp <> PSetext -> c_tmp_para (s_c s') = c_tmp_para (s_c s).
Proof.
  intros H Hbp. destruct bp; cbn [p_open] in H; try congruence.
  - unfold thematic_open, new_node, halloc in H. repeat ctx_step H; ctx_done.
  - unfold list_open, new_node, halloc in H. repeat ctx_step H; ctx_done.
  - unfold list_item_open_s, new_node, halloc in H. repeat ctx_step H; try destruct p as [[? ?] ?]; repeat ctx_step H; ctx_done.
  - unfold code_open, new_node, halloc in H. repeat ctx_step H; try destruct p as [? ?]; repeat ctx_step H; ctx_done.
  - unfold atx_open_s, new_node, halloc in H. repeat ctx_step H; try destruct p as [? ?]; repeat ctx_step H; ctx_done.
  - unfold fenced_open, new_node, halloc in H. repeat ctx_step H; try destruct p as [[[? ?] ?] ?]; repeat ctx_step H; ctx_done.
  - unfold bq_open, new_node, halloc in H. repeat ctx_step H; ctx_done.
  - unfold html_open, new_node, halloc in H. cbv zeta in H. repeat ctx_step H; ctx_done.
  - unfold paragraph_open, new_node, halloc in H. repeat ctx_step H; ctx_done.
Qed.


Lemma nodup_app_disj {X} (a b : list X) x : NoDup (a ++ b) -> In x a -> In x b -> False.
Proof.
  induction a as [|y t IH]; cbn [app]; intros H Ha Hb; [destruct Ha|]. inversion H as [|? ? Hy Ht]; subst.
  destruct Ha as [->|Ha]; [apply Hy; apply in_or_app; right; exact Hb|auto].
Qed.

Lemma append_child_length h p c h1 : append_child h p c = Ok h1 -> length h1 = length h.
Proof.
  unfold append_child. intros H. bind_inv H h0 E0. apply hupd_ok in E0. destruct E0 as [n0 [_ ->]].
  apply hupd_ok in H. destruct H as [n1 [_ ->]]. rewrite !length_hset. reflexivity.
Qed.

Lemma lastid_app_ne (A N : list (nat * bparser)) : N <> [] -> lastid (ids (A ++ N)) = lastid (ids N).
Proof.
  intros HN. destruct (CC exists_last_or_nil N) as [->|[N' [[y bq] ->]]]; [congruence|].
  rewrite app_assoc, !(CE lastid_ids_snoc). reflexivity.
Qed.


Lemma shape_le_length h h' : shape_le h h' -> (length h <= length h')%nat.
Proof. intros H. apply kind_le_length. apply shape_kind_le. exact H. Qed.

(* ---------- the driver functions on a node of the default configuration ---------- *)
Lemma p_closeD_para s node n s' : nth_error (s_h s) node = Some n -> bk n = BParagraph ->
  p_closeD space_table PParagraph s node = Ok s' -> paragraph_close space_table s node = Ok s'.
Proof.
  intros En Kn H. unfold p_closeD, hget in H. rewrite En in H. cbn [bind] in H.
  destruct (not_html_d n ltac:(congruence)) as [D1 [_ D3]]. rewrite D1, D3 in H. exact H.
Qed.
Lemma p_continueD_para s node n r : nth_error (s_h s) node = Some n -> bk n = BParagraph ->
  p_continueD space_table re_t1c PParagraph s node = Ok r -> p_continue space_table re_t1c PParagraph s node = Ok r.
Proof.
  intros En Kn H. unfold p_continueD, hget in H. rewrite En in H. cbn [bind] in H.
  destruct (not_html_d n ltac:(congruence)) as [D1 [_ D3]]. rewrite D1, D3 in H. exact H.
Qed.

(* ---------- the state after AppendChild and the append to the opened blocks ---------- *)
Lemma flat4 {X} (A D N : list X) e : A ++ D ++ N ++ [e] = (A ++ D ++ N) ++ [e].
Proof. rewrite <- !app_assoc. reflexivity. Qed.

Lemma attach_state fl s1 s3 A D N node bp nn np blank :
  OInv fl s1 A D N -> nth_error (s_h s1) node = Some nn -> bpar nn = None -> bk nn = pkind bp -> is_dt nn = false ->
  (bp = PATX -> fin_lines (blines nn)) ->
  (bp = PSetext -> (forall z, ~ In (z, PSetext) (A ++ D ++ N)) /\
     exists tmp t, c_tmp_para (s_c s1) = Some tmp /\ nth_error (s_h s1) tmp = Some t /\ bk t = BParagraph /\
                   fin_lines (blines t) /\ ~ In tmp (ids (A ++ D ++ N)) /\ tmp <> node) ->
  (forall tmp y, c_tmp_para (s_c s1) = Some tmp -> In (y, PSetext) (A ++ D ++ N) -> tmp <> node) ->
  ~ In node (ids (A ++ D ++ N)) -> node <> 0%nat ->
  nth_error (s_h s1) (lastid (ids (A ++ N))) = Some np -> cnt np = true ->
  (bk nn = BListItem -> bk np = BList) -> nopend (s_h s1) (A ++ D ++ N) ->
  s_r s3 = s_r s1 -> s_c s3 = push_opened (s_c s1) (node, bp) ->
  append_child (hset (s_h s1) node (set_blank nn blank)) (lastid (ids (A ++ N))) node = Ok (s_h s3) ->
  OInv fl s3 A D (N ++ [(node, bp)]).
Proof.
  intros [[HR HH] [HO Hu]] En Pn Kn Hdt Hatx Hset Htmp Hni Hn0 Ep Kp Hli Hnpe Er Ec Ha.
  assert (HI (rd_bound fl (s_r s1)) (s_h s3) (s_c s1) A D (N ++ [(node, bp)])) as HH3.
  { eapply (CC HI_attach_new); try exact Ha; try exact HH; try eassumption.
    intros E. destruct (Hset E) as [_ H]. exact H. }
  split; [|split].
  - split; [rewrite Er; exact HR|]. rewrite Er, Ec. eapply (CC HI_ctx); [exact HH3|reflexivity..].
  - rewrite Ec, flat4. apply (CE Oeq_push). exact HO.
  - rewrite flat4. apply uniqS_snoc; [exact Hu|]. intros E. exact (proj1 (Hset E)).
Qed.

(* ---------- the paragraph a setext heading line / the first item of a definition list follows ---------- *)
Lemma setext_pos fl s A D last lp nl parent :
  SInv fl s A D [] -> Oeq (s_c s) (A ++ D ++ []) -> last_opened (s_c s) = Some (last, lp) ->
  nth_error (s_h s) last = Some nl -> bk nl = BParagraph -> bpar nl = Some parent -> parent = lastid (ids (A ++ [])) ->
  D = [(last, PParagraph)] /\ lastchild (s_h s) parent last /\ (forall z, ~ In (z, PSetext) (A ++ D ++ [])).
Proof.
  intros HS HO Elo Enl Knl Pnl Hpar. rewrite app_nil_r in Hpar.
  pose proof (CC last_opened_spec _ _ HO) as Hlo. rewrite Elo in Hlo. destruct Hlo as [E' HE].
  pose proof HS as [_ HH]. pose proof (hi_heap _ _ _ _ _ _ _ _ HH) as HhS. pose proof (hi_open _ _ _ _ _ _ _ _ HH) as HoS.
  assert (In (last, lp) (A ++ D ++ [])) as Hin by (rewrite HE; apply in_or_app; right; left; reflexivity).
  destruct (CE SInv_entry _ _ _ _ _ _ _ HS Hin) as [n0 [En0 [K0 _]]]. assert (n0 = nl) by congruence. subst n0.
  assert (lp = PParagraph) as -> by (apply (CE pkind_para); congruence).
  assert (forall z, ~ In (z, PSetext) (A ++ D ++ [])) as Hno.
  { intros z Hz. destruct (CE SInv_entry _ _ _ _ _ _ _ HS Hz) as [nz [Ez [Kz _]]]. cbn [pkind] in Kz.
    assert (z = last) as ->.
    { change last with (fst (last, PParagraph)). rewrite app_nil_r in HE, Hz. eapply (CC leaf_entry_top); try eassumption.
      - eapply in_ids. exact Hz.
      - rewrite (CC cnt_not_html) by congruence. rewrite Kz. reflexivity. }
    congruence. }
  destruct (CC snoc_cases _ _ _ _ _ HE) as [[N' EN]|[[_ [D' ED]]|[_ [ED [A' EA]]]]].
  - destruct N'; discriminate.
  - destruct (CC exists_last_or_nil D') as [->|[D'' [[f fp] ->]]].
    + cbn [app] in ED. subst D. csplit; auto. pose proof (os_lc _ _ _ _ _ _ HoS eq_refl) as Hl. cbn [fst] in Hl. rewrite Hpar. exact Hl.
    + exfalso. subst D. pose proof (os_chain_nil _ _ _ _ _ HoS) as Hc.
      assert (child (s_h s) f last) as Hch.
      { apply Hc. rewrite !(CC ids_snoc). cbn [fst]. exists (lastid (ids A) :: ids D''), []. rewrite <- app_assoc. reflexivity. }
      destruct Hch as [nf [Ef Hl]]. destruct (hs_K _ _ _ HhS f nf last Ef Hl) as [nc [Ec Pc]].
      assert (f = lastid (ids A)) as Ef' by congruence.
      assert (In f (ids ((D'' ++ [(f, fp)]) ++ [(last, PParagraph)]))) as HfD.
      { rewrite !(CC ids_snoc). cbn [fst]. apply in_or_app. left. apply in_or_app. right. left. reflexivity. }
      destruct (CE lastid_cases (ids A)) as [[_ E0]|[_ HinA]].
      * eapply chain_no_root; [exact HhS|exact Hc|]. rewrite <- E0, <- Ef'. exact HfD.
      * pose proof (os_ndD _ _ _ _ _ _ HoS) as Hnd. rewrite (ids_app A) in Hnd. rewrite <- Ef' in HinA.
        eapply nodup_app_disj; [exact Hnd|exact HinA|exact HfD].
  - exfalso. subst A. rewrite (CE lastid_ids_snoc) in Hpar. subst parent.
    eapply hs_noself; [exact HhS|exact Enl|exact Pnl].
Qed.



(* ---------- the line the loop of openBlocks looks at ---------- *)
Definition skipl (l : option bytes) : bool :=
  match l with None => true | Some [] => true | Some (c :: _) => N.eqb c 10 end.
(* the offsets of the context are those of the line (set by the loop) *)
Definition Off (s : st) (w : Z) : Prop :=
  skipl (rline (s_r s)) = false /\
  exists w' pos, indent_width (line_of (rline (s_r s))) (r_column (s_r s) (r_head (s_r s))) = (w', pos) /\ w = w' /\
    c_boff (s_c s) = (if zlen (line_of (rline (s_r s))) <=? w' then -1 else pos) /\
    c_bind (s_c s) = (if zlen (line_of (rline (s_r s))) <=? w' then -1 else w').
(* the line starts, without indentation, with a colon: the guards of the definition list parsers pass *)
Definition LineG (r : reader) : Prop :=
  skipl (rline r) = false /\
  exists pos, indent_width (line_of (rline r)) (r_column r (r_head r)) = (0, pos) /\ at_ (line_of (rline r)) pos = Ok 58%N.

Lemma LineG_rkey a b : rkey a = rkey b -> LineG a -> LineG b.
Proof.
  intros H [H1 [pos [H2 H3]]]. destruct (rkey_view _ _ H) as [_ [Ec _]]. pose proof (rline_rkey _ _ H) as El.
  unfold LineG. rewrite <- El, <- Ec. eauto.
Qed.
Lemma Off_rkey s s' w : rkey (s_r s') = rkey (s_r s) -> c_boff (s_c s') = c_boff (s_c s) -> c_bind (s_c s') = c_bind (s_c s) ->
  Off s w -> Off s' w.
Proof.
  intros H B1 B2 [H1 [w' [pos [H2 [H3 [H4 H5]]]]]]. destruct (rkey_view _ _ H) as [_ [Ec _]]. pose proof (rline_rkey _ _ H) as El.
  unfold Off. rewrite El, Ec, B1, B2. split; [exact H1|]. exists w', pos. auto.
Qed.
Lemma guardC_rkey s s' : rkey (s_r s') = rkey (s_r s) -> c_boff (s_c s') = c_boff (s_c s) -> c_bind (s_c s') = c_bind (s_c s) ->
  guardC s -> guardC s'.
Proof. intros H B1 B2 [G1 [G2 G3]]. unfold guardC. rewrite (rline_rkey _ _ H), B1, B2. auto. Qed.
Lemma Off_guard_LineG s w : Off s w -> guardC s -> LineG (s_r s) /\ w = 0.
Proof.
  intros [H1 [w' [pos [H2 [H3 [H4 H5]]]]]] [G1 [G2 G3]].
  destruct (zlen (line_of (rline (s_r s))) <=? w'); [rewrite H4 in G1; lia|].
  assert (w' = 0) as E0 by congruence. split; [|congruence]. split; [exact H1|]. exists pos. split; congruence.
Qed.

(* ---------- the parser lists of the loop ---------- *)
Definition isCoreP (bp : bparserD) : Prop := match bp with DCore _ => True | _ => False end.
Definition DShape (bps : list bparserD) : Prop :=
  Forall isCoreP bps \/ (exists r, bps = DDefDesc :: r /\ Forall isCoreP r) \/
  (exists r, bps = DDefList :: DDefDesc :: r /\ Forall isCoreP r).
Lemma DShape_tl bp rest : DShape (bp :: rest) -> DShape rest.
Proof.
  intros [H|[[r [E H]]|[r [E H]]]].
  - left. inversion H; assumption.
  - injection E as _ ->. left. exact H.
  - injection E as _ ->. right. left. eauto.
Qed.
Lemma Forall_core_map l : Forall isCoreP (map DCore l).
Proof. induction l; constructor; [exact I|assumption]. Qed.


End O.
