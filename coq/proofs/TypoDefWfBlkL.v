(* Helper library for TypoDefWfBlk.v, part L: Close of any parser of the D driver (p_closeD: the definition
   list parsers, then the core parsers), closeBlocks (close_rangeD, close_blocksD). *)
Require Import GM.model.Base GM.model.Util GM.model.Reader GM.model.ReaderSpec GM.model.Blocks GM.model.ListItem
               GM.model.LeafBlocks GM.model.CodeBlock GM.model.LinkDest GM.model.Regex GM.model.HtmlWriter
               GM.model.Html GM.model.HtmlSpec GM.model.BlockParse GM.model.InlineParse GM.model.TypoDefParseD.
Require Import GM.proofs.ReaderProofs GM.proofs.BlockRangeProofs GM.proofs.ParseInv
               GM.proofs.ParseBlocksRangeA GM.proofs.TypoDefWfBlkB GM.proofs.TypoDefWfBlkT GM.proofs.TypoDefWfBlkC
               GM.proofs.TypoDefWfBlkD GM.proofs.TypoDefWfBlkE
               GM.proofs.TypoDefWfBlkG GM.proofs.TypoDefWfBlkH GM.proofs.TypoDefWfBlkI GM.proofs.TypoDefWfBlkJ.
From Coq Require Import ZArith Lia Sorted.
Open Scope Z_scope.

Section L.
Variable space_table punct_table : list N.
Variable norm : bytes -> bytes.
Variable re_t1o re_t1c re_t2 re_t3 re_t4 re_t5 re_t6 re_t7 : re.
Variable allowed_tags : list bytes.
Variable src : bytes.
Hypothesis sp32 : is_space space_table 32%N = true.
Set Default Proof Using "All".

(* lemmas of parts C and D take all the section variables: CC supplies them *)
Notation CC f := (f space_table punct_table norm re_t1o re_t1c re_t2 re_t3 re_t4 re_t5 re_t6 re_t7 allowed_tags src sp32) (only parsing).
Notation SInv := (SInv space_table src).
Notation HI := (HI space_table src).
Notation nodeP := (nodeP space_table src).
Notation heapS := (heapS space_table src).
Notation Jinv := (Jinv src).
Notation openS := (openS src).
Notation pline := (pline space_table src).
Notation oline := (oline src).
Notation fin_lines := (fin_lines src).
Notation fin := (fin src).
Notation cont_post := (cont_post space_table src).
Notation item_guard := (item_guard space_table).
Notation verdict := (verdict space_table).
Hypothesis Hsrc : bytes_ok src.
Notation CE f := (f space_table punct_table norm re_t1o re_t1c re_t2 re_t3 re_t4 re_t5 re_t6 re_t7 allowed_tags src sp32) (only parsing).
Notation CJ f := (f space_table punct_table norm re_t1o re_t1c re_t2 re_t3 re_t4 re_t5 re_t6 re_t7 allowed_tags src sp32 Hsrc) (only parsing).
Notation OInv := (OInv space_table src).

Lemma in_mid {X} (A D N : list X) e : In e (A ++ (D ++ [e]) ++ N).
Proof. apply in_or_app. right. apply in_or_app. left. apply in_or_app. right. left. reflexivity. Qed.

(* what a closing step leaves unchanged *)
Definition cframe (s s' : st) : Prop :=
  c_arr (s_c s') = c_arr (s_c s) /\ c_len (s_c s') = c_len (s_c s) /\ s_r s' = s_r s /\
  (length (s_h s) <= length (s_h s'))%nat /\ kind_le (s_h s) (s_h s').
Lemma cframe_refl s : cframe s s.
Proof. unfold cframe. csplit; auto. apply kind_le_refl. Qed.
Lemma cframe_trans a b c : cframe a b -> cframe b c -> cframe a c.
Proof.
  unfold cframe. intros [H1 [H2 [H3 [H4 H5]]]] [K1 [K2 [K3 [K4 K5]]]]. csplit; try congruence; [lia|].
  eapply kind_le_trans; eassumption.
Qed.

(* ---------- definitionDescriptionParser.Close ---------- *)
Lemma first_paragraph_some h l : forall g, first_paragraph h l = Ok (Some g) ->
  In g l /\ exists gn, nth_error h g = Some gn /\ bk gn = BParagraph.
Proof.
  induction l as [|y tl IH]; intros g H; cbn [first_paragraph] in H; [discriminate|].
  bind_inv H yn Ey. apply hget_ok in Ey. destruct (bkind_eqb (bk yn) BParagraph) eqn:K.
  - injection H as <-. apply (CE bkind_eqb_eq) in K. split; [left; reflexivity|]. exists yn. auto.
  - destruct (IH g H) as [Hin Hg]. split; [right; exact Hin|exact Hg].
Qed.

(* definitionDescriptionParser.Close on the last of the blocks being closed *)
Lemma defdesc_close_ok fl s node n s' A D N : SInv fl s A (D ++ [(node, PHTML)]) N ->
  nth_error (s_h s) node = Some n -> is_dd n = true -> defdesc_close s node = Ok s' ->
  SInv fl s' A (D ++ [(node, PHTML)]) N /\ cframe s s'.
Proof.
  intros HS En Hdd H. unfold defdesc_close in H. bind_inv H n0 En0. apply hget_ok in En0.
  assert (n0 = n) by congruence. subst n0. clear En0.
  bind_inv H h Eh. apply hupd_ok in Eh. destruct Eh as [n' [En' ->]].
  assert (n' = n) by congruence. subst n'. clear En'.
  set (tight := negb (bblank n)) in *.
  destruct (is_dd_kind _ Hdd) as [Kn In].
  assert (is_dl n = false) as Hndl by (unfold is_dl; rewrite Kn, In; reflexivity).
  pose proof (hi_heap _ _ _ _ _ _ _ _ (proj2 HS)) as HHp.
  pose proof (nth_some_lt _ _ _ En) as Ln.
  set (s1 := st_h s (hset (s_h s) node (set_tight n tight))) in *.
  assert (SInv fl s1 A (D ++ [(node, PHTML)]) N) as HS1.
  { apply (CE SInv_set_entry) with (bp := PHTML) (n := n); auto; try discriminate.
    - apply in_mid.
    - repeat split.
    - pose proof (hs_node _ _ _ HHp _ _ En) as Hn. apply (nodeP_same _ _ n); auto.
      intros Hk. cbn [set_tight bch]. exact (np_leaf _ _ _ Hn Hk).
    - cbn [set_tight bk]. congruence. }
  assert (kind_le (s_h s) (s_h s1)) as Hk0.
  { cbn [s1 st_h s_h]. eapply kind_le_hset; [exact En|repeat split]. }
  assert (cframe s s1) as Hf1.
  { unfold cframe. cbn [s1 st_h s_h s_c s_r]. csplit; auto. rewrite length_hset. lia. }
  assert (nth_error (s_h s1) node = Some (set_tight n tight)) as En1.
  { cbn [s1 st_h s_h]. apply nth_hset_eq. exact Ln. }
  destruct (negb tight).
  - injection H as <-. split; [exact HS1|exact Hf1].
  - bind_inv H fp Efp. destruct fp as [g|]; [|injection H as <-; split; [exact HS1|exact Hf1]].
    bind_inv H gn Eg. apply hget_ok in Eg. rewrite (CE new_node_eq) in H. bind_inv H h Eh. injection H as <-.
    cbn [st_h s_h] in Eh.
    destruct (first_paragraph_some _ _ _ Efp) as [Hgin [gn' [Eg' Kg]]]. assert (gn' = gn) by congruence. subst gn'. clear Eg'.
    assert (child (s_h s1) node g) as Hcg by (exists (set_tight n tight); split; [exact En1|exact Hgin]).
    destruct (CE para_to_text fl s1 A D N node PHTML node g gn h HS1 ltac:(discriminate)) as [HS2 [Hl2 [_ Hkl2]]]; auto.
    { intros nn Enn. assert (nn = set_tight n tight) by congruence. subst nn. exact Hndl. }
    change (st_h (st_h s1 (s_h s1 ++ [set_lines (mknode BTextBlock 0) (blines gn)])) h) with (st_h s1 h).
    split; [exact HS2|]. eapply cframe_trans; [exact Hf1|].
    unfold cframe. cbn [st_h s_h s_c s_r]. csplit; auto.
    intros j m Ej. destruct (Hkl2 j m Ej) as [m' [Ej' [Kj _]]]. eauto.
Qed.

(* ---------- Close of a core parser, on the last of the blocks being closed ---------- *)
Lemma p_close_ok fl s x bp s' A D N : SInv fl s A (D ++ [(x, bp)]) N -> uniqS (A ++ (D ++ [(x, bp)]) ++ N) ->
  p_close space_table bp s x = Ok s' -> SInv fl s' A D N /\ cframe s s'.
Proof.
  intros HS Hu H.
  assert (forall s1, SInv fl s1 A (D ++ [(x, bp)]) N -> bp <> PSetext -> bp <> PParagraph -> bp <> PATX -> SInv fl s1 A D N) as Hdrop.
  { intros s1 HS1 B1 B2 B3. eapply (CE SInv_drop); [exact HS1|]. intros n En _.
    destruct (CE SInv_entry _ _ _ _ _ _ _ HS1 (in_mid _ _ _ _)) as [n0 [En0 [K _]]].
    assert (n0 = n) by congruence. subst n0. intros [Kp|Kh]; rewrite K in *; destruct bp; cbn [pkind] in *; congruence. }
  destruct bp; cbn [p_close] in H.
  - (* setext *)
    destruct (CE setext_close_ok fl s x s' A D N HS) as [H1 [H2 [H3 [H4 [H5 H6]]]]]; [|exact H|].
    + intros y Hy. apply Hu; [exact Hy|apply in_mid].
    + split; [exact H1|]. unfold cframe. auto.
  - injection H as <-. split; [apply Hdrop; auto; discriminate|apply cframe_refl].
  - destruct (CE list_close_ok fl s x s' A D N HS H) as [H1 [H2 [H3 [H4 H5]]]].
    split; [apply Hdrop; auto; discriminate|]. unfold cframe. rewrite H2. auto.
  - injection H as <-. split; [apply Hdrop; auto; discriminate|apply cframe_refl].
  - destruct (CE code_close_ok fl s x s' A _ N HS (in_mid _ _ _ _) H) as [H1 [H2 [H3 [H4 H5]]]].
    split; [apply Hdrop; auto; discriminate|]. unfold cframe. rewrite H2. csplit; auto; [lia|apply shape_kind_le; exact H5].
  - (* ATX: the lines are final *)
    injection H as <-. split; [|apply cframe_refl]. eapply (CE SInv_drop); [exact HS|]. intros n En _ _.
    destruct HS as [_ HH]. destruct (os_atx _ _ _ _ _ _ (hi_open _ _ _ _ _ _ _ _ HH) x (in_mid _ _ _ _)) as [n0 [En0 F]].
    congruence.
  - destruct (CE fenced_close_ok fl s x s' A _ N HS H) as [H1 [H2 [H3 [H4 [H5 H6]]]]].
    split; [apply Hdrop; auto; discriminate|]. unfold cframe. rewrite H2. csplit; auto. apply kind_le_refl.
  - injection H as <-. split; [apply Hdrop; auto; discriminate|apply cframe_refl].
  - injection H as <-. split; [apply Hdrop; auto; discriminate|apply cframe_refl].
  - destruct (CE paragraph_close_ok fl s x s' A _ N HS (in_mid _ _ _ _) H) as [H1 [H2 [H3 [H4 [H5 [n' [En' F]]]]]]].
    split; [|unfold cframe; rewrite H2; csplit; auto; [lia|apply shape_kind_le; exact H5]].
    eapply (CE SInv_drop); [exact H1|]. intros n En _ _. congruence.
Qed.

(* ---------- Close of any parser of the D driver, on the last of the blocks being closed ---------- *)
Lemma p_closeD_ok fl s x bp s' A D N : SInv fl s A (D ++ [(x, bp)]) N -> uniqS (A ++ (D ++ [(x, bp)]) ++ N) ->
  p_closeD space_table bp s x = Ok s' -> SInv fl s' A D N /\ cframe s s'.
Proof.
  intros HS Hu H. unfold p_closeD in H. bind_inv H n En. apply hget_ok in En.
  (* a node of kind BHTML has no lines the inline phase looks at *)
  assert (forall s1, SInv fl s1 A (D ++ [(x, bp)]) N -> bk n = BHTML -> kind_le (s_h s) (s_h s1) -> SInv fl s1 A D N) as Hdrop.
  { intros s1 HS1 Kn Hkl. eapply (CE SInv_drop); [exact HS1|]. intros n1 En1 _.
    destruct (kind_le_nth _ _ _ _ Hkl En) as [n2 [En2 [K2 _]]]. assert (n2 = n1) by congruence. subst n2.
    intros [Kp|Kh]; congruence. }
  destruct (is_dl n) eqn:Hdl.
  - injection H as <-. split; [|apply cframe_refl]. apply Hdrop; [exact HS|apply (is_dl_kind _ Hdl)|apply kind_le_refl].
  - destruct (is_dd n) eqn:Hdd.
    + destruct (is_dd_kind _ Hdd) as [Kn _].
      destruct (CE SInv_entry _ _ _ _ _ _ _ HS (in_mid _ _ _ _)) as [n0 [En0 [K _]]].
      assert (n0 = n) by congruence. subst n0.
      assert (bp = PHTML) as -> by (destruct bp; cbn [pkind] in K; congruence).
      destruct (defdesc_close_ok fl s x n s' A D N HS En Hdd H) as [HS' Hf].
      split; [|exact Hf]. apply Hdrop; [exact HS'|exact Kn|apply Hf].
    + eapply p_close_ok; eassumption.
Qed.

(* ---------- one round of closeBlocks ---------- *)
Lemma close_step_ok fl s x bp s1 s' isp att att' A D N :
  SInv fl s A (D ++ [(x, bp)]) N -> uniqS (A ++ (D ++ [(x, bp)]) ++ N) ->
  is_paragraph (s_h s) x = Ok isp -> attached (s_h s) x = Ok att ->
  (if (isp && att)%bool then (y <- transform_paragraph space_table punct_table norm s x ;; Ok (fst y)) else Ok s) = Ok s1 ->
  attached (s_h s1) x = Ok att' ->
  (if att' then p_closeD space_table bp s1 x else Ok s1) = Ok s' ->
  SInv fl s' A D N /\ cframe s s'.
Proof.
  intros HS Hu Hisp Hatt Ht Hatt' Hc.
  destruct (CE SInv_entry _ _ _ _ _ _ _ HS (in_mid _ _ _ _)) as [n [En [K _]]].
  unfold is_paragraph in Hisp. unfold hget in Hisp. rewrite En in Hisp. cbn [bind] in Hisp. injection Hisp as <-.
  unfold attached, hget in Hatt. rewrite En in Hatt. cbn [bind] in Hatt. injection Hatt as <-.
  (* closing a block that is not attached any more: nothing to do *)
  assert (forall s2, SInv fl s2 A (D ++ [(x, bp)]) N -> (forall n2, nth_error (s_h s2) x = Some n2 -> bpar n2 = None) ->
            SInv fl s2 A D N) as Hgone.
  { intros s2 HS2 Hn2. eapply (CE SInv_drop); [exact HS2|]. intros n2 E2 P2. exfalso. apply P2. eapply Hn2. exact E2. }
  destruct (bkind_eqb (bk n) BParagraph && match bpar n with Some _ => true | None => false end)%bool eqn:Ecnd.
  - apply andb_true_iff in Ecnd. destruct Ecnd as [Ek Ea]. apply (CE bkind_eqb_eq) in Ek.
    assert (bp = PParagraph) as -> by (apply (CE pkind_para); congruence).
    bind_inv Ht y Ey. destruct y as [s2 gone]. cbn [fst] in Ht. injection Ht as <-.
    assert (exists n0 p0, nth_error (s_h s) x = Some n0 /\ bpar n0 = Some p0) as Hat.
    { destruct (bpar n) as [p0|] eqn:Ep; [|discriminate]. exists n, p0. auto. }
    destruct (CJ transform_paragraph_ok fl s x s2 gone A D N HS Hat Ey) as [T1 [T2 [T3 [T4 [T5 [T6 [T7 [T8 T9]]]]]]]].
    assert (cframe s s2) as Hf by (unfold cframe; auto).
    unfold attached in Hatt'. bind_inv Hatt' n2 En2. apply hget_ok in En2. injection Hatt' as <-.
    destruct gone.
    + rewrite (proj1 (T6 n2 En2) eq_refl) in Hc. injection Hc as <-. split; [apply T7; reflexivity|exact Hf].
    + destruct (T8 eq_refl) as [HS2 _]. destruct (bpar n2) eqn:Ep.
      * destruct (p_closeD_ok fl s2 x PParagraph s' A D N HS2 Hu Hc) as [H1 H2].
        split; [exact H1|]. eapply cframe_trans; eassumption.
      * pose proof (proj2 (T6 n2 En2) Ep). discriminate.
  - injection Ht as <-. unfold attached, hget in Hatt'. rewrite En in Hatt'. cbn [bind] in Hatt'. injection Hatt' as <-.
    destruct (bpar n) eqn:Ep.
    + apply (p_closeD_ok fl s x bp s' A D N HS Hu Hc).
    + injection Hc as <-. split; [|apply cframe_refl]. apply Hgone; [exact HS|]. intros n2 E2. congruence.
Qed.

(* ---------- closeBlocks: the blocks D2 are closed from the last one down ---------- *)
Lemma nth_error_mid {X} (P : list X) e R : nth_error (P ++ e :: R) (length P) = Some e.
Proof. rewrite nth_error_app2 by lia. rewrite Nat.sub_diag. reflexivity. Qed.

Lemma close_rangeD_ok fl A N : forall D2 R D1 s s' blocks i,
  blocks = A ++ D1 ++ D2 ++ R -> i = zlen (A ++ D1 ++ D2) - 1 ->
  SInv fl s A (D1 ++ D2) N -> uniqS (A ++ (D1 ++ D2) ++ N) ->
  close_rangeD space_table punct_table norm s blocks (length D2) i = Ok s' ->
  SInv fl s' A D1 N /\ cframe s s'.
Proof.
  intros D2. induction D2 as [|[x bp] D2' IH] using rev_ind; intros R D1 s s' blocks i Hb Hi HS Hu H.
  - cbn [length close_rangeD] in H. injection H as <-. rewrite app_nil_r in HS. split; [exact HS|apply cframe_refl].
  - rewrite app_length in H. cbn [length] in H. rewrite Nat.add_1_r in H. cbn [close_rangeD] in H.
    destruct ((i <? 0) || (zlen blocks <=? i))%bool; [discriminate|].
    assert (nth_error blocks (Z.to_nat i) = Some (x, bp)) as Enth.
    { subst blocks i. rewrite !app_assoc. rewrite <- (app_assoc _ [(x, bp)] R). cbn [app].
      replace (Z.to_nat (zlen (((A ++ D1) ++ D2') ++ [(x, bp)]) - 1)) with (length ((A ++ D1) ++ D2')).
      - apply nth_error_mid.
      - unfold zlen. rewrite (app_length _ [(x, bp)]). cbn [length]. lia. }
    rewrite Enth in H.
    bind_inv H isp Eisp. bind_inv H att Eatt. bind_inv H s1 Es1. bind_inv H att' Eatt'. bind_inv H s2 Es2.
    rewrite (app_assoc D1 D2' [(x, bp)]) in HS, Hu.
    destruct (close_step_ok fl s x bp s1 s2 isp att att' A (D1 ++ D2') N HS Hu Eisp Eatt Es1 Eatt' Es2) as [HS2 Hf2].
    destruct (IH ((x, bp) :: R) D1 s2 s' blocks (i - 1)) as [HS3 Hf3]; auto.
    + subst blocks. rewrite <- !app_assoc. reflexivity.
    + subst i. unfold zlen. rewrite !app_length. cbn [length]. lia.
    + eapply (CE uniqS_incl); [exact Hu|]. intros e He. apply in_app_or in He. apply in_or_app.
      destruct He as [He|He]; [left; exact He|right]. apply in_app_or in He. apply in_or_app.
      destruct He as [He|He]; [left; apply in_or_app; left; exact He|right; exact He].
    + split; [exact HS3|]. eapply cframe_trans; eassumption.
Qed.

Lemma firstn_app_exact {X} (a b : list X) : firstn (length a) (a ++ b) = a.
Proof. rewrite firstn_app, Nat.sub_diag, firstn_all. cbn [firstn]. apply app_nil_r. Qed.
Lemma skipn_app_exact {X} (a b : list X) : skipn (length a) (a ++ b) = b.
Proof. rewrite skipn_app, Nat.sub_diag, skipn_all. reflexivity. Qed.

Lemma opened_prefix c (A B : list (nat * bparser)) : opened c = A ++ B -> firstn (length A) (c_arr c) = A.
Proof.
  unfold opened. intros H. assert (length A <= c_len c)%nat as Hle.
  { apply (f_equal (@length _)) in H. rewrite firstn_length, app_length in H. lia. }
  transitivity (firstn (length A) (firstn (c_len c) (c_arr c))).
  - rewrite firstn_firstn. f_equal. lia.
  - rewrite H. apply firstn_app_exact.
Qed.

Lemma close_blocksD_ok fl s s' A D N from to : OInv fl s A D N -> to = zlen A -> from = zlen A + zlen D - 1 ->
  close_blocksD space_table punct_table norm s from to = Ok s' -> OInv fl s' A [] N /\ s_r s' = s_r s /\
  (length (s_h s) <= length (s_h s'))%nat /\ kind_le (s_h s) (s_h s').
Proof.
  intros [HS [[Ho Hl] Hu]] Hto Hfrom H. unfold close_blocksD in H. bind_inv H s1 E1.
  replace (Z.to_nat (from - to + 1)) with (length D) in E1 by (subst; unfold zlen; lia).
  destruct (close_rangeD_ok fl A N D N [] s s1 (opened (s_c s)) from) as [HS1 [F1 [F2 [F3 [F4 F5]]]]]; auto.
  { subst from. cbn [app]. rewrite zlen_app. lia. }
  assert (Z.of_nat (c_len (s_c s1)) = zlen A + zlen D + zlen N) as Hn.
  { rewrite F2. apply (f_equal (@length _)) in Ho. unfold opened in Ho. rewrite firstn_length, !app_length in Ho. unfold zlen. lia. }
  assert (forall a l, SInv fl (st_c s1 (cset_open (s_c s1) a l)) A [] N) as Hctx.
  { intros a l. apply (CC SInv_ctx); auto. }
  assert (uniqS (A ++ [] ++ N)) as Hu'.
  { eapply (CE uniqS_incl); [exact Hu|]. intros e He. cbn [app] in He. apply in_app_or in He. apply in_or_app.
    destruct He as [He|He]; [left; exact He|right; apply in_or_app; right; exact He]. }
  assert (firstn (length A) (c_arr (s_c s1)) = A) as HA by (rewrite F1; eapply opened_prefix; exact Ho).
  pose proof (zlen_nonneg A) as HzA. pose proof (zlen_nonneg D) as HzD. pose proof (zlen_nonneg N) as HzN.
  destruct (Z.eqb_spec from (Z.of_nat (c_len (s_c s1)) - 1)) as [Efn|Efn].
  - destruct ((to <? 0) || (Z.of_nat (c_len (s_c s1)) <? to))%bool; [discriminate|]. injection H as <-.
    assert (N = []) as -> by (destruct N; [reflexivity|rewrite zlen_cons in Hn; pose proof (zlen_nonneg N); lia]).
    cbn [st_c s_r s_h]. csplit; auto. split; [apply Hctx|]. split; [|exact Hu'].
    unfold Oeq, opened. cbn [st_c s_c cset_open c_arr c_len]. cbn [app]. rewrite app_nil_r.
    subst to. unfold zlen. rewrite Nat2Z.id. split; [exact HA|].
    apply (f_equal (@length _)) in HA. rewrite firstn_length in HA. lia.
  - destruct ((to <? 0) || (from + 1 <? to) || (Z.of_nat (c_len (s_c s1)) <? from + 1))%bool; [discriminate|]. injection H as <-.
    cbn [st_c s_r s_h]. csplit; auto. split; [apply Hctx|]. split; [|exact Hu'].
    assert (zskip (from + 1) (firstn (c_len (s_c s1)) (c_arr (s_c s1))) = N) as Hmoved.
    { rewrite F1, F2. fold (opened (s_c s)). rewrite Ho. unfold zskip.
      replace (Z.to_nat (from + 1)) with (length (A ++ D)) by (subst from; unfold zlen; rewrite app_length; lia).
      rewrite app_assoc. apply skipn_app_exact. }
    unfold Oeq, opened. cbn [st_c s_c cset_open c_arr c_len]. rewrite Hmoved. cbn [app].
    unfold zfirst. subst to. replace (Z.to_nat (zlen A)) with (length A) by (unfold zlen; lia). rewrite HA.
    split.
    + rewrite app_assoc. rewrite <- (app_length A N). apply firstn_app_exact.
    + rewrite !app_length. lia.
Qed.

End L.
