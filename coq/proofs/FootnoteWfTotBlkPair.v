(* Helper file for ParseBlocksTotal.v: the protocol between listParser.Continue and listItemParser.Continue
   under the state invariant SI. *)
Require Import GM.model.Base GM.model.Util GM.model.Reader GM.model.ReaderSpec GM.model.Blocks GM.model.ListItem
               GM.model.LeafBlocks GM.model.CodeBlock GM.model.LinkDest GM.model.Regex GM.model.BlockParse.
Require Import GM.proofs.ReaderProofs GM.proofs.BlocksProofs GM.proofs.BlockRangeProofs
               GM.proofs.ParseBlocksTotalReader GM.proofs.FootnoteWfTotBlkPad GM.proofs.FootnoteWfTotBlkDefs GM.proofs.FootnoteWfTotBlkSpec
               GM.proofs.FootnoteWfTotBlkSt.
From Coq Require Import ZArith Lia List Bool.
Open Scope Z_scope.

(* ---------- pure list facts ---------- *)
Lemma lp_skipn_cons {A} (d : A) : forall n (l : list A), (n < length l)%nat -> skipn n l = nth n l d :: skipn (S n) l.
Proof.
  induction n as [|n IH]; intros l Hn.
  - destruct l as [|x l]; [cbn [length] in Hn; lia|reflexivity].
  - destruct l as [|x l]; [cbn [length] in Hn; lia|]. cbn [length] in Hn.
    change (skipn (S n) (x :: l)) with (skipn n l). change (nth (S n) (x :: l) d) with (nth n l d).
    change (skipn (S (S n)) (x :: l)) with (skipn (S n) l). apply IH. lia.
Qed.
Lemma lp_zskip_cons (l : bytes) i : 0 <= i < zlen l -> zskip i l = nth_byte l i :: zskip (i + 1) l.
Proof.
  intros Hi. unfold zskip, nth_byte. replace (Z.to_nat (i + 1)) with (S (Z.to_nat i)) by lia.
  apply lp_skipn_cons. unfold zlen in Hi. lia.
Qed.
Lemma lp_zskip_all (l : bytes) i : zlen l <= i -> zskip i l = [].
Proof. intros Hi. unfold zskip. apply skipn_all2. unfold zlen in Hi. lia. Qed.
Lemma lp_nth_cons (c : N) r k : 0 < k -> nth (Z.to_nat k) (c :: r) 0%N = nth (Z.to_nat (k - 1)) r 0%N.
Proof. intros Hk. replace (Z.to_nat k) with (S (Z.to_nat (k - 1))) by lia. reflexivity. Qed.

(* ---------- indent_width / indent_position ---------- *)
Lemma lp_tabw cur : 1 <= 4 - cur mod 4 <= 4.
Proof. pose proof (Z.mod_pos_bound cur 4 ltac:(lia)). lia. Qed.

(* IndentPosition finds a position whenever the requested width does not exceed the indentation; the
   bytes it passes are blanks or tabs *)
Lemma lp_ip_loop bs cur width : forall w i pos0 w' i',
  width <= fst (indent_width_pos bs cur w pos0) ->
  indent_position_loop bs cur w i 0 width = (w', i') ->
  width <= w' /\ i <= i' <= i + zlen bs /\
  (forall k, 0 <= k < i' - i -> nth (Z.to_nat k) bs 0%N = 32%N \/ nth (Z.to_nat k) bs 0%N = 9%N).
Proof.
  induction bs as [|c r IH]; intros w i pos0 w' i' Hw H.
  - cbn [indent_position_loop] in H. injection H as <- <-. cbn [indent_width_pos fst] in Hw.
    rewrite zlen_nil. csplit; intros; lia.
  - cbn [indent_position_loop] in H. change (0 <? 0) with false in H. cbv iota in H.
    cbn [indent_width_pos] in Hw. rewrite zlen_cons. pose proof (zlen_nonneg r) as Hr.
    assert (Hstop : (w', i') = (w, i) -> width <= w ->
              width <= w' /\ i <= i' <= i + (1 + zlen r) /\
              (forall k, 0 <= k < i' - i -> nth (Z.to_nat k) (c :: r) 0%N = 32%N \/ nth (Z.to_nat k) (c :: r) 0%N = 9%N)).
    { intros E Hle. injection E as -> ->. csplit; intros; lia. }
    assert (Hgo : forall w1, c = 32%N \/ c = 9%N -> width <= fst (indent_width_pos r cur w1 (pos0 + 1)) ->
              indent_position_loop r cur w1 (i + 1) 0 width = (w', i') ->
              width <= w' /\ i <= i' <= i + (1 + zlen r) /\
              (forall k, 0 <= k < i' - i -> nth (Z.to_nat k) (c :: r) 0%N = 32%N \/ nth (Z.to_nat k) (c :: r) 0%N = 9%N)).
    { intros w1 Hc Hw1 H1. destruct (IH w1 (i + 1) (pos0 + 1) w' i' Hw1 H1) as (A & B & C).
      csplit; try lia. intros k Hk. destruct (Z.eq_dec k 0) as [->|Hk0]; [exact Hc|].
      rewrite lp_nth_cons by lia. apply C. lia. }
    destruct (N.eqb_spec c 9) as [E9|N9].
    + subst c. change (N.eqb 9 32) with false in *. cbv iota in Hw. cbn [andb] in H.
      destruct (Z.ltb_spec w width) as [Hlt|Hge].
      * apply (Hgo (w + tab_width (cur + w))); [right; reflexivity|exact Hw|exact H].
      * apply Hstop; [symmetry; exact H|exact Hge].
    + cbn [andb] in H. destruct (N.eqb_spec c 32) as [E32|N32].
      * subst c. cbn [andb] in H. destruct (Z.ltb_spec w width) as [Hlt|Hge].
        -- apply (Hgo (w + 1)); [left; reflexivity|exact Hw|exact H].
        -- apply Hstop; [symmetry; exact H|exact Hge].
      * cbn [andb] in H. cbn [fst] in Hw. apply Hstop; [symmetry; exact H|exact Hw].
Qed.

Lemma lp_indent_position bs cur width : 0 <= width <= fst (indent_width bs cur) ->
  exists pos pad, indent_position bs cur width = (pos, pad) /\ 0 <= pos <= zlen bs /\ 0 <= pad /\
    (forall k, 0 <= k < pos -> nth (Z.to_nat k) bs 0%N <> 10%N).
Proof.
  intros Hw. unfold indent_position, indent_position_padding. pose proof (zlen_nonneg bs) as Hbs.
  destruct (Z.eqb_spec width 0) as [E|E].
  - exists 0, 0. csplit; try reflexivity; intros; lia.
  - destruct (indent_position_loop bs cur 0 0 0 width) as [w i] eqn:Hl.
    destruct (lp_ip_loop bs cur width 0 0 0 w i ltac:(apply Hw) Hl) as (A & B & C).
    destruct (Z.leb_spec width w) as [Hle|Hlt]; [|lia].
    exists (i - 0), (w - width). csplit; try reflexivity; try lia.
    intros k Hk. destruct (C k ltac:(lia)) as [-> | ->]; discriminate.
Qed.

(* indentation made of blanks only *)
Lemma lp_iwp_blanks line cur : forall w pos,
  (count_blanks line < zlen line -> nth_byte line (count_blanks line) <> 9%N) ->
  indent_width_pos line cur w pos = (w + count_blanks line, pos + count_blanks line).
Proof.
  induction line as [|c r IH]; intros w pos H9.
  - cbn [indent_width_pos count_blanks]. f_equal; lia.
  - cbn [indent_width_pos count_blanks] in *. pose proof (br_count_blanks_range r) as Hb.
    rewrite zlen_cons in H9. destruct (N.eqb_spec c 32) as [E|NE].
    + rewrite IH.
      * f_equal; lia.
      * intros Hlt. specialize (H9 ltac:(lia)). unfold nth_byte in *.
        replace (Z.to_nat (1 + count_blanks r)) with (S (Z.to_nat (count_blanks r))) in H9 by lia. exact H9.
    + pose proof (zlen_nonneg r). specialize (H9 ltac:(lia)). unfold nth_byte in H9. cbn in H9.
      destruct (N.eqb_spec c 9) as [E9|_]; [contradiction|]. f_equal; lia.
Qed.

(* ---------- parseListItem: the shape of a recognised line ---------- *)
Definition lp_sp_head (l : bytes) : Prop := match l with [] => True | c :: _ => c = 10%N \/ c = 32%N \/ c = 9%N end.
Definition lp_bullet (c : N) : Prop := c = 45%N \/ c = 42%N \/ c = 43%N.
Definition lp_digit (c : N) : Prop := (48 <= c <= 57)%N.

Lemma lp_tail_shape line ind i t m typ : parse_list_item_tail line ind i t = (m, typ) -> typ <> 0%N -> 0 <= i ->
  m1 m = ind /\ m3 m = i /\ typ = t /\ lp_sp_head (zskip i line).
Proof.
  intros H Ht Hi. unfold parse_list_item_tail in H. cbv zeta in H.
  destruct ((i <? zlen line) && negb (N.eqb (nth_byte line i) 10) && (fst (indent_width (zskip i line) 0) =? 0))%bool eqn:C.
  { injection H as _ E. congruence. }
  assert (Hm : m1 m = ind /\ m3 m = i /\ typ = t).
  { destruct (zlen line <=? i); injection H as <- <-; cbn [m1 m3]; auto. }
  destruct Hm as (A1 & A2 & A3). csplit; auto.
  destruct (Z.ltb_spec i (zlen line)) as [Hlt|Hge].
  - rewrite lp_zskip_cons in * by lia. cbn [lp_sp_head andb] in *.
    destruct (N.eqb_spec (nth_byte line i) 10) as [E|NE]; [left; exact E|]. cbn [negb andb] in C.
    destruct (N.eqb_spec (nth_byte line i) 32) as [E32|N32]; [right; left; exact E32|].
    destruct (N.eqb_spec (nth_byte line i) 9) as [E9|N9]; [right; right; exact E9|].
    exfalso. unfold indent_width in C. cbn [indent_width_pos] in C.
    rewrite (proj2 (N.eqb_neq _ _) N32), (proj2 (N.eqb_neq _ _) N9) in C. cbn in C. discriminate.
  - rewrite lp_zskip_all by lia. exact I.
Qed.

Lemma lp_count_digits_head c r : count_digits (c :: r) <> 0 -> lp_digit c.
Proof.
  cbn [count_digits]. unfold lp_digit. destruct (N.leb_spec 48 c); destruct (N.leb_spec c 57); cbn [andb]; intros Hc; lia.
Qed.

Lemma lp_pli_shape line m typ : parse_list_item line = (m, typ) -> typ <> 0%N ->
  m1 m = count_blanks line /\ 0 <= m1 m <= 3 /\ m1 m < zlen line /\ m1 m < m3 m <= zlen line /\
  lp_sp_head (zskip (m3 m) line) /\
  ((typ = 1%N /\ m3 m = m1 m + 1 /\ lp_bullet (nth_byte line (m1 m))) \/
   (typ = 2%N /\ lp_digit (nth_byte line (m1 m)) /\
    (nth_byte line (m3 m - 1) = 46%N \/ nth_byte line (m3 m - 1) = 41%N))).
Proof.
  intros H Ht. destruct (parse_list_item_in_range line m typ H Ht) as (R1 & _ & R3 & _).
  unfold parse_list_item in H. cbv zeta in H. pose proof (br_count_blanks_range line) as Hb.
  set (i := count_blanks line) in *.
  destruct (3 <? i); [injection H as _ E; congruence|].
  destruct (Z.leb_spec (zlen line) i) as [Hl|Hl]; [injection H as _ E; congruence|].
  destruct (N.eqb (nth_byte line i) 45 || N.eqb (nth_byte line i) 42 || N.eqb (nth_byte line i) 43)%bool eqn:Bu.
  - destruct (lp_tail_shape _ _ _ _ _ _ H Ht ltac:(lia)) as (A1 & A2 & A3 & A4).
    rewrite A2. csplit; auto; try lia. left. rewrite A1. csplit; auto. unfold lp_bullet.
    destruct (N.eqb_spec (nth_byte line i) 45); [auto|]. destruct (N.eqb_spec (nth_byte line i) 42); [auto|].
    destruct (N.eqb_spec (nth_byte line i) 43); [auto|]. discriminate.
  - set (nd := count_digits (zskip i line)) in *.
    destruct (Z.eqb_spec nd 0) as [E0|E0]; cbn [orb] in H; [injection H as _ E; congruence|].
    destruct (9 <? nd); [injection H as _ E; congruence|].
    destruct (Z.ltb_spec (i + nd) (zlen line)) as [Hj|Hj]; cbn [andb] in H; [|injection H as _ E; congruence].
    destruct (N.eqb (nth_byte line (i + nd)) 46 || N.eqb (nth_byte line (i + nd)) 41)%bool eqn:Mk;
      [|injection H as _ E; congruence].
    pose proof (br_count_digits_range (zskip i line)) as Hd. fold nd in Hd.
    destruct (lp_tail_shape _ _ _ _ _ _ H Ht ltac:(lia)) as (A1 & A2 & A3 & A4).
    rewrite A2. csplit; auto; try lia. right. rewrite A1. csplit; auto.
    + subst nd. rewrite lp_zskip_cons in E0 by lia. apply lp_count_digits_head in E0. exact E0.
    + replace (i + nd + 1 - 1) with (i + nd) by lia.
      destruct (N.eqb_spec (nth_byte line (i + nd)) 46); [auto|]. destruct (N.eqb_spec (nth_byte line (i + nd)) 41); [auto|].
      discriminate.
Qed.

Lemma lp_mli_eq line strict : matches_list_item line strict = parse_list_item line.
Proof.
  unfold matches_list_item. destruct (parse_list_item line) as [m typ] eqn:Hp.
  destruct (N.eqb_spec typ 0) as [->|Ht]; cbn [negb andb]; [reflexivity|].
  destruct (lp_pli_shape line m typ Hp Ht) as (_ & R & _).
  destruct (Z.ltb_spec (m1 m) 4); [|lia]. rewrite orb_true_r. reflexivity.
Qed.

Section S.
Variable space_table : list N.
Variable src : bytes.
Variable lst : option nat.
Hypothesis tbl : TblOK space_table.
Notation SI := (SI space_table src lst).
Notation open_post := (open_post space_table src lst).
Notation cont_post := (cont_post space_table src lst).
Notation close_post := (close_post space_table src lst).
Notation is_space := (is_space space_table).

Lemma lp_space_iff c : is_space c = true <-> (c = 9 \/ c = 10 \/ c = 13 \/ c = 32)%N.
Proof.
  rewrite tbl. destruct (N.eqb_spec c 9); [subst; cbn; tauto|]. destruct (N.eqb_spec c 10); [subst; cbn; tauto|].
  destruct (N.eqb_spec c 13); [subst; cbn; tauto|]. destruct (N.eqb_spec c 32); [subst; cbn; tauto|].
  cbn. split; [discriminate|]. intros [E|[E|[E|E]]]; congruence.
Qed.
Lemma lp_not_space c : c <> 9%N -> c <> 10%N -> c <> 13%N -> c <> 32%N -> is_space c = false.
Proof.
  intros A B C D. destruct (is_space c) eqn:E; [|reflexivity]. apply lp_space_iff in E. destruct E as [E|[E|[E|E]]]; contradiction.
Qed.

(* ---------- thematic breaks ---------- *)
Lemma lp_tb_scan_spaces l mark cnt : Forall (fun c => is_space c = true) l -> tb_scan space_table l mark cnt = Some cnt.
Proof. intros H. induction H as [|c l Hc Hl IH]; cbn [tb_scan]; [reflexivity|]. rewrite Hc. exact IH. Qed.

(* the indentation of a list item line consists of at most three blanks *)
Lemma lp_tb_line line off : count_blanks line <= 3 -> count_blanks line < zlen line ->
  nth_byte line (count_blanks line) <> 9%N ->
  is_thematic_break space_table line off =
    match tb_scan space_table (zskip (count_blanks line) line) 0%N 0 with Some c => 2 <? c | None => false end.
Proof.
  intros H3 Hl H9. unfold is_thematic_break, indent_width. rewrite lp_iwp_blanks by (intros _; exact H9).
  pose proof (br_count_blanks_range line) as Hb.
  destruct (Z.ltb_spec 3 (0 + count_blanks line)) as [Hgt|_]; [lia|].
  replace (0 + count_blanks line) with (count_blanks line) by lia. reflexivity.
Qed.

Lemma lp_tb_head c r : c <> 32%N -> c <> 9%N ->
  is_thematic_break space_table (c :: r) 0 =
    match tb_scan space_table (c :: r) 0%N 0 with Some c => 2 <? c | None => false end.
Proof.
  intros A B. unfold is_thematic_break, indent_width. cbn [indent_width_pos].
  rewrite (proj2 (N.eqb_neq _ _) A), (proj2 (N.eqb_neq _ _) B). reflexivity.
Qed.

(* a list item line whose tail (from the marker on) is no thematic break is no thematic break *)
Lemma lp_pli_not_tb line m typ off : parse_list_item line = (m, typ) -> typ <> 0%N ->
  is_thematic_break space_table (zskip (m3 m - 1) line) 0 = false -> is_thematic_break space_table line off = false.
Proof.
  intros Hp Ht Htail. destruct (lp_pli_shape line m typ Hp Ht) as (A1 & A2 & A3 & A4 & A5 & A6).
  rewrite A1 in *. set (i := count_blanks line) in *.
  destruct A6 as [(_ & B2 & B3)|(_ & B2 & _)].
  - assert (N32 : nth_byte line i <> 32%N) by (destruct B3 as [E|[E|E]]; rewrite E; discriminate).
    assert (N9 : nth_byte line i <> 9%N) by (destruct B3 as [E|[E|E]]; rewrite E; discriminate).
    rewrite lp_tb_line by (fold i; assumption || lia). fold i.
    replace (m3 m - 1) with i in Htail by lia. rewrite lp_zskip_cons in * by lia.
    rewrite lp_tb_head in Htail by assumption. exact Htail.
  - unfold lp_digit in B2.
    assert (N9 : nth_byte line i <> 9%N) by (intros E; rewrite E in B2; lia).
    rewrite lp_tb_line by (fold i; assumption || lia). fold i. rewrite lp_zskip_cons by lia. cbn [tb_scan].
    rewrite lp_not_space by (intros E; rewrite E in B2; lia). change (N.eqb 0 0) with true. cbv iota.
    destruct (N.eqb_spec (nth_byte line i) 42) as [E|_]; [rewrite E in B2; lia|].
    destruct (N.eqb_spec (nth_byte line i) 45) as [E|_]; [rewrite E in B2; lia|].
    destruct (N.eqb_spec (nth_byte line i) 95) as [E|_]; [rewrite E in B2; lia|]. reflexivity.
Qed.

(* ---------- the setext bar test on the tail of a list item line ---------- *)
Lemma lp_tls_snoc l c : is_space c = false ->
  trim_left_space_len space_table (l ++ [c]) = trim_left_space_len space_table l.
Proof.
  intros Hc. induction l as [|x l IH]; cbn [app trim_left_space_len].
  - rewrite Hc. reflexivity.
  - destruct (is_space x); [rewrite IH; reflexivity|reflexivity].
Qed.
Lemma lp_tls_all l : trim_left_space_len space_table l = zlen l -> Forall (fun c => is_space c = true) l.
Proof.
  induction l as [|x l IH]; intros H; [constructor|]. cbn [trim_left_space_len] in H. rewrite zlen_cons in H.
  pose proof (br_tls_range space_table l) as Hr. pose proof (zlen_nonneg l) as Hl.
  destruct (is_space x) eqn:Hx; [|lia]. constructor; [exact Hx|apply IH; lia].
Qed.
Lemma lp_forall_rev {A} (P : A -> Prop) l : Forall P (rev l) -> Forall P l.
Proof. rewrite !Forall_forall. intros H x Hx. apply H. apply in_rev in Hx. exact Hx. Qed.

Lemma lp_setext_ok (tail : bytes) : tail <> [] -> exists o, matches_setext_bar space_table tail = Ok o.
Proof.
  intros Hne. unfold matches_setext_bar. destruct (3 <? count_in [32%N] tail); [eexists; reflexivity|].
  rewrite at_nth.
  2:{ destruct tail as [|c r]; [congruence|]. rewrite zlen_cons. pose proof (zlen_nonneg r). lia. }
  cbn [bind].
  match goal with |- context [if ?b then Ok (Some ?x) else Ok None] => destruct b end; eexists; reflexivity.
Qed.

Lemma lp_count45_sp r : lp_sp_head r -> count_in [45%N] r = 0.
Proof.
  destruct r as [|d r]; [reflexivity|]. cbn [lp_sp_head count_in existsb]. intros [-> | [-> | ->]]; reflexivity.
Qed.

(* "- " followed by white space only is a setext bar but no thematic break; a thematic break "- - -" is no
   setext bar: the `isHeading` exception of listParser.Continue never applies *)
Lemma lp_bar_not_heading c r o : lp_sp_head r ->
  c = 45%N \/ c = 42%N \/ c = 43%N \/ c = 46%N \/ c = 41%N ->
  is_thematic_break space_table (c :: r) 0 = true ->
  matches_setext_bar space_table (c :: r) = Ok o ->
  match o with Some x => N.eqb x 45 | None => false end = false.
Proof.
  intros Hr Hc Htb H.
  assert (N32 : N.eqb c 32 = false) by (destruct Hc as [-> | [-> | [-> | [-> | ->]]]]; reflexivity).
  assert (N61 : N.eqb c 61 = false) by (destruct Hc as [-> | [-> | [-> | [-> | ->]]]]; reflexivity).
  unfold matches_setext_bar in H. cbn [count_in existsb] in H. rewrite N32 in H. cbn [orb] in H.
  change (3 <? 0) with false in H. cbv iota in H. change (zskip 0 (c :: r)) with (c :: r) in H.
  cbn [count_in existsb] in H. rewrite N61 in H. cbn [orb] in H. change (0 =? 0) with true in H. cbv iota in H.
  rewrite at_nth in H by (rewrite zlen_cons; pose proof (zlen_nonneg r); lia). cbn [bind] in H.
  change (0 <? 0) with false in H. cbn [andb orb] in H.
  destruct (N.eqb_spec c 45) as [E45|N45].
  2:{ cbn [orb] in H. change (0 <? 0) with false in H. cbn [andb] in H. injection H as <-. reflexivity. }
  subst c. cbn [orb] in H. rewrite (lp_count45_sp r Hr) in H. change (0 <? 1 + 0) with true in H. cbn [andb] in H.
  match type of H with (if ?b then _ else _) = _ => destruct b eqn:Hb end; [|injection H as <-; reflexivity].
  exfalso. apply Z.eqb_eq in Hb.
  assert (Hall : Forall (fun c => is_space c = true) r).
  { rewrite zlen_cons in Hb. pose proof (zlen_nonneg r) as Hl.
    destruct (is_space (nth (Z.to_nat (1 + zlen r - 1)) (45%N :: r) 0%N)).
    - apply lp_forall_rev. apply lp_tls_all. unfold trim_right_space_len in Hb. cbn [rev] in Hb.
      rewrite lp_tls_snoc in Hb by (apply lp_not_space; discriminate).
      unfold zlen in *. rewrite rev_length. lia.
    - assert (zlen r = 0) as Hz by lia. apply zlen_zero in Hz. subst r. constructor. }
  rewrite lp_tb_head in Htb by discriminate. cbn [tb_scan] in Htb.
  rewrite lp_not_space in Htb by discriminate. change (N.eqb 0 0) with true in Htb. cbv iota in Htb.
  change (N.eqb 45 42 || N.eqb 45 45 || N.eqb 45 95)%bool with true in Htb. cbv iota in Htb.
  rewrite lp_tb_scan_spaces in Htb by exact Hall. discriminate.
Qed.

(* both facts for the tail of a recognised list item line *)
Lemma lp_tail_not_heading line m typ : parse_list_item line = (m, typ) -> typ <> 0%N ->
  is_thematic_break space_table (zskip (m3 m - 1) line) 0 = true ->
  exists o, matches_setext_bar space_table (zskip (m3 m - 1) line) = Ok o /\
            match o with Some x => N.eqb x 45 | None => false end = false.
Proof.
  intros Hp Ht Htb. destruct (lp_pli_shape line m typ Hp Ht) as (A1 & A2 & A3 & A4 & A5 & A6).
  rewrite lp_zskip_cons in * by lia. replace (m3 m - 1 + 1) with (m3 m) in * by lia.
  destruct (lp_setext_ok (nth_byte line (m3 m - 1) :: zskip (m3 m) line) ltac:(discriminate)) as [o Ho].
  exists o. split; [exact Ho|]. eapply lp_bar_not_heading; [exact A5| |exact Htb|exact Ho].
  destruct A6 as [(_ & B2 & B3)|(_ & _ & B3)].
  - replace (m3 m - 1) with (m1 m) by lia. unfold lp_bullet in B3. tauto.
  - tauto.
Qed.

(* ---------- state helpers ---------- *)
Lemma lp_cont_container bp node s s' c : is_container bp = true -> SI s' -> s_h s' = s_h s ->
  same_line (s_r s) (s_r s') -> cframe (s_c s) (s_c s') -> c_fence (s_c s') = c_fence (s_c s) ->
  c_tmp_para (s_c s') = c_tmp_para (s_c s) -> cont_post bp node s s' c true.
Proof.
  intros Hc HS Hh Hl Hf H1 H2. unfold cont_post. rewrite Hc. csplit; auto; try discriminate.
  apply same_line_le. exact Hl.
Qed.
Lemma lp_cinv_empty h c v : CInv lst h c -> CInv lst h (cset_empty c v).
Proof. intros [A B C D]. constructor; cbn [cset_empty c_len c_arr c_tmp_para c_fence]; assumption. Qed.
Lemma lp_cinv_skip h c v : CInv lst h c -> CInv lst h (cset_skip c v).
Proof. intros [A B C D]. constructor; cbn [cset_skip c_len c_arr c_tmp_para c_fence]; assumption. Qed.
Lemma lp_cframe_refl c : cframe c c.
Proof. unfold cframe. auto. Qed.

Lemma lp_last_para s : SI s ->
  exists b, match last_opened (s_c s) with None => Ok false | Some (l, _) => is_paragraph (s_h s) l end = Ok b.
Proof.
  intros HS. destruct (last_opened (s_c s)) as [[l bp]|] eqn:E; [|eexists; reflexivity].
  unfold last_opened in E. destruct (c_len (s_c s)) as [|k]; [discriminate|]. apply nth_error_In in E.
  destruct (ci_arr _ _ _ (si_c _ _ _ _ HS) _ E) as [n [En _]]. cbn [fst] in En.
  unfold is_paragraph. rewrite (hget_some _ _ _ En). eexists. reflexivity.
Qed.

(* when listParser.Continue says "continue" on a non-blank line: either the line is a list item line
   (indented by less than 4) whose tail is no thematic break, or the empty-item flag is clear and the
   line is indented at least to the offset of the last item *)
Definition LCtrue (line : bytes) (off offset : Z) (e0 : bool) : Prop :=
  (fst (indent_width line off) < 4 /\ snd (parse_list_item line) <> 0%N /\
   is_thematic_break space_table (zskip (m3 (fst (parse_list_item line)) - 1) line) 0 = false) \/
  (e0 = false /\ offset <= fst (indent_width line off)).

Lemma lp_list_continue s L it Ln itn : SI s -> sin s ->
  nth_error (s_h s) L = Some Ln -> last_id (bch Ln) = Some it ->
  nth_error (s_h s) it = Some itn -> bk itn = BListItem ->
  exists s1 c1, list_continue space_table s L = Ok (s1, c1) /\ SI s1 /\ s_h s1 = s_h s /\
    same_pos (s_r s) (s_r s1) /\ cframe (s_c s) (s_c s1) /\ c_fence (s_c s1) = c_fence (s_c s) /\
    c_tmp_para (s_c s1) = c_tmp_para (s_c s) /\
    (c1 = true -> Reader.is_blank space_table (sview s) = false ->
       c_empty_item (s_c s1) = c_empty_item (s_c s) /\
       LCtrue (sview s) (soff s) (b_i1 itn) (c_empty_item (s_c s))).
Proof.
  intros HS Hin HL Hlast Hit Kit. unfold list_continue.
  rewrite (hget_some _ _ _ HL). cbn [bind].
  destruct (peek_line_s_ok _ _ _ s HS) as [sa (Ea & Sa & Ca & _)]. rewrite Ea. unfold sin in Hin. rewrite Hin.
  cbn [bind]. cbv beta iota. rewrite Hlast. cbn [bind line_of].
  pose proof Ca as (Ha & Hca & Hpa).
  unfold child_count. rewrite Ha, (hget_some _ _ _ Hit). cbn [bind].
  destruct (Reader.is_blank space_table (sview s)) eqn:Hb.
  - destruct (zlen (bch itn) =? 0).
    + eexists _, _. split; [reflexivity|]. cbn [st_c s_h s_c s_r cset_empty c_fence c_tmp_para c_arr c_len c_boff c_bind].
      rewrite Hca. csplit; auto; try reflexivity.
      * apply SI_set_c; [exact Sa|]. apply lp_cinv_empty. rewrite <- Hca. apply Sa.
      * unfold cframe. cbn [cset_empty c_arr c_len c_boff c_bind]. auto.
      * intros _ C. discriminate.
    + exists sa, true. split; [reflexivity|]. rewrite Hca. csplit; auto; try reflexivity; try apply lp_cframe_refl.
      intros _ C. discriminate.
  - unfold last_offset. rewrite (hget_some _ _ _ HL). cbn [bind]. rewrite Hlast, (hget_some _ _ _ Hit). cbn [bind].
    rewrite Kit. cbn [bkind_eqb bind].
    destruct (line_offset_s_ok _ _ _ sa Sa) as [sb (Eb & Sb & Cb & _)]. rewrite Eb. cbn [bind]. cbv beta iota zeta.
    rewrite (scache_off _ _ Ca). pose proof Cb as (Hb1 & Hcb & Hpb).
    assert (Hret : forall c, (c = true -> LCtrue (sview s) (soff s) (b_i1 itn) (c_empty_item (s_c s))) ->
      exists s1 c1, Ok (sb, c) = Ok (s1, c1) /\ SI s1 /\ s_h s1 = s_h s /\
        same_pos (s_r s) (s_r s1) /\ cframe (s_c s) (s_c s1) /\ c_fence (s_c s1) = c_fence (s_c s) /\
        c_tmp_para (s_c s1) = c_tmp_para (s_c s) /\
        (c1 = true -> false = false ->
           c_empty_item (s_c s1) = c_empty_item (s_c s) /\
           LCtrue (sview s) (soff s) (b_i1 itn) (c_empty_item (s_c s)))).
    { intros c Hc. exists sb, c. split; [reflexivity|]. rewrite Hcb, Hca, Hb1, Ha. csplit; auto.
      - eapply same_pos_trans; eassumption.
      - apply lp_cframe_refl. }
    rewrite lp_mli_eq. destruct (parse_list_item (sview s)) as [m typ] eqn:Hp.
    set (indent := fst (indent_width (sview s) (soff s))) in *.
    assert (He : c_empty_item (s_c sb) = c_empty_item (s_c s)) by (rewrite Hcb, Hca; reflexivity).
    assert (Hafter : (indent <? b_i1 itn) = false ->
      exists s1 c1,
        (if (zlen (bch itn) =? 0) && (indent <? b_i1 itn) then Ok (sb, false)
         else if c_empty_item (s_c sb) then Ok (sb, false) else Ok (sb, true)) = Ok (s1, c1) /\ SI s1 /\ s_h s1 = s_h s /\
        same_pos (s_r s) (s_r s1) /\ cframe (s_c s) (s_c s1) /\ c_fence (s_c s1) = c_fence (s_c s) /\
        c_tmp_para (s_c s1) = c_tmp_para (s_c s) /\
        (c1 = true -> false = false ->
           c_empty_item (s_c s1) = c_empty_item (s_c s) /\
           LCtrue (sview s) (soff s) (b_i1 itn) (c_empty_item (s_c s)))).
    { intros Hio. rewrite Hio, andb_false_r. destruct (c_empty_item (s_c sb)) eqn:Ee; [apply Hret; discriminate|].
      apply Hret. intros _. right. split; [congruence|]. fold indent. apply Z.ltb_ge in Hio. exact Hio. }
    destruct ((indent <? b_i1 itn) || (zlen (bch itn) =? 0)) eqn:G1.
    + destruct ((indent <? 4) && negb (N.eqb typ 0) && (m1 m - b_i1 itn <? 4)) eqn:G2.
      * apply andb_true_iff in G2. destruct G2 as [G2 G2c]. apply andb_true_iff in G2. destruct G2 as [G2a G2b].
        assert (Ht : typ <> 0%N) by (destruct (N.eqb_spec typ 0); [discriminate|assumption]).
        destruct (parse_list_item_in_range _ _ _ Hp Ht) as (R1 & _ & R3 & _).
        rewrite at_nth by lia. cbn [bind].
        match goal with |- context [if negb ?b then _ else _] => destruct (negb b) end; [apply Hret; discriminate|].
        destruct (is_thematic_break space_table (zskip (m3 m - 1) (sview s)) 0) eqn:Htb.
        -- destruct (lp_last_para sb Sb) as [b Eb']. rewrite Eb'. cbn [bind].
           destruct (lp_tail_not_heading _ _ _ Hp Ht Htb) as [o [Eo Ho]].
           destruct b.
           ++ rewrite Eo. cbn [bind]. rewrite Ho. cbn [negb]. apply Hret. discriminate.
           ++ cbn [bind negb]. apply Hret. discriminate.
        -- apply Hret. intros _. left. rewrite Hp. cbn [fst snd]. fold indent. csplit; auto.
           apply Z.ltb_lt in G2a. exact G2a.
      * destruct (zlen (bch itn) =? 0) eqn:Hl0; cbn [negb]; [|apply Hret; discriminate].
        destruct (indent <? b_i1 itn) eqn:Hio.
        -- cbn [andb]. apply Hret. discriminate.
        -- apply Hafter. reflexivity.
    + apply orb_false_iff in G1. destruct G1 as [Hio Hl0]. rewrite Hl0 in Hafter. rewrite Hl0. apply Hafter. exact Hio.
Qed.

Lemma lp_list_item_continue s L it Ln itn : SI s -> sin s ->
  nth_error (s_h s) L = Some Ln -> last_id (bch Ln) = Some it ->
  nth_error (s_h s) it = Some itn -> bk itn = BListItem -> bpar itn = Some L ->
  (Reader.is_blank space_table (sview s) = false ->
     LCtrue (sview s) (soff s) (b_i1 itn) (c_empty_item (s_c s))) ->
  exists s3 c3, list_item_continue space_table s it = Ok (s3, c3) /\ cont_post PListItem it s s3 c3 true /\
    (c3 = false -> snd (parse_list_item (sview s3)) <> 0%N /\
                   is_thematic_break space_table (sview s3) (soff s3) = false /\
                   c_skip_list (s_c s3) = true).
Proof.
  intros HS Hin HL Hlast Hit Kit Hpar Hlc. unfold list_item_continue.
  rewrite (hget_some _ _ _ Hit). cbn [bind].
  destruct (peek_line_s_ok _ _ _ s HS) as [sa (Ea & Sa & Ca & _)]. rewrite Ea. pose proof Hin as Hin'.
  unfold sin in Hin. rewrite Hin. cbn [bind]. cbv beta iota. cbn [line_of].
  pose proof Ca as (Ha & Hca & Hpa).
  pose proof (view_nonempty _ (si_r _ _ _ _ HS) Hin) as Hne. fold (sview s) in Hne.
  destruct (Reader.is_blank space_table (sview s)) eqn:Hb.
  - destruct (advance_s_in_line _ _ _ sa (zlen (sview s) - 1) Sa (scache_sin _ _ Ca Hin')) as [sc (Ec & Sc & Hc1 & Hc2 & Hc3 & _)].
    + rewrite (scache_view _ _ Ca). lia.
    + intros k Hk. apply view_no_nl; [apply Sa|]. fold (sview sa). rewrite (scache_view _ _ Ca). lia.
    + rewrite Ec. cbn [bind]. exists sc, true. split; [reflexivity|]. split; [|discriminate].
      apply lp_cont_container; auto.
      * congruence.
      * eapply same_line_trans; [apply same_pos_line; exact Hpa|exact Hc3].
      * rewrite Hc2, Hca. apply lp_cframe_refl.
      * congruence.
      * congruence.
  - specialize (Hlc eq_refl). unfold LCtrue in Hlc. rewrite Hpar. cbn [bind].
    unfold last_offset. rewrite Ha, (hget_some _ _ _ HL). cbn [bind]. rewrite Hlast, (hget_some _ _ _ Hit). cbn [bind].
    rewrite Kit. cbn [bkind_eqb bind].
    destruct (line_offset_s_ok _ _ _ sa Sa) as [sb (Eb & Sb & Cb & _)]. rewrite Eb. cbn [bind]. cbv beta iota zeta.
    rewrite (scache_off _ _ Ca). pose proof Cb as (Hb1 & Hcb & Hpb).
    pose proof (hi_ok _ _ _ _ (si_h _ _ _ _ HS) _ _ Hit) as Hok. unfold node_ok in Hok. rewrite Kit in Hok.
    set (indent := fst (indent_width (sview s) (soff s))) in *.
    assert (Hsb : same_pos (s_r s) (s_r sb)) by (eapply same_pos_trans; eassumption).
    assert (Hgo : b_i1 itn <= indent ->
      exists s3 c3,
        (let '(pos, padding) := indent_position (sview s) (soff s) (b_i1 itn) in
         r <- r_advance_and_set_padding (s_r sb) pos padding ;; Ok (st_r sb r, true)) = Ok (s3, c3) /\
        cont_post PListItem it s s3 c3 true /\
        (c3 = false -> snd (parse_list_item (sview s3)) <> 0%N /\
                       is_thematic_break space_table (sview s3) (soff s3) = false /\
                       c_skip_list (s_c s3) = true)).
    { intros Hle. destruct (lp_indent_position (sview s) (soff s) (b_i1 itn) ltac:(fold indent; lia))
        as (pos & pad & E & Hp1 & Hp2 & Hp3). rewrite E.
      assert (Hv : r_view (s_r sb) = sview s) by (apply same_pos_view; exact Hsb).
      destruct (ri_advance_and_set_padding_in_line (s_r sb) pos pad (si_r _ _ _ _ Sb)) as [r' (Er & Rr & Lr & _)].
      - rewrite (same_pos_in_range _ _ Hsb). exact Hin.
      - rewrite Hv. exact Hp1.
      - rewrite Hv. exact Hp3.
      - exact Hp2.
      - rewrite Er. cbn [bind]. eexists _, _. split; [reflexivity|]. split; [|discriminate].
        apply lp_cont_container; cbn [st_r s_h s_c s_r]; auto.
        + apply SI_set_r; [exact Sb|exact Rr|apply same_line_le; exact Lr|].
          eapply PadB_advance_and_set_padding; [exact Er|exact (si_pad _ _ _ _ Sb)|].
          eapply indent_position_bound; [exact E|exact Hok].
        + congruence.
        + eapply same_line_trans; [apply same_pos_line; exact Hsb|exact Lr].
        + rewrite Hcb, Hca. apply lp_cframe_refl.
        + congruence.
        + congruence. }
    assert (He : c_empty_item (s_c sa) = c_empty_item (s_c s)) by congruence.
    (* the second alternative of LCtrue makes the guard false *)
    assert (HT2 : c_empty_item (s_c s) = false -> b_i1 itn <= indent ->
              ((zlen (bch itn) =? 0) && c_empty_item (s_c sa) || (indent <? b_i1 itn)) && (indent <? 4) = false).
    { intros E0 Hle. rewrite He, E0, andb_false_r. destruct (Z.ltb_spec indent (b_i1 itn)); [lia|]. reflexivity. }
    destruct (((zlen (bch itn) =? 0) && c_empty_item (s_c sa) || (indent <? b_i1 itn)) && (indent <? 4)) eqn:G.
    + rewrite lp_mli_eq. destruct (parse_list_item (sview s)) as [m typ] eqn:Hp. cbn [fst snd] in Hlc.
      destruct (N.eqb_spec typ 0) as [Ht|Ht]; cbn [negb].
      * exfalso. destruct Hlc as [(_ & T & _)|(T1 & T2)]; [contradiction|]. pose proof (HT2 T1 T2) as G'. congruence.
      * eexists _, _. split; [reflexivity|]. split.
        -- apply lp_cont_container; cbn [st_c s_h s_c s_r cset_skip c_fence c_tmp_para]; auto.
           ++ apply SI_set_c; [exact Sb|]. apply lp_cinv_skip. apply Sb.
           ++ congruence.
           ++ apply same_pos_line. exact Hsb.
           ++ unfold cframe. cbn [cset_skip c_arr c_len c_boff c_bind]. rewrite Hcb, Hca. auto.
           ++ congruence.
           ++ congruence.
        -- intros _. unfold sview, soff. cbn [st_c s_r s_c cset_skip c_skip_list].
           rewrite (same_pos_view _ _ Hsb), (same_pos_column _ _ Hsb). fold (sview s) (soff s).
           rewrite Hp. cbn [snd]. csplit; auto.
           destruct Hlc as [(_ & _ & T)|(T1 & T2)].
           ++ eapply lp_pli_not_tb; eassumption.
           ++ pose proof (HT2 T1 T2) as G'. congruence.
    + apply Hgo. destruct Hlc as [(T & _ & _)|(_ & T)]; [|exact T].
      destruct (Z.ltb_spec indent 4) as [_|Hge]; [|lia]. rewrite andb_true_r in G. apply orb_false_iff in G.
      destruct G as [_ G]. apply Z.ltb_ge in G. exact G.
Qed.

(* ---------- list and list item: Continue ----------
   The list item `it` is the last child of the list `L`.  listParser.Continue on L and then
   listItemParser.Continue on it, on the same line: when the item does not continue, the line is a
   list item line that is not a thematic break, and the skip flag is set. *)
Lemma list_pair_ok s L it Ln itn : SI s -> sin s ->
  nth_error (s_h s) L = Some Ln -> bk Ln = BList -> last_id (bch Ln) = Some it ->
  nth_error (s_h s) it = Some itn -> bk itn = BListItem -> bpar itn = Some L ->
  exists s1 c1, list_continue space_table s L = Ok (s1, c1) /\ cont_post PList L s s1 c1 true /\
    (c1 = true -> forall s2, SI s2 -> scache s1 s2 ->
       exists s3 c3, list_item_continue space_table s2 it = Ok (s3, c3) /\ cont_post PListItem it s2 s3 c3 true /\
         (c3 = false -> snd (parse_list_item (sview s3)) <> 0%N /\
                        is_thematic_break space_table (sview s3) (soff s3) = false /\
                        c_skip_list (s_c s3) = true)).
Proof.
  intros HS Hin HL KL Hlast Hit Kit Hpar.
  destruct (lp_list_continue s L it Ln itn HS Hin HL Hlast Hit Kit) as [s1 [c1 (E1 & S1 & H1 & P1 & F1 & F2 & F3 & T1)]].
  exists s1, c1. split; [exact E1|]. split.
  { apply lp_cont_container; auto. apply same_pos_line. exact P1. }
  intros Hc1 s2 S2 C2. pose proof C2 as (H2 & Hc2 & P2).
  assert (P12 : same_pos (s_r s) (s_r s2)) by (eapply same_pos_trans; eassumption).
  assert (Hv : sview s2 = sview s) by (apply same_pos_view; exact P12).
  assert (Ho : soff s2 = soff s) by (apply same_pos_column; exact P12).
  apply (lp_list_item_continue s2 L it Ln itn); auto.
  - unfold sin. rewrite (same_pos_in_range _ _ P12). exact Hin.
  - congruence.
  - congruence.
  - rewrite Hv, Ho. intros Hb. destruct (T1 Hc1 Hb) as [Te Tl]. rewrite Hc2, Te. exact Tl.
Qed.

End S.
