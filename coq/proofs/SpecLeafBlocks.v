(* Leaf blocks, block phase: the document loop over blocks of the four kinds (one step lemma per
   kind: SpecPara for paragraphs, SpecLeafAtx, SpecLeafHr, SpecLeafFence), the resulting heap as a
   tree, and the theorem on ParseBlocksTree. *)
Require Import GM.model.Base GM.model.Util GM.model.UtilI GM.model.Reader GM.model.ListItem GM.model.Blocks GM.model.CodeBlock
               GM.model.Regex GM.model.BlockParse GM.model.HtmlWriter GM.model.Html GM.model.SpecDoc GM.model.ParseI.
Require Import GM.gen.Tables GM.gen.Regexes GM.proofs.SpecParaBytes GM.proofs.SpecParaReader GM.proofs.SpecParaBlocks GM.proofs.SpecParaBlocks2
               GM.proofs.SpecParaBlocks3 GM.proofs.SpecLeafBytes GM.proofs.SpecLeafStep GM.proofs.SpecLeafAtx GM.proofs.SpecLeafHr
               GM.proofs.SpecLeafFence.
From Coq Require Import List NArith ZArith Bool Lia.
Import ListNotations.
Open Scope Z_scope.

Opaque space_table punct_table.

(* ---------- the shape of the source ---------- *)
Lemma ldoc_src_head b r fin : lblock_ok b = true -> exists c x, ldoc_src (b :: r) fin = c :: x /\ startc c = true.
Proof.
  intros Hb. destruct (lblock_src_head b Hb) as (c & x & E & Hc).
  destruct r as [|b' r].
  - rewrite ldoc_src_one, E. eexists c, _. split; [reflexivity|exact Hc].
  - rewrite ldoc_src_cons2, E. eexists c, _. split; [reflexivity|exact Hc].
Qed.

(* the nodes of the blocks d, the first of which begins at offset off *)
Fixpoint lnodes_ok (off : Z) (d : list lblock) (ns : list bnode) : Prop :=
  match d, ns with
  | [], [] => True
  | b :: d', n :: ns' => (exists bl, n = node_of off b bl) /\ lnodes_ok (off + zlen (lblock_src b) + 2) d' ns'
  | _, _ => False
  end.

Section Driver.
Variable norm : bytes -> bytes.
Variables re_t1o re_t1c re_t2 re_t3 re_t4 re_t5 re_t6 re_t7 : re.
Variable allowed_tags : list bytes.
Notation PBL := (parse_blocks_loop space_table punct_table norm re_t1o re_t1c re_t2 re_t3 re_t4 re_t5 re_t6 re_t7 allowed_tags).
Notation STEP := (block_step norm re_t1o re_t1c re_t2 re_t3 re_t4 re_t5 re_t6 re_t7 allowed_tags).

(* a paragraph: SpecParaBlocks2.para_step *)
Lemma para_block_step p : lblock_ok (LPara p) = true -> STEP (LPara p).
Proof.
  cbn [lblock_ok]. intros Hp. destruct (para_ok_inv p Hp) as (body & bs & -> & Hb & Hbs).
  intros f eb term0 suf0 next cs cl arr pre k stats src Hpt Ht Hsrc Hnext.
  cbn [lblock_src] in *.
  destruct (para_ptail eb (term0 ++ suf0) next) with (bs := bs) (body := body) as (term & suf & He & Hterm & Hpt'); [|exact Hbs|].
  { exists term0, suf0. auto. }
  rewrite He in Hsrc |- *.
  destruct (para_step norm re_t1o re_t1c re_t2 re_t3 re_t4 re_t5 re_t6 re_t7 allowed_tags (S f) eb bs suf next cs cl arr pre body term k stats src
              Hpt' Hsrc Hb Hterm) as (stats' & sfin & bl & Hrun & Hh & Hcx & Hnx).
  exists stats', sfin, bl. split; [exact Hrun|]. split; [exact Hh|]. split; [rewrite Hcx; reflexivity|].
  intros Heb. destruct (Hnx Heb) as (k' & pre' & Hsrc' & Hr).
  eexists _, k', pre'. split; [exact Hcx|]. split; [exact Hsrc'|]. split; [|exact Hr].
  subst eb. destruct (ptail_nil_inv _ _ _ Hpt) as [(Hf & _)|(_ & Hs)]; [discriminate|]. subst suf0.
  assert (Hterm0 : term0 = [10%N]) by (apply (term_ok_nonempty term0 _ Ht); discriminate). subst term0.
  assert (Hz : zlen src = zlen pre + zlen (para_src (body :: bs)) + 2 + zlen next).
  { rewrite Hsrc, <- He. rewrite !zlen_app, !zlen_cons, zlen_nil. unfold bytes in *. lia. }
  assert (Hz' : zlen src = zlen pre' + zlen next) by (rewrite Hsrc', zlen_app; reflexivity).
  unfold bytes in *. lia.
Qed.

Lemma all_block_steps b : lblock_ok b = true -> STEP b.
Proof.
  destruct b as [p|lv t|ch|info ls]; intros Hb.
  - apply para_block_step. exact Hb.
  - apply atx_block_step. exact Hb.
  - apply hr_block_step. exact Hb.
  - apply fence_block_step. exact Hb.
Qed.

(* the outer loop over all the blocks *)
Lemma pbl_ldoc fin d : forall fuel cs cl arr pre k stats src,
  d <> [] -> forallb lblock_ok d = true -> (length d + 1 <= fuel)%nat -> src = pre ++ ldoc_src d fin ->
  exists sfin ns,
    PBL fuel 0%nat stats (mkst (dnode cs :: cl) (ctx arr 0) (rdA src k pre (ldoc_src d fin))) = Ok sfin /\
    s_h sfin = dnode (cs ++ seq (S (length cl)) (length d)) :: cl ++ ns /\
    lnodes_ok (zlen pre) d ns /\ c_refs (s_c sfin) = [].
Proof.
  induction d as [|b d IH]; intros fuel cs cl arr pre k stats src Hne Hd Hfuel Hsrc; [congruence|].
  cbn [forallb] in Hd. apply andb_true_iff in Hd. destruct Hd as [Hb Hd].
  destruct fuel as [|[|f]]; [cbn [length] in Hfuel; lia|cbn [length] in Hfuel; lia|]. cbn [length] in Hfuel.
  destruct d as [|b' d].
  - (* the last block *)
    rewrite ldoc_src_one in Hsrc |- *.
    set (term := if fin then [10%N] else []) in *.
    assert (Ht : term_ok term []) by (unfold term; destruct fin; [left; reflexivity|right; split; reflexivity]).
    destruct (all_block_steps b Hb f false term [] [] cs cl arr pre k stats src pt_eof Ht) as (stats' & sfin & bl & Hrun & Hh & Hrefs & _).
    { rewrite Hsrc, app_nil_r. reflexivity. }
    { discriminate. }
    rewrite app_nil_r in Hrun.
    exists sfin, [node_of (zlen pre) b bl]. split; [exact Hrun|]. split; [exact Hh|]. split; [|exact Hrefs].
    cbn [lnodes_ok]. split; [exists bl; reflexivity|exact I].
  - (* a block followed by an empty line and more blocks *)
    rewrite ldoc_src_cons2 in Hsrc |- *.
    set (next := ldoc_src (b' :: d) fin) in *.
    assert (Hb' : lblock_ok b' = true) by (cbn [forallb] in Hd; apply andb_true_iff in Hd; apply Hd).
    destruct (all_block_steps b Hb f true [10%N] (10%N :: next) next cs cl arr pre k stats src (pt_blank next)) as (stats' & sfin & bl & Hrun & Hh & _ & Hnx).
    { left. reflexivity. }
    { exact Hsrc. }
    { intros _. apply ldoc_src_head. exact Hb'. }
    destruct (Hnx eq_refl) as (arr' & k' & pre' & Hcx & Hsrc' & Hlen & Hr).
    destruct sfin as [h c r]. cbn [s_h s_c s_r] in Hh, Hcx, Hr. subst h c r.
    destruct (IH (S f) (cs ++ [S (length cl)]) (cl ++ [node_of (zlen pre) b bl]) arr' pre' k' stats' src) as (sfin & ns & Hrun' & Hh' & Hns & Hrefs);
      [discriminate|exact Hd|cbn [length] in Hfuel |- *; lia|exact Hsrc'|].
    exists sfin, (node_of (zlen pre) b bl :: ns).
    split; [change ([10%N] ++ 10%N :: next) with (10%N :: 10%N :: next) in Hrun; rewrite Hrun; exact Hrun'|]. split; [|split; [|exact Hrefs]].
    + rewrite Hh'. rewrite app_length. cbn [length seq]. rewrite Nat.add_1_r. rewrite <- !app_assoc. reflexivity.
    + cbn [lnodes_ok]. split; [exists bl; reflexivity|]. rewrite <- Hlen. exact Hns.
Qed.
End Driver.

(* ---------- from the heap to the tree ---------- *)
Lemma take_until_space_word v : forallb wordc v = true -> take_until_space v = v.
Proof.
  induction v as [|c r IH]; intros H; [reflexivity|]. cbn [forallb] in H. apply andb_true_iff in H. destruct H as [Hc Hr].
  cbn [take_until_space]. replace (N.eqb c 32) with false by (symmetry; apply N.eqb_neq; apply wordc_range in Hc; lia).
  rewrite (IH Hr). reflexivity.
Qed.

Lemma kind_of_lnode pre b post bl : lblock_ok b = true ->
  kind_of (pre ++ lblock_src b ++ post) (node_of (zlen pre) b bl) = Ok (lblock_kind b).
Proof.
  intros Hb. destruct b as [p|lv t|ch|info ls]; try reflexivity.
  cbn [lblock_ok] in Hb. apply andb_true_iff in Hb. destruct Hb as [Hw _].
  unfold kind_of. cbn [node_of bk lblock_bk b_seg lblock_seg lblock_kind].
  destruct info as [|c r] eqn:E; [reflexivity|]. rewrite <- E in *. assert (Hi : info_seg (zlen pre) info = Some (mkseg (zlen pre + 3) (zlen pre + 3 + zlen info))) by (rewrite E; reflexivity).
  rewrite Hi. unfold seg_value, mkseg. cbn [s_start s_stop s_pad s_fnl lblock_src].
  replace (pre ++ (ticks ++ info ++ [10%N] ++ code_text ls ++ ticks) ++ post)
    with ((pre ++ ticks) ++ info ++ ([10%N] ++ code_text ls ++ ticks) ++ post) by (rewrite <- !app_assoc; reflexivity).
  rewrite (slice_mid (pre ++ ticks) info _ (zlen pre + 3) (zlen pre + 3 + zlen info)).
  2:{ rewrite zlen_app. reflexivity. }
  2:{ rewrite zlen_app. reflexivity. }
  cbn [bind]. change (0 =? 0) with true. change (0 <? 0) with false. cbv iota. cbn [bind]. rewrite (take_until_space_word info Hw).
  rewrite E. reflexivity.
Qed.

Lemma to_tree_lnode g h i pre b post bl : lblock_ok b = true -> hget h i = Ok (node_of (zlen pre) b bl) ->
  to_tree (S g) (pre ++ lblock_src b ++ post) h i = Ok (lblock_tree (zlen pre) b).
Proof.
  intros Hb Hget. cbn [to_tree]. rewrite Hget. cbn [bind]. rewrite (kind_of_lnode pre b post bl Hb). reflexivity.
Qed.

Lemma to_tree_lkids g d0 : forall d ns pre_ns pre post, forallb lblock_ok d = true -> lnodes_ok (zlen pre) d ns ->
  map_res (to_tree (S g) (pre ++ ldoc_body d ++ post) (d0 :: pre_ns ++ ns)) (seq (S (length pre_ns)) (length d)) = Ok (ldoc_blocks (zlen pre) d).
Proof.
  induction d as [|b d IH]; intros ns pre_ns pre post Hd Hok; [reflexivity|].
  destruct ns as [|n ns]; [contradiction|]. cbn [lnodes_ok] in Hok. destruct Hok as [[bl ->] Hok].
  cbn [forallb] in Hd. apply andb_true_iff in Hd. destruct Hd as [Hb Hd].
  cbn [length seq map_res ldoc_blocks].
  assert (Hget : hget (d0 :: pre_ns ++ node_of (zlen pre) b bl :: ns) (S (length pre_ns)) = Ok (node_of (zlen pre) b bl)).
  { unfold hget. cbn [nth_error]. rewrite nth_error_app2 by lia. rewrite Nat.sub_diag. reflexivity. }
  destruct d as [|b' d].
  - change (ldoc_body [b]) with (lblock_src b).
    rewrite (to_tree_lnode g _ _ pre b post bl Hb Hget). reflexivity.
  - rewrite ldoc_body_cons2.
    rewrite <- (app_assoc (lblock_src b) ([10%N; 10%N] ++ ldoc_body (b' :: d)) post).
    rewrite (to_tree_lnode g _ _ pre b _ bl Hb Hget). cbn [bind].
    replace (pre ++ lblock_src b ++ ([10%N; 10%N] ++ ldoc_body (b' :: d)) ++ post)
      with ((pre ++ lblock_src b ++ [10%N; 10%N]) ++ ldoc_body (b' :: d) ++ post) by (rewrite <- !app_assoc; reflexivity).
    assert (Hz : zlen pre + zlen (lblock_src b) + 2 = zlen (pre ++ lblock_src b ++ [10%N; 10%N])).
    { rewrite !zlen_app. change (zlen [10%N; 10%N]) with 2. lia. }
    rewrite Hz in Hok |- *.
    pose proof (IH ns (pre_ns ++ [node_of (zlen pre) b bl]) (pre ++ lblock_src b ++ [10%N; 10%N]) post Hd Hok) as H.
    rewrite app_length in H. cbn [length] in H. rewrite Nat.add_1_r in H. rewrite <- (app_assoc pre_ns) in H. cbn [app] in H.
    change (length (b' :: d)) with (S (length d)). rewrite H. reflexivity.
Qed.

Lemma to_tree_ldoc d ns post : forallb lblock_ok d = true -> lnodes_ok 0 d ns ->
  to_tree (S (length (dnode (seq 1 (length d)) :: ns))) (ldoc_body d ++ post) (dnode (seq 1 (length d)) :: ns) 0 =
  Ok (Node KDocument [] None (ldoc_blocks 0 d)).
Proof.
  intros Hd Hok. cbn [length]. rewrite to_tree_S. cbn [hget nth_error bind dnode bk kind_of bch blines].
  pose proof (to_tree_lkids (length ns) (dnode (seq 1 (length d))) d ns [] [] post Hd Hok) as H. cbn [app length] in H.
  change (zlen (@nil N)) with 0 in H. rewrite H. reflexivity.
Qed.

(* ---------- the block phase on a document of leaf blocks ---------- *)
Theorem parse_blocks_tree_leaf d fin : ldoc_ok d = true ->
  ParseBlocksTree (ldoc_src d fin) = Ok (Node KDocument [] None (ldoc_blocks 0 d), []).
Proof.
  intros Hd. unfold ldoc_ok in Hd. apply andb_true_iff in Hd. destruct Hd as [Hne Hd].
  assert (Hne' : d <> []) by (destruct d; [discriminate|discriminate]).
  assert (Hlen : (length d <= length (ldoc_src d fin))%nat).
  { unfold ldoc_src. rewrite app_length. clear Hne Hne'. induction d as [|b d IH]; [cbn [length]; lia|].
    cbn [forallb] in Hd. apply andb_true_iff in Hd. destruct Hd as [Hb Hd]. specialize (IH Hd).
    destruct (lblock_src_head b Hb) as (c & x & E & _).
    destruct d as [|b' d]; [change (ldoc_body [b]) with (lblock_src b); rewrite E; cbn [length]; lia|].
    rewrite ldoc_body_cons2, !app_length, E. cbn [length] in IH |- *. lia. }
  destruct (pbl_ldoc ToLinkReference re_htmlBlockType1Open re_htmlBlockType1Close re_htmlBlockType2Open re_htmlBlockType3Open
              re_htmlBlockType4Open re_htmlBlockType5Open re_htmlBlockType6 re_htmlBlockType7 allowed_block_tags
              fin d (S (length (ldoc_src d fin))) [] [] [] [] 0 [] (ldoc_src d fin) Hne' Hd)
    as (sfin & ns & Hrun & Hh & Hns & Hrefs); [lia|reflexivity|].
  unfold ParseBlocksTree, ParseBlocks, parse_blocks. rewrite new_reader_suf.
  change (mknode BDocument 0) with (dnode []). change init_ctx with (ctx [] 0).
  rewrite Hrun. cbn [bind]. rewrite Hh. cbn [app length].
  change (zlen (@nil N)) with 0 in Hns.
  pose proof (to_tree_ldoc d ns (if fin then [10%N] else []) Hd Hns) as Ht. cbn [length] in Ht.
  unfold ldoc_src. rewrite Ht. cbn [bind]. rewrite Hrefs. reflexivity.
Qed.
