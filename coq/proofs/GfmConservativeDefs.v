(* Shared definitions of the GfmConservative*.v files (C11 for the GFM parser model). *)
Require Import GM.model.Base GM.model.Util GM.model.Reader GM.model.Regex GM.model.Html
               GM.model.BlockParse GM.model.InlineParse GM.model.InlineParseX.
From Coq Require Import List ZArith NArith Bool Lia.
Import ListNotations.
Open Scope Z_scope.

Lemma gc_bind_ok {A B} (r : result A) (f : A -> result B) b :
  (x <- r ;; f x) = Ok b -> exists a, r = Ok a /\ f a = Ok b.
Proof. destruct r as [a| |]; cbn [bind]; intros H; try discriminate. exists a. split; [reflexivity|exact H]. Qed.

Ltac gc_bind H x Hx :=
  let H' := fresh in
  apply gc_bind_ok in H; destruct H as [x [Hx H']]; rename H' into H.

Lemma gc_bind_eta {A} (r : result A) : (x <- r ;; Ok x) = r.
Proof. destruct r; reflexivity. Qed.

Lemma gc_bind_ext {A B} (r : result A) (f g : A -> result B) :
  (forall a, r = Ok a -> f a = g a) -> (x <- r ;; f x) = (x <- r ;; g x).
Proof. intros H. destruct r as [a| |]; cbn [bind]; auto. Qed.

(* ---- the inline heap of the default parser has no node that the GFM copies of the inline
        phase treat differently: an Emphasis node has a positive level (the levels 0, -1, -2
        stand for Strikethrough and TaskCheckBox nodes in InlineParseX.v) and a Delimiter node
        does not have the character '~' (on_match makes a Strikethrough node for it) ---- *)
Definition gk (k : ikind) : Prop :=
  match k with
  | IEmphasis l => 0 < l
  | IDelim _ _ _ _ _ ch _ _ => ch <> 126%N
  | _ => True
  end.
Definition gheap (h : iheap) : Prop := Forall (fun n => gk (ik n)) h.
Definition gctx (c : ictx) : Prop := gheap (i_h c).
Definition gst (s : ist) : Prop := gheap (i_h (t_c s)).

(* ---- the bytes of a text come from a source, from padding (blank) or are a forced newline ---- *)
Definition from_src (src : bytes) (v : bytes) : Prop := forall b, In b v -> In b src \/ b = 32%N \/ b = 10%N.
