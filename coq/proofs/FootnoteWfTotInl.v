(* C01 (inline phase of the Footnote parser model, model/FootnoteParseInline.v): inline_childrenF
   never panics and never runs out of fuel on a block whose lines satisfy lines_ok, for every
   footnote state.  Port of proofs/ParseInlineTotal.v (inline_children_total / InlineChildren_total)
   to the generalised drivers try_inlineF ... parse_blockF, itreeF, which thread the footnote state
   and have one more inline parser (footnote_parse).  Helper files, in compile order:
     FootnoteWfTotInlEf    the core inline operations never change or create an IEmphasis node with a
                           level <= 0 (partial correctness, all core parsers, process_delimiters,
                           link_close_block)
     FootnoteWfTotInlDrive footnote_parse, ip_parseF, try_inlineF, scan_lineF, parse_block_loopF and
                           parse_blockF are total over the state invariant SInv of the core
     FootnoteWfTotInlTree  itreeF is total when every FootnoteLink node has a serial inside the link list
     FootnoteWfTotInlEb    that bound on the serials is kept by the whole inline phase of a block *)
Require Import GM.model.Base GM.model.Util GM.model.UtilI GM.model.Reader GM.model.ReaderSpec GM.model.Blocks GM.model.ListItem
               GM.model.LeafBlocks GM.model.CodeSpan GM.model.LinkDest GM.model.Regex GM.model.Delim GM.model.DelimI GM.model.HtmlWriter
               GM.model.Html GM.model.HtmlSpec GM.model.BlockParse GM.model.InlineParse
               GM.model.FootnoteX GM.model.FootnoteParseBlock GM.model.FootnoteParseInline.
Require Import GM.gen.Tables GM.gen.Regexes.
Require Import GM.proofs.MiscProofs GM.proofs.ReaderProofs GM.proofs.BReaderProofs GM.proofs.BlockRangeProofs GM.proofs.ParseInv.
Require Import GM.proofs.ParseInlineTotalReader2 GM.proofs.ParseInlineTotalDrive.
Require Import GM.proofs.FootnoteWfTotInlDrive GM.proofs.FootnoteWfTotInlTree GM.proofs.FootnoteWfTotInlEb.
From Coq Require Import ZArith Lia List.
Import ListNotations.
Open Scope Z_scope.

Section S.
Variable space_table punct_table : list N.
Variable norm : bytes -> bytes.
Variable url_table email_table : list N.
Variable re_email_domain re_open_tag re_close_tag : re.
Variable punct_rune space_rune : N -> bool.
Notation ICF := (inline_childrenF space_table punct_table norm url_table email_table
                   re_email_domain re_open_tag re_close_tag punct_rune space_rune).
(* as in ParseInlineTotal.v: the two regular expressions of raw_html.go must not match the empty string *)
Hypothesis Hopen : re_nonempty re_open_tag = true.
Hypothesis Hclose : re_nonempty re_close_tag = true.

Lemma inline_childrenF_nil refs fs src : exists r, ICF refs fs src [] = Ok r.
Proof.
  unfold inline_childrenF, parse_blockF.
  replace (2 * length src + 2 * length (@nil seg) + 8)%nat with (S (2 * length src + 7))%nat by (cbn [length]; lia).
  eexists. reflexivity.
Qed.

Theorem inline_childrenF_total : forall refs fs src lines,
  bytes_ok src -> lines_ok src lines -> exists r, ICF refs fs src lines = Ok r.
Proof.
  intros refs fs src lines _ Hlines. destruct lines as [|first l]; [apply inline_childrenF_nil|].
  destruct (lines_ok_segs src (first :: l) Hlines) as [Hok Hpad].
  unfold inline_childrenF.
  destruct (parse_blockF_spec space_table punct_table norm url_table email_table re_email_domain re_open_tag re_close_tag
              punct_rune space_rune refs src (first :: l) first eq_refl Hopen Hclose fs Hok Hpad)
    as (c & fs' & E & W & K & A).
  rewrite E. cbn [bind].
  pose proof (parse_blockF_eb _ _ _ _ _ _ _ _ _ _ _ _ _ _ _ _ E) as HE.
  destruct (itreeF_root_total src (s_start first) (i_h c) (fs_links fs') W A K HE) as [t Et]. rewrite Et. cbn [bind].
  eexists. reflexivity.
Qed.

End S.

(* the tables and regular expressions of model/FootnoteI.v ParseTreeFn *)
Corollary InlineChildrenF_total : forall refs fs src lines,
  bytes_ok src -> lines_ok src lines ->
  exists r, inline_childrenF space_table punct_table ToLinkReference url_table email_table re_emailDomain
              re_openTag re_closeTag PunctRune SpaceRune refs fs src lines = Ok r.
Proof.
  intros refs fs src lines Hsrc Hlines.
  apply inline_childrenF_total; [vm_compute; reflexivity|vm_compute; reflexivity|exact Hsrc|exact Hlines].
Qed.
