(* Helper file for ParseBlocksTotal.v: transformParagraph (the link reference definition
   transformer at the level of the parser state) under the state invariant SI. *)
Require Import GM.model.Base GM.model.Util GM.model.Reader GM.model.ReaderSpec GM.model.Blocks GM.model.ListItem
               GM.model.LeafBlocks GM.model.CodeBlock GM.model.LinkDest GM.model.Regex GM.model.BlockParse.
Require Import GM.proofs.MiscProofs GM.proofs.ReaderProofs GM.proofs.BReaderProofs GM.proofs.BlocksProofs
               GM.proofs.ParseBlocksTotalReader GM.proofs.FootnoteWfTotBlkDefs GM.proofs.FootnoteWfTotBlkSpec
               GM.proofs.FootnoteWfTotBlkSt GM.proofs.ParseBlocksTotalLrd.
From Coq Require Import ZArith Lia List Bool.
Open Scope Z_scope.

Section S.
Variable space_table punct_table : list N.
Variable norm : bytes -> bytes.
Variable src : bytes.
Variable lst : option nat.
Hypothesis tbl : TblOK space_table.
Notation SI := (SI space_table src lst).

(* replacing the reference table leaves the context invariant alone *)
Lemma CInv_set_refs h c refs : CInv lst h c -> CInv lst h (cset_refs c refs).
Proof. intros [C1 C2 C3 C4]. constructor; cbn [cset_refs c_len c_arr c_tmp_para c_fence]; assumption. Qed.

(* the paragraph lost all its lines: it is replaced by a fresh TextBlock *)
Lemma transform_gone s node n p : SI s -> nth_error (s_h s) node = Some n -> bk n = BParagraph ->
  bpar n = Some p ->
  exists h', replace_child (s_h s ++ [set_blank (mknode BTextBlock 0) (bblank n)]) p node (length (s_h s)) = Ok h' /\
    SI (st_h s h') /\
    close_frame node (fun j _ => j = node) (s_h s) h' /\
    (exists n', nth_error h' node = Some n' /\ bpar n' = None) /\
    (Below (s_h s) (s_r s) -> Below h' (s_r s)).
Proof.
  intros HS Hn Kn Ep.
  set (nd := set_blank (mknode BTextBlock 0) (bblank n)).
  destruct (new_node_ok space_table src lst s nd HS) as (HS2 & Et & Eh2 & Ec2 & Er2).
  { reflexivity. } { reflexivity. } { exact I. } { intros K. discriminate K. }
  destruct (new_node s nd) as [s2 t] eqn:Enn. cbn [fst snd] in HS2, Et, Eh2, Ec2, Er2.
  assert (Hlt : (node < length (s_h s))%nat) by (eapply nth_error_lt, Hn).
  assert (Hn2 : nth_error (s_h s2) node = Some n) by (rewrite Eh2; apply nth_error_alloc_old, Hn).
  assert (Ht2 : nth_error (s_h s2) t = Some nd) by (rewrite Eh2, Et; apply nth_error_alloc_new).
  destruct (replace_child_ok space_table src lst (s_h s2) p node t n nd (si_h _ _ _ _ HS2) Hn2 Ht2)
    as (h' & Erc & Hst & Hlen & Hoth & Hall & Hdet & _).
  { lia. }
  { intros El. pose proof (hi_lst_valid _ _ _ _ _ (si_h _ _ _ _ HS) El). lia. }
  { rewrite Kn. discriminate. } { cbn. discriminate. }
  rewrite Eh2, Et in Erc. exists h'. split; [exact Erc|].
  assert (HS' : SI (st_h s2 h')) by (apply SI_set_h; [exact HS2|exact Hst]).
  assert (Est : st_h s2 h' = st_h s h').
  { unfold st_h. rewrite Ec2, Er2. reflexivity. }
  rewrite Est in HS'. split; [exact HS'|].
  csplit.
  - split.
    + rewrite Hlen, Eh2, app_length. cbn [length]. lia.
    + intros j nj Hj.
      assert (Hjl : (j < length (s_h s))%nat) by (eapply nth_error_lt, Hj).
      assert (Hj2 : nth_error (s_h s2) j = Some nj) by (rewrite Eh2; apply nth_error_alloc_old, Hj).
      destruct (nth_error_ex_lt h' j) as [n' Hn'].
      { rewrite Hlen. eapply nth_error_lt, Hj2. }
      destruct (Hall j n' Hn') as (n0 & E0 & K0 & L0 & _ & _ & P0 & C0).
      rewrite Hj2 in E0. injection E0 as <-.
      exists n'. csplit.
      * exact Hn'.
      * exact K0.
      * intros _. exact L0.
      * exact C0.
      * destruct (Nat.eq_dec j node) as [->|Hne].
        -- right. rewrite Hn in Hj. injection Hj as <-. split; [exact Kn|reflexivity].
        -- left. apply P0; [exact Hne|lia].
  - destruct (Hdet Ep) as (on' & Eon & Pon). exists on'. split; assumption.
  - intros HB i ni Hi Ki. destruct (Hall i ni Hi) as (n0 & E0 & K0 & L0 & _).
    rewrite L0. rewrite Eh2 in E0.
    destruct (nth_error_alloc_inv _ _ _ _ E0) as [E|[_ ->]].
    + apply (HB i n0 E). congruence.
    + rewrite K0 in Ki. discriminate Ki.
Qed.

(* some lines are left: they are stored in the paragraph *)
Lemma transform_keep s node n lines' : SI s -> nth_error (s_h s) node = Some n -> bk n = BParagraph ->
  lines' <> [] -> sublist lines' (blines n) ->
  SI (st_h s (hset (s_h s) node (set_lines n lines'))) /\
  close_frame node (fun j _ => j = node) (s_h s) (hset (s_h s) node (set_lines n lines')) /\
  (Below (s_h s) (s_r s) -> Below (hset (s_h s) node (set_lines n lines')) (s_r s)).
Proof.
  intros HS Hn Kn Hne Hsub.
  pose proof (hi_ok _ _ _ _ (si_h _ _ _ _ HS) node n Hn) as Hok. unfold node_ok in Hok. rewrite Kn in Hok.
  destruct Hok as (_ & Hsegs & Hnb).
  assert (Hlt : (node < length (s_h s))%nat) by (eapply nth_error_lt, Hn).
  csplit.
  - apply (upd_node_ok space_table src lst s node n); try reflexivity; try assumption.
    + unfold node_ok. cbn [set_lines bk blines]. rewrite Kn. split; [exact Hne|]. split.
      * eapply segs_ok_sublist; eassumption.
      * eapply Forall_sublist; eassumption.
    + intros _. cbn [set_lines blines]. eapply Forall_sublist; [|exact Hsub].
      apply (si_lim _ _ _ _ HS node n Hn Kn).
  - split; [rewrite hset_length; lia|]. intros j nj Hj.
    destruct (Nat.eq_dec node j) as [<-|Hnj].
    + rewrite Hn in Hj. injection Hj as <-. exists (set_lines n lines'). csplit.
      * apply hset_same, Hlt.
      * reflexivity.
      * intros C. congruence.
      * intros _. reflexivity.
      * left. reflexivity.
    + exists nj. csplit; auto. rewrite hset_other by exact Hnj. exact Hj.
  - intros HB i ni Hi Ki. destruct (Nat.eq_dec node i) as [<-|Hni].
    + rewrite hset_same in Hi by exact Hlt. injection Hi as <-. cbn [set_lines blines].
      eapply Forall_sublist; [|exact Hsub]. exact (HB node n Hn Kn).
    + rewrite hset_other in Hi by exact Hni. exact (HB i ni Hi Ki).
Qed.

Lemma transform_paragraph_ok s node n : SI s -> nth_error (s_h s) node = Some n -> bk n = BParagraph ->
  bpar n <> None ->
  exists s' gone, transform_paragraph space_table punct_table norm s node = Ok (s', gone) /\
                  transform_post space_table src lst node s s' gone.
Proof.
  intros HS Hn Kn Hpar.
  assert (sp32 : is_space space_table 32 = true) by (rewrite tbl; reflexivity).
  pose proof (hi_ok _ _ _ _ (si_h _ _ _ _ HS) node n Hn) as Hok. unfold node_ok in Hok. rewrite Kn in Hok.
  destruct Hok as (_ & Hsegs & _).
  destruct (lrd_lines_total space_table punct_table norm sp32 src (blines n) (s_c s) Hsegs)
    as (br & c' & removes & lines' & Ebr & Eloop & (refs & ->) & Erem & Hsub).
  set (s1 := st_c s (cset_refs (s_c s) refs)).
  assert (HS1 : SI s1).
  { apply SI_set_c; [exact HS|]. apply CInv_set_refs. exact (si_c _ _ _ _ HS). }
  assert (Hn1 : nth_error (s_h s1) node = Some n) by exact Hn.
  unfold transform_paragraph, lrd_transform.
  rewrite (hget_some _ _ _ Hn). cbn [bind]. unfold src_of. rewrite (si_src _ _ _ _ HS).
  rewrite Ebr. cbn [bind]. rewrite Eloop. cbn [bind]. cbv beta iota. fold s1.
  rewrite Erem. cbn [bind].
  destruct lines' as [|l0 ls].
  - destruct (bpar n) as [p|] eqn:Ep; [|congruence].
    destruct (transform_gone s1 node n p HS1 Hn1 Kn Ep) as (h' & Erc & HS' & Hcf & (n' & En' & Pn') & HB).
    unfold new_node, halloc. cbv beta iota. cbn [st_h s_h s_c s_r]. rewrite Erc. cbn [bind].
    cbn [st_h s_h]. rewrite (hget_some _ _ _ En'). cbn [bind]. rewrite Pn'.
    eexists _, true. split; [reflexivity|]. unfold transform_post.
    cbn [st_h st_c s_h s_c s_r cset_refs c_fence c_tmp_para c_skip_list c_empty_item].
    csplit; auto.
    + unfold cframe. cbn [cset_refs c_arr c_len c_boff c_bind]. auto.
    + exists n'. split; [exact En'|]. split; auto.
  - destruct (transform_keep s1 node n (l0 :: ls) HS1 Hn1 Kn ltac:(discriminate) Hsub) as (HS' & Hcf & HB).
    cbn [s1 st_c s_h]. rewrite (hupd_ok _ _ _ _ Hn). cbn [bind]. cbn [st_h s_h].
    assert (Hlt : (node < length (s_h s))%nat) by (eapply nth_error_lt, Hn).
    rewrite (hget_some _ _ _ (hset_same _ _ _ Hlt)). cbn [bind]. cbn [set_lines bpar].
    eexists _, false. split.
    { destruct (bpar n); [reflexivity|congruence]. }
    unfold transform_post.
    cbn [st_h st_c s_h s_c s_r cset_refs c_fence c_tmp_para c_skip_list c_empty_item].
    csplit; auto.
    + unfold cframe. cbn [cset_refs c_arr c_len c_boff c_bind]. auto.
    + exists (set_lines n (l0 :: ls)). split; [apply hset_same, Hlt|]. cbn [set_lines bpar].
      split; [discriminate|]. intros C. congruence.
Qed.

End S.
