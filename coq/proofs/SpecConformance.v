(* C02: the composed model of goldmark.Convert (ParseTree then RenderHTML, html.WithUnsafe and
   html.WithXHTML as in the repository's own spec test) reproduces the prescribed HTML of every
   example of the CommonMark specification shipped with the repository (_test/spec.json,
   regenerated into gen/SpecExamples.v on every run).  A finite statement, decided by evaluation
   inside the kernel; the unbounded part of C02 is decided on the implementation (see DESIGN.md). *)
Require Import GM.model.Base GM.model.Html GM.model.ParseI GM.gen.SpecExamples GM.proofs.Finite.
From Coq Require Import List NArith.
Import ListNotations.

Definition spec_cfg : rcfg := {| unsafe := true; xhtml := true; hardwraps := false; talign := 0%Z |}.
Definition conforms (e : N * (bytes * bytes)) : bool :=
  match ConvertModel spec_cfg (fst (snd e)) with
  | Ok o => bytes_eqb o (snd (snd e))
  | _ => false
  end.

Lemma all_conform : forallb conforms spec_examples = true.
Proof. vm_compute. reflexivity. Qed.

Theorem spec_examples_conform : forall n md html,
  In (n, (md, html)) spec_examples -> ConvertModel spec_cfg md = Ok html.
Proof.
  intros n md html Hin.
  pose proof (proj1 (forallb_forall conforms spec_examples) all_conform _ Hin) as H.
  unfold conforms in H. cbn [fst snd] in H.
  destruct (ConvertModel spec_cfg md) as [o| |]; try discriminate.
  apply bytes_eqb_eq in H. subst. reflexivity.
Qed.

Lemma spec_examples_nonempty : (600 <= length spec_examples)%nat.
Proof. vm_compute. repeat constructor. Qed.
