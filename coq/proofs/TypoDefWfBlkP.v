(* Helper library for TypoDefWfBlk.v, part P: the loop over the opened blocks of a line, the outer loops. *)
Require Import GM.model.Base GM.model.Util GM.model.Reader GM.model.ReaderSpec GM.model.Blocks GM.model.ListItem
               GM.model.LeafBlocks GM.model.CodeBlock GM.model.LinkDest GM.model.Regex GM.model.HtmlWriter
               GM.model.Html GM.model.HtmlSpec GM.model.BlockParse GM.model.InlineParse GM.model.TypoDefParseD.
Require Import GM.proofs.ReaderProofs GM.proofs.BlockRangeProofs GM.proofs.ParseInv
               GM.proofs.ParseBlocksRangeA GM.proofs.TypoDefWfBlkB GM.proofs.TypoDefWfBlkT GM.proofs.TypoDefWfBlkC
               GM.proofs.TypoDefWfBlkD GM.proofs.TypoDefWfBlkE
               GM.proofs.TypoDefWfBlkF GM.proofs.TypoDefWfBlkQ GM.proofs.TypoDefWfBlkR GM.proofs.TypoDefWfBlkL
               GM.proofs.TypoDefWfBlkM GM.proofs.TypoDefWfBlkN.
From Coq Require Import ZArith Lia Sorted.
Open Scope Z_scope.

Section P.
Variable space_table punct_table : list N.
Variable norm : bytes -> bytes.
Variable re_t1o re_t1c re_t2 re_t3 re_t4 re_t5 re_t6 re_t7 : re.
Variable allowed_tags : list bytes.
Variable src : bytes.
Variable deflist : bool.
Hypothesis sp32 : is_space space_table 32%N = true.
Set Default Proof Using "All".

(* lemmas of parts C and D take all the section variables: CC supplies them *)
Notation CC f := (f space_table punct_table norm re_t1o re_t1c re_t2 re_t3 re_t4 re_t5 re_t6 re_t7 allowed_tags src sp32) (only parsing).
Notation SInv := (SInv space_table src).
Notation HI := (HI space_table src).
Notation nodeP := (nodeP space_table src).
Notation heapS := (heapS space_table src).
Notation Jinv := (Jinv src).
Notation openS := (openS src).
Notation pline := (pline space_table src).
Notation oline := (oline src).
Notation fin_lines := (fin_lines src).
Notation fin := (fin src).
Notation cont_post := (cont_post space_table src).
Notation item_guard := (item_guard space_table).
Notation verdict := (verdict space_table).
Hypothesis Hsrc : bytes_ok src.
Notation CE f := (f space_table punct_table norm re_t1o re_t1c re_t2 re_t3 re_t4 re_t5 re_t6 re_t7 allowed_tags src sp32) (only parsing).
Notation CJ f := (f space_table punct_table norm re_t1o re_t1c re_t2 re_t3 re_t4 re_t5 re_t6 re_t7 allowed_tags src sp32 Hsrc) (only parsing).
Notation OInv := (OInv space_table src).
Notation EO := (each_openedD deflist space_table punct_table norm re_t1o re_t1c re_t2 re_t3 re_t4 re_t5 re_t6 re_t7 allowed_tags).

(* ---------- list indices ---------- *)
Lemma firstn_S_nth {X} (l : list X) : forall k e, nth_error l k = Some e -> firstn (S k) l = firstn k l ++ [e].
Proof.
  induction l as [|a t IH]; intros [|k] e H; cbn [nth_error] in H; try discriminate.
  - injection H as ->. reflexivity.
  - cbn [firstn app]. f_equal. apply IH. exact H.
Qed.
Lemma skipn_nth_cons {X} (l : list X) : forall k e, nth_error l k = Some e -> skipn k l = e :: skipn (S k) l.
Proof.
  induction l as [|a t IH]; intros [|k] e H; cbn [nth_error] in H; try discriminate.
  - injection H as ->. reflexivity.
  - cbn [skipn]. apply IH. exact H.
Qed.
Lemma nth_error_firstn_lt {X} (l : list X) : forall n m, (m < n)%nat -> nth_error (firstn n l) m = nth_error l m.
Proof.
  induction l as [|a t IH]; intros [|n] [|m] H; cbn [firstn nth_error]; try reflexivity; try lia. apply IH. lia.
Qed.
Lemma Oeq_nth c L m : Oeq c L -> (m < length L)%nat -> nth_error (c_arr c) m = nth_error L m.
Proof.
  intros HO Hm. pose proof (CE Oeq_len _ _ HO) as Hl. destruct HO as [H1 _]. unfold opened in H1.
  rewrite <- H1. symmetry. apply nth_error_firstn_lt. lia.
Qed.
Lemma nth_error_mid' {X} (P : list X) e R : nth_error (P ++ e :: R) (length P) = Some e.
Proof. rewrite nth_error_app2 by lia. rewrite Nat.sub_diag. reflexivity. Qed.

Lemma nth_adj (l : list nat) : forall k a b, nth_error l k = Some a -> nth_error l (S k) = Some b -> Adj l a b.
Proof.
  induction l as [|x t IH]; intros [|k] a b Ha Hb; cbn [nth_error] in *; try discriminate.
  - injection Ha as ->. destruct t as [|y t']; [discriminate|]. injection Hb as ->. exists [], t'. reflexivity.
  - apply Adj_cons. right. eapply IH; eassumption.
Qed.

Lemma ids_nth (E : list (nat * bparser)) k y bq : nth_error E k = Some (y, bq) -> nth_error (ids E) k = Some y.
Proof. intros H. unfold ids. rewrite nth_error_map, H. reflexivity. Qed.

Lemma nodup_nth_eq {X} (l : list X) i j x : NoDup l -> nth_error l i = Some x -> nth_error l j = Some x -> i = j.
Proof.
  intros Hnd Hi Hj. eapply NoDup_nth_error; [exact Hnd| |congruence]. apply nth_error_Some. congruence.
Qed.

(* the split of the opened blocks at index k *)
Lemma split_at (E : list (nat * bparser)) k node bp : nth_error E k = Some (node, bp) ->
  E = firstn k E ++ skipn k E /\ length (firstn k E) = k /\ skipn k E = (node, bp) :: skipn (S k) E /\
  (forall j, (j < k)%nat -> nth_error (firstn k E) j = nth_error E j).
Proof.
  intros H. pose proof (nth_some_lt _ _ _ H) as Hlt. csplit.
  - symmetry. apply firstn_skipn.
  - rewrite firstn_length. lia.
  - apply skipn_nth_cons. exact H.
  - intros j Hj. apply nth_error_firstn_lt. exact Hj.
Qed.

Definition EPost (r : st + st) : Prop :=
  match r with inl s' => SInv FF s' [] [] [] | inr s' => exists E', OInv WW s' E' [] [] end.

Notation OB := (open_blocksD deflist space_table punct_table norm re_t1o re_t1c re_t2 re_t3 re_t4 re_t5 re_t6 re_t7 allowed_tags).
Notation CB := (close_blocksD space_table punct_table norm).

Lemma npend_kind h h' (N : list (nat * bparser)) : kind_le h h' -> (exists n, nth_error h (lastid (ids N)) = Some n) ->
  npend h N -> npend h' N.
Proof.
  intros Hk [n En] Hnp n' En' Hdl. destruct (kind_le_nth _ _ _ _ Hk En) as [n2 [En2 [_ [_ [Kdl [_ [_ [_ Ksg]]]]]]]].
  assert (n2 = n') by congruence. subst n2. rewrite Kdl in Hdl. rewrite (Ksg Hdl). exact (Hnp n En Hdl).
Qed.

Lemma lastid_exists fl s A D N : SInv fl s A D N -> exists n, nth_error (s_h s) (lastid (ids N)) = Some n.
Proof.
  intros HS. destruct (CC exists_last_or_nil N) as [->|[N' [[y bq] ->]]].
  - change (lastid (ids [])) with 0%nat. destruct HS as [_ HH]. destruct (hs_root _ _ _ (hi_heap _ _ _ _ _ _ _ _ HH)) as [n0 [E0 _]]. eauto.
  - rewrite (CE lastid_ids_snoc). destruct (CE SInv_entry fl s A D (N' ++ [(y, bq)]) y bq HS) as [n [En _]]; [|eauto].
    apply in_or_app. right. apply in_or_app. right. apply in_or_app. right. left. reflexivity.
Qed.

(* a block of the spine that is followed by another one can have children *)
Lemma topN_prefix fl s E k node bp : SInv fl s E [] [] -> nth_error E k = Some (node, bp) -> topN (s_h s) (firstn k E).
Proof.
  intros HS Enth E' y bq EA. pose proof HS as [_ HH]. pose proof (hi_heap _ _ _ _ _ _ _ _ HH) as HhS.
  pose proof (CE SInv_spine _ _ _ HS) as Hsp.
  assert (length E' < k)%nat as Hlt.
  { apply (f_equal (@length _)) in EA. rewrite firstn_length, app_length in EA. cbn [length] in EA. lia. }
  assert (k = S (length E')) as Ek.
  { apply (f_equal (@length _)) in EA. rewrite firstn_length, app_length in EA. cbn [length] in EA. apply nth_some_lt in Enth. lia. }
  assert (nth_error E (length E') = Some (y, bq)) as Ey.
  { rewrite <- (nth_error_firstn_lt E k (length E') Hlt). rewrite EA. apply nth_error_mid'. }
  assert (Adj (0%nat :: ids E) y node) as Hadj.
  { apply Adj_cons. right. eapply nth_adj; [eapply ids_nth; exact Ey|rewrite <- Ek; eapply ids_nth; exact Enth]. }
  destruct (Hsp _ _ Hadj) as [ny [Eny Hlc]].
  destruct (parent_container _ _ _ _ _ HhS (ex_intro _ ny (conj Eny (last_id_in _ _ Hlc)))) as [nq [Eq Kq]]. eauto.
Qed.

(* the block at index i did not continue: blocks are opened below the previous one, the rest is closed *)
Lemma not_cont_case E i node bp s2 fuel blank (st1 : list (Z * Z * bool)) r stats' :
  OInv FF s2 E [] [] -> 0 <= i -> nth_error E (Z.to_nat i) = Some (node, bp) ->
  (this_parent <- (if i =? 0 then Ok 0%nat
                   else match nth_error E (Z.to_nat (i - 1)) with Some (p, _) => Ok p | None => Panic end) ;;
   last_node <- match nth_error E (Z.to_nat (zlen E - 1)) with Some (p, _) => Ok p | None => Panic end ;;
   o <- OB fuel this_parent blank s2 ;;
   (let '(res, s) := o in
    if negb (res =? paragraphContinuation)
    then now_last <- match nth_error (c_arr (s_c s)) (Z.to_nat (zlen E - 1)) with Some (p, _) => Ok p | None => Panic end ;;
         s0 <- CB s (if (now_last =? last_node)%nat then zlen E - 1 else zlen E - 1 - 1) i ;;
         Ok (inr s0, st1)
    else Ok (inr s, st1))) = Ok (r, stats') -> EPost r.
Proof.
  intros HO Hi Enth H.
  set (k := Z.to_nat i) in *.
  destruct (split_at E k node bp Enth) as [HE [HlenA [HD HAn]]].
  pose proof (topN_prefix FF s2 E k node bp (proj1 HO) Enth) as Htop.
  set (A := firstn k E) in *. set (D := skipn k E) in *.
  assert (zlen A = i) as HzA by (unfold zlen; rewrite HlenA; unfold k; lia).
  assert (zlen E = zlen A + zlen D) as HzE by (rewrite HE at 1; apply zlen_app).
  assert (1 <= zlen D) as HzD by (rewrite HD, zlen_cons; pose proof (zlen_nonneg (skipn (S k) E)); lia).
  bind_inv H tp Etp. bind_inv H ln Eln. bind_inv H o Eo. destruct o as [res s3].
  (* the parent *)
  assert (tp = lastid (ids A)) as Htp.
  { destruct (Z.eqb_spec i 0) as [E0|E0].
    - injection Etp as <-. assert (k = 0%nat) as Ek by (unfold k; lia). unfold A. rewrite Ek. reflexivity.
    - destruct (nth_error E (Z.to_nat (i - 1))) as [[p pq]|] eqn:Ep; [|discriminate]. injection Etp as <-.
      assert (k = S (Z.to_nat (i - 1))) as Ek by (unfold k; lia). unfold A. rewrite Ek.
      rewrite (firstn_S_nth _ _ _ Ep). symmetry. apply (CE lastid_ids_snoc). }
  rewrite HE in HO. pose proof (CE OInv_split _ _ _ _ HO) as HO2.
  destruct (CJ open_blocksD_ok deflist fuel tp blank s2 A D res s3 HO2 Htop Htp Eo) as [D' [N' [HW3 [HD' [Hpc [Hne [Hlen3 Hnp3]]]]]]].
  (* the last of the blocks of the line *)
  destruct (nth_error E (Z.to_nat (zlen E - 1))) as [[lnode lq]|] eqn:Elast; [|discriminate]. injection Eln as <-.
  destruct (Z.eqb_spec res paragraphContinuation) as [Eres|Eres]; cbn [negb] in H.
  - (* lazy continuation: nothing is closed *)
    injection H as <- _. destruct (Hpc Eres) as [-> [-> Hsh]]. exists E. rewrite HE.
    apply (CE OInv_join); [exact HW3|]. rewrite <- HE.
    eapply spineL_le; [|eapply (CE SInv_spine); rewrite HE; exact (proj1 HO)].
    intros q x _ Hl. eapply lastchild_le; eassumption.
  - bind_inv H nl Enl. bind_inv H s4 Ec. injection H as <- _.
    destruct HD' as [->|[-> [x [EDx [Hxn Harr]]]]].
    + (* the blocks D are closed *)
      destruct HW3 as [HS3 [HO3 Hu3]].
      assert (nth_error (c_arr (s_c s3)) (Z.to_nat (zlen E - 1)) = Some (lnode, lq)) as Enow.
      { rewrite (Oeq_nth _ _ _ HO3).
        - rewrite app_assoc, <- HE. rewrite nth_error_app1; [exact Elast|]. apply nth_some_lt in Elast. exact Elast.
        - rewrite app_assoc, <- HE, app_length. apply nth_some_lt in Elast. lia. }
      rewrite Enow in Enl. injection Enl as <-. rewrite Nat.eqb_refl in Ec.
      destruct (CJ close_blocksD_ok WW s3 s4 A D N' (zlen E - 1) i (conj HS3 (conj HO3 Hu3)) ltac:(lia) ltac:(lia) Ec) as [HO4 [_ [_ Hk4]]].
      exists (A ++ N'). apply (CE OInv_merge); [exact HO4|]. eapply npend_kind; [exact Hk4|eapply lastid_exists; exact HS3|exact Hnp3].
    + (* the paragraph has gone with a setext heading line, a definition list or with its link reference definitions *)
      assert (zlen D = 1) as HzD1 by (rewrite EDx; reflexivity).
      assert ((node, bp) = (x, PParagraph)) as Enx by (rewrite HD in EDx; injection EDx as ? ?; congruence).
      assert (Z.to_nat (zlen E - 1) = k) as Ekl by (unfold k; lia).
      rewrite Ekl in *. rewrite Enth in Elast. injection Elast as <- <-. injection Enx as -> ->.
      destruct HW3 as [HS3 [HO3 Hu3]].
      destruct N' as [|[y yq] N''].
      * exfalso. rewrite (Harr eq_refl) in Enl. destruct HO as [_ [HOs _]].
        rewrite (Oeq_nth _ _ k HOs) in Enl.
        2: { rewrite app_nil_r, <- HE. apply nth_some_lt in Enth. exact Enth. }
        rewrite app_nil_r, <- HE, Enth in Enl. injection Enl as <-. rewrite Nat.eqb_refl in Ec.
        unfold close_blocksD in Ec. replace (Z.to_nat (zlen E - 1 - i + 1)) with 1%nat in Ec by lia.
        cbn [close_rangeD] in Ec. destruct HO3 as [HO3 _]. rewrite HO3 in Ec. cbn [app] in Ec. rewrite app_nil_r in Ec.
        replace (zlen A <=? zlen E - 1) with true in Ec by lia. rewrite orb_true_r in Ec. discriminate.
      * assert (nth_error (c_arr (s_c s3)) k = Some (y, yq)) as Enow.
        { rewrite (Oeq_nth _ _ _ HO3).
          - cbn [app]. rewrite <- HlenA. apply nth_error_mid'.
          - cbn [app]. rewrite app_length. cbn [length]. lia. }
        rewrite Enow in Enl. injection Enl as <-.
        assert (y <> x) as Hyx by (intros ->; apply Hxn; left; reflexivity).
        apply Nat.eqb_neq in Hyx. rewrite Hyx in Ec.
        destruct (CJ close_blocksD_ok WW s3 s4 A [] ((y, yq) :: N'') (zlen E - 1 - 1) i (conj HS3 (conj HO3 Hu3)) ltac:(lia)) as [HO4 [_ [_ Hk4]]];
          [rewrite zlen_nil; lia|exact Ec|].
        exists (A ++ (y, yq) :: N''). apply (CE OInv_merge); [exact HO4|].
        eapply npend_kind; [exact Hk4|eapply lastid_exists; exact HS3|exact Hnp3].
Qed.

Lemma advance_line_FF fl s A D N : SInv fl s A D N -> SInv FF (advance_line_s s) A D N.
Proof.
  intros [HR HH]. unfold advance_line_s. destruct fl; cbn [rd_ok rd_bound] in *.
  - destruct (advl_R2 src _ HR) as [HR' [Hle Hst]]. split; [exact HR'|]. cbn [st_r s_r s_h s_c rd_bound].
    eapply (CC HI_mono); [exact HH|]. destruct Hle as [_ Hle]. exact Hle.
  - destruct (advl_RW src _ HR) as [HR' Hst]. split; [exact HR'|]. cbn [st_r s_r s_h s_c rd_bound]. rewrite Hst. exact HH.
Qed.

Lemma OInv_advance_line fl s A D N : OInv fl s A D N -> OInv FF (advance_line_s s) A D N.
Proof. intros [HS [HO Hu]]. split; [apply (advance_line_FF fl); exact HS|]. split; assumption. Qed.

Lemma OInv_same fl s s' A D N : OInv fl s A D N -> SInv fl s' A D N -> c_arr (s_c s') = c_arr (s_c s) ->
  c_len (s_c s') = c_len (s_c s) -> OInv fl s' A D N.
Proof. intros [_ [HO Hu]] HS Ea El. split; [exact HS|]. split; [eapply (CE Oeq_same); eassumption|exact Hu]. Qed.

Lemma item_guard_eq s s' node : s_h s' = s_h s -> rkey (s_r s') = rkey (s_r s) -> item_guard s node -> item_guard s' node.
Proof.
  intros Eh Ek Hg n p En Pn. rewrite Eh in En. eapply (CC verdict_eq); [exact Eh|exact Ek|]. eapply Hg; eassumption.
Qed.

Lemma each_opened_ok E : forall fuel i fl s stats r stats',
  OInv fl s E [] [] -> (i <= zlen E - 1 -> fl = FF) -> 0 <= i ->
  (forall node, nth_error E (Z.to_nat i) = Some (node, PListItem) -> item_guard s node) ->
  EO fuel E 0%nat i (zlen E - 1) stats s = Ok (r, stats') -> EPost r.
Proof.
  induction fuel as [|f IH]; intros i fl s stats r stats' HO Hfl Hi Hig H; [discriminate|].
  cbn [each_openedD] in H. destruct (Z.ltb_spec (zlen E - 1) i) as [Hend|Hin].
  - injection H as <- _. exists E. destruct fl; [apply (CE OInv_FW)|]; exact HO.
  - specialize (Hfl Hin). subst fl.
    destruct (nth_error E (Z.to_nat i)) as [[node bp]|] eqn:Enth; [|discriminate].
    bind_inv H x Ex. destruct x as [[s1 line] sg].
    pose proof HO as [HS [HOe Hu]].
    destruct (CC peek_s_ok _ _ _ _ _ _ _ HS Ex) as [HS1 [Eh1 [Ec1 [Ep1 [Esg [El [Ein1 Esrc1]]]]]]].
    pose proof (CC peek_s_rkey _ _ _ _ (proj1 (proj1 HS)) Ex) as Ek1.
    assert (OInv FF s1 E [] []) as HO1 by (eapply OInv_same; [exact HO|exact HS1|congruence|congruence]).
    destruct line as [line|].
    2: { (* end of the source: everything is closed *)
      bind_inv H s2 Ec. injection H as <- _.
      pose proof (CE OInv_split FF s1 [] E HO1) as HO1'.
      destruct (CJ close_blocksD_ok FF s1 s2 [] E [] (zlen E - 1) 0 HO1' eq_refl ltac:(rewrite zlen_nil; lia) Ec) as [[HS2 _] _].
      apply (advance_line_FF FF). exact HS2. }
    destruct (peeked_some _ _ El line eq_refl) as [Hir _].
    assert (In (node, bp) (E ++ [] ++ [])) as Hin' by (rewrite app_nil_r; eapply nth_error_In; exact Enth).
    destruct (CE SInv_entry _ _ _ _ _ _ _ HS1 Hin') as [nn [Enn [Knn _]]].
    bind_inv H isp Eisp. bind_inv H c Ec. destruct c as [[s2 cont] kids].
    unfold is_paragraph, hget in Eisp. rewrite Enn in Eisp. cbn [bind] in Eisp. injection Eisp as <-.
    (* Continue of the block *)
    assert (c_arr (s_c s2) = c_arr (s_c s1) /\ c_len (s_c s2) = c_len (s_c s1) /\
            (cont = false -> SInv FF s2 E [] []) /\
            (cont = true -> kids = cnt nn /\ (if kids then SInv FF s2 E [] [] else SInv WW s2 E [] []) /\
                            (exists n', nth_error (s_h s2) node = Some n' /\ cnt n' = cnt nn) /\
                            (bp = PList -> verdict s2 node))) as [Ea2 [El2 [Hcf Hct]]].
    { destruct (bkind_eqb (bk nn) BParagraph); cbn [negb] in Ec.
      - injection Ec as <- <- <-. csplit; auto. discriminate.
      - bind_inv Ec y Ey. destruct y as [[s2' c2'] k2']. injection Ec as <- <- <-.
        assert (r_in_range (s_r s1) = true) as Hir1 by congruence.
        destruct (CC p_continueD_ok bp s1 node nn s2' c2' k2' E [] [] HS1 Hin' Hir1) as [[Ea [El' [Hf Ht]]] [Hk [[n' [En' [Kn' In']]] Hv]]]; [|exact Enn|exact Ey|].
        + intros ->. eapply item_guard_eq; [exact Eh1|exact Ek1|]. apply Hig. reflexivity.
        + csplit; auto. intros Hc. csplit; [exact Hk|apply Ht; exact Hc| |intros Eb; apply Hv; assumption].
          exists n'. split; [exact En'|]. unfold cnt, is_dl, is_dd. rewrite Kn', In'. reflexivity. }
    destruct cont.
    + destruct (Hct eq_refl) as [Ekids [HS2 [[n2 [En2 Kn2]] Hv]]].
      destruct kids eqn:Kc; cbn [andb] in H.
      * assert (OInv FF s2 E [] []) as HO2 by (eapply OInv_same; [exact HO1|exact HS2|congruence|congruence]).
        destruct (Z.eqb_spec i (zlen E - 1)) as [Elast|Elast].
        -- (* blocks are opened below the last opened block *)
           bind_inv H o Eo. destruct o as [res s3]. injection H as <- _. cbn [snd].
           assert (exists E', E = E' ++ [(node, bp)]) as [E' EE].
           { destruct (CC exists_last_or_nil E) as [->|[E' [e EE]]]; [destruct (Z.to_nat i); discriminate|].
             exists E'. rewrite EE in Enth. replace (Z.to_nat i) with (length E') in Enth.
             - rewrite nth_error_mid' in Enth. congruence.
             - rewrite EE in Elast. unfold zlen in Elast. rewrite app_length in Elast. cbn [length] in Elast. lia. }
           assert (topN (s_h s2) E) as Htop.
           { intros E'' y bq EE'. rewrite EE in EE'. apply app_inj_tail in EE'. destruct EE' as [_ EE']. injection EE' as <- <-.
             exists n2. split; [exact En2|congruence]. }
           assert (node = lastid (ids E)) as Hpar by (rewrite EE; symmetry; apply (CE lastid_ids_snoc)).
           destruct (CJ open_blocksD_ok deflist _ node _ s2 E [] res s3 HO2 Htop Hpar Eo) as [D' [N' [HW3 [HD' [_ [_ [_ Hnp3]]]]]]].
           assert (D' = []) as -> by (destruct HD' as [->|[-> _]]; reflexivity).
           exists (E ++ N'). apply (CE OInv_merge); [exact HW3|exact Hnp3].
        -- (* on to the next opened block *)
           eapply (IH (i + 1) FF); [exact HO2|reflexivity|lia| |exact H].
           intros node' Enth'. replace (Z.to_nat (i + 1)) with (S (Z.to_nat i)) in Enth' by lia.
           pose proof (CE SInv_spine _ _ _ HS2) as Hsp.
           assert (Adj (0%nat :: ids E) node node') as Hadj.
           { apply Adj_cons. right. eapply nth_adj; eapply ids_nth; eassumption. }
           destruct (Hsp _ _ Hadj) as [np [Enp Hlc]]. apply last_id_in in Hlc.
           pose proof HS2 as [_ HH2]. pose proof (hi_heap _ _ _ _ _ _ _ _ HH2) as HhS.
           destruct (hs_K _ _ _ HhS _ _ _ Enp Hlc) as [nc [Enc Pnc]].
           assert (In (node', PListItem) (E ++ [] ++ [])) as Hin2 by (rewrite app_nil_r; eapply nth_error_In; exact Enth').
           destruct (CE SInv_entry _ _ _ _ _ _ _ HS2 Hin2) as [nc' [Enc' [Knc _]]]. assert (nc' = nc) by congruence. subst nc'.
           pose proof (hs_item _ _ _ HhS _ _ _ _ Enp Hlc Enc Knc) as Knp.
           destruct (CE SInv_entry _ _ _ _ _ _ _ HS2 Hin') as [np' [Enp' [Knp' _]]]. assert (np' = np) by congruence. subst np'.
           assert (bp = PList) as -> by (destruct bp; cbn [pkind] in *; congruence).
           intros n p En Pn. assert (n = nc) by congruence. subst n. assert (p = node) by congruence. subst p. apply Hv. reflexivity.
      * (* a leaf block has continued: it is the last opened block *)
        assert (i = zlen E - 1) as Hlast.
        { destruct (CC exists_last_or_nil E) as [EE|[E' [e EE]]]; [rewrite EE in Enth; destruct (Z.to_nat i); discriminate|].
          pose proof HS1 as [_ HH1].
          assert (node = fst e) as Hne.
          { eapply (CC leaf_entry_top) with (A := E) (D := []); [exact (hi_heap _ _ _ _ _ _ _ _ HH1)|exact (hi_open _ _ _ _ _ _ _ _ HH1)|rewrite app_nil_r; exact EE| |exact Enn|].
            - rewrite app_nil_r. eapply in_ids. eapply nth_error_In. exact Enth.
            - congruence. }
          pose proof (os_ndD _ _ _ _ _ _ (hi_open _ _ _ _ _ _ _ _ HH1)) as Hnd. rewrite app_nil_r in Hnd.
          assert (Z.to_nat i = length E') as Hidx.
          { eapply nodup_nth_eq; [exact Hnd|eapply ids_nth; exact Enth|]. rewrite EE, (CC ids_snoc), <- Hne.
            replace (length E') with (length (ids E')) by (unfold ids; apply map_length). apply nth_error_mid'. }
          rewrite EE. unfold zlen. rewrite app_length. cbn [length]. lia. }
        eapply (IH (i + 1) WW); [|intros Hle; exfalso; lia|lia| |exact H].
        -- eapply OInv_same; [apply (CE OInv_FW); exact HO1|exact HS2|congruence|congruence].
        -- intros node' Enth'. exfalso. apply nth_some_lt in Enth'. unfold zlen in Hlast. lia.
    + specialize (Hcf eq_refl).
      assert (OInv FF s2 E [] []) as HO2 by (eapply OInv_same; [exact HO1|exact Hcf|congruence|congruence]).
      eapply not_cont_case; [exact HO2|exact Hi|exact Enth|exact H].
Qed.

(* ---------- the loop over the lines of a run of non-blank lines ---------- *)
Notation LL := (lines_loopD deflist space_table punct_table norm re_t1o re_t1c re_t2 re_t3 re_t4 re_t5 re_t6 re_t7 allowed_tags).
Notation PBL := (parse_blocks_loopD deflist space_table punct_table norm re_t1o re_t1c re_t2 re_t3 re_t4 re_t5 re_t6 re_t7 allowed_tags).

Lemma Oeq_opened c E : Oeq c (E ++ [] ++ []) -> opened c = E.
Proof. intros [H _]. rewrite app_nil_r in H. exact H. Qed.

Lemma lines_loop_ok : forall fuel s stats E r stats', OInv FF s E [] [] ->
  LL fuel 0%nat stats s = Ok (r, stats') ->
  match r with inl s' => SInv FF s' [] [] [] | inr s' => OInv FF s' [] [] [] end.
Proof.
  induction fuel as [|f IH]; intros s stats E r stats' HO H; [discriminate|].
  cbn [lines_loopD] in H. pose proof HO as [HS [HOe Hu]]. rewrite (Oeq_opened _ _ HOe) in H.
  destruct E as [|e0 E0]; [injection H as <- _; exact HO|].
  set (E := e0 :: E0) in *. bind_inv H x Ex. destruct x as [r1 stats1].
  assert (EPost r1) as HP.
  { eapply (each_opened_ok E _ 0 FF); [exact HO|reflexivity|lia| |exact Ex].
    - (* the first opened block is a child of the document, hence not a list item *)
      intros node Enth. exfalso. change (nth_error E (Z.to_nat 0)) with (Some e0) in Enth. injection Enth as Ee0.
      pose proof (CE SInv_spine _ _ _ HS) as Hsp. pose proof HS as [_ HH]. pose proof (hi_heap _ _ _ _ _ _ _ _ HH) as HhS.
      assert (Adj (0%nat :: ids E) 0%nat node) as Hadj.
      { unfold E. rewrite Ee0. cbn [ids map fst]. exists [], (map fst E0). reflexivity. }
      destruct (Hsp _ _ Hadj) as [n0 [En0 Hlc]]. apply last_id_in in Hlc.
      destruct (hs_K _ _ _ HhS _ _ _ En0 Hlc) as [nc [Enc Pnc]].
      assert (In (node, PListItem) (E ++ [] ++ [])) as Hin by (rewrite app_nil_r; unfold E; rewrite Ee0; left; reflexivity).
      destruct (CE SInv_entry _ _ _ _ _ _ _ HS Hin) as [nc' [Enc' [Knc _]]]. assert (nc' = nc) by congruence. subst nc'.
      pose proof (hs_item _ _ _ HhS _ _ _ _ En0 Hlc Enc Knc) as Kn0.
      destruct (hs_root _ _ _ HhS) as [r0 [Er0 [Kr0 _]]]. congruence. }
  destruct r1 as [s1|s1].
  - injection H as <- _. exact HP.
  - destruct HP as [E' HO']. eapply IH; [|exact H]. eapply OInv_advance_line. exact HO'.
Qed.

(* ---------- parseBlocks ---------- *)
Lemma parse_blocks_loop_ok : forall fuel s stats s', OInv FF s [] [] [] ->
  PBL fuel 0%nat stats s = Ok s' -> exists fl, SInv fl s' [] [] [].
Proof.
  induction fuel as [|f IH]; intros s stats s' HO H; [discriminate|].
  cbn [parse_blocks_loopD] in H. bind_inv H x Ex. destruct x as [[[r1 sg] lines] ok].
  pose proof HO as [HS [HOe Hu]].
  destruct (skip_blank_ok space_table src _ _ _ _ _ _ _ (proj1 HS) Ex) as [HR1 Hle1].
  assert (OInv FF (st_r s r1) [] [] []) as HO1.
  { split; [apply (CC SInv_reader); assumption|]. split; assumption. }
  destruct ok; cbn [negb] in H; [|injection H as <-; exists FF; exact (proj1 HO1)].
  bind_inv H o Eo. destruct o as [res s2].
  assert (topN (s_h (st_r s r1)) []) as Htop by (intros E' y bq EE; destruct E'; discriminate).
  destruct (CJ open_blocksD_ok deflist _ 0%nat _ (st_r s r1) [] [] res s2 HO1 Htop eq_refl Eo) as [D' [N' [HW2 [HD' [_ [Hne [_ Hnp2]]]]]]].
  assert (D' = []) as -> by (destruct HD' as [->|[-> _]]; reflexivity).
  destruct (Z.eqb_spec res newBlocksOpened) as [Er|Er]; cbn [negb] in H.
  - bind_inv H y Ey. destruct y as [r2 stats2].
    assert (OInv FF (advance_line_s s2) ([] ++ N') [] []) as HO3.
    { apply (CE OInv_merge); [eapply OInv_advance_line; exact HW2|exact Hnp2]. }
    pose proof (lines_loop_ok _ _ _ _ _ _ HO3 Ey) as Hr. destruct r2 as [s3|s3].
    + injection H as <-. exists FF. exact Hr.
    + eapply IH; [exact Hr|exact H].
  - injection H as <-. rewrite (Hne Er) in HW2. exists WW. exact (proj1 HW2).
Qed.

Lemma init_OInv : OInv FF {| s_h := [mknode BDocument 0]; s_c := init_ctx; s_r := new_reader src |} [] [] [].
Proof.
  assert (forall i n, nth_error [mknode BDocument 0] i = Some n -> i = 0%nat /\ n = mknode BDocument 0) as Hone.
  { intros [|i] n H; cbn in H; [injection H as <-; auto|destruct i; discriminate]. }
  split; [split|split].
  - cbn [rd_ok s_r]. split; [apply new_reader_inv|]. split.
    + unfold new_reader. apply advance_line_src.
    + intros Hp. exfalso. unfold new_reader in Hp. rewrite r_advance_line_eq in Hp by (rsimpl; lia). rsimpl. lia.
  - cbn [s_h s_c s_r]. constructor.
    + intros i n sg H K. apply Hone in H. destruct H as [_ ->]. discriminate.
    + constructor.
      * eexists. csplit; reflexivity.
      * intros p np c H Hc. apply Hone in H. destruct H as [_ ->]. destruct Hc.
      * intros p np H. apply Hone in H. destruct H as [_ ->]. constructor.
      * intros i n H. apply Hone in H. destruct H as [_ ->]. discriminate.
      * intros p np c nc H Hc. apply Hone in H. destruct H as [_ ->]. destruct Hc.
      * intros i n H. apply Hone in H. destruct H as [_ ->]. apply (CC nodeP_plain); discriminate.
      * intros i n p H P. apply Hone in H. destruct H as [_ ->]. discriminate.
    + intros c nc H Hp. apply Hone in H. destruct H as [_ ->]. exfalso. apply Hp. reflexivity.
    + constructor; cbn [app ids map]; try (intros; contradiction).
      * constructor.
      * constructor.
      * intros q x Hq. exfalso. eapply Adj_single. exact Hq.
      * left. intros q x Hq. exfalso. eapply Adj_single. exact Hq.
      * intros _. exact I.
      * intros ch i l n H. discriminate.
    + constructor.
  - cbn [s_c]. split; [reflexivity|]. cbn. lia.
  - intros x y [].
Qed.

(* the invariant at the end of the block phase *)
Theorem parse_blocksD_final s :
  parse_blocksD deflist space_table punct_table norm re_t1o re_t1c re_t2 re_t3 re_t4 re_t5 re_t6 re_t7 allowed_tags src = Ok s ->
  heapS (s_h s) /\ Jinv (s_h s) [] /\ refs_ok (c_refs (s_c s)).
Proof.
  intros H. unfold parse_blocksD in H. destruct (parse_blocks_loop_ok _ _ _ _ init_OInv H) as [fl [_ [_ HhS HJ _ Hr]]].
  auto.
Qed.

End P.
