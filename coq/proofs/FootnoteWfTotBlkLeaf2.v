(* Helper file for ParseBlocksTotal.v: Continue and Close of the leaf block parsers (paragraph,
   fenced code, indented code, HTML block, setext heading) under the state invariant SI. *)
Require Import GM.model.Base GM.model.Util GM.model.Reader GM.model.ReaderSpec GM.model.Blocks GM.model.ListItem
               GM.model.LeafBlocks GM.model.CodeBlock GM.model.LinkDest GM.model.Regex GM.model.BlockParse.
Require Import GM.proofs.ReaderProofs GM.proofs.BlocksProofs GM.proofs.BlockRangeProofs
               GM.proofs.ParseBlocksTotalReader GM.proofs.FootnoteWfTotBlkPad GM.proofs.FootnoteWfTotBlkPad2 GM.proofs.FootnoteWfTotBlkDefs GM.proofs.FootnoteWfTotBlkSpec
               GM.proofs.FootnoteWfTotBlkSt.
From Coq Require Import ZArith Lia List Bool.
Open Scope Z_scope.

Section S.
Variable space_table punct_table : list N.
Variable norm : bytes -> bytes.
Variable re_t1o re_t1c re_t2 re_t3 re_t4 re_t5 re_t6 re_t7 : re.
Variable allowed_tags : list bytes.
Variable src : bytes.
Variable lst : option nat.
Hypothesis tbl : TblOK space_table.
Notation SI := (SI space_table src lst).
Notation open_post := (open_post space_table src lst).
Notation cont_post := (cont_post space_table src lst).
Notation close_post := (close_post space_table src lst).

(* ---------- generic helpers ---------- *)
Lemma sp10 : is_space space_table 10 = true. Proof. rewrite tbl; reflexivity. Qed.
Lemma sp32 : is_space space_table 32 = true. Proof. rewrite tbl; reflexivity. Qed.
Lemma sp9 : is_space space_table 9 = true. Proof. rewrite tbl; reflexivity. Qed.

Lemma is_blank_app a b : Reader.is_blank space_table (a ++ b) = Reader.is_blank space_table a && Reader.is_blank space_table b.
Proof. induction a as [|c a IH]; cbn [app Reader.is_blank]; [reflexivity|]. rewrite IH. apply andb_assoc. Qed.
Lemma is_blank_spaces p : Reader.is_blank space_table (spaces_n p) = true.
Proof.
  unfold spaces_n. induction (Z.to_nat p) as [|k IH]; cbn [repeat Reader.is_blank]; [reflexivity|].
  rewrite sp32, IH. reflexivity.
Qed.

Lemma li_is_blank v : ListItem.is_blank space_table v = Reader.is_blank space_table v.
Proof. induction v as [|c v IH]; [reflexivity|]. unfold ListItem.is_blank in *. cbn [forallb Reader.is_blank]. rewrite IH. reflexivity. Qed.

Lemma hsame_struct_refl h : hsame_struct h h.
Proof. split; [reflexivity|]. intros j n H. exists n. csplit; auto. Qed.
Lemma hsame_pc_refl h : hsame_pc h h.
Proof. split; [reflexivity|]. intros j n H. exists n. csplit; auto. Qed.
Lemma hsame_struct_hset h i n n' : nth_error h i = Some n -> bk n' = bk n -> bch n' = bch n -> bpar n' = bpar n ->
  blines n' = blines n -> hsame_struct h (hset h i n').
Proof.
  intros Hi K C P L. split; [apply hset_length|]. intros j x Hj. destruct (Nat.eq_dec i j) as [<-|Hne].
  - rewrite hset_same by (eapply nth_error_lt, Hi). exists n'. rewrite Hi in Hj. injection Hj as <-. csplit; auto.
  - rewrite hset_other by exact Hne. exists x. csplit; auto.
Qed.
Lemma hsame_pc_hset h i n n' : nth_error h i = Some n -> bk n' = bk n -> bch n' = bch n -> bpar n' = bpar n ->
  hsame_pc h (hset h i n').
Proof.
  intros Hi K C P. split; [apply hset_length|]. intros j x Hj. destruct (Nat.eq_dec i j) as [<-|Hne].
  - rewrite hset_same by (eapply nth_error_lt, Hi). exists n'. rewrite Hi in Hj. injection Hj as <-. csplit; auto.
  - rewrite hset_other by exact Hne. exists x. csplit; auto.
Qed.

Lemma cframe_refl c : cframe c c.
Proof. unfold cframe. csplit; reflexivity. Qed.

(* Continue of a leaf parser that only touched the reader's caches: Close *)
Lemma cont_post_scache bp node s s1 : is_container bp = false -> SI s1 -> scache s s1 ->
  cont_post bp node s s1 false false.
Proof.
  intros Hc HS (Eh & Ec & Ep). unfold cont_post. rewrite Eh, Ec, Hc. csplit; auto.
  - apply same_pos_le, Ep.
  - apply cframe_refl.
  - discriminate.
  - intros _ _. split; [apply hsame_struct_refl|apply same_pos_line, Ep].
  - discriminate.
Qed.

(* the general shape of the result of a leaf Continue *)
Lemma cont_post_leaf bp node s s' cont : is_container bp = false -> SI s' -> r_le (s_r s) (s_r s') ->
  s_c s' = s_c s -> hsame_pc (s_h s) (s_h s') ->
  (cont = false -> hsame_struct (s_h s) (s_h s') /\ same_line (s_r s) (s_r s')) ->
  cont_post bp node s s' cont false.
Proof.
  intros Hc HS Hle Ec Hpc Hst. unfold cont_post. rewrite Ec, Hc. csplit; auto.
  - apply cframe_refl.
  - discriminate.
Qed.

Lemma cont_post_pre bp node s s1 s3 cont kids : scache s s1 -> cont_post bp node s1 s3 cont kids ->
  cont_post bp node s s3 cont kids.
Proof.
  intros (Eh & Ec & Ep) (P1 & P2 & P3 & P4 & P5 & P6 & P7 & P8 & P9). rewrite Eh, Ec in *.
  unfold cont_post. csplit; auto.
  - eapply r_le_trans; [apply same_pos_le, Ep|exact P2].
  - intros C. destruct (P7 C) as [Q1 Q2]. split; [exact Q1|]. eapply same_line_trans; [apply same_pos_line, Ep|exact Q2].
  - intros C D. destruct (P8 C D) as [Q1 Q2]. split; [exact Q1|]. eapply same_line_trans; [apply same_pos_line, Ep|exact Q2].
Qed.

Lemma segs_sorted_snoc l x : segs_sorted l -> Forall (fun sg => s_stop sg <= s_start x) l -> segs_sorted (l ++ [x]).
Proof.
  induction l as [|a l IH]; intros Hs Hf; [exact I|].
  destruct l as [|b l].
  - cbn. inversion Hf; subst. split; [assumption|exact I].
  - change ((a :: b :: l) ++ [x]) with (a :: (b :: l) ++ [x]). cbn [app]. cbn [segs_sorted] in Hs |- *.
    destruct Hs as [H1 H2]. split; [exact H1|]. apply IH; [exact H2|]. inversion Hf; assumption.
Qed.

(* what the reader invariant says about the segment of the current line *)
Lemma cur_seg_ok s : SI s -> sin s -> seg_ok src (r_pos (s_r s)).
Proof.
  intros HS Hin. pose proof (si_r _ _ _ _ HS) as HI. pose proof (ri_bounds _ HI) as Hb.
  destruct HI as [Hinv _]. apply in_range_true in Hin. pose proof (inv_bounds_in _ Hinv ltac:(lia)).
  rewrite (si_src _ _ _ _ HS) in *. unfold seg_ok. csplit; try lia. apply Hinv.
Qed.
Lemma cur_seg_nonblank s : SI s -> Reader.is_blank space_table (sview s) = false ->
  seg_nonblank space_table src (r_pos (s_r s)).
Proof.
  intros HS Hb. unfold seg_nonblank. unfold sview, r_view in Hb. rewrite is_blank_app, is_blank_spaces in Hb.
  rewrite (si_src _ _ _ _ HS) in Hb. exact Hb.
Qed.
Lemma sview_len s : SI s -> zlen (sview s) = seg_len (r_pos (s_r s)).
Proof. intros HS. unfold sview, seg_len. rewrite view_zlen by apply HS. lia. Qed.
Lemma sview_pos s : SI s -> sin s -> 0 < zlen (sview s).
Proof. intros HS Hin. apply view_nonempty; [apply HS|exact Hin]. Qed.

Lemma seg_rng_value sg : seg_rng src sg -> exists v, seg_value src sg = Ok v.
Proof.
  intros (H1 & H2 & H3). unfold seg_value. rewrite slice_sub by lia. cbn [bind]. cbv zeta.
  destruct (Z.ltb_spec (s_pad sg) 0) as [Hlt|_]; [lia|].
  destruct (s_fnl sg); [|eexists; reflexivity].
  match goal with |- context [rev ?l] => destruct (rev l) as [|c tl] end; [eexists; reflexivity|].
  destruct (N.eqb c 10); eexists; reflexivity.
Qed.

(* ---------- Continue ---------- *)
(* the paragraph's earlier lines end before the reader's position (they are on earlier lines) *)
Lemma paragraph_continue_ok s node n : SI s -> sin s -> nth_error (s_h s) node = Some n -> bk n = BParagraph ->
  Forall (fun sg => s_stop sg <= s_start (r_pos (s_r s))) (blines n) ->
  exists s' cont, paragraph_continue space_table s node = Ok (s', cont) /\ cont_post PParagraph node s s' cont false.
Proof using All.
  intros HS Hin Hn Hk Hbelow. unfold paragraph_continue.
  destruct (peek_line_s_ok _ _ _ s HS) as [s1 (E1 & S1 & C1 & _)]. rewrite E1. cbn [bind].
  pose proof Hin as Hin'. unfold sin in Hin'. rewrite Hin'. cbn [line_of].
  destruct (Reader.is_blank space_table (sview s)) eqn:Hb.
  - exists s1, false. split; [reflexivity|]. apply cont_post_scache; auto.
  - pose proof C1 as (Eh & Ec & Ep).
    assert (Hn1 : nth_error (s_h s1) node = Some n) by (rewrite Eh; exact Hn).
    rewrite (hupd_ok _ _ _ _ Hn1). cbn [bind].
    set (sg := r_pos (s_r s)) in *.
    assert (Hpos1 : r_pos (s_r s1) = sg) by (apply scache_pos, C1).
    pose proof (cur_seg_ok s HS Hin) as Hsok. fold sg in Hsok.
    pose proof (hi_ok _ _ _ _ (si_h _ _ _ _ HS) node n Hn) as Hnok. unfold node_ok in Hnok. rewrite Hk in Hnok.
    destruct Hnok as (Hne & (Hall & Hsorted) & Hnb).
    assert (S2 : SI (st_h s1 (hset (s_h s1) node (set_lines n (blines n ++ [sg]))))).
    { apply (upd_node_ok space_table src lst s1 node n); cbn [set_lines bk bch bpar blines]; auto.
      - unfold node_ok. cbn [set_lines bk blines]. rewrite Hk. unfold para_lines, segs_ok. csplit.
        + intros E. apply app_eq_nil in E. destruct E as [_ E]. discriminate.
        + apply Forall_app. split; [exact Hall|constructor; [exact Hsok|constructor]].
        + apply segs_sorted_snoc; assumption.
        + apply Forall_app. split; [exact Hnb|constructor; [|constructor]]. apply cur_seg_nonblank; assumption.
      - intros _. rewrite Hpos1. apply Forall_app. split.
        + eapply Forall_impl; [|exact Hbelow]. cbv beta. intros x Hx. unfold seg_ok in Hsok. lia.
        + constructor; [lia|constructor]. }
    destruct (advance_s_ok _ _ _ _ (seg_len sg - 1) S2) as [s3 (E3 & S3 & H3 & C3 & L3)].
    { pose proof (sview_len s HS). pose proof (sview_pos s HS Hin). fold sg in H. lia. }
    rewrite E3. cbn [bind]. exists s3, true. split; [reflexivity|].
    cbn [st_h s_h s_c s_r] in *.
    apply cont_post_leaf; auto.
    + eapply r_le_trans; [apply same_pos_le, Ep|exact L3].
    + congruence.
    + rewrite H3, Eh. apply (hsame_pc_hset _ _ n); auto.
    + discriminate.
Qed.

(* ---- indented code block ---- *)
Lemma tlsw_loop_range text : forall start stop width start' w', start <= stop ->
  tlsw_loop text start stop width = (start', w') -> start <= start' <= stop.
Proof.
  induction text as [|c r IH]; intros start stop width start' w' Hle H; cbn [tlsw_loop] in H.
  - injection H as <- _. lia.
  - destruct (Z.leb_spec (stop - 1) start) as [H1|H1]; cbn [orb] in H; [injection H as <- _; lia|].
    destruct (width <=? 0); [injection H as <- _; lia|].
    destruct (N.eqb c 32); [apply IH in H; lia|].
    destruct (N.eqb c 9); [apply IH in H; lia|]. injection H as <- _. lia.
Qed.
Lemma tlsw_ok_gen src0 t w : seg_rng src0 t -> exists t', seg_trim_left_space_width src0 t w = Ok t' /\ seg_rng src0 t'.
Proof.
  intros (H1 & H2 & H3). unfold seg_trim_left_space_width. cbv zeta.
  set (used := Z.min (Z.max w 0) (Z.max (s_pad t) 0)). assert (Hu : 0 <= used <= s_pad t) by (unfold used; lia).
  destruct (w - used =? 0).
  - eexists. split; [reflexivity|]. unfold seg_rng, mksegp. cbn [s_start s_stop s_pad]. lia.
  - rewrite slice_sub by lia. cbn [bind].
    destruct (tlsw_loop (sub src0 (s_start t) (s_stop t)) (s_start t) (s_stop t) (w - used)) as [st' w'] eqn:El.
    apply tlsw_loop_range in El; [|lia]. eexists. split; [reflexivity|].
    unfold seg_rng, mksegp. cbn [s_start s_stop s_pad]. destruct (w' <? 0) eqn:Ew; lia.
Qed.

Lemma ip_loop_nonblank bs cur width : forall w i w' i', Reader.is_blank space_table bs = false ->
  indent_position_loop bs cur w i 0 width = (w', i') -> i <= i' < i + zlen bs.
Proof.
  induction bs as [|c r IH]; intros w i w' i' Hb H; [discriminate Hb|].
  cbn [Reader.is_blank] in Hb. cbn [indent_position_loop] in H. change (0 <? 0) with false in H. cbv iota in H.
  rewrite zlen_cons. pose proof (zlen_nonneg r) as Hr.
  destruct (N.eqb c 9 && (w <? width))%bool eqn:E9.
  { apply andb_true_iff in E9. destruct E9 as [E9 _]. apply N.eqb_eq in E9. subst c. rewrite sp9 in Hb. cbn [andb] in Hb.
    apply IH in H; [lia|exact Hb]. }
  destruct (N.eqb c 32 && (w <? width))%bool eqn:E32.
  { apply andb_true_iff in E32. destruct E32 as [E32 _]. apply N.eqb_eq in E32. subst c. rewrite sp32 in Hb. cbn [andb] in Hb.
    apply IH in H; [lia|exact Hb]. }
  injection H as _ <-. lia.
Qed.
Lemma ip_nonblank line off pos padding : Reader.is_blank space_table line = false ->
  indent_position line off 4 = (pos, padding) -> 0 <= pos -> pos < zlen line /\ 0 <= padding.
Proof.
  intros Hb H Hpos. unfold indent_position, indent_position_padding in H. change (4 =? 0) with false in H. cbv iota in H.
  destruct (indent_position_loop line off 0 0 0 4) as [w i] eqn:El. apply (ip_loop_nonblank _ _ _ _ _ _ _ Hb) in El.
  destruct (Z.leb_spec 4 w) as [Hw|Hw]; injection H as <- <-; lia.
Qed.

(* AdvanceAndSetPadding by less than the line: still on the line, still in range *)
Lemma aasp_within r n p : RI r -> r_in_range r = true -> 0 <= n < zlen (r_view r) -> 0 <= p ->
  exists r', r_advance_and_set_padding r n p = Ok r' /\ RI r' /\ same_line r r' /\ r_in_range r' = true.
Proof.
  intros HI Hin Hn Hp. unfold r_advance_and_set_padding.
  destruct (ri_advance_within r n HI Hin Hn) as [r1 (E1 & I1 & L1 & _ & _ & _ & In1)]. rewrite E1. cbn [bind].
  destruct (s_pad (r_pos r1) <? p).
  - destruct (ri_set_padding r1 p I1 Hp) as (K1 & K2 & K3 & _). eexists. split; [reflexivity|]. csplit; auto.
  - exists r1. auto.
Qed.

Lemma sp_back_set r p o :
  r_set_position (rset_loff (sp r p) o) (r_line r) (r_pos r) = Ok (rset_peeked (rset_loff r (-1)) None).
Proof. unfold r_set_position, sp. rsimpl. rewrite Z.eqb_refl. cbn [negb bind]. destruct r. reflexivity. Qed.

Lemma column_at_zero r : RI r -> s_start (r_pos r) = 0 -> r_column r (r_head r) = - s_pad (r_pos r).
Proof.
  intros HI E. pose proof (ri_bounds r HI) as Hb. unfold r_column. rewrite sub_empty by lia. cbn [col_width]. lia.
Qed.

Lemma code_block_take_ok r pos padding : RI r -> r_in_range r = true -> 0 <= pos < zlen (r_view r) -> 0 <= padding ->
  exists sg r', code_block_take r pos padding = Ok (sg, r') /\ RI r' /\ r_le r r' /\ seg_rng (r_src r) sg.
Proof.
  intros HI Hin Hpos Hpad. unfold code_block_take.
  destruct (aasp_within r pos padding HI Hin Hpos Hpad) as [r1 (E1 & I1 & L1 & In1)]. rewrite E1. cbn [bind].
  destruct (ri_peek r1 I1) as [r2 (E2 & I2 & P2 & _)]. rewrite E2. cbn [bind].
  pose proof (ri_bounds r1 I1) as Hb1. pose proof In1 as In1'. apply in_range_true in In1'.
  pose proof (inv_bounds_in r1 (proj1 I1) ltac:(lia)) as Hlt1.
  assert (Es1 : r_src r1 = r_src r) by apply L1.
  match goal with |- exists _ _, bind ?T _ = _ /\ _ =>
    assert (HT : exists sgt rt, T = Ok (sgt, rt) /\ RI rt /\ r_le r1 rt /\ seg_rng (r_src r) sgt /\ 1 <= seg_len sgt) end.
  { destruct (Z.eqb_spec (s_pad (r_pos r1)) 0) as [Ep|Ep].
    - exists (r_pos r1), r2. csplit; auto.
      + apply same_pos_le, P2.
      + unfold seg_rng. rewrite <- Es1. lia.
      + unfold seg_len. lia.
    - destruct (ri_line_offset r2 I2) as [r3 (E3 & I3 & P3 & _)]. rewrite E3. cbn [bind]. unfold r_position.
      destruct (look_behind r3 I3) as [o [Eo Ho0]]. rewrite set_position_same_line in Eo. cbn [bind] in Eo.
      rewrite set_position_same_line. cbn [bind]. rewrite Eo. cbn [bind]. rewrite sp_back_set. cbn [bind].
      destruct (ri_clear r3 I3) as [I4 P4].
      assert (Ep3 : r_pos r3 = r_pos r1).
      { destruct P2 as (_ & Q2 & _). destruct P3 as (_ & Q3 & _). congruence. }
      eexists _, _. split; [reflexivity|]. split; [exact I4|]. split.
      { eapply r_le_trans; [apply same_pos_le, P2|]. eapply r_le_trans; [apply same_pos_le, P3|apply same_pos_le, P4]. }
      destruct (Z.eqb_spec (r_column r2 (r_head r2)) o) as [Eoff|_].
      + assert (s_start (r_pos r1) <> 0) as Hne.
        { intros E0. rewrite Ep3 in Ho0. specialize (Ho0 E0). rewrite column_at_zero in Eoff; [|exact I2|].
          - destruct P2 as (_ & Q2 & _). rewrite Q2 in Eoff. lia.
          - destruct P2 as (_ & Q2 & _). rewrite Q2. exact E0. }
        unfold seg_rng, seg_len, mksegp. cbn [s_start s_stop s_pad]. rewrite <- Es1. lia.
      + unfold seg_rng, seg_len. rewrite <- Es1. lia. }
  destruct HT as (sgt & rt & ET & It & Lt & Rt & Lent). rewrite ET. cbn [bind].
  set (sgf := {| s_start := s_start sgt; s_stop := s_stop sgt; s_pad := s_pad sgt; s_fnl := true |}).
  destruct (ri_advance rt (seg_len sgf - 1) It) as [r5 (E5 & I5 & L5)].
  { unfold seg_len, sgf in *. cbn [s_start s_stop s_pad]. lia. }
  rewrite E5. cbn [bind]. exists sgf, r5. csplit; auto.
  eapply r_le_trans; [apply same_line_le, L1|]. eapply r_le_trans; eassumption.
Qed.

Lemma code_block_continue_ok r : RI r -> r_in_range r = true ->
  code_block_continue space_table r = Ok (inr tt) \/
  exists sg r', code_block_continue space_table r = Ok (inl (sg, r')) /\ RI r' /\ r_le r r' /\ seg_rng (r_src r) sg.
Proof.
  intros HI Hin. unfold code_block_continue.
  destruct (ri_peek r HI) as [r1 (E1 & I1 & P1 & _)]. rewrite E1. cbn [bind]. rewrite Hin.
  assert (Es1 : r_src r1 = r_src r) by apply P1.
  assert (Hrng : seg_rng (r_src r) (r_pos r)).
  { pose proof (ri_bounds r HI). unfold seg_rng. lia. }
  destruct (ListItem.is_blank space_table (r_view r)) eqn:Hb.
  - right. rewrite Es1. destruct (tlsw_ok_gen (r_src r) (r_pos r) 4 Hrng) as [t' [Et Ht]]. rewrite Et. cbn [bind].
    exists t', r1. csplit; auto. apply same_pos_le, P1.
  - destruct (ri_line_offset r1 I1) as [r2 (E2 & I2 & P2 & _)]. rewrite E2. cbn [bind].
    destruct (indent_position (r_view r) (r_column r1 (r_head r1)) 4) as [pos padding] eqn:Eip.
    destruct (Z.ltb_spec pos 0) as [Hneg|Hpos]; [left; reflexivity|]. right.
    rewrite li_is_blank in Hb. destruct (ip_nonblank _ _ _ _ Hb Eip Hpos) as [Hlt Hpd].
    assert (P12 : same_pos r r2) by (eapply same_pos_trans; eassumption).
    destruct (code_block_take_ok r2 pos padding I2) as (sg & r' & Et & I' & L' & R').
    + rewrite (same_pos_in_range _ _ P12). exact Hin.
    + rewrite (same_pos_view _ _ P12). lia.
    + exact Hpd.
    + rewrite Et. cbn [bind]. exists sg, r'. csplit; auto.
      * eapply r_le_trans; [apply same_pos_le, P12|exact L'].
      * destruct P12 as (Q & _). rewrite <- Q. exact R'.
Qed.

Lemma code_continue_ok s node n : SI s -> sin s -> nth_error (s_h s) node = Some n -> bk n = BCodeBlock ->
  exists s' cont, code_continue space_table s node = Ok (s', cont) /\ cont_post PCodeBlock node s s' cont false.
Proof using All.
  intros HS Hin Hn Hk. unfold code_continue.
  destruct (code_block_continue_ok (s_r s) (si_r _ _ _ _ HS) Hin) as [E|(sg & r' & E & I' & L' & R')]; rewrite E; cbn [bind].
  - exists s, false. split; [reflexivity|]. apply cont_post_scache; auto. apply scache_refl.
  - rewrite (hupd_ok _ _ _ _ Hn). cbn [bind]. eexists _, true. split; [reflexivity|].
    rewrite (si_src _ _ _ _ HS) in R'.
    pose proof (hi_ok _ _ _ _ (si_h _ _ _ _ HS) node n Hn) as Hnok. unfold node_ok in Hnok. rewrite Hk in Hnok.
    assert (S2 : SI (st_h s (hset (s_h s) node (set_lines n (blines n ++ [sg]))))).
    { apply (upd_node_ok space_table src lst s node n); cbn [set_lines bk bch bpar blines]; auto.
      - unfold node_ok. cbn [set_lines bk blines]. rewrite Hk. apply Forall_app. split; [exact Hnok|].
        constructor; [exact R'|constructor].
      - rewrite Hk. discriminate. }
    apply cont_post_leaf; cbn [st_r st_h s_h s_c s_r]; auto.
    + apply (SI_set_r space_table src lst _ r' S2 I'); [exact L'|].
      exact (PadB_code_block_continue _ _ _ _ E (si_pad _ _ _ _ HS)).
    + apply (hsame_pc_hset _ _ n); auto.
    + discriminate.
Qed.

(* ---- fenced code block ---- *)
(* two readers that AdvanceLine cannot tell apart *)
Definition ghost (r' r'' : reader) : Prop :=
  r_src r' = r_src r'' /\ r_line r' = r_line r'' /\ s_stop (r_pos r') = s_stop (r_pos r'') /\
  s_pad (r_pos r') = s_pad (r_pos r'') /\ s_fnl (r_pos r') = s_fnl (r_pos r'').
Lemma ghost_refl r : ghost r r.
Proof. unfold ghost. csplit; reflexivity. Qed.
Lemma ghost_advance_line r' r'' : ghost r' r'' -> r_advance_line r' = r_advance_line r''.
Proof.
  destruct r' as [a1 b1 c1 [d1 e1 f1 g1] h1 i1]. destruct r'' as [a2 b2 c2 [d2 e2 f2 g2] h2 i2].
  unfold ghost. cbn [r_src r_line r_pos s_stop s_pad s_fnl]. intros (-> & -> & -> & -> & ->). reflexivity.
Qed.
Lemma ghost_set_padding r' r'' p : ghost r' r'' -> ghost (r_set_padding r' p) (r_set_padding r'' p).
Proof. unfold ghost, r_set_padding. rsimpl. intros (A & B & C & D & E). csplit; auto. Qed.

(* Advance by a negative amount (reader.go:194): the fast path steps BACK, the slow path does nothing *)
Lemma ri_advance_neg r n : RI r -> n < 0 ->
  exists r', r_advance r n = Ok r' /\ exists r'', RI r'' /\ same_pos r r'' /\ ghost r' r''.
Proof.
  intros HI Hn. destruct (ri_clear r HI) as [I' P']. unfold r_advance. rsimpl.
  match goal with |- context [if ?b then _ else _] => destruct b end.
  - eexists. split; [reflexivity|]. eexists. split; [exact I'|]. split; [exact P'|]. unfold ghost. rsimpl. csplit; reflexivity.
  - replace (Z.to_nat n + 1)%nat with 1%nat by lia. cbn [r_advance_slow].
    destruct (Z.ltb_spec 0 n) as [C|_]; [lia|]. cbn [andb].
    eexists. split; [reflexivity|]. eexists. split; [exact I'|]. split; [exact P'|]. apply ghost_refl.
Qed.
Lemma aasp_any r n p : RI r -> 0 <= p ->
  exists r', r_advance_and_set_padding r n p = Ok r' /\ exists r'', RI r'' /\ r_le r r'' /\ ghost r' r''.
Proof.
  intros HI Hp. destruct (Z.lt_ge_cases n 0) as [Hneg|Hpos].
  - unfold r_advance_and_set_padding. destruct (ri_advance_neg r n HI Hneg) as [r1 (E1 & r2 & I2 & P2 & G2)].
    rewrite E1. cbn [bind]. assert (Epad : s_pad (r_pos r1) = s_pad (r_pos r2)) by apply G2. rewrite Epad.
    destruct (s_pad (r_pos r2) <? p).
    + destruct (ri_set_padding r2 p I2 Hp) as (K1 & K2 & _). eexists. split; [reflexivity|].
      exists (r_set_padding r2 p). csplit; auto.
      * eapply r_le_trans; [apply same_pos_le, P2|apply same_line_le, K2].
      * apply ghost_set_padding, G2.
    + exists r1. split; [reflexivity|]. exists r2. csplit; auto. apply same_pos_le, P2.
  - destruct (ri_advance_and_set_padding r n p HI Hpos Hp) as [r' (E & I' & L')]. exists r'. split; [exact E|].
    exists r'. csplit; auto. apply ghost_refl.
Qed.

Lemma fence_continue_cases line off pad ch indent flen : 0 <= pad ->
  match fence_continue space_table line off pad ch indent flen with
  | inl adv => adv = zlen line - (if N.eqb (nth_byte line (zlen line - 1)) 10 then 1 else 0)
  | inr (_, padding) => 0 <= padding
  end.
Proof.
  intros Hpad. unfold fence_continue. destruct (indent_width line off) as [w pos]. cbv zeta.
  match goal with |- match (if ?b then _ else _) with _ => _ end => destruct b end; [reflexivity|].
  unfold indent_position_padding. destruct (Z.eqb_spec indent 0) as [E|E].
  - change (0 <? 0) with false. cbv iota. exact Hpad.
  - destruct (indent_position_loop line off 0 0 pad indent) as [w' i'].
    destruct (Z.leb_spec indent w') as [Hle|Hlt].
    + destruct (i' - pad <? 0); lia.
    + change (-1 <? 0) with true. cbv iota. lia.
Qed.

Lemma fence_continue_r_ok r ch indent flen : RI r -> r_in_range r = true ->
  exists closed ln r', fence_continue_r space_table r ch indent flen = Ok (closed, ln, r') /\
    (closed = true -> RI r' /\ same_line r r') /\
    (closed = false -> (exists a, ln = Some a) /\ exists r'', RI r'' /\ r_le r r'' /\ ghost r' r'').
Proof.
  intros HI Hin. unfold fence_continue_r.
  destruct (ri_peek r HI) as [r1 (E1 & I1 & P1 & _)]. rewrite E1. cbn [bind]. rewrite Hin.
  destruct (ri_line_offset r1 I1) as [r2 (E2 & I2 & P2 & _)]. rewrite E2. cbn [bind].
  assert (P12 : same_pos r r2) by (eapply same_pos_trans; eassumption).
  assert (In2 : r_in_range r2 = true) by (rewrite (same_pos_in_range _ _ P12); exact Hin).
  assert (V2 : r_view r2 = r_view r) by (apply same_pos_view, P12).
  pose proof (ri_bounds r HI) as Hb.
  pose proof (fence_continue_cases (r_view r) (r_column r1 (r_head r1)) (s_pad (r_pos r)) ch indent flen ltac:(lia)) as Hc.
  destruct (fence_continue space_table (r_view r) (r_column r1 (r_head r1)) (s_pad (r_pos r)) ch indent flen)
    as [adv|[pos padding]].
  - (* the closing fence *)
    pose proof (view_nonempty r HI Hin) as Hne. rewrite <- V2 in Hc, Hne.
    destruct (ri_advance_in_line r2 adv I2 In2) as [r' (E' & I' & L' & _)].
    + destruct (N.eqb (nth_byte (r_view r2) (zlen (r_view r2) - 1)) 10); lia.
    + intros k Hk. destruct (Z.lt_ge_cases k (zlen (r_view r2) - 1)) as [Hlt|Hge]; [apply view_no_nl; [exact I2|lia]|].
      destruct (N.eqb_spec (nth_byte (r_view r2) (zlen (r_view r2) - 1)) 10) as [C|C]; [lia|].
      assert (k = zlen (r_view r2) - 1) by lia. subst k. exact C.
    + rewrite E'. cbn [bind]. eexists _, _, _. split; [reflexivity|]. split; [|discriminate].
      intros _. split; [exact I'|]. eapply same_line_trans; [apply same_pos_line, P12|exact L'].
  - (* a content line *)
    match goal with |- exists _ _ _, bind ?T _ = _ /\ _ =>
      assert (HT : exists adj rt, T = Ok (adj, rt) /\ RI rt /\ same_pos r2 rt) end.
    { destruct (padding =? 0).
      - eexists _, _. split; [reflexivity|]. split; [exact I2|apply same_pos_refl].
      - unfold r_position. destruct (look_behind r2 I2) as [o [Eo _]].
        rewrite set_position_same_line in Eo. cbn [bind] in Eo.
        rewrite set_position_same_line. cbn [bind]. rewrite Eo. cbn [bind]. rewrite sp_back_set. cbn [bind].
        destruct (ri_clear r2 I2) as [I4 P4]. eexists _, _. split; [reflexivity|]. split; assumption. }
    destruct HT as (adj & rt & ET & It & Pt). rewrite ET. cbn [bind].
    destruct (aasp_any rt (s_stop (r_pos r) - s_start (r_pos r) - pos - 1) padding It Hc) as [r' (E' & r'' & I'' & L'' & G'')].
    rewrite E'. cbn [bind]. eexists _, _, _. split; [reflexivity|]. split; [discriminate|].
    intros _. split; [eexists; reflexivity|]. exists r''. csplit; auto.
    eapply r_le_trans; [apply same_pos_le, P12|]. eapply r_le_trans; [apply same_pos_le, Pt|exact L''].
Qed.

(* UNPROVED (FALSE as stated): the original statement
     Lemma fenced_continue_ok s node n : SI s -> sin s -> nth_error (s_h s) node = Some n -> bk n = BFenced ->
       c_fence (s_c s) <> None ->
       exists s' cont, fenced_continue space_table s node = Ok (s', cont) /\ cont_post PFenced node s s' cont false.
   Reason: on a content line fencedCodeBlockParser.Continue calls
   reader.AdvanceAndSetPadding(segment.Stop-segment.Start-pos-1, padding); when util.IndentPositionPadding consumes
   the WHOLE line (last line of the source, no newline, only blanks/tabs, at least fdata.indent columns wide) pos =
   segment.Stop-segment.Start and the amount is -1.  Advance(-1) with Padding == 0 takes the fast path
   (n < len(peekedLine)) and does pos.Start += -1: the reader steps back one byte, possibly onto the previous
   line's newline, so RI (head <= start, stop = line end of start) and r_le fail for the returned state although
   nothing panics and the AdvanceLine that follows repairs the position.
   Witnesses (checked by vm_compute with the generated space table):
     src = "   ```\n   "  = [32;32;32;96;96;96;10;32;32;32], reader (7,10) pad 0 head 7 line 1, c_fence = (96,3,3,_):
       fence_continue = inr (3, 0), amount -1, reader afterwards (6,10), head 7.
     src = " ```\n\t" = [32;96;96;96;10;9], reader (5,6) head 5, c_fence = (96,1,3,_): reader afterwards (4,6) pad 3.
   The corrected statement: the returned state s' agrees with a ghost state s'' that satisfies cont_post, up to the
   part of the reader that AdvanceLine overwrites (they differ only when cont = true). *)
Lemma fenced_continue_ok_fix s node n : SI s -> sin s -> nth_error (s_h s) node = Some n -> bk n = BFenced ->
  c_fence (s_c s) <> None ->
  exists s' cont, fenced_continue space_table s node = Ok (s', cont) /\
  exists s'', cont_post PFenced node s s'' cont false /\ s_h s' = s_h s'' /\ s_c s' = s_c s'' /\
              advance_line_s s' = advance_line_s s'' /\ (cont = false -> s' = s'').
Proof using All.
  intros HS Hin Hn Hk Hf. unfold fenced_continue.
  destruct (c_fence (s_c s)) as [[[[ch indent] flen] fnode]|] eqn:Ef; [|contradiction].
  destruct (peek_line_s_ok _ _ _ s HS) as [s1 (E1 & S1 & C1 & _)]. rewrite E1. cbn [bind].
  pose proof C1 as (Eh & Ec & Ep).
  assert (Hn1 : nth_error (s_h s1) node = Some n) by (rewrite Eh; exact Hn).
  assert (Hin1 : sin s1) by (eapply scache_sin; eassumption).
  destruct (fence_continue_r_ok (s_r s1) ch indent flen (si_r _ _ _ _ S1) Hin1) as (closed & ln & r' & Er & Hcl & Hop).
  assert (Hind : 0 <= indent) by exact (ci_fence _ _ _ (si_c _ _ _ _ HS) _ _ _ _ Ef).
  pose proof (PadB_fence_continue_r _ _ _ _ _ _ _ _ Er (si_pad _ _ _ _ S1) Hind) as Pd'.
  rewrite Er. cbn [bind]. destruct closed.
  - destruct (Hcl eq_refl) as [I' L']. exists (st_r s1 r'), false. split; [reflexivity|].
    exists (st_r s1 r'). csplit; auto. eapply cont_post_pre; [exact C1|].
    apply cont_post_leaf; cbn [st_r s_h s_c s_r]; auto.
    + apply SI_set_r; [exact S1|exact I'|apply same_line_le, L'|exact Pd'].
    + apply same_line_le, L'.
    + apply hsame_pc_refl.
    + intros _. split; [apply hsame_struct_refl|exact L'].
  - destruct (Hop eq_refl) as [[[a padding] ->] (r'' & I'' & L'' & G'')].
    cbn [st_r s_h]. rewrite (hupd_ok _ _ _ _ Hn1). cbn [bind]. eexists _, true. split; [reflexivity|].
    set (l := {| s_start := a; s_stop := s_stop (r_pos (s_r s)); s_pad := padding; s_fnl := true |}).
    exists (st_h (st_r s1 r'') (hset (s_h s1) node (set_lines n (blines n ++ [l])))).
    cbn [st_r st_h s_h s_c s_r]. csplit; auto.
    + eapply cont_post_pre; [exact C1|].
      assert (Pd'' : PadB r'') by (unfold PadB in *; destruct G'' as (_ & _ & _ & Gp & _); rewrite <- Gp; exact Pd').
      assert (S2 : SI (st_r s1 r'')) by (apply SI_set_r; assumption).
      pose proof (hi_ok _ _ _ _ (si_h _ _ _ _ S1) node n Hn1) as Hnok. unfold node_ok in Hnok. rewrite Hk in Hnok.
      apply cont_post_leaf; cbn [st_r st_h s_h s_c s_r]; auto.
      * apply (upd_node_ok space_table src lst (st_r s1 r'') node n); cbn [st_r s_h set_lines bk bch bpar blines b_seg]; auto.
        -- unfold node_ok. cbn [set_lines bk b_seg]. rewrite Hk. exact Hnok.
        -- rewrite Hk. discriminate.
      * apply (hsame_pc_hset _ _ n); auto.
      * discriminate.
    + unfold advance_line_s. cbn [st_r st_h s_h s_c s_r]. rewrite (ghost_advance_line _ _ G''). reflexivity.
    + discriminate.
Qed.

(* ---- HTML block ---- *)
Lemma trs_zero_last v : trim_right_space_len space_table v = 0 -> v <> [] -> nth (Z.to_nat (zlen v - 1)) v 0%N <> 10%N.
Proof.
  intros H Hne. unfold trim_right_space_len in H.
  assert (Hl : (0 < length v)%nat) by (destruct v; [congruence|cbn; lia]).
  pose proof (rev_nth v 0%N Hl) as Hr. replace (Z.to_nat (zlen v - 1)) with (length v - 1)%nat by (unfold zlen; lia).
  rewrite <- Hr. destruct (rev v) as [|c tl]; [cbn in *; intros C; discriminate C|]. (* nth 0 [] = 0 <> 10 *)
  cbn [trim_left_space_len] in H. cbn [nth]. destruct (is_space space_table c) eqn:E.
  - pose proof (br_tls_range space_table tl). lia.
  - intros ->. rewrite sp10 in E. discriminate.
Qed.

(* the rest of the line up to its trailing white space is consumed: the reader stays on the line *)
Lemma consume_ok s2 sg line : SI s2 -> sin s2 -> sg = r_pos (s_r s2) -> line = sview s2 ->
  exists s3, advance_s s2 (seg_len sg - trim_right_space_len space_table line) = Ok s3 /\ SI s3 /\
             s_h s3 = s_h s2 /\ s_c s3 = s_c s2 /\ same_line (s_r s2) (s_r s3).
Proof.
  intros HS Hin -> ->. rewrite <- (sview_len s2 HS).
  pose proof (br_trs_range space_table (sview s2)) as Hr. pose proof (sview_pos s2 HS Hin) as Hp.
  destruct (advance_s_in_line space_table src lst s2 (zlen (sview s2) - trim_right_space_len space_table (sview s2)) HS Hin)
    as [s3 (E & S3 & H3 & C3 & L3 & _)].
  - lia.
  - intros k Hk. destruct (Z.lt_ge_cases k (zlen (sview s2) - 1)) as [Hlt|Hge].
    + apply view_no_nl; [apply HS|unfold sview in *; lia].
    + assert (k = zlen (sview s2) - 1) by lia. subst k. apply trs_zero_last; [lia|].
      intros E. rewrite E in Hp. cbn in Hp. lia.
  - exists s3. auto.
Qed.

Lemma cur_seg_rng s : SI s -> sin s -> seg_rng src (r_pos (s_r s)).
Proof. intros HS Hin. destruct (cur_seg_ok s HS Hin) as (H1 & H2 & H3 & _). unfold seg_rng. lia. Qed.

Lemma html_setseg s1 node n sg line : SI s1 -> sin s1 -> nth_error (s_h s1) node = Some n -> bk n = BHTML ->
  sg = r_pos (s_r s1) -> line = sview s1 ->
  exists s' cont,
    (h <- hupd (s_h s1) node (fun m => set_seg m (Some sg)) ;;
     s0 <- advance_s (st_h s1 h) (seg_len sg - trim_right_space_len space_table line) ;; Ok (s0, false)) = Ok (s', cont) /\
    cont_post PHTML node s1 s' cont false.
Proof.
  intros HS Hin Hn Hk Esg Eline. rewrite (hupd_ok _ _ _ _ Hn). cbn [bind].
  pose proof (hi_ok _ _ _ _ (si_h _ _ _ _ HS) node n Hn) as Hnok. unfold node_ok in Hnok. rewrite Hk in Hnok.
  assert (S2 : SI (st_h s1 (hset (s_h s1) node (set_seg n (Some sg))))).
  { apply (upd_node_ok space_table src lst s1 node n); cbn [set_seg bk bch bpar blines]; auto.
    - unfold node_ok. cbn [set_seg bk blines]. rewrite Hk. exact Hnok.
    - rewrite Hk. discriminate. }
  destruct (consume_ok _ sg line S2 Hin Esg Eline) as [s3 (E3 & S3 & H3 & C3 & L3)].
  rewrite E3. cbn [bind]. exists s3, false. split; [reflexivity|]. cbn [st_h s_h s_c s_r] in *.
  apply cont_post_leaf; auto.
  - apply same_line_le, L3.
  - rewrite H3. apply (hsame_pc_hset _ _ n); auto.
  - intros _. split; [|exact L3]. rewrite H3. apply (hsame_struct_hset _ _ n); auto.
Qed.
Lemma html_append s1 node n sg line : SI s1 -> sin s1 -> nth_error (s_h s1) node = Some n -> bk n = BHTML ->
  sg = r_pos (s_r s1) -> line = sview s1 ->
  exists s' cont,
    (h <- hupd (s_h s1) node (fun m => set_lines m (blines m ++ [sg])) ;;
     s0 <- advance_s (st_h s1 h) (seg_len sg - trim_right_space_len space_table line) ;; Ok (s0, true)) = Ok (s', cont) /\
    cont_post PHTML node s1 s' cont false.
Proof.
  intros HS Hin Hn Hk Esg Eline. rewrite (hupd_ok _ _ _ _ Hn). cbn [bind].
  pose proof (hi_ok _ _ _ _ (si_h _ _ _ _ HS) node n Hn) as Hnok. unfold node_ok in Hnok. rewrite Hk in Hnok.
  assert (S2 : SI (st_h s1 (hset (s_h s1) node (set_lines n (blines n ++ [sg]))))).
  { apply (upd_node_ok space_table src lst s1 node n); cbn [set_lines bk bch bpar blines]; auto.
    - unfold node_ok. cbn [set_lines bk blines]. rewrite Hk. apply Forall_app. split; [exact Hnok|].
      constructor; [|constructor]. rewrite Esg. apply cur_seg_rng; assumption.
    - rewrite Hk. discriminate. }
  destruct (consume_ok _ sg line S2 Hin Esg Eline) as [s3 (E3 & S3 & H3 & C3 & L3)].
  rewrite E3. cbn [bind]. exists s3, true. split; [reflexivity|]. cbn [st_h s_h s_c s_r] in *.
  apply cont_post_leaf; auto.
  - apply same_line_le, L3.
  - rewrite H3. apply (hsame_pc_hset _ _ n); auto.
  - discriminate.
Qed.

Lemma html_continue_ok s node n : SI s -> sin s -> nth_error (s_h s) node = Some n -> bk n = BHTML ->
  exists s' cont, html_continue space_table re_t1c s node = Ok (s', cont) /\ cont_post PHTML node s s' cont false.
Proof using All.
  intros HS Hin Hn Hk. unfold html_continue. rewrite (hget_some _ _ _ Hn). cbn [bind].
  destruct (peek_line_s_ok _ _ _ s HS) as [s1 (E1 & S1 & C1 & _)]. rewrite E1. cbn [bind].
  pose proof Hin as Hin'. unfold sin in Hin'. rewrite Hin'. cbn [line_of]. cbv zeta.
  pose proof C1 as (Eh & Ec & Ep).
  assert (Hn1 : nth_error (s_h s1) node = Some n) by (rewrite Eh; exact Hn).
  assert (Hin1 : sin s1) by (eapply scache_sin; eassumption).
  assert (Esg : r_pos (s_r s) = r_pos (s_r s1)) by (symmetry; apply scache_pos, C1).
  assert (Eline : sview s = sview s1) by (symmetry; apply scache_view, C1).
  pose proof (hi_ok _ _ _ _ (si_h _ _ _ _ HS) node n Hn) as Hnok. unfold node_ok in Hnok. rewrite Hk in Hnok.
  assert (Hclose : exists s' cont, Ok (s1, false) = Ok (s', cont) /\ cont_post PHTML node s s' cont false).
  { exists s1, false. split; [reflexivity|]. apply cont_post_scache; auto. }
  assert (Hset := html_setseg s1 node n _ _ S1 Hin1 Hn1 Hk Esg Eline).
  assert (Happ := html_append s1 node n _ _ S1 Hin1 Hn1 Hk Esg Eline).
  assert (Hset' : exists s' cont,
    (h <- hupd (s_h s1) node (fun m => set_seg m (Some (r_pos (s_r s)))) ;;
     s0 <- advance_s (st_h s1 h) (seg_len (r_pos (s_r s)) - trim_right_space_len space_table (sview s)) ;; Ok (s0, false)) = Ok (s', cont) /\
    cont_post PHTML node s s' cont false).
  { destruct Hset as (s' & cont & E & P). exists s', cont. split; [exact E|]. eapply cont_post_pre; eassumption. }
  assert (Happ' : exists s' cont,
    (h <- hupd (s_h s1) node (fun m => set_lines m (blines m ++ [r_pos (s_r s)])) ;;
     s0 <- advance_s (st_h s1 h) (seg_len (r_pos (s_r s)) - trim_right_space_len space_table (sview s)) ;; Ok (s0, true)) = Ok (s', cont) /\
    cont_post PHTML node s s' cont false).
  { destruct Happ as (s' & cont & E & P). exists s', cont. split; [exact E|]. eapply cont_post_pre; eassumption. }
  clear Hset Happ.
  destruct ((1 <=? b_i1 n) && (b_i1 n <=? 5)).
  - assert (Hfc : exists b, match blines n with
                            | [fl] => v <- seg_value (src_of s1) fl ;;
                                      Ok (if b_i1 n =? 1 then re_match re_t1c v
                                          else if b_i1 n =? 2 then contains_sub [45;45;62]%N v
                                          else if b_i1 n =? 3 then contains_sub [63;62]%N v
                                          else if b_i1 n =? 4 then contains_sub [62]%N v
                                          else contains_sub [93;93;62]%N v)
                            | _ => Ok false
                            end = Ok b).
    { destruct (blines n) as [|fl [|f2 r]]; [eexists; reflexivity| |eexists; reflexivity].
      inversion Hnok as [|? ? Hfl _]; subst. unfold src_of. rewrite (si_src _ _ _ _ S1).
      destruct (seg_rng_value fl Hfl) as [v Ev]. rewrite Ev. cbn [bind]. eexists. reflexivity. }
    destruct Hfc as [b Eb]. rewrite Eb. cbn [bind].
    destruct b; [exact Hclose|].
    match goal with |- exists s' cont, (if ?c then _ else _) = _ /\ _ => destruct c end; [exact Hset'|exact Happ'].
  - destruct (Reader.is_blank space_table (sview s)); [exact Hclose|exact Happ'].
Qed.

(* ---------- Close ---------- *)
Lemma close_frame_refl node P h : close_frame node P h h.
Proof. split; [lia|]. intros j n H. exists n. csplit; auto. Qed.
Lemma close_frame_hset node P h n n' : nth_error h node = Some n -> bk n' = bk n -> bch n' = bch n -> bpar n' = bpar n ->
  close_frame node P h (hset h node n').
Proof.
  intros Hi K C Pp. split; [rewrite hset_length; lia|]. intros j x Hj. destruct (Nat.eq_dec node j) as [<-|Hne].
  - rewrite hset_same by (eapply nth_error_lt, Hi). exists n'. rewrite Hi in Hj. injection Hj as <-. csplit; auto. intros E. contradiction.
  - rewrite hset_other by exact Hne. exists x. csplit; auto.
Qed.
Lemma close_post_set_h bp node s h' : SI (st_h s h') -> close_frame node (close_detach bp node s) (s_h s) h' ->
  close_post bp node s (st_h s h').
Proof.
  intros HS HF. unfold close_post. cbn [st_h s_h s_c s_r]. csplit; auto. apply cframe_refl.
Qed.

Lemma drop_trailing_blank_ok l : Forall (seg_rng src) l ->
  exists l', drop_trailing_blank space_table src l = Ok l' /\ Forall (seg_rng src) l'.
Proof.
  induction l as [|x l IH]; intros HF; cbn [drop_trailing_blank].
  - exists []. auto.
  - inversion HF as [|x' l' Hx Hl]; subst. destruct (seg_rng_value x Hx) as [v Ev]. rewrite Ev. cbn [bind].
    destruct (ListItem.is_blank space_table v); [apply IH; exact Hl|]. exists (x :: l). auto.
Qed.
(* ---- trimming the lines of a paragraph ---- *)
Lemma tls_prefix_blank v :
  Reader.is_blank space_table (firstn (Z.to_nat (trim_left_space_len space_table v)) v) = true.
Proof.
  induction v as [|c r IH]; cbn [trim_left_space_len]; [reflexivity|].
  destruct (is_space space_table c) eqn:E; [|reflexivity].
  pose proof (br_tls_range space_table r) as Hr.
  replace (Z.to_nat (1 + trim_left_space_len space_table r)) with (S (Z.to_nat (trim_left_space_len space_table r))) by lia.
  cbn [firstn Reader.is_blank]. rewrite E, IH. reflexivity.
Qed.
Lemma tls_nonblank v : Reader.is_blank space_table v = false ->
  trim_left_space_len space_table v < zlen v /\
  Reader.is_blank space_table (skipn (Z.to_nat (trim_left_space_len space_table v)) v) = false.
Proof.
  intros Hb. set (k := Z.to_nat (trim_left_space_len space_table v)).
  pose proof (is_blank_app (firstn k v) (skipn k v)) as Ha. rewrite firstn_skipn in Ha.
  unfold k in Ha at 1. rewrite tls_prefix_blank, Hb in Ha. cbn [andb] in Ha. fold k in Ha.
  split; [|symmetry; exact Ha].
  pose proof (br_tls_range space_table v) as Hr.
  destruct (Z.eq_dec (trim_left_space_len space_table v) (zlen v)) as [E|E]; [|lia].
  exfalso. rewrite skipn_all2 in Ha by (unfold k, zlen in *; lia). discriminate.
Qed.
Lemma is_blank_rev v : Reader.is_blank space_table (rev v) = Reader.is_blank space_table v.
Proof.
  induction v as [|c v IH]; [reflexivity|]. cbn [rev]. rewrite is_blank_app, IH. cbn [Reader.is_blank].
  rewrite andb_true_r. apply andb_comm.
Qed.

Definition TR (x y : seg) : Prop :=
  s_start x <= s_start y /\ s_stop y <= s_stop x /\ seg_ok src y /\ seg_nonblank space_table src y.
Lemma TR_trans x y z : TR x y -> TR y z -> TR x z.
Proof. unfold TR. intros (A1 & A2 & A3 & A4) (B1 & B2 & B3 & B4). csplit; auto; lia. Qed.

Lemma firstn_sub a b m : 0 <= a <= b -> b <= zlen src -> (m <= Z.to_nat (b - a))%nat ->
  firstn m (sub src a b) = sub src a (a + Z.of_nat m).
Proof. intros Ha Hb Hm. unfold sub. rewrite firstn_firstn. f_equal. lia. Qed.
Lemma trim_left_ok t : seg_ok src t -> seg_nonblank space_table src t ->
  exists y, seg_trim_left_space space_table src t = Ok y /\ TR t y.
Proof.
  intros (H1 & H2 & H3 & H4) Hnb. unfold seg_trim_left_space. rewrite slice_sub by lia. cbn [bind].
  eexists. split; [reflexivity|]. unfold seg_nonblank in Hnb.
  destruct (tls_nonblank _ Hnb) as [Hlt Hb]. rewrite zlen_sub in Hlt by lia.
  pose proof (br_tls_range space_table (sub src (s_start t) (s_stop t))) as Hr.
  unfold TR, seg_ok, seg_nonblank, mkseg. cbn [s_start s_stop s_pad s_fnl]. csplit; try lia; try reflexivity.
  rewrite sub_skipn by lia. exact Hb.
Qed.
Lemma trim_right_ok t : seg_ok src t -> seg_nonblank space_table src t ->
  exists y, seg_trim_right_space space_table src t = Ok y /\ TR t y.
Proof.
  intros (H1 & H2 & H3 & H4) Hnb. unfold seg_trim_right_space. rewrite slice_sub by lia. cbn [bind]. cbv zeta.
  unfold seg_nonblank in Hnb. set (v := sub src (s_start t) (s_stop t)) in *.
  assert (Hrb : Reader.is_blank space_table (rev v) = false) by (rewrite is_blank_rev; exact Hnb).
  destruct (tls_nonblank _ Hrb) as [Hlt Hb]. fold (trim_right_space_len space_table v) in Hlt, Hb.
  assert (Hz : zlen (rev v) = zlen v) by (unfold zlen; rewrite rev_length; reflexivity).
  assert (Hv : zlen v = s_stop t - s_start t) by (unfold v; apply zlen_sub; lia).
  pose proof (br_trs_range space_table v) as Hr.
  destruct (Z.eqb_spec (trim_right_space_len space_table v) (zlen v)) as [E|_]; [lia|].
  eexists. split; [reflexivity|].
  unfold TR, seg_ok, seg_nonblank, mksegp. cbn [s_start s_stop s_pad s_fnl]. csplit; try lia; try reflexivity.
  rewrite skipn_rev, is_blank_rev in Hb. subst v.
  rewrite firstn_sub in Hb by (try rewrite length_sub by lia; lia).
  rewrite <- Hb. f_equal. f_equal. rewrite length_sub by lia. lia.
Qed.
Lemma map_trim_ok ls : Forall (seg_ok src) ls -> Forall (seg_nonblank space_table src) ls ->
  exists ls', map_res (seg_trim_left_space space_table src) ls = Ok ls' /\ Forall2 TR ls ls'.
Proof.
  induction ls as [|x l IH]; intros H1 H2; cbn [map_res].
  - exists []. split; [reflexivity|constructor].
  - inversion H1 as [|x1 l1 Hx Hl]; subst. inversion H2 as [|x2 l2 Hx' Hl']; subst.
    destruct (trim_left_ok x Hx Hx') as [y [Ey Hy]]. rewrite Ey. cbn [bind].
    destruct (IH Hl Hl') as [l' [El HF]]. rewrite El. cbn [bind]. exists (y :: l'). split; [reflexivity|].
    constructor; assumption.
Qed.
Lemma TR_sorted l l' : Forall2 TR l l' -> Forall (seg_ok src) l -> segs_sorted l -> segs_sorted l'.
Proof.
  intros HF. induction HF as [|x y l l' Hxy HF IH]; intros Hok Hs; [exact I|].
  inversion HF as [|x2 y2 l2 l2' Hxy2 HF2]; subst; [exact I|].
  cbn [segs_sorted] in Hs |- *. destruct Hs as [Hs1 Hs2]. inversion Hok; subst. split; [|apply IH; assumption].
  destruct Hxy as (A1 & A2 & _). destruct Hxy2 as (B1 & B2 & _). lia.
Qed.
Lemma TR_stops B l l' : Forall2 TR l l' -> Forall (fun sg => s_stop sg <= B) l -> Forall (fun sg => s_stop sg <= B) l'.
Proof.
  intros HF. induction HF as [|x y l l' Hxy HF IH]; intros H; [constructor|].
  inversion H; subst. constructor; [destruct Hxy as (_ & A2 & _); lia|apply IH; assumption].
Qed.
Lemma TR_oks l l' : Forall2 TR l l' -> Forall (seg_ok src) l' /\ Forall (seg_nonblank space_table src) l'.
Proof.
  intros HF. induction HF as [|x y l l' Hxy HF [IH1 IH2]]; [split; constructor|].
  destruct Hxy as (_ & _ & A3 & A4). split; constructor; assumption.
Qed.

Lemma paragraph_close_ok s node n : SI s -> nth_error (s_h s) node = Some n -> bk n = BParagraph ->
  exists s', paragraph_close space_table s node = Ok s' /\ close_post PParagraph node s s' /\
             (Below (s_h s) (s_r s) -> Below (s_h s') (s_r s')) /\
             (exists n', nth_error (s_h s') node = Some n' /\ bpar n' = bpar n).
Proof using All.
  intros HS Hn Hk. unfold paragraph_close. rewrite (hget_some _ _ _ Hn). cbn [bind].
  pose proof (hi_ok _ _ _ _ (si_h _ _ _ _ HS) node n Hn) as Hnok. unfold node_ok in Hnok. rewrite Hk in Hnok.
  destruct Hnok as (Hne & (Hall & Hsorted) & Hnb).
  destruct (blines n) as [|x l] eqn:El; [contradiction|].
  unfold src_of. rewrite (si_src _ _ _ _ HS).
  destruct (map_trim_ok (x :: l) Hall Hnb) as [ls' [Em HT]]. rewrite Em. cbn [bind].
  destruct (rev ls') as [|lsg pre] eqn:Er.
  { apply (f_equal (@rev seg)) in Er. rewrite rev_involutive in Er. cbn in Er. subst ls'. inversion HT. }
  apply (f_equal (@rev seg)) in Er. rewrite rev_involutive in Er. cbn [rev] in Er. subst ls'.
  destruct (Forall2_app_inv_r _ _ HT) as (l1 & l2 & HT1 & HT2 & Eapp).
  inversion HT2 as [|x0 y0 l0 l0' Hx0 HT0]; subst. inversion HT0; subst.
  destruct (TR_oks _ _ HT) as [Hoks Hnbs].
  apply Forall_app in Hoks. destruct Hoks as [_ Hoks]. inversion Hoks as [|? ? Hlst _]; subst.
  apply Forall_app in Hnbs. destruct Hnbs as [_ Hnbs]. inversion Hnbs as [|? ? Hlstnb _]; subst.
  destruct (trim_right_ok lsg Hlst Hlstnb) as [lst' [Et Hlst']]. rewrite Et. cbn [bind].
  rewrite (hupd_ok _ _ _ _ Hn). cbn [bind]. eexists. split; [reflexivity|].
  assert (HT' : Forall2 TR (x :: l) (rev pre ++ [lst'])).
  { rewrite Eapp. apply Forall2_app; [exact HT1|]. constructor; [|constructor]. eapply TR_trans; eassumption. }
  destruct (TR_oks _ _ HT') as [Hoks' Hnbs'].
  assert (Hlim : forall B, Forall (fun sg => s_stop sg <= B) (blines n) ->
                           Forall (fun sg => s_stop sg <= B) (rev pre ++ [lst'])).
  { intros B HB. rewrite El in HB. eapply TR_stops; eassumption. }
  assert (Hlt : (node < length (s_h s))%nat) by (eapply nth_error_lt, Hn).
  csplit.
  - apply close_post_set_h.
    + apply (upd_node_ok space_table src lst s node n); cbn [set_lines bk bch bpar blines]; auto.
      * unfold node_ok. cbn [set_lines bk blines]. rewrite Hk. unfold para_lines, segs_ok. csplit; auto.
        -- intros E. apply app_eq_nil in E. destruct E as [_ E]. discriminate.
        -- eapply TR_sorted; eassumption.
      * intros _. apply Hlim. apply (si_lim _ _ _ _ HS node n Hn Hk).
    + apply (close_frame_hset _ _ _ n); auto.
  - cbn [st_h s_h s_r]. intros HB i m Hm Hkm. destruct (Nat.eq_dec node i) as [<-|Hne'].
    + rewrite hset_same in Hm by exact Hlt. injection Hm as <-. cbn [set_lines blines]. apply Hlim.
      apply (HB node n Hn Hk).
    + rewrite hset_other in Hm by exact Hne'. apply (HB i m Hm Hkm).
  - cbn [st_h s_h]. rewrite hset_same by exact Hlt. eexists. split; [reflexivity|reflexivity].
Qed.

Lemma code_close_ok s node n : SI s -> nth_error (s_h s) node = Some n -> bk n = BCodeBlock ->
  exists s', code_close space_table s node = Ok s' /\ close_post PCodeBlock node s s'.
Proof using All.
  intros HS Hn Hk. unfold code_close. rewrite (hget_some _ _ _ Hn). cbn [bind].
  pose proof (hi_ok _ _ _ _ (si_h _ _ _ _ HS) node n Hn) as Hnok. unfold node_ok in Hnok. rewrite Hk in Hnok.
  unfold code_block_close, src_of. rewrite (si_src _ _ _ _ HS).
  destruct (drop_trailing_blank_ok (rev (blines n))) as [l' [El Hl']].
  { apply Forall_rev. exact Hnok. }
  rewrite El. cbn [bind]. rewrite (hupd_ok _ _ _ _ Hn). cbn [bind]. eexists. split; [reflexivity|].
  apply close_post_set_h.
  - apply (upd_node_ok space_table src lst s node n); cbn [set_lines bk bch bpar blines]; auto.
    + unfold node_ok. cbn [set_lines bk blines]. rewrite Hk. apply Forall_rev. exact Hl'.
    + rewrite Hk. discriminate.
  - apply (close_frame_hset _ _ _ n); auto.
Qed.

Lemma fenced_close_ok s node : SI s -> c_fence (s_c s) <> None ->
  exists s', fenced_close s node = Ok s' /\ close_post PFenced node s s'.
Proof using All.
  intros HS Hf. unfold fenced_close. destruct (c_fence (s_c s)) as [[[[ch ind] fl] nd]|] eqn:Ef; [|contradiction].
  eexists. split; [reflexivity|]. destruct (Nat.eqb_spec nd node) as [->|Hne].
  - unfold close_post. cbn [st_c s_h s_c s_r cset_fence c_fence c_tmp_para]. csplit; auto.
    + apply SI_set_c; [exact HS|]. destruct (si_c _ _ _ _ HS) as [C1 C2 C3 C4].
      constructor; cbn [cset_fence c_len c_arr c_tmp_para c_fence]; auto. discriminate.
    + unfold cframe. cbn [cset_fence c_len c_arr c_boff c_bind]. csplit; reflexivity.
    + intros C. contradiction.
    + intros _ ch' ind' fl' nd' E Hn. rewrite Ef in E. injection E as _ _ _ E. congruence.
    + apply close_frame_refl.
  - unfold close_post. csplit; auto.
    + apply cframe_refl.
    + apply close_frame_refl.
Qed.

Lemma hset_hset h i a b : hset (hset h i a) i b = hset h i b.
Proof. revert i. induction h as [|x h IH]; intros i; [reflexivity|]. destruct i; cbn [hset]; [reflexivity|]. rewrite IH. reflexivity. Qed.

(* the heading opened by the setext parser still has its bar line, the temporary paragraph is
   recorded, and the heading is attached *)
Lemma setext_close_ok s node n : SI s -> nth_error (s_h s) node = Some n -> bk n = BHeading ->
  blines n <> [] -> c_tmp_para (s_c s) <> None -> bpar n <> None ->
  exists s', setext_close space_table s node = Ok s' /\ close_post PSetext node s s'.
Proof using All.
  intros HS Hn Hk Hl Htmp Hpar. unfold setext_close. rewrite (hget_some _ _ _ Hn). cbn [bind].
  destruct (blines n) as [|sg rest] eqn:El; [contradiction|].
  destruct (c_tmp_para (s_c s)) as [tmp|] eqn:Et; [|contradiction].
  rewrite (hupd_ok _ _ _ _ Hn). cbn [bind]. cbn [st_c st_h s_h s_c s_r].
  pose proof (si_h _ _ _ _ HS) as HH. pose proof (si_c _ _ _ _ HS) as HC.
  destruct (ci_tmp _ _ _ HC tmp Et) as [t0 [Ht0 Kt0]].
  assert (Hne : node <> tmp).
  { intros E. subst tmp. rewrite Hn in Ht0. injection Ht0 as <-. congruence. }
  assert (Hlt : (node < length (s_h s))%nat) by (eapply nth_error_lt, Hn).
  assert (Ht1 : nth_error (hset (s_h s) node (set_lines n [])) tmp = Some t0) by (rewrite hset_other by exact Hne; exact Ht0).
  rewrite (hget_some _ _ _ Ht1). cbn [bind].
  pose proof (hi_ok _ _ _ _ HH tmp t0 Ht0) as Htok. unfold node_ok in Htok. rewrite Kt0 in Htok.
  destruct Htok as (Htne & _). destruct (blines t0) as [|y tl] eqn:Elt; [contradiction|].
  assert (Hn1 : nth_error (hset (s_h s) node (set_lines n [])) node = Some (set_lines n [])) by (apply hset_same; exact Hlt).
  rewrite (hupd_ok _ _ _ _ Hn1). cbn [bind]. rewrite hset_hset.
  set (n2 := set_blank (set_lines (set_lines n []) (y :: tl)) (bblank t0)).
  set (h2 := hset (s_h s) node n2).
  assert (S2 : SI (st_h s h2)).
  { apply (upd_node_ok space_table src lst s node n); unfold n2; cbn [set_blank set_lines bk bch bpar blines]; auto.
    - unfold node_ok. cbn [set_blank set_lines bk]. rewrite Hk. exact I.
    - rewrite Hk. discriminate. }
  assert (Hc' : forall h', CInv lst h' (s_c s) -> CInv lst h' (cset_tmp (s_c s) None)).
  { intros h' [C1 C2 C3 C4]. constructor; cbn [cset_tmp c_len c_arr c_tmp_para c_fence]; auto. discriminate. }
  assert (Hpost : forall h3, SI (st_h s h3) -> close_frame node (close_detach PSetext node s) (s_h s) h3 ->
            close_post PSetext node s {| s_h := h3; s_c := cset_tmp (s_c s) None; s_r := s_r s |}).
  { intros h3 S3 F3. unfold close_post. cbn [s_h s_c s_r cset_tmp c_fence c_tmp_para]. csplit; auto.
    - apply (SI_set_c space_table src lst (st_h s h3)); [exact S3|]. apply Hc'. apply (si_c _ _ _ _ S3).
    - unfold cframe. cbn [cset_tmp c_len c_arr c_boff c_bind]. csplit; reflexivity.
    - intros C. contradiction. }
  assert (F2 : close_frame node (close_detach PSetext node s) (s_h s) h2).
  { apply (close_frame_hset _ _ _ n); auto. }
  destruct (bpar t0) as [tp|] eqn:Ept.
  2:{ eexists. split; [reflexivity|]. apply Hpost; assumption. }
  assert (Ht2 : nth_error h2 tmp = Some t0) by (unfold h2; rewrite hset_other by exact Hne; exact Ht0).
  destruct (remove_child_ok space_table src lst h2 tp tmp t0 (si_h _ _ _ _ S2) Ht2) as [h3 (E3 & St3 & L3 & R2 & R3)].
  rewrite E3. cbn [bind]. eexists. split; [reflexivity|]. apply Hpost.
  - apply (SI_set_h space_table src lst (st_h s h2) h3 S2 St3).
  - assert (L2 : length h2 = length (s_h s)) by (unfold h2; apply hset_length).
    split; [lia|]. intros j x Hj.
    destruct (nth_error_ex_lt h3 j) as [x' Hx']; [pose proof (nth_error_lt _ _ _ Hj); lia|].
    exists x'. split; [exact Hx'|].
    destruct (R3 j x' Hx') as [x2 (Hx2 & K2 & Ln2 & _ & _ & P2 & C2)].
    assert (Hx2x : bk x2 = bk x /\ bch x2 = bch x /\ bpar x2 = bpar x /\ (j <> node -> blines x2 = blines x)).
    { destruct (Nat.eq_dec node j) as [<-|Hnj].
      - unfold h2 in Hx2. rewrite hset_same in Hx2 by exact Hlt. injection Hx2 as <-. rewrite Hn in Hj. injection Hj as <-.
        unfold n2. cbn [set_blank set_lines bk bch bpar]. csplit; auto. intros C. contradiction.
      - unfold h2 in Hx2. rewrite hset_other in Hx2 by exact Hnj. rewrite Hj in Hx2. injection Hx2 as <-. csplit; auto. }
    destruct Hx2x as (X1 & X2 & X3 & X4). csplit.
    + congruence.
    + intros Hjn. rewrite Ln2. apply X4, Hjn.
    + intros Kl. rewrite <- X2. apply C2. intros ->.
      pose proof (hi_listp _ _ _ _ HH tmp t0 tp x Ht0 Ept Hj Kl). congruence.
    + destruct (Nat.eq_dec j tmp) as [->|Hjt].
      * right. rewrite Ht0 in Hj. injection Hj as <-. split; [exact Kt0|exact Et].
      * left. rewrite <- X3. apply P2, Hjt.
Qed.

End S.
