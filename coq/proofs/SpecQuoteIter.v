(* C08 applied n times, on the fragment of proofs/SpecQuoteConform.v, for EVERY document of the
   fragment and EVERY n: prefixing every line n times with "> " (a bare ">" on an empty line)
   wraps the conversion in n blockquote elements.  The step: quoting the spelling of a quoted
   document d is the spelling of the document [BQuote d], which is again in the fragment. *)
Require Import GM.model.Base GM.model.Util GM.model.UtilI GM.model.Reader GM.model.HtmlWriter GM.model.Html GM.model.HtmlI
               GM.model.SpecDoc GM.model.BlockParse GM.model.InlineParse GM.model.ParseI.
Require Import GM.proofs.SpecConformance GM.proofs.SpecParaConform GM.proofs.SpecParaSpec
               GM.proofs.SpecQuoteShape GM.proofs.SpecQuoteSpec GM.proofs.SpecQuoteConform.
From Coq Require Import List NArith ZArith Bool Lia.
Import ListNotations.
Open Scope N_scope.

(* fuel is only a bound on the nesting depth: more of it never hurts *)
Lemma qblock_mono : forall fuel b, qblock fuel b = true -> qblock (S fuel) b = true.
Proof.
  induction fuel as [|f IH]; intros b H; [discriminate H|].
  destruct b; try discriminate H.
  - exact H.
  - cbn [qblock] in H |- *. apply andb_true_iff in H. destruct H as [H1 H2].
    apply andb_true_iff. split; [exact H1|].
    apply forallb_forall. intros x Hx. apply IH. exact (proj1 (forallb_forall _ _) H2 x Hx).
Qed.
Lemma qdoc_mono fuel d : qdoc fuel d = true -> qdoc (S fuel) d = true.
Proof.
  unfold qdoc. intros H. apply andb_true_iff in H. destruct H as [H1 H2].
  apply andb_true_iff. split; [exact H1|].
  apply forallb_forall. intros x Hx. apply qblock_mono. exact (proj1 (forallb_forall _ _) H2 x Hx).
Qed.
Lemma qdoc_quote fuel d : qdoc fuel d = true -> qdoc (S fuel) [BQuote 0 d] = true.
Proof.
  intros H. unfold qdoc. cbn [forallb negb qblock]. rewrite andb_true_r.
  unfold qdoc in H. apply andb_true_iff in H. destruct H as [H1 H2].
  rewrite H1, H2. reflexivity.
Qed.

(* quoting the spelling = the spelling of the quote *)
Lemma quote_lines_md fuel d : qdoc fuel d = true ->
  quote_lines (md_of false false d) = md_of false false [BQuote 0 d].
Proof.
  intros H. change (qdoc_s fuel d = true) in H.
  destruct (qdoc_spec fuel d H) as (Hok & _ & _ & _).
  change (quote_lines (md_of false false d)) with (quote_lines_s (md_of false false d)).
  rewrite (qdoc_md fuel d false H).
  assert (H' : qdoc_s (S fuel) [BQuote 0 d] = true) by (apply (qdoc_quote fuel d); exact H).
  rewrite (qdoc_md (S fuel) [BQuote 0 d] false H').
  change (to_qbs (tr (S fuel)) [BQuote 0 d]) with (QOne (QQ true (to_qbs (tr fuel) d))).
  destruct (top_lines _ Hok) as (Hne & Hnl & Hsrc & Hq).
  unfold quote_lines_s, qdoc_src. rewrite !app_nil_r. rewrite Hsrc, (split_join_all _ Hne Hnl).
  change (map _ (qbs_lines [] [] (to_qbs (tr fuel) d))) with (map qmark (qbs_lines [] [] (to_qbs (tr fuel) d))).
  rewrite Hq. cbn [qbs_src qb_src]. symmetry.
  apply (proj2 qb_src_lines _ Hok); reflexivity.
Qed.

Fixpoint quote_n (n : nat) (d : doc) : doc := match n with O => d | S k => [BQuote 0 (quote_n k d)] end.
Fixpoint iter_quote (n : nat) (md : bytes) : bytes := match n with O => md | S k => quote_lines (iter_quote k md) end.
Definition bq : bytes := [98;108;111;99;107;113;117;111;116;101].
Fixpoint wrap_n (n : nat) (o : bytes) : bytes := match n with O => o | S k => tag bq ++ nl ++ wrap_n k o ++ ctag bq ++ nl end.

Lemma quote_n_qdoc : forall n fuel d, qdoc fuel d = true -> qdoc (n + fuel) (quote_n n d) = true.
Proof.
  induction n as [|k IH]; intros fuel d H; [exact H|].
  cbn [quote_n Nat.add]. apply qdoc_quote. apply IH. exact H.
Qed.
Lemma iter_quote_md : forall n fuel d, qdoc fuel d = true ->
  iter_quote n (md_of false false d) = md_of false false (quote_n n d).
Proof.
  induction n as [|k IH]; intros fuel d H; [reflexivity|].
  cbn [iter_quote quote_n]. rewrite (IH fuel d H).
  apply (quote_lines_md (k + fuel)). apply quote_n_qdoc. exact H.
Qed.
Lemma html_quote_n : forall n d, html_of (quote_n n d) = wrap_n n (html_of d).
Proof.
  induction n as [|k IH]; intros d; [reflexivity|].
  cbn [quote_n wrap_n]. unfold html_of at 1. cbn [flat_map]. rewrite app_nil_r.
  rewrite block_html_quote. rewrite IH. reflexivity.
Qed.

Theorem quoting_wraps_n : forall n c fuel d o,
  hardwraps c = false -> qdoc fuel d = true ->
  ConvertModel c (md_of false false d) = Ok o ->
  ConvertModel c (iter_quote n (md_of false false d)) = Ok (wrap_n n o).
Proof.
  intros n c fuel d o Hc Hd E.
  rewrite (quoted_doc_conforms c false fuel d Hc Hd) in E. injection E as <-.
  rewrite (iter_quote_md n fuel d Hd).
  rewrite (quoted_doc_conforms c false (n + fuel) (quote_n n d) Hc (quote_n_qdoc n fuel d Hd)).
  rewrite html_quote_n. reflexivity.
Qed.

Example quoting_n_example :
  iter_quote 3 (md_of false false [BPara 0 [AWord [97]]; BPara 0 [AWord [98]]])
  = [62;32;62;32;62;32;97;10; 62;32;62;32;62;10; 62;32;62;32;62;32;98].
Proof. vm_compute. reflexivity. Qed.
