(* Helper file for FootnoteWfTotBlk.v (fork of ParseBlocksTotalDefs.v): the invariants of the
   block-phase state (heap, context, reader) and the heap operations under them.
   CHANGE w.r.t. the core file: the invariants take one more parameter `lst : option nat`, the
   number of the FootnoteList node of the parse context (bf_list of the footnote model).  Node
   numbers still increase from parent to child EXCEPT on edges that start at the FootnoteList
   (it is allocated when the first footnote closes and adopts older Footnote nodes):
     hi_ch  : a child c of node i is a valid node, c <> i, and (i < c or lst = Some i)
     hi_par : the parent p of node i is a valid node, p <> i, and (p < i or lst = Some p)
     hi_lst : the FootnoteList is a node written with the kind BBlockquote
     ci_nl  : no entry of the opened-blocks array is the FootnoteList
   and the state invariant SI has the new field si_pad (the padding of the reader's position is <= 3:
   FootnoteWfTotBlkPad.v), so that SI_set_r has one more premise.
   New at the end: insert_before / detach / append_child_iso (model/FootnoteParseBlock.v). *)
Require Import GM.model.Base GM.model.Util GM.model.Reader GM.model.ReaderSpec GM.model.Blocks GM.model.ListItem
               GM.model.LeafBlocks GM.model.CodeBlock GM.model.LinkDest GM.model.Regex GM.model.BlockParse
               GM.model.FootnoteParseBlock.
Require Import GM.proofs.ReaderProofs GM.proofs.BlocksProofs GM.proofs.ParseBlocksTotalReader GM.proofs.FootnoteWfTotBlkPad.
From Coq Require Import ZArith Lia List Bool.
Open Scope Z_scope.

Definition kind_of_parser (p : bparser) : bkind :=
  match p with
  | PSetext | PATX => BHeading | PThematic => BThematicBreak | PList => BList | PListItem => BListItem
  | PCodeBlock => BCodeBlock | PFenced => BFenced | PBlockquote => BBlockquote | PHTML => BHTML
  | PParagraph => BParagraph
  end.
Definition is_container (p : bparser) : bool :=
  match p with PBlockquote | PList | PListItem => true | _ => false end.

Lemma bkind_eqb_spec a b : reflect (a = b) (bkind_eqb a b).
Proof. destruct a, b; cbn; constructor; congruence. Qed.
Lemma bkind_eqb_refl a : bkind_eqb a a = true.
Proof. destruct a; reflexivity. Qed.

(* ---------- lists of ids ---------- *)
Lemma in_remove_id x c l : In x (remove_id c l) -> In x l.
Proof.
  induction l as [|y l IH]; cbn [remove_id]; [auto|]. destruct (Nat.eqb c y); cbn [In]; intuition.
Qed.
Lemma in_replace_id x a b l : In x (replace_id a b l) -> x = b \/ In x l.
Proof.
  induction l as [|y l IH]; cbn [replace_id]; [auto|]. destruct (Nat.eqb a y); cbn [In]; intuition.
Qed.
Lemma last_id_app l x : last_id (l ++ [x]) = Some x.
Proof. unfold last_id. rewrite rev_app_distr. reflexivity. Qed.
Lemma last_id_in l x : last_id l = Some x -> In x l.
Proof.
  unfold last_id. intros H. destruct (rev l) as [|y r] eqn:E; [discriminate|]. injection H as ->.
  apply in_rev. rewrite E. left. reflexivity.
Qed.
Lemma last_id_none l : last_id l = None -> l = [].
Proof.
  unfold last_id. intros H. destruct (rev l) as [|y r] eqn:E; [|discriminate].
  apply (f_equal (@rev nat)) in E. rewrite rev_involutive in E. exact E.
Qed.

(* ---------- hget / hset / halloc ---------- *)
Lemma hget_some h i n : nth_error h i = Some n -> hget h i = Ok n.
Proof. unfold hget. intros ->. reflexivity. Qed.
Lemma hget_inv h i n : hget h i = Ok n -> nth_error h i = Some n.
Proof. unfold hget. destruct (nth_error h i); [intros H; injection H as ->; reflexivity|discriminate]. Qed.
Lemma nth_error_ex_lt {A} (l : list A) i : (i < length l)%nat -> exists x, nth_error l i = Some x.
Proof. intros H. destruct (nth_error l i) eqn:E; [eauto|]. apply nth_error_None in E. lia. Qed.
Lemma hget_lt h i : (i < length h)%nat -> exists n, hget h i = Ok n /\ nth_error h i = Some n.
Proof. intros H. destruct (nth_error_ex_lt h i H) as [n E]. exists n. split; [apply hget_some, E|exact E]. Qed.
Lemma nth_error_lt {A} (l : list A) i x : nth_error l i = Some x -> (i < length l)%nat.
Proof. intros H. apply nth_error_Some. rewrite H. discriminate. Qed.

Lemma hset_length h i n : length (hset h i n) = length h.
Proof. revert i. induction h as [|x h IH]; intros i; [reflexivity|]. destruct i; cbn [hset length]; auto. Qed.
Lemma hset_same h i n : (i < length h)%nat -> nth_error (hset h i n) i = Some n.
Proof.
  revert i. induction h as [|x h IH]; intros i Hi; cbn [length] in Hi; [lia|].
  destruct i; cbn [hset nth_error]; [reflexivity|]. apply IH. lia.
Qed.
Lemma hset_other h i j n : i <> j -> nth_error (hset h i n) j = nth_error h j.
Proof.
  revert i j. induction h as [|x h IH]; intros i j Hij; [reflexivity|].
  destruct i, j; cbn [hset nth_error]; try reflexivity; try lia. apply IH. lia.
Qed.
Lemma hupd_ok h i n f : nth_error h i = Some n -> hupd h i f = Ok (hset h i (f n)).
Proof. intros H. unfold hupd. rewrite (hget_some _ _ _ H). reflexivity. Qed.

Lemma nth_error_alloc_old (h : heap) (n : bnode) i x : nth_error h i = Some x -> nth_error (h ++ [n]) i = Some x.
Proof. intros H. rewrite nth_error_app1; [exact H|]. eapply nth_error_lt, H. Qed.
Lemma nth_error_alloc_new (h : heap) (n : bnode) : nth_error (h ++ [n]) (length h) = Some n.
Proof. rewrite nth_error_app2 by lia. rewrite Nat.sub_diag. reflexivity. Qed.
Lemma nth_error_alloc_inv (h : heap) (n : bnode) i x : nth_error (h ++ [n]) i = Some x ->
  nth_error h i = Some x \/ (i = length h /\ x = n).
Proof.
  intros H. destruct (Nat.lt_ge_cases i (length h)) as [Hlt|Hge].
  - left. rewrite nth_error_app1 in H by exact Hlt. exact H.
  - right. rewrite nth_error_app2 in H by exact Hge.
    destruct (i - length h)%nat as [|k] eqn:E; cbn in H.
    + injection H as <-. split; [lia|reflexivity].
    + destruct k; discriminate.
Qed.

(* ---------- heap extension: nodes keep their kind ---------- *)
Definition hext (h h' : heap) : Prop :=
  (length h <= length h')%nat /\
  forall i n, nth_error h i = Some n -> exists n', nth_error h' i = Some n' /\ bk n' = bk n.
Lemma hext_refl h : hext h h.
Proof. split; [lia|]. intros i n H. exists n. auto. Qed.
Lemma hext_trans a b c : hext a b -> hext b c -> hext a c.
Proof.
  intros [L1 H1] [L2 H2]. split; [lia|]. intros i n H. destruct (H1 i n H) as [n1 [E1 K1]].
  destruct (H2 i n1 E1) as [n2 [E2 K2]]. exists n2. split; [exact E2|congruence].
Qed.
Lemma hext_alloc h n : hext h (h ++ [n]).
Proof.
  split; [rewrite app_length; cbn; lia|]. intros i x H. exists x. split; [apply nth_error_alloc_old, H|reflexivity].
Qed.
Lemma hext_hset h i n n' : nth_error h i = Some n -> bk n' = bk n -> hext h (hset h i n').
Proof.
  intros H K. split; [rewrite hset_length; lia|]. intros j x Hj.
  destruct (Nat.eq_dec i j) as [->|Hne].
  - rewrite hset_same by (eapply nth_error_lt, H). exists n'. split; [reflexivity|congruence].
  - rewrite hset_other by exact Hne. exists x. auto.
Qed.

Section WithSrc.
Variable space_table : list N.
Variable src : bytes.
Variable lst : option nat.

Definition seg_rng (sg : seg) : Prop := 0 <= s_start sg <= s_stop sg /\ s_stop sg <= zlen src /\ 0 <= s_pad sg.
Definition seg_nonblank (sg : seg) : Prop :=
  Reader.is_blank space_table (sub src (s_start sg) (s_stop sg)) = false.
Definition para_lines (ls : list seg) : Prop := ls <> [] /\ segs_ok src ls /\ Forall seg_nonblank ls.

Definition node_ok (n : bnode) : Prop :=
  match bk n with
  | BParagraph => para_lines (blines n)
  | BCodeBlock | BHTML => Forall seg_rng (blines n)
  | BFenced => match b_seg n with Some sg => seg_rng sg | None => True end
  | BListItem => 0 <= b_i1 n
  | _ => True
  end.

(* edges: valid, no self loop, ordered unless they start at the FootnoteList *)
Definition ch_ok (h : heap) (i c : nat) : Prop := (c < length h)%nat /\ c <> i /\ ((i < c)%nat \/ lst = Some i).
Definition par_ok (h : heap) (i p : nat) : Prop := (p < length h)%nat /\ p <> i /\ ((p < i)%nat \/ lst = Some p).

Record HInv (h : heap) : Prop := {
  hi_ne : h <> [];
  hi_ch : forall i n, nth_error h i = Some n -> Forall (ch_ok h i) (bch n);
  hi_par : forall i n p, nth_error h i = Some n -> bpar n = Some p -> par_ok h i p;
  hi_ok : forall i n, nth_error h i = Some n -> node_ok n;
  hi_list : forall i n c cn, nth_error h i = Some n -> bk n = BList -> In c (bch n) ->
            nth_error h c = Some cn -> bk cn = BListItem;
  hi_listp : forall c cn p pn, nth_error h c = Some cn -> bpar cn = Some p -> nth_error h p = Some pn ->
             bk pn = BList -> bk cn = BListItem;
  hi_item : forall c cn p pn, nth_error h c = Some cn -> bk cn = BListItem -> bpar cn = Some p ->
            nth_error h p = Some pn -> bk pn = BList;
  hi_lst : forall l, lst = Some l -> exists ln, nth_error h l = Some ln /\ bk ln = BBlockquote
}.

Record CInv (h : heap) (c : pctx) : Prop := {
  ci_len : (c_len c <= length (c_arr c))%nat;
  ci_arr : forall e, In e (c_arr c) -> exists n, nth_error h (fst e) = Some n /\ bk n = kind_of_parser (snd e);
  ci_tmp : forall t, c_tmp_para c = Some t -> exists n, nth_error h t = Some n /\ bk n = BParagraph;
  ci_fence : forall ch ind fl nd, c_fence c = Some (ch, ind, fl, nd) -> 0 <= ind;
  ci_nl : forall e, In e (c_arr c) -> lst <> Some (fst e)
}.

(* the lines of paragraphs end no later than the reader's current line *)
Definition Lim (h : heap) (r : reader) : Prop :=
  forall i n, nth_error h i = Some n -> bk n = BParagraph ->
    Forall (fun sg => s_stop sg <= s_stop (r_pos r)) (blines n).

Record SI (s : st) : Prop := {
  si_r : RI (s_r s);
  si_src : r_src (s_r s) = src;
  si_h : HInv (s_h s);
  si_c : CInv (s_h s) (s_c s);
  si_lim : Lim (s_h s) (s_r s);
  si_pad : PadB (s_r s)     (* NEW: the padding of the position is at most 3 (FootnoteWfTotBlkPad.v) *)
}.

Lemma ch_ok_len h h' i c : ch_ok h i c -> (length h <= length h')%nat -> ch_ok h' i c.
Proof. unfold ch_ok. intros (A & B & C) L. split; [lia|]. split; [exact B|exact C]. Qed.
Lemma par_ok_len h h' i p : par_ok h i p -> (length h <= length h')%nat -> par_ok h' i p.
Proof. unfold par_ok. intros (A & B & C) L. split; [lia|]. split; [exact B|exact C]. Qed.
(* an ordinary edge: the parent is older than the child *)
Lemma ch_ok_lt h i c : (c < length h)%nat -> (i < c)%nat -> ch_ok h i c.
Proof. unfold ch_ok. intros A B. split; [exact A|]. split; [lia|left; exact B]. Qed.
Lemma par_ok_lt h i p : (i < length h)%nat -> (p < i)%nat -> par_ok h i p.
Proof. unfold par_ok. intros A B. split; [lia|]. split; [lia|left; exact B]. Qed.

(* the children of a node are valid nodes; they are younger unless the node is the FootnoteList *)
Lemma hi_ch_valid h i n : HInv h -> nth_error h i = Some n -> Forall (fun c => (c < length h)%nat) (bch n).
Proof. intros HH Hn. eapply Forall_impl; [|exact (hi_ch h HH i n Hn)]. cbv beta. intros c (A & _). exact A. Qed.
Lemma hi_ch_ord h i n : HInv h -> nth_error h i = Some n -> lst <> Some i ->
  Forall (fun c => (i < c < length h)%nat) (bch n).
Proof.
  intros HH Hn Hl. eapply Forall_impl; [|exact (hi_ch h HH i n Hn)]. cbv beta. intros c (A & B & [C|C]); [lia|contradiction].
Qed.
Lemma hi_par_ord h i n p : HInv h -> nth_error h i = Some n -> bpar n = Some p -> lst <> Some p -> (p < i)%nat.
Proof. intros HH Hn Hp Hl. destruct (hi_par h HH i n p Hn Hp) as (_ & _ & [C|C]); [exact C|contradiction]. Qed.
Lemma hi_par_valid h i n p : HInv h -> nth_error h i = Some n -> bpar n = Some p -> (p < length h)%nat /\ p <> i.
Proof. intros HH Hn Hp. destruct (hi_par h HH i n p Hn Hp) as (A & B & _). auto. Qed.
(* a node whose kind is not that of a block quote is not the FootnoteList *)
Lemma hi_lst_kind h i n : HInv h -> nth_error h i = Some n -> bk n <> BBlockquote -> lst <> Some i.
Proof. intros HH Hn Hk E. destruct (hi_lst h HH i E) as [ln [A B]]. rewrite Hn in A. injection A as <-. contradiction. Qed.
Lemma hi_lst_valid h l : HInv h -> lst = Some l -> (l < length h)%nat.
Proof. intros HH E. destruct (hi_lst h HH l E) as [ln [A _]]. eapply nth_error_lt, A. Qed.

Lemma CInv_hext h h' c : CInv h c -> hext h h' -> CInv h' c.
Proof.
  intros [C1 C2 C3 C4 C5] [_ Hx]. constructor; auto.
  - intros e He. destruct (C2 e He) as [n [E K]]. destruct (Hx _ _ E) as [n' [E' K']]. exists n'. split; [exact E'|congruence].
  - intros t Ht. destruct (C3 t Ht) as [n [E K]]. destruct (Hx _ _ E) as [n' [E' K']]. exists n'. split; [exact E'|congruence].
Qed.

Lemma Lim_le h r r' : Lim h r -> r_le r r' -> Lim h r'.
Proof.
  intros HL (_ & _ & Hs) i n Hn Hk. specialize (HL i n Hn Hk).
  eapply Forall_impl; [|exact HL]. cbv beta. intros sg Hsg. lia.
Qed.

(* ---------- HInv under a local update ---------- *)
Lemma HInv_hset h i n n' : HInv h -> nth_error h i = Some n ->
  bk n' = bk n ->
  Forall (ch_ok h i) (bch n') ->
  (forall p, bpar n' = Some p -> par_ok h i p) ->
  node_ok n' ->
  (bk n = BList -> forall c cn, In c (bch n') -> nth_error h c = Some cn -> bk cn = BListItem) ->
  (forall p pn, bpar n' = Some p -> nth_error h p = Some pn -> bk pn = BList -> bk n = BListItem) ->
  (bk n = BListItem -> forall p pn, bpar n' = Some p -> nth_error h p = Some pn -> bk pn = BList) ->
  HInv (hset h i n').
Proof.
  intros [H1 H2 H3 H4 H5 H6 H7 H8] Hi Hk Hch Hpar Hok Hl Hlp Hit.
  assert (Hlt : (i < length h)%nat) by (eapply nth_error_lt, Hi).
  (* every node of the new heap has the kind of the old node at that index *)
  assert (Hget : forall j x, nth_error (hset h i n') j = Some x ->
            (j = i /\ x = n') \/ (j <> i /\ nth_error h j = Some x)).
  { intros j x Hx. destruct (Nat.eq_dec i j) as [->|Hne].
    - rewrite hset_same in Hx by exact Hlt. injection Hx as <-. left. auto.
    - rewrite hset_other in Hx by exact Hne. right. auto. }
  assert (Hkind : forall j x, nth_error (hset h i n') j = Some x -> exists y, nth_error h j = Some y /\ bk y = bk x).
  { intros j x Hx. destruct (Hget j x Hx) as [[-> ->]|[_ E]]; [exists n; split; [exact Hi|congruence]|exists x; auto]. }
  assert (Hlen : (length h <= length (hset h i n'))%nat) by (rewrite hset_length; lia).
  constructor.
  - intros E. apply H1. destruct h; [reflexivity|]. destruct i; discriminate.
  - intros j x Hx. destruct (Hget j x Hx) as [[-> ->]|[_ E]].
    + eapply Forall_impl; [|exact Hch]. intros c Hc. eapply ch_ok_len; eassumption.
    + eapply Forall_impl; [|exact (H2 j x E)]. intros c Hc. eapply ch_ok_len; eassumption.
  - intros j x p Hx Hp. eapply par_ok_len; [|exact Hlen].
    destruct (Hget j x Hx) as [[-> ->]|[_ E]]; [exact (Hpar p Hp)|exact (H3 j x p E Hp)].
  - intros j x Hx. destruct (Hget j x Hx) as [[-> ->]|[_ E]]; [exact Hok|exact (H4 j x E)].
  - intros j x c cn Hx Hkx Hin Hc. destruct (Hkind c cn Hc) as [cy [Ecy Kcy]]. rewrite <- Kcy.
    destruct (Hget j x Hx) as [[-> ->]|[_ E]].
    + eapply Hl; [congruence|exact Hin|exact Ecy].
    + eapply H5; [exact E|exact Hkx|exact Hin|exact Ecy].
  - intros c cn p pn Hc Hp Hpn Hkp. destruct (Hkind p pn Hpn) as [py [Epy Kpy]].
    destruct (Hget c cn Hc) as [[-> ->]|[_ E]].
    + rewrite Hk. eapply Hlp; [exact Hp|exact Epy|congruence].
    + eapply H6; [exact E|exact Hp|exact Epy|congruence].
  - intros c cn p pn Hc Hkc Hp Hpn. destruct (Hkind p pn Hpn) as [py [Epy Kpy]]. rewrite <- Kpy.
    destruct (Hget c cn Hc) as [[-> ->]|[_ E]].
    + eapply Hit; [congruence|exact Hp|exact Epy].
    + eapply H7; [exact E|exact Hkc|exact Hp|exact Epy].
  - intros l El. destruct (H8 l El) as [ln [A B]]. destruct (Nat.eq_dec i l) as [->|Hne].
    + rewrite hset_same by exact Hlt. exists n'. split; [reflexivity|]. rewrite Hi in A. injection A as <-. congruence.
    + rewrite hset_other by exact Hne. exists ln. auto.
Qed.

(* an update that touches neither the children, the parent nor the kind *)
Lemma HInv_hset_simple h i n n' : HInv h -> nth_error h i = Some n ->
  bk n' = bk n -> bch n' = bch n -> bpar n' = bpar n -> node_ok n' -> HInv (hset h i n').
Proof.
  intros HH Hi Hk Hc Hp Hok. pose proof HH as [H1 H2 H3 H4 H5 H6 H7 H8].
  apply (HInv_hset h i n n' HH Hi Hk).
  - rewrite Hc. exact (H2 i n Hi).
  - intros p Ep. rewrite Hp in Ep. exact (H3 i n p Hi Ep).
  - exact Hok.
  - intros Hl c cn Hin Ecn. rewrite Hc in Hin. exact (H5 i n c cn Hi Hl Hin Ecn).
  - intros p pn Ep Epn Kp. rewrite Hp in Ep. exact (H6 i n p pn Hi Ep Epn Kp).
  - intros Hit p pn Ep Epn. rewrite Hp in Ep. exact (H7 i n p pn Hi Hit Ep Epn).
Qed.

Lemma HInv_alloc h n : HInv h -> bch n = [] -> bpar n = None -> node_ok n -> HInv (h ++ [n]).
Proof.
  intros [H1 H2 H3 H4 H5 H6 H7 H8] Hc Hp Hok.
  assert (Hlt : forall j, (j < length h)%nat -> nth_error (h ++ [n]) j = nth_error h j).
  { intros j Hj. apply nth_error_app1. exact Hj. }
  assert (Hlen : (length h <= length (h ++ [n]))%nat) by (rewrite app_length; cbn; lia).
  constructor.
  - destruct h; discriminate.
  - intros j x Hx.
    destruct (nth_error_alloc_inv _ _ _ _ Hx) as [E|[_ ->]]; [|rewrite Hc; constructor].
    eapply Forall_impl; [|exact (H2 j x E)]. intros c Hcc. eapply ch_ok_len; eassumption.
  - intros j x p Hx Ep. destruct (nth_error_alloc_inv _ _ _ _ Hx) as [E|[_ ->]]; [|congruence].
    eapply par_ok_len; [|exact Hlen]. eapply H3; eauto.
  - intros j x Hx. destruct (nth_error_alloc_inv _ _ _ _ Hx) as [E|[_ ->]]; [|exact Hok]. eapply H4; eauto.
  - intros j x c cn Hx Kx Hin Hcn.
    destruct (nth_error_alloc_inv _ _ _ _ Hx) as [E|[_ ->]]; [|rewrite Hc in Hin; contradiction].
    pose proof (H2 j x E) as Hr. rewrite Forall_forall in Hr. destruct (Hr c Hin) as (Hcl & _).
    rewrite Hlt in Hcn by lia. eapply H5; eauto.
  - intros c cn p pn Hcn Ep Hpn Kp.
    destruct (nth_error_alloc_inv _ _ _ _ Hcn) as [E|[_ ->]]; [|congruence].
    destruct (H3 c cn p E Ep) as (Hpc & _).
    rewrite Hlt in Hpn by lia. eapply H6; eauto.
  - intros c cn p pn Hcn Kc Ep Hpn.
    destruct (nth_error_alloc_inv _ _ _ _ Hcn) as [E|[_ ->]]; [|congruence].
    destruct (H3 c cn p E Ep) as (Hpc & _).
    rewrite Hlt in Hpn by lia. eapply H7; eauto.
  - intros l El. destruct (H8 l El) as [ln [A B]]. exists ln. split; [apply nth_error_alloc_old, A|exact B].
Qed.

End WithSrc.

(* ================= steps of the heap and of the state ================= *)
Section Steps.
Variable space_table : list N.
Variable src : bytes.
Variable lst : option nat.
Notation HInv := (HInv space_table src lst).
Notation SI := (SI space_table src lst).
Notation node_ok := (node_ok space_table src).
Notation ch_ok := (ch_ok lst).
Notation par_ok := (par_ok lst).

(* one step of the heap: the invariant is kept, old nodes keep their kind, paragraph lines stay
   below any reader bound they were below *)
Definition HStep (h h' : heap) : Prop := HInv h' /\ hext h h' /\ (forall r, Lim h r -> Lim h' r).

Lemma HStep_refl h : HInv h -> HStep h h.
Proof. intros H. split; [exact H|]. split; [apply hext_refl|auto]. Qed.
Lemma HStep_trans a b c : HStep a b -> HStep b c -> HStep a c.
Proof.
  intros (A1 & A2 & A3) (B1 & B2 & B3). split; [exact B1|]. split; [eapply hext_trans; eassumption|auto].
Qed.

Lemma SI_set_h s h' : SI s -> HStep (s_h s) h' -> SI (st_h s h').
Proof.
  intros [S1 S2 S3 S4 S5 S6] (A1 & A2 & A3). constructor; cbn [st_h s_h s_c s_r]; auto.
  eapply CInv_hext; eassumption.
Qed.
Lemma SI_set_r s r' : SI s -> RI r' -> r_le (s_r s) r' -> PadB r' -> SI (st_r s r').
Proof.
  intros [S1 S2 S3 S4 S5 S6] HR HL HP. constructor; cbn [st_r s_h s_c s_r]; auto.
  - destruct HL as (E & _). congruence.
  - eapply Lim_le; eassumption.
Qed.
Lemma SI_set_c s c' : SI s -> CInv lst (s_h s) c' -> SI (st_c s c').
Proof. intros [S1 S2 S3 S4 S5 S6] HC. constructor; cbn [st_c s_h s_c s_r]; auto. Qed.

Lemma Lim_hset h i n n' r : Lim h r -> nth_error h i = Some n ->
  (bk n' = BParagraph -> Forall (fun sg => s_stop sg <= s_stop (r_pos r)) (blines n')) -> Lim (hset h i n') r.
Proof.
  intros HL Hi Hn j x Hx Kx. destruct (Nat.eq_dec i j) as [->|Hne].
  - rewrite hset_same in Hx by (eapply nth_error_lt, Hi). injection Hx as <-. exact (Hn Kx).
  - rewrite hset_other in Hx by exact Hne. exact (HL j x Hx Kx).
Qed.
Lemma Lim_alloc h n r : Lim h r ->
  (bk n = BParagraph -> Forall (fun sg => s_stop sg <= s_stop (r_pos r)) (blines n)) -> Lim (h ++ [n]) r.
Proof.
  intros HL Hn j x Hx Kx. destruct (nth_error_alloc_inv _ _ _ _ Hx) as [E|[_ ->]]; [exact (HL j x E Kx)|exact (Hn Kx)].
Qed.

(* updating fields that are neither kind, children nor parent, keeping the lines *)
Lemma HStep_hset_simple h i n n' : HInv h -> nth_error h i = Some n ->
  bk n' = bk n -> bch n' = bch n -> bpar n' = bpar n -> node_ok n' -> blines n' = blines n ->
  HStep h (hset h i n').
Proof.
  intros HH Hi Hk Hc Hp Hok Hl. split; [eapply HInv_hset_simple; eassumption|].
  split; [eapply hext_hset; eassumption|]. intros r HL. eapply Lim_hset; [exact HL|exact Hi|].
  intros K. rewrite Hl. apply (HL i n Hi). congruence.
Qed.

(* AppendChild of a node below another node: the general form (the edge may start at the FootnoteList) *)
Lemma append_child_gen h p c pn cn : HInv h -> nth_error h p = Some pn -> nth_error h c = Some cn -> p <> c ->
  ((p < c)%nat \/ lst = Some p) ->
  (bk pn = BList -> bk cn = BListItem) -> (bk cn = BListItem -> bk pn = BList) ->
  exists h', append_child h p c = Ok h' /\ HStep h h' /\ length h' = length h /\
    nth_error h' c = Some (set_par cn (Some p)) /\ nth_error h' p = Some (set_ch pn (bch pn ++ [c])) /\
    (forall j, j <> p -> j <> c -> nth_error h' j = nth_error h j).
Proof.
  intros HH Hp Hc Hne Hpc Hl1 Hl2. pose proof HH as [H1 H2 H3 H4 H5 H6 H7 H8].
  assert (Hcl : (c < length h)%nat) by (eapply nth_error_lt, Hc).
  assert (Hpl : (p < length h)%nat) by (eapply nth_error_lt, Hp).
  unfold append_child. rewrite (hupd_ok _ _ _ _ Hc). cbn [bind].
  set (h1 := hset h c (set_par cn (Some p))).
  assert (Hp1 : nth_error h1 p = Some pn) by (unfold h1; rewrite hset_other by lia; exact Hp).
  rewrite (hupd_ok _ _ _ _ Hp1). eexists. split; [reflexivity|].
  assert (HH1 : HInv h1).
  { apply (HInv_hset space_table src lst h c cn (set_par cn (Some p)) HH Hc); cbn [set_par bk bch bpar].
    - reflexivity.
    - exact (H2 c cn Hc).
    - intros q Eq. injection Eq as <-. split; [exact Hpl|]. split; [exact Hne|exact Hpc].
    - exact (H4 c cn Hc).
    - intros K x xn Hin Ex. exact (H5 c cn x xn Hc K Hin Ex).
    - intros q qn Eq Eqn Kq. injection Eq as <-. rewrite Hp in Eqn. injection Eqn as <-. auto.
    - intros K q qn Eq Eqn. injection Eq as <-. rewrite Hp in Eqn. injection Eqn as <-. auto. }
  assert (Hc1 : nth_error h1 c = Some (set_par cn (Some p))) by (unfold h1; apply hset_same; exact Hcl).
  assert (HH2 : HInv (hset h1 p (set_ch pn (bch pn ++ [c])))).
  { apply (HInv_hset space_table src lst h1 p pn _ HH1 Hp1); cbn [set_ch bk bch bpar].
    - reflexivity.
    - apply Forall_app. split; [exact (hi_ch _ _ _ _ HH1 p pn Hp1)|]. constructor; [|constructor].
      split; [unfold h1; rewrite hset_length; exact Hcl|]. split; [congruence|exact Hpc].
    - intros q Eq. exact (hi_par _ _ _ _ HH1 p pn q Hp1 Eq).
    - exact (H4 p pn Hp).
    - intros K x xn Hin Ex. apply in_app_or in Hin. destruct Hin as [Hin|[<-|[]]].
      + exact (hi_list _ _ _ _ HH1 p pn x xn Hp1 K Hin Ex).
      + rewrite Hc1 in Ex. injection Ex as <-. cbn [set_par bk]. auto.
    - intros q qn Eq Eqn Kq. exact (hi_listp _ _ _ _ HH1 p pn q qn Hp1 Eq Eqn Kq).
    - intros K q qn Eq Eqn. exact (hi_item _ _ _ _ HH1 p pn q qn Hp1 K Eq Eqn). }
  split; [split; [exact HH2|split]|].
  - apply (hext_trans h h1); [unfold h1; apply (hext_hset h c cn); [exact Hc|reflexivity]|].
    apply (hext_hset h1 p pn); [exact Hp1|reflexivity].
  - intros r HL. eapply Lim_hset; [|exact Hp1|].
    + eapply Lim_hset; [exact HL|exact Hc|]. cbn [set_par bk blines]. intros K. exact (HL c cn Hc K).
    + cbn [set_ch bk blines]. intros K. exact (HL p pn Hp K).
  - csplit.
    + rewrite hset_length. unfold h1. apply hset_length.
    + rewrite hset_other by lia. exact Hc1.
    + apply hset_same. unfold h1. rewrite hset_length. eapply nth_error_lt, Hp.
    + intros j J1 J2. rewrite hset_other by lia. unfold h1. apply hset_other. lia.
Qed.

(* AppendChild of a detached node below an older node *)
Lemma append_child_ok h p c pn cn : HInv h -> nth_error h p = Some pn -> nth_error h c = Some cn -> (p < c)%nat ->
  (bk pn = BList -> bk cn = BListItem) -> (bk cn = BListItem -> bk pn = BList) ->
  exists h', append_child h p c = Ok h' /\ HStep h h' /\ length h' = length h /\
    nth_error h' c = Some (set_par cn (Some p)) /\ nth_error h' p = Some (set_ch pn (bch pn ++ [c])) /\
    (forall j, j <> p -> j <> c -> nth_error h' j = nth_error h j).
Proof.
  intros HH Hp Hc Hpc Hl1 Hl2. apply append_child_gen; auto. lia.
Qed.

(* RemoveChild *)
Lemma remove_child_ok h p c cn : HInv h -> nth_error h c = Some cn ->
  exists h', remove_child h p c = Ok h' /\ HStep h h' /\ length h' = length h /\
    (forall j, j <> p -> j <> c -> nth_error h' j = nth_error h j) /\
    (forall j n', nth_error h' j = Some n' -> exists n, nth_error h j = Some n /\ bk n' = bk n /\ blines n' = blines n /\
        b_seg n' = b_seg n /\ b_i1 n' = b_i1 n /\ (j <> c -> bpar n' = bpar n) /\ (j <> p -> bch n' = bch n)).
Proof.
  intros HH Hc. pose proof HH as [H1 H2 H3 H4 H5 H6 H7 H8].
  unfold remove_child. rewrite (hget_some _ _ _ Hc). cbn [bind].
  destruct (opt_nat_eqb (bpar cn) (Some p)) eqn:Eg.
  2:{ exists h. split; [reflexivity|]. split; [apply HStep_refl, HH|]. csplit; auto.
      intros j n' Hj. exists n'. csplit; auto. }
  assert (Ep : bpar cn = Some p).
  { unfold opt_nat_eqb in Eg. destruct (bpar cn) as [q|]; [|discriminate]. apply Nat.eqb_eq in Eg. congruence. }
  destruct (H3 c cn p Hc Ep) as (Hpl & Hpc & _).
  assert (Hcl : (c < length h)%nat) by (eapply nth_error_lt, Hc).
  destruct (nth_error_ex_lt h p Hpl) as [pn Hp].
  rewrite (hupd_ok _ _ _ _ Hp). cbn [bind].
  set (h1 := hset h p (set_ch pn (remove_id c (bch pn)))).
  assert (Hc1 : nth_error h1 c = Some cn) by (unfold h1; rewrite hset_other by lia; exact Hc).
  rewrite (hupd_ok _ _ _ _ Hc1). eexists. split; [reflexivity|].
  assert (HH1 : HInv h1).
  { apply (HInv_hset space_table src lst h p pn _ HH Hp); cbn [set_ch bk bch bpar].
    - reflexivity.
    - pose proof (H2 p pn Hp) as HF. rewrite Forall_forall in *. intros x Hx. apply HF. eapply in_remove_id, Hx.
    - intros q Eq. exact (H3 p pn q Hp Eq).
    - exact (H4 p pn Hp).
    - intros K x xn Hin Ex. apply in_remove_id in Hin. exact (H5 p pn x xn Hp K Hin Ex).
    - intros q qn Eq Eqn Kq. exact (H6 p pn q qn Hp Eq Eqn Kq).
    - intros K q qn Eq Eqn. exact (H7 p pn q qn Hp K Eq Eqn). }
  assert (HH2 : HInv (hset h1 c (set_par cn None))).
  { apply (HInv_hset space_table src lst h1 c cn _ HH1 Hc1); cbn [set_par bk bch bpar].
    - reflexivity.
    - exact (hi_ch _ _ _ _ HH1 c cn Hc1).
    - intros q Eq. discriminate.
    - exact (H4 c cn Hc).
    - intros K x xn Hin Ex. exact (hi_list _ _ _ _ HH1 c cn x xn Hc1 K Hin Ex).
    - intros q qn Eq. discriminate.
    - intros K q qn Eq. discriminate. }
  split; [split; [exact HH2|split]|].
  - apply (hext_trans h h1); [unfold h1; apply (hext_hset h p pn); [exact Hp|reflexivity]|].
    apply (hext_hset h1 c cn); [exact Hc1|reflexivity].
  - intros r HL. eapply Lim_hset; [|exact Hc1|].
    + eapply Lim_hset; [exact HL|exact Hp|]. cbn [set_ch bk blines]. intros K. exact (HL p pn Hp K).
    + cbn [set_par bk blines]. intros K. exact (HL c cn Hc K).
  - csplit.
    + rewrite hset_length. unfold h1. apply hset_length.
    + intros j J1 J2. rewrite hset_other by lia. unfold h1. apply hset_other. lia.
    + intros j n' Hj. destruct (Nat.eq_dec c j) as [<-|Jc].
      * rewrite hset_same in Hj by (unfold h1; rewrite hset_length; exact Hcl). injection Hj as <-.
        exists cn. cbn [set_par bk blines b_seg b_i1 bch bpar]. csplit; auto. intros C. congruence.
      * rewrite hset_other in Hj by exact Jc. destruct (Nat.eq_dec p j) as [<-|Jp].
        -- unfold h1 in Hj. rewrite hset_same in Hj by (eapply nth_error_lt, Hp). injection Hj as <-.
           exists pn. cbn [set_ch bk blines b_seg b_i1 bch bpar]. csplit; auto. intros C. congruence.
        -- unfold h1 in Hj. rewrite hset_other in Hj by exact Jp. exists n'. csplit; auto.
Qed.

(* ReplaceChild of a (non list item) node by a younger detached (non list item) node that is not
   the FootnoteList *)
Lemma replace_child_ok h p old new on nn : HInv h -> nth_error h old = Some on -> nth_error h new = Some nn ->
  (old < new)%nat -> lst <> Some new -> bk on <> BListItem -> bk nn <> BListItem ->
  exists h', replace_child h p old new = Ok h' /\ HStep h h' /\ length h' = length h /\
    (forall j, j <> p -> j <> old -> j <> new -> nth_error h' j = nth_error h j) /\
    (forall j n', nth_error h' j = Some n' -> exists n, nth_error h j = Some n /\ bk n' = bk n /\ blines n' = blines n /\
        b_seg n' = b_seg n /\ b_i1 n' = b_i1 n /\ (j <> old -> j <> new -> bpar n' = bpar n) /\
        (bk n = BList -> bch n' = bch n)) /\
    (bpar on = Some p -> exists on', nth_error h' old = Some on' /\ bpar on' = None) /\
    (bpar on <> Some p -> h' = h).
Proof.
  intros HH Ho Hn Hon Hnl Ko Kn. pose proof HH as [H1 H2 H3 H4 H5 H6 H7 H8].
  unfold replace_child. rewrite (hget_some _ _ _ Ho). cbn [bind].
  destruct (opt_nat_eqb (bpar on) (Some p)) eqn:Eg.
  2:{ exists h. split; [reflexivity|]. split; [apply HStep_refl, HH|]. csplit; auto.
      - intros j n' Hj. exists n'. csplit; auto.
      - intros Ep. rewrite Ep in Eg. cbn in Eg. rewrite Nat.eqb_refl in Eg. discriminate. }
  assert (Ep : bpar on = Some p).
  { unfold opt_nat_eqb in Eg. destruct (bpar on) as [q|]; [|discriminate]. apply Nat.eqb_eq in Eg. congruence. }
  destruct (H3 old on p Ho Ep) as (Hpl & Hpo & Hpord).
  assert (Hol : (old < length h)%nat) by (eapply nth_error_lt, Ho).
  assert (Hnl' : (new < length h)%nat) by (eapply nth_error_lt, Hn).
  assert (Hpn : p <> new) by (destruct Hpord as [C|C]; [lia|congruence]).
  assert (Hpnord : (p < new)%nat \/ lst = Some p) by (destruct Hpord as [C|C]; [left; lia|right; exact C]).
  destruct (nth_error_ex_lt h p Hpl) as [pn Hp].
  assert (Kp : bk pn <> BList).
  { intros K. apply Ko. exact (H6 old on p pn Ho Ep Hp K). }
  rewrite (hupd_ok _ _ _ _ Hp). cbn [bind].
  set (h1 := hset h p (set_ch pn (replace_id old new (bch pn)))).
  assert (Hn1 : nth_error h1 new = Some nn) by (unfold h1; rewrite hset_other by lia; exact Hn).
  rewrite (hupd_ok _ _ _ _ Hn1). cbn [bind].
  set (h2 := hset h1 new (set_par nn (Some p))).
  assert (Ho2 : nth_error h2 old = Some on).
  { unfold h2. rewrite hset_other by lia. unfold h1. rewrite hset_other by lia. exact Ho. }
  rewrite (hupd_ok _ _ _ _ Ho2). eexists. split; [reflexivity|].
  assert (Hp1 : nth_error h1 p = Some (set_ch pn (replace_id old new (bch pn)))).
  { unfold h1. apply hset_same. eapply nth_error_lt, Hp. }
  assert (HH1 : HInv h1).
  { apply (HInv_hset space_table src lst h p pn _ HH Hp); cbn [set_ch bk bch bpar].
    - reflexivity.
    - pose proof (H2 p pn Hp) as HF. rewrite Forall_forall in *. intros x Hx.
      apply in_replace_id in Hx. destruct Hx as [->|Hx]; [|apply HF, Hx].
      split; [exact Hnl'|]. split; [congruence|exact Hpnord].
    - intros q Eq. exact (H3 p pn q Hp Eq).
    - exact (H4 p pn Hp).
    - intros K. contradiction.
    - intros q qn Eq Eqn Kq. exact (H6 p pn q qn Hp Eq Eqn Kq).
    - intros K q qn Eq Eqn. exact (H7 p pn q qn Hp K Eq Eqn). }
  assert (HH2 : HInv h2).
  { apply (HInv_hset space_table src lst h1 new nn _ HH1 Hn1); cbn [set_par bk bch bpar].
    - reflexivity.
    - exact (hi_ch _ _ _ _ HH1 new nn Hn1).
    - intros q Eq. injection Eq as <-. split; [unfold h1; rewrite hset_length; exact Hpl|]. split; [exact Hpn|exact Hpnord].
    - exact (H4 new nn Hn).
    - intros K x xn Hin Ex. exact (hi_list _ _ _ _ HH1 new nn x xn Hn1 K Hin Ex).
    - intros q qn Eq Eqn Kq. injection Eq as <-. rewrite Hp1 in Eqn. injection Eqn as <-. cbn [set_ch bk] in Kq. contradiction.
    - intros K. contradiction. }
  assert (HH3 : HInv (hset h2 old (set_par on None))).
  { apply (HInv_hset space_table src lst h2 old on _ HH2 Ho2); cbn [set_par bk bch bpar].
    - reflexivity.
    - exact (hi_ch _ _ _ _ HH2 old on Ho2).
    - intros q Eq. discriminate.
    - exact (H4 old on Ho).
    - intros K x xn Hin Ex. exact (hi_list _ _ _ _ HH2 old on x xn Ho2 K Hin Ex).
    - intros q qn Eq. discriminate.
    - intros K q qn Eq. discriminate. }
  split; [split; [exact HH3|split]|].
  - apply (hext_trans h h1); [unfold h1; apply (hext_hset h p pn); [exact Hp|reflexivity]|].
    apply (hext_trans h1 h2); [unfold h2; apply (hext_hset h1 new nn); [exact Hn1|reflexivity]|].
    apply (hext_hset h2 old on); [exact Ho2|reflexivity].
  - intros r HL. eapply Lim_hset; [|exact Ho2|].
    + eapply Lim_hset; [|exact Hn1|].
      * eapply Lim_hset; [exact HL|exact Hp|]. cbn [set_ch bk blines]. intros K. exact (HL p pn Hp K).
      * cbn [set_par bk blines]. intros K. exact (HL new nn Hn K).
    + cbn [set_par bk blines]. intros K. exact (HL old on Ho K).
  - csplit.
    + rewrite hset_length. unfold h2. rewrite hset_length. unfold h1. apply hset_length.
    + intros j J1 J2 J3. rewrite hset_other by lia. unfold h2. rewrite hset_other by lia. unfold h1. apply hset_other. lia.
    + intros j n' Hj. destruct (Nat.eq_dec old j) as [<-|Jo].
      * rewrite hset_same in Hj by (unfold h2, h1; rewrite !hset_length; exact Hol). injection Hj as <-.
        exists on. cbn [set_par bk blines b_seg b_i1 bch bpar]. csplit; auto. intros C. congruence.
      * rewrite hset_other in Hj by exact Jo. destruct (Nat.eq_dec new j) as [<-|Jn].
        -- unfold h2 in Hj. rewrite hset_same in Hj by (unfold h1; rewrite hset_length; exact Hnl'). injection Hj as <-.
           exists nn. cbn [set_par bk blines b_seg b_i1 bch bpar]. csplit; auto. intros _ C. congruence.
        -- unfold h2 in Hj. rewrite hset_other in Hj by exact Jn. destruct (Nat.eq_dec p j) as [<-|Jp].
           ++ rewrite Hp1 in Hj. injection Hj as <-. exists pn. cbn [set_ch bk blines b_seg b_i1 bch bpar]. csplit; auto.
              intros K. contradiction.
           ++ unfold h1 in Hj. rewrite hset_other in Hj by exact Jp. exists n'. csplit; auto.
    + intros _. eexists. split; [apply hset_same; unfold h2, h1; rewrite !hset_length; exact Hol|reflexivity].
    + intros C. contradiction.
Qed.

End Steps.
