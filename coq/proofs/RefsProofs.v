(* C09: link reference definitions are document-global and position-independent. *)
Require Import GM.model.Base GM.model.Refs GM.proofs.Finite.
From Coq Require Import Lia.
Open Scope N_scope.

Section RefsP.
Variable norm : bytes -> bytes.
Variable V : Type.
Notation add_reference := (add_reference norm V).
Notation add_all := (add_all norm V).
Notation reference := (reference norm V).
Notation lookup_key := (lookup_key V).

Lemma beq_refl (a : bytes) : bytes_eqb a a = true.
Proof. now apply bytes_eqb_eq. Qed.

Lemma beq_neq (a b : bytes) : a <> b -> bytes_eqb a b = false.
Proof.
  intro Hab. destruct (bytes_eqb a b) eqn:E; [|reflexivity].
  apply bytes_eqb_eq in E. contradiction.
Qed.

Lemma lookup_app (m1 m2 : refmap V) k :
  lookup_key (m1 ++ m2) k = match lookup_key m1 k with Some v => Some v | None => lookup_key m2 k end.
Proof.
  induction m1 as [|[k' v'] m1 IH]; cbn [app Refs.lookup_key]; [reflexivity|].
  destruct (bytes_eqb k' k); [reflexivity|exact IH].
Qed.

Lemma lookup_add_reference m l v k :
  lookup_key (add_reference m l v) k =
  match lookup_key m k with
  | Some w => Some w
  | None => if bytes_eqb (norm l) k then Some v else None
  end.
Proof.
  unfold Refs.add_reference. destruct (lookup_key m (norm l)) as [w|] eqn:E.
  - destruct (lookup_key m k) as [w'|] eqn:E2; [reflexivity|].
    destruct (bytes_eqb (norm l) k) eqn:E3; [|reflexivity].
    apply bytes_eqb_eq in E3. subst k. congruence.
  - rewrite lookup_app. cbn [Refs.lookup_key]. reflexivity.
Qed.

(* the first definition of a label (up to normalisation) wins *)
Theorem first_definition_wins m l1 v1 l2 v2 : norm l1 = norm l2 ->
  add_reference (add_reference m l1 v1) l2 v2 = add_reference m l1 v1.
Proof.
  intro Hn. unfold Refs.add_reference at 1. rewrite lookup_add_reference, <- Hn, beq_refl.
  destruct (lookup_key m (norm l1)); reflexivity.
Qed.

(* definitions of different labels commute as far as any lookup can tell *)
Theorem add_reference_commutes m l1 v1 l2 v2 k : norm l1 <> norm l2 ->
  lookup_key (add_reference (add_reference m l1 v1) l2 v2) k =
  lookup_key (add_reference (add_reference m l2 v2) l1 v1) k.
Proof.
  intro Hn. rewrite !lookup_add_reference.
  destruct (lookup_key m k) as [w|]; [reflexivity|].
  destruct (bytes_eqb (norm l1) k) eqn:E1; destruct (bytes_eqb (norm l2) k) eqn:E2; try reflexivity.
  apply bytes_eqb_eq in E1. apply bytes_eqb_eq in E2. congruence.
Qed.

(* what a lookup returns after a sequence of definitions: the value of the first definition
   with that key (among those already in the map, then in the sequence) *)
Fixpoint first_def (defs : list (bytes * V)) (k : bytes) : option V :=
  match defs with
  | [] => None
  | (l, v) :: r => if bytes_eqb (norm l) k then Some v else first_def r k
  end.
Theorem lookup_add_all m defs k :
  lookup_key (add_all m defs) k = match lookup_key m k with Some v => Some v | None => first_def defs k end.
Proof.
  revert m. induction defs as [|[l v] defs IH]; intro m.
  - cbn. destruct (lookup_key m k); reflexivity.
  - unfold Refs.add_all. cbn [fold_left fst snd first_def]. fold (add_all (add_reference m l v) defs).
    rewrite IH, lookup_add_reference.
    destruct (lookup_key m k) as [w|]; [reflexivity|].
    destruct (bytes_eqb (norm l) k); reflexivity.
Qed.

Lemma first_def_app a b k :
  first_def (a ++ b) k = match first_def a k with Some v => Some v | None => first_def b k end.
Proof.
  induction a as [|[l v] a IH]; cbn [app first_def]; [reflexivity|].
  destruct (bytes_eqb (norm l) k); [reflexivity|exact IH].
Qed.

Lemma first_def_some defs k v : first_def defs k = Some v -> exists l, In (l, v) defs /\ norm l = k.
Proof.
  induction defs as [|[l w] defs IH]; cbn [first_def]; [discriminate|].
  destruct (bytes_eqb (norm l) k) eqn:E.
  - intro H. injection H as ->. apply bytes_eqb_eq in E. exists l. split; [now left|exact E].
  - intro H. destruct (IH H) as [l' [Hin Hk]]. exists l'. split; [now right|exact Hk].
Qed.

(* moving a block of definitions whose labels are not defined elsewhere in the document from the
   top to the end does not change any lookup *)
Theorem definitions_position_independent block others k :
  (forall l v l' v', In (l, v) block -> In (l', v') others -> norm l <> norm l') ->
  lookup_key (add_all [] (block ++ others)) k = lookup_key (add_all [] (others ++ block)) k.
Proof.
  intro Hdis. rewrite !lookup_add_all. cbn [Refs.lookup_key]. rewrite !first_def_app.
  destruct (first_def block k) as [vb|] eqn:Eb; destruct (first_def others k) as [vo|] eqn:Eo; try reflexivity.
  exfalso. apply first_def_some in Eb as [lb [Hinb Hkb]]. apply first_def_some in Eo as [lo [Hino Hko]].
  apply (Hdis lb vb lo vo Hinb Hino). congruence.
Qed.

(* any case / white-space variant of a label finds the definition *)
Theorem reference_by_variant m l v l' : norm l = norm l' -> lookup_key m (norm l) = None ->
  reference (add_reference m l v) l' = Some v.
Proof.
  intros Hn Hnone. unfold Refs.reference. rewrite lookup_add_reference, <- Hn, Hnone, beq_refl. reflexivity.
Qed.

End RefsP.
