(* Helper file 2 for TypoDefWfTotBlkOpenA.v: try_parsersD over a list of default parsers
   (`map DCore bps`): the port of ParseBlocksTotalOpen.attach_push / after_open_ok / try_parsers_ok.
   The outcomes are those of the core proof (ODecl / OPop / OPush) together with tree consistency and
   the kind frame (TCK) and "the new node is no node of the extension" (DN). *)
Require Import GM.model.Base GM.model.Util GM.model.Reader GM.model.ReaderSpec GM.model.Blocks GM.model.ListItem
               GM.model.LeafBlocks GM.model.CodeBlock GM.model.LinkDest GM.model.Regex GM.model.BlockParse
               GM.model.TypoDefParseD.
Require Import GM.proofs.ReaderProofs GM.proofs.BlocksProofs
               GM.proofs.ParseBlocksTotalReader GM.proofs.ParseBlocksTotalDefs GM.proofs.ParseBlocksTotalSpec
               GM.proofs.ParseBlocksTotalSt GM.proofs.ParseBlocksTotalShape GM.proofs.ParseBlocksTotalLeaf
               GM.proofs.ParseBlocksTotalOpen
               GM.proofs.GfmConservativeDefs GM.proofs.TypoDefConservativeBlkInv
               GM.proofs.TypoDefWfTotBlkDefs GM.proofs.TypoDefWfTotBlkSpec GM.proofs.TypoDefWfTotBlkOpenI
               GM.proofs.TypoDefWfTotBlkOpenAI GM.proofs.TypoDefWfTotBlkOpenA1.
From Coq Require Import ZArith Lia List Bool.
Import ListNotations.
Open Scope Z_scope.

Lemma TCK_dcl s0 s t : dcl s0 s -> TCK (s_h s) t -> TCK (s_h s0) t.
Proof. intros (E & _) H. rewrite <- E. exact H. Qed.
Lemma DN_dcl s0 s t : dcl s0 s -> DN (s_h s) t -> DN (s_h s0) t.
Proof. intros (E & _) H. rewrite <- E. exact H. Qed.

(* the new node of a later heap is no node of the extension when it was none *)
Lemma dnode_kkeep h h' i n n' : kkeep h h' -> nth_error h i = Some n -> nth_error h' i = Some n' -> dnode n -> dnode n'.
Proof.
  intros [_ K] E E' D. destruct (K i n E) as (n2 & E2 & K2 & T2). rewrite E' in E2. injection E2 as <-.
  eapply dnode_same; eassumption.
Qed.

Section S.
Variable space_table punct_table : list N.
Variable norm : bytes -> bytes.
Variable re_t1o re_t1c re_t2 re_t3 re_t4 re_t5 re_t6 re_t7 : re.
Variable allowed_tags : list bytes.
Variable src : bytes.
Hypothesis tbl : TblOK space_table.
Notation SI := (SI space_table src).
Notation SD := (SD space_table src).
Notation open_post := (open_post space_table src).
Notation PO := (p_open space_table re_t1o re_t2 re_t3 re_t4 re_t5 re_t6 re_t7 allowed_tags).
Notation TPD := (try_parsersD space_table punct_table norm re_t1o re_t2 re_t3 re_t4 re_t5 re_t6 re_t7 allowed_tags).
Notation isb := (Reader.is_blank space_table).
Notation itb := (is_thematic_break space_table).
Notation attachD := (attachD space_table punct_table norm).
Notation after_openD := (after_openD space_table punct_table norm).
Notation OPop := (OPop space_table src).
Notation OPush := (OPush space_table src).
Notation ODecl := (ODecl space_table src).
Notation TI := (TI space_table src).
Notation cpt_ok := (cpt_ok space_table punct_table norm re_t1o re_t1c re_t2 re_t3 re_t4 re_t5 re_t6 re_t7 allowed_tags src tbl).
Notation attachD_core := (attachD_core space_table punct_table norm re_t1o re_t1c re_t2 re_t3 re_t4 re_t5 re_t6 re_t7 allowed_tags src tbl).
Notation i_p_open_TC := (i_p_open_TC space_table punct_table norm re_t1o re_t1c re_t2 re_t3 re_t4 re_t5 re_t6 re_t7 allowed_tags src tbl).

(* ---------------------------------------------------------------------------------------- *)
(* attaching the new node of a default parser                                                  *)
Lemma attach_pushD bp parent pn blank cont s s1 sX kids req ndX :
  SI s -> nth_error (s_h s) parent = Some pn ->
  (bk pn = BList -> bp = PListItem) ->
  open_post bp parent s s1 (Some (length (s_h s), kids, req)) ->
  (bp = PFenced -> exists ch ind fl, c_fence (s_c s1) = Some (ch, ind, fl, length (s_h s))) ->
  (bp = PList -> itb (sview s) (soff s) = false) ->
  sin s ->
  SI sX -> s_r sX = s_r s1 -> c_fence (s_c sX) = c_fence (s_c s1) -> c_tmp_para (s_c sX) = c_tmp_para (s_c s1) ->
  (opened (s_c sX) = ops s \/ (bp = PSetext /\ exists x, ops s = opened (s_c sX) ++ [(x, PParagraph)])) ->
  AF (s_h s) (s_h sX) parent (last_para (s_c s)) ->
  nth_error (s_h sX) (length (s_h s)) = Some ndX -> bpar ndX = None -> bk ndX = kind_of_parser bp ->
  (bp = PSetext -> blines ndX <> []) ->
  (forall l lp, last_opened (s_c s) = Some (l, lp) -> exists n, nth_error (s_h sX) l = Some n /\ bpar n <> None) ->
  TC (s_h sX) -> kkeep (s_h s) (s_h sX) -> dnode ndX ->
  exists t, attachD bp parent blank cont (last_opened (s_c s)) sX (length (s_h s)) kids = Ok t /\ OPush parent pn cont s t /\
            TCK (s_h s) t /\ DN (s_h s) t.
Proof using All.
  intros HS Hp Hlist OP Hfen Htb Hin SX Er Ef Et Hops HAF Hnd Hdet Hk Hlines Hlast HTX HKX HDX.
  destruct (attach_push space_table punct_table norm src bp parent pn blank cont s s1 sX kids req ndX
              HS Hp Hlist OP Hfen Htb Hin SX Er Ef Et Hops HAF Hnd Hdet Hk Hlines Hlast) as (t & E & O).
  assert (Hlast' : forall l lp, last_opened (s_c s) = Some (l, lp) ->
            exists n, nth_error (s_h sX) l = Some n /\ bpar n <> None /\ l <> length (s_h s)).
  { intros l lp El. destruct (Hlast l lp El) as (n & En & Pn'). exists n. csplit; auto.
    destruct (is_paragraph_ok space_table src s l lp HS El) as (n0 & En0 & _). apply nth_error_lt in En0. lia. }
  destruct (attachD_core bp parent blank cont (last_opened (s_c s)) sX (length (s_h s)) kids ndX Hnd Hdet Hlast') as [Eq Htc].
  exists t. rewrite Eq. split; [exact E|]. split; [exact O|].
  assert (Hne : length (s_h s) <> parent) by (apply nth_error_lt in Hp; lia).
  destruct (Htc t E HTX Hne) as [T K]. split.
  - split; [exact T|]. eapply kkeep_trans; eassumption.
  - intros nn Hnn. eapply dnode_kkeep; [exact K|exact Hnd|exact Hnn|exact HDX].
Qed.

(* ---------------------------------------------------------------------------------------- *)
(* everything behind a successful Open of a default parser                                     *)
Lemma after_openD_ok bp parent pn blank cont res w s s1 node kids req :
  SI s -> TC (s_h s) -> sin s -> nth_error (s_h s) parent = Some pn -> lastatt s ->
  (bk pn = BList -> bp = PListItem) ->
  open_post bp parent s s1 (Some (node, kids, req)) ->
  TC (s_h s1) -> (forall nd, nth_error (s_h s1) node = Some nd -> dnode nd) ->
  (bp = PFenced -> exists ch ind fl, c_fence (s_c s1) = Some (ch, ind, fl, node)) ->
  (bp = PSetext -> isb (sview s) = false /\ (3 <? w) = false) ->
  (bp = PList -> itb (sview s) (soff s) = false) ->
  exists t, after_openD (DCore bp) parent blank cont res (last_opened (s_c s)) s1 node kids req = Ok t /\
            (OPop parent pn res w s t \/ OPush parent pn cont s t) /\ TCK (s_h s) t /\ DN (s_h s) t.
Proof using All.
  intros HS HT Hin Hp Hatt Hlist OP HT1 HD1 Hfen Hset Htb.
  pose proof OP as (S1 & Lr & Cf & nd & Eh & En & Kn & Pn & Cn & Ereq & Kc & Ff & Ff2 & Ft & X). subst node. try subst req.
  assert (Hnd1 : nth_error (s_h s1) (length (s_h s)) = Some nd) by (rewrite Eh; apply nth_error_alloc_new).
  pose proof (HD1 nd Hnd1) as Dnd.
  assert (K01 : kkeep (s_h s) (s_h s1)) by (rewrite Eh; apply kkeep_alloc).
  assert (Hlast1 : forall l lp, last_opened (s_c s) = Some (l, lp) -> exists n, nth_error (s_h s1) l = Some n /\ bpar n <> None).
  { intros l lp El. destruct (is_paragraph_ok space_table src s l lp HS El) as (n0 & En0 & _).
    exists n0. split; [rewrite Eh; apply nth_error_alloc_old, En0|eapply Hatt; eassumption]. }
  assert (Hops1 : opened (s_c s1) = ops s).
  { unfold ops, opened. destruct Cf as (A & B & _). rewrite A, B. reflexivity. }
  assert (AF1 : AF (s_h s) (s_h s1) parent (last_para (s_c s))) by (rewrite Eh; apply (AF_alloc norm src)).
  assert (Plain : exists t, attachD bp parent blank cont (last_opened (s_c s)) s1 (length (s_h s)) kids = Ok t /\
                            OPush parent pn cont s t /\ TCK (s_h s) t /\ DN (s_h s) t).
  { eapply (attach_pushD bp parent pn blank cont s s1 s1 kids _ nd); eauto.
    intros ->. cbn [open_extra] in X. destruct X as (last & lp & ln & _ & _ & _ & _ & _ & Ll & _). exact Ll. }
  unfold after_openD, req_paraD. cbn [recorded].
  assert (Hdec : bp = PSetext \/ bp <> PSetext) by (destruct bp; (left; reflexivity) || (right; discriminate)).
  destruct Hdec as [->|Hns].
  2:{ assert (Hreq : (match bp with PSetext => true | _ => false end) = false) by (destruct bp; congruence).
      rewrite Hreq. cbn [bind].
      destruct Plain as (t & E & O & TK & DNt). exists t. split; [exact E|]. split; [right; exact O|]. split; assumption. }
  cbn [open_extra] in X. destruct X as (last & lp & ln & El & Eln & Kl & Pl & Tl & Ll & Sp).
  rewrite El.
  assert (Hp1 : nth_error (s_h s1) parent = Some pn) by (rewrite Eh; apply nth_error_alloc_old, Hp).
  rewrite (hget_some _ _ _ Hp1). cbn [bind].
  assert (lp = PParagraph).
  { destruct (is_paragraph_ok space_table src s last lp HS El) as (n0 & En0 & Kn0 & _).
    rewrite Eln in En0. injection En0 as <-. rewrite Kl in Kn0. symmetry in Kn0. apply kind_para_parser in Kn0. exact Kn0. }
  subst lp.
  destruct (opt_nat_eqb (Some last) (last_id (bch pn))) eqn:Eq.
  2:{ cbn [bind]. destruct Plain as (t & E & O & TK & DNt). rewrite El in E. exists t. split; [exact E|].
      split; [right; exact O|]. split; assumption. }
  assert (Eln1 : nth_error (s_h s1) last = Some ln) by (rewrite Eh; apply nth_error_alloc_old, Eln).
  destruct (last_opened_inv (s_c s) (last, PParagraph) (ci_len _ _ (si_c _ _ _ HS)) El) as [base Eb].
  assert (Eo1 : opened (s_c s1) = base ++ [(last, PParagraph)]) by (rewrite Hops1; exact Eb).
  destruct (cpt_ok s1 last ln base (conj S1 HT1) Eln1 Kl ltac:(rewrite Pl; discriminate) Eo1)
    as (s2 & s4 & gone & E2 & Elen & Eisp & E4 & [S4 T4] & K14 & Er4 & Ef4 & Et4 & _ & _ & Eo4 & CF2 & CF4 & (n4 & En4 & Hgone) & _).
  rewrite E2. cbn [bind]. cbv zeta. rewrite Elen. cbn [st_c s_h]. rewrite Eisp. cbn [bind negb]. rewrite E4. cbn [bind]. cbv iota beta.
  assert (HAF4 : AF (s_h s) (s_h s4) parent (Some last)).
  { apply (AF_close2 norm src (s_h s) (s_h s1) (s_h s2) (s_h s4) parent last nd Eh); [exact CF2|exact CF4]. }
  assert (Elp : last_para (s_c s) = Some last) by (unfold last_para; rewrite El; reflexivity).
  assert (K04 : kkeep (s_h s) (s_h s4)) by (eapply kkeep_trans; eassumption).
  assert (Hnd4' : exists nd4, nth_error (s_h s4) (length (s_h s)) = Some nd4).
  { destruct K14 as [_ K14]. destruct (K14 _ nd Hnd1) as (nd4 & E4' & _). eauto. }
  destruct Hnd4' as (nd4 & End4).
  assert (Dnd4 : dnode nd4) by (eapply dnode_kkeep; [exact K14|exact Hnd1|exact End4|exact Dnd]).
  destruct gone.
  - eexists. split; [reflexivity|]. split; [|split].
    + left. exists s4, base, last. csplit; auto.
      * rewrite Er4. exact Sp.
      * rewrite Ef4. apply Ff. discriminate.
      * rewrite Et4, Tl. discriminate.
      * intros t Ht. rewrite Et4, Tl in Ht. injection Ht as <-. eapply nth_error_lt, Eln.
      * apply Hset. reflexivity.
      * apply Hset. reflexivity.
      * intros K. specialize (Hlist K). discriminate.
    + split; cbn [st_of]; assumption.
    + intros nn Hnn. cbn [st_of] in Hnn. rewrite End4 in Hnn. injection Hnn as <-. exact Dnd4.
  - (* the new node after closing and transforming *)
    assert (Hnd4 : bpar nd4 = None /\ bk nd4 = BHeading /\ blines nd4 <> []).
    { destruct CF2 as [_ H2]. destruct (H2 _ nd Hnd1) as (nd2 & E2' & K2 & A2 & _ & C2).
      destruct CF4 as [_ H4]. destruct (H4 _ nd2 E2') as (nd4' & E4' & K4 & A4 & _ & C4).
      rewrite End4 in E4'. injection E4' as <-.
      assert (Hne : length (s_h s) <> last) by (apply nth_error_lt in Eln; lia).
      csplit.
      - destruct C4 as [C4|[C4 _]]; [|rewrite K2, Kn in C4; discriminate].
        destruct C2 as [C2|[_ []]]. congruence.
      - rewrite K4, K2, Kn. reflexivity.
      - rewrite (A4 Hne), (A2 Hne). exact Ll. }
    destruct Hnd4 as (Pnd4 & Knd4 & Lnd4).
    destruct (attach_pushD PSetext parent pn blank cont s s1 s4 kids true nd4) as (t & E & O & TK & DNt); auto.
    + right. split; [reflexivity|]. exists last. rewrite Eo4. exact Eb.
    + rewrite Elp. exact HAF4.
    + intros l lp El'. rewrite El in El'. injection El' as <- <-. exists n4. split; [exact En4|].
      intros C. apply Hgone in C. discriminate.
    + rewrite El in E. exists t. split; [exact E|]. split; [right; exact O|]. split; assumption.
Qed.

(* ---------------------------------------------------------------------------------------- *)
(* try_parsersD over default parsers                                                          *)
Lemma try_parsersD_ok parent pn blank cont res w s0 : forall bps s, dcl s0 s -> TI parent pn bps w s -> TC (s_h s) ->
  exists t, TPD (map DCore bps) parent blank cont res w s = Ok t /\
    (ODecl pn bps cont res w s0 t \/ OPop parent pn res w s0 t \/ OPush parent pn cont s0 t) /\
    TCK (s_h s0) t /\ DN (s_h s0) t.
Proof using All.
  induction bps as [|bp rest IH]; intros s D (HS & Hin & HB & Hp & Hatt & HLB & Hth) HT.
  - cbn [map try_parsersD]. exists (TDone res s). split; [reflexivity|]. split; [|split].
    + left. exists s.
      split; [reflexivity|]. split; [exact HS|]. split; [exact D|]. split; [|intros []].
      intros K. destruct (HLB K) as (L & _). discriminate.
    + apply (TCK_dcl s0 s); [exact D|]. split; cbn [st_of]; [exact HT|apply kkeep_refl].
    + apply (DN_dcl s0 s); [exact D|]. intros nn Hnn. cbn [st_of] in Hnn. apply nth_error_lt in Hnn. lia.
  - cbn [map]. rewrite try_parsersD_cons. cbn [can_interrupt_paragraphD can_accept_indentedD p_openD].
    destruct (cont && (res =? noBlocksOpened) && negb (can_interrupt_paragraph bp)) eqn:C1.
    { (* the parser may not interrupt a paragraph *)
      apply andb_true_iff in C1. destruct C1 as [C1 C1'].
      assert (Hnl : bk pn <> BList).
      { intros K. destruct (HLB K) as (L & _). destruct (lst_ok_cases _ _ L) as [->|[->|[->| ->]]]; discriminate. }
      destruct (IH s D) as (t & E & O & TK).
      { unfold ParseBlocksTotalOpen.TI. csplit; auto; [intros K; contradiction|].
        apply (th_skip space_table bp); [exact Hth|]. intros ->. discriminate. }
      { exact HT. }
      exists t. split; [exact E|]. split; [|exact TK]. destruct O as [O|O]; [left|right; exact O].
      apply ODecl_cons; [exact O|]. intros _. left. exact C1. }
    destruct ((3 <? w) && negb (can_accept_indented bp)) eqn:C2.
    { apply andb_true_iff in C2. destruct C2 as [C2 C2'].
      assert (Hnl : bk pn <> BList).
      { intros K. destruct (HLB K) as (_ & _ & _ & L & _). congruence. }
      destruct (IH s D) as (t & E & O & TK).
      { unfold ParseBlocksTotalOpen.TI. csplit; auto; [intros K; contradiction|].
        apply (th_skip space_table bp); [exact Hth|]. intros _. right. apply Z.ltb_lt, C2. }
      { exact HT. }
      exists t. split; [exact E|]. split; [|exact TK]. destruct O as [O|O]; [left|right; exact O].
      apply ODecl_cons; [exact O|]. intros _. right. left. exact C2. }
    destruct (p_open_ok space_table punct_table norm re_t1o re_t1c re_t2 re_t3 re_t4 re_t5 re_t6 re_t7 allowed_tags src tbl
                        bp s parent pn HS Hin HB Hp) as (s1 & o & E & OP & XT & XL & XI & XF & XS & XP).
    rewrite E. cbn [bind]. cbv iota beta.
    destruct (i_p_open_TC bp s parent s1 o HT E) as (HT1 & K1 & Ho).
    destruct o as [[[node kids] req]|].
    + (* the parser opens a block *)
      destruct (after_openD_ok bp parent pn blank cont res w s s1 node kids req HS HT Hin Hp Hatt) as (t & Et & O & TK & DNt); auto.
      * intros K. destruct (HLB K) as (L1 & L2 & L3 & L4 & L5).
        destruct (lst_ok_cases _ _ L1) as [->|[->|[->| ->]]].
        -- exfalso. destruct OP as (_ & _ & _ & nd & _ & _ & _ & _ & _ & _ & _ & _ & _ & _ & X).
           cbn [open_extra] in X. destruct X as (last & lp & ln & _ & Eln & Kl & Pl & _).
           pose proof (hi_listp _ _ _ (si_h _ _ _ HS) last ln parent pn Eln Pl Hp K) as C. congruence.
        -- exfalso. destruct (XT eq_refl) as [_ X]. specialize (X L3). discriminate.
        -- exfalso. specialize (XL eq_refl L5). discriminate.
        -- reflexivity.
      * destruct Ho as (nd & Eh & -> & _ & _ & Dnd). intros nd' Hnd'. rewrite Eh, nth_error_alloc_new in Hnd'.
        injection Hnd' as <-. exact Dnd.
      * intros ->. eapply (XF eq_refl). reflexivity.
      * intros ->. split; [apply (XS eq_refl); discriminate|].
        cbn [can_accept_indented negb] in C2. rewrite andb_true_r in C2. exact C2.
      * intros ->. destruct (Hth (or_introl eq_refl)) as [T|[T|T]]; [discriminate|exact T|].
        cbn [can_accept_indented negb] in C2. rewrite andb_true_r in C2. apply Z.ltb_ge in C2. lia.
      * exists t. split; [exact Et|]. split; [|split].
        -- right. destruct O as [O|O]; [left; eapply OPop_pre; eassumption|right; eapply OPush_pre; eassumption].
        -- eapply TCK_dcl; eassumption.
        -- eapply DN_dcl; eassumption.
    + (* the parser declines *)
      destruct OP as (S1 & Lr & Cf & Eh & Sp & Ef & Etm & _ & Esk).
      assert (D1 : dcl s s1).
      { destruct Cf as (A & B & _). unfold dcl. csplit; auto. }
      pose proof (dcl_trans _ _ _ D D1) as D01.
      destruct (IH s1 D01) as (t & Et & O & TK).
      { unfold ParseBlocksTotalOpen.TI. csplit.
        - exact S1.
        - apply (dcl_sin _ _ D1), Hin.
        - destruct HB as [B1 B2]. destruct Cf as (_ & _ & Cb & _). unfold BoffOK.
          rewrite (dcl_view _ _ D1), (dcl_pos _ _ D1), Cb. split; assumption.
        - rewrite Eh. exact Hp.
        - apply (dcl_lastatt s s1 D1 Hatt).
        - intros K. destruct (HLB K) as (L1 & L2 & L3 & L4 & L5).
          unfold LB. rewrite (dcl_view _ _ D1), (dcl_off _ _ D1).
          destruct (lst_ok_cases _ _ L1) as [->|[->|[->| ->]]].
          + cbn [lst_ok] in L1. csplit; auto. destruct rest as [|[] rest']; auto;
              (destruct L5 as [L5|L5]; [left; apply (dcl_lastlist _ _ D1), L5|right; rewrite Esk by discriminate; exact L5]).
          + cbn [lst_ok] in L1. csplit; auto. destruct rest as [|[] rest']; auto;
              (destruct L5 as [L5|L5]; [left; apply (dcl_lastlist _ _ D1), L5|right; rewrite Esk by discriminate; exact L5]).
          + cbn [lst_ok] in L1. destruct rest as [|[] rest']; try discriminate. csplit; auto.
          + exfalso. destruct (XI eq_refl) as [X _]. apply (X K L2). reflexivity.
        - apply (th_dcl _ _ _ s); [exact D1|]. apply (th_skip space_table bp); [exact Hth|].
          intros ->. left. apply (XT eq_refl). reflexivity. }
      { exact HT1. }
      exists t. split; [exact Et|]. split; [|exact TK]. destruct O as [O|O]; [left|right; exact O].
      apply ODecl_cons; [exact O|]. intros ->. right. right. rewrite <- (dcl_view _ _ D).
      destruct (isb (sview s)) eqn:Eb; [reflexivity|]. exfalso. apply (XP eq_refl eq_refl). reflexivity.
Qed.

End S.
