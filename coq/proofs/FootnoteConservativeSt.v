(* C11 for the footnote parser model, the block parsers of the default parser: Open, Continue,
   Close of the ten block parsers and the paragraph transformer keep the three facts FI
   (FootnoteConservativeDefs.v): relation `ext s s'`. *)
Require Import GM.model.Base GM.model.Util GM.model.Reader GM.model.Blocks GM.model.ListItem
               GM.model.LeafBlocks GM.model.CodeBlock GM.model.LinkDest GM.model.Regex GM.model.BlockParse.
Require Import GM.proofs.FootnoteConservativeDefs GM.proofs.FootnoteConservativeRd.
From Coq Require Import List ZArith NArith Bool Lia.
Import ListNotations.
Open Scope Z_scope.

(* ---- heap primitives ---- *)
Definition hstep (h h' : heap) : Prop := (plain h -> plain h') /\ (length h <= length h')%nat.
Lemma hstep_refl h : hstep h h.
Proof. split; [auto|lia]. Qed.
Lemma hstep_trans a b c : hstep a b -> hstep b c -> hstep a c.
Proof. intros [A1 A2] [B1 B2]. split; [auto|lia]. Qed.

Lemma hset_length : forall h i n, length (hset h i n) = length h.
Proof. induction h as [|x t IH]; intros [|i] n; cbn; auto. Qed.
Lemma hset_plain : forall h i n, plain h -> plain_node n -> plain (hset h i n).
Proof.
  unfold plain. induction h as [|x t IH]; intros [|i] n Hh Hn; cbn [hset]; try exact Hh.
  - inversion Hh; subst. constructor; assumption.
  - inversion Hh; subst. constructor; [assumption|]. apply IH; assumption.
Qed.
Lemma hget_plain h i n : hget h i = Ok n -> plain h -> plain_node n.
Proof.
  unfold hget. destruct (nth_error h i) as [m|] eqn:E; [|discriminate]. intros H Hp. injection H as <-.
  unfold plain in Hp. rewrite Forall_forall in Hp. apply Hp. eapply nth_error_In. exact E.
Qed.
Lemma hget_lt h i n : hget h i = Ok n -> (i < length h)%nat.
Proof.
  unfold hget. destruct (nth_error h i) as [m|] eqn:E; [|discriminate]. intros _.
  apply nth_error_Some. congruence.
Qed.

Definition keeps (f : bnode -> bnode) : Prop := forall n, plain_node n -> plain_node (f n).
Lemma hupd_hstep h i f h' : hupd h i f = Ok h' -> keeps f -> hstep h h'.
Proof.
  unfold hupd. intros H Hf. fc_bind H n En. injection H as <-. split.
  - intros Hp. apply hset_plain; [exact Hp|]. apply Hf. eapply hget_plain; eassumption.
  - rewrite hset_length. lia.
Qed.
Lemma hupd_lt h i f h' : hupd h i f = Ok h' -> (i < length h)%nat.
Proof. unfold hupd. intros H. fc_bind H n En. eapply hget_lt. exact En. Qed.

(* a function that does not touch the kind and the first number keeps plain nodes *)
Ltac keeps_tac :=
  let n := fresh "n" in let K := fresh "K" in
  intros n K; destruct n; cbn in *;
  repeat match goal with |- context [match ?l with _ => _ end] => destruct l end; exact K.

Lemma keeps_set_par v : keeps (fun n => set_par n v). Proof. keeps_tac. Qed.
Lemma keeps_set_blank v : keeps (fun n => set_blank n v). Proof. keeps_tac. Qed.
Lemma keeps_set_tight v : keeps (fun n => set_tight n v). Proof. keeps_tac. Qed.
Lemma keeps_set_lines_c v : keeps (fun n => set_lines n v). Proof. keeps_tac. Qed.
Lemma keeps_set_seg v : keeps (fun n => set_seg n v). Proof. keeps_tac. Qed.

Lemma halloc_hstep h n h' i : halloc h n = (h', i) -> plain_node n -> hstep h h'.
Proof.
  unfold halloc. intros H Hn. injection H as <- <-. split.
  - intros Hp. unfold plain. apply Forall_app. split; [exact Hp|constructor; [exact Hn|constructor]].
  - rewrite app_length. lia.
Qed.

Lemma append_child_hstep h p c h' : append_child h p c = Ok h' -> hstep h h'.
Proof.
  unfold append_child. intros H. fc_bind H h1 E1. eapply hstep_trans; eapply hupd_hstep; try eassumption; keeps_tac.
Qed.
Lemma remove_child_hstep h p c h' : remove_child h p c = Ok h' -> hstep h h'.
Proof.
  unfold remove_child. intros H. fc_bind H n En. destruct (opt_nat_eqb _ _); [|injection H as <-; apply hstep_refl].
  fc_bind H h1 E1. eapply hstep_trans; eapply hupd_hstep; try eassumption; keeps_tac.
Qed.
Lemma replace_child_hstep h p o n h' : replace_child h p o n = Ok h' -> hstep h h'.
Proof.
  unfold replace_child. intros H. fc_bind H nd End. destruct (opt_nat_eqb _ _); [|injection H as <-; apply hstep_refl].
  fc_bind H h1 E1. fc_bind H h2 E2.
  eapply hstep_trans; [eapply hupd_hstep; [exact E1|keeps_tac]|].
  eapply hstep_trans; eapply hupd_hstep; try eassumption; keeps_tac.
Qed.
Lemma insert_after_hstep h p r n h' : insert_after h p r n = Ok h' -> hstep h h'.
Proof.
  unfold insert_after. intros H. fc_bind H h1 E1. eapply hstep_trans; eapply hupd_hstep; try eassumption; keeps_tac.
Qed.

Lemma arr_ok_mono h h' c : arr_ok h c -> (length h <= length h')%nat -> arr_ok h' c.
Proof. unfold arr_ok. intros H L. eapply Forall_impl; [|exact H]. cbv beta. intros e He. lia. Qed.

Section St.
Variable src : bytes.
Hypothesis Hsrc : nfm src = true.
Notation RB := (RB src).
Notation FI := (FI src).

(* ---- states ---- *)
Definition ext (s s' : st) : Prop :=
  hstep (s_h s) (s_h s') /\ (RB (s_r s) -> RB (s_r s')) /\ c_arr (s_c s') = c_arr (s_c s).
Lemma ext_refl s : ext s s.
Proof. split; [apply hstep_refl|]. split; [auto|reflexivity]. Qed.
Lemma ext_trans a b c : ext a b -> ext b c -> ext a c.
Proof. intros (A1 & A2 & A3) (B1 & B2 & B3). split; [eapply hstep_trans; eassumption|]. split; [auto|congruence]. Qed.
Lemma ext_FI s s' : ext s s' -> FI s -> FI s'.
Proof.
  intros ([E1 E2] & E3 & E4) (F1 & F2 & F3). split; [auto|]. split; [auto|].
  unfold arr_ok in *. rewrite E4. eapply Forall_impl; [|exact F3]. cbv beta. intros e He. lia.
Qed.
Lemma ext_len s s' : ext s s' -> (length (s_h s) <= length (s_h s'))%nat.
Proof. intros ([_ E] & _). exact E. Qed.

Lemma ext_st_r s r : (RB (s_r s) -> RB r) -> ext s (st_r s r).
Proof. intros H. split; [apply hstep_refl|]. split; [exact H|reflexivity]. Qed.
Lemma ext_st_c s c : c_arr c = c_arr (s_c s) -> ext s (st_c s c).
Proof. intros H. split; [apply hstep_refl|]. split; [auto|exact H]. Qed.
Lemma ext_st_h s h : hstep (s_h s) h -> ext s (st_h s h).
Proof. intros H. split; [exact H|]. split; [auto|reflexivity]. Qed.

Lemma peek_line_s_ext s s' l sg : peek_line_s s = Ok (s', l, sg) -> ext s s'.
Proof.
  unfold peek_line_s. intros H. fc_bind H x Ex. destruct x as [[r l1] sg1]. injection H as <- <- <-.
  apply ext_st_r. eapply RB_peek1; eassumption.
Qed.
Lemma peek_line_s_nfm s s' l sg : peek_line_s s = Ok (s', l, sg) -> RB (s_r s) -> nfm (line_of l) = true.
Proof.
  unfold peek_line_s. intros H HR. fc_bind H x Ex. destruct x as [[r l1] sg1]. injection H as <- <- <-.
  exact (proj2 (RB_peek src Hsrc _ _ _ _ Ex HR)).
Qed.
Lemma line_offset_s_ext s s' o : line_offset_s s = Ok (s', o) -> ext s s'.
Proof.
  unfold line_offset_s. intros H. fc_bind H x Ex. destruct x as [r o1]. injection H as <- <-.
  apply ext_st_r. eapply RB_loff; eassumption.
Qed.
Lemma advance_s_ext s n s' : advance_s s n = Ok s' -> ext s s'.
Proof.
  unfold advance_s. intros H. fc_bind H r Er. injection H as <-. apply ext_st_r. eapply RB_advance; eassumption.
Qed.
Lemma new_node_ext s n s' i : new_node s n = (s', i) -> plain_node n -> ext s s'.
Proof.
  unfold new_node. destruct (halloc (s_h s) n) as [h j] eqn:E. intros H Hn. injection H as <- <-.
  apply ext_st_h. eapply halloc_hstep; eassumption.
Qed.

End St.
