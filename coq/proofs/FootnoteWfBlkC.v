(* Helper library for FootnoteWfBlk.v, part C: Close of the footnote block parser on the last of the
   blocks being closed: the footnote moves from its parent to the FootnoteList, which is created at
   the place of the first footnote that closes. *)
Require Import GM.model.Base GM.model.Util GM.model.Reader GM.model.ReaderSpec GM.model.Blocks GM.model.ListItem
               GM.model.LeafBlocks GM.model.CodeBlock GM.model.LinkDest GM.model.Regex GM.model.HtmlWriter
               GM.model.Html GM.model.HtmlSpec GM.model.BlockParse GM.model.InlineParse GM.model.FootnoteParseBlock.
Require Import GM.proofs.ReaderProofs GM.proofs.BlockRangeProofs GM.proofs.ParseInv
               GM.proofs.ParseBlocksRangeA GM.proofs.ParseBlocksRangeB GM.proofs.ParseBlocksRangeC
               GM.proofs.ParseBlocksRangeD GM.proofs.ParseBlocksRangeE GM.proofs.ParseBlocksRangeH GM.proofs.ParseBlocksRangeL
               GM.proofs.FootnoteWfDefs GM.proofs.FootnoteWfBlkInv GM.proofs.FootnoteWfBlkA.
From Coq Require Import ZArith Lia List Bool.
Import ListNotations.
Open Scope Z_scope.

Section C.
Variable space_table punct_table : list N.
Variable norm : bytes -> bytes.
Variable re_t1o re_t1c re_t2 re_t3 re_t4 re_t5 re_t6 re_t7 : re.
Variable allowed_tags : list bytes.
Variable src : bytes.
Hypothesis sp32 : is_space space_table 32%N = true.
Set Default Proof Using "All".
Notation CC f := (f space_table punct_table norm re_t1o re_t1c re_t2 re_t3 re_t4 re_t5 re_t6 re_t7 allowed_tags src sp32) (only parsing).
Notation SInv := (SInv space_table src).
Notation HI := (HI space_table src).
Notation heapS := (heapS space_table src).
Notation openS := (openS src).

(* ---------- the hypotheses of Section Move of part A in one record ---------- *)
Definition Mv (h h1 : heap) (p c l : nat) (nc np nl1 : bnode) (cp1 : list nat) : Prop :=
  c <> p /\ c <> l /\ p <> l /\ nth_error h c = Some nc /\ nth_error h p = Some np /\ bpar nc = Some p /\
  In c (bch np) /\ bk nc = BBlockquote /\
  nth_error h1 c = Some (set_par nc (Some l)) /\ nth_error h1 p = Some (set_ch np cp1) /\ nth_error h1 l = Some nl1 /\
  (forall j, j <> c -> j <> p -> j <> l -> nth_error h1 j = nth_error h j) /\
  ((exists nl, nth_error h l = Some nl /\ nl1 = set_ch nl (bch nl ++ [c]) /\ bk nl = BBlockquote) \/
   (nth_error h l = None /\ nl1 = set_ch (set_par (mknode BBlockquote fn_list) (Some p)) [c])) /\
  cp_ok c l (nth_error h l = None) (bch np) cp1.

Lemma lastid_cases l : lastid l = 0%nat \/ In (lastid l) l.
Proof. destruct l as [|a t]; [left; reflexivity|right]. apply last_in. discriminate. Qed.

Lemma chain_head_cases (A D N : list (nat * bparser)) q : In q (lastid (ids A) :: ids D) ->
  q = 0%nat \/ In q (ids (A ++ D ++ N)).
Proof.
  rewrite !ids_app. intros [<-|H].
  - destruct (lastid_cases (ids A)) as [E|E]; [left; exact E|right]. apply in_or_app. left. exact E.
  - right. apply in_or_app. right. apply in_or_app. left. exact H.
Qed.

Lemma spine_head_cases (A D N : list (nat * bparser)) q : In q (0%nat :: ids (A ++ N)) ->
  q = 0%nat \/ In q (ids (A ++ D ++ N)).
Proof.
  rewrite !ids_app. intros [<-|H]; [left; reflexivity|right]. apply in_app_or in H. apply in_or_app.
  destruct H as [H|H]; [left; exact H|right; apply in_or_app; right; exact H].
Qed.

(* the parent of the last of the blocks being closed is the previous element of the chain *)
Lemma closing_parent h c A D e N : openS h c A (D ++ [e]) N ->
  exists q, child h q (fst e) /\ In q (lastid (ids A) :: ids D).
Proof.
  intros HO. pose proof (os_chain _ _ _ _ _ _ HO) as Hc.
  destruct (in_adj_cons (lastid (ids A)) (ids (D ++ [e])) (fst e)) as [q Hq].
  { rewrite ids_app. apply in_or_app. right. left. reflexivity. }
  exists q. split; [apply Hc; exact Hq|].
  rewrite ids_app in Hq. cbn [ids map] in Hq. rewrite app_comm_cons in Hq. apply Adj_snoc_inv in Hq.
  destruct Hq as [Hq|[_ [-> _]]]; [apply (Adj_in _ _ _ Hq)|]. apply last_in. discriminate.
Qed.

(* ---------- the invariant of the core block phase under a move ---------- *)
Lemma HI_move b h h1 ctx A D N p c l nc np nl1 cp1 : HI b h ctx A D N -> Mv h h1 p c l nc np nl1 cp1 ->
  ~ In c (ids (A ++ D ++ N)) -> l <> 0%nat -> ~ In l (ids (A ++ D ++ N)) -> HI b h1 ctx A D N.
Proof.
  intros [H1 H2 H3 H4 H5] [Hcp [Hcl [Hpl [Ec [Ep [Pc [Hcin [Kc [E1c [E1p [E1l [E1o [Hl [Q1 [Q2 [Q3 Q4]]]]]]]]]]]]]]]] Hci Hl0 Hli.
  pose proof (move_data_le h h1 p c l nc np nl1 cp1 Ec Ep E1c E1p E1l E1o Hl) as Hdl.
  constructor; auto.
  - eapply (Bnd_move h h1 p c l nc np nl1 cp1); eassumption.
  - eapply (heapS_move space_table src h h1 p c l nc np nl1 cp1); eassumption.
  - eapply (Jinv_move src h h1 p c l nc np nl1 cp1); eassumption.
  - destruct H4 as [Hp Ha Hnd Hs Hc Hlc Ht Hf]. constructor; auto.
    + intros y bp Hin. destruct (Hp y bp Hin) as [n [E K]]. destruct (Hdl y n E) as [n' [E' [K' _]]].
      exists n'. split; congruence.
    + intros y Hin. destruct (Ha y Hin) as [n [E F]]. destruct (Hdl y n E) as [n' [E' [_ L']]].
      exists n'. rewrite L'. auto.
    + intros q y Hq. eapply (move_lastchild h h1 p c l nc np cp1); try eassumption; [apply Hs; exact Hq| |].
      * intros ->. apply Hci. eapply (CC adj_spine_in). exact Hq.
      * intros ->. destruct (spine_head_cases A D N l (proj1 (Adj_in _ _ _ Hq))); auto.
    + intros q y Hq. eapply (move_child_keep h h1 p c l nc np nl1 cp1); try eassumption; [apply Hc; exact Hq|].
      intros ->. apply Hci. eapply (CC adj_chain_in). exact Hq.
    + intros HN. specialize (Hlc HN). destruct D as [|d D']; [auto|].
      eapply (move_lastchild h h1 p c l nc np cp1); try eassumption.
      * intros <-. apply Hci. rewrite !ids_app. apply in_or_app. right. apply in_or_app. left. left. reflexivity.
      * intros E. destruct (chain_head_cases A (d :: D') N l) as [E0|E0]; auto. left. exact E.
    + intros y Hin. destruct (Ht y Hin) as [tmp [t [T1 [T2 [K [F Hn]]]]]].
      destruct (Hdl tmp t T2) as [t' [T2' [K' L']]]. exists tmp, t'. rewrite L'. csplit; auto. congruence.
Qed.

(* ---------- the footnote facts under a move to the FootnoteList ---------- *)
Lemma FL_move h h1 lst p c l nc np nl1 cp1 : heapS h -> FL h lst -> Mv h h1 p c l nc np nl1 cp1 ->
  is_footnote_node nc = true -> (length h <= length h1)%nat ->
  lst = Some l \/ (lst = None /\ nth_error h l = None) -> FL h1 (Some l).
Proof.
  intros HS [F1 F2 F3 F4] [Hcp [Hcl [Hpl [Ec [Ep [Pc [Hcin [Kc [E1c [E1p [E1l [E1o [Hl _]]]]]]]]]]]]] Fc Hlen Hlst.
  pose proof (move_old h h1 p c l np nl1 cp1 Ep E1p E1l E1o Hl) as Hold.
  (* the list node *)
  assert (is_fnlist_node nl1 = true /\ bpar nl1 <> None /\ bpar nl1 <> Some l) as [Kl [Pl Pll]].
  { destruct Hl as [[nl [El [-> K]]]|[En ->]].
    - destruct Hlst as [E|[_ E]]; [|congruence]. destruct (F2 l E) as [ln [Eln [Kln Pln]]].
      assert (ln = nl) by congruence. subst ln. csplit; auto. cbn [set_ch bpar]. eapply hs_noself; eassumption.
    - csplit; cbn [set_ch set_par bpar]; [reflexivity|discriminate|congruence]. }
  (* an old node other than c: lst-facts carry over *)
  assert (forall i, lst = Some i -> Some l = Some i) as Hsame.
  { intros i Ei. destruct Hlst as [E|[E _]]; congruence. }
  assert (forall x nx', x <> c -> x <> l -> nth_error h1 x = Some nx' ->
            exists nx, nth_error h x = Some nx /\ bpar nx = bpar nx' /\ bk nx = bk nx' /\ b_i1 nx = b_i1 nx' /\
                       b_i2 nx = b_i2 nx' /\ b_seg nx = b_seg nx') as Hback.
  { intros x nx' Hxc Hxl Ex. destruct (Nat.eq_dec x p) as [->|Hxp].
    - exists np. assert (nx' = set_ch np cp1) by congruence. subst. csplit; auto.
    - exists nx'. rewrite E1o in Ex by assumption. csplit; auto. }
  constructor.
  - intros i m E Km. destruct (Nat.eq_dec i c) as [->|Hic].
    + assert (m = set_par nc (Some l)) by congruence. subst m. cbn [set_par bk b_i1 b_i2 b_seg] in *.
      destruct (F1 c nc Ec Km) as [H|[H|[H1 H2]]]; [left; exact H|right; left; exact H|right; right; auto].
    + destruct (Nat.eq_dec i l) as [->|Hil].
      * assert (m = nl1) by congruence. subst m. right. right. apply is_fnlist_node_spec in Kl. destruct Kl. auto.
      * destruct (Hback i m Hic Hil E) as [m0 [E0 [_ [K0 [I1 [I2 Sg]]]]]]. rewrite <- I1, <- I2, <- Sg.
        destruct (F1 i m0 E0 ltac:(congruence)) as [H|[H|[H1 H2]]]; [left; exact H|right; left; exact H|right; right; auto].
  - intros l' El'. injection El' as <-. exists nl1. csplit; auto.
  - intros l' x nx El' Ex Px. injection El' as <-. destruct (Nat.eq_dec x c) as [->|Hxc].
    + assert (nx = set_par nc (Some l)) by congruence. subst nx. exact Fc.
    + destruct (Nat.eq_dec x l) as [->|Hxl]; [exfalso; apply Pll; congruence|].
      destruct (Hback x nx Hxc Hxl Ex) as [nx0 [Ex0 [P0 [K0 [I1 _]]]]].
      assert (is_footnote_node nx0 = true) as Hf.
      { destruct Hlst as [E|[_ En]]; [eapply F3; [exact E|exact Ex0|congruence]|].
        exfalso. assert (bpar nx0 = Some l) as Pq by congruence. pose proof (F4 x nx0 l Ex0 Pq) as Hlt.
        apply nth_error_None in En. lia. }
      apply is_footnote_node_spec in Hf. apply is_footnote_node_spec. destruct Hf. split; congruence.
  - intros x nx q Ex Px. destruct (Nat.eq_dec x c) as [->|Hxc].
    + assert (nx = set_par nc (Some l)) by congruence. subst nx. cbn [set_par bpar] in Px. injection Px as <-.
      eapply nth_some_lt. exact E1l.
    + destruct (Nat.eq_dec x l) as [->|Hxl].
      * assert (nx = nl1) by congruence. subst nx. destruct Hl as [[nl [El [-> K]]]|[En ->]].
        -- cbn [set_ch bpar] in Px. pose proof (F4 l nl q El Px). lia.
        -- cbn [set_ch set_par bpar] in Px. injection Px as <-. apply nth_some_lt in Ep. lia.
      * destruct (Hback x nx Hxc Hxl Ex) as [nx0 [Ex0 [P0 _]]]. rewrite <- P0 in Px. pose proof (F4 x nx0 q Ex0 Px). lia.
Qed.

Lemma footnote_close_ok fl x node x' A D N :
  SInv fl (bf_s x) A (D ++ [(node, PBlockquote)]) N ->
  FLI (s_h (bf_s x)) (bf_list x) (ids (A ++ (D ++ [(node, PBlockquote)]) ++ N)) ->
  (exists n, nth_error (s_h (bf_s x)) node = Some n /\ is_footnote_node n = true) ->
  footnote_close x node = Ok x' ->
  SInv fl (bf_s x') A D N /\ cframe (bf_s x) (bf_s x') /\
  FLI (s_h (bf_s x')) (bf_list x') (ids (A ++ D ++ N)).
Proof.
  intros HSI [HF Hnl] [n [En Fn]] Hclose.
  pose proof HSI as [HR HH0]. pose proof (hi_heap _ _ _ _ _ _ _ _ HH0) as HS. pose proof (hi_open _ _ _ _ _ _ _ _ HH0) as HO0.
  set (s := bf_s x) in *. set (h := s_h s) in *.
  destruct (closing_parent _ _ _ _ _ _ HO0) as [p [Hch Hpin]]. cbn [fst] in Hch.
  pose proof Hch as [np [Ep Hcin]].
  assert (bpar n = Some p) as Pn.
  { destruct (hs_K _ _ _ HS p np node Ep Hcin) as [n' [En' Pn']]. congruence. }
  assert (node <> p) as Hnp.
  { intros ->. apply (hs_noself _ _ _ HS p n En). exact Pn. }
  pose proof (CC dropD_notin A D N node PBlockquote (os_nodup _ _ _ _ _ _ HO0)) as Hnni.
  pose proof Fn as Fn'. apply is_footnote_node_spec in Fn'. destruct Fn' as [Kn In1].
  assert (SInv fl s A D N) as HSI1.
  { eapply (CC SInv_drop); [exact HSI|]. intros n' En' _ [K|K]; change (s_h s) with h in En'; assert (n' = n) by congruence; subst n'; congruence. }
  pose proof HSI1 as [_ HH].
  assert (0 < length h)%nat as Hlen0.
  { destruct (hs_root _ _ _ HS) as [n0 [E0 _]]. eapply nth_some_lt. exact E0. }
  pose proof (chain_head_cases A D N p Hpin) as Hp.
  unfold footnote_close in Hclose; fold s in Hclose; fold h in Hclose.
  pose proof En as Eg; apply hget_ok in Eg; rewrite Eg in Hclose; cbn [bind] in Hclose; rewrite Pn in Hclose.
  destruct (bf_list x) as [l|] eqn:El.
  - (* the list exists *)
    cbn [bind] in Hclose. bind_inv Hclose h1 Hr. bind_inv Hclose h2 Ha. injection Hclose as <-.
    cbn [bf_s bf_list st_h s_h s_c s_r].
    pose proof (Hnl l eq_refl) as Hl.
    assert (~ In l (ids (A ++ D ++ N))) as Hli.
    { intros H. apply Hl. apply in_ids_inv in H. destruct H as [bp H]. eapply in_ids. apply incl_dropD. exact H. }
    assert (node <> l) as Hcl.
    { intros <-. apply Hl. apply (in_ids node PBlockquote).
      apply in_or_app. right. apply in_or_app. left. apply in_or_app. right. left. reflexivity. }
    pose proof (FL_list_not_root space_table src h _ l HS HF eq_refl) as Hl0.
    assert (p <> l) as Hpl.
    { intros ->. destruct Hp as [Hp|Hp]; auto. }
    destruct (move_old_spec h p node l n h1 h2 Hr Ha Hnp Hcl Hpl En Pn) as [np' [nl [Ep' [Enl [Hlen [E2c [E2p [E2l E2o]]]]]]]].
    assert (np' = np) by congruence. subst np'.
    destruct (fl_list _ _ HF l eq_refl) as [ln [Eln [Kln Pln]]]. assert (ln = nl) by congruence. subst ln.
    apply is_fnlist_node_spec in Kln. destruct Kln as [Kl Il].
    assert (Mv h h2 p node l n np (set_ch nl (bch nl ++ [node])) (remove_id node (bch np))) as HM.
    { unfold Mv. csplit; auto.
      - left. exists nl. auto.
      - apply cp_ok_old. eapply hs_nd; eassumption. }
    csplit.
    + split; [exact HR|]. cbn [st_h s_h s_c s_r]. eapply HI_move; eassumption.
    + unfold cframe. cbn [st_h s_h s_c s_r]. fold h. csplit; auto. lia.
    + split.
      * eapply FL_move; try eassumption; [lia|left; reflexivity].
      * intros l' E. injection E as <-. exact Hli.
  - unfold new_node, halloc in Hclose. cbn [st_h s_h s_c s_r] in Hclose. fold h in Hclose.
    bind_inv Hclose y Hy. bind_inv Hy ha Hi. injection Hy as <-. cbn [st_h s_h s_c s_r] in Hclose.
    bind_inv Hclose h1 Hr. bind_inv Hclose h2 Ha. injection Hclose as <-.
    cbn [bf_s bf_list st_h s_h s_c s_r]. set (l := length h) in *.
    pose proof (nth_some_lt _ _ _ En) as Hlt1. pose proof (nth_some_lt _ _ _ Ep) as Hlt2.
    assert (nth_error h l = None) as Enl by (apply nth_error_None; unfold l; lia).
    assert (~ In l (ids (A ++ D ++ N))) as Hli.
    { intros H. apply in_ids_inv in H. destruct H as [bp H].
      destruct (CC SInv_entry fl s A D N l bp HSI1 H) as [m [_ [_ Hm]]]. fold h in Hm. unfold l in Hm. lia. }
    destruct (move_new_spec h p node n np (mknode BBlockquote fn_list) ha h1 h2 En Pn Ep Hnp eq_refl eq_refl Hi Hr Ha)
      as [Hlen [E2c [E2p [E2l E2o]]]]. fold l in Hlen, E2c, E2p, E2l, E2o.
    assert (Mv h h2 p node l n np (set_ch (set_par (mknode BBlockquote fn_list) (Some p)) [node])
               (remove_id node (insert_before_id node l (bch np)))) as HM.
    { unfold Mv. csplit; auto; try lia.
      apply cp_ok_new; auto; [eapply hs_nd; eassumption|].
      intros Hin. destruct (hs_K _ _ _ HS p np l Ep Hin) as [m [Em _]]. congruence. }
    csplit.
    + split; [exact HR|]. cbn [st_h s_h s_c s_r]. eapply HI_move; try eassumption. lia.
    + unfold cframe. cbn [st_h s_h s_c s_r]. fold h. csplit; auto. lia.
    + split.
      * eapply FL_move; try eassumption; [lia|right; auto].
      * intros l' E. injection E as <-. exact Hli.
Qed.

End C.
