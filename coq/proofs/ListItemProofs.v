(* C02 / C08: the list-item arithmetic of parser/list.go and list_item.go (model/ListItem.v)
   depends on the blanks after the marker only through the columns they span: a gap written
   with tabs reaching the same column as a gap written with blanks gives the same item. *)
Require Import GM.model.Base GM.model.Util GM.model.Reader GM.model.Blocks GM.model.ListItem.
Require Import GM.proofs.SpecMechProofs.
From Coq Require Import ZArith Lia ZifyBool ZifyNat ZifyN.
Open Scope Z_scope.

Definition is_digit (c : N) : bool := (N.leb 48 c && N.leb c 57)%bool.
(* a bullet, or one to nine digits followed by '.' or ')' *)
Definition marker_ok (mk : bytes) : bool :=
  match mk with
  | [c] => (N.eqb c 45 || N.eqb c 42 || N.eqb c 43)%bool
  | _ => match rev mk with
         | d :: rds => ((N.eqb d 46 || N.eqb d 41) && negb (Nat.eqb (length rds) 0) && Nat.leb (length rds) 9 && forallb is_digit rds)%bool
         | [] => false
         end
  end.
(* the columns spanned by the gap when the marker ends at column col *)
Definition gap_width (gap : bytes) (col : Z) : Z := expanded_width gap col - col.

(* ---- auxiliary list / arithmetic facts ---- *)
Lemma li_zlen_app {A} (a b : list A) : zlen (a ++ b) = zlen a + zlen b.
Proof. unfold zlen. rewrite app_length. lia. Qed.
Lemma li_zlen_cons {A} (x : A) (l : list A) : zlen (x :: l) = 1 + zlen l.
Proof. unfold zlen. cbn [length]. lia. Qed.
Lemma li_zlen_nil {A} : zlen (@nil A) = 0.
Proof. reflexivity. Qed.
Lemma li_zlen_repeat {A} (x : A) n : zlen (repeat x n) = Z.of_nat n.
Proof. unfold zlen. rewrite repeat_length. reflexivity. Qed.
Lemma li_zlen_nonneg {A} (l : list A) : 0 <= zlen l.
Proof. unfold zlen. lia. Qed.
Lemma li_zlen_pos {A} (l : list A) : l <> [] -> 1 <= zlen l.
Proof. destruct l as [|x l]; [congruence|]. intros _. rewrite li_zlen_cons. pose proof (li_zlen_nonneg l). lia. Qed.

Lemma li_zskip_app {A} (pre x : list A) n : n = zlen pre -> zskip n (pre ++ x) = x.
Proof.
  intros ->. unfold zskip, zlen. rewrite Nat2Z.id.
  rewrite skipn_app, skipn_all, Nat.sub_diag. reflexivity.
Qed.
Lemma li_nth_byte_app (pre : bytes) x r n : n = zlen pre -> nth_byte (pre ++ x :: r) n = x.
Proof. intros ->. unfold nth_byte, zlen. rewrite Nat2Z.id. apply nth_middle. Qed.

Lemma li_tabw_ge1 col : 1 <= 4 - col mod 4.
Proof. pose proof (Z.mod_pos_bound col 4 ltac:(lia)) as Hm. lia. Qed.

Lemma li_expanded_width_ge ws : all_ws ws -> forall col, col + zlen ws <= expanded_width ws col.
Proof.
  intros Hws. induction Hws as [|d ws Hd Hws IH]; intros col.
  - cbn [expanded_width]. rewrite li_zlen_nil. lia.
  - cbn [expanded_width]. rewrite li_zlen_cons.
    destruct (N.eqb_spec d 32) as [_|N32].
    + specialize (IH (col + 1)). lia.
    + destruct (N.eqb_spec d 9) as [_|N9].
      * specialize (IH (col + (4 - col mod 4))). pose proof (li_tabw_ge1 col) as Ht. lia.
      * exfalso. destruct Hd as [Hd|Hd]; contradiction.
Qed.

Lemma li_gap_width_ge1 gap col : all_ws gap -> gap <> [] -> 1 <= gap_width gap col.
Proof.
  intros Hws Hne. unfold gap_width.
  pose proof (li_expanded_width_ge gap Hws col) as Hge. pose proof (li_zlen_pos gap Hne) as Hp. lia.
Qed.

(* ---- T1 auxiliaries ---- *)
Definition is_bullet (c : N) : bool := (N.eqb c 45 || N.eqb c 42 || N.eqb c 43)%bool.

Lemma li_count_blanks_repeat n x r : x <> 32%N -> count_blanks (repeat 32%N n ++ x :: r) = Z.of_nat n.
Proof.
  intros Hx. induction n as [|n IH].
  - cbn [repeat app count_blanks]. destruct (N.eqb_spec x 32) as [E|_]; [contradiction|reflexivity].
  - cbn [repeat app count_blanks]. rewrite IH. change (N.eqb 32 32) with true. cbv iota. lia.
Qed.

Lemma li_count_digits_app ds d r : forallb is_digit ds = true -> is_digit d = false ->
  count_digits (ds ++ d :: r) = zlen ds.
Proof.
  intros Hds Hd. induction ds as [|a ds IH].
  - cbn [app count_digits]. unfold is_digit in Hd. rewrite Hd. reflexivity.
  - cbn [forallb] in Hds. apply andb_prop in Hds. destruct Hds as [Ha Hds].
    cbn [app count_digits]. unfold is_digit in Ha. rewrite Ha. rewrite (IH Hds). rewrite li_zlen_cons. reflexivity.
Qed.

Lemma li_marker_ok_cases mk : marker_ok mk = true ->
  (exists b, mk = [b] /\ is_bullet b = true) \/
  (exists ds d, mk = ds ++ [d] /\ ds <> [] /\ (length ds <= 9)%nat /\ forallb is_digit ds = true /\
                (d = 46%N \/ d = 41%N) /\ Nat.eqb (length mk) 1 = false).
Proof.
  intros H. destruct mk as [|a [|b mk']].
  - cbv in H. discriminate.
  - left. exists a. split; [reflexivity|exact H].
  - right. unfold marker_ok in H.
    destruct (rev (a :: b :: mk')) as [|d rds] eqn:E; [discriminate|].
    apply andb_prop in H. destruct H as [H Hdig].
    apply andb_prop in H. destruct H as [H Hle].
    apply andb_prop in H. destruct H as [Hd Hne].
    assert (Emk : a :: b :: mk' = rev rds ++ [d]).
    { rewrite <- (rev_involutive (a :: b :: mk')). rewrite E. reflexivity. }
    exists (rev rds), d. split; [exact Emk|]. split.
    + intros Hnil. apply (f_equal (@length N)) in Hnil. rewrite rev_length in Hnil. cbn [length] in Hnil.
      rewrite Hnil in Hne. cbn in Hne. discriminate.
    + split; [rewrite rev_length; apply Nat.leb_le; exact Hle|]. split.
      * apply forallb_forall. intros x Hx. apply in_rev in Hx.
        rewrite forallb_forall in Hdig. apply Hdig. exact Hx.
      * split; [|reflexivity].
        apply orb_prop in Hd. destruct Hd as [Hd|Hd]; apply N.eqb_eq in Hd; [left|right]; exact Hd.
Qed.

Lemma li_tail_ok (line pre gap rest : bytes) (c : N) (ind i : Z) (typ : N) :
  all_ws gap -> gap <> [] -> c <> 32%N -> c <> 9%N ->
  line = pre ++ gap ++ c :: rest -> i = zlen pre ->
  parse_list_item_tail line ind i typ =
    ({| m1 := ind; m2 := ind; m3 := i; m4 := i;
        m5 := if N.eqb (nth_byte line (zlen line - 1)) 10 then zlen line - 1 else zlen line |}, typ).
Proof.
  intros Hws Hne H32 H9 Hline Hi.
  assert (Hlen : zlen line = zlen pre + zlen gap + 1 + zlen rest).
  { rewrite Hline. rewrite !li_zlen_app, li_zlen_cons. lia. }
  pose proof (li_zlen_pos gap Hne) as Hgp. pose proof (li_zlen_nonneg rest) as Hrp.
  pose proof (li_zlen_nonneg pre) as Hpp.
  unfold parse_list_item_tail.
  assert (Hskip : zskip i line = gap ++ c :: rest).
  { rewrite Hline. apply li_zskip_app. exact Hi. }
  rewrite Hskip.
  rewrite (indent_width_is_expanded_width gap c rest 0 Hws H32 H9 (Z.le_refl 0)). cbn [fst].
  pose proof (li_expanded_width_ge gap Hws 0) as Hge.
  assert (Hnth : N.eqb (nth_byte line i) 10 = false).
  { destruct gap as [|g gap']; [congruence|].
    rewrite Hline. cbn [app]. rewrite (li_nth_byte_app pre g _ i Hi).
    apply N.eqb_neq. inversion Hws as [|g0 l0 Hg Hrest]; subst g0 l0.
    destruct Hg as [Hg|Hg]; rewrite Hg; discriminate. }
  rewrite Hnth.
  destruct (Z.eqb_spec (expanded_width gap 0 - 0) 0) as [E0|_]; [lia|].
  rewrite andb_false_r.
  destruct (Z.leb_spec (zlen line) i) as [Hli|_]; [lia|].
  rewrite andb_true_r. reflexivity.
Qed.

Lemma li_bullet_not_blank b : is_bullet b = true -> b <> 32%N.
Proof. intros H E. subst b. cbv in H. discriminate. Qed.

Lemma li_digit_not_blank b : is_digit b = true -> b <> 32%N.
Proof. intros H E. subst b. cbv in H. discriminate. Qed.

Lemma li_digit_not_bullet b : is_digit b = true -> is_bullet b = false.
Proof.
  intros H. unfold is_digit in H. apply andb_prop in H. destruct H as [H1 H2].
  apply N.leb_le in H1. unfold is_bullet.
  destruct (N.eqb_spec b 45) as [E|_]; [lia|].
  destruct (N.eqb_spec b 42) as [E|_]; [lia|].
  destruct (N.eqb_spec b 43) as [E|_]; [lia|]. reflexivity.
Qed.

Lemma li_parse_bullet (ind : nat) (b : N) (tl : bytes) : (ind <= 3)%nat -> is_bullet b = true ->
  parse_list_item (repeat 32%N ind ++ b :: tl) =
  parse_list_item_tail (repeat 32%N ind ++ b :: tl) (Z.of_nat ind) (Z.of_nat ind + 1) 1%N.
Proof.
  intros Hind Hb. unfold parse_list_item.
  rewrite (li_count_blanks_repeat ind b tl (li_bullet_not_blank b Hb)).
  rewrite (li_nth_byte_app (repeat 32%N ind) b tl (Z.of_nat ind) (eq_sym (li_zlen_repeat 32%N ind))).
  rewrite li_zlen_app, li_zlen_repeat, li_zlen_cons. pose proof (li_zlen_nonneg tl) as Htl.
  destruct (Z.ltb_spec 3 (Z.of_nat ind)) as [H3|_]; [lia|].
  destruct (Z.leb_spec (Z.of_nat ind + (1 + zlen tl)) (Z.of_nat ind)) as [Hl|_]; [lia|].
  unfold is_bullet in Hb. rewrite Hb. reflexivity.
Qed.

Lemma li_parse_ordered (ind : nat) (ds : bytes) (d : N) (tl : bytes) :
  (ind <= 3)%nat -> ds <> [] -> (length ds <= 9)%nat -> forallb is_digit ds = true -> (d = 46%N \/ d = 41%N) ->
  parse_list_item (repeat 32%N ind ++ ds ++ d :: tl) =
  parse_list_item_tail (repeat 32%N ind ++ ds ++ d :: tl) (Z.of_nat ind) (Z.of_nat ind + zlen ds + 1) 2%N.
Proof.
  intros Hind Hne Hlen Hds Hd.
  assert (Hdnd : is_digit d = false) by (destruct Hd as [Hd|Hd]; rewrite Hd; reflexivity).
  pose proof (li_zlen_pos ds Hne) as Hdp. pose proof (li_zlen_nonneg tl) as Htl.
  assert (Hd9 : zlen ds <= 9) by (unfold zlen; lia).
  unfold parse_list_item.
  assert (Hcb : count_blanks (repeat 32%N ind ++ ds ++ d :: tl) = Z.of_nat ind).
  { destruct ds as [|a ds']; [congruence|]. cbn [app]. apply li_count_blanks_repeat.
    cbn [forallb] in Hds. apply andb_prop in Hds. apply li_digit_not_blank. apply Hds. }
  rewrite Hcb.
  assert (Hl : zlen (repeat 32%N ind ++ ds ++ d :: tl) = Z.of_nat ind + zlen ds + 1 + zlen tl).
  { rewrite !li_zlen_app, li_zlen_repeat, li_zlen_cons. lia. }
  rewrite Hl.
  destruct (Z.ltb_spec 3 (Z.of_nat ind)) as [H3|_]; [lia|].
  destruct (Z.leb_spec (Z.of_nat ind + zlen ds + 1 + zlen tl) (Z.of_nat ind)) as [Hli|_]; [lia|].
  assert (Hfirst : is_bullet (nth_byte (repeat 32%N ind ++ ds ++ d :: tl) (Z.of_nat ind)) = false).
  { destruct ds as [|a ds']; [congruence|]. cbn [app].
    rewrite (li_nth_byte_app (repeat 32%N ind) a _ (Z.of_nat ind) (eq_sym (li_zlen_repeat 32%N ind))).
    cbn [forallb] in Hds. apply andb_prop in Hds. apply li_digit_not_bullet. apply Hds. }
  unfold is_bullet in Hfirst. rewrite Hfirst.
  rewrite (li_zskip_app (repeat 32%N ind) (ds ++ d :: tl) (Z.of_nat ind) (eq_sym (li_zlen_repeat 32%N ind))).
  rewrite (li_count_digits_app ds d tl Hds Hdnd).
  destruct (Z.eqb_spec (zlen ds) 0) as [E0|_]; [lia|].
  destruct (Z.ltb_spec 9 (zlen ds)) as [E9|_]; [lia|]. cbn [orb].
  destruct (Z.ltb_spec (Z.of_nat ind + zlen ds) (Z.of_nat ind + zlen ds + 1 + zlen tl)) as [_|Hj]; [|lia].
  assert (Hnth : nth_byte (repeat 32%N ind ++ ds ++ d :: tl) (Z.of_nat ind + zlen ds) = d).
  { rewrite app_assoc. apply li_nth_byte_app. rewrite li_zlen_app, li_zlen_repeat. reflexivity. }
  rewrite Hnth.
  assert (Hdd : (N.eqb d 46 || N.eqb d 41)%bool = true) by (destruct Hd as [Hd|Hd]; rewrite Hd; reflexivity).
  rewrite Hdd. reflexivity.
Qed.

(* ---- T4 auxiliary: the IndentPosition loop over a gap ---- *)
Lemma li_ip_loop gap c rest cur width : all_ws gap -> c <> 32%N -> c <> 9%N -> forall w i,
  expanded_width gap (cur + w) - cur <= width ->
  indent_position_loop (gap ++ c :: rest) cur w i 0 width = (expanded_width gap (cur + w) - cur, i + zlen gap).
Proof.
  intros Hws H32 H9. induction Hws as [|d ws Hd Hws IH]; intros w i Hw.
  - cbn [app indent_position_loop expanded_width].
    change (0 <? 0) with false. cbv iota.
    destruct (N.eqb_spec c 9) as [E|_]; [contradiction|].
    destruct (N.eqb_spec c 32) as [E|_]; [contradiction|].
    cbn [andb]. rewrite li_zlen_nil. f_equal; lia.
  - cbn [app indent_position_loop]. change (0 <? 0) with false. cbv iota.
    cbn [expanded_width] in Hw |- *. rewrite li_zlen_cons.
    destruct Hd as [Hd|Hd]; subst d.
    + change (N.eqb 32 9) with false. change (N.eqb 32 32) with true in Hw |- *. cbn [andb]. cbv iota in Hw |- *.
      pose proof (li_expanded_width_ge ws Hws (cur + w + 1)) as Hge. pose proof (li_zlen_nonneg ws) as Hp.
      destruct (Z.ltb_spec w width) as [_|Hnlt]; [|lia].
      replace (cur + w + 1) with (cur + (w + 1)) in Hw |- * by lia.
      rewrite (IH (w + 1) (i + 1) Hw). f_equal. lia.
    + change (N.eqb 9 9) with true in Hw |- *. change (N.eqb 9 32) with false in Hw |- *. cbn [andb]. cbv iota in Hw |- *.
      pose proof (li_expanded_width_ge ws Hws (cur + w + (4 - (cur + w) mod 4))) as Hge.
      pose proof (li_zlen_nonneg ws) as Hp. pose proof (li_tabw_ge1 (cur + w)) as Ht.
      destruct (Z.ltb_spec w width) as [_|Hnlt]; [|lia].
      unfold tab_width.
      replace (cur + w + (4 - (cur + w) mod 4)) with (cur + (w + (4 - (cur + w) mod 4))) in Hw |- * by lia.
      rewrite (IH (w + (4 - (cur + w) mod 4)) (i + 1) Hw). f_equal. lia.
Qed.

Section WithTables.
Variable space_table : list N.
Hypothesis blank_is_space : is_space space_table 32%N = true.
Hypothesis tab_is_space : is_space space_table 9%N = true.

(* T1: what parseListItem finds on a marker line *)
Theorem parse_list_item_marker (ind : nat) (mk gap rest : bytes) (c : N) :
  (ind <= 3)%nat -> marker_ok mk = true -> all_ws gap -> gap <> [] -> c <> 32%N -> c <> 9%N -> c <> 10%N ->
  let line := repeat 32%N ind ++ mk ++ gap ++ c :: rest in
  let i := Z.of_nat ind + zlen mk in
  parse_list_item line =
    ({| m1 := Z.of_nat ind; m2 := Z.of_nat ind; m3 := i; m4 := i;
        m5 := if N.eqb (nth_byte line (zlen line - 1)) 10 then zlen line - 1 else zlen line |},
     if Nat.eqb (length mk) 1 then 1%N else 2%N).
Proof.
  intros Hind Hmk Hws Hne H32 H9 H10 line i.
  destruct (li_marker_ok_cases mk Hmk) as [[b [Emk Hb]]|[ds [d [Emk [Hdne [Hdlen [Hds [Hd Hlen1]]]]]]]].
  - subst mk. cbn [length Nat.eqb].
    assert (Eline : line = repeat 32%N ind ++ b :: gap ++ c :: rest) by reflexivity.
    rewrite Eline. rewrite (li_parse_bullet ind b _ Hind Hb). rewrite <- Eline.
    assert (Ei : Z.of_nat ind + 1 = i) by (unfold i; rewrite li_zlen_cons, li_zlen_nil; lia).
    rewrite Ei.
    apply (li_tail_ok line (repeat 32%N ind ++ [b]) gap rest c (Z.of_nat ind) i 1%N Hws Hne H32 H9).
    + unfold line. rewrite <- app_assoc. reflexivity.
    + unfold i. rewrite li_zlen_app, li_zlen_repeat. reflexivity.
  - rewrite Hlen1.
    assert (Eline : line = repeat 32%N ind ++ ds ++ d :: gap ++ c :: rest).
    { unfold line. rewrite Emk. rewrite <- app_assoc. reflexivity. }
    rewrite Eline. rewrite (li_parse_ordered ind ds d _ Hind Hdne Hdlen Hds Hd). rewrite <- Eline.
    assert (Ei : Z.of_nat ind + zlen ds + 1 = i).
    { unfold i. rewrite Emk, li_zlen_app, li_zlen_cons, li_zlen_nil. lia. }
    rewrite Ei.
    apply (li_tail_ok line (repeat 32%N ind ++ mk) gap rest c (Z.of_nat ind) i 2%N Hws Hne H32 H9).
    + unfold line. rewrite <- app_assoc. reflexivity.
    + unfold i. rewrite li_zlen_app, li_zlen_repeat. reflexivity.
Qed.

(* T2: the content offset is the width of the gap in columns (one, when the gap is wider than
   four columns: the rest is indented code) *)
Theorem calc_list_offset_columns (pre gap rest : bytes) (c : N) (m : lmatch) (off : Z) :
  all_ws gap -> gap <> [] -> c <> 32%N -> c <> 9%N -> is_space space_table c = false ->
  m4 m = zlen pre -> 0 <= off ->
  calc_list_offset space_table (pre ++ gap ++ c :: rest) m off =
    (let g := gap_width gap (off + zlen pre) in if 4 <? g then 1 else g).
Proof.
  intros Hws Hne H32 H9 Hsp Hm Hoff.
  unfold calc_list_offset. rewrite Hm.
  rewrite (li_zskip_app pre (gap ++ c :: rest) (zlen pre) eq_refl).
  pose proof (li_zlen_nonneg pre) as Hpp.
  destruct (Z.ltb_spec (zlen pre) 0) as [Hneg|_]; [lia|]. cbn [orb].
  assert (Hbl : is_blank space_table (gap ++ c :: rest) = false).
  { unfold is_blank. rewrite forallb_app. cbn [forallb]. rewrite Hsp. cbn [andb]. apply andb_false_r. }
  rewrite Hbl.
  rewrite (indent_width_is_expanded_width gap c rest (off + zlen pre) Hws H32 H9 ltac:(lia)).
  cbn [fst]. unfold gap_width. reflexivity.
Qed.

(* T3: the same item offset for any two spellings of the gap that span the same columns *)
Theorem list_item_offset_spelling_independent (pre gap1 gap2 rest : bytes) (c : N) (m : lmatch) (off : Z) :
  all_ws gap1 -> gap1 <> [] -> all_ws gap2 -> gap2 <> [] -> c <> 32%N -> c <> 9%N -> is_space space_table c = false ->
  m4 m = zlen pre -> 0 <= off ->
  gap_width gap1 (off + zlen pre) = gap_width gap2 (off + zlen pre) ->
  calc_list_offset space_table (pre ++ gap1 ++ c :: rest) m off = calc_list_offset space_table (pre ++ gap2 ++ c :: rest) m off.
Proof.
  intros Hws1 Hne1 Hws2 Hne2 H32 H9 Hsp Hm Hoff Hgw.
  rewrite (calc_list_offset_columns pre gap1 rest c m off Hws1 Hne1 H32 H9 Hsp Hm Hoff).
  rewrite (calc_list_offset_columns pre gap2 rest c m off Hws2 Hne2 H32 H9 Hsp Hm Hoff).
  cbv zeta. rewrite Hgw. reflexivity.
Qed.

(* T4: with a gap of at most four columns IndentPosition consumes exactly the gap and leaves no padding *)
Theorem indent_position_consumes_gap (gap rest : bytes) (c : N) (cur : Z) :
  all_ws gap -> gap <> [] -> c <> 32%N -> c <> 9%N -> 0 <= cur ->
  gap_width gap cur <= 4 ->
  indent_position (gap ++ c :: rest) cur (gap_width gap cur) = (zlen gap, 0).
Proof.
  intros Hws Hne H32 H9 Hcur Hle4.
  pose proof (li_gap_width_ge1 gap cur Hws Hne) as Hge1.
  unfold indent_position, indent_position_padding.
  destruct (Z.eqb_spec (gap_width gap cur) 0) as [E0|_]; [lia|].
  assert (Hw : expanded_width gap (cur + 0) - cur <= gap_width gap cur).
  { rewrite Z.add_0_r. unfold gap_width. lia. }
  rewrite (li_ip_loop gap c rest cur (gap_width gap cur) Hws H32 H9 0 0 Hw).
  rewrite Z.add_0_r. fold (gap_width gap cur).
  rewrite Z.leb_refl. f_equal; lia.
Qed.

(* T5: with a wider gap (indented code follows) exactly one column belongs to the marker: the
   first blank is consumed, and what is left of a tab becomes padding *)
Theorem indent_position_code_gap (g : N) (gap rest : bytes) (cur : Z) :
  (g = 32%N \/ g = 9%N) -> 0 <= cur ->
  indent_position (g :: gap ++ rest) cur 1 = (1, if N.eqb g 9 then tab_width cur - 1 else 0).
Proof.
  intros Hg Hcur.
  unfold indent_position, indent_position_padding.
  change (1 =? 0) with false. cbv iota.
  pose proof (li_tabw_ge1 (cur + 0)) as Ht.
  destruct Hg as [Hg|Hg]; subst g.
  - cbn [indent_position_loop]. change (0 <? 0) with false. cbv iota.
    change (N.eqb 32 9) with false. change (N.eqb 32 32) with true. change (0 <? 1) with true. cbn [andb].
    change (0 + 1) with 1.
    assert (Hloop : forall l, indent_position_loop l cur 1 1 0 1 = (1, 1)).
    { intros l. destruct l as [|x l]; [reflexivity|]. cbn [indent_position_loop].
      change (0 <? 0) with false. change (1 <? 1) with false. rewrite !andb_false_r. reflexivity. }
    rewrite Hloop. reflexivity.
  - cbn [indent_position_loop]. change (0 <? 0) with false. cbv iota.
    change (N.eqb 9 9) with true. change (0 <? 1) with true. cbn [andb].
    change (0 + 1) with 1. unfold tab_width in *.
    assert (Hloop : forall l w, 1 <= w -> indent_position_loop l cur w 1 0 1 = (w, 1)).
    { intros l w Hw1. destruct l as [|x l]; [reflexivity|]. cbn [indent_position_loop].
      change (0 <? 0) with false. cbv iota.
      destruct (Z.ltb_spec w 1) as [Hlt|_]; [lia|]. rewrite !andb_false_r. reflexivity. }
    rewrite (Hloop _ (0 + (4 - (cur + 0) mod 4))) by lia.
    destruct (Z.leb_spec 1 (0 + (4 - (cur + 0) mod 4))) as [_|Hlt]; [|lia].
    rewrite Z.add_0_r. f_equal; lia.
Qed.
End WithTables.
