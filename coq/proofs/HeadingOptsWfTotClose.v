(* Fork of ParseBlocksTotalClose.v for the heading-options model: p_close_h for all parsers, closeBlocks
   (close_rangeH, close_blocksH) under the state invariant SI (hx_s x), with the frame the drivers need.
   ReadyLeaf has two more conjuncts (as LastOK of HeadingOptsWfTotShape.v). *)
Require Import GM.model.Base GM.model.Util GM.model.Reader GM.model.ReaderSpec GM.model.Blocks GM.model.ListItem
               GM.model.LeafBlocks GM.model.CodeBlock GM.model.LinkDest GM.model.Regex GM.model.BlockParse
               GM.model.HtmlWriter GM.model.Html GM.model.Attr GM.model.Ids GM.model.HeadingOpts.
Require Import GM.proofs.ReaderProofs GM.proofs.BlocksProofs
               GM.proofs.ParseBlocksTotalReader GM.proofs.ParseBlocksTotalDefs GM.proofs.ParseBlocksTotalSpec
               GM.proofs.ParseBlocksTotalSt GM.proofs.HeadingOptsWfTotShape GM.proofs.ParseBlocksTotalLeaf2 GM.proofs.ParseBlocksTotalCont
               GM.proofs.ParseBlocksTotalTransform GM.proofs.HeadingOptsWfAttr
               GM.proofs.HeadingOptsWfTotOpsCG GM.proofs.HeadingOptsWfTotOpsC.
Require GM.proofs.ParseBlocksTotalClose.
From Coq Require Import ZArith Lia List Bool.
Open Scope Z_scope.

(* ---------- the accumulated frame of closing steps ---------- *)
Definition CFrame (D : nat -> bnode -> Prop) (C : nat -> Prop) (h h' : heap) : Prop :=
  (length h <= length h')%nat /\
  forall j n, nth_error h j = Some n -> exists n', nth_error h' j = Some n' /\ bk n' = bk n /\
    (~ C j -> blines n' = blines n) /\ (bk n = BList -> bch n' = bch n) /\
    (bpar n' = bpar n \/ (bk n = BParagraph /\ D j n)).

Lemma CFrame_refl D C h : CFrame D C h h.
Proof. split; [lia|]. intros j n H. exists n. csplit; auto. Qed.

Lemma CFrame_weaken (D D' : nat -> bnode -> Prop) (C C' : nat -> Prop) h h' :
  CFrame D C h h' -> (forall j n, D j n -> D' j n) -> (forall j, C j -> C' j) -> CFrame D' C' h h'.
Proof.
  intros [L H] HD HC. split; [exact L|]. intros j n Hj. destruct (H j n Hj) as [n' (A1 & A2 & A3 & A4 & A5)].
  exists n'. csplit; auto. destruct A5 as [A5|[A5 A6]]; auto.
Qed.

Lemma CFrame_trans (D1 D2 D3 : nat -> bnode -> Prop) (C1 C2 C3 : nat -> Prop) h h1 h2 :
  CFrame D1 C1 h h1 -> CFrame D2 C2 h1 h2 ->
  (forall j n, D1 j n -> D3 j n) ->
  (forall j n n1, nth_error h j = Some n -> nth_error h1 j = Some n1 -> bk n1 = bk n -> bpar n1 = bpar n ->
                  D2 j n1 -> D3 j n) ->
  (forall j, C1 j -> C3 j) -> (forall j, C2 j -> C3 j) ->
  CFrame D3 C3 h h2.
Proof.
  intros [L1 H1] [L2 H2] HD1 HD2 HC1 HC2. split; [lia|]. intros j n Hj.
  destruct (H1 j n Hj) as [n1 (A1 & A2 & A3 & A4 & A5)].
  destruct (H2 j n1 A1) as [n2 (B1 & B2 & B3 & B4 & B5)].
  exists n2. csplit.
  - exact B1.
  - congruence.
  - intros NC. rewrite B3, A3; auto.
  - intros K. rewrite B4, A4; congruence.
  - destruct A5 as [A5|[A5 A6]].
    + destruct B5 as [B5|[B5 B6]]; [left; congruence|]. right. split; [congruence|]. eapply HD2; eauto.
    + right. split; [exact A5|]. apply HD1, A6.
Qed.

Section S.
Variable hc : hcfg.
Variable space_table punct_table : list N.
Variable norm : bytes -> bytes.
Variable re_t1o re_t1c re_t2 re_t3 re_t4 re_t5 re_t6 re_t7 : re.
Variable allowed_tags : list bytes.
Variable utf8len_table : list N.
Variable spaces : bytes.
Variable src : bytes.
Hypothesis tbl : TblOK space_table.
Hypothesis attr_total : AttrTotal space_table punct_table.
Notation SI := (SI space_table src).
Notation close_post := (close_post space_table src).
Notation olineE := (olineE src).
Notation pad0 := (fun sg : seg => s_pad sg = 0).
Notation PCH := (p_close_h hc space_table punct_table utf8len_table spaces).

(* Close of every parser of the heading-options model *)
Lemma p_close_h_ok bp x node n : SI (hx_s x) -> nth_error (s_h (hx_s x)) node = Some n -> bk n = kind_of_parser bp ->
  bpar n <> None ->
  (bp = PFenced -> c_fence (s_c (hx_s x)) <> None) ->
  (bp = PSetext -> blines n <> [] /\ c_tmp_para (s_c (hx_s x)) <> None) ->
  (bp = PATX -> Forall olineE (blines n)) ->
  (bp = PSetext -> forall t tn, c_tmp_para (s_c (hx_s x)) = Some t -> nth_error (s_h (hx_s x)) t = Some tn ->
                   Forall pad0 (blines tn)) ->
  exists x', PCH bp x node = Ok x' /\ close_post bp node (hx_s x) (hx_s x') /\
             bch_frame (close_bch bp node (hx_s x)) (s_h (hx_s x)) (s_h (hx_s x')).
Proof.
  intros HS Hn Hk Hp Hf Hsx Hatx Hpad.
  assert (Hgen : bp <> PATX -> bp <> PSetext ->
            exists x', PCH bp x node = Ok x' /\ close_post bp node (hx_s x) (hx_s x') /\
                       bch_frame (close_bch bp node (hx_s x)) (s_h (hx_s x)) (s_h (hx_s x'))).
  { intros N1 N2.
    destruct (ParseBlocksTotalClose.p_close_ok space_table punct_table norm re_t1o re_t1c re_t2 re_t3 re_t4 re_t5 re_t6 re_t7
                allowed_tags src tbl bp (hx_s x) node n HS Hn Hk Hp Hf Hsx) as [s' (E & P)].
    assert (Eh : PCH bp x node = hlift0 x (p_close space_table bp (hx_s x) node)) by (destruct bp; try reflexivity; contradiction).
    rewrite Eh. unfold hlift0. rewrite E. cbn [bind]. exists (sth_s x s'). cbn [sth_s hx_s]. split; [reflexivity|]. split; [exact P|].
    exact (p_close_bch space_table punct_table norm re_t1o re_t1c re_t2 re_t3 re_t4 re_t5 re_t6 re_t7 allowed_tags src tbl
             bp (hx_s x) node n s' HS Hn Hk Hp Hf Hsx E). }
  destruct bp; try (apply Hgen; discriminate).
  - cbn [p_close_h]. destruct (Hsx eq_refl) as [A B].
    exact (setext_close_h_ok hc space_table punct_table norm re_t1o re_t1c re_t2 re_t3 re_t4 re_t5 re_t6 re_t7 allowed_tags
             utf8len_table spaces src tbl attr_total x node n HS Hn Hk A B Hp (Hpad eq_refl)).
  - cbn [p_close_h].
    destruct (atx_close_h_ok hc space_table punct_table norm utf8len_table spaces src attr_total x node HS) as [x' (E & L & _)].
    { exists n. csplit; auto. }
    exists x'. split; [exact E|]. split; [apply (LStep_close_post space_table norm src); assumption|].
    destruct L as (_ & _ & _ & _ & B). eapply bch_frame_weaken; [exact B|]. intros j a b [].
Qed.

(* what the top block of a closing range needs from the context (NEW: the last two conjuncts) *)
Definition ReadyLeaf (s : st) (node : nat) (p : bparser) : Prop :=
  (p = PFenced -> c_fence (s_c s) <> None) /\
  (p = PSetext -> c_tmp_para (s_c s) <> None /\
                  forall n, nth_error (s_h s) node = Some n -> bpar n <> None -> blines n <> []) /\
  (p = PATX -> forall n, nth_error (s_h s) node = Some n -> Forall olineE (blines n)) /\
  (p = PSetext -> forall t tn, c_tmp_para (s_c s) = Some t -> nth_error (s_h s) t = Some tn ->
                  Forall pad0 (blines tn)).

(* which old paragraphs one closing step may detach *)
Definition Dstep (s : st) (node : nat) (p : bparser) (j : nat) (n : bnode) : Prop :=
  j = node \/ (p = PSetext /\ c_tmp_para (s_c s) = Some j) \/
  (p = PList /\ exists c ln, bpar n = Some c /\ nth_error (s_h s) node = Some ln /\ In c (bch ln)).

(* (fork) how one closing step may change the child lists of the old nodes *)
Definition Bstep (s : st) (node : nat) (p : bparser) (j : nat) (n n' : bnode) : Prop :=
  (p = PParagraph /\ exists Qn, nth_error (s_h s) node = Some Qn /\ bpar Qn = Some j) \/
  (p = PSetext /\ exists tmp, c_tmp_para (s_c s) = Some tmp /\ bch n' = remove_id tmp (bch n)) \/
  (p = PList /\ exists ln, nth_error (s_h s) node = Some ln /\ In j (bch ln)).

Definition ctx_after_close (s s' : st) (node : nat) (p : bparser) : Prop :=
  cframe (s_c s) (s_c s') /\
  (p <> PFenced -> c_fence (s_c s') = c_fence (s_c s)) /\
  (forall ch ind fl nd, c_fence (s_c s) = Some (ch, ind, fl, nd) -> nd <> node -> c_fence (s_c s') = c_fence (s_c s)) /\
  (p <> PSetext -> c_tmp_para (s_c s') = c_tmp_para (s_c s)).

Definition close_step (x : sth) (node : nat) (p : bparser) : result sth :=
  isp <- is_paragraph (s_h (hx_s x)) node ;;
  att <- attached (s_h (hx_s x)) node ;;
  x <- (if isp && att then (y <- transform_paragraph space_table punct_table norm (hx_s x) node ;; Ok (sth_s x (fst y))) else Ok x) ;;
  att <- attached (s_h (hx_s x)) node ;;
  (if att then PCH p x node else Ok x).

Lemma cframe_refl c : cframe c c.
Proof. unfold cframe. auto. Qed.
Lemma cframe_trans a b c : cframe a b -> cframe b c -> cframe a c.
Proof. unfold cframe. intros (A1 & A2 & A3 & A4) (B1 & B2 & B3 & B4). csplit; congruence. Qed.

Lemma kind_para_parser p : kind_of_parser p = BParagraph -> p = PParagraph.
Proof. destruct p; cbn; congruence. Qed.

Lemma close_step_ok x node p : SI (hx_s x) -> In (node, p) (c_arr (s_c (hx_s x))) -> ReadyLeaf (hx_s x) node p ->
  exists x', close_step x node p = Ok x' /\ SI (hx_s x') /\ s_r (hx_s x') = s_r (hx_s x) /\
             ctx_after_close (hx_s x) (hx_s x') node p /\
             CFrame (Dstep (hx_s x) node p) (fun j => j = node) (s_h (hx_s x)) (s_h (hx_s x')) /\
             bch_frame (Bstep (hx_s x) node p) (s_h (hx_s x)) (s_h (hx_s x')).
Proof.
  set (s := hx_s x).
  intros HS Hin (Rf & Rs & Ra & Rt). destruct (ci_arr _ _ (si_c _ _ _ HS) _ Hin) as [n [Hn Hk]]. cbn [fst snd] in Hn, Hk.
  unfold close_step, is_paragraph, attached. fold s. rewrite (hget_some _ _ _ Hn). cbn [bind].
  (* first the paragraph transformer *)
  assert (exists x1, (if bkind_eqb (bk n) BParagraph && match bpar n with Some _ => true | None => false end
                      then (y <- transform_paragraph space_table punct_table norm s node ;; Ok (sth_s x (fst y))) else Ok x) = Ok x1 /\
            SI (hx_s x1) /\ s_r (hx_s x1) = s_r s /\ cframe (s_c s) (s_c (hx_s x1)) /\ c_fence (s_c (hx_s x1)) = c_fence (s_c s) /\
            c_tmp_para (s_c (hx_s x1)) = c_tmp_para (s_c s) /\
            CFrame (fun j _ => j = node) (fun j => j = node) (s_h s) (s_h (hx_s x1)) /\
            (p <> PParagraph -> x1 = x) /\
            bch_frame (fun j _ _ => p = PParagraph /\ bpar n = Some j) (s_h s) (s_h (hx_s x1)))
    as [x1 (E1 & S1 & R1 & F1 & Ff1 & Ft1 & C1 & Q1 & B1)].
  { destruct (bkind_eqb_spec (bk n) BParagraph) as [Kp|Kp]; cbn [andb].
    - destruct (bpar n) as [q|] eqn:Eq.
      + assert (Ep : p = PParagraph) by (apply kind_para_parser; congruence).
        destruct (transform_paragraph_ok space_table punct_table norm src tbl s node n HS Hn Kp ltac:(congruence))
          as [s1 [gone (E & T1 & T2 & T3 & T4 & T5 & T6 & T7 & T8 & _)]].
        pose proof (transform_bch space_table punct_table norm src tbl s node n s1 gone HS Hn Kp ltac:(congruence) E) as T11.
        rewrite E. cbn [bind fst]. exists (sth_s x s1). cbn [sth_s hx_s]. csplit; auto.
        * intros Np. contradiction.
        * intros j nj nj1 Hj Hj1. destruct (T11 j nj nj1 Hj Hj1) as [B|(nn & Hnn & B)]; [left; exact B|right].
          rewrite Hn in Hnn. injection Hnn as <-. split; [exact Ep|congruence].
      + exists x. csplit; auto; try apply cframe_refl; try apply CFrame_refl; apply bch_frame_refl.
    - exists x. csplit; auto; try apply cframe_refl; try apply CFrame_refl; apply bch_frame_refl. }
  rewrite E1. cbn [bind]. set (s1 := hx_s x1) in *.
  destruct C1 as [L1 C1]. destruct (C1 node n Hn) as [n1 (Hn1 & K1 & _ & _ & P1)].
  rewrite (hget_some _ _ _ Hn1). cbn [bind].
  destruct (bpar n1) as [q|] eqn:Eq1.
  2:{ exists x1. csplit; auto.
      - unfold ctx_after_close. csplit; auto.
      - eapply CFrame_weaken; [split; [exact L1|exact C1]| |auto]. intros j xx ->. left. reflexivity.
      - intros j nj nj1 Hj Hj1. destruct (B1 j nj nj1 Hj Hj1) as [B|(B & B')]; [left; exact B|right].
        left. split; [exact B|]. exists n. split; [exact Hn|exact B']. }
  assert (Hsame : p <> PParagraph -> n1 = n).
  { intros Np. unfold s1 in Hn1. rewrite (Q1 Np) in Hn1. fold s in Hn1. rewrite Hn in Hn1. injection Hn1 as <-. reflexivity. }
  assert (Hread : (p = PFenced -> c_fence (s_c s1) <> None) /\
                  (p = PSetext -> blines n1 <> [] /\ c_tmp_para (s_c s1) <> None)).
  { split.
    - intros ->. rewrite Ff1. apply Rf. reflexivity.
    - intros ->. destruct (Rs eq_refl) as [A B]. rewrite Ft1. split; [|exact A].
      rewrite (Hsame ltac:(discriminate)). apply (B n Hn). rewrite <- (Hsame ltac:(discriminate)). congruence. }
  assert (Hatx1 : p = PATX -> Forall olineE (blines n1)).
  { intros ->. rewrite (Hsame ltac:(discriminate)). apply (Ra eq_refl n Hn). }
  assert (Htl1 : p = PSetext -> forall t tn, c_tmp_para (s_c s1) = Some t -> nth_error (s_h s1) t = Some tn -> Forall pad0 (blines tn)).
  { intros ->. unfold s1. rewrite (Q1 ltac:(discriminate)). fold s. apply Rt. reflexivity. }
  destruct (p_close_h_ok p x1 node n1 S1 Hn1 ltac:(congruence) ltac:(congruence) (proj1 Hread) (proj2 Hread) Hatx1 Htl1)
    as [x2 (E2 & (S2 & R2 & F2 & Ff2 & Ffn2 & Ft2 & C2) & B2)].
  fold s1 in R2, F2, Ff2, Ffn2, Ft2, C2, B2.
  exists x2. split; [exact E2|]. split; [exact S2|]. split; [congruence|]. split; [|split].
  - unfold ctx_after_close. csplit.
    + eapply cframe_trans; eassumption.
    + intros Np. rewrite (Ff2 Np). exact Ff1.
    + intros ch ind fl nd Ef Hne. destruct p; try (rewrite Ff2 by discriminate; exact Ff1).
      rewrite <- Ff1 in Ef. rewrite (Ffn2 eq_refl ch ind fl nd Ef Hne). exact Ff1.
    + intros Np. rewrite (Ft2 Np). exact Ft1.
  - eapply (CFrame_trans (fun j _ => j = node) (close_detach p node s1) (Dstep s node p)
                         (fun j => j = node) (fun j => j = node) (fun j => j = node)).
    + split; [exact L1|exact C1].
    + exact C2.
    + intros j xx ->. left. reflexivity.
    + intros j xx xx1 Hx Hx1 Kx Px Hd. unfold close_detach in Hd. unfold Dstep.
      destruct p; try contradiction.
      * right. left. split; [reflexivity|]. congruence.
      * right. right. split; [reflexivity|]. destruct Hd as [c [ln (A & B & C)]].
        unfold s1 in B. rewrite (Q1 ltac:(discriminate)) in B. exists c, ln. csplit; auto. congruence.
    + auto.
    + auto.
  - intros j nj nj2 Hj Hj2. destruct (C1 j nj Hj) as [nj1 (Hj1 & _)].
    destruct (B2 j nj1 nj2 Hj1 Hj2) as [D2|D2].
    + destruct (B1 j nj nj1 Hj Hj1) as [D1|(D1 & D1')]; [left; congruence|right].
      left. split; [exact D1|]. exists n. split; [exact Hn|exact D1'].
    + right. unfold Bstep. destruct p; cbn [close_bch] in D2; try contradiction.
      * assert (Ex : x1 = x) by (apply Q1; discriminate).
        unfold s1 in Hj1, D2. rewrite Ex in Hj1, D2. fold s in Hj1, D2. rewrite Hj in Hj1. injection Hj1 as <-.
        right. left. split; [reflexivity|exact D2].
      * assert (Ex : x1 = x) by (apply Q1; discriminate).
        unfold s1 in D2. rewrite Ex in D2. fold s in D2.
        right. right. split; [reflexivity|exact D2].
Qed.

(* close_range is the iteration of close_step *)
Notation CRX := (close_rangeH hc space_table punct_table norm utf8len_table spaces).
Lemma close_range_unfold x blocks k i :
  CRX x blocks (S k) i =
  if (i <? 0) || (zlen blocks <=? i) then Panic
  else match nth_error blocks (Z.to_nat i) with
       | None => Panic
       | Some (node, p) => x <- close_step x node p ;; CRX x blocks k (i - 1)
       end.
Proof.
  cbn [close_rangeH]. destruct ((i <? 0) || (zlen blocks <=? i)); [reflexivity|].
  destruct (nth_error blocks (Z.to_nat i)) as [[node p]|]; [|reflexivity].
  unfold close_step. destruct (is_paragraph (s_h (hx_s x)) node) as [isp| |]; cbn [bind]; try reflexivity.
  destruct (attached (s_h (hx_s x)) node) as [att| |]; cbn [bind]; try reflexivity.
  destruct (if isp && att then _ else _) as [x1| |]; cbn [bind]; try reflexivity.
  destruct (attached (s_h (hx_s x1)) node) as [att1| |]; cbn [bind]; reflexivity.
Qed.

(* which old paragraphs a closing range may detach: the closed nodes themselves, the temporary
   paragraph of a closed setext heading, the grandchildren of a closed list *)
Definition Dacc (h0 : heap) (c0 : pctx) (closed : list (nat * bparser)) (j : nat) (n : bnode) : Prop :=
  In j (map fst closed) \/
  (c_tmp_para c0 = Some j /\ exists H, In (H, PSetext) closed) \/
  (exists L c ln, In (L, PList) closed /\ bpar n = Some c /\ nth_error h0 L = Some ln /\ In c (bch ln)).

(* (fork) how a closing range may change the child lists of the old nodes: the parent of a closed
   paragraph, the parent of the temporary paragraph of a closed setext heading, the items of a closed list *)
Definition Bacc (h0 : heap) (c0 : pctx) (closed : list (nat * bparser)) (j : nat) (n n' : bnode) : Prop :=
  (exists Q Qn, In (Q, PParagraph) closed /\ nth_error h0 Q = Some Qn /\ bpar Qn = Some j) \/
  (exists tmp H, c_tmp_para c0 = Some tmp /\ In (H, PSetext) closed /\ bch n' = remove_id tmp (bch n)) \/
  (exists L ln, In (L, PList) closed /\ nth_error h0 L = Some ln /\ In j (bch ln)).

Fixpoint close_list (x : sth) (l : list (nat * bparser)) : result sth :=
  match l with
  | [] => Ok x
  | (node, p) :: t => x <- close_step x node p ;; close_list x t
  end.

Lemma container_ready s node p : is_container p = true -> ReadyLeaf s node p.
Proof. intros H. unfold ReadyLeaf. csplit; intros ->; discriminate. Qed.

Lemma close_list_ok : forall l x0, let s := hx_s x0 in SI s -> (forall e, In e l -> In e (c_arr (s_c s))) ->
  match l with [] => True | e :: t => ReadyLeaf s (fst e) (snd e) /\ Forall (fun x => is_container (snd x) = true) t end ->
  exists x', let s' := hx_s x' in close_list x0 l = Ok x' /\ SI s' /\ s_r s' = s_r s /\ cframe (s_c s) (s_c s') /\
    (forall ch ind fl nd, c_fence (s_c s) = Some (ch, ind, fl, nd) -> ~ In (nd, PFenced) l ->
                          c_fence (s_c s') = c_fence (s_c s)) /\
    ((forall H, ~ In (H, PSetext) l) -> c_tmp_para (s_c s') = c_tmp_para (s_c s)) /\
    CFrame (Dacc (s_h s) (s_c s) l) (fun j => In j (map fst l)) (s_h s) (s_h s') /\
    bch_frame (Bacc (s_h s) (s_c s) l) (s_h s) (s_h s').
Proof.
  induction l as [|[node p] t IH]; intros x0 s HS Hin Hhd.
  - exists x0. cbv zeta. fold s. split; [reflexivity|]. csplit; auto; try apply cframe_refl. { apply CFrame_refl. } apply bch_frame_refl.
  - cbn [close_list]. destruct Hhd as [Hr Hct]. cbn [fst snd] in Hr.
    assert (Hinc : In (node, p) (c_arr (s_c s))) by (apply Hin; left; reflexivity).
    destruct (close_step_ok x0 node p HS Hinc Hr) as [x1 (E1 & S1 & R1 & (F1 & Ff1 & Ffn1 & Ft1) & C1 & B1)].
    rewrite E1. cbn [bind]. fold s in R1, F1, Ff1, Ffn1, Ft1, C1, B1. set (s1 := hx_s x1) in *.
    pose proof (IH x1) as IH1. cbv zeta in IH1. fold s1 in IH1.
    destruct (IH1 S1) as [x2 (E2 & S2 & R2 & F2 & Ff2 & Ft2 & C2 & B2)].
    { intros e Hein. destruct F1 as (A & _). rewrite A. apply Hin. right. exact Hein. }
    { destruct t as [|e2 t2]; [exact I|]. inversion Hct as [|x y Hx Hy]; subst. split; [|exact Hy].
      apply container_ready, Hx. }
    set (s2 := hx_s x2) in *.
    exists x2. cbv zeta. fold s2. split; [exact E2|]. split; [exact S2|]. split; [congruence|]. split; [eapply cframe_trans; eassumption|].
    assert (Hnoleaf : forall q x, In (q, x) t -> is_container x = true).
    { intros q x Hq. rewrite Forall_forall in Hct. exact (Hct (q, x) Hq). }
    csplit.
    + intros ch ind fl nd Ef Hni.
      assert (E01 : c_fence (s_c s1) = c_fence (s_c s)).
      { destruct (bkind_eqb_spec (kind_of_parser p) BFenced) as [Kp|Kp].
        - apply (Ffn1 ch ind fl nd Ef). intros ->. apply Hni. left. destruct p; cbn in Kp; try discriminate. reflexivity.
        - apply Ff1. intros ->. apply Kp. reflexivity. }
      rewrite (Ff2 ch ind fl nd); [exact E01|congruence|]. intros Hx. apply Hni. right. exact Hx.
    + intros Hns. rewrite Ft2; [apply Ft1|].
      * intros ->. apply (Hns node). left. reflexivity.
      * intros H Hx. apply (Hns H). right. exact Hx.
    + eapply (CFrame_trans (Dstep s node p) (Dacc (s_h s1) (s_c s1) t)); [exact C1|exact C2| | | |].
      * intros j xx Hd. unfold Dstep in Hd. unfold Dacc. destruct Hd as [->|[[-> Hd]|[-> Hd]]].
        -- left. left. reflexivity.
        -- right. left. split; [exact Hd|]. exists node. left. reflexivity.
        -- right. right. destruct Hd as [c [ln (A & B & C)]]. exists node, c, ln. csplit; auto. left. reflexivity.
      * intros j xx xx1 Hx Hx1 Kx Px Hd. unfold Dacc in *. destruct Hd as [Hd|[[Hd [H HH]]|Hd]].
        -- left. right. exact Hd.
        -- apply Hnoleaf in HH. discriminate.
        -- right. right. destruct Hd as [L [c [ln1 (A & B & C & D)]]].
           assert (HLin : In (L, PList) (c_arr (s_c s))) by (apply Hin; right; exact A).
           destruct (ci_arr _ _ (si_c _ _ _ HS) _ HLin) as [ln [Hln Kln]]. cbn [fst snd] in Hln, Kln.
           destruct C1 as [_ C1]. destruct (C1 L ln Hln) as [ln' (G1 & G2 & G3 & G4 & G5)].
           rewrite G1 in C. injection C as <-. exists L, c, ln. csplit.
           ++ right. exact A.
           ++ congruence.
           ++ exact Hln.
           ++ rewrite <- (G4 Kln). exact D.
      * intros j ->. left. reflexivity.
      * intros j Hj. right. exact Hj.
    + intros j nj nj2 Hj Hj2. destruct C1 as [_ C1]. destruct (C1 j nj Hj) as [nj1 (Hj1 & _)].
      destruct (B2 j nj1 nj2 Hj1 Hj2) as [D2|[D2|[D2|D2]]].
      * destruct (B1 j nj nj1 Hj Hj1) as [D1|[D1|[D1|D1]]]; [left; congruence|right..].
        -- destruct D1 as (-> & Qn & HQ & PQ). left. exists node, Qn. csplit; auto. left. reflexivity.
        -- destruct D1 as (-> & tmp & Et & Eb). right. left. exists tmp, node. csplit; auto; [left; reflexivity|congruence].
        -- destruct D1 as (-> & ln & Hln & Il). right. right. exists node, ln. csplit; auto. left. reflexivity.
      * destruct D2 as (Q & Qn & HQ & _). apply Hnoleaf in HQ. discriminate.
      * destruct D2 as (tmp & H & _ & HQ & _). apply Hnoleaf in HQ. discriminate.
      * right. right. right. destruct D2 as (L & ln1 & A & C & D).
        assert (HLin : In (L, PList) (c_arr (s_c s))) by (apply Hin; right; exact A).
        destruct (ci_arr _ _ (si_c _ _ _ HS) _ HLin) as [ln [Hln Kln]]. cbn [fst snd] in Hln, Kln.
        destruct (C1 L ln Hln) as [ln' (G1 & G2 & G3 & G4 & G5)].
        rewrite G1 in C. injection C as <-. exists L, ln. csplit.
        -- right. exact A.
        -- exact Hln.
        -- rewrite <- (G4 Kln). exact D.
Qed.

(* the entries at indices i-cnt+1 .. i of blocks *)
Definition range_of (blocks : list (nat * bparser)) (cnt : nat) (i : Z) : list (nat * bparser) :=
  firstn cnt (skipn (Z.to_nat (i + 1 - Z.of_nat cnt)) blocks).

Lemma firstn_S_nth {A} (l : list A) k e : nth_error l k = Some e -> firstn (S k) l = firstn k l ++ [e].
Proof.
  revert l. induction k as [|k IH]; intros l He.
  - destruct l as [|x l]; [discriminate|]. cbn in He. injection He as ->. reflexivity.
  - destruct l as [|x l]; [discriminate|]. cbn [nth_error] in He.
    change (firstn (S (S k)) (x :: l)) with (x :: firstn (S k) l). rewrite (IH l He). reflexivity.
Qed.

Lemma in_firstn {A} (l : list A) n x : In x (firstn n l) -> In x l.
Proof. intros H. rewrite <- (firstn_skipn n l). apply in_or_app. left. exact H. Qed.
Lemma in_skipn {A} (l : list A) n x : In x (skipn n l) -> In x l.
Proof. intros H. rewrite <- (firstn_skipn n l). apply in_or_app. right. exact H. Qed.

Lemma nth_error_skipn_add {A} (l : list A) a k : nth_error (skipn a l) k = nth_error l (a + k).
Proof.
  revert l. induction a as [|a IH]; intros l; [reflexivity|]. destruct l as [|x l]; [destruct k; reflexivity|]. apply IH.
Qed.

Lemma range_of_S blocks k i e : Z.of_nat (S k) <= i + 1 -> nth_error blocks (Z.to_nat i) = Some e ->
  range_of blocks (S k) i = range_of blocks k (i - 1) ++ [e].
Proof.
  intros Hk He. unfold range_of.
  replace (Z.to_nat (i + 1 - Z.of_nat (S k))) with (Z.to_nat (i - 1 + 1 - Z.of_nat k)) by lia.
  set (a := Z.to_nat (i - 1 + 1 - Z.of_nat k)).
  assert (Ha : (a + k = Z.to_nat i)%nat) by (unfold a; lia).
  apply firstn_S_nth. rewrite nth_error_skipn_add. rewrite Ha. exact He.
Qed.

Lemma close_range_list blocks : forall cnt s i, Z.of_nat cnt <= i + 1 -> i < zlen blocks ->
  CRX s blocks cnt i = close_list s (rev (range_of blocks cnt i)).
Proof.
  induction cnt as [|k IH]; intros s i Hc Hi; [reflexivity|].
  rewrite close_range_unfold.
  destruct (Z.ltb_spec i 0) as [C|_]; [lia|]. destruct (Z.leb_spec (zlen blocks) i) as [C|_]; [lia|]. cbn [orb].
  destruct (nth_error_ex_lt blocks (Z.to_nat i) ltac:(unfold zlen in Hi; lia)) as [[node p] He]. rewrite He.
  rewrite (range_of_S blocks k i (node, p) Hc He). rewrite rev_app_distr. cbn [rev app close_list].
  destruct (close_step s node p) as [s1| |]; cbn [bind]; try reflexivity.
  apply IH; lia.
Qed.

(* closeBlocks(from, to) on the opened blocks: closes the entries to..from (from the top down) and
   removes them from the slice *)
Lemma zfirst_firstn {A} (l : list A) n m : (n <= m)%nat -> firstn n (firstn m l) = firstn n l.
Proof. intros H. rewrite firstn_firstn. f_equal. lia. Qed.

Lemma close_blocksH_ok_let x0 from to : let s := hx_s x0 in SI s -> 0 <= to -> to <= from + 1 -> from < Z.of_nat (c_len (s_c s)) ->
  let closed := rev (range_of (ops s) (Z.to_nat (from - to + 1)) from) in
  match closed with [] => True | e :: t => ReadyLeaf s (fst e) (snd e) /\ Forall (fun x => is_container (snd x) = true) t end ->
  exists x', let s' := hx_s x' in
    close_blocksH hc space_table punct_table norm utf8len_table spaces x0 from to = Ok x' /\ SI s' /\ s_r s' = s_r s /\
    ops s' = firstn (Z.to_nat to) (ops s) ++ skipn (Z.to_nat (from + 1)) (ops s) /\
    (forall ch ind fl nd, c_fence (s_c s) = Some (ch, ind, fl, nd) -> ~ In (nd, PFenced) closed ->
                          c_fence (s_c s') = c_fence (s_c s)) /\
    ((forall H, ~ In (H, PSetext) closed) -> c_tmp_para (s_c s') = c_tmp_para (s_c s)) /\
    CFrame (Dacc (s_h s) (s_c s) closed) (fun j => In j (map fst closed)) (s_h s) (s_h s') /\
    bch_frame (Bacc (s_h s) (s_c s) closed) (s_h s) (s_h s').
Proof.
  intros s HS Hto Hft Hfrom closed Hhd.
  pose proof (ci_len _ _ (si_c _ _ _ HS)) as Hlen.
  pose proof (opened_length (s_c s) Hlen) as Hol. fold (ops s) in Hol.
  unfold close_blocksH. fold s. fold (ops s).
  rewrite close_range_list by (unfold zlen; lia). fold closed.
  pose proof (close_list_ok closed x0) as CL. cbv zeta in CL. fold s in CL.
  destruct (CL HS) as [x1 (E1 & S1 & R1 & (F1 & F2 & F3 & F4) & Ff1 & Ft1 & C1 & B1)]; clear CL.
  { intros e He. apply opened_in. unfold closed in He. apply in_rev in He. unfold range_of in He.
    apply in_firstn in He. eapply in_skipn. exact He. }
  { exact Hhd. }
  rewrite E1. cbn [bind]. set (s1 := hx_s x1) in *. rewrite F2.
  destruct (Z.eqb_spec from (Z.of_nat (c_len (s_c s)) - 1)) as [Ef|Ef].
  - destruct (Z.ltb_spec to 0) as [C|_]; [lia|]. destruct (Z.ltb_spec (Z.of_nat (c_len (s_c s))) to) as [C|_]; [lia|].
    cbn [orb]. eexists. cbv zeta. split; [reflexivity|]. cbn [sth_s hx_s].
    assert (HC : CInv (s_h s1) (cset_open (s_c s1) (c_arr (s_c s1)) (Z.to_nat to))).
    { pose proof (si_c _ _ _ S1) as [D1 D2 D3 D4]. constructor; cbn [cset_open c_arr c_len c_tmp_para c_fence]; auto.
      rewrite F1. lia. }
    split; [apply SI_set_c; assumption|]. split; [exact R1|]. csplit; auto.
    unfold ops, opened. cbn [st_c s_c cset_open c_arr c_len]. rewrite F1.
    rewrite skipn_all2 by (rewrite firstn_length; lia). rewrite app_nil_r.
    rewrite zfirst_firstn by lia. reflexivity.
  - destruct (Z.ltb_spec to 0) as [C|_]; [lia|]. destruct (Z.ltb_spec (from + 1) to) as [C|_]; [lia|].
    destruct (Z.ltb_spec (Z.of_nat (c_len (s_c s))) (from + 1)) as [C|_]; [lia|]. cbn [orb].
    eexists. cbv zeta. split; [reflexivity|]. cbn [sth_s hx_s].
    set (moved := zskip (from + 1) (firstn (c_len (s_c s)) (c_arr (s_c s1)))).
    assert (Hmv : moved = skipn (Z.to_nat (from + 1)) (ops s)).
    { unfold moved, zskip, ops, opened. rewrite F1. reflexivity. }
    assert (Hml : length moved = (c_len (s_c s) - Z.to_nat (from + 1))%nat).
    { rewrite Hmv, skipn_length, Hol. reflexivity. }
    assert (Hzf : length (zfirst to (c_arr (s_c s1))) = Z.to_nat to).
    { unfold zfirst. rewrite firstn_length, F1. lia. }
    assert (HC : CInv (s_h s1)
              (cset_open (s_c s1) (zfirst to (c_arr (s_c s1)) ++ moved ++ skipn (Z.to_nat to + length moved) (c_arr (s_c s1)))
                         (Z.to_nat to + length moved))).
    { pose proof (si_c _ _ _ S1) as [D1 D2 D3 D4]. constructor; cbn [cset_open c_arr c_len c_tmp_para c_fence]; auto.
      - rewrite !app_length, Hzf. lia.
      - intros e He. apply D2. apply in_app_or in He. destruct He as [He|He].
        + unfold zfirst in He. eapply in_firstn, He.
        + apply in_app_or in He. destruct He as [He|He].
          * unfold moved, zskip in He. apply in_skipn in He. eapply in_firstn, He.
          * eapply in_skipn, He. }
    split; [apply SI_set_c; assumption|]. split; [exact R1|]. csplit; auto.
    unfold ops at 1. unfold opened. cbn [st_c s_c cset_open c_arr c_len].
    rewrite app_assoc. rewrite firstn_app.
    replace (Z.to_nat to + length moved - length (zfirst to (c_arr (s_c s1)) ++ moved))%nat with O
      by (rewrite app_length, Hzf; lia).
    cbn [firstn]. rewrite app_nil_r. rewrite firstn_all2 by (rewrite app_length, Hzf; lia).
    rewrite Hmv. f_equal. unfold zfirst, ops, opened. rewrite F1. symmetry. apply zfirst_firstn. lia.
Qed.

(* the same without `let` *)
Lemma close_blocksH_ok x from to : SI (hx_s x) -> 0 <= to -> to <= from + 1 -> from < Z.of_nat (c_len (s_c (hx_s x))) ->
  let closed := rev (range_of (ops (hx_s x)) (Z.to_nat (from - to + 1)) from) in
  match closed with [] => True | e :: t => ReadyLeaf (hx_s x) (fst e) (snd e) /\ Forall (fun y => is_container (snd y) = true) t end ->
  exists x', close_blocksH hc space_table punct_table norm utf8len_table spaces x from to = Ok x' /\ SI (hx_s x') /\
    s_r (hx_s x') = s_r (hx_s x) /\
    ops (hx_s x') = firstn (Z.to_nat to) (ops (hx_s x)) ++ skipn (Z.to_nat (from + 1)) (ops (hx_s x)) /\
    (forall ch ind fl nd, c_fence (s_c (hx_s x)) = Some (ch, ind, fl, nd) -> ~ In (nd, PFenced) closed ->
                          c_fence (s_c (hx_s x')) = c_fence (s_c (hx_s x))) /\
    ((forall H, ~ In (H, PSetext) closed) -> c_tmp_para (s_c (hx_s x')) = c_tmp_para (s_c (hx_s x))) /\
    CFrame (Dacc (s_h (hx_s x)) (s_c (hx_s x)) closed) (fun j => In j (map fst closed)) (s_h (hx_s x)) (s_h (hx_s x')) /\
    bch_frame (Bacc (s_h (hx_s x)) (s_c (hx_s x)) closed) (s_h (hx_s x)) (s_h (hx_s x')).
Proof. exact (close_blocksH_ok_let x from to). Qed.

End S.
