(* The two tree passes of the GFM parser model (model/GfmParse.v) never fail on the trees they
   are given: attach_inlinesX when the inline phase is total on the lines of the inline-bearing
   blocks, table_ast_transform on well-formed trees. *)
Require Import GM.model.Base GM.model.Util GM.model.Reader GM.model.ReaderSpec GM.model.HtmlWriter GM.model.Html GM.model.HtmlSpec
               GM.model.TableX GM.model.BlockParse GM.model.InlineParse GM.model.BlockParseX GM.model.InlineParseX
               GM.model.GfmParse.
Require Import GM.proofs.ParseInv GM.proofs.ParseCompose GM.proofs.GfmWfDefs GM.proofs.GfmWfTree.
From Coq Require Import List ZArith Bool Lia.
Import ListNotations.
Open Scope Z_scope.

Section AttachTotal.
Variable inl : bool -> list seg -> result (list tree).
Variable src : bytes.
Hypothesis inl_total : forall in_item lines, lines_okX_b src lines = true -> exists ts, inl in_item lines = Ok ts.

Lemma attach_list_total is_item : forall l first,
  Forall (fun x => forall in_item, exists y, attach_inlinesX inl in_item x = Ok y) l ->
  exists l', attach_list inl is_item first l = Ok l'.
Proof.
  induction l as [|x r IH]; intros first H; cbn [attach_list].
  - eexists. reflexivity.
  - inversion H as [|? ? Hx Hr]; subst. destruct (Hx (first && is_item)) as [y Hy]. rewrite Hy. cbn [bind].
    destruct (IH false Hr) as [z Hz]. rewrite Hz. cbn [bind]. eexists. reflexivity.
Qed.

Theorem attachX_total : forall t in_item, tree_lines_okX src t = true -> exists t', attach_inlinesX inl in_item t = Ok t'.
Proof.
  intros t. induction t as [k l a kids IH] using tree_ind_forall. intros in_item Hl.
  rewrite tree_lines_okX_unfold in Hl. apply andb_true_iff in Hl as [Hl Hk].
  rewrite attach_inlinesX_unfold. destruct (has_inlinesX k).
  - destruct (inl_total in_item l Hl) as [ts Hts]. rewrite Hts. cbn [bind]. eexists. reflexivity.
  - destruct (attach_list_total (match k with KListItem => true | _ => false end) kids true) as [l' Hl'].
    { rewrite Forall_forall in IH |- *. rewrite forallb_forall in Hk. intros x Hx ii. exact (IH x Hx ii (Hk x Hx)). }
    rewrite Hl'. cbn [bind]. eexists. reflexivity.
Qed.
End AttachTotal.

Section AstTotal.
Variable src : bytes.

Lemma seg_value_seg_in sg : seg_in src sg = true -> exists v, seg_value src sg = Ok v.
Proof.
  intros H. apply seg_in_spec in H. destruct H as (H1 & H2 & H3 & H4).
  unfold seg_value, slice.
  replace ((0 <=? s_start sg) && (s_start sg <=? s_stop sg) && (s_stop sg <=? zlen src)) with true
    by (symmetry; rewrite !andb_true_iff, !Z.leb_le; lia).
  cbn [bind]. replace (s_pad sg <? 0) with false by (symmetry; apply Z.ltb_ge; lia).
  destruct (s_fnl sg); [|eexists; reflexivity].
  match goal with |- context [rev ?r] => destruct (rev r) as [|c tl] end; [eexists; reflexivity|].
  destruct (N.eqb c 10); eexists; reflexivity.
Qed.

Lemma ast_list_total : forall l, Forall (fun x => exists y, table_ast_transform src x = Ok y) l ->
  exists l', ast_list src l = Ok l'.
Proof.
  induction l as [|x r IH]; intros H; cbn [ast_list].
  - eexists. reflexivity.
  - inversion H as [|? ? [y Hy] Hr]; subst. rewrite Hy. cbn [bind].
    destruct (IH Hr) as [z Hz]. rewrite Hz. cbn [bind]. eexists. reflexivity.
Qed.

Theorem table_ast_transform_total : forall t it ir, wf_node src it ir t = true -> exists t', table_ast_transform src t = Ok t'.
Proof.
  intros t. induction t as [k l a kids IH] using tree_ind_forall. intros it ir Hwf.
  apply wf_node_parts in Hwf as (Hnode & _ & Hkids).
  rewrite table_ast_transform_unfold.
  destruct (ast_cell (Node k l a kids)) as [[al sg]|] eqn:Ec.
  - assert (l = [sg]) as ->.
    { destruct k; try discriminate Ec. destruct l as [|s1 [|s2 l2]]; try discriminate Ec. cbn in Ec. injection Ec as _ <-. reflexivity. }
    assert (Hsg : seg_in src sg = true).
    { unfold node_ok in Hnode. apply andb_true_iff in Hnode as [Hnode _]. apply andb_true_iff in Hnode as [Hnode _].
      cbn [forallb] in Hnode. apply andb_true_iff in Hnode as [Hnode _]. exact Hnode. }
    destruct (seg_value_seg_in sg Hsg) as [v Hv]. rewrite Hv. cbn [bind].
    destruct (escaped_positions v (s_start sg) false); eexists; reflexivity.
  - destruct (ast_list_total kids) as [l' Hl'].
    { rewrite Forall_forall in IH, Hkids |- *. intros x Hx. exact (IH x Hx _ _ (Hkids x Hx)). }
    rewrite Hl'. cbn [bind]. eexists. reflexivity.
Qed.
End AstTotal.
