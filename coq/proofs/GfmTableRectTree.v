(* tables_ok (model/GfmSpec.v) is preserved by the tree passes of the GFM pipeline that come after
   the block phase: attach_inlinesX, table_ast_transform (with split_code_spans); and the inline
   trees (itreeX / inline_childrenX) contain no table nodes at all, hence are tables_ok. *)
Require Import GM.model.Base GM.model.Util GM.model.Reader GM.model.Regex GM.model.HtmlWriter GM.model.Html GM.model.HtmlI
               GM.model.TableX GM.model.BlockParse GM.model.InlineParse GM.model.BlockParseX GM.model.InlineParseX
               GM.model.GfmParse GM.model.GfmI GM.model.GfmSpec.
From Coq Require Import List ZArith Bool Lia.
Import ListNotations.

(* ================= generic helpers ================= *)
Lemma bind_ok {A B} (r : result A) (f : A -> result B) b :
  bind r f = Ok b -> exists a, r = Ok a /\ f a = Ok b.
Proof.
  destruct r as [a| |]; cbn [bind]; intros H; try discriminate H.
  exists a; split; [reflexivity|exact H].
Qed.

Ltac bind_inv H x Hx :=
  apply bind_ok in H; destruct H as [x [Hx H]].

Lemma Ok_inj {A} (a b : A) : Ok a = Ok b -> a = b.
Proof. intro H. injection H as H. exact H. Qed.

Lemma map_res_ok {A B} (f : A -> result B) : forall l l',
  map_res f l = Ok l' -> Forall2 (fun x y => f x = Ok y) l l'.
Proof.
  induction l as [|x r IH]; intros l' H; cbn [map_res] in H.
  - apply Ok_inj in H. subst l'. constructor.
  - bind_inv H y Hy. bind_inv H z Hz. apply Ok_inj in H. subst l'.
    constructor; [exact Hy|apply IH; exact Hz].
Qed.

Lemma forallb_Forall_iff {A} (f : A -> bool) (l : list A) :
  forallb f l = true <-> Forall (fun x => f x = true) l.
Proof.
  induction l as [|x r IH]; cbn [forallb].
  - split; intros _; [constructor|reflexivity].
  - rewrite andb_true_iff, IH. split.
    + intros [H1 H2]. constructor; assumption.
    + intros H. inversion H as [|x0 r0 H1 H2]; subst. split; assumption.
Qed.

(* induction on trees with Forall on the children *)
Fixpoint tree_ind_F (P : tree -> Prop)
  (H : forall k l a cs, Forall P cs -> P (Node k l a cs)) (t : tree) : P t :=
  match t with
  | Node k l a cs =>
    H k l a cs ((fix go (l : list tree) : Forall P l :=
                   match l with
                   | [] => Forall_nil P
                   | x :: r => Forall_cons x (tree_ind_F P H x) (go r)
                   end) cs)
  end.

(* ================= tables_ok unfolded with forallb ================= *)
Definition tflag (k : kind) : bool := match k with KTable => true | _ => false end.
Definition hflag (b : bool) (k : kind) : bool := match k with KTableHeader | KTableRow => b | _ => true end.

Lemma tables_ok_eq b k l a kids :
  tables_ok b (Node k l a kids) =
  table_rect (Node k l a kids) && hflag b k && forallb (tables_ok (tflag k)) kids.
Proof.
  cbn [tables_ok]. unfold hflag, tflag. f_equal.
Qed.

(* kinds of the table skeleton above the cells *)
Definition tblk (k : kind) : bool := match k with KTable | KTableHeader | KTableRow => true | _ => false end.
Definition tblk4 (k : kind) : bool :=
  match k with KTable | KTableHeader | KTableRow | KTableCell _ => true | _ => false end.

Lemma tblk_rect k l a kids : tblk k = false -> table_rect (Node k l a kids) = true.
Proof. destruct k; intro H; try discriminate H; reflexivity. Qed.
Lemma tblk_hflag k b : tblk k = false -> hflag b k = true.
Proof. destruct k; intro H; try discriminate H; reflexivity. Qed.
Lemma tblk_tflag k : tblk k = false -> tflag k = false.
Proof. destruct k; intro H; try discriminate H; reflexivity. Qed.
Lemma tblk4_tblk k : tblk4 k = false -> tblk k = false.
Proof. destruct k; intro H; try discriminate H; reflexivity. Qed.

Lemma tables_ok_leaf b k l a kids :
  tblk k = false -> Forall (fun t => tables_ok false t = true) kids -> tables_ok b (Node k l a kids) = true.
Proof.
  intros Hk HF. rewrite tables_ok_eq, tblk_rect, tblk_hflag, tblk_tflag by exact Hk.
  cbn [andb]. apply forallb_Forall_iff. exact HF.
Qed.

Lemma tables_ok_kids b k l a kids :
  tables_ok b (Node k l a kids) = true -> Forall (fun t => tables_ok (tflag k) t = true) kids.
Proof.
  rewrite tables_ok_eq, !andb_true_iff. intros [_ H]. apply forallb_Forall_iff. exact H.
Qed.

(* ================= trees without table nodes ================= *)
Fixpoint notab (t : tree) : bool :=
  match t with Node k _ _ kids => negb (tblk4 k) && forallb notab kids end.

Lemma notab_tables_ok : forall t, notab t = true -> forall b, tables_ok b t = true.
Proof.
  intro t. induction t as [k l a kids IH] using tree_ind_F. intros Hn b.
  cbn [notab] in Hn. apply andb_true_iff in Hn. destruct Hn as [Hk Hkids].
  apply negb_true_iff in Hk. apply tblk4_tblk in Hk.
  apply tables_ok_leaf; [exact Hk|].
  apply forallb_Forall_iff in Hkids.
  induction IH as [|x r Hx _ IHr]; [constructor|].
  inversion Hkids as [|x0 r0 H1 H2]; subst.
  constructor; [apply Hx; exact H1|apply IHr; exact H2].
Qed.

Lemma itreeX_notab : forall fuel src h http i t, itreeX fuel src h http i = Ok t -> notab t = true.
Proof.
  induction fuel as [|f IH]; intros src h http i t H; cbn [itreeX] in H; [discriminate H|].
  bind_inv H n Hn. bind_inv H kids Hkids. bind_inv H k Hk. apply Ok_inj in H. subst t.
  cbn [notab]. apply andb_true_iff. split.
  - destruct (ik n) as [|s soft hard raw| |lv|d ti|d ti|e sg|segs|d1 d2 d3 d4 d5 d6 d7 d8|l1 l2 l3 l4 l5 l6];
      try (apply Ok_inj in Hk; subst k; reflexivity).
    + apply Ok_inj in Hk. subst k.
      repeat match goal with |- context [if ?c then _ else _] => destruct c end; reflexivity.
    + bind_inv Hk v Hv. apply Ok_inj in Hk. subst k. reflexivity.
  - apply map_res_ok in Hkids. apply forallb_Forall_iff.
    induction Hkids as [|x y r r' Hxy _ IHr]; [constructor|].
    constructor; [apply (IH _ _ _ _ _ Hxy)|exact IHr].
Qed.

(* (D3) *)
Lemma inline_childrenX_tables_ok :
  forall xc space_table punct_table norm url_table email_table re_email_domain re_open_tag re_close_tag
         punct_rune space_rune re_task re_url re_www refs in_item src lines ch,
    inline_childrenX xc space_table punct_table norm url_table email_table re_email_domain re_open_tag re_close_tag
                     punct_rune space_rune re_task re_url re_www refs in_item src lines = Ok ch ->
    Forall (fun t => tables_ok false t = true) ch.
Proof.
  intros xc space_table punct_table norm url_table email_table re_email_domain re_open_tag re_close_tag
         punct_rune space_rune re_task re_url re_www refs in_item src lines ch H.
  unfold inline_childrenX in H. bind_inv H x Hx. destruct x as [c http].
  bind_inv H t Ht. apply Ok_inj in H. subst ch.
  apply itreeX_notab in Ht. destruct t as [k l a kids]. cbn [t_children].
  cbn [notab] in Ht. apply andb_true_iff in Ht. destruct Ht as [_ Hkids].
  apply forallb_Forall_iff in Hkids.
  induction Hkids as [|x r Hx' _ IHr]; [constructor|].
  constructor; [apply notab_tables_ok; exact Hx'|exact IHr].
Qed.

(* ================= the relation between a tree and its transform ================= *)
(* same kind and lines at every node down to the nodes (not Table / TableHeader / TableRow) whose
   children were replaced by table-free children *)
Inductive rel : tree -> tree -> Prop :=
| rel_leaf k l a kids kids' :
    tblk k = false -> Forall (fun t => tables_ok false t = true) kids' ->
    rel (Node k l a kids) (Node k l a kids')
| rel_rec k l a kids kids' :
    Forall2 rel kids kids' -> rel (Node k l a kids) (Node k l a kids').

Definition same_head (t t' : tree) : Prop :=
  match t, t' with Node k l _ _, Node k' l' _ _ => k = k' /\ l = l' end.

Lemma rel_same_head t t' : rel t t' -> same_head t t'.
Proof.
  intro H. inversion H as [k l a kids kids' Hk HF E1 E2|k l a kids kids' HF E1 E2]; subst;
    cbn [same_head]; split; reflexivity.
Qed.

Lemma Forall2_rel_same_head l l' : Forall2 rel l l' -> Forall2 same_head l l'.
Proof.
  intro H. induction H as [|x y r r' Hxy _ IHr]; constructor; [apply rel_same_head; exact Hxy|exact IHr].
Qed.

(* ---- table_rect through same_head ---- *)
Definition cellP (p : tree * tree) : bool :=
  match fst p with
  | Node _ [] _ _ => true
  | _ => match cell_align (fst p), cell_align (snd p) with
         | Some a, Some b => align_eqb a b | _, _ => false end
  end.
Definition row_ok (hc : list tree) (r : tree) : bool :=
  match r with
  | Node KTableRow _ _ cs =>
      forallb is_cell cs && Nat.eqb (length cs) (length hc) && forallb cellP (combine cs hc)
  | _ => false
  end.

Lemma table_rect_tbl l a l2 a2 hc rows :
  table_rect (Node KTable l a (Node KTableHeader l2 a2 hc :: rows)) =
  negb (match hc with [] => true | _ => false end) && forallb is_cell hc && forallb (row_ok hc) rows.
Proof. reflexivity. Qed.

Lemma is_cell_same c c' : same_head c c' -> is_cell c = is_cell c'.
Proof.
  destruct c as [k l a kids], c' as [k' l' a' kids']. cbn [same_head]. intros [E1 E2]. subst. reflexivity.
Qed.

Lemma cellP_same c c' h h' : same_head c c' -> same_head h h' -> cellP (c, h) = cellP (c', h').
Proof.
  destruct c as [k l a kids], c' as [k' l' a' kids'], h as [hk hl ha hkids], h' as [hk' hl' ha' hkids'].
  cbn [same_head]. intros [E1 E2] [E3 E4]. subst. reflexivity.
Qed.

Lemma forallb_is_cell_same cs cs' : Forall2 same_head cs cs' -> forallb is_cell cs = forallb is_cell cs'.
Proof.
  intro H. induction H as [|x y r r' Hxy _ IHr]; [reflexivity|].
  cbn [forallb]. rewrite IHr, (is_cell_same _ _ Hxy). reflexivity.
Qed.

Lemma length_same cs cs' : Forall2 same_head cs cs' -> length cs = length cs'.
Proof.
  intro H. induction H as [|x y r r' Hxy _ IHr]; [reflexivity|]. cbn [length]. rewrite IHr. reflexivity.
Qed.

Lemma forallb_combine_same : forall cs cs', Forall2 same_head cs cs' ->
  forall hc hc', Forall2 same_head hc hc' ->
  forallb cellP (combine cs hc) = forallb cellP (combine cs' hc').
Proof.
  intros cs cs' H. induction H as [|x y r r' Hxy _ IHr]; intros hc hc' Hh; [reflexivity|].
  destruct Hh as [|hx hy hr hr' Hhxy Hhr]; [reflexivity|].
  cbn [combine forallb]. rewrite (IHr _ _ Hhr), (cellP_same _ _ _ _ Hxy Hhxy). reflexivity.
Qed.

Lemma row_ok_rel hc hc' r r' :
  Forall2 same_head hc hc' -> rel r r' -> row_ok hc r = row_ok hc' r'.
Proof.
  intros Hh Hr.
  inversion Hr as [k l a kids kids' Hk HF E1 E2|k l a kids kids' HF E1 E2]; subst.
  - destruct k; try discriminate Hk; reflexivity.
  - destruct k; try reflexivity. cbn [row_ok].
    apply Forall2_rel_same_head in HF.
    rewrite (forallb_is_cell_same _ _ HF), (length_same _ _ HF), (length_same _ _ Hh),
            (forallb_combine_same _ _ HF _ _ Hh).
    reflexivity.
Qed.

Lemma rel_rect k l a kids kids' :
  Forall2 rel kids kids' -> table_rect (Node k l a kids) = true -> table_rect (Node k l a kids') = true.
Proof.
  intros HF H.
  destruct k; try reflexivity.
  destruct HF as [|h h' rows rows' Hh Hrows]; [cbn in H; discriminate H|].
  inversion Hh as [hk hl ha hc hc' Hk HFc E1 E2|hk hl ha hc hc' HFc E1 E2]; subst.
  - destruct hk; try discriminate Hk; cbn in H; discriminate H.
  - destruct hk; try (cbn in H; discriminate H).
    rewrite table_rect_tbl in H |- *.
    apply Forall2_rel_same_head in HFc.
    rewrite !andb_true_iff in H |- *. destruct H as [[H1 H2] H3]. split; [split|].
    + destruct HFc as [|c c' cr cr' _ _]; [discriminate H1|reflexivity].
    + rewrite <- (forallb_is_cell_same _ _ HFc). exact H2.
    + clear H1 H2 Hh. induction Hrows as [|r r' rs rs' Hr _ IHr]; [reflexivity|].
      cbn [forallb] in H3 |- *. apply andb_true_iff in H3. destruct H3 as [H3 H4].
      apply andb_true_iff. split; [|apply IHr; exact H4].
      rewrite <- (row_ok_rel _ _ _ _ HFc Hr). exact H3.
Qed.

(* ---- the key lemma ---- *)
Lemma rel_tables_ok : forall t t', rel t t' -> forall b, tables_ok b t = true -> tables_ok b t' = true.
Proof.
  intro t. induction t as [k l a kids IH] using tree_ind_F. intros t' Hr b Hok.
  inversion Hr as [k0 l0 a0 kids0 kids' Hk HF E1 E2|k0 l0 a0 kids0 kids' HF E1 E2]; subst.
  - apply tables_ok_leaf; assumption.
  - pose proof (tables_ok_kids _ _ _ _ _ Hok) as Hkids.
    rewrite tables_ok_eq in Hok |- *. rewrite !andb_true_iff in Hok |- *.
    destruct Hok as [[H1 H2] _]. split; [split|].
    + apply (rel_rect _ _ _ _ _ HF H1).
    + exact H2.
    + apply forallb_Forall_iff. clear H1 H2 Hr.
      induction HF as [|x y r r' Hxy _ IHr]; [constructor|].
      inversion IH as [|x0 r0 IHx IHrest]; subst.
      inversion Hkids as [|x1 r1 Hx Hrest]; subst.
      constructor; [apply (IHx _ Hxy _ Hx)|apply IHr; assumption].
Qed.

Lemma rel_Forall_tables_ok b kids kids' :
  Forall2 rel kids kids' -> Forall (fun t => tables_ok b t = true) kids ->
  Forall (fun t => tables_ok b t = true) kids'.
Proof.
  intro HF. induction HF as [|x y r r' Hxy _ IHr]; intro H; [constructor|].
  inversion H as [|x0 r0 Hx Hrest]; subst.
  constructor; [apply (rel_tables_ok _ _ Hxy _ Hx)|apply IHr; exact Hrest].
Qed.

(* ================= attach_inlinesX ================= *)
Section AttachRel.
Variable inl : bool -> list seg -> result (list tree).
Hypothesis inl_ok : forall b lines ch, inl b lines = Ok ch -> Forall (fun t => tables_ok false t = true) ch.

Fixpoint att_list (first is_item : bool) (l : list tree) : result (list tree) :=
  match l with
  | [] => Ok []
  | x :: r => y <- attach_inlinesX inl (first && is_item) x ;; z <- att_list false is_item r ;; Ok (y :: z)
  end.

Lemma attach_inlinesX_eq it k lines a kids :
  attach_inlinesX inl it (Node k lines a kids) =
  if has_inlinesX k then (ch <- inl it lines ;; Ok (Node k lines a ch))
  else (kids' <- att_list true (match k with KListItem => true | _ => false end) kids ;;
        Ok (Node k lines a kids')).
Proof.
  cbn [attach_inlinesX]. destruct (has_inlinesX k); [reflexivity|].
  f_equal. generalize (match k with KListItem => true | _ => false end) as is_item. intro is_item.
  generalize true as first.
  induction kids as [|x r IH]; intro first; [reflexivity|].
  cbn [att_list]. rewrite <- IH. reflexivity.
Qed.

Lemma has_inlinesX_tblk k : has_inlinesX k = true -> tblk k = false.
Proof. destruct k; intro H; try discriminate H; reflexivity. Qed.

Lemma attach_inlinesX_rel : forall t it t', attach_inlinesX inl it t = Ok t' -> rel t t'.
Proof.
  intro t. induction t as [k l a kids IH] using tree_ind_F. intros it t' H.
  rewrite attach_inlinesX_eq in H. destruct (has_inlinesX k) eqn:Hk.
  - bind_inv H ch Hch. apply Ok_inj in H. subst t'.
    apply rel_leaf; [apply has_inlinesX_tblk; exact Hk|apply (inl_ok _ _ _ Hch)].
  - bind_inv H kids' Hkids. apply Ok_inj in H. subst t'. apply rel_rec.
    revert kids' Hkids.
    generalize (match k with KListItem => true | _ => false end) as is_item. intro is_item.
    generalize true as first.
    induction IH as [|x r IHx _ IHr]; intros first kids' Hkids; cbn [att_list] in Hkids.
    + apply Ok_inj in Hkids. subst kids'. constructor.
    + bind_inv Hkids y Hy. bind_inv Hkids z Hz. apply Ok_inj in Hkids. subst kids'.
      constructor; [apply (IHx _ _ Hy)|apply (IHr _ _ Hz)].
Qed.
End AttachRel.

(* (D1) *)
Lemma attach_inlinesX_tables_ok :
  forall (inl : bool -> list seg -> result (list tree)),
    (forall b lines ch, inl b lines = Ok ch -> Forall (fun t => tables_ok false t = true) ch) ->
    forall t b it t', tables_ok b t = true -> attach_inlinesX inl it t = Ok t' -> tables_ok b t' = true.
Proof.
  intros inl Hinl t b it t' Hok H.
  apply (rel_tables_ok t t' (attach_inlinesX_rel inl Hinl t it t' H) b Hok).
Qed.

(* ================= split_code_spans ================= *)
Lemma raw_text_ok s : tables_ok false (raw_text s) = true.
Proof. reflexivity. Qed.

Lemma split_text_ok ps t :
  tables_ok false t = true -> Forall (fun x => tables_ok false x = true) (split_text ps t).
Proof.
  intro H. destruct t as [k l a kids].
  destruct k; cbn [split_text]; try (constructor; [exact H|constructor]).
  destruct (split_at s s ps) as [sl last]. destruct sl as [|s0 sl]; [constructor; [exact H|constructor]|].
  apply Forall_app. split.
  - apply Forall_forall. intros x Hx. apply in_map_iff in Hx. destruct Hx as [sx [E _]]. subst x. apply raw_text_ok.
  - constructor; [apply raw_text_ok|constructor].
Qed.

Lemma split_code_spans_eq ps k l a kids :
  split_code_spans ps (Node k l a kids) =
  match k with
  | KCodeSpan => Node k l a (flat_map (split_text ps) kids)
  | _ => Node k l a (map (split_code_spans ps) kids)
  end.
Proof. destruct k; reflexivity. Qed.

Lemma split_code_spans_rel ps : forall t b, tables_ok b t = true -> rel t (split_code_spans ps t).
Proof.
  intro t. induction t as [k l a kids IH] using tree_ind_F. intros b Hok.
  pose proof (tables_ok_kids _ _ _ _ _ Hok) as Hkids.
  assert (Hrec : rel (Node k l a kids) (Node k l a (map (split_code_spans ps) kids))).
  { apply rel_rec. clear Hok.
    induction IH as [|x r IHx _ IHr]; [constructor|].
    inversion Hkids as [|x0 r0 Hx Hrest]; subst.
    cbn [map]. constructor; [apply (IHx _ Hx)|apply IHr; exact Hrest]. }
  rewrite split_code_spans_eq. destruct k; try exact Hrec.
  apply rel_leaf; [reflexivity|]. cbn [tflag] in Hkids. clear Hrec IH Hok.
  induction Hkids as [|x r Hx _ IHr]; [constructor|].
  cbn [flat_map]. apply Forall_app. split; [apply split_text_ok; exact Hx|exact IHr].
Qed.

Lemma split_code_spans_tables_ok ps t b : tables_ok b t = true -> tables_ok b (split_code_spans ps t) = true.
Proof. intro H. apply (rel_tables_ok _ _ (split_code_spans_rel ps t b H) b H). Qed.

(* ================= table_ast_transform ================= *)
Lemma table_ast_transform_eq src k lines a kids :
  table_ast_transform src (Node k lines a kids) =
  match k, lines with
  | KTableCell al, [sg] =>
    v <- seg_value src sg ;;
    match escaped_positions v (s_start sg) false with
    | [] => Ok (Node k lines a kids)
    | ps => Ok (Node (KTableCell al) [sg] a (map (split_code_spans ps) kids))
    end
  | _, _ => kids' <- map_res (table_ast_transform src) kids ;; Ok (Node k lines a kids')
  end.
Proof.
  assert (Hgo : (fix go (l : list tree) : result (list tree) :=
                   match l with
                   | [] => Ok []
                   | x :: r => y <- table_ast_transform src x ;; z <- go r ;; Ok (y :: z)
                   end) kids = map_res (table_ast_transform src) kids).
  { induction kids as [|x r IH]; [reflexivity|]. cbn [map_res]. rewrite <- IH. reflexivity. }
  destruct k; try (destruct lines as [|sg [|sg2 lr]]); cbn [table_ast_transform]; rewrite ?Hgo; reflexivity.
Qed.

Lemma table_ast_transform_rel src : forall t b t',
  tables_ok b t = true -> table_ast_transform src t = Ok t' -> rel t t'.
Proof.
  intro t. induction t as [k l a kids IH] using tree_ind_F. intros b t' Hok H.
  pose proof (tables_ok_kids _ _ _ _ _ Hok) as Hkids.
  rewrite table_ast_transform_eq in H.
  assert (Hgen : forall kids', map_res (table_ast_transform src) kids = Ok kids' ->
                               rel (Node k l a kids) (Node k l a kids')).
  { intros kids' Hm. apply rel_rec. apply map_res_ok in Hm. clear Hok H.
    induction Hm as [|x y r r' Hxy _ IHr]; [constructor|].
    inversion IH as [|x0 r0 IHx IHrest]; subst.
    inversion Hkids as [|x1 r1 Hx Hrest]; subst.
    constructor; [apply (IHx _ _ Hx Hxy)|apply IHr; assumption]. }
  destruct k;
    try (bind_inv H kids' Hm; apply Ok_inj in H; subst t'; apply Hgen; exact Hm).
  destruct l as [|sg [|sg2 lr]];
    try (bind_inv H kids' Hm; apply Ok_inj in H; subst t'; apply Hgen; exact Hm).
  bind_inv H v Hv. cbn [tflag] in Hkids.
  destruct (escaped_positions v (s_start sg) false) as [|p ps]; apply Ok_inj in H; subst t'.
  - apply rel_leaf; [reflexivity|exact Hkids].
  - apply rel_leaf; [reflexivity|]. clear Hgen IH Hok.
    induction Hkids as [|x r Hx _ IHr]; [constructor|].
    cbn [map]. constructor; [apply split_code_spans_tables_ok; exact Hx|exact IHr].
Qed.

(* (D2) *)
Lemma table_ast_transform_tables_ok :
  forall src t b t', tables_ok b t = true -> table_ast_transform src t = Ok t' -> tables_ok b t' = true.
Proof.
  intros src t b t' Hok H.
  apply (rel_tables_ok t t' (table_ast_transform_rel src t b t' Hok H) b Hok).
Qed.
