(* Helper file for FootnoteWfInl.v (public inline kinds): the inline parsers, scan_lineF and
   parse_block_loopF of model/FootnoteParseInline.v keep the invariants of
   proofs/ParseInlineRangeKInv.v / ParseInlineRangeKParsers.v (hinv: the delimiter list of the
   context is the list of the delimiter children of the block node, label state nodes with a
   parent are in the label state list, node 0 is the only block node).  Ports of ip_parse_k,
   try_inline_k, scan_line_k and parse_block_loop_k; the footnote parser only makes plain nodes
   (the FootnoteLink node, and for '!' a Text node appended to the block node). *)
Require Import GM.model.Base GM.model.Util GM.model.Reader GM.model.ReaderSpec GM.model.Blocks GM.model.ListItem
               GM.model.LeafBlocks GM.model.CodeSpan GM.model.LinkDest GM.model.Regex GM.model.Delim GM.model.HtmlWriter
               GM.model.Html GM.model.HtmlSpec GM.model.BlockParse GM.model.InlineParse
               GM.model.FootnoteX GM.model.FootnoteParseBlock GM.model.FootnoteParseInline.
Require Import GM.proofs.BReaderProofs GM.proofs.BlockRangeProofs GM.proofs.RegexProofs GM.proofs.ParseInv.
Require Import GM.proofs.ParseInlineRangeHeap GM.proofs.ParseInlineRangeReader GM.proofs.ParseInlineRangeParsers.
Require Import GM.proofs.ParseInlineRangeKList GM.proofs.ParseInlineRangeKStep GM.proofs.ParseInlineRangeKDelim
               GM.proofs.ParseInlineRangeKLabel GM.proofs.ParseInlineRangeKInv GM.proofs.ParseInlineRangeKParsers.
Require Import GM.proofs.FootnoteWfInlParsers.
From Coq Require Import ZArith Lia List Bool.
Import ListNotations.
Open Scope Z_scope.

Lemma plain_footnote_link serial : plain (IFootnoteLink serial).
Proof. unfold plain, IFootnoteLink. cbn. lia. Qed.

(* ---------- footnoteParser.Parse: what it does to the context ---------- *)
Lemma footnote_parse_shape punct_table x parent x' res : footnote_parse punct_table x parent = Ok (x', res) ->
  (t_c (fi_s x') = t_c (fi_s x) /\ res = None) \/
  exists serial c1 n, new_inode (t_c (fi_s x)) (IFootnoteLink serial) = (c1, n) /\ res = Some n /\
    (t_c (fi_s x') = c1 \/
     exists sg c3 t h, new_inode c1 (mk_text sg) = (c3, t) /\ i_append (i_h c3) parent t = Ok h /\ t_c (fi_s x') = cx_h c3 h).
Proof.
  unfold footnote_parse. intros H. set (s := fi_s x) in *.
  destruct (b_peek_line (t_r s)) as [[[r1 line] segment]| |]; cbn [bind] in H; try discriminate.
  cbn [fi_s fist_s ist_r t_c t_r fi_f] in H.
  destruct (_ || _); [inversion H; subst x' res; left; auto|].
  destruct (_ <=? _); [inversion H; subst x' res; left; auto|].
  destruct (_ <? 0); [inversion H; subst x' res; left; auto|].
  destruct (b_value r1 _) as [value| |]; cbn [bind] in H; try discriminate.
  destruct (b_advance r1 _) as [r2| |]; cbn [bind] in H; try discriminate.
  destruct (fs_defs (fi_f x)) as [defs|]; [|inversion H; subst x' res; left; auto].
  destruct (assign defs (fs_count (fi_f x)) value) as [[defs' count'] found].
  destruct found as [index|]; [|inversion H; subst x' res; left; auto].
  cbn [ist_r t_c t_r] in H.
  destruct (new_inode (t_c s) (IFootnoteLink (zlen (fs_links (fi_f x))))) as [c1 n] eqn:En.
  match type of H with (_ <- ?X ;; _) = _ => destruct X as [c2| |] eqn:Ec end; cbn [bind] in H; try discriminate.
  inversion H; subst x' res. clear H. cbn [fi_s t_c].
  right. exists (zlen (fs_links (fi_f x))), c1, n. split; [exact En|]. split; [reflexivity|].
  destruct (line_of line) as [|c0 tl]; [discriminate|].
  destruct (N.eqb c0 33); [|inversion Ec; subst c2; left; reflexivity].
  destruct (new_inode c1 (mk_text _)) as [c3 t] eqn:En3.
  destruct (i_append (i_h c3) parent t) as [h| |] eqn:Eap; cbn [bind] in Ec; try discriminate.
  inversion Ec; subst c2. right. eexists _, c3, t, h. split; [exact En3|]. split; [exact Eap|reflexivity].
Qed.

Lemma footnote_parse_quiet punct_table x parent x' res : footnote_parse punct_table x parent = Ok (x', res) ->
  tree_ok (i_h (t_c (fi_s x))) -> (0 < length (i_h (t_c (fi_s x))))%nat ->
  quiet (t_c (fi_s x)) (t_c (fi_s x')) res.
Proof.
  intros H Ht H0. destruct (footnote_parse_shape _ _ _ _ _ H) as [[-> ->]|(serial & c1 & n & En & -> & Hc')];
    [apply quiet_refl; exact Ht|].
  set (c := t_c (fi_s x)) in *.
  destruct Hc' as [->|(sg & c3 & t & h & En3 & Eap & ->)].
  - apply quiet_shape; [|exact Ht|exact H0]. right. exists (IFootnoteLink serial), n.
    split; [apply plain_footnote_link|]. split; [exact En|reflexivity].
  - destruct (gstep_new c _ c1 n En (plain_footnote_link serial) Ht) as (G1 & EK1 & ED1 & Ht1 & Kn & Pn & _ & Hn & _ & _ & Kne1).
    destruct (new_inode_view c _ c1 n En) as (_ & Len1 & F1 & F2 & F3 & F4 & _).
    destruct (fresh_append_g c1 _ parent c3 t h Ht1 (plain_text _ _ _ _) ltac:(lia) En3 Eap)
      as (G2 & EK2 & ED2 & Ht2 & _ & P2 & K2 & Hteq).
    destruct (new_inode_view c1 _ c3 t En3) as (_ & _ & F1' & F2' & F3' & F4' & _).
    assert (Hnt : Nat.eqb n t = false) by (apply Nat.eqb_neq; lia).
    constructor; cbn [cx_h i_h i_dfirst i_dlast i_labels i_bottoms]; try congruence.
    + eapply gstep_trans; eassumption.
    + intros j Hj. rewrite K2. destruct (Nat.eqb_spec j t) as [E|_]; [lia|]. apply Kne1. lia.
    + intros m Em. inversion Em; subst m. split; [rewrite P2, Hnt; exact Pn|].
      split; [|lia]. eapply nkey_kd; [rewrite K2, Hnt; exact Kn|apply plain_footnote_link].
Qed.

Section KP.
Variable space_table punct_table : list N.
Variable norm : bytes -> bytes.
Variable url_table email_table : list N.
Variable re_email_domain re_open_tag re_close_tag : re.
Variable punct_rune space_rune : N -> bool.
Variable refs : list (bytes * (bytes * option bytes)).
Variable src : bytes.
Variable lines : list seg.
Hypothesis Hsp32 : is_space space_table 32 = true.
Hypothesis Hsp10 : is_space space_table 10 = true.
Hypothesis Hsrc : bytes_ok src.
Hypothesis Hrefs : refs_ok refs.

Local Notation RI := (ParseInlineRangeReader.RI src lines).
Local Notation st_ok := (ParseInlineRangeParsers.st_ok src lines).
Local Notation pstepk := (ParseInlineRangeKParsers.pstepk src lines).
Local Notation scan_inv := (ParseInlineRangeParsers.scan_inv lines).
Local Notation ip_parse_k := (ParseInlineRangeKParsers.ip_parse_k space_table punct_table norm url_table email_table
  re_email_domain re_open_tag re_close_tag punct_rune space_rune refs src lines Hsp32 Hsp10 Hsrc Hrefs).
Local Notation footnote_parse_ok := (FootnoteWfInlParsers.footnote_parse_ok space_table punct_table norm punct_rune space_rune src lines Hsp32 Hsp10).

Notation IPF := (ip_parseF space_table punct_table norm url_table email_table re_email_domain re_open_tag re_close_tag
                  punct_rune space_rune refs).
Notation TRYF := (try_inlineF space_table punct_table norm url_table email_table re_email_domain re_open_tag re_close_tag
                  punct_rune space_rune refs).
Notation SCANF := (scan_lineF space_table punct_table norm url_table email_table re_email_domain re_open_tag re_close_tag
                  punct_rune space_rune refs).
Notation LOOPF := (parse_block_loopF space_table punct_table norm url_table email_table re_email_domain re_open_tag re_close_tag
                  punct_rune space_rune refs).

Lemma ip_parseF_k p x x' res L LL : st_ok (fi_s x) L -> hinv (t_c (fi_s x)) LL -> dch (i_h (t_c (fi_s x))) = L ->
  IPF p x 0%nat = Ok (x', res) -> pstepk (fi_s x) (fi_s x') res.
Proof.
  intros Hs Hi HS H. destruct p as [p|]; cbn [ip_parseF] in H.
  - match type of H with (_ <- ?X ;; _) = _ => destruct X as [[s1 r1]| |] eqn:Ep end; cbn [bind] in H; try discriminate.
    cbn [fst snd] in H. inversion H; subst x' res. cbn [fi_s fist_s]. eapply ip_parse_k; eassumption.
  - pose proof (h_tree _ _ (proj1 (proj1 Hs))) as Ht. pose proof (ginv_pos _ (hi_g _ _ Hi)) as H0.
    eapply (quiet_pstepk space_table norm src lines); try eassumption.
    + eapply footnote_parse_quiet; eassumption.
    + eapply footnote_parse_ok; [exact Hs| |exact H]. apply (pok_root space_table norm src Hsp32 Hsp10). exact (hi_g _ _ Hi).
Qed.

Lemma try_inlineF_k r0 : RI r0 -> forall ips x x' res L LL, st_ok (fi_s x) L -> hinv (t_c (fi_s x)) LL ->
  dch (i_h (t_c (fi_s x))) = L ->
  b_line (t_r (fi_s x)) = b_line r0 -> b_pos (t_r (fi_s x)) = b_pos r0 ->
  TRYF ips x 0%nat (b_line r0) (b_pos r0) = Ok (x', res) ->
  pstepk (fi_s x) (fi_s x') res /\ (res = None -> b_line (t_r (fi_s x')) = b_line r0 /\ b_pos (t_r (fi_s x')) = b_pos r0).
Proof.
  intros H0. induction ips as [|p rest IH]; intros x x' res L LL Hs Hi HS El Epos H; cbn [try_inlineF] in H.
  - inversion H; subst x' res. split; [|auto]. exists L, LL. split; [exact Hs|]. split; [apply kle_refl|]. split; [intros n E; discriminate|].
    split; [exact Hi|exact HS].
  - destruct (IPF p x 0%nat) as [[x1 n]| |] eqn:Ep; cbn [bind] in H; try discriminate.
    destruct (ip_parseF_k _ _ _ _ _ _ Hs Hi HS Ep) as (L1 & LL1 & Hs1 & Hk1 & Hres1 & Hi1 & Hpe1).
    destruct n as [n|].
    + inversion H; subst x' res. split; [|discriminate]. exists L1, LL1. auto.
    + destruct (b_set_position (t_r (fi_s x1)) (b_line r0) (b_pos r0)) as [r2| |] eqn:Es; cbn [bind] in H; try discriminate.
      destruct (ri_set_position _ _ _ _ _ (proj2 Hs1) H0 Es) as (Hr2 & Hl2 & Hp2).
      destruct (IH (fist_s x1 (ist_r (fi_s x1) r2)) x' res L1 LL1) as [(L2 & LL2 & Hs2 & Hk2 & Hres2 & Hi2 & Hpe2) Hpos]; try assumption.
      { cbn [fi_s fist_s]. split; [exact (proj1 Hs1)|exact Hr2]. }
      split; [|exact Hpos]. exists L2, LL2. split; [exact Hs2|]. split; [eapply kle_trans; eassumption|]. auto.
Qed.

(* ---------- scan_lineF ---------- *)
Lemma scan_lineF_k : forall fuel line i line_length n escaped start_pos x out l0 L LL,
  SCANF fuel line i line_length n escaped start_pos x 0%nat = Ok out ->
  st_ok (fi_s x) L -> hinv (t_c (fi_s x)) LL -> dch (i_h (t_c (fi_s x))) = L -> scan_inv line l0 i n start_pos (fi_s x) ->
  match out with
  | inl (x', _) => exists L' LL', st_ok (fi_s x') L' /\ kle (i_h (t_c (fi_s x))) (i_h (t_c (fi_s x'))) /\
                                  hinv (t_c (fi_s x')) LL' /\ dch (i_h (t_c (fi_s x'))) = L'
  | inr (x', n', sp') => exists L' LL' i', st_ok (fi_s x') L' /\ kle (i_h (t_c (fi_s x))) (i_h (t_c (fi_s x'))) /\
                                           scan_inv line l0 i' n' sp' (fi_s x') /\
                                           hinv (t_c (fi_s x')) LL' /\ dch (i_h (t_c (fi_s x'))) = L'
  end.
Proof.
  induction fuel as [|f IH]; intros line i line_length n escaped start_pos x out l0 L LL H Hs Hi HS Hinv;
    cbn [scan_lineF] in H; [discriminate|].
  assert (Hstop : exists L' LL' i', st_ok (fi_s x) L' /\ kle (i_h (t_c (fi_s x))) (i_h (t_c (fi_s x))) /\
                                     scan_inv line l0 i' n start_pos (fi_s x) /\
                                     hinv (t_c (fi_s x)) LL' /\ dch (i_h (t_c (fi_s x))) = L').
  { exists L, LL, i. split; [exact Hs|]. split; [apply kle_refl|]. auto. }
  destruct (line_length <=? i); [inversion H; subst out; exact Hstop|].
  destruct (zskip i line) as [|c tl] eqn:Ez; [inversion H; subst out; exact Hstop|].
  destruct (N.eqb c 10); [inversion H; subst out; exact Hstop|].
  assert (Hi' : i < zlen line).
  { pose proof (zlen_zskip i line) as Hz. rewrite Ez, zlen_cons in Hz. pose proof (zlen_nonneg tl). destruct Hinv. lia. }
  match type of H with (_ <- ?X ;; _) = _ => destruct X as [r| |] eqn:Er end; cbn [bind] in H; try discriminate.
  (* the consultation of the inline parsers *)
  assert (Hr : match r with
               | inl x' => exists L' LL', st_ok (fi_s x') L' /\ kle (i_h (t_c (fi_s x))) (i_h (t_c (fi_s x'))) /\
                                          hinv (t_c (fi_s x')) LL' /\ dch (i_h (t_c (fi_s x'))) = L'
               | inr (x', n', sp') => exists L' LL', st_ok (fi_s x') L' /\ kle (i_h (t_c (fi_s x))) (i_h (t_c (fi_s x'))) /\
                                                     scan_inv line l0 i n' sp' (fi_s x') /\
                                                     hinv (t_c (fi_s x')) LL' /\ dch (i_h (t_c (fi_s x'))) = L'
               end).
  { match type of Er with match ?IPS with [] => _ | _ => _ end = _ => destruct IPS as [|ip0 ips0] eqn:Eips end.
    { inversion Er; subst r. exists L, LL. split; [exact Hs|]. split; [apply kle_refl|]. auto. }
    set (s := fi_s x) in *.
    destruct Hs as [Hc Hrd]. destruct Hinv as [I1 I2 I3 I4 I5 I6 I7].
    destruct (b_advance (t_r s) n) as [rd| |] eqn:Ea; cbn [bind] in Er; try discriminate.
    assert (Hfast : b_line rd = b_line (t_r s) /\ s_start (b_pos rd) = s_start (b_pos (t_r s)) + n /\
                    s_stop (b_pos rd) = s_stop (b_pos (t_r s))).
    { eapply ri_advance_fast; [exact Hrd| |exact Ea]. lia. }
    destruct Hfast as (Fl & Fs & Fe).
    assert (Hin : b_in_range (t_r s) = true) by (apply (ri_in_range_intro space_table norm src lines Hsp32 Hsp10); [exact Hrd|lia|lia]).
    destruct (ri_advance_in src lines (t_r s) n rd Hrd Hin) as [Hrd1 _]; [lia|exact Ea|].
    cbn [ist_r t_c t_r] in Er.
    (* flushing the pending text *)
    match type of Er with (_ <- ?X ;; _) = _ => destruct X as [[s1 sp1]| |] eqn:Et end; cbn [bind] in Er; try discriminate.
    assert (Ht : exists L1, st_ok s1 L1 /\ kle (i_h (t_c s)) (i_h (t_c s1)) /\ t_r s1 = rd /\
                 0 <= s_start sp1 <= s_start (b_pos rd) /\ s_pad sp1 = 0 /\ hinv (t_c s1) LL /\ dch (i_h (t_c s1)) = L1).
    { destruct (negb (i =? 0)).
      - destruct (seg_between start_pos (b_pos rd)) as [bt| |] eqn:Eb; cbn [bind] in Et; try discriminate.
        destruct (merge_or_append (t_c s) 0%nat bt) as [c'| |] eqn:Em; cbn [bind] in Et; try discriminate.
        inversion Et; subst s1 sp1. clear Et.
        assert (Hbt : seg_in src bt = true).
        { unfold seg_between in Eb. destruct (s_stop start_pos =? s_stop (b_pos rd)); [|discriminate Eb]. inversion Eb; subst bt.
          pose proof (ri_bounds _ _ _ Hrd1). apply seg_in_intro; cbn [mksegp s_start s_stop s_pad]; try lia.
          rewrite I7, (ri_pad _ _ _ Hrd1). lia. }
        destruct (nstep_neutral src _ _ (fun Hh => merge_or_append_ok src _ _ _ _ Em Hh Hbt) [] L Hc) as [Hc' Hk'].
        destruct (merge_or_append_g _ _ _ _ Em (h_tree _ _ (proj1 Hc))) as (G & _ & ED & _ & _ & _ & F3 & F4).
        exists L. split; [split; [exact Hc'|exact Hrd1]|]. split; [exact Hk'|]. split; [reflexivity|].
        split; [pose proof (ri_bounds _ _ _ Hrd1); lia|]. split; [exact (ri_pad _ _ _ Hrd1)|]. cbn [ist_c t_c].
        split; [eapply hinv_gstep; eassumption|congruence].
      - inversion Et; subst s1 sp1. exists L. split; [split; [exact Hc|exact Hrd1]|]. split; [apply kle_refl|].
        split; [reflexivity|]. split; [lia|]. split; [exact I7|]. auto. }
    destruct Ht as (L1 & Hs1 & Hk1 & Er1 & Hsp1 & Hpad1 & Hi1 & HS1).
    destruct (TRYF (ip0 :: ips0) (fist_s x s1) 0%nat (b_line rd) (b_pos rd)) as [[x2 node]| |] eqn:Etry; cbn [bind] in Er; try discriminate.
    destruct (try_inlineF_k rd Hrd1 _ (fist_s x s1) _ _ L1 LL Hs1 Hi1 HS1 ltac:(cbn [fi_s fist_s]; rewrite Er1; reflexivity)
                ltac:(cbn [fi_s fist_s]; rewrite Er1; reflexivity) Etry)
      as [(L2 & LL2 & Hs2 & Hk2 & Hres2 & Hi2 & Hpe2) Hpos2].
    cbn [fi_s fist_s] in Hs2, Hk2, Hres2, Hi2, Hpe2.
    destruct node as [nd|].
    - destruct (i_append (i_h (t_c (fi_s x2))) 0%nat nd) as [h| |] eqn:Eap; cbn [bind] in Er; try discriminate.
      inversion Er; subst r. clear Er. destruct Hs2 as [Hc2 Hr2].
      pose proof (i_append_spec _ _ _ _ Eap (h_tree _ _ (proj1 Hc2))) as Hat.
      assert (Hpar2 : pok (i_h (t_c (fi_s x2))) 0%nat) by (apply (pok_root space_table norm src Hsp32 Hsp10); exact (hi_g _ _ Hi2)).
      destruct (ctx_attach src _ _ _ _ _ _ Hc2 Hat (pok_edge _ _ _ Hpar2)) as [Hc3 Hk3].
      { destruct (Hres2 nd eq_refl) as [Hn|Hn]; [left; exact Hn|right; left; exact Hn]. }
      destruct (append_result_k space_table norm _ _ _ _ _ Eap (h_tree _ _ (proj1 Hc2)) Hi2 Hpe2) as [Hi3 HS3].
      cbn [fi_s fist_s].
      exists L2, LL2. split; [split; [exact Hc3|exact Hr2]|]. cbn [ist_c t_c cx_h i_h].
      split; [eapply kle_trans; [exact Hk1|]; eapply kle_trans; [exact Hk2|exact Hk3]|]. split; [exact Hi3|exact HS3].
    - inversion Er; subst r. clear Er. destruct (Hpos2 eq_refl) as [Pl Pp].
      exists L2, LL2. split; [exact Hs2|]. split; [eapply kle_trans; eassumption|]. split; [|split; [exact Hi2|exact Hpe2]].
      constructor; rewrite ?Pl, ?Pp; try lia; try exact Hpad1. }
  destruct r as [x1|[[x1 n1] sp1]].
  - inversion H; subst out. exact Hr.
  - destruct Hr as (L1 & LL1 & Hs1 & Hk1 & Hinv1 & Hi1 & HS1).
    assert (Hnext : forall esc, SCANF f line (i + 1) line_length (n1 + 1) esc sp1 x1 0%nat = Ok out ->
             match out with
             | inl (x', _) => exists L' LL', st_ok (fi_s x') L' /\ kle (i_h (t_c (fi_s x))) (i_h (t_c (fi_s x'))) /\
                                             hinv (t_c (fi_s x')) LL' /\ dch (i_h (t_c (fi_s x'))) = L'
             | inr (x', n', sp') => exists L' LL' i', st_ok (fi_s x') L' /\ kle (i_h (t_c (fi_s x))) (i_h (t_c (fi_s x'))) /\
                                                      scan_inv line l0 i' n' sp' (fi_s x') /\
                                                      hinv (t_c (fi_s x')) LL' /\ dch (i_h (t_c (fi_s x'))) = L'
             end).
    { intros esc Hsc.
      assert (Hi1' : scan_inv line l0 (i + 1) (n1 + 1) sp1 (fi_s x1)).
      { destruct Hinv1 as [I1 I2 I3 I4 I5 I6 I7]. constructor; try lia; assumption. }
      pose proof (IH line (i + 1) line_length (n1 + 1) esc sp1 x1 out l0 L1 LL1 Hsc Hs1 Hi1 HS1 Hi1') as IHr.
      destruct out as [[x' e']|[[x' n'] sp']].
      - destruct IHr as (L' & LL' & Hs' & Hk' & Hx). exists L', LL'. split; [exact Hs'|]. split; [eapply kle_trans; eassumption|exact Hx].
      - destruct IHr as (L' & LL' & i' & Hs' & Hk' & Hx). exists L', LL', i'. split; [exact Hs'|]. split; [eapply kle_trans; eassumption|exact Hx]. }
    destruct escaped; [apply Hnext in H; exact H|]. destruct (N.eqb c 92); apply Hnext in H; exact H.
Qed.

(* ---------- parseBlock: the loop over the lines ---------- *)
Lemma parse_block_loopF_k : forall fuel x escaped x' L LL, LOOPF fuel x 0%nat escaped = Ok x' ->
  st_ok (fi_s x) L -> hinv (t_c (fi_s x)) LL -> dch (i_h (t_c (fi_s x))) = L ->
  exists L' LL', st_ok (fi_s x') L' /\ kle (i_h (t_c (fi_s x))) (i_h (t_c (fi_s x'))) /\
                 hinv (t_c (fi_s x')) LL' /\ dch (i_h (t_c (fi_s x'))) = L'.
Proof.
  induction fuel as [|f IH]; intros x escaped x' L LL H Hs Hi HS; cbn [parse_block_loopF] in H; [discriminate|].
  destruct Hs as [Hc Hr]. set (s := fi_s x) in *.
  destruct (b_peek_line (t_r s)) as [[[r1 line] sg]| |] eqn:Ep; cbn [bind] in H; try discriminate.
  destruct (ri_peek _ _ _ _ _ _ Hr Ep) as (-> & -> & Hline).
  destruct line as [line|].
  2:{ inversion H; subst x'. cbn [fi_s fist_s ist_r t_c]. exists L, LL. split; [split; assumption|]. split; [apply kle_refl|]. auto. }
  destruct Hline as (Hin & Hv & Hl & Hp0 & Hp1 & Hp2 & Hlt).
  match type of H with context [match ?X with pair _ _ => _ end] =>
    match type of X with (Z * bool * bool * bool)%type => destruct X as [[[line_length hard] visible] soft] end end.
  cbn [fi_s fist_s ist_r t_c t_r] in H.
  destruct (SCANF (S (length line)) line 0 line_length 0 escaped (b_pos (t_r s)) (fist_s x (ist_r s (t_r s))) 0%nat) as [out| |] eqn:Esc;
    cbn [bind] in H; try discriminate.
  assert (Hinv0 : scan_inv line (b_line (t_r s)) 0 0 (b_pos (t_r s)) (fi_s (fist_s x (ist_r s (t_r s))))).
  { pose proof (zlen_nonneg line). constructor; cbn [fi_s fist_s ist_r t_r]; try lia; try reflexivity. exact (ri_pad _ _ _ Hr). }
  pose proof (scan_lineF_k _ _ _ _ _ _ _ _ _ _ L LL Esc (conj Hc Hr) Hi HS Hinv0) as Hout.
  destruct out as [[x1 esc]|[[x1 n] sp]].
  - destruct Hout as (L1 & LL1 & Hs1 & Hk1 & Hi1 & HS1). cbn [fi_s fist_s ist_r t_c] in Hk1.
    destruct (IH _ _ _ L1 LL1 H Hs1 Hi1 HS1) as (L2 & LL2 & Hs2 & Hk2 & Hx).
    exists L2, LL2. split; [exact Hs2|]. split; [eapply kle_trans; eassumption|exact Hx].
  - destruct Hout as (L1 & LL1 & i' & [Hc1 Hr1] & Hk1 & [I1 I2 I3 I4 I5 I6 I7] & Hi1 & HS1). cbn [fi_s fist_s ist_r t_c] in Hk1.
    set (s1 := fi_s x1) in *.
    assert (Hpar1 : pok (i_h (t_c s1)) 0%nat) by (apply (pok_root space_table norm src Hsp32 Hsp10); exact (hi_g _ _ Hi1)).
    match type of H with (_ <- ?X ;; _) = _ => destruct X as [r2| |] eqn:Ea end; cbn [bind] in H; try discriminate.
    assert (Hr2 : RI r2 /\ pos_le (t_r s1) r2).
    { destruct (negb (n =? 0)) eqn:En.
      - apply negb_true_iff, Z.eqb_neq in En.
        assert (Hin1 : b_in_range (t_r s1) = true) by (apply (ri_in_range_intro space_table norm src lines Hsp32 Hsp10); [exact Hr1|lia|lia]).
        eapply ri_advance_in; [exact Hr1|exact Hin1| |exact Ea]. lia.
      - inversion Ea; subst r2. split; [exact Hr1|apply pos_le_refl]. }
    destruct Hr2 as [Hr2 Hpos2]. cbn [fi_s fist_s ist_r t_c t_r] in H.
    destruct (negb (b_line (t_r s) =? b_line r2)) eqn:Eline.
    { destruct (IH _ _ _ L1 LL1 H) as (L2 & LL2 & Hs2 & Hk2 & Hx); [split; [exact Hc1|exact Hr2]|exact Hi1|exact HS1|].
      exists L2, LL2. split; [exact Hs2|]. split; [eapply kle_trans; eassumption|exact Hx]. }
    apply negb_false_iff, Z.eqb_eq in Eline.
    destruct (seg_between sp (b_pos r2)) as [diff| |] eqn:Eb; cbn [bind] in H; try discriminate.
    assert (Hdiff : seg_in src diff = true).
    { unfold seg_between in Eb. destruct (s_stop sp =? s_stop (b_pos r2)); [|discriminate Eb]. inversion Eb; subst diff.
      destruct Hpos2 as [_ Hp2']. destruct (Hp2' ltac:(lia)) as [Hle _].
      pose proof (ri_bounds _ _ _ Hr2). apply seg_in_intro; cbn [mksegp s_start s_stop s_pad]; try lia.
      rewrite I7, (ri_pad _ _ _ Hr2). lia. }
    match type of H with (_ <- ?X ;; _) = _ => destruct X as [[c2 tseg]| |] eqn:Et end; cbn [bind] in H; try discriminate.
    assert (Ht : ctx_ok src [] c2 L1 /\ kle (i_h (t_c s1)) (i_h c2) /\ seg_in src tseg = true /\ hinv c2 LL1 /\ dch (i_h c2) = L1).
    { assert (Hsame : forall tg, seg_in src tg = true -> ctx_ok src [] (t_c s1) L1 /\ kle (i_h (t_c s1)) (i_h (t_c s1)) /\ seg_in src tg = true /\
                        hinv (t_c s1) LL1 /\ dch (i_h (t_c s1)) = L1).
      { intros tg Htg. split; [exact Hc1|]. split; [apply kle_refl|]. auto. }
      destruct (hard && visible); [inversion Et; subst c2 tseg; apply Hsame; exact Hdiff|].
      rewrite (ri_src _ _ _ Hr2) in Et.
      destruct (seg_trim_right_space space_table src diff) as [trimmed| |] eqn:Etr; cbn [bind] in Et; try discriminate.
      pose proof (trim_right_in space_table norm src Hsp32 Hsp10 _ _ Hdiff Etr) as Htrim.
      destruct (seg_is_empty trimmed); [|inversion Et; subst c2 tseg; apply Hsame; exact Htrim].
      destruct (iget (i_h (t_c s1)) 0%nat) as [pn| |]; cbn [bind] in Et; try discriminate.
      destruct (last_id (ich pn)) as [lst|]; [|inversion Et; subst c2 tseg; apply Hsame; exact Htrim].
      destruct (iget (i_h (t_c s1)) lst) as [ln| |] eqn:Eg; cbn [bind] in Et; try discriminate.
      apply iget_kd in Eg. destruct Eg as (Ekl & _).
      destruct (ik ln) as [|ts sf hd raw| | | | | | | |]; try (inversion Et; subst c2 tseg; apply Hsame; exact Htrim).
      destruct (_ && _ && _ && _); [|inversion Et; subst c2 tseg; apply Hsame; exact Htrim].
      destruct (seg_trim_right_space space_table src ts) as [ts'| |] eqn:Ets; cbn [bind] in Et; try discriminate.
      destruct (iupd (i_h (t_c s1)) lst _) as [h| |] eqn:Eu; cbn [bind] in Et; try discriminate.
      inversion Et; subst c2 tseg. clear Et.
      pose proof (iupd_kind_step _ _ _ _ Eu) as Hst.
      pose proof (h_kind _ _ (proj1 Hc1) lst _ Ekl) as Hko. cbn in Hko.
      destruct (ctx_kind src _ _ _ _ _ _ _ Hc1 Hst Ekl eq_refl) as [Hc2 Hk2]; [cbn; lia|cbn; eapply (trim_right_in space_table norm src Hsp32 Hsp10); eassumption|].
      destruct (kind_gstep _ _ _ _ _ Hst Ekl eq_refl ltac:(cbn; lia) (h_tree _ _ (proj1 Hc1))) as (G & _ & ED & _).
      split; [exact Hc2|]. split; [exact Hk2|]. split; [exact Htrim|]. cbn [i_h cx_h].
      split; [eapply (hinv_gstep (t_c s1) (cx_h (t_c s1) h)); [exact Hi1|exact G|reflexivity|reflexivity]|congruence]. }
    destruct Ht as (Hc2 & Hk2 & Htseg & Hi2 & HS2).
    destruct (new_inode c2 (IText tseg soft hard false)) as [c3 tx] eqn:En.
    destruct (i_append (i_h c3) 0%nat tx) as [h4| |] eqn:Eap; cbn [bind] in H; try discriminate.
    destruct (b_advance_line r2) as [r3| |] eqn:Eal; cbn [bind] in H; try discriminate.
    destruct (ctx_new src _ _ _ _ _ _ En Htseg Hc2) as (Hc3 & Hk3 & _ & Kx & _).
    pose proof (i_append_spec _ _ _ _ Eap (h_tree _ _ (proj1 Hc3))) as Hat.
    destruct (ctx_attach src _ _ _ _ _ _ Hc3 Hat) as [Hc4 Hk4].
    { eapply text_edge. exact Kx. }
    { left. eapply kd_dlk_none; [exact Kx|cbn; lia]. }
    destruct (fresh_append_g c2 _ 0%nat c3 tx h4 (h_tree _ _ (proj1 Hc2)) (plain_text _ _ _ _) (ginv_pos _ (hi_g _ _ Hi2)) En Eap)
      as (G4 & _ & ED4 & _).
    destruct (new_inode_view _ _ _ _ En) as (_ & _ & _ & _ & F3 & F4 & _).
    destruct (ri_advance_line _ _ _ _ Hr2 Eal) as (Hr3 & _).
    assert (Hk04 : kle (i_h (t_c s)) h4).
    { eapply kle_trans; [exact Hk1|]. eapply kle_trans; [exact Hk2|]. eapply kle_trans; [exact Hk3|exact Hk4]. }
    destruct (IH (fist_s x1 {| t_c := cx_h c3 h4; t_r := r3 |}) false x' L1 LL1 H) as (L2 & LL2 & Hs2 & Hk5 & Hx).
    + cbn [fi_s fist_s]. split; [exact Hc4|exact Hr3].
    + cbn [fi_s fist_s t_c]. eapply (hinv_gstep c2 (cx_h c3 h4)); [exact Hi2|exact G4|exact F3|exact F4].
    + cbn [fi_s fist_s t_c cx_h i_h]. congruence.
    + exists L2, LL2. split; [exact Hs2|]. split; [eapply kle_trans; [exact Hk04|exact Hk5]|exact Hx].
Qed.

End KP.
