(* Leaf blocks, inline phase: attaching the inline children to the block trees of a leaf-block
   document (SpecLeafBytes.ldoc_blocks) yields SpecLeafBytes.ldoc_full.  Paragraphs and headings get
   one text node per line (SpecParaInline.para_inline); thematic breaks and fenced code blocks
   carry no inline content. *)
Require Import GM.model.Base GM.model.Util GM.model.UtilI GM.model.Reader GM.model.HtmlWriter GM.model.Html GM.model.HtmlI
               GM.model.SpecDoc GM.model.BlockParse GM.model.InlineParse GM.model.ParseI.
Require Import GM.gen.Tables GM.gen.Entities GM.gen.Filters.
Require Import GM.proofs.SpecParaBytes GM.proofs.SpecParaInline GM.proofs.SpecParaRender GM.proofs.SpecParaCompose
               GM.proofs.SpecLeafBytes.
From Coq Require Import List NArith ZArith Bool Lia.
Import ListNotations.
Open Scope Z_scope.

(* ---------- one block ---------- *)
Lemma attach_lblock refs b pre post : lblock_ok b = true ->
  attach_inlines (InlineChildren refs (pre ++ lblock_src b ++ post)) (lblock_tree (zlen pre) b)
  = Ok (lblock_full (zlen pre) b).
Proof.
  intros Hb. unfold lblock_tree, lblock_full. rewrite attach_inlines_eq.
  destruct b as [p|lv t|ch|info ls]; cbn [lblock_ok] in Hb;
    cbn [lblock_kind lblock_lines lblock_kids lblock_src has_inlines attach_list bind].
  - rewrite (para_inline refs pre p post _ Hb eq_refl). reflexivity.
  - apply andb_true_iff in Hb. destruct Hb as [_ Ht].
    assert (Hp : para_ok [t] = true) by (apply para_ok_cons; [exact Ht|reflexivity]).
    assert (Hsrc : pre ++ (hashes lv ++ [32%N] ++ t) ++ post = (pre ++ hashes lv ++ [32%N]) ++ para_src [t] ++ post).
    { change (para_src [t]) with t. rewrite <- !app_assoc. reflexivity. }
    assert (Hlen : zlen (pre ++ hashes lv ++ [32%N]) = zlen pre + Z.of_N lv + 1).
    { rewrite !zlen_app, zlen_hashes, zlen_cons, zlen_nil. lia. }
    pose proof (para_inline refs (pre ++ hashes lv ++ [32%N]) [t] post _ Hp Hsrc) as H.
    rewrite Hlen in H. cbn [para_segs para_texts] in H. rewrite H. reflexivity.
  - reflexivity.
  - reflexivity.
Qed.

(* ---------- the blocks of a document ---------- *)
Lemma attach_ldoc_blocks refs d : forall pre post, forallb lblock_ok d = true ->
  attach_list (InlineChildren refs (pre ++ ldoc_body d ++ post)) (ldoc_blocks (zlen pre) d) = Ok (ldoc_full (zlen pre) d).
Proof.
  induction d as [|b r IH]; intros pre post Hd; [reflexivity|].
  cbn [forallb] in Hd. apply andb_true_iff in Hd. destruct Hd as [Hb Hr].
  cbn [ldoc_blocks ldoc_full attach_list].
  destruct r as [|b' r'].
  - change (ldoc_body [b]) with (lblock_src b).
    rewrite (attach_lblock refs b pre post Hb). cbn [bind ldoc_blocks ldoc_full attach_list]. reflexivity.
  - rewrite ldoc_body_cons2.
    rewrite <- (app_assoc (lblock_src b) ([10%N;10%N] ++ ldoc_body (b' :: r')) post).
    rewrite (attach_lblock refs b pre _ Hb). cbn [bind].
    replace (pre ++ lblock_src b ++ ([10%N; 10%N] ++ ldoc_body (b' :: r')) ++ post)
      with ((pre ++ lblock_src b ++ [10%N;10%N]) ++ ldoc_body (b' :: r') ++ post)
      by (rewrite <- !app_assoc; reflexivity).
    replace (zlen pre + zlen (lblock_src b) + 2) with (zlen (pre ++ lblock_src b ++ [10%N;10%N])).
    2:{ rewrite !zlen_app. change (zlen [10%N;10%N]) with 2. lia. }
    rewrite (IH (pre ++ lblock_src b ++ [10%N;10%N]) post Hr). cbn [bind]. reflexivity.
Qed.
