(* Fork of proofs/ParseInlineTotalParsers.v over the reader invariant RI of proofs/TypoDefWfTotInlRd.v (the first line of the
   block may have padding); the text below is that of the original, only the imports differ. *)
(* The inline parsers over the state invariant SInv: emphasis, autolink, raw HTML, code span. *)
Require Import GM.model.Base GM.model.Util GM.model.Reader GM.model.ReaderSpec GM.model.ListItem GM.model.LeafBlocks
               GM.model.CodeSpan GM.model.LinkDest GM.model.Regex GM.model.Delim GM.model.BlockParse GM.model.Html GM.model.InlineParse.
Require Import GM.proofs.BReaderProofs GM.proofs.BlockRangeProofs GM.proofs.RegexProofs.
Require Import GM.proofs.ParseInlineTotalHeap GM.proofs.ParseInlineTotalDelim GM.proofs.ParseInlineTotalEmph
               GM.proofs.ParseInlineTotalLabel GM.proofs.ParseInlineTotalCtx GM.proofs.ParseInlineTotalTree
               GM.proofs.TypoDefWfTotInlRd GM.proofs.TypoDefWfTotInlRd2.
From Coq Require Import ZArith Lia List Arith.
Import ListNotations.
Open Scope Z_scope.

Section St.
Variable src : bytes.
Variable segs : list seg.
Variable first : seg.
Hypothesis Hfirst : hd_error segs = Some first.
Notation lo := (s_start first).
Notation CInv := (CInv src lo).
Notation RI := (RI src segs).
Notation KOK := (KOK src lo).

(* every label on the list ends at or before z *)
Definition lab_le (h : iheap) (ll : list nat) (z : Z) : Prop :=
  forall y sg im p n f l, In y ll -> kd h y = Some (ILabel sg im p n f l) -> s_stop sg <= z.

(* the two potentials tied to the reader: delimiter lengths + unread bytes, and the label ends *)
Definition Bnd (c : ictx) (dl ll : list nat) (r : breader) : Prop :=
  Z.of_nat (sumlen (i_h c) dl) + zlen (b_rest r) <= zlen src /\ lab_le (i_h c) ll (s_start (b_pos r)).

Record SInv (s : ist) (dl ll : list nat) : Prop := {
  si_c : CInv (t_c s) dl ll;
  si_r : RI (t_r s);
  si_b : Bnd (t_c s) dl ll (t_r s)
}.

Lemma lab_le_mono h ll z z' : z <= z' -> lab_le h ll z -> lab_le h ll z'.
Proof. intros Hz H y sg im p n f l Hy Hk. specialize (H _ _ _ _ _ _ _ Hy Hk). lia. Qed.
Lemma Bnd_rle c dl ll r r' : Bnd c dl ll r -> rle r r' -> Bnd c dl ll r'.
Proof. intros [B1 B2] [R1 R2]. split; [lia|]. eapply lab_le_mono; eassumption. Qed.
Lemma lab_le_lv h h' ll z : (forall y, lv h' y = lv h y) -> lab_le h ll z -> lab_le h' ll z.
Proof.
  intros E H y sg im p n f l Hy Hk. apply (lv_kd h h' y (E y)) in Hk; [|reflexivity]. exact (H _ _ _ _ _ _ _ Hy Hk).
Qed.
Lemma Bnd_same_pos c dl ll r r' : RI r -> RI r' -> b_line r' = b_line r -> b_pos r' = b_pos r -> Bnd c dl ll r -> Bnd c dl ll r'.
Proof.
  intros HR HR' L P [B1 B2]. destruct (ri_same_pos src segs r' r HR' HR L P) as (_ & _ & Er).
  split; [rewrite Er; exact B1|rewrite P; exact B2].
Qed.

(* what a parser leaves behind *)
Definition PPost (s : ist) (s' : ist) (res : option nat) : Prop :=
  match res with
  | None => exists dl' ll', CInv (t_c s') dl' ll' /\ RI (t_r s') /\ Bnd (t_c s') dl' ll' (t_r s)
  | Some nd => exists dl' ll' h'', i_append (i_h (t_c s')) 0 nd = Ok h'' /\
                 SInv (ist_c s' (cx_h (t_c s') h'')) dl' ll' /\
                 zlen (b_rest (t_r s')) < zlen (b_rest (t_r s))
  end.

Lemma PPost_none_same s dl ll : SInv s dl ll -> PPost s s None.
Proof. intros [C R B]. exists dl, ll. auto. Qed.

(* a fresh node that is neither delimiter nor label, appended under the block *)
Lemma CInv_fresh_root c dl ll k : CInv c dl ll -> KOK k -> is_dk k = false -> is_lk k = false ->
  exists h', i_append (i_h c ++ [fresh k]) 0 (length (i_h c)) = Ok h' /\ CInv (cx_h c h') dl ll /\
    dl_same (i_h c) h'.
Proof.
  intros Iv Kk Hd Hl. pose proof (ci_d _ _ _ _ _ Iv) as [W K A D].
  destruct (fresh_append_spec src lo c 0%nat k W K A (w_len _ W) Kk Hd Hl) as (h' & E & W' & K' & A' & DS & L' & Pn & _).
  exists h'. split; [exact E|]. split; [|exact DS].
  eapply CInv_tree; [exact Iv| | | | | |]; cbn [i_h cx_h]; try assumption.
  - apply ctx_same_cx_h.
  - intros y Hy. rewrite Pn; [tauto|]. destruct Hy as [Hy|Hy]; [apply isdk_lt in Hy|apply islk_lt in Hy]; exact Hy.
Qed.

(* the state after a parser that only read: a fresh result node, the reader moved forward *)
Lemma PPost_fresh s dl ll k r' : SInv s dl ll -> KOK k -> is_dk k = false -> is_lk k = false ->
  RI r' -> rle (t_r s) r' -> zlen (b_rest r') < zlen (b_rest (t_r s)) ->
  PPost s {| t_c := cx_h (t_c s) (i_h (t_c s) ++ [fresh k]); t_r := r' |} (Some (length (i_h (t_c s)))).
Proof.
  intros [C R B] Kk Hd Hl HR' Hle Hlt.
  destruct (CInv_fresh_root (t_c s) dl ll k C Kk Hd Hl) as (h' & E & C' & DS).
  exists dl, ll, h'. cbn [t_c t_r i_h cx_h ist_c]. split; [exact E|]. split; [|exact Hlt].
  constructor; cbn [t_c t_r ist_c].
  - exact C'.
  - exact HR'.
  - destruct B as [B1 B2]. split; cbn [i_h cx_h].
    + rewrite (sumlen_frame (i_h (t_c s)) h') by (intros y _; apply dcoreh_dv; exact (proj1 DS)). destruct Hle. lia.
    + eapply lab_le_lv; [exact (proj2 DS)|]. eapply lab_le_mono; [|exact B2]. destruct Hle. lia.
Qed.

(* ---------- emphasis.go ---------- *)
Lemma scan_delimiter_ok pr sr isd line before m : line <> [] ->
  exists v, scan_delimiter pr sr isd line before m = Ok v.
Proof.
  intros Hne. destruct line as [|c r]; [contradiction|]. unfold scan_delimiter. cbv zeta.
  destruct (negb (isd c)); [eexists; reflexivity|].
  pose proof (br_count_byte_head c r) as Hj.
  destruct (count_byte c (c :: r) <? m); [eexists; reflexivity|].
  destruct (Z.eqb_spec (count_byte c (c :: r)) (zlen (c :: r))) as [E|E].
  - cbn [bind]. destruct (N.eqb c 95); eexists; reflexivity.
  - assert (Hr : exists a, to_rune (c :: r) (count_byte c (c :: r)) = Ok a).
    { unfold to_rune. destruct (Z.ltb_spec (count_byte c (c :: r)) 0); [eexists; reflexivity|].
      destruct (Z.leb_spec (zlen (c :: r)) (count_byte c (c :: r))); [lia|].
      destruct (rune_start_before _ _); eexists; reflexivity. }
    destruct Hr as [a Ea]. rewrite Ea. cbn [bind]. destruct (N.eqb c 95); eexists; reflexivity.
Qed.

Lemma SInv_ist_r_same s dl ll : SInv s dl ll -> SInv (ist_r s (t_r s)) dl ll.
Proof. intros [C R B]. constructor; assumption. Qed.
Lemma PPost_none_r s dl ll : SInv s dl ll -> PPost s (ist_r s (t_r s)) None.
Proof. intros [C R B]. exists dl, ll. auto. Qed.

Variable punct_rune space_rune : N -> bool.

Lemma emphasis_parse_spec s dl ll : SInv s dl ll -> b_in_range (t_r s) = true ->
  exists s' res, emphasis_parse punct_rune space_rune s = Ok (s', res) /\ PPost s s' res.
Proof.
  intros Iv Hin. pose proof Iv as [C R B]. unfold emphasis_parse.
  destruct (ri_preceding src segs (t_r s) R) as [before Eb]. rewrite Eb. cbn [bind].
  rewrite (ri_peek_line src segs _ R). cbn [bind]. rewrite Hin. cbn [line_of].
  destruct (ri_view src segs _ R Hin) as (_ & Elen & Hrange & Hstop & tl & Er).
  assert (Hne : b_view (t_r s) <> []).
  { intros X. rewrite X in Elen. change (zlen (@nil N)) with 0 in Elen. lia. }
  destruct (scan_delimiter_ok punct_rune space_rune (fun c => (N.eqb c 42 || N.eqb c 95)%bool) (b_view (t_r s)) before 1 Hne) as [d Ed].
  rewrite Ed. cbn [bind]. destruct d as [[[[co cc] len] ch]|].
  2:{ eexists _, None. split; [reflexivity|]. apply (PPost_none_r _ dl ll). exact Iv. }
  apply scan_delimiter_in_range in Ed. destruct Ed as (Hlen & _ & _).
  rewrite new_inode_eq. cbn [t_c t_r ist_r i_h cx_h].
  destruct (ri_advance_rle src segs (t_r s) len R) as (r1 & E1 & HR1 & Hle1 & Hrest1 & _).
  { rewrite Er, zlen_app. pose proof (zlen_nonneg tl). lia. }
  rewrite E1. cbn [bind].
  destruct (push_delim_append src lo (t_c s) dl ll (seg_with_stop (b_pos (t_r s)) (s_start (b_pos (t_r s)) + len)) co cc len len ch C)
    as (c2 & h4 & E2 & E4 & C4 & _ & SL4 & _ & LV4).
  { cbn. cbn [seg_with_stop mksegp s_start s_stop]. lia. }
  { lia. }
  rewrite E2. cbn [bind]. eexists _, (Some _). split; [reflexivity|].
  exists (dl ++ [length (i_h (t_c s))]), ll, h4. cbn [t_c t_r ist_c]. split; [exact E4|]. split; [|lia].
  constructor; cbn [t_c t_r ist_c].
  - exact C4.
  - exact HR1.
  - destruct B as [B1 B2]. split; cbn [i_h cx_h].
    + rewrite SL4. lia.
    + eapply lab_le_lv; [exact LV4|]. eapply lab_le_mono; [|exact B2]. destruct Hle1. lia.
Qed.

(* ---------- auto_link.go ---------- *)
Variable url_table email_table : list N.
Variable re_email_domain : re.

Lemma autolink_parse_spec s dl ll : SInv s dl ll -> b_in_range (t_r s) = true ->
  exists s' res, autolink_parse url_table email_table re_email_domain s = Ok (s', res) /\ PPost s s' res.
Proof.
  intros Iv Hin. pose proof Iv as [C R B]. unfold autolink_parse.
  rewrite (ri_peek_line src segs _ R). cbn [bind]. rewrite Hin.
  destruct (ri_view src segs _ R Hin) as (_ & Elen & Hrange & Hstop & tl & Er).
  destruct (b_view (t_r s)) as [|c0 vt] eqn:Ev.
  { change (zlen (@nil N)) with 0 in Elen. lia. }
  set (e := find_email_index email_table re_email_domain vt).
  destruct (if e <? 0 then (find_url_index url_table vt, false) else (e, true)) as [stop email].
  destruct (Z.ltb_spec stop 0) as [Hs|Hs].
  { eexists _, None. split; [reflexivity|]. apply (PPost_none_r _ dl ll). exact Iv. }
  cbn [line_of].
  destruct ((zlen (c0 :: vt) <=? stop + 1) || negb (N.eqb (nth_byte (c0 :: vt) (stop + 1)) 62))%bool eqn:Ec.
  { eexists _, None. split; [reflexivity|]. apply (PPost_none_r _ dl ll). exact Iv. }
  apply orb_false_elim in Ec. destruct Ec as [Ec _]. apply Z.leb_gt in Ec.
  rewrite new_inode_eq. cbn [t_c t_r ist_r i_h cx_h].
  destruct (ri_advance_rle src segs (t_r s) (stop + 1 + 1) R) as (r1 & E1 & HR1 & Hle1 & Hrest1 & _).
  { rewrite Er, zlen_app. pose proof (zlen_nonneg tl). lia. }
  rewrite E1. cbn [bind]. eexists _, (Some _). split; [reflexivity|].
  apply (PPost_fresh s dl ll); try assumption; try reflexivity; [|lia].
  cbn. unfold seg_in. cbn [mkseg s_start s_stop s_pad s_fnl]. lia.
Qed.

(* ---------- raw_html.go ---------- *)
Lemma segs_nonempty r : RI r -> b_in_range r = true -> segs <> [].
Proof.
  intros (Hb & _ & Eg & _) Hin X. apply in_range_true in Hin. rewrite Eg, X in Hin. change (zlen (@nil seg)) with 0 in Hin.
  pose proof (bi_line r Hb). lia.
Qed.

Lemma PPost_none_reader s dl ll r1 : SInv s dl ll -> RI r1 -> PPost s (ist_r s r1) None.
Proof. intros [C R B] HR1. exists dl, ll. cbn [t_c t_r ist_r]. auto. Qed.

Lemma raw_regexp_spec s dl ll rx : SInv s dl ll -> b_in_range (t_r s) = true -> re_nonempty rx = true ->
  exists s' res, raw_regexp s rx = Ok (s', res) /\ PPost s s' res.
Proof.
  intros Iv Hin Hrx. pose proof Iv as [C R B]. unfold raw_regexp.
  destruct (ri_raw_regexp_reader src segs (t_r s) R Hin) as (inp & r1 & Einp & E1 & HR1 & Hle1 & Hab).
  rewrite Einp. cbn [bind]. destruct (re_find rx inp) as [caps|] eqn:Ef.
  - destruct (re_find_range rx inp caps Ef) as (a & b & Ecap & Hab1 & Hb & Hne). rewrite Ecap.
    rewrite E1. cbn [bind].
    destruct (Hab a b Hab1 Hb) as (r2 & r3 & sgs & r4 & E2 & E3 & E4 & HR4 & Hle4 & Hlt4).
    rewrite E2. cbn [bind]. rewrite E3. cbn [bind]. rewrite E4. cbn [bind]. rewrite new_inode_eq.
    eexists _, (Some _). split; [reflexivity|].
    apply (PPost_fresh s dl ll); try assumption; try reflexivity; try exact Logic.I. apply Hlt4. apply Hne. exact Hrx.
  - rewrite E1. cbn [bind]. eexists _, None. split; [reflexivity|]. apply (PPost_none_reader s dl ll); assumption.
Qed.

Lemma raw_collect_spec s dl ll closer offset : SInv s dl ll -> b_in_range (t_r s) = true -> closer <> [] -> 0 <= offset ->
  exists s' res, raw_collect s closer offset = Ok (s', res) /\ PPost s s' res.
Proof.
  intros Iv Hin Hcl Hoff. pose proof Iv as [C R B]. unfold raw_collect.
  pose proof R as (Hb & _ & Eg & _).
  destruct (ri_raw_until src segs closer Hcl (S (length (b_segs (t_r s)))) (t_r s) offset [] R Hoff) as (res & Eres & Hres).
  { rewrite Eg. pose proof (bi_line _ Hb). unfold zlen. lia. }
  { lia. }
  rewrite Eres. cbn [bind]. destruct res as [[sgs r']|].
  - destruct Hres as (HR' & Hle' & Hlt'). rewrite new_inode_eq. eexists _, (Some _). split; [reflexivity|].
    apply (PPost_fresh s dl ll); try assumption; try reflexivity; try exact Logic.I.
  - destruct (ri_set_position src segs (t_r s) (t_r s) R R (segs_nonempty _ R Hin)) as (r1 & E1 & HR1 & _).
    rewrite E1. cbn [bind]. eexists _, None. split; [reflexivity|]. apply (PPost_none_reader s dl ll); assumption.
Qed.

Variable re_open_tag re_close_tag : re.
Hypothesis Hopen : re_nonempty re_open_tag = true.
Hypothesis Hclose : re_nonempty re_close_tag = true.

Lemma raw_html_parse_spec s dl ll : SInv s dl ll -> b_in_range (t_r s) = true ->
  exists s' res, raw_html_parse re_open_tag re_close_tag s = Ok (s', res) /\ PPost s s' res.
Proof.
  intros Iv Hin. pose proof Iv as [C R B]. unfold raw_html_parse.
  rewrite (ri_peek_line src segs _ R). cbn [bind]. rewrite Hin. cbn [line_of].
  destruct (ri_view src segs _ R Hin) as (_ & Elen & Hrange & Hstop & tl & Er).
  pose proof (SInv_ist_r_same s dl ll Iv) as Iv1.
  assert (Hin1 : b_in_range (t_r (ist_r s (t_r s))) = true) by exact Hin.
  assert (Hadv : forall n k, 1 <= n <= zlen (b_view (t_r s)) -> exists s' res,
     (let '(c, nd) := new_inode (t_c (ist_r s (t_r s))) (IRawHTML k) in
      r <- b_advance (t_r (ist_r s (t_r s))) n ;; Ok ({| t_c := c; t_r := r |}, Some nd)) = Ok (s', res) /\ PPost s s' res).
  { intros n k Hn. rewrite new_inode_eq. cbn [t_c t_r ist_r].
    destruct (ri_advance_rle src segs (t_r s) n R) as (r1 & E1 & HR1 & Hle1 & Hrest1 & _).
    { rewrite Er, zlen_app. pose proof (zlen_nonneg tl). lia. }
    rewrite E1. cbn [bind]. eexists _, (Some _). split; [reflexivity|].
    apply (PPost_fresh s dl ll); try assumption; try reflexivity; try exact Logic.I. lia. }
  assert (Hpost : forall s' res, PPost (ist_r s (t_r s)) s' res -> PPost s s' res) by (intros s' res X; exact X).
  destruct ((1 <? zlen (b_view (t_r s))) && is_alnum_b (nth_byte (b_view (t_r s)) 1))%bool.
  { destruct (raw_regexp_spec _ dl ll re_open_tag Iv1 Hin1 Hopen) as (s' & res & E & P). eauto. }
  destruct ((2 <? zlen (b_view (t_r s))) && N.eqb (nth_byte (b_view (t_r s)) 1) 47 && is_alnum_b (nth_byte (b_view (t_r s)) 2))%bool.
  { destruct (raw_regexp_spec _ dl ll re_close_tag Iv1 Hin1 Hclose) as (s' & res & E & P). eauto. }
  destruct (prefix_of open_comment (b_view (t_r s))) eqn:Eoc.
  { destruct (prefix_of empty_comment1 (b_view (t_r s))) eqn:E1.
    { apply prefix_of_len in E1. apply Hadv. change (zlen empty_comment1) with 5 in E1. lia. }
    destruct (prefix_of empty_comment2 (b_view (t_r s))) eqn:E2.
    { apply prefix_of_len in E2. apply Hadv. change (zlen empty_comment2) with 6 in E2. lia. }
    destruct (raw_collect_spec _ dl ll close_comment 4 Iv1 Hin1) as (s' & res & E & P); [discriminate|lia|]. eauto. }
  destruct (prefix_of open_pi (b_view (t_r s))).
  { destruct (raw_collect_spec _ dl ll close_pi 0 Iv1 Hin1) as (s' & res & E & P); [discriminate|lia|]. eauto. }
  destruct ((2 <? zlen (b_view (t_r s))) && N.eqb (nth_byte (b_view (t_r s)) 1) 33 &&
            ((65 <=? nth_byte (b_view (t_r s)) 2) && (nth_byte (b_view (t_r s)) 2 <=? 90))%N)%bool.
  { destruct (raw_collect_spec _ dl ll [62%N] 0 Iv1 Hin1) as (s' & res & E & P); [discriminate|lia|]. eauto. }
  destruct (prefix_of open_cdata (b_view (t_r s))).
  { destruct (raw_collect_spec _ dl ll close_cdata 0 Iv1 Hin1) as (s' & res & E & P); [discriminate|lia|]. eauto. }
  eexists _, None. split; [reflexivity|]. apply (PPost_none_r _ dl ll). exact Iv.
Qed.

(* ---------- code_span.go ---------- *)
Variable space_table : list N.

Definition cs_add (n : nat) :=
  fix add (l : list seg) (c : ictx) : result ictx :=
    match l with
    | [] => Ok c
    | sg :: t =>
      let '(c, x) := new_inode c (IText sg false false true) in
      h <- i_append (i_h c) n x ;; add t (cx_h c h)
    end.

Lemma cs_add_spec n dl ll : forall l c, CInv c dl ll -> (n < length (i_h c))%nat -> par (i_h c) n = None ->
  exists c', cs_add n l c = Ok c' /\ CInv c' dl ll /\ (length (i_h c) <= length (i_h c'))%nat /\
    par (i_h c') n = None /\ dl_same (i_h c) (i_h c') /\
    i_bottoms c' = i_bottoms c.
Proof.
  induction l as [|sg t IH]; intros c Iv Hn Hp.
  - exists c. split; [reflexivity|]. split; [exact Iv|]. split; [lia|]. split; [exact Hp|].
    split; [apply dl_same_refl|reflexivity].
  - cbn [cs_add]. rewrite new_inode_eq. cbn [i_h cx_h].
    pose proof (ci_d _ _ _ _ _ Iv) as [W K A D].
    destruct (fresh_append_spec src lo c n (IText sg false false true) W K A Hn) as (h' & E & W' & K' & A' & DS & L' & Pn & _ & Kx & _);
      [cbn; discriminate|reflexivity|reflexivity|].
    rewrite E. cbn [bind].
    assert (Iv' : CInv (cx_h (cx_h c (i_h c ++ [fresh (IText sg false false true)])) h') dl ll).
    { eapply CInv_tree; [exact Iv| | | | | |]; cbn [i_h cx_h]; try assumption.
      - repeat split.
      - intros y Hy. rewrite Pn; [tauto|]. destruct Hy as [Hy|Hy]; [apply isdk_lt in Hy|apply islk_lt in Hy]; exact Hy. }
    destruct (IH _ Iv') as (c' & E' & C' & L'' & P' & DS' & B'); cbn [i_h cx_h].
    + lia.
    + rewrite Pn by exact Hn. exact Hp.
    + exists c'. split; [exact E'|]. split; [exact C'|]. cbn [i_h cx_h] in *. split; [lia|]. split; [exact P'|].
      split; [eapply dl_same_trans; eassumption|exact B'].
Qed.

Lemma not_dl_of_same h h' n : dl_same h h' -> ~ isdk h n -> ~ islk h n -> ~ isdk h' n /\ ~ islk h' n.
Proof.
  intros [DV LV] H1 H2. split.
  - intros (k & Hk & Hd). apply H1. exists k. split; [|exact Hd]. apply (dv_kd h h' n (DV n) k Hd). exact Hk.
  - intros (k & Hk & Hl). apply H2. exists k. split; [|exact Hl]. apply (lv_kd h h' n (LV n) k Hl). exact Hk.
Qed.

Lemma code_span_parse_s_spec s dl ll : SInv s dl ll -> b_in_range (t_r s) = true -> hd 255%N (b_view (t_r s)) = 96%N ->
  exists s' res, code_span_parse_s space_table s = Ok (s', res) /\ PPost s s' res.
Proof.
  intros Iv Hin Hhd. pose proof Iv as [C R B]. unfold code_span_parse_s.
  destruct (ri_code_span_parse src segs space_table (t_r s) R Hin Hhd) as (res & r' & E & HR' & Hle & Hlt & Hres).
  rewrite E. cbn [bind]. destruct res as [sgs|sg].
  - rewrite new_inode_eq. set (n := length (i_h (t_c s))). set (c1 := cx_h (t_c s) (i_h (t_c s) ++ [fresh ICodeSpan])).
    fold (cs_add n).
    pose proof (ci_d _ _ _ _ _ C) as [W K A D].
    assert (C1 : CInv c1 dl ll).
    { eapply CInv_tree; [exact C| | | | | |]; cbn [c1 i_h cx_h].
      - apply hwf_snoc. exact W.
      - apply kokh_snoc; [exact K|exact Logic.I].
      - destruct A as [rk Rk]. exists rk. apply ranked_snoc. exact Rk.
      - repeat split.
      - apply dl_same_snoc; reflexivity.
      - intros y _. rewrite par_snoc. tauto. }
    assert (L1 : length (i_h c1) = S n) by (cbn [c1 i_h cx_h]; rewrite app_length; cbn; unfold n; lia).
    destruct (cs_add_spec n dl ll sgs c1 C1) as (c2 & E2 & C2 & L2 & P2 & DS2 & B2).
    { lia. }
    { cbn [c1 i_h cx_h]. rewrite par_snoc. apply par_ge_none. unfold n. lia. }
    rewrite E2. cbn [bind]. eexists _, (Some n). split; [reflexivity|].
    assert (Hn1 : ~ isdk (i_h c1) n /\ ~ islk (i_h c1) n).
    { cbn [c1 i_h cx_h]. split; intros (k & Hk & Hx); unfold n in Hk; rewrite kd_snoc_new in Hk; inversion Hk; subst k; discriminate. }
    destruct (not_dl_of_same _ _ n DS2 (proj1 Hn1) (proj2 Hn1)) as [Hn2a Hn2b].
    pose proof (w_len _ W) as Hpos.
    destruct (CInv_append_root src lo c2 dl ll n C2) as (h3 & E3 & C3 & SK3 & _); try assumption; try lia.
    exists dl, ll, h3. cbn [t_c t_r ist_c]. split; [exact E3|]. split; [|exact Hlt].
    assert (DS : dl_same (i_h (t_c s)) h3).
    { eapply dl_same_trans; [apply (dl_same_snoc (i_h (t_c s)) ICodeSpan); reflexivity|].
      eapply dl_same_trans; [exact DS2|apply dl_same_kinds; exact SK3]. }
    constructor; cbn [t_c t_r ist_c].
    + exact C3.
    + exact HR'.
    + destruct B as [B1 B2']. split; cbn [i_h cx_h].
      * rewrite (sumlen_frame (i_h (t_c s)) h3) by (intros y _; apply dcoreh_dv; exact (proj1 DS)). destruct Hle. lia.
      * eapply lab_le_lv; [exact (proj2 DS)|]. eapply lab_le_mono; [|exact B2']. destruct Hle. lia.
  - rewrite new_inode_eq. eexists _, (Some _). split; [reflexivity|].
    apply (PPost_fresh s dl ll); try assumption; try reflexivity.
    cbn. intros _. unfold seg_in. lia.
Qed.

End St.
