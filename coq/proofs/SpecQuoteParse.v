(* Block quotes around plain paragraphs: the block phase theorem on quoted documents, and the
   three phases composed: the Convert model on the source of a quoted document. *)
Require Import GM.model.Base GM.model.Util GM.model.UtilI GM.model.Reader GM.model.ListItem GM.model.Blocks GM.model.CodeBlock
               GM.model.Regex GM.model.BlockParse GM.model.SpecDoc GM.model.HtmlWriter GM.model.Html GM.model.HtmlI
               GM.model.InlineParse GM.model.ParseI.
Require Import GM.gen.Tables GM.gen.Regexes GM.proofs.SpecParaBytes GM.proofs.SpecParaReader GM.proofs.SpecParaBlocks GM.proofs.SpecParaBlocks2
               GM.proofs.SpecQuoteShape GM.proofs.SpecQuoteMachine GM.proofs.SpecQuoteReader GM.proofs.SpecQuoteSteps
               GM.proofs.SpecQuoteRel GM.proofs.SpecQuoteLoops2 GM.proofs.SpecQuoteRun
               GM.proofs.SpecQuoteTree GM.proofs.SpecQuoteInline GM.proofs.SpecQuoteRender.
From Coq Require Import List NArith ZArith Bool Lia.
Import ListNotations.
Open Scope Z_scope.

Lemma qdoc_lines_nonempty d : qbs_ok d = true -> qdoc_lines d <> [].
Proof.
  intros Hok. destruct (qbs_lines_head d [] (LSep None) Hok) as (ms & body & rest & E & _).
  unfold qdoc_lines. rewrite E. discriminate.
Qed.
Lemma qdoc_src_ltext d fin : qbs_ok d = true ->
  qdoc_src d fin = ltext (if fin then [10%N] else []) (qdoc_lines d).
Proof.
  intros Hok. unfold qdoc_src. rewrite ltext_join by (apply qdoc_lines_nonempty; exact Hok).
  rewrite (qdoc_lines_src d Hok). destruct fin; reflexivity.
Qed.

Theorem parse_blocks_quoted d fin : qbs_ok d = true ->
  exists s, ParseBlocks (qdoc_src d fin) = Ok s /\ map unblank (s_h s) = qdoc_heap d /\ c_refs (s_c s) = [].
Proof.
  intros Hok. set (tb := if fin then [10%N] else []). set (src := qdoc_src d fin).
  assert (Hsrc : src = ltext tb (qdoc_lines d)) by (apply qdoc_src_ltext; exact Hok).
  assert (Htb : term_ok tb []) by (unfold tb; destruct fin; [left; reflexivity|right; split; reflexivity]).
  set (m0 := {| s_h := [mknode BDocument 0]; s_c := init_ctx; s_r := new_reader src |}).
  assert (HR : Rel src 0 ainit m0 0 [] (ltext tb (qdoc_lines d))).
  { split; cbn [s_h s_c s_r m0 ainit a_off a_h a_q a_p app].
    - exact Hsrc.
    - reflexivity.
    - reflexivity.
    - exists []. reflexivity.
    - rewrite new_reader_suf, <- Hsrc. reflexivity.
    - constructor.
    - discriminate.
    - cbn [length]. lia. }
  destruct (main_doc ToLinkReference re_htmlBlockType1Open re_htmlBlockType1Close re_htmlBlockType2Open re_htmlBlockType3Open
              re_htmlBlockType4Open re_htmlBlockType5Open re_htmlBlockType6 re_htmlBlockType7 allowed_block_tags
              src tb (qdoc_lines d) ainit m0 0 [] (S (length src)) Htb HR eq_refl eq_refl
              (qdoc_lines_nonempty d Hok) (qdoc_valid d Hok) (qdoc_nolastsep d Hok)) as (sfin & Hrun & Hh & Hrefs).
  { rewrite Hsrc. apply ltext_lines. }
  exists sfin. split; [|split; [|exact Hrefs]].
  - unfold ParseBlocks, parse_blocks. fold src. exact Hrun.
  - rewrite Hh. apply qdoc_run. exact Hok.
Qed.

Theorem parse_blocks_tree_quoted d fin : qbs_ok d = true ->
  ParseBlocksTree (qdoc_src d fin) = Ok (qdoc_tree false d, []).
Proof.
  intros Hok. destruct (parse_blocks_quoted d fin Hok) as (s & Hrun & Hh & Hrefs).
  unfold ParseBlocksTree. rewrite Hrun. cbn [bind].
  rewrite (qdoc_to_tree d (s_h s) _ Hh). cbn [bind]. rewrite Hrefs. reflexivity.
Qed.

Theorem parse_tree_quoted d fin : qbs_ok d = true ->
  ParseTree (qdoc_src d fin) = Ok (qdoc_tree true d).
Proof.
  intros Hok. unfold ParseTree. rewrite (parse_blocks_tree_quoted d fin Hok). cbn [bind].
  apply qdoc_attach. exact Hok.
Qed.

Theorem convert_quoted c d fin : hardwraps c = false -> qbs_ok d = true ->
  ConvertModel c (qdoc_src d fin) = Ok (qbs_html d).
Proof.
  intros Hc Hok. unfold ConvertModel. rewrite (parse_tree_quoted d fin Hok). cbn [bind].
  unfold qdoc_src. apply qdoc_render; assumption.
Qed.
