(* Helper file for ParseBlocksTotal.v: the reader operations lifted to the parser state, node
   allocation and node updates under the state invariant SI. *)
Require Import GM.model.Base GM.model.Util GM.model.Reader GM.model.ReaderSpec GM.model.Blocks GM.model.ListItem
               GM.model.LeafBlocks GM.model.CodeBlock GM.model.LinkDest GM.model.Regex GM.model.BlockParse.
Require Import GM.proofs.ReaderProofs GM.proofs.BlocksProofs
               GM.proofs.ParseBlocksTotalReader GM.proofs.FootnoteWfTotBlkPad GM.proofs.FootnoteWfTotBlkDefs GM.proofs.FootnoteWfTotBlkSpec.
From Coq Require Import ZArith Lia List Bool.
Open Scope Z_scope.

Lemma scache_refl s : scache s s.
Proof. unfold scache. csplit; auto. apply same_pos_refl. Qed.
Lemma scache_trans a b c : scache a b -> scache b c -> scache a c.
Proof.
  unfold scache. intros (A1 & A2 & A3) (B1 & B2 & B3). csplit; try congruence. eapply same_pos_trans; eassumption.
Qed.
Lemma scache_view a b : scache a b -> sview b = sview a.
Proof. intros (_ & _ & H). apply same_pos_view, H. Qed.
Lemma scache_off a b : scache a b -> soff b = soff a.
Proof. intros (_ & _ & H). apply same_pos_column, H. Qed.
Lemma scache_sin a b : scache a b -> sin a -> sin b.
Proof. intros (_ & _ & H) Hin. unfold sin in *. rewrite (same_pos_in_range _ _ H). exact Hin. Qed.
Lemma scache_pos a b : scache a b -> r_pos (s_r b) = r_pos (s_r a).
Proof. intros (_ & _ & (_ & H & _)). exact H. Qed.

Section S.
Variable space_table : list N.
Variable src : bytes.
Variable lst : option nat.
Notation SI := (SI space_table src lst).
Notation node_ok := (node_ok space_table src).

Lemma SI_scache s s' : SI s -> RI (s_r s') -> scache s s' -> SI s'.
Proof.
  intros [S1 S2 S3 S4 S5 S6] HR (E1 & E2 & E3). constructor.
  - exact HR.
  - destruct E3 as (E & _). congruence.
  - rewrite E1. exact S3.
  - rewrite E1, E2. exact S4.
  - rewrite E1. eapply Lim_le; [exact S5|]. apply same_pos_le, E3.
  - destruct E3 as (_ & E3 & _). eapply PadB_same_pos; [exact E3|exact S6].
Qed.

Lemma peek_line_s_ok s : SI s ->
  exists s', peek_line_s s = Ok (s', (if r_in_range (s_r s) then Some (sview s) else None), r_pos (s_r s)) /\
             SI s' /\ scache s s' /\ r_loff (s_r s') = r_loff (s_r s).
Proof.
  intros HS. destruct (ri_peek (s_r s) (si_r _ _ _ _ HS)) as [r' (H1 & H2 & H3 & H4)].
  unfold peek_line_s. rewrite H1. cbn [bind]. exists (st_r s r'). split; [reflexivity|].
  assert (Hc : scache s (st_r s r')) by (unfold scache; cbn [st_r s_h s_c s_r]; auto).
  csplit; auto. eapply SI_scache; eauto.
Qed.

Lemma line_offset_s_ok s : SI s ->
  exists s', line_offset_s s = Ok (s', soff s) /\ SI s' /\ scache s s' /\ r_peeked (s_r s') = r_peeked (s_r s).
Proof.
  intros HS. destruct (ri_line_offset (s_r s) (si_r _ _ _ _ HS)) as [r' (H1 & H2 & H3 & H4)].
  unfold line_offset_s. rewrite H1. cbn [bind]. exists (st_r s r'). split; [reflexivity|].
  assert (Hc : scache s (st_r s r')) by (unfold scache; cbn [st_r s_h s_c s_r]; auto).
  csplit; auto. eapply SI_scache; eauto.
Qed.

Lemma advance_s_ok s n : SI s -> 0 <= n ->
  exists s', advance_s s n = Ok s' /\ SI s' /\ s_h s' = s_h s /\ s_c s' = s_c s /\ r_le (s_r s) (s_r s').
Proof.
  intros HS Hn. destruct (ri_advance (s_r s) n (si_r _ _ _ _ HS) Hn) as [r' (H1 & H2 & H3)].
  unfold advance_s. rewrite H1. cbn [bind]. exists (st_r s r'). csplit; auto. apply SI_set_r; try assumption.
  eapply PadB_advance; [exact H1|exact (si_pad _ _ _ _ HS)].
Qed.

(* advancing inside the current line *)
Lemma advance_s_in_line s n : SI s -> sin s -> 0 <= n <= zlen (sview s) ->
  (forall k, 0 <= k < n -> nth (Z.to_nat k) (sview s) 0%N <> 10%N) ->
  exists s', advance_s s n = Ok s' /\ SI s' /\ s_h s' = s_h s /\ s_c s' = s_c s /\ same_line (s_r s) (s_r s') /\
     s_start (r_pos (s_r s')) = s_start (r_pos (s_r s)) + Z.max 0 (n - s_pad (r_pos (s_r s))).
Proof.
  intros HS Hin Hn Hnl.
  destruct (ri_advance_in_line (s_r s) n (si_r _ _ _ _ HS) Hin Hn Hnl) as [r' (H1 & H2 & H3 & H4 & _)].
  unfold advance_s. rewrite H1. cbn [bind]. exists (st_r s r'). csplit; auto.
  apply SI_set_r; [assumption|assumption|apply same_line_le, H3|].
  eapply PadB_advance; [exact H1|exact (si_pad _ _ _ _ HS)].
Qed.

Lemma SI_set_h_lim s h' : SI s -> HInv space_table src lst h' -> hext (s_h s) h' -> Lim h' (s_r s) -> SI (st_h s h').
Proof.
  intros [S1 S2 S3 S4 S5 S6] A1 A2 A3. constructor; cbn [st_h s_h s_c s_r]; auto.
  eapply CInv_hext; eassumption.
Qed.

Lemma new_node_ok s nd : SI s -> bch nd = [] -> bpar nd = None -> node_ok nd ->
  (bk nd = BParagraph -> Forall (fun sg => s_stop sg <= s_stop (r_pos (s_r s))) (blines nd)) ->
  SI (fst (new_node s nd)) /\ snd (new_node s nd) = length (s_h s) /\
  s_h (fst (new_node s nd)) = s_h s ++ [nd] /\ s_c (fst (new_node s nd)) = s_c s /\ s_r (fst (new_node s nd)) = s_r s.
Proof.
  intros HS Hc Hp Hok Hl. unfold new_node, halloc. cbn [fst snd st_h s_h s_c s_r]. csplit; auto.
  apply SI_set_h_lim; [exact HS| |apply hext_alloc|].
  - apply HInv_alloc; [apply HS|assumption..].
  - apply Lim_alloc; [apply HS|exact Hl].
Qed.

(* replacing the lines (or other non-structural fields) of a node *)
Lemma upd_node_ok s i n n' : SI s -> nth_error (s_h s) i = Some n ->
  bk n' = bk n -> bch n' = bch n -> bpar n' = bpar n -> node_ok n' ->
  (bk n' = BParagraph -> Forall (fun sg => s_stop sg <= s_stop (r_pos (s_r s))) (blines n')) ->
  SI (st_h s (hset (s_h s) i n')).
Proof.
  intros HS Hi Hk Hc Hp Hok Hl. apply SI_set_h_lim; [exact HS| | |].
  - eapply HInv_hset_simple; [apply HS|eassumption..].
  - eapply hext_hset; eassumption.
  - eapply Lim_hset; [apply HS|exact Hi|exact Hl].
Qed.

End S.
