(* C11 for the Typographer / DefinitionList parser model, the passes over the block tree
   (model/TypoDefParseD.v, TypoDefParse.v): to_treeD is to_tree on a heap without definition list
   nodes; attach_inlinesTD depends on the inline function only pointwise, and is attach_inlines on
   a tree of block kinds when the inline function leaves the quote counters alone. *)
Require Import GM.model.Base GM.model.Util GM.model.Reader GM.model.Regex GM.model.HtmlWriter GM.model.Html
               GM.model.BlockParse GM.model.InlineParse GM.model.TypoDefParseT GM.model.TypoDefParseD GM.model.TypoDefParse.
Require Import GM.proofs.GfmConservativeDefs GM.proofs.GfmConservativeTree.
From Coq Require Import List ZArith NArith Bool Lia.
Import ListNotations.
Open Scope Z_scope.

(* no node of the heap is a DefinitionList, DefinitionTerm or DefinitionDescription node *)
Definition no_defnodes (h : heap) : Prop := Forall (fun n => is_dl n = false /\ is_dt n = false /\ is_dd n = false) h.

Lemma hget_in h i n : hget h i = Ok n -> In n h.
Proof.
  unfold hget. destruct (nth_error h i) as [m|] eqn:E; [|discriminate]. intros H. injection H as <-.
  eapply nth_error_In. exact E.
Qed.

Lemma to_treeD_core src h : no_defnodes h -> forall fuel i, to_treeD fuel src h i = to_tree fuel src h i.
Proof.
  intros Hd. induction fuel as [|f IH]; intros i; cbn [to_treeD to_tree]; [reflexivity|].
  destruct (hget h i) as [n| |] eqn:En; cbn [bind]; try reflexivity.
  unfold no_defnodes in Hd. rewrite Forall_forall in Hd.
  destruct (Hd n (hget_in h i n En)) as [H1 [H2 H3]].
  unfold kind_ofD. rewrite H1, H2, H3.
  destruct (kind_of src n) as [k| |]; cbn [bind]; try reflexivity.
  rewrite (map_res_ext (to_treeD f src h) (to_tree f src h)); [reflexivity|]. intros x _. apply IH.
Qed.

(* ---------- attach_inlinesTD ---------- *)
Section Attach.
Variable inl : Z * Z -> list seg -> result (list tree * (Z * Z)).

Fixpoint attach_listTD (cnt : Z * Z) (l : list tree) : result (list tree * (Z * Z)) :=
  match l with
  | [] => Ok ([], cnt)
  | x :: r =>
    y <- attach_inlinesTD inl cnt x ;;
    z <- attach_listTD (snd y) r ;;
    Ok (fst y :: fst z, snd z)
  end.

Lemma attach_inlinesTD_unfold cnt k lines a kids :
  attach_inlinesTD inl cnt (Node k lines a kids) =
  if has_inlinesTD k then (x <- inl cnt lines ;; Ok (Node k lines a (fst x), snd x))
  else (x <- attach_listTD cnt kids ;; Ok (Node k lines a (fst x), snd x)).
Proof.
  cbn [attach_inlinesTD]. destruct (has_inlinesTD k); reflexivity.
Qed.
End Attach.

(* attach_inlinesTD depends on the inline function only pointwise *)
Lemma attach_inlinesTD_ext (inl1 inl2 : Z * Z -> list seg -> result (list tree * (Z * Z))) :
  (forall cnt lines, inl1 cnt lines = inl2 cnt lines) ->
  forall t cnt, attach_inlinesTD inl1 cnt t = attach_inlinesTD inl2 cnt t.
Proof.
  intros Hext t. induction t as [k l a kids IH] using tree_ind_kids. intros cnt.
  rewrite !attach_inlinesTD_unfold. destruct (has_inlinesTD k); [rewrite Hext; reflexivity|].
  assert (HL : forall cnt, attach_listTD inl1 cnt kids = attach_listTD inl2 cnt kids).
  { induction IH as [|x r Hx _ IHr]; intros cnt0; cbn [attach_listTD]; [reflexivity|].
    rewrite Hx. destruct (attach_inlinesTD inl2 cnt0 x) as [y| |]; cbn [bind]; try reflexivity.
    rewrite IHr. reflexivity. }
  rewrite HL. reflexivity.
Qed.

Lemma bkind_has_inlinesTD k : bkind k -> has_inlinesTD k = has_inlines k.
Proof. destruct k; cbn; intros H; try reflexivity; destruct H. Qed.

(* on a tree of block kinds, with an inline function that is a function of the default parser and
   hands the counters on: attach_inlines *)
Lemma attach_inlinesTD_core (inlT : Z * Z -> list seg -> result (list tree * (Z * Z))) (inl : list seg -> result (list tree)) :
  (forall cnt lines, inlT cnt lines = (ch <- inl lines ;; Ok (ch, cnt))) ->
  forall t cnt, kinds_in bkind t -> attach_inlinesTD inlT cnt t = (t' <- attach_inlines inl t ;; Ok (t', cnt)).
Proof.
  intros Hext t. induction t as [k l a kids IH] using tree_ind_kids. intros cnt Hk.
  apply kinds_in_inv in Hk as [Hk Hkids].
  rewrite attach_inlinesTD_unfold, attach_inlines_unfold, (bkind_has_inlinesTD k Hk).
  destruct (has_inlines k).
  - rewrite Hext. destruct (inl l) as [ch| |]; reflexivity.
  - assert (HL : forall cnt, attach_listTD inlT cnt kids = (z <- map_res (attach_inlines inl) kids ;; Ok (z, cnt))).
    { clear Hk. induction IH as [|x r Hx _ IHr]; intros cnt0; cbn [attach_listTD map_res]; [reflexivity|].
      apply Forall_cons_iff in Hkids as [Hx1 Hr1]. rewrite (Hx _ Hx1).
      destruct (attach_inlines inl x) as [y| |]; cbn [bind fst snd]; try reflexivity.
      rewrite (IHr Hr1). destruct (map_res (attach_inlines inl) r) as [z| |]; reflexivity. }
    rewrite HL. destruct (map_res (attach_inlines inl) kids) as [z| |]; reflexivity.
Qed.
