(* C11 for the GFM parser model, Table extension, part CP: on a source without '-' the block driver
   with the Table extension on (model/BlockParseX.v, table_on = true) is the driver of the default
   parser lifted through the state.  This file: the loop over the opened blocks of a line, the
   outer loops, parseBlocks (replay of proofs/ParseBlocksRangeP.v on the X driver). *)
Require Import GM.model.Base GM.model.Util GM.model.Reader GM.model.ReaderSpec GM.model.Blocks GM.model.ListItem
               GM.model.LeafBlocks GM.model.CodeBlock GM.model.LinkDest GM.model.Regex GM.model.HtmlWriter
               GM.model.Html GM.model.HtmlSpec GM.model.TableX GM.model.BlockParse GM.model.BlockParseX GM.model.InlineParse.
Require Import GM.proofs.ReaderProofs GM.proofs.BlockRangeProofs GM.proofs.ParseInv
               GM.proofs.ParseBlocksRangeA GM.proofs.ParseBlocksRangeB GM.proofs.ParseBlocksRangeC
               GM.proofs.ParseBlocksRangeD GM.proofs.ParseBlocksRangeE GM.proofs.ParseBlocksRangeF
               GM.proofs.ParseBlocksRangeG GM.proofs.ParseBlocksRangeH GM.proofs.ParseBlocksRangeI GM.proofs.ParseBlocksRangeJ
               GM.proofs.ParseBlocksRangeL GM.proofs.ParseBlocksRangeM GM.proofs.ParseBlocksRangeN GM.proofs.ParseBlocksRangeP.
Require Import GM.proofs.GfmConservativeDefs GM.proofs.GfmConservativeTableA GM.proofs.GfmConservativeBlk
               GM.proofs.GfmConservativeTableC GM.proofs.GfmConservativeTableCN.
From Coq Require Import List ZArith NArith Bool Lia Sorted.
Import ListNotations.
Open Scope Z_scope.

Section CP.
Variable space_table punct_table : list N.
Variable norm : bytes -> bytes.
Variable re_t1o re_t1c re_t2 re_t3 re_t4 re_t5 re_t6 re_t7 : re.
Variable allowed_tags : list bytes.
Variable src : bytes.
Hypothesis sp32 : is_space space_table 32%N = true.
Hypothesis Hsrc : bytes_ok src.
Hypothesis Hnd : ~ In 45%N src.

Notation SInv := (SInv space_table src).
Notation OInv := (OInv space_table src).
Notation item_guard := (item_guard space_table).
Notation verdict := (verdict space_table).
Notation CE f := (f space_table punct_table norm re_t1o re_t1c re_t2 re_t3 re_t4 re_t5 re_t6 re_t7 allowed_tags src sp32) (only parsing).
Notation CJ f := (f space_table punct_table norm re_t1o re_t1c re_t2 re_t3 re_t4 re_t5 re_t6 re_t7 allowed_tags src sp32 Hsrc) (only parsing).
Notation CN f := (f space_table punct_table norm re_t1o re_t1c re_t2 re_t3 re_t4 re_t5 re_t6 re_t7 allowed_tags src sp32 Hsrc Hnd) (only parsing).
Notation p_continue := (p_continue space_table re_t1c).
Notation CB := (close_blocks space_table punct_table norm).
Notation CBX := (close_blocksX true space_table punct_table norm).
Notation OB := (open_blocks space_table punct_table norm re_t1o re_t1c re_t2 re_t3 re_t4 re_t5 re_t6 re_t7 allowed_tags).
Notation OBX := (open_blocksX true space_table punct_table norm re_t1o re_t1c re_t2 re_t3 re_t4 re_t5 re_t6 re_t7 allowed_tags).
Notation EO := (each_opened space_table punct_table norm re_t1o re_t1c re_t2 re_t3 re_t4 re_t5 re_t6 re_t7 allowed_tags).
Notation EOX := (each_openedX true space_table punct_table norm re_t1o re_t1c re_t2 re_t3 re_t4 re_t5 re_t6 re_t7 allowed_tags).
Notation LL := (lines_loop space_table punct_table norm re_t1o re_t1c re_t2 re_t3 re_t4 re_t5 re_t6 re_t7 allowed_tags).
Notation LLX := (lines_loopX true space_table punct_table norm re_t1o re_t1c re_t2 re_t3 re_t4 re_t5 re_t6 re_t7 allowed_tags).
Notation PBL := (parse_blocks_loop space_table punct_table norm re_t1o re_t1c re_t2 re_t3 re_t4 re_t5 re_t6 re_t7 allowed_tags).
Notation PBLX := (parse_blocks_loopX true space_table punct_table norm re_t1o re_t1c re_t2 re_t3 re_t4 re_t5 re_t6 re_t7 allowed_tags).

Set Default Proof Using "All".
(* openBlocks with the Table extension on: GfmConservativeTableCN.v *)
Notation open_blocksX_on := (CN open_blocksX_on) (only parsing).

(* ---------- the block at index i did not continue ---------- *)
Lemma not_cont_caseX E i node bp x fuel blank (st1 : list (Z * Z * bool)) :
  OInv FF (bx_s x) E [] [] -> 0 <= i -> nth_error E (Z.to_nat i) = Some (node, bp) ->
  (forall j y bq, (j < Z.to_nat i)%nat -> nth_error E j = Some (y, bq) -> container (pkind bq) = true) ->
  (this_parent <- (if i =? 0 then Ok 0%nat
                   else match nth_error E (Z.to_nat (i - 1)) with Some (p, _) => Ok p | None => Panic end) ;;
   last_node <- match nth_error E (Z.to_nat (zlen E - 1)) with Some (p, _) => Ok p | None => Panic end ;;
   o <- OBX fuel this_parent blank x ;;
   (let '(res, x) := o in
    if negb (res =? paragraphContinuation)
    then now_last <- match nth_error (c_arr (s_c (bx_s x))) (Z.to_nat (zlen E - 1)) with Some (p, _) => Ok p | None => Panic end ;;
         x0 <- CBX x (if (now_last =? last_node)%nat then zlen E - 1 else zlen E - 1 - 1) i ;;
         Ok (inr x0, st1)
    else Ok (inr x, st1))) =
  (y <- (this_parent <- (if i =? 0 then Ok 0%nat
                   else match nth_error E (Z.to_nat (i - 1)) with Some (p, _) => Ok p | None => Panic end) ;;
         last_node <- match nth_error E (Z.to_nat (zlen E - 1)) with Some (p, _) => Ok p | None => Panic end ;;
         o <- OB fuel this_parent blank (bx_s x) ;;
         (let '(res, s) := o in
          if negb (res =? paragraphContinuation)
          then now_last <- match nth_error (c_arr (s_c s)) (Z.to_nat (zlen E - 1)) with Some (p, _) => Ok p | None => Panic end ;;
               s0 <- CB s (if (now_last =? last_node)%nat then zlen E - 1 else zlen E - 1 - 1) i ;;
               Ok (inr s0, st1)
          else Ok (inr s, st1))) ;;
   Ok (lift_sum x (fst y), snd y)).
Proof.
  intros HO Hi Enth Hcb.
  set (k := Z.to_nat i) in *.
  destruct (CJ split_at E k node bp Enth) as [HE [HlenA [HD HAn]]].
  set (A := firstn k E) in *. set (D := skipn k E) in *.
  assert (zlen A = i) as HzA by (unfold zlen; rewrite HlenA; unfold k; lia).
  assert (zlen E = zlen A + zlen D) as HzE by (rewrite HE at 1; apply zlen_app).
  assert (1 <= zlen D) as HzD by (rewrite HD, zlen_cons; pose proof (zlen_nonneg (skipn (S k) E)); lia).
  destruct (if i =? 0 then Ok 0%nat
            else match nth_error E (Z.to_nat (i - 1)) with Some (p, _) => Ok p | None => Panic end) as [tp| |] eqn:Etp;
    cbn [bind]; try reflexivity.
  assert (tp = lastid (ids A)) as Htp.
  { destruct (Z.eqb_spec i 0) as [E0|E0].
    - injection Etp as <-. assert (k = 0%nat) as Ek by (unfold k; lia). unfold A. rewrite Ek. reflexivity.
    - destruct (nth_error E (Z.to_nat (i - 1))) as [[p pq]|] eqn:Ep; [|discriminate]. injection Etp as <-.
      assert (k = S (Z.to_nat (i - 1))) as Ek by (unfold k; lia). unfold A. rewrite Ek.
      rewrite (CJ firstn_S_nth _ _ _ Ep). symmetry. apply (CE lastid_ids_snoc). }
  assert (topC A) as Htop.
  { intros E' y bq EA. eapply (Hcb (length E')).
    - apply (f_equal (@length _)) in EA. rewrite app_length in EA. cbn [length] in EA. lia.
    - rewrite <- HAn by (apply (f_equal (@length _)) in EA; rewrite app_length in EA; cbn [length] in EA; lia).
      rewrite EA. apply (CJ nth_error_mid'). }
  destruct (nth_error E (Z.to_nat (zlen E - 1))) as [[lnode lq]|] eqn:Elast; cbn [bind]; [|reflexivity].
  pose proof HO as HO'. rewrite HE in HO'. pose proof (CE OInv_split _ _ _ _ HO') as HO2. clear HO'.
  rewrite (open_blocksX_on fuel tp blank x A D HO2 Htop Htp).
  destruct (OB fuel tp blank (bx_s x)) as [[res s3]| |] eqn:Eo; cbn [bind fst snd]; try reflexivity.
  destruct (CJ open_blocks_ok fuel tp blank (bx_s x) A D res s3 HO2 Htop Htp Eo) as [D' [N' [HW3 [HD' [Hpc [Hne Hlen3]]]]]].
  cbn [bx_s stx_s].
  destruct (Z.eqb_spec res paragraphContinuation) as [Eres|Eres]; cbn [negb]; [reflexivity|].
  destruct (match nth_error (c_arr (s_c s3)) (Z.to_nat (zlen E - 1)) with Some (p, _) => Ok p | None => Panic end)
    as [nl| |] eqn:Enl; cbn [bind]; try reflexivity.
  destruct HD' as [->|[-> [xp [EDx [Hxn Harr]]]]].
  - (* the blocks D are closed *)
    destruct HW3 as [HS3 [HO3 Hu3]].
    assert (nth_error (c_arr (s_c s3)) (Z.to_nat (zlen E - 1)) = Some (lnode, lq)) as Enow.
    { rewrite (CJ Oeq_nth _ _ _ HO3).
      - rewrite app_assoc, <- HE. rewrite nth_error_app1; [exact Elast|]. apply nth_some_lt in Elast. exact Elast.
      - rewrite app_assoc, <- HE, app_length. apply nth_some_lt in Elast. lia. }
    rewrite Enow in Enl. injection Enl as <-. rewrite Nat.eqb_refl.
    rewrite (CN close_blocksX_on WW (stx_s x s3) A D N' (zlen E - 1) i (conj HS3 (conj HO3 Hu3)) ltac:(lia) ltac:(lia)).
    unfold lift0. cbn [bx_s stx_s]. destruct (CB s3 (zlen E - 1) i) as [s4| |]; reflexivity.
  - (* the paragraph has gone with a setext heading line or with its link reference definitions *)
    assert (zlen D = 1) as HzD1 by (rewrite EDx; reflexivity).
    assert ((node, bp) = (xp, PParagraph)) as Enx by (rewrite HD in EDx; injection EDx as ? ?; congruence).
    assert (Z.to_nat (zlen E - 1) = k) as Ekl by (unfold k; lia).
    rewrite Ekl in *. rewrite Enth in Elast. injection Elast as <- <-. injection Enx as -> ->.
    destruct HW3 as [HS3 [HO3 Hu3]].
    destruct N' as [|[y yq] N''].
    + (* closeBlocks fails on both sides *)
      rewrite (Harr eq_refl) in Enl. destruct HO as [_ [HOs _]].
      rewrite (CJ Oeq_nth _ _ k HOs) in Enl.
      2: { rewrite app_nil_r. apply nth_some_lt in Enth. exact Enth. }
      rewrite app_nil_r, Enth in Enl. injection Enl as <-. rewrite Nat.eqb_refl.
      unfold close_blocksX, close_blocks. replace (Z.to_nat (zlen E - 1 - i + 1)) with 1%nat by lia.
      cbn [close_rangeX close_range bx_s stx_s]. destruct HO3 as [HO3 _]. rewrite HO3. cbn [app]. rewrite app_nil_r.
      replace (zlen A <=? zlen E - 1) with true by lia. rewrite orb_true_r. reflexivity.
    + assert (nth_error (c_arr (s_c s3)) k = Some (y, yq)) as Enow.
      { rewrite (CJ Oeq_nth _ _ _ HO3).
        - cbn [app]. rewrite <- HlenA. apply (CJ nth_error_mid').
        - cbn [app]. rewrite app_length. cbn [length]. lia. }
      rewrite Enow in Enl. injection Enl as <-.
      assert (y <> xp) as Hyx by (intros ->; apply Hxn; left; reflexivity).
      apply Nat.eqb_neq in Hyx. rewrite Hyx.
      rewrite (CN close_blocksX_on WW (stx_s x s3) A [] ((y, yq) :: N'') (zlen E - 1 - 1) i (conj HS3 (conj HO3 Hu3)) ltac:(lia)).
      2: { rewrite zlen_nil. lia. }
      unfold lift0. cbn [bx_s stx_s]. destruct (CB s3 (zlen E - 1 - 1) i) as [s4| |]; reflexivity.
Qed.

(* ---------- the loop over the opened blocks of a line ---------- *)
Lemma each_openedX_on E : forall fuel i fl x stats,
  OInv fl (bx_s x) E [] [] -> (i <= zlen E - 1 -> fl = FF) -> 0 <= i ->
  (i <= zlen E - 1 -> forall j y bq, (j < Z.to_nat i)%nat -> nth_error E j = Some (y, bq) -> container (pkind bq) = true) ->
  (forall node, nth_error E (Z.to_nat i) = Some (node, PListItem) -> item_guard (bx_s x) node) ->
  EOX fuel E 0%nat i (zlen E - 1) stats x =
  (y <- EO fuel E 0%nat i (zlen E - 1) stats (bx_s x) ;; Ok (lift_sum x (fst y), snd y)).
Proof.
  induction fuel as [|f IH]; intros i fl x stats HO Hfl Hi Hcb Hig; cbn [each_openedX each_opened]; [reflexivity|].
  destruct (Z.ltb_spec (zlen E - 1) i) as [Hend|Hin].
  - cbn [bind fst snd lift_sum]. rewrite stx_s_id. reflexivity.
  - specialize (Hfl Hin). subst fl. specialize (Hcb Hin).
    destruct (nth_error E (Z.to_nat i)) as [[node bp]|] eqn:Enth; [|reflexivity].
    destruct (peek_line_s (bx_s x)) as [[[s1 line] sg]| |] eqn:Ex; cbn [bind]; try reflexivity.
    cbn [bx_s stx_s].
    pose proof HO as [HS [HOe Hu]].
    destruct (CE peek_s_ok _ _ _ _ _ _ _ HS Ex) as [HS1 [Eh1 [Ec1 [Ep1 [Esg [El [Ein1 Esrc1]]]]]]].
    pose proof (CE peek_s_rkey _ _ _ _ (proj1 (proj1 HS)) Ex) as Ek1.
    assert (OInv FF s1 E [] []) as HO1 by (eapply (CJ OInv_same); [exact HO|exact HS1|congruence|congruence]).
    destruct line as [line|].
    2: { (* end of the source: everything is closed *)
      pose proof (CE OInv_split FF s1 [] E HO1) as HO1'.
      rewrite (CN close_blocksX_on FF (stx_s x s1) [] E [] (zlen E - 1) 0 HO1' eq_refl ltac:(rewrite zlen_nil; lia)).
      unfold lift0. cbn [bx_s stx_s]. destruct (CB s1 (zlen E - 1) 0) as [s2| |]; cbn [bind]; reflexivity. }
    destruct (peeked_some _ _ El line eq_refl) as [Hir _].
    assert (In (node, bp) (E ++ [] ++ [])) as Hin' by (rewrite app_nil_r; eapply nth_error_In; exact Enth).
    destruct (CE SInv_entry _ _ _ _ _ _ _ HS1 Hin') as [nn [Enn [Knn _]]].
    destruct (is_paragraph (s_h s1) node) as [isp| |] eqn:Eisp; cbn [bind]; try reflexivity.
    unfold is_paragraph, hget in Eisp. rewrite Enn in Eisp. cbn [bind] in Eisp. injection Eisp as <-.
    (* Continue of the block *)
    set (CX := (if negb (bkind_eqb (bk nn) BParagraph) then _ else _) : result (stx * bool * bool)).
    set (C := (if negb (bkind_eqb (bk nn) BParagraph) then _ else _) : result (st * bool * bool)).
    assert (HC : CX = (c <- C ;; Ok (stx_s x (fst (fst c)), snd (fst c), snd c))).
    { subst CX C. destruct (negb (bkind_eqb (bk nn) BParagraph)); [|reflexivity].
      destruct (p_continue bp s1 node) as [[[s1' c1] k1]| |]; reflexivity. }
    rewrite HC. clear HC CX.
    destruct C as [[[s2 cont] kids]| |] eqn:Ec; cbn [bind fst snd]; try reflexivity.
    assert (c_arr (s_c s2) = c_arr (s_c s1) /\ c_len (s_c s2) = c_len (s_c s1) /\
            (cont = false -> SInv FF s2 E [] []) /\
            (cont = true -> kids = container (pkind bp) /\ (if container (pkind bp) then SInv FF s2 E [] [] else SInv WW s2 E [] []) /\
                            (bp = PList -> verdict s2 node))) as [Ea2 [El2 [Hcf Hct]]].
    { destruct (bkind_eqb (bk nn) BParagraph); cbn [negb] in Ec.
      - injection Ec as <- <- <-. csplit; auto. discriminate.
      - bind_inv Ec y Ey. destruct y as [[s2' c2'] k2']. injection Ec as <- <- <-.
        assert (r_in_range (s_r s1) = true) as Hir1 by congruence.
        destruct (CE p_continue_ok bp s1 node s2' c2' k2' E [] [] HS1 Hin' Hir1) as [[Ea [El' [Hf Ht]]] [Hk Hv]]; [|exact Ey|].
        + intros ->. eapply (CJ item_guard_eq); [exact Eh1|exact Ek1|]. apply Hig. reflexivity.
        + csplit; auto. intros Hc. csplit; [exact Hk|apply Ht; exact Hc|intros Eb; apply Hv; assumption]. }
    clear Ec.
    destruct cont.
    + destruct (Hct eq_refl) as [-> [HS2 Hv]].
      destruct (container (pkind bp)) eqn:Kc; cbn [andb].
      * assert (OInv FF s2 E [] []) as HO2 by (eapply (CJ OInv_same); [exact HO1|exact HS2|congruence|congruence]).
        destruct (Z.eqb_spec i (zlen E - 1)) as [Elast|Elast].
        -- (* blocks are opened below the last opened block *)
           assert (exists E', E = E' ++ [(node, bp)]) as [E' EE].
           { destruct (CE exists_last_or_nil E) as [->|[E' [e EE]]]; [destruct (Z.to_nat i); discriminate|].
             exists E'. rewrite EE in Enth. replace (Z.to_nat i) with (length E') in Enth.
             - rewrite (CJ nth_error_mid') in Enth. congruence.
             - rewrite EE in Elast. unfold zlen in Elast. rewrite app_length in Elast. cbn [length] in Elast. lia. }
           assert (topC E) as Htop.
           { intros E'' y bq EE'. rewrite EE in EE'. apply app_inj_tail in EE'. destruct EE' as [_ EE']. injection EE' as <- <-. exact Kc. }
           assert (node = lastid (ids E)) as Hpar by (rewrite EE; symmetry; apply (CE lastid_ids_snoc)).
           rewrite (open_blocksX_on (2 * length line + 8) node
                      (is_blank_line (rline s1 - 1) i ((rline s1, i, Reader.is_blank space_table line) :: stats))
                      (stx_s x s2) E [] HO2 Htop Hpar).
           cbn [bx_s stx_s]. destruct (OB _ node _ s2) as [[res s3]| |]; cbn [bind fst snd lift_sum]; reflexivity.
        -- (* on to the next opened block *)
           erewrite (IH (i + 1) FF (stx_s x s2)); [reflexivity|exact HO2|reflexivity|lia| |].
           ++ intros _ j y bq Hj Ej. destruct (Nat.eq_dec j (Z.to_nat i)) as [->|Hne].
              ** rewrite Enth in Ej. injection Ej as <- <-. exact Kc.
              ** eapply Hcb; [|exact Ej]. lia.
           ++ intros node' Enth'. replace (Z.to_nat (i + 1)) with (S (Z.to_nat i)) in Enth' by lia. cbn [bx_s stx_s].
              pose proof (CE SInv_spine _ _ _ HS2) as Hsp.
              assert (Adj (0%nat :: ids E) node node') as Hadj.
              { apply Adj_cons. right. eapply (CJ nth_adj); eapply (CJ ids_nth); eassumption. }
              destruct (Hsp _ _ Hadj) as [np [Enp Hlc]]. apply last_id_in in Hlc.
              pose proof HS2 as [_ HH2]. pose proof (hi_heap _ _ _ _ _ _ _ _ HH2) as HhS.
              destruct (hs_K _ _ _ HhS _ _ _ Enp Hlc) as [nc [Enc Pnc]].
              assert (In (node', PListItem) (E ++ [] ++ [])) as Hin2 by (rewrite app_nil_r; eapply nth_error_In; exact Enth').
              destruct (CE SInv_entry _ _ _ _ _ _ _ HS2 Hin2) as [nc' [Enc' [Knc _]]]. assert (nc' = nc) by congruence. subst nc'.
              pose proof (hs_item _ _ _ HhS _ _ _ _ Enp Hlc Enc Knc) as Knp.
              destruct (CE SInv_entry _ _ _ _ _ _ _ HS2 Hin') as [np' [Enp' [Knp' _]]]. assert (np' = np) by congruence. subst np'.
              assert (bp = PList) as -> by (destruct bp; cbn [pkind] in *; congruence).
              intros n p En Pn. assert (n = nc) by congruence. subst n. assert (p = node) by congruence. subst p. apply Hv. reflexivity.
      * (* a leaf block has continued: it is the last opened block *)
        assert (i = zlen E - 1) as Hlast.
        { destruct (CE exists_last_or_nil E) as [EE|[E' [e EE]]]; [rewrite EE in Enth; destruct (Z.to_nat i); discriminate|].
          pose proof HS1 as [_ HH1].
          assert (node = fst e) as Hne.
          { eapply (CE leaf_entry_top) with (A := E) (D := []); [exact (hi_heap _ _ _ _ _ _ _ _ HH1)|exact (hi_open _ _ _ _ _ _ _ _ HH1)|rewrite app_nil_r; exact EE| |exact Enn|].
            - rewrite app_nil_r. eapply in_ids. eapply nth_error_In. exact Enth.
            - rewrite Knn. exact Kc. }
          pose proof (os_nodup _ _ _ _ _ _ (hi_open _ _ _ _ _ _ _ _ HH1)) as Hndp. rewrite app_nil_r in Hndp.
          assert (Z.to_nat i = length E') as Hidx.
          { eapply (CJ nodup_nth_eq); [exact Hndp|eapply (CJ ids_nth); exact Enth|]. rewrite EE, (CE ids_snoc), <- Hne.
            replace (length E') with (length (ids E')) by (unfold ids; apply map_length). apply (CJ nth_error_mid'). }
          rewrite EE. unfold zlen. rewrite app_length. cbn [length]. lia. }
        erewrite (IH (i + 1) WW (stx_s x s2)); [reflexivity| |intros Hle; exfalso; lia|lia|intros Hle; exfalso; lia|].
        -- eapply (CJ OInv_same); [apply (CE OInv_FW); exact HO1|exact HS2|cbn [bx_s stx_s]; congruence|cbn [bx_s stx_s]; congruence].
        -- intros node' Enth'. exfalso. apply nth_some_lt in Enth'. unfold zlen in Hlast. lia.
    + specialize (Hcf eq_refl).
      assert (OInv FF s2 E [] []) as HO2 by (eapply (CJ OInv_same); [exact HO1|exact Hcf|congruence|congruence]).
      exact (not_cont_caseX E i node bp (stx_s x s2) _ _ _ HO2 Hi Enth Hcb).
Qed.

(* ---------- the loop over the lines of a run of non-blank lines ---------- *)
(* the first opened block is a child of the document, hence not a list item *)
Lemma first_not_item fl s e0 E0 node :
  SInv fl s (e0 :: E0) [] [] -> nth_error (e0 :: E0) (Z.to_nat 0) = Some (node, PListItem) -> False.
Proof.
  intros HS Enth. set (E := e0 :: E0) in *.
  change (nth_error E (Z.to_nat 0)) with (Some e0) in Enth. injection Enth as Ee0.
  pose proof (CE SInv_spine _ _ _ HS) as Hsp. pose proof HS as [_ HH]. pose proof (hi_heap _ _ _ _ _ _ _ _ HH) as HhS.
  assert (Adj (0%nat :: ids E) 0%nat node) as Hadj.
  { unfold E. rewrite Ee0. cbn [ids map fst]. exists [], (map fst E0). reflexivity. }
  destruct (Hsp _ _ Hadj) as [n0 [En0 Hlc]]. apply last_id_in in Hlc.
  destruct (hs_K _ _ _ HhS _ _ _ En0 Hlc) as [nc [Enc Pnc]].
  assert (In (node, PListItem) (E ++ [] ++ [])) as Hin by (rewrite app_nil_r; unfold E; rewrite Ee0; left; reflexivity).
  destruct (CE SInv_entry _ _ _ _ _ _ _ HS Hin) as [nc' [Enc' [Knc _]]]. assert (nc' = nc) by congruence. subst nc'.
  pose proof (hs_item _ _ _ HhS _ _ _ _ En0 Hlc Enc Knc) as Kn0.
  destruct (hs_root _ _ _ HhS) as [r0 [Er0 [Kr0 _]]]. congruence.
Qed.

Lemma lines_loopX_on : forall fuel x stats E, OInv FF (bx_s x) E [] [] ->
  LLX fuel 0%nat stats x = (y <- LL fuel 0%nat stats (bx_s x) ;; Ok (lift_sum x (fst y), snd y)).
Proof.
  induction fuel as [|f IH]; intros x stats E HO; cbn [lines_loopX lines_loop]; [reflexivity|].
  pose proof HO as [HS [HOe Hu]]. rewrite (CJ Oeq_opened _ _ HOe).
  destruct E as [|e0 E0]; [cbn [bind fst snd lift_sum]; rewrite stx_s_id; reflexivity|].
  set (E := e0 :: E0) in *.
  assert (EOX (S (length E)) E 0%nat 0 (zlen E - 1) stats x =
          (y <- EO (S (length E)) E 0%nat 0 (zlen E - 1) stats (bx_s x) ;; Ok (lift_sum x (fst y), snd y))) as HE.
  { apply (each_openedX_on E _ 0 FF); [exact HO|reflexivity|lia| |].
    - intros _ j y bq Hj. cbn in Hj. lia.
    - intros node Enth. exfalso. exact (first_not_item FF (bx_s x) e0 E0 node HS Enth). }
  rewrite HE. clear HE.
  destruct (EO (S (length E)) E 0%nat 0 (zlen E - 1) stats (bx_s x)) as [[r1 stats1]| |] eqn:Ex; cbn [bind fst snd]; try reflexivity.
  assert (EPost space_table src r1) as HP.
  { eapply (CJ each_opened_ok E _ 0 FF); [exact HO|reflexivity|lia| | |exact Ex].
    - intros _ j y bq Hj. cbn in Hj. lia.
    - intros node Enth. exfalso. exact (first_not_item FF (bx_s x) e0 E0 node HS Enth). }
  destruct r1 as [s1|s1]; cbn [lift_sum]; [reflexivity|].
  destruct HP as [E' HO']. unfold advance_line_x. cbn [bx_s stx_s]. rewrite stx_s_s.
  erewrite (IH (stx_s x (advance_line_s s1)) stats1 E'); [reflexivity|].
  cbn [bx_s stx_s]. eapply (CJ OInv_advance_line). exact HO'.
Qed.

(* ---------- parseBlocks ---------- *)
Lemma parse_blocks_loopX_on : forall fuel x stats, OInv FF (bx_s x) [] [] [] ->
  PBLX fuel 0%nat stats x = lift0 x (PBL fuel 0%nat stats (bx_s x)).
Proof.
  induction fuel as [|f IH]; intros x stats HO; cbn [parse_blocks_loopX parse_blocks_loop]; [reflexivity|].
  destruct (r_skip_blank_lines space_table (S (length (src_of (bx_s x)))) (s_r (bx_s x))) as [[[[r1 sg] lines] ok]| |] eqn:Ex;
    cbn [bind]; try reflexivity.
  cbn [bx_s stx_s].
  pose proof HO as [HS [HOe Hu]].
  destruct (skip_blank_ok space_table src _ _ _ _ _ _ _ (proj1 HS) Ex) as [HR1 Hle1].
  assert (OInv FF (st_r (bx_s x) r1) [] [] []) as HO1.
  { split; [apply (CE SInv_reader); assumption|]. split; assumption. }
  destruct ok; cbn [negb]; [|reflexivity].
  assert (topC []) as Htop by (intros E' y bq EE; destruct E'; discriminate).
  match goal with |- (o <- OBX ?fu _ ?bl _ ;; _) = _ =>
    rewrite (open_blocksX_on fu 0%nat bl (stx_s x (st_r (bx_s x) r1)) [] [] HO1 Htop eq_refl); cbn [bx_s stx_s];
    destruct (OB fu 0%nat bl (st_r (bx_s x) r1)) as [[res s2]| |] eqn:Eo end; cbn [bind fst snd]; try reflexivity.
  destruct (CJ open_blocks_ok _ 0%nat _ (st_r (bx_s x) r1) [] [] res s2 HO1 Htop eq_refl Eo) as [D' [N' [HW2 [HD' [_ [Hne _]]]]]].
  assert (D' = []) as -> by (destruct HD' as [->|[-> _]]; reflexivity).
  destruct (Z.eqb_spec res newBlocksOpened) as [Er|Er]; cbn [negb]; [|reflexivity].
  assert (OInv FF (advance_line_s s2) ([] ++ N') [] []) as HO3.
  { apply (CE OInv_merge). eapply (CJ OInv_advance_line). exact HW2. }
  unfold advance_line_x. cbn [bx_s stx_s]. rewrite !stx_s_s.
  match goal with |- (y <- LLX ?fu _ ?sts _ ;; _) = _ =>
    rewrite (lines_loopX_on fu (stx_s x (advance_line_s s2)) sts _ HO3); cbn [bx_s stx_s];
    destruct (LL fu 0%nat sts (advance_line_s s2)) as [[r2 stats2]| |] eqn:Ey end; cbn [bind fst snd]; try reflexivity.
  pose proof (CJ lines_loop_ok _ _ _ _ _ _ HO3 Ey) as Hr. destruct r2 as [s3|s3]; cbn [lift_sum]; [reflexivity|].
  rewrite stx_s_s. rewrite (IH (stx_s x s3) stats2 Hr). reflexivity.
Qed.

(* with the Table extension on and no '-' in the source, the block phase is that of the default parser *)
Theorem parse_blocksX_on :
  parse_blocksX true space_table punct_table norm re_t1o re_t1c re_t2 re_t3 re_t4 re_t5 re_t6 re_t7 allowed_tags src =
  (s <- parse_blocks space_table punct_table norm re_t1o re_t1c re_t2 re_t3 re_t4 re_t5 re_t6 re_t7 allowed_tags src ;;
   Ok {| bx_s := s; bx_tabs := [] |}).
Proof.
  unfold parse_blocksX, parse_blocks. rewrite parse_blocks_loopX_on; [reflexivity|].
  cbn [bx_s]. exact (CJ init_OInv).
Qed.

End CP.

(* the Table extension changes nothing in the block phase of a source without '-' *)
Theorem parse_blocksX_table : forall space_table punct_table norm re_t1o re_t1c re_t2 re_t3 re_t4 re_t5 re_t6 re_t7 allowed_tags src,
  is_space space_table 32%N = true -> bytes_ok src -> ~ In 45%N src ->
  parse_blocksX true space_table punct_table norm re_t1o re_t1c re_t2 re_t3 re_t4 re_t5 re_t6 re_t7 allowed_tags src =
  parse_blocksX false space_table punct_table norm re_t1o re_t1c re_t2 re_t3 re_t4 re_t5 re_t6 re_t7 allowed_tags src.
Proof.
  intros space_table punct_table norm re_t1o re_t1c re_t2 re_t3 re_t4 re_t5 re_t6 re_t7 allowed_tags src sp32 Hsrc Hnd.
  rewrite (parse_blocksX_on space_table punct_table norm re_t1o re_t1c re_t2 re_t3 re_t4 re_t5 re_t6 re_t7 allowed_tags src sp32 Hsrc Hnd).
  rewrite parse_blocksX_off. reflexivity.
Qed.
