(* C11 for the model of the parser with extension.Footnote (model/FootnoteI.v): a source without
   the two bytes "[^" in a row gets the tree of the default parser.

   Proof (helper files, in compile order):
     FootnoteConservativeDefs.v     nfm (= no_fn_marker, stable under slices, padding, forced newline),
                                    the facts FI about a block-phase state
     FootnoteConservativeRd.v       the reader functions of the block phase keep "reads src, cached
                                    line without [^"
     FootnoteConservativeSt.v       heap primitives keep "no Footnote/FootnoteList node"; relation ext
     FootnoteConservativeParsers.v  Open/Continue/Close of the ten block parsers and the paragraph
                                    transformer are ext steps
     FootnoteConservativeBlk.v      the driver copy with the footnote block parser = the core driver
                                    (the footnote parser declines: the line has no "[^")
     FootnoteConservativeInlRd.v, FootnoteConservativeInl.v
                                    the inline phase with the footnote inline parser = the core
                                    inline phase when there is no FootnoteList (fs_defs = None); the
                                    parser may run over "!x^...]" but then finds no list
     FootnoteConservativeTree.v     walk + AST transformer (identity) + to_treeF = to_tree + attach_inlines
   The statement holds as given (no extra hypothesis for the '!' trigger is needed: without a
   FootnoteList the inline parser returns nil on every path). *)
Require Import GM.model.Base GM.model.Util GM.model.Reader GM.model.HtmlWriter GM.model.Html GM.model.HtmlI
               GM.model.BlockParse GM.model.InlineParse GM.model.ParseI GM.model.FootnoteParseBlock GM.model.FootnoteParseInline GM.model.FootnoteParse GM.model.FootnoteI.
Require Import GM.model.UtilI GM.model.DelimI GM.gen.Tables GM.gen.Regexes.
Require Import GM.proofs.ParseInv.
Require Import GM.proofs.FootnoteConservativeDefs GM.proofs.FootnoteConservativeBlk GM.proofs.FootnoteConservativeTree
               GM.proofs.FootnoteConservativeInl.
Require Import GM.proofs.ParseBlocksRangeB GM.proofs.ParseBlocksRangeP GM.proofs.ParseBlocksRange GM.proofs.ParseBlocksTotal GM.proofs.ParseFinal.
From Coq Require Import List NArith Bool.
Import ListNotations.
Open Scope N_scope.

(* no '[' is directly followed by '^' *)
Fixpoint no_fn_marker (src : bytes) : bool :=
  match src with
  | 91 :: ((94 :: _) as r) => false
  | _ :: r => no_fn_marker r
  | [] => true
  end.

Lemma no_fn_marker_other c r : c <> 91 -> no_fn_marker (c :: r) = no_fn_marker r.
Proof.
  intros H. destruct c as [|p]; [reflexivity|].
  do 7 (destruct p as [p|p|]; try reflexivity). all: try (exfalso; apply H; reflexivity).
Qed.
Lemma no_fn_marker_91 r : no_fn_marker (91 :: r) = match r with d :: _ => if N.eqb d 94 then false else no_fn_marker r | [] => true end.
Proof.
  destruct r as [|d r]; [reflexivity|]. destruct (N.eqb_spec d 94) as [->|H]; [reflexivity|].
  destruct d as [|p]; [reflexivity|].
  do 7 (destruct p as [p|p|]; try reflexivity). all: try (exfalso; apply H; reflexivity).
Qed.
Lemma no_fn_marker_nfm : forall src, no_fn_marker src = nfm src.
Proof.
  induction src as [|c r IH]; [reflexivity|]. rewrite nfm_cons. unfold bad2.
  destruct (N.eqb_spec c 91) as [->|H].
  - rewrite no_fn_marker_91. destruct r as [|d r']; [reflexivity|]. destruct (N.eqb d 94); [reflexivity|]. exact IH.
  - rewrite no_fn_marker_other by exact H. exact IH.
Qed.

Lemma space_table_sp32 : is_space space_table 32%N = true.
Proof. vm_compute. reflexivity. Qed.

Theorem footnote_conservative : forall src, bytes_ok src -> no_fn_marker src = true -> ParseTreeFn src = ParseTree src.
Proof.
  intros src Hb Hn. rewrite no_fn_marker_nfm in Hn.
  destruct (ParseTree_total_all src Hb) as [tf Htf].
  unfold ParseTreeFn, parse_treeF.
  destruct (parse_blocksF_core src Hn space_table punct_table ToLinkReference
              re_htmlBlockType1Open re_htmlBlockType1Close re_htmlBlockType2Open re_htmlBlockType3Open
              re_htmlBlockType4Open re_htmlBlockType5Open re_htmlBlockType6 re_htmlBlockType7 allowed_block_tags) as [Heq Hplain].
  rewrite Heq. clear Heq.
  unfold ParseTree, ParseBlocksTree, ParseBlocks in *.
  destruct (parse_blocks _ _ _ _ _ _ _ _ _ _ _ _ src) as [s| |] eqn:Es; cbn [bind] in *; try discriminate Htf.
  specialize (Hplain s eq_refl). cbn [bf_s bf_list L initial_defs bind].
  destruct (to_tree (S (length (s_h s))) src (s_h s) 0%nat) as [t| |] eqn:Et; cbn [bind] in *; try discriminate Htf.
  destruct (parse_blocks_tree_ok_sp space_table punct_table ToLinkReference
              re_htmlBlockType1Open re_htmlBlockType1Close re_htmlBlockType2Open re_htmlBlockType3Open
              re_htmlBlockType4Open re_htmlBlockType5Open re_htmlBlockType6 re_htmlBlockType7 allowed_block_tags
              space_table_sp32 src s t Hb Es Et) as (_ & Hlines & Hrefs).
  destruct (parse_blocks_final space_table punct_table ToLinkReference
              re_htmlBlockType1Open re_htmlBlockType1Close re_htmlBlockType2Open re_htmlBlockType3Open
              re_htmlBlockType4Open re_htmlBlockType5Open re_htmlBlockType6 re_htmlBlockType7 allowed_block_tags
              src space_table_sp32 Hb s Es) as (HhS & _ & _).
  apply (tree_phase src (s_h s) t (InlineChildren (c_refs (s_c s)) src)
           (fun fs lines => inline_childrenF space_table punct_table ToLinkReference url_table email_table re_emailDomain
                              re_openTag re_closeTag PunctRune SpaceRune (c_refs (s_c s)) fs src lines)).
  - exact Hplain.
  - intros i n Hi Hinl. apply (np_leaf _ _ _ (hs_node _ _ _ HhS i n Hi)).
    unfold block_has_inlines in Hinl. destruct (bk n); try discriminate Hinl; reflexivity.
  - exact Et.
  - exact Hlines.
  - intros lines Hl. apply inline_childrenF_core; [exact Hb|exact Hrefs|exact Hl|reflexivity].
  - exists tf. exact Htf.
Qed.
