(* The DefinitionList switch of the generalised block driver (model/TypoDefParseD.v) makes no
   difference on a source without the byte 58 (':'): the flag is only read in candidatesD, on the
   byte of the peeked line at the position of the first non-blank, and that line has no 58
   (TypoDefConservativeDefSrc.v: neither the source of the reader nor its cache of the peeked line
   ever gets one).  An unconditional equation of results (all error outcomes included). *)
Require Import GM.model.Base GM.model.Util GM.model.Reader GM.model.Blocks GM.model.ListItem
               GM.model.LeafBlocks GM.model.CodeBlock GM.model.LinkDest GM.model.Regex
               GM.model.Html GM.model.BlockParse GM.model.TypoDefParseD.
Require Import GM.proofs.GfmConservativeDefs GM.proofs.GfmConservativeTableBSrc
               GM.proofs.TypoDefConservativeDefSrc.
From Coq Require Import List ZArith NArith Bool Lia.
Import ListNotations.
Open Scope Z_scope.

(* the state inside the results of the driver functions *)
Definition tdd_sum (r : st + st) : st := match r with inl x => x | inr x => x end.
Definition tdd_try (t : try_res) : st := match t with TRetry _ _ _ x => x | TDone _ x => x end.

Ltac fin := split; [reflexivity|intros ? HH; discriminate HH].
Ltac bstep x E :=
  match goal with
  | |- (bind ?e _ = _) /\ _ => destruct e as [x| |] eqn:E; cbn [bind]; [|fin|fin]
  end.

Section DefD.
Variable space_table punct_table : list N.
Variable norm : bytes -> bytes.
Variable re_t1o re_t1c re_t2 re_t3 re_t4 re_t5 re_t6 re_t7 : re.
Variable allowed_tags : list bytes.
Notation p_open := (p_open space_table re_t1o re_t2 re_t3 re_t4 re_t5 re_t6 re_t7 allowed_tags).
Notation p_continue := (p_continue space_table re_t1c).
Notation p_close := (p_close space_table).
Notation transform_paragraph := (transform_paragraph space_table punct_table norm).
Notation PCD := (p_continueD space_table re_t1c).
Notation PCLD := (p_closeD space_table).
Notation CRD := (close_rangeD space_table punct_table norm).
Notation CBD := (close_blocksD space_table punct_table norm).
Notation TRYD := (try_parsersD space_table punct_table norm re_t1o re_t2 re_t3 re_t4 re_t5 re_t6 re_t7 allowed_tags).
Notation OBLD b := (open_blocks_loopD b space_table punct_table norm re_t1o re_t2 re_t3 re_t4 re_t5 re_t6 re_t7 allowed_tags).
Notation OBD b := (open_blocksD b space_table punct_table norm re_t1o re_t1c re_t2 re_t3 re_t4 re_t5 re_t6 re_t7 allowed_tags).
Notation EOD b := (each_openedD b space_table punct_table norm re_t1o re_t1c re_t2 re_t3 re_t4 re_t5 re_t6 re_t7 allowed_tags).
Notation LLD b := (lines_loopD b space_table punct_table norm re_t1o re_t1c re_t2 re_t3 re_t4 re_t5 re_t6 re_t7 allowed_tags).
Notation PBLD b := (parse_blocks_loopD b space_table punct_table norm re_t1o re_t1c re_t2 re_t3 re_t4 re_t5 re_t6 re_t7 allowed_tags).

(* ---- the steps that do not read the flag keep the invariant ---- *)
Ltac gd_fact3 E :=
  first [ apply gd_peek_line_s1 in E; [|gd_side]
        | apply gd_line_offset_s in E; [|gd_side]
        | apply gd_advance_s in E; [|gd_side]
        | apply (gd_p_open space_table re_t1o re_t2 re_t3 re_t4 re_t5 re_t6 re_t7 allowed_tags) in E; [|gd_side]
        | apply (gd_p_continue space_table re_t1c) in E; [|gd_side]
        | apply (gd_p_close space_table) in E; [|gd_side]
        | apply (gd_transform_paragraph space_table punct_table norm) in E; [|gd_side]
        | gd_fact1 E ].
Ltac gd_fact E ::= gd_fact3 E.

Lemma gdd_deflist_continue s node s' b : deflist_continue space_table s node = Ok (s', b) -> gd s -> gd s'.
Proof.
  unfold deflist_continue. intros H G. repeat gd_step H; gd_done.
Qed.

Lemma gdd_defdesc_close s node s' : defdesc_close s node = Ok s' -> gd s -> gd s'.
Proof.
  unfold defdesc_close, new_node, halloc. intros H G. unfold gd in G. repeat gd_step H; gd_done.
Qed.

Lemma gdd_p_continueD bp s node s' c k : PCD bp s node = Ok (s', c, k) -> gd s -> gd s'.
Proof.
  unfold p_continueD. intros H G. gc_bind H n Hn. destruct (is_dl n).
  - gc_bind H x Hx. destruct x as [s1 b1]. apply gdd_deflist_continue in Hx; [|exact G].
    injection H as <- _ _. exact Hx.
  - destruct (is_dd n).
    + injection H as <- _ _. exact G.
    + exact (gd_p_continue _ _ _ _ _ _ _ _ H G).
Qed.

Lemma gdd_p_closeD bp s node s' : PCLD bp s node = Ok s' -> gd s -> gd s'.
Proof.
  unfold p_closeD. intros H G. gc_bind H n Hn. destruct (is_dl n).
  - injection H as <-. exact G.
  - destruct (is_dd n).
    + exact (gdd_defdesc_close _ _ _ H G).
    + exact (gd_p_close _ _ _ _ _ H G).
Qed.

Ltac gd_fact4 E :=
  first [ apply gdd_p_continueD in E; [|gd_side]
        | apply gdd_p_closeD in E; [|gd_side]
        | gd_fact3 E ].
Ltac gd_fact E ::= gd_fact4 E.

Lemma gdd_close_range : forall cnt s blocks i s', CRD s blocks cnt i = Ok s' -> gd s -> gd s'.
Proof.
  induction cnt as [|k IH]; intros s blocks i s' H G; cbn [close_rangeD] in H.
  - injection H as <-. exact G.
  - destruct ((i <? 0) || (zlen blocks <=? i)); [discriminate|].
    destruct (nth_error blocks (Z.to_nat i)) as [[node p]|]; [|discriminate].
    gc_bind H isp Hisp. gc_bind H att Hatt. gc_bind H s1 H1.
    assert (G1 : gd s1).
    { destruct (isp && att); repeat gd_step H1; gd_done. }
    gc_bind H att2 Hatt2. gc_bind H s2 H2.
    assert (G2 : gd s2).
    { destruct att2; repeat gd_step H2; gd_done. }
    exact (IH _ _ _ _ H G2).
Qed.

Lemma gdd_close_blocks s from to s' : CBD s from to = Ok s' -> gd s -> gd s'.
Proof.
  unfold close_blocksD. intros H G. gc_bind H s1 H1. apply gdd_close_range in H1; [|exact G].
  repeat gd_step H; gd_done.
Qed.

Ltac gd_fact5 E := first [ apply gdd_close_blocks in E; [|gd_side] | gd_fact4 E ].
Ltac gd_fact E ::= gd_fact5 E.

Ltac gd_step2 H :=
  match type of H with
  | match inl _ with inl _ => _ | inr _ => _ end = Ok _ => cbv iota in H
  | match inr _ with inl _ => _ | inr _ => _ end = Ok _ => cbv iota in H
  | _ => gd_step H
  end.

Lemma gdd_try_parsers : forall l parent blank cont res w s t,
  TRYD (map DCore l) parent blank cont res w s = Ok t -> gd s -> gd (tdd_try t).
Proof.
  induction l as [|bp rest IH]; intros parent blank cont res w s t H G; cbn [map try_parsersD] in H.
  - injection H as <-. exact G.
  - destruct (cont && (res =? noBlocksOpened) && negb (can_interrupt_paragraphD (DCore bp))); [exact (IH _ _ _ _ _ _ _ H G)|].
    destruct ((3 <? w) && negb (can_accept_indentedD (DCore bp))); [exact (IH _ _ _ _ _ _ _ H G)|].
    cbn [p_openD] in H. cbv zeta in H.
    repeat gd_step2 H; try (eapply IH; [eassumption|gd_done]); cbn [tdd_try]; gd_done.
Qed.

(* ---- the flag is read on a byte of the peeked line, which is not 58 ---- *)
Lemma candidatesD_flag c : c <> 58%N -> candidatesD true c = candidatesD false c.
Proof.
  intros Hc. unfold candidatesD. destruct (N.eqb_spec c 58) as [E|_]; [contradiction|]. reflexivity.
Qed.

Lemma nth_byte_no58 l pos : ~ In 58%N l -> nth_byte l pos <> 58%N.
Proof.
  intros Hl E. unfold nth_byte in E.
  destruct (nth_in_or_default (Z.to_nat pos) l 0%N) as [Hin|Hd].
  - rewrite E in Hin. exact (Hl Hin).
  - rewrite Hd in E. discriminate E.
Qed.

Lemma eq_open_blocks_loop : forall fuel parent blank cont res s, gd s ->
  OBLD true fuel parent blank cont res s = OBLD false fuel parent blank cont res s /\
  (forall r, OBLD false fuel parent blank cont res s = Ok r -> gd (snd r)).
Proof.
  induction fuel as [|f IH]; intros parent blank cont res s G; cbn [open_blocks_loopD]; [fin|].
  bstep x Ep. destruct x as [[s1 line] sg].
  destruct (gd_peek_line_s _ _ _ _ Ep G) as [G1 Hline].
  bstep y Eo. destruct y as [s2 off]. pose proof (gd_line_offset_s _ _ _ Eo G1) as G2.
  destruct (Blocks.indent_width (line_of line) off) as [w pos].
  match goal with |- (if ?b then _ else _) = _ /\ _ => destruct b end.
  - split; [reflexivity|]. intros r H. injection H as <-. cbn [snd]. gd_done.
  - rewrite (candidatesD_flag _ (nth_byte_no58 _ pos Hline)).
    match goal with |- (bind (TRYD ?bps _ _ _ _ _ ?s0) _ = _) /\ _ =>
      assert (Ht : forall t, TRYD bps parent blank cont res w s0 = Ok t -> gd (tdd_try t)) end.
    { intros t Ht. destruct (pos <? zlen (line_of line)).
      - unfold candidatesD in Ht. cbn [andb] in Ht. apply gdd_try_parsers in Ht; [exact Ht|gd_done].
      - apply gdd_try_parsers in Ht; [exact Ht|gd_done]. }
    bstep t Et. pose proof (Ht t eq_refl) as Gt. clear Ht Et. rename Gt into Et.
    destruct t as [p2 c2 r2 s3|r2 s3]; cbn [tdd_try] in Et.
    + apply IH. exact Et.
    + split; [reflexivity|]. intros r H. injection H as <-. exact Et.
Qed.

Lemma eq_open_blocks fuel parent blank s : gd s ->
  OBD true fuel parent blank s = OBD false fuel parent blank s /\
  (forall r, OBD false fuel parent blank s = Ok r -> gd (snd r)).
Proof.
  intros G. unfold open_blocksD.
  bstep cn0 Ec.
  destruct (eq_open_blocks_loop fuel parent blank cn0 noBlocksOpened s G) as [Eq Gd]. rewrite Eq. clear Eq.
  bstep x Ex0. pose proof (Gd _ eq_refl) as Ex. clear Gd Ex0. destruct x as [[res c2] s2]. cbn [snd] in Ex.
  split; [reflexivity|]. intros r H. repeat gd_step H; cbn [snd]; gd_done.
Qed.

Lemma eq_each_opened : forall fuel captured root i last_index stats s, gd s ->
  EOD true fuel captured root i last_index stats s = EOD false fuel captured root i last_index stats s /\
  (forall r, EOD false fuel captured root i last_index stats s = Ok r -> gd (tdd_sum (fst r))).
Proof.
  induction fuel as [|f IH]; intros captured root i last_index stats s G; cbn [each_openedD]; [fin|].
  destruct (last_index <? i); [split; [reflexivity|]; intros r H; injection H as <-; exact G|].
  destruct (nth_error captured (Z.to_nat i)) as [[node bp]|]; [|fin].
  bstep x Ep. destruct x as [[s1 line] sg]. pose proof (gd_peek_line_s1 _ _ _ _ Ep G) as G1.
  destruct line as [line|].
  2:{ split; [reflexivity|]. intros r H. repeat gd_step H. cbn [fst tdd_sum]. gd_done. }
  bstep isp Eisp.
  bstep c Ec. destruct c as [[s2 cn0] kids].
  assert (G2 : gd s2).
  { destruct (negb isp); repeat gd_step Ec; gd_done. }
  clear Ec.
  destruct cn0.
  - destruct (kids && (i =? last_index)).
    + destruct (eq_open_blocks (2 * length line + 8) node
                  (is_blank_line (rline s1 - 1) i ((rline s1, i, Reader.is_blank space_table line) :: stats)) s2 G2)
        as [Eq Gd]. rewrite Eq. clear Eq.
      bstep o Eo0. pose proof (Gd _ eq_refl) as Eo. clear Gd Eo0. split; [reflexivity|]. intros r H. injection H as <-. exact Eo.
    + apply IH. exact G2.
  - bstep tp Etp. bstep ln Eln.
    destruct (eq_open_blocks (2 * length line + 8) tp
                (is_blank_line (rline s1 - 1) i ((rline s1, i, Reader.is_blank space_table line) :: stats)) s2 G2)
      as [Eq Gd]. rewrite Eq. clear Eq.
    bstep o Eo0. pose proof (Gd _ eq_refl) as Eo. clear Gd Eo0. destruct o as [res s3]. cbn [snd] in Eo.
    split; [reflexivity|]. intros r H. repeat gd_step H; cbn [fst tdd_sum]; gd_done.
Qed.

Lemma eq_lines_loop : forall fuel root stats s, gd s ->
  LLD true fuel root stats s = LLD false fuel root stats s /\
  (forall r, LLD false fuel root stats s = Ok r -> gd (tdd_sum (fst r))).
Proof.
  induction fuel as [|f IH]; intros root stats s G; cbn [lines_loopD]; [fin|].
  destruct (opened (s_c s)) as [|e0 cap].
  - split; [reflexivity|]. intros r H. injection H as <-. exact G.
  - match goal with |- (bind (each_openedD true _ _ _ _ _ _ _ _ _ _ _ _ ?fu ?ca ?ro ?i ?li ?st ?s0) _ = _) /\ _ =>
      destruct (eq_each_opened fu ca ro i li st s0 G) as [Eq Gd] end.
    rewrite Eq. clear Eq.
    bstep x Ex0. pose proof (Gd _ eq_refl) as Ex. clear Gd Ex0. destruct x as [y st1]. cbn [fst] in Ex.
    destruct y as [s1|s1]; cbn [tdd_sum] in Ex.
    + split; [reflexivity|]. intros r H. injection H as <-. exact Ex.
    + apply IH. apply gd_advance_line_s. exact Ex.
Qed.

Lemma eq_parse_blocks_loop : forall fuel root stats s, gd s ->
  PBLD true fuel root stats s = PBLD false fuel root stats s /\
  (forall r, PBLD false fuel root stats s = Ok r -> gd r).
Proof.
  induction fuel as [|f IH]; intros root stats s G; cbn [parse_blocks_loopD]; [fin|].
  bstep x Es. destruct x as [[[rd a] lines] ok]. apply gd_r_skip_blank_lines in Es; [|exact G].
  assert (G1 : gd (st_r s rd)) by exact Es.
  destruct (negb ok); [split; [reflexivity|]; intros r H; injection H as <-; exact G1|].
  match goal with |- (bind (open_blocksD true _ _ _ _ _ _ _ _ _ _ _ _ ?fu ?pa ?bl ?s0) _ = _) /\ _ =>
    destruct (eq_open_blocks fu pa bl s0 G1) as [Eq Gd] end.
  rewrite Eq. clear Eq.
  bstep o Eo0. pose proof (Gd _ eq_refl) as Eo. clear Gd Eo0. destruct o as [res s1]. cbn [snd] in Eo.
  destruct (negb (res =? newBlocksOpened)); [split; [reflexivity|]; intros r H; injection H as <-; exact Eo|].
  match goal with |- (bind (lines_loopD true _ _ _ _ _ _ _ _ _ _ _ _ ?fu ?ro ?st ?s0) _ = _) /\ _ =>
    destruct (eq_lines_loop fu ro st s0 (gd_advance_line_s _ Eo)) as [Eq Gd] end.
  rewrite Eq. clear Eq.
  bstep y Ey0. pose proof (Gd _ eq_refl) as Ey. clear Gd Ey0. destruct y as [y st2]. cbn [fst] in Ey.
  destruct y as [s2|s2]; cbn [tdd_sum] in Ey.
  - split; [reflexivity|]. intros r H. injection H as <-. exact Ey.
  - apply IH. exact Ey.
Qed.

End DefD.

(* on a source without ':' the DefinitionList switch of the block phase makes no difference *)
Theorem parse_blocksD_deflist : forall space_table punct_table norm re_t1o re_t1c re_t2 re_t3 re_t4 re_t5 re_t6 re_t7 allowed_tags src,
  ~ In 58%N src ->
  parse_blocksD true  space_table punct_table norm re_t1o re_t1c re_t2 re_t3 re_t4 re_t5 re_t6 re_t7 allowed_tags src =
  parse_blocksD false space_table punct_table norm re_t1o re_t1c re_t2 re_t3 re_t4 re_t5 re_t6 re_t7 allowed_tags src.
Proof.
  intros space_table punct_table norm re_t1o re_t1c re_t2 re_t3 re_t4 re_t5 re_t6 re_t7 allowed_tags src Hsrc.
  unfold parse_blocksD. apply eq_parse_blocks_loop.
  unfold gd. cbn [s_r]. unfold new_reader. apply gd_advance_line.
  split; cbn [r_src r_peeked]; [exact Hsrc|]. intros v Hv. discriminate Hv.
Qed.
