(* The inline heap never shrinks along successful runs of the functions of model/InlineParse.v
   (so a node index that is valid before a run is valid after it). *)
Require Import GM.model.Base GM.model.Util GM.model.Reader GM.model.Regex GM.model.Delim
               GM.model.CodeSpan GM.model.BlockParse GM.model.InlineParse.
Require Import GM.proofs.GfmConservativeDefs GM.proofs.GfmConservativePrim.
From Coq Require Import List ZArith NArith Bool Lia.
Import ListNotations.
Open Scope Z_scope.

Lemma iset_len h i n : length (iset h i n) = length h.
Proof. revert i. induction h as [|x t IH]; intros i; destruct i as [|i]; cbn [iset length]; auto. Qed.

Lemma pop_bottom_len c c' b : pop_bottom c = (c', b) -> (length (i_h c) <= length (i_h c'))%nat.
Proof. intros H. apply pop_bottom_eq_h in H. rewrite H. apply le_n. Qed.

Lemma app_len_l {A} (h l : list A) : (length h <= length (h ++ l))%nat.
Proof. rewrite app_length. lia. Qed.

(* ---- automation: chain the lemmas along the hypotheses by transitivity ---- *)
Ltac glen_fin := rewrite ?pop_bottom_h, ?iset_len, ?app_length; cbn [length]; lia.
Ltac glen_norm :=
  progress cbn [i_h cx_h cx_d cx_labels cx_bottoms t_c t_r ist_c ist_r fst snd].
Create HintDb ldb.
#[export] Hint Extern 0 (le _ _) => apply le_n : ldb.
#[export] Hint Extern 0 (le _ _) => glen_norm : ldb.
#[export] Hint Extern 6 (le _ _) => glen_fin : ldb.
#[export] Hint Extern 1 (le _ (length (i_h _))) =>
  eapply Nat.le_trans; [|eapply pop_bottom_len; eassumption] : ldb.
#[export] Hint Extern 1 (le _ (length (_ ++ _))) => eapply Nat.le_trans; [|apply app_len_l] : ldb.
Ltac glen := gnorm; eauto 40 with ldb.

(* ---- the heap ---- *)
Lemma iupd_len h i f h' : iupd h i f = Ok h' -> (length h <= length h')%nat.
Proof. unfold iupd. intros H. gp. glen. Qed.
#[export] Hint Extern 1 (le _ (length _)) => eapply Nat.le_trans; [|eapply iupd_len; eassumption] : ldb.

Lemma i_detach_len h c h' : i_detach h c = Ok h' -> (length h <= length h')%nat.
Proof. unfold i_detach. intros H. gp; glen. Qed.
#[export] Hint Extern 1 (le _ (length _)) => eapply Nat.le_trans; [|eapply i_detach_len; eassumption] : ldb.

Lemma i_append_len h p c h' : i_append h p c = Ok h' -> (length h <= length h')%nat.
Proof. unfold i_append. intros H. gp; glen. Qed.
#[export] Hint Extern 1 (le _ (length _)) => eapply Nat.le_trans; [|eapply i_append_len; eassumption] : ldb.

Lemma i_remove_len h p c h' : i_remove h p c = Ok h' -> (length h <= length h')%nat.
Proof. unfold i_remove. intros H. gp; glen. Qed.
#[export] Hint Extern 1 (le _ (length _)) => eapply Nat.le_trans; [|eapply i_remove_len; eassumption] : ldb.

Lemma i_insert_before_len h p ref new h' : i_insert_before h p ref new = Ok h' -> (length h <= length h')%nat.
Proof. unfold i_insert_before. intros H. gp; glen. Qed.
#[export] Hint Extern 1 (le _ (length _)) => eapply Nat.le_trans; [|eapply i_insert_before_len; eassumption] : ldb.

Lemma i_replace_len h p old new h' : i_replace h p old new = Ok h' -> (length h <= length h')%nat.
Proof. unfold i_replace. intros H. gp; glen. Qed.
#[export] Hint Extern 1 (le _ (length _)) => eapply Nat.le_trans; [|eapply i_replace_len; eassumption] : ldb.

Lemma i_insert_after_len h p ref new h' : i_insert_after h p ref new = Ok h' -> (length h <= length h')%nat.
Proof. unfold i_insert_after. intros H. gp; glen. Qed.
#[export] Hint Extern 1 (le _ (length _)) => eapply Nat.le_trans; [|eapply i_insert_after_len; eassumption] : ldb.

Lemma dset_links_len h d p nx h' : dset_links h d p nx = Ok h' -> (length h <= length h')%nat.
Proof. unfold dset_links. intros H. gp; glen. Qed.
#[export] Hint Extern 1 (le _ (length _)) => eapply Nat.le_trans; [|eapply dset_links_len; eassumption] : ldb.

Lemma dset_prev_len h d p h' : dset_prev h d p = Ok h' -> (length h <= length h')%nat.
Proof. unfold dset_prev. intros H. gp; glen. Qed.
#[export] Hint Extern 1 (le _ (length _)) => eapply Nat.le_trans; [|eapply dset_prev_len; eassumption] : ldb.

Lemma dset_next_len h d nx h' : dset_next h d nx = Ok h' -> (length h <= length h')%nat.
Proof. unfold dset_next. intros H. gp; glen. Qed.
#[export] Hint Extern 1 (le _ (length _)) => eapply Nat.le_trans; [|eapply dset_next_len; eassumption] : ldb.

Lemma consume_chars_len h d n h' : consume_chars h d n = Ok h' -> (length h <= length h')%nat.
Proof. unfold consume_chars. intros H. gp; glen. Qed.
#[export] Hint Extern 1 (le _ (length _)) => eapply Nat.le_trans; [|eapply consume_chars_len; eassumption] : ldb.

Lemma move_children_len fuel : forall h cur stop node h',
  move_children fuel h cur stop node = Ok h' -> (length h <= length h')%nat.
Proof.
  induction fuel as [|f IH]; intros h cur stop node h' H; cbn [move_children] in H; [discriminate H|].
  gp; try solve [glen].
  match goal with H : move_children f _ _ _ _ = Ok _ |- _ => apply IH in H; eapply Nat.le_trans; [|exact H] end.
  glen.
Qed.
#[export] Hint Extern 1 (le _ (length _)) => eapply Nat.le_trans; [|eapply move_children_len; eassumption] : ldb.

Lemma lset_len h x p nx fs ls h' : lset h x p nx fs ls = Ok h' -> (length h <= length h')%nat.
Proof. unfold lset. intros H. gp; glen. Qed.
#[export] Hint Extern 1 (le _ (length _)) => eapply Nat.le_trans; [|eapply lset_len; eassumption] : ldb.

(* ---- the parse context ---- *)
Lemma new_inode_len c k c' n : new_inode c k = (c', n) -> (length (i_h c) <= length (i_h c'))%nat.
Proof. unfold new_inode. intros H. injection H as H1 H2. subst c'. glen. Qed.

Lemma merge_or_append_len c parent s c' : merge_or_append c parent s = Ok c' -> (length (i_h c) <= length (i_h c'))%nat.
Proof. unfold merge_or_append. intros H. gnorm. gp; glen. Qed.
#[export] Hint Extern 1 (le _ (length (i_h _))) => eapply Nat.le_trans; [|eapply merge_or_append_len; eassumption] : ldb.

Lemma merge_or_replace_len c parent n s c' : merge_or_replace c parent n s = Ok c' -> (length (i_h c) <= length (i_h c'))%nat.
Proof. unfold merge_or_replace. intros H. gnorm. gp; glen. Qed.
#[export] Hint Extern 1 (le _ (length (i_h _))) => eapply Nat.le_trans; [|eapply merge_or_replace_len; eassumption] : ldb.

Lemma push_delimiter_len c d c' : push_delimiter c d = Ok c' -> (length (i_h c) <= length (i_h c'))%nat.
Proof. unfold push_delimiter. intros H. gnorm. gp; glen. Qed.
#[export] Hint Extern 1 (le _ (length (i_h _))) => eapply Nat.le_trans; [|eapply push_delimiter_len; eassumption] : ldb.

Lemma remove_delimiter_len c d c' : remove_delimiter c d = Ok c' -> (length (i_h c) <= length (i_h c'))%nat.
Proof.
  unfold remove_delimiter. intros H. gc_bind H x Hx.
  destruct x as [[[[[[[sg co] cc] len] orig] ch] p] nx]. cbv beta zeta in H.
  gc_bind H c1 H1. cbv beta zeta in H.
  assert (Hc1 : (length (i_h c) <= length (i_h c1))%nat) by (destruct p as [pp|]; destruct nx as [n|]; gnorm; gp; glen).
  clear H1. eapply Nat.le_trans; [exact Hc1|]. clear Hc1. destruct nx as [n|]; gnorm; gp; glen.
Qed.
#[export] Hint Extern 1 (le _ (length (i_h _))) => eapply Nat.le_trans; [|eapply remove_delimiter_len; eassumption] : ldb.

Lemma clear_loop_len fuel : forall c cur b c', clear_loop fuel c cur b = Ok c' -> (length (i_h c) <= length (i_h c'))%nat.
Proof.
  induction fuel as [|f IH]; intros c cur b c' H; cbn [clear_loop] in H; [discriminate H|].
  gp; try solve [glen];
  match goal with H : clear_loop f _ _ _ = Ok _ |- _ => apply IH in H; eapply Nat.le_trans; [|exact H] end;
  glen.
Qed.
#[export] Hint Extern 1 (le _ (length (i_h _))) => eapply Nat.le_trans; [|eapply clear_loop_len; eassumption] : ldb.

Lemma clear_delimiters_len c b c' : clear_delimiters c b = Ok c' -> (length (i_h c) <= length (i_h c'))%nat.
Proof. unfold clear_delimiters. intros H. gp; glen. Qed.
#[export] Hint Extern 1 (le _ (length (i_h _))) => eapply Nat.le_trans; [|eapply clear_delimiters_len; eassumption] : ldb.

Lemma remove_between_len fuel : forall c cur closer c',
  remove_between fuel c cur closer = Ok c' -> (length (i_h c) <= length (i_h c'))%nat.
Proof.
  induction fuel as [|f IH]; intros c cur closer c' H; cbn [remove_between] in H; [discriminate H|].
  gp; try solve [glen];
  match goal with H : remove_between f _ _ _ = Ok _ |- _ => apply IH in H; eapply Nat.le_trans; [|exact H] end;
  glen.
Qed.
#[export] Hint Extern 1 (le _ (length (i_h _))) => eapply Nat.le_trans; [|eapply remove_between_len; eassumption] : ldb.

Lemma push_label_len c v c' : push_label c v = Ok c' -> (length (i_h c) <= length (i_h c'))%nat.
Proof. unfold push_label. intros H. gnorm. gp; glen. Qed.
#[export] Hint Extern 1 (le _ (length (i_h _))) => eapply Nat.le_trans; [|eapply push_label_len; eassumption] : ldb.

Lemma remove_label_len c d c' : remove_label c d = Ok c' -> (length (i_h c) <= length (i_h c'))%nat.
Proof.
  unfold remove_label. intros H. destruct (i_labels c) as [lst0|]; [|injection H as H; subst; apply le_n].
  gc_bind H x Hx. destruct x as [[[[[sg im] dp] dn] df] dl]. cbv beta zeta in H.
  gc_bind H r Hr. destruct r as [c1 lst]. cbv beta zeta in H.
  assert (Hc1 : (length (i_h c) <= length (i_h c1))%nat) by (destruct dp as [pp|]; destruct dn as [nl|]; gnorm; gp; glen).
  clear Hr. eapply Nat.le_trans; [exact Hc1|]. clear Hc1. gnorm. gp; glen.
Qed.
#[export] Hint Extern 1 (le _ (length (i_h _))) => eapply Nat.le_trans; [|eapply remove_label_len; eassumption] : ldb.

Lemma close_labels_len fuel : forall c cur c', close_labels fuel c cur = Ok c' -> (length (i_h c) <= length (i_h c'))%nat.
Proof.
  induction fuel as [|f IH]; intros c cur c' H; cbn [close_labels] in H; [discriminate H|].
  gnorm. gp; try solve [glen];
  match goal with H : close_labels f _ _ = Ok _ |- _ => apply IH in H; eapply Nat.le_trans; [|exact H] end;
  glen.
Qed.
#[export] Hint Extern 1 (le _ (length (i_h _))) => eapply Nat.le_trans; [|eapply close_labels_len; eassumption] : ldb.

Lemma link_close_block_len c c' : link_close_block c = Ok c' -> (length (i_h c) <= length (i_h c'))%nat.
Proof. unfold link_close_block. intros H. apply close_labels_len in H. exact H. Qed.
#[export] Hint Extern 1 (le _ (length (i_h _))) => eapply Nat.le_trans; [|eapply link_close_block_len; eassumption] : ldb.

(* ---- ProcessDelimiters ---- *)
Lemma closer_loop_len fuel : forall c closer b c', closer_loop fuel c closer b = Ok c' -> (length (i_h c) <= length (i_h c'))%nat.
Proof.
  induction fuel as [|f IH]; intros c closer b c' H; cbn [closer_loop] in H; [discriminate H|].
  gnorm. gp; try solve [glen];
  match goal with H : closer_loop f _ _ _ = Ok _ |- _ => apply IH in H; eapply Nat.le_trans; [|exact H] end;
  glen.
Qed.
#[export] Hint Extern 1 (le _ (length (i_h _))) => eapply Nat.le_trans; [|eapply closer_loop_len; eassumption] : ldb.

Lemma process_delimiters_len fuel c b c' : process_delimiters fuel c b = Ok c' -> (length (i_h c) <= length (i_h c'))%nat.
Proof. unfold process_delimiters. intros H. gp; glen. Qed.
#[export] Hint Extern 1 (le _ (length (i_h _))) => eapply Nat.le_trans; [|eapply process_delimiters_len; eassumption] : ldb.

(* ---- the inline parsers ---- *)
Lemma label_fail_len s last s' res :
  label_fail s last = Ok (s', res) -> (length (i_h (t_c s)) <= length (i_h (t_c s')))%nat.
Proof. unfold label_fail. intros H. gp; glen. Qed.
#[export] Hint Extern 1 (le _ (length (i_h (t_c _)))) => eapply Nat.le_trans; [|eapply label_fail_len; eassumption] : ldb.

Lemma mv_len img : forall l h h',
  (fix mv (l : list nat) (h : iheap) : result iheap :=
     match l with [] => Ok h | x :: t => h <- i_append h img x ;; mv t h end) l h = Ok h' ->
  (length h <= length h')%nat.
Proof.
  induction l as [|x t IH]; intros h h' H.
  - injection H as H; subst; apply le_n.
  - gc_bind H h1 H1. apply IH in H. eapply Nat.le_trans; [|exact H]. glen.
Qed.
#[export] Hint Extern 1 (le _ (length _)) => eapply Nat.le_trans; [|eapply mv_len; eassumption] : ldb.

Section WithTables.
Variable space_table punct_table : list N.
Variable norm : bytes -> bytes.
Variable url_table email_table : list N.
Variable re_email_domain re_open_tag re_close_tag : re.
Variable punct_rune space_rune : N -> bool.
Variable refs : list (bytes * (bytes * option bytes)).

Lemma process_link_label_len s link last s' :
  process_link_label s link last = Ok s' -> (length (i_h (t_c s)) <= length (i_h (t_c s')))%nat.
Proof. unfold process_link_label. intros H. gp; glen. Qed.

Lemma code_span_add_len n : forall segs c c',
  (fix add (l : list seg) (c : ictx) : result ictx :=
     match l with
     | [] => Ok c
     | sg :: t =>
       let '(c, x) := new_inode c (IText sg false false true) in
       h <- i_append (i_h c) n x ;; add t (cx_h c h)
     end) segs c = Ok c' -> (length (i_h c) <= length (i_h c'))%nat.
Proof.
  induction segs as [|sg t IH]; intros c c' H.
  - injection H as H; subst; apply le_n.
  - unfold new_inode in H. gc_bind H h Hh. apply IH in H. eapply Nat.le_trans; [|exact H]. glen.
Qed.

Lemma code_span_parse_s_len s s' res :
  code_span_parse_s space_table s = Ok (s', res) -> (length (i_h (t_c s)) <= length (i_h (t_c s')))%nat.
Proof.
  unfold code_span_parse_s. intros H. gc_bind H x Hx. destruct x as [r0 r].
  destruct r0 as [segs|sg].
  - unfold new_inode in H. gc_bind H c1 H1. injection H as H2 H3. subst s'.
    apply code_span_add_len in H1. eapply Nat.le_trans; [|exact H1]. glen.
  - gnorm. gp; glen.
Qed.

Lemma autolink_parse_len s s' res :
  autolink_parse url_table email_table re_email_domain s = Ok (s', res) ->
  (length (i_h (t_c s)) <= length (i_h (t_c s')))%nat.
Proof. unfold autolink_parse. intros H. gnorm. gp; glen. Qed.

Lemma raw_collect_len s closer offset s' res :
  raw_collect s closer offset = Ok (s', res) -> (length (i_h (t_c s)) <= length (i_h (t_c s')))%nat.
Proof. unfold raw_collect. intros H. gnorm. gp; glen. Qed.

Lemma raw_regexp_len s rx s' res :
  raw_regexp s rx = Ok (s', res) -> (length (i_h (t_c s)) <= length (i_h (t_c s')))%nat.
Proof. unfold raw_regexp. intros H. gnorm. gp; glen. Qed.

Lemma raw_html_parse_len s s' res :
  raw_html_parse re_open_tag re_close_tag s = Ok (s', res) ->
  (length (i_h (t_c s)) <= length (i_h (t_c s')))%nat.
Proof.
  unfold raw_html_parse. intros H. gc_bind H y Hy. destruct y as [[r line] segment]. cbv beta zeta in H.
  repeat match type of H with
  | (if ?b then _ else _) = Ok _ => destruct b
  end;
  try (apply raw_regexp_len in H; exact H);
  try (apply raw_collect_len in H; exact H);
  gnorm; gp; glen.
Qed.

Lemma emphasis_parse_len s s' res :
  emphasis_parse punct_rune space_rune s = Ok (s', res) ->
  (length (i_h (t_c s)) <= length (i_h (t_c s')))%nat.
Proof. unfold emphasis_parse. intros H. gnorm. gp; glen. Qed.

Lemma link_parse_len s parent s' res :
  link_parse space_table punct_table norm refs s parent = Ok (s', res) ->
  (length (i_h (t_c s)) <= length (i_h (t_c s')))%nat.
Proof.
  unfold link_parse. intros H. cbv beta zeta in H. gnorm. gp.
  all: try solve [glen].
  all: match goal with H : process_link_label _ _ _ = Ok ?x |- _ =>
         apply process_link_label_len in H; gnorm;
         apply (Nat.le_trans _ (length (i_h (t_c x)))); [eapply Nat.le_trans; [|exact H]|]
       end.
  all: glen.
Qed.

Lemma ip_parse_len p s parent s' res :
  ip_parse space_table punct_table norm url_table email_table re_email_domain re_open_tag re_close_tag
           punct_rune space_rune refs p s parent = Ok (s', res) ->
  (length (i_h (t_c s)) <= length (i_h (t_c s')))%nat.
Proof.
  destruct p; cbn [ip_parse]; intros H.
  - eapply code_span_parse_s_len; eauto.
  - eapply link_parse_len; eauto.
  - eapply autolink_parse_len; eauto.
  - eapply raw_html_parse_len; eauto.
  - eapply emphasis_parse_len; eauto.
Qed.

Lemma try_inline_len ips : forall s parent sl sp s' res,
  try_inline space_table punct_table norm url_table email_table re_email_domain re_open_tag re_close_tag
             punct_rune space_rune refs ips s parent sl sp = Ok (s', res) ->
  (length (i_h (t_c s)) <= length (i_h (t_c s')))%nat.
Proof.
  induction ips as [|p rest IH]; intros s parent sl sp s' res H; cbn [try_inline] in H.
  - injection H as H1 H2. subst s'. apply le_n.
  - gc_bind H x Hx. destruct x as [s1 n]. apply ip_parse_len in Hx.
    eapply Nat.le_trans; [exact Hx|]. destruct n as [n|].
    + injection H as H1 H2. subst s'. apply le_n.
    + gc_bind H r Hr. apply IH in H. exact H.
Qed.

End WithTables.
