(* Shared definitions of the HeadingOptsEq*.v files (second theorem: automatic heading ids assigned by
   the driver when a heading is closed = the pass of model/HeadingIds.v over the finished tree).

   hp h i l      : l is the list of the heading nodes below node i of the heap h, in document order
                   (preorder); the relation descends only into container nodes
   hstep exc h h': a change of the heap that keeps hp (kinds stay; child lists change only by nodes that
                   are neither headings nor containers) and the lines of the heading nodes outside exc
   run_log       : what the driver has done after closing the headings of a log (node, text of the last line)
   QH            : the invariant of the driver with automatic ids *)
Require Import GM.model.Base GM.model.Util GM.model.Reader GM.model.HtmlWriter GM.model.Html GM.model.Attr GM.model.Ids
               GM.model.BlockParse GM.model.HeadingOpts.
Require Import GM.proofs.ParseBlocksRangeB.
From Coq Require Import List ZArith NArith Bool Lia.
Import ListNotations.

(* heading parsers, and the ids of the headings among a list of opened blocks *)
Definition is_hp (p : bparser) : bool := match p with PATX | PSetext => true | _ => false end.
Definition hd_ids (E : list (nat * bparser)) : list nat := map fst (filter (fun e => is_hp (snd e)) E).

(* "interesting" kinds: headings and containers (container is that of ParseBlocksRangeB.v) *)
Definition is_hd (k : bkind) : bool := match k with BHeading => true | _ => false end.
Definition intk (k : bkind) : bool := is_hd k || container k.
Definition intb (h : heap) (c : nat) : bool :=
  match nth_error h c with Some n => intk (bk n) | None => false end.

Inductive hp (h : heap) : nat -> list nat -> Prop :=
| hp_hd i n : nth_error h i = Some n -> bk n = BHeading -> hp h i [i]
| hp_ct i n l : nth_error h i = Some n -> container (bk n) = true -> hps h (bch n) l -> hp h i l
| hp_lf i n : nth_error h i = Some n -> intk (bk n) = false -> hp h i []
with hps (h : heap) : list nat -> list nat -> Prop :=
| hps_nil : hps h [] []
| hps_cons c cs l1 l2 : hp h c l1 -> hps h cs l2 -> hps h (c :: cs) (l1 ++ l2).

Scheme hp_mut := Minimality for hp Sort Prop
  with hps_mut := Minimality for hps Sort Prop.
Combined Scheme hp_hps_ind from hp_mut, hps_mut.

(* every child is a node of the heap *)
Definition closed (h : heap) : Prop :=
  forall j n c, nth_error h j = Some n -> In c (bch n) -> (c < length h)%nat.

Definition hstep (exc : nat -> Prop) (h h' : heap) : Prop :=
  (length h <= length h')%nat /\
  (closed h -> closed h') /\
  forall j n, nth_error h j = Some n ->
    exists n', nth_error h' j = Some n' /\ bk n' = bk n /\
      (closed h -> filter (intb h') (bch n') = filter (intb h) (bch n)) /\
      (bk n = BHeading -> ~ exc j -> blines n' = blines n).

Definition no_exc : nat -> Prop := fun _ => False.

(* the text generateAutoHeadingID reads: the value of the last line, nothing for a heading without lines *)
Definition last_text (src : bytes) (ls : list seg) : result bytes :=
  match rev ls with [] => Ok [] | l :: _ => seg_value src l end.

Section WithTables.
Variable utf8len_table space_table : list N.
Variable spaces : bytes.

(* the id table and the attribute map after the headings of the log have been closed in this order *)
Fixpoint run_log (log : list (nat * bytes)) (t : list bytes) (a : list (nat * list attr))
  : result (list bytes * list (nat * list attr)) :=
  match log with
  | [] => Ok (t, a)
  | (n, v) :: r =>
    g <- generate utf8len_table space_table spaces t v true ;;
    let '(id, t') := g in
    run_log r t' (put_node_attrs a n (set_attr n_id (AVBytes id) []))
  end.

(* the state of the driver with automatic heading ids, E the opened blocks that are not closed yet *)
Definition QH (src : bytes) (x : sth) (E : list (nat * bparser)) : Prop :=
  exists log : list (nat * bytes),
    hp (s_h (hx_s x)) 0%nat (map fst log ++ hd_ids E) /\
    NoDup (map fst log ++ hd_ids E) /\
    run_log log [] [] = Ok (hx_ids x, hx_attrs x) /\
    forall n v, In (n, v) log ->
      exists m, nth_error (s_h (hx_s x)) n = Some m /\ bk m = BHeading /\ last_text src (blines m) = Ok v.

End WithTables.
