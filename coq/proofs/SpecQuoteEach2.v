(* Block quotes around plain paragraphs, block phase, part 5: one line of the loop over the
   opened blocks, continued: separator lines, the end of the source, the first line of a block. *)
Require Import GM.model.Base GM.model.Util GM.model.Reader GM.model.ListItem GM.model.Blocks GM.model.CodeBlock
               GM.model.Regex GM.model.BlockParse.
Require Import GM.gen.Tables GM.proofs.SpecParaBytes GM.proofs.SpecParaReader GM.proofs.SpecParaBlocks GM.proofs.SpecParaBlocks2
               GM.proofs.SpecQuoteShape GM.proofs.SpecQuoteMachine GM.proofs.SpecQuoteReader GM.proofs.SpecQuoteSteps
               GM.proofs.SpecQuoteSteps2 GM.proofs.SpecQuoteSteps3 GM.proofs.SpecQuoteEach.
From Coq Require Import List NArith ZArith Bool Lia.
Import ListNotations.
Open Scope Z_scope.

Opaque space_table punct_table.

Section Driver.
Variable norm : bytes -> bytes.
Variables re_t1o re_t1c re_t2 re_t3 re_t4 re_t5 re_t6 re_t7 : re.
Variable allowed_tags : list bytes.
Notation OB := (open_blocks space_table punct_table norm re_t1o re_t1c re_t2 re_t3 re_t4 re_t5 re_t6 re_t7 allowed_tags).
Notation EACH := (each_opened space_table punct_table norm re_t1o re_t1c re_t2 re_t3 re_t4 re_t5 re_t6 re_t7 allowed_tags).
Notation CLOSE := (close_blocks space_table punct_table norm).

(* at block number n (a quote, or the paragraph when n = length q), the rest of the line empty:
   it does not continue, nothing opens, everything from it on is closed *)
Lemma each_at_blank f q junk root stats h0 pp acc bl src pre0 body0 term0 rest0 a0 e0 pre rest k hd b st (n : nat) :
  Forall (good_seg src) acc -> cur_line src pre0 body0 term0 rest0 a0 e0 ->
  at_line src pre [10%N] rest st b -> 0 <= hd -> Forall (is_bq h0) q -> (n <= length q)%nat ->
  exists stats',
  EACH (S f) (qop q ++ [(length h0, PParagraph)]) root (Z.of_nat n) (zlen q) stats
       (mkst (h0 ++ [pnode (Some pp) (acc ++ [mkseg a0 e0]) bl]) (octx (qop q ++ [(length h0, PParagraph)]) junk)
             (rd src k hd b st None (-1))) =
  Ok (inr (mkst (h0 ++ [pnode (Some pp) (acc ++ [mkseg a0 (a0 + zlen body0)]) bl])
                (octx (qop (firstn n q)) (qop (skipn n q) ++ [(length h0, PParagraph)] ++ junk))
                (rd src k hd b st (SomeB [10%N]) (lofs src hd st))), stats').
Proof.
  intros Hacc Hc Hat Hhd Hq Hn.
  set (h := h0 ++ [pnode (Some pp) (acc ++ [mkseg a0 e0]) bl]).
  set (cap := qop q ++ [(length h0, PParagraph)]).
  assert (Hr : 0 <= st /\ st < b /\ b <= zlen src) by (apply (at_line_in_range _ _ _ _ _ _ Hat); discriminate).
  destruct (this_parent_ok q [(length h0, PParagraph)] root n Hn) as (tp & Htp). fold cap in Htp.
  (* what happens once the block has declined *)
  assert (Hrest : forall lo stats1, lo = -1 \/ lo = lofs src hd st ->
    (this_parent <- (if Z.of_nat n =? 0 then Ok root
                     else match nth_error cap (Z.to_nat (Z.of_nat n - 1)) with Some (p, _) => Ok p | None => Panic end) ;;
     last_node <- match nth_error cap (Z.to_nat (zlen q)) with Some (p, _) => Ok p | None => Panic end ;;
     o <- OB (2 * length [10%N] + 8) this_parent (is_blank_line (k - 1) (Z.of_nat n) stats1)
             (mkst h (octx cap junk) (rd src k hd b st (SomeB [10%N]) lo)) ;;
     let '(res, s) := o in
     if negb (res =? paragraphContinuation) then
       now_last <- match nth_error (c_arr (s_c s)) (Z.to_nat (zlen q)) with Some (p, _) => Ok p | None => Panic end ;;
       let last_index := if Nat.eqb now_last last_node then zlen q else zlen q - 1 in
       s <- CLOSE s last_index (Z.of_nat n) ;;
       Ok (@inr BlockParse.st BlockParse.st s, stats1)
     else Ok (@inr BlockParse.st BlockParse.st s, stats1)) =
    Ok (inr (mkst (h0 ++ [pnode (Some pp) (acc ++ [mkseg a0 (a0 + zlen body0)]) bl])
                  (octx (qop (firstn n q)) (qop (skipn n q) ++ [(length h0, PParagraph)] ++ junk))
                  (rd src k hd b st (SomeB [10%N]) (lofs src hd st))), stats1)).
  { intros lo stats1 Hlo. rewrite Htp. cbn [bind]. unfold cap at 1. rewrite nth_error_para. cbn [bind].
    change (2 * length [10%N] + 8)%nat with 10%nat. unfold h, cap.
    rewrite (ob_cont_blank norm re_t1o re_t1c re_t2 re_t3 re_t4 re_t5 re_t6 re_t7 allowed_tags _ h0 pp (qop q) junk _ bl src pre rest k hd b st lo tp _ Hat Hhd Hlo).
    cbn [bind]. change (noBlocksOpened =? paragraphContinuation) with false. cbn [negb]. cbv iota.
    cbn [s_c]. unfold octx at 1. cbn [ctx c_arr]. rewrite nth_error_para_arr. cbn [bind]. rewrite Nat.eqb_refl.
    rewrite (close_blocks_at norm h0 pp q junk acc src pre0 body0 term0 rest0 a0 e0 bl (rd src k hd b st (SomeB [10%N]) (lofs src hd st)) n eq_refl Hacc Hc Hq Hn).
    cbn [bind]. reflexivity. }
  destruct (Nat.eq_dec n (length q)) as [->|Hne].
  - (* the paragraph *)
    eexists. cbn [each_opened]. fold (zlen q). rewrite Z.ltb_irrefl. cbv iota. fold cap. unfold cap at 1. rewrite nth_error_para.
    rewrite (peek_s_any _ _ src pre [10%N] rest k hd b st None (-1) Hat) by (try discriminate; left; reflexivity).
    cbn [bind s_h]. unfold h at 1. rewrite is_paragraph_app_last. cbn [bind negb]. cbv iota.
    unfold rline. cbn [s_r]. rewrite r_line_rd.
    apply (Hrest (-1)). left. reflexivity.
  - (* a quote *)
    assert (Hlt : (n < length q)%nat) by lia.
    destruct (nth_error q n) as [x|] eqn:Ex; [|apply nth_error_None in Ex; lia].
    assert (Hx : is_bq h x) by (unfold h; apply is_bq_app; apply (proj1 (Forall_forall _ _) Hq); eapply nth_error_In; exact Ex).
    eexists. cbn [each_opened].
    replace (zlen q <? Z.of_nat n) with false by (symmetry; apply Z.ltb_ge; unfold zlen; lia).
    rewrite Nat2Z.id. fold cap. unfold cap at 1. rewrite nth_error_app1 by (rewrite qop_length; exact Hlt). rewrite (nth_error_qop q n x Ex).
    rewrite (peek_s_any _ _ src pre [10%N] rest k hd b st None (-1) Hat) by (try discriminate; left; reflexivity).
    cbn [bind s_h]. rewrite (is_bq_not_para h x Hx). cbn [bind negb]. cbv iota. cbn [p_continue]. unfold bq_continue. cbn [s_r].
    rewrite (bq_none src pre [10%N] rest k hd b st (-1) Hat Hhd (or_introl eq_refl) [] eq_refl). cbn [bind fst snd].
    unfold st_r. cbn [s_h s_c s_r]. unfold rline. cbn [s_r]. rewrite r_line_rd.
    apply (Hrest (lofs src hd st)). right. reflexivity.
Qed.
(* a separator line: ms markers (the last one bare) and nothing else *)
Lemma each_sep ms f q junk root stats h0 pp acc bl src pre0 body0 term0 rest0 a0 e0 pre rest k a b :
  Forall (good_seg src) acc -> cur_line src pre0 body0 term0 rest0 a0 e0 ->
  at_line src pre (chain ms ++ [10%N]) rest a b -> Forall (is_bq h0) q ->
  (length ms <= length q)%nat -> (length q < f)%nat ->
  exists stats',
  EACH f (qop q ++ [(length h0, PParagraph)]) root 0 (zlen q) stats
       (mkst (h0 ++ [pnode (Some pp) (acc ++ [mkseg a0 e0]) bl]) (octx (qop q ++ [(length h0, PParagraph)]) junk)
             (rd src k a b a None (-1))) =
  Ok (inr (mkst (h0 ++ [pnode (Some pp) (acc ++ [mkseg a0 (a0 + zlen body0)]) bl])
                (octx (qop (firstn (length ms) q)) (qop (skipn (length ms) q) ++ [(length h0, PParagraph)] ++ junk))
                (rd src k a b (a + zlen (chain ms)) (SomeB [10%N]) (lofs src a (a + zlen (chain ms))))), stats').
Proof.
  intros Hacc Hc Hat Hq Hlen Hf.
  assert (Ha : 0 <= a) by (destruct Hat as (_ & -> & _); apply zlen_nonneg).
  replace f with (length ms + S (f - length ms - 1))%nat by lia.
  destruct (each_quotes norm re_t1o re_t1c re_t2 re_t3 re_t4 re_t5 re_t6 re_t7 allowed_tags
              ms (S (f - length ms - 1)) q [(length h0, PParagraph)] root 0%nat (zlen q) stats
              (h0 ++ [pnode (Some pp) (acc ++ [mkseg a0 e0]) bl]) (octx (qop q ++ [(length h0, PParagraph)]) junk)
              src pre 10%N [] rest k a b a Hat) as (stats1 & Hrun); try lia; try discriminate.
  { eapply Forall_impl; [|exact Hq]. intros x Hx. apply is_bq_app. exact Hx. }
  { unfold zlen. lia. }
  change (Z.of_nat 0) with 0 in Hrun. rewrite Hrun. cbn [Nat.add].
  apply (each_at_blank _ q junk root stats1 h0 pp acc bl src pre0 body0 term0 rest0 a0 e0 (pre ++ chain ms) rest k a b
           (a + zlen (chain ms)) (length ms) Hacc Hc); try assumption.
  apply at_line_shift. exact Hat.
Qed.

(* the end of the source: everything is closed and the parse ends *)
Lemma each_eof_at f q junk root stats h0 pp acc bl src pre0 body0 term0 rest0 a0 e0 k hd b st :
  Forall (good_seg src) acc -> cur_line src pre0 body0 term0 rest0 a0 e0 -> Forall (is_bq h0) q -> zlen src <= st ->
  EACH (S f) (qop q ++ [(length h0, PParagraph)]) root 0 (zlen q) stats
       (mkst (h0 ++ [pnode (Some pp) (acc ++ [mkseg a0 e0]) bl]) (octx (qop q ++ [(length h0, PParagraph)]) junk)
             (rd src k hd b st None (-1))) =
  Ok (inl (advance_line_s (mkst (h0 ++ [pnode (Some pp) (acc ++ [mkseg a0 (a0 + zlen body0)]) bl])
                                (octx [] (qop q ++ [(length h0, PParagraph)] ++ junk)) (rd src k hd b st None (-1)))), stats).
Proof.
  intros Hacc Hc Hq Hst. cbn [each_opened].
  replace (zlen q <? 0) with false by (symmetry; apply Z.ltb_ge; apply zlen_nonneg). cbv iota.
  assert (Hcap : exists e, nth_error (qop q ++ [(length h0, PParagraph)]) (Z.to_nat 0) = Some e).
  { destruct q as [|x q]; eexists; reflexivity. }
  destruct Hcap as ([node bp] & ->).
  rewrite peek_s_eof by exact Hst. cbn [bind].
  pose proof (close_blocks_at norm h0 pp q junk acc src pre0 body0 term0 rest0 a0 e0 bl (rd src k hd b st None (-1)) 0 eq_refl Hacc Hc Hq (Nat.le_0_l _)) as Hcl.
  change (Z.of_nat 0) with 0 in Hcl. rewrite Hcl. cbn [bind firstn skipn qop map]. reflexivity.
Qed.

(* the first line of a block inside the open quotes q ++ [x]: they continue over their markers,
   openBlocks opens the new quotes and the paragraph under x *)
Lemma each_txt_open ms1 s ms2 f q x junk root stats h pn src pre body term rest k a b :
  at_line src pre (chain (ms1 ++ s :: ms2) ++ body ++ term) rest a b -> body_okb body = true -> term_ok term rest ->
  Forall (is_bq h) (q ++ [x]) -> length ms1 = length q -> nth_error h x = Some pn -> (length q < f)%nat ->
  exists stats' blank,
  EACH f (qop (q ++ [x])) root 0 (zlen q) stats (mkst h (octx (qop (q ++ [x])) junk) (rd src k a b a None (-1))) =
  Ok (inr (mkst (add_children h x [length h] ++
                 first_nodes blank x (length h) (length ms2) [mkseg (a + zlen (chain (ms1 ++ s :: ms2))) b])
                (octx (qop (q ++ [x]) ++ qop (seq (length h) (length ms2)) ++ [((length h + length ms2)%nat, PParagraph)])
                      (skipn (S (length ms2)) junk))
                (rd src k a b (b - 1) None (-1))), stats').
Proof.
  intros Hat Hb Ht Hq Hlen HP Hf.
  assert (Ha : 0 <= a) by (destruct Hat as (_ & -> & _); apply zlen_nonneg).
  destruct (chain_body_head ms2 body term Hb) as (c1 & tail & Hct & Hc32 & Hc9).
  assert (Hsplit : chain (ms1 ++ s :: ms2) ++ body ++ term = chain ms1 ++ 62%N :: (tl (mk s) ++ chain ms2 ++ body ++ term)).
  { rewrite chain_app. cbn [chain]. rewrite <- !app_assoc. destruct s; reflexivity. }
  assert (Hat0 : at_line src pre (chain ms1 ++ 62%N :: (tl (mk s) ++ chain ms2 ++ body ++ term)) rest a b) by (rewrite <- Hsplit; exact Hat).
  replace f with (length ms1 + S (f - length ms1 - 1))%nat by lia.
  destruct (each_quotes norm re_t1o re_t1c re_t2 re_t3 re_t4 re_t5 re_t6 re_t7 allowed_tags
              ms1 (S (f - length ms1 - 1)) (q ++ [x]) [] root 0%nat (zlen q) stats
              h (octx (qop (q ++ [x])) junk) src pre 62%N (tl (mk s) ++ chain ms2 ++ body ++ term) rest k a b a Hat0)
    as (stats1 & Hrun); try lia; try discriminate; try assumption.
  { rewrite app_length. cbn [length]. lia. }
  { unfold zlen. lia. }
  change (Z.of_nat 0) with 0 in Hrun. rewrite !app_nil_r in Hrun. rewrite Hrun. cbn [Nat.add]. rewrite Hlen. fold (zlen q).
  (* the innermost open quote *)
  assert (Hx : is_bq h x) by (apply (proj1 (Forall_forall _ _) Hq); apply in_or_app; right; left; reflexivity).
  set (st1 := a + zlen (chain ms1)).
  assert (Hat1 : at_line src (pre ++ chain ms1) (mk s ++ chain ms2 ++ body ++ term) rest st1 b).
  { apply at_line_shift. rewrite chain_app in Hat. cbn [chain] in Hat. rewrite <- !app_assoc in Hat. exact Hat. }
  assert (Hl1 : mk s ++ chain ms2 ++ body ++ term = mk s ++ c1 :: tail) by (rewrite Hct; reflexivity).
  assert (Hne1 : mk s ++ chain ms2 ++ body ++ term <> []) by (destruct s; discriminate).
  assert (Hat2 : at_line src ((pre ++ chain ms1) ++ mk s) (chain ms2 ++ body ++ term) rest (st1 + zlen (mk s)) b).
  { apply at_line_shift. exact Hat1. }
  eexists. eexists. cbn [each_opened]. rewrite Z.ltb_irrefl. cbv iota.
  replace (Z.to_nat (zlen q)) with (length (qop q)) by (rewrite qop_length; unfold zlen; lia).
  rewrite qop_app. cbn [qop map]. rewrite nth_error_mid.
  replace (tl (mk s) ++ chain ms2 ++ body ++ term) with (tl (mk s ++ chain ms2 ++ body ++ term)) by (destruct s; reflexivity).
  replace (62%N :: tl (mk s ++ chain ms2 ++ body ++ term)) with (mk s ++ chain ms2 ++ body ++ term) by (destruct s; reflexivity).
  fold st1.
  rewrite (peek_s_any _ _ src (pre ++ chain ms1) _ rest k a b st1 None (-1) Hat1 Hne1 (or_introl eq_refl)). cbn [bind s_h].
  rewrite (is_bq_not_para h x Hx). cbn [bind negb]. cbv iota. cbn [p_continue]. unfold bq_continue. cbn [s_r].
  rewrite (bq_mk src (pre ++ chain ms1) _ rest k a b st1 (-1) s c1 tail Hat1 Ha (or_introl eq_refl) Hl1 Hc32 Hc9). cbn [bind fst snd].
  unfold st_r. cbn [s_h s_c s_r]. rewrite Z.eqb_refl. cbn [andb]. cbv iota.
  change [(x, PBlockquote)] with (qop [x]). rewrite <- !qop_app.
  rewrite (ob_first norm re_t1o re_t1c re_t2 re_t3 re_t4 re_t5 re_t6 re_t7 allowed_tags _ ms2 h pn (q ++ [x]) junk src
             ((pre ++ chain ms1) ++ mk s) body term rest k a b (st1 + zlen (mk s)) None x _); try assumption.
  2:{ rewrite !app_length. pose proof (chain_length ms2). lia. }
  2:{ left. reflexivity. }
  cbn [bind snd]. unfold st1. rewrite chain_app. cbn [chain]. rewrite !zlen_app. rewrite <- !Z.add_assoc. reflexivity.
Qed.
End Driver.
