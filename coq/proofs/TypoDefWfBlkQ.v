(* Helper library for TypoDefWfBlk.v, part Q: Continue of the definition list parsers; Continue of any
   block of the driver with the definition list parsers (p_continueD: the node decides). *)
Require Import GM.model.Base GM.model.Util GM.model.Reader GM.model.ReaderSpec GM.model.Blocks GM.model.ListItem
               GM.model.LeafBlocks GM.model.CodeBlock GM.model.LinkDest GM.model.Regex GM.model.HtmlWriter
               GM.model.Html GM.model.HtmlSpec GM.model.BlockParse GM.model.InlineParse GM.model.TypoDefParseD.
Require Import GM.proofs.ReaderProofs GM.proofs.BlockRangeProofs GM.proofs.ParseInv
               GM.proofs.ParseBlocksRangeA GM.proofs.TypoDefWfBlkB GM.proofs.TypoDefWfBlkT GM.proofs.TypoDefWfBlkC
               GM.proofs.TypoDefWfBlkD GM.proofs.TypoDefWfBlkF.
Require GM.proofs.TypoDefConservativeBlkInv GM.proofs.TypoDefConservativeBlkB.
From Coq Require Import ZArith Lia Sorted.
Open Scope Z_scope.

Lemma bparser_eq_html (bp : bparser) : bp = PHTML \/ bp <> PHTML.
Proof. destruct bp; (left; reflexivity) || (right; discriminate). Qed.

Section Q.
Variable space_table punct_table : list N.
Variable norm : bytes -> bytes.
Variable re_t1o re_t1c re_t2 re_t3 re_t4 re_t5 re_t6 re_t7 : re.
Variable allowed_tags : list bytes.
Variable src : bytes.
Hypothesis sp32 : is_space space_table 32%N = true.
Set Default Proof Using "All".

(* lemmas of parts C and D take all the section variables: CC supplies them *)
Notation CC f := (f space_table punct_table norm re_t1o re_t1c re_t2 re_t3 re_t4 re_t5 re_t6 re_t7 allowed_tags src sp32) (only parsing).
Notation SInv := (SInv space_table src).
Notation HI := (HI space_table src).
Notation nodeP := (nodeP space_table src).
Notation heapS := (heapS space_table src).
Notation Jinv := (Jinv src).
Notation openS := (openS src).
Notation cont_post := (cont_post space_table src).
Notation item_guard := (item_guard space_table).
Notation verdict := (verdict space_table).

(* what Continue leaves behind; kids: the block can have children (HasChildren) *)
Definition cont_postD (kids : bool) (s s' : st) (cont : bool) (A D N : list (nat * bparser)) : Prop :=
  c_arr (s_c s') = c_arr (s_c s) /\ c_len (s_c s') = c_len (s_c s) /\
  (cont = false -> SInv FF s' A D N) /\
  (cont = true -> if kids then SInv FF s' A D N else SInv WW s' A D N).

(* ---------- definitionListParser.Continue: the reader only ---------- *)
Lemma deflist_continue_ok s node n s' cont A D N : SInv FF s A D N -> r_in_range (s_r s) = true ->
  nth_error (s_h s) node = Some n -> is_dl n = true ->
  deflist_continue space_table s node = Ok (s', cont) ->
  s_h s' = s_h s /\ c_arr (s_c s') = c_arr (s_c s) /\ c_len (s_c s') = c_len (s_c s) /\ SInv FF s' A D N.
Proof.
  intros HS Hir En Hdl H. unfold deflist_continue in H.
  bind_inv H x Ex. destruct x as [[s1 l] sg].
  destruct (CC peek_s_ok _ _ _ _ _ _ _ HS Ex) as [HS1 [Eh1 [Ec1 [Ep1 [Esg [El [Ein Esrc1]]]]]]].
  rewrite Hir in El. subst l. cbn [line_of] in H.
  destruct (Reader.is_blank space_table (r_view (s_r s))) eqn:Eb.
  { injection H as <- <-. rewrite Ec1. csplit; auto. }
  bind_inv H n1 En1. apply hget_ok in En1. rewrite Eh1 in En1. assert (n1 = n) by congruence. subst n1.
  bind_inv H y Ey. destruct y as [s2 off].
  destruct (CC loff_s_ok _ _ _ _ _ _ HS1 Ey) as [HS2 [Eh2 [Ec2 [Ep2 Ein2]]]].
  pose proof (np_dl _ _ _ (hs_node _ _ _ (hi_heap _ _ _ _ _ _ _ _ (proj2 HS)) _ _ En) Hdl) as Hoff0.
  cbv zeta in H.
  destruct (Z.ltb_spec (fst (indent_width (r_view (s_r s)) off)) (b_i2 n)) as [Hlt|Hle].
  { injection H as <- <-. rewrite Eh2, Eh1, Ec2, Ec1. csplit; auto. }
  destruct (indent_position (r_view (s_r s)) off (b_i2 n)) as [pos padding] eqn:Eip.
  bind_inv H r Er. injection H as <- <-.
  pose proof (ip_defined _ _ _ _ _ Eip Hle) as Hd.
  destruct (ip_range _ _ _ _ _ Hoff0 Eip) as [[Hp _]|[Hp [Hq Hpq]]]; [contradiction|].
  assert (0 < padding -> 1 <= s_start (r_pos (s_r s2)) \/ (1 <= pos /\ r_in_range (s_r s2) = true)) as Hpd
    by (intros Hq0; right; split; [lia|congruence]).
  destruct (adv_pad_ok src _ _ _ _ (proj1 HS2) (proj1 Hp) Hpd Er) as [HR3 Hle3].
  pose proof (CC SInv_reader _ _ _ _ _ HS2 HR3 Hle3) as HS3.
  cbn [st_r s_c s_h]. rewrite Eh2, Eh1, Ec2, Ec1. csplit; auto.
Qed.

(* ---------- Continue of any opened block ---------- *)
Lemma p_continueD_ok bp s node n s' cont kids A D N : SInv FF s A D N -> In (node, bp) (A ++ D ++ N) ->
  r_in_range (s_r s) = true -> (bp = PListItem -> item_guard s node) -> nth_error (s_h s) node = Some n ->
  p_continueD space_table re_t1c bp s node = Ok (s', cont, kids) ->
  cont_postD kids s s' cont A D N /\ kids = cnt n /\
  (exists n', nth_error (s_h s') node = Some n' /\ bk n' = bk n /\ b_i1 n' = b_i1 n) /\
  (bp = PList -> cont = true -> verdict s' node).
Proof.
  intros HS Hin Hir Hg En H. unfold p_continueD in H. bind_inv H n0 En0. apply hget_ok in En0.
  assert (n0 = n) by congruence. subst n0.
  destruct (os_pair _ _ _ _ _ _ (hi_open _ _ _ _ _ _ _ _ (proj2 HS)) node bp Hin) as [n1 [En1 Kn]].
  assert (n1 = n) by congruence. subst n1.
  destruct (is_dl n) eqn:Hdl.
  { bind_inv H x Ex. destruct x as [s1 c1]. cbn [fst snd] in H. injection H as <- <- <-.
    destruct (deflist_continue_ok _ _ _ _ _ _ _ _ HS Hir En Hdl Ex) as [Eh [Ea [El HS1]]].
    csplit.
    - unfold cont_postD. csplit; auto.
    - unfold cnt. rewrite Hdl, Bool.orb_true_r. reflexivity.
    - exists n. rewrite Eh. auto.
    - intros ->. destruct (is_dl_kind _ Hdl) as [K _]. cbn [pkind] in Kn. congruence. }
  destruct (is_dd n) eqn:Hdd.
  { injection H as <- <- <-. csplit.
    - unfold cont_postD. csplit; auto.
    - unfold cnt. rewrite Hdd, Bool.orb_true_r. reflexivity.
    - exists n. auto.
    - intros ->. destruct (is_dd_kind _ Hdd) as [K _]. cbn [pkind] in Kn. congruence. }
  assert (forall m, nth_error (s_h s) node = Some m -> is_dl m = false) as Hndl
    by (intros m Em; assert (m = n) by congruence; subst m; exact Hdl).
  destruct (CC p_continue_ok _ _ _ _ _ _ _ _ _ HS Hin Hir Hg Hndl H) as [Hpost [Hk Hv]].
  csplit.
  - unfold cont_postD. unfold TypoDefWfBlkD.cont_post in Hpost. rewrite Hk. exact Hpost.
  - rewrite Hk. destruct (bparser_eq_html bp) as [->|Hbp].
    + cbn [pkind container] in *. unfold cnt. rewrite Kn, Hdl, Hdd. reflexivity.
    + symmetry. apply (CC cnt_pkind); assumption.
  - destruct (TypoDefConservativeBlkB.p_continue_sR _ _ (length (s_h s)) _ _ _ _ _ _ H) as [HR _].
    destruct (TypoDefConservativeBlkInv.hRk_nth _ _ _ _ _ HR En) as [n' [En' [K' [I' _]]]]. exists n'. auto.
  - exact Hv.
Qed.

End Q.
