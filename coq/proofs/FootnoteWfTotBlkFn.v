(* Helper file for FootnoteWfTotBlk.v (NEW, not in the core proof): the block parser of the Footnote extension
   (model/FootnoteParseBlock.v footnote_open / footnote_continue / footnote_close) under the state invariant.
   An opened Footnote carries the tag PBlockquote, so Open and Continue get the postconditions of that tag
   (open_post / cont_post PBlockquote; open_extra PBlockquote was weakened in FootnoteWfTotBlkSpec.v because a
   Footnote can be opened without children).  Close moves the footnote below the FootnoteList, which it creates
   on first use: this is the only place where the parameter lst (= bf_list) of the invariant changes. *)
Require Import GM.model.Base GM.model.Util GM.model.Reader GM.model.ReaderSpec GM.model.Blocks GM.model.ListItem
               GM.model.LeafBlocks GM.model.CodeBlock GM.model.LinkDest GM.model.Regex GM.model.BlockParse
               GM.model.FootnoteParseBlock.
Require Import GM.proofs.ReaderProofs GM.proofs.BlocksProofs
               GM.proofs.ParseBlocksTotalReader GM.proofs.FootnoteWfTotBlkPad GM.proofs.FootnoteWfTotBlkDefs
               GM.proofs.FootnoteWfTotBlkSpec GM.proofs.FootnoteWfTotBlkSt GM.proofs.FootnoteWfTotBlkShape
               GM.proofs.FootnoteWfTotBlkPair.
From Coq Require Import ZArith Lia List Bool.
Import ListNotations.
Open Scope Z_scope.

(* what footnote_close does to the old nodes: kinds and lines stay, the children of lists stay, only the
   closed footnote gets another parent (new nodes: the FootnoteList on first use) *)
Definition fn_close_frame (node : nat) (h h' : heap) : Prop :=
  (length h <= length h')%nat /\
  forall j n, nth_error h j = Some n -> exists n', nth_error h' j = Some n' /\ bk n' = bk n /\
    blines n' = blines n /\ (bk n = BList -> bch n' = bch n) /\ (j <> node -> bpar n' = bpar n).

(* ---------- the FootnoteList appears: the heap invariant with lst = None implies the one with lst = Some l ---------- *)
Lemma HInv_lst_new space_table src h l ln : HInv space_table src None h -> nth_error h l = Some ln -> bk ln = BBlockquote ->
  HInv space_table src (Some l) h.
Proof.
  intros [H1 H2 H3 H4 H5 H6 H7 H8] Hl Hk. constructor; auto.
  - intros i n Hn. eapply Forall_impl; [|exact (H2 i n Hn)]. cbv beta. unfold ch_ok.
    intros c (A & B & [C|C]); [|discriminate]. auto.
  - intros i n p Hn Hp. destruct (H3 i n p Hn Hp) as (A & B & [C|C]); [|discriminate]. unfold par_ok. auto.
  - intros l0 E. injection E as <-. exists ln. auto.
Qed.

(* ---------- the frame of footnote_close ---------- *)
Lemma fn_close_frame_refl node h : fn_close_frame node h h.
Proof. split; [lia|]. intros j n Hj. exists n. csplit; auto. Qed.
Lemma fn_close_frame_trans node a b c : fn_close_frame node a b -> fn_close_frame node b c -> fn_close_frame node a c.
Proof.
  intros [L1 F1] [L2 F2]. split; [lia|]. intros j n Hj.
  destruct (F1 j n Hj) as [n1 (E1 & A1 & A2 & A3 & A4)]. destruct (F2 j n1 E1) as [n2 (E2 & B1 & B2 & B3 & B4)].
  exists n2. split; [exact E2|]. split; [congruence|]. split; [congruence|]. split.
  - intros K. rewrite B3 by congruence. apply A3, K.
  - intros Jn. rewrite B4 by exact Jn. apply A4, Jn.
Qed.

Lemma in_insert_before_id x a b l : In x (insert_before_id a b l) -> x = b \/ In x l.
Proof.
  induction l as [|y l IH]; cbn [insert_before_id].
  - intros [<-|[]]. left; reflexivity.
  - destruct (Nat.eqb a y); cbn [In]; intuition.
Qed.

Section Heap.
Variable space_table : list N.
Variable src : bytes.
Notation HInv := (HInv space_table src).
Notation HStep := (HStep space_table src).

(* one local update that keeps kind and lines is a heap step as soon as the invariant holds afterwards *)
Lemma fn_HStep_hset lst h i n n' : HInv lst (hset h i n') -> nth_error h i = Some n -> bk n' = bk n ->
  blines n' = blines n -> HStep lst h (hset h i n').
Proof.
  intros HH Hi Hk Hl. split; [exact HH|]. split; [eapply hext_hset; eassumption|].
  intros r HL. eapply Lim_hset; [exact HL|exact Hi|]. intros K. rewrite Hl. apply (HL i n Hi). congruence.
Qed.

(* RemoveChild of an attached child leaves it detached *)
Lemma fn_remove_detached h p c cn h' : nth_error h c = Some cn -> bpar cn = Some p -> p <> c ->
  remove_child h p c = Ok h' -> nth_error h' c = Some (set_par cn None).
Proof.
  intros Hc Ep Hne. unfold remove_child. rewrite (hget_some _ _ _ Hc). cbn [bind]. rewrite Ep. cbn [opt_nat_eqb].
  rewrite Nat.eqb_refl. unfold hupd. destruct (hget h p) as [pn| |] eqn:Eg; cbn [bind]; try discriminate.
  rewrite (hget_some _ c cn) by (rewrite hset_other by exact Hne; exact Hc). cbn [bind]. intros E. injection E as <-.
  apply hset_same. rewrite hset_length. eapply nth_error_lt, Hc.
Qed.

(* the second half of footnote_close: the footnote moves from its parent to the FootnoteList l *)
Lemma fn_move l h node n p : HInv (Some l) h -> nth_error h node = Some n -> bk n = BBlockquote -> bpar n = Some p ->
  l <> node ->
  exists h1 h2, remove_child h p node = Ok h1 /\ append_child_iso h1 l node = Ok h2 /\
    HStep (Some l) h h2 /\ fn_close_frame node h h2.
Proof.
  intros HH Hn Kn Ep Hln.
  destruct (hi_par_valid space_table src (Some l) h node n p HH Hn Ep) as [Hpl Hpn].
  destruct (nth_error_ex_lt h p Hpl) as [pn Hp].
  assert (Kp : bk pn <> BList).
  { intros K. pose proof (hi_listp _ _ _ _ HH node n p pn Hn Ep Hp K) as C. congruence. }
  destruct (remove_child_ok space_table src (Some l) h p node n HH Hn) as [h1 (E1 & S1 & Len1 & Oth1 & Bk1)].
  pose proof S1 as (HH1 & _).
  pose proof (fn_remove_detached h p node n h1 Hn Ep Hpn E1) as Hn1.
  destruct (hi_lst _ _ _ _ HH1 l eq_refl) as [ln1 [Hl1 Kl1]].
  destruct (append_child_gen space_table src (Some l) h1 l node ln1 (set_par n None) HH1 Hl1 Hn1 Hln)
    as [h2 (E2 & S2 & Len2 & Hn2 & Hl2 & Oth2)].
  { right; reflexivity. }
  { intros K; congruence. }
  { cbn [set_par bk]. intros K; congruence. }
  exists h1, h2. split; [exact E1|]. split.
  { unfold append_child_iso, detach. rewrite (hget_some _ _ _ Hn1). cbn [bind set_par bpar]. exact E2. }
  split; [eapply HStep_trans; eassumption|].
  split; [lia|]. intros j m Hj.
  destruct (nth_error_ex_lt h1 j) as [m1 Hm1]; [rewrite Len1; eapply nth_error_lt, Hj|].
  destruct (Bk1 j m1 Hm1) as [m0 (Hm0 & B1 & B2 & _ & _ & B3 & B4)]. rewrite Hj in Hm0. injection Hm0 as <-.
  destruct (Nat.eq_dec j node) as [->|Jn].
  - rewrite Hn1 in Hm1. injection Hm1 as <-. rewrite Hn in Hj. injection Hj as <-.
    eexists. split; [exact Hn2|]. cbn [set_par bk blines bch bpar]. csplit; auto. intros C; contradiction.
  - destruct (Nat.eq_dec j l) as [->|Jl].
    + rewrite Hl1 in Hm1. injection Hm1 as <-. exists (set_ch ln1 (bch ln1 ++ [node])). split; [exact Hl2|].
      cbn [set_ch bk blines bch bpar]. csplit; auto; intros K; congruence.
    + rewrite <- (Oth2 j Jl Jn) in Hm1. exists m1. split; [exact Hm1|]. csplit; auto.
      intros K. apply B4. intros ->. rewrite Hp in Hj. injection Hj as <-. contradiction.
Qed.

(* the first half when there is no FootnoteList yet: a fresh node l, inserted before the footnote *)
Lemma fn_new_list h node n p : HInv None h -> nth_error h node = Some n -> bk n = BBlockquote -> bpar n = Some p ->
  exists h3, insert_before (h ++ [mknode BBlockquote fn_list]) p node (length h) = Ok h3 /\
    HStep (Some (length h)) (h ++ [mknode BBlockquote fn_list]) h3 /\
    fn_close_frame node h h3 /\ nth_error h3 node = Some n.
Proof.
  intros HH Hn Kn Ep. set (l := length h). set (nd := mknode BBlockquote fn_list). set (h1 := h ++ [nd]).
  destruct (hi_par_valid space_table src None h node n p HH Hn Ep) as [Hpl Hpn].
  destruct (nth_error_ex_lt h p Hpl) as [pn Hp].
  assert (Kp : bk pn <> BList).
  { intros K. pose proof (hi_listp _ _ _ _ HH node n p pn Hn Ep Hp K) as C. congruence. }
  assert (Hnl : (node < l)%nat) by (eapply nth_error_lt, Hn).
  assert (HH1n : HInv None h1) by (apply HInv_alloc; [exact HH|reflexivity|reflexivity|exact I]).
  assert (Hl1 : nth_error h1 l = Some nd) by apply nth_error_alloc_new.
  assert (HH1 : HInv (Some l) h1) by (eapply HInv_lst_new; [exact HH1n|exact Hl1|reflexivity]).
  assert (Hn1 : nth_error h1 node = Some n) by (apply nth_error_alloc_old, Hn).
  assert (Hp1 : nth_error h1 p = Some pn) by (apply nth_error_alloc_old, Hp).
  assert (Len1 : length h1 = S l) by (unfold h1; rewrite app_length; cbn [length]; lia).
  unfold insert_before. rewrite (hget_some _ _ _ Hn1). cbn [bind]. rewrite Ep. cbn [opt_nat_eqb]. rewrite Nat.eqb_refl.
  unfold detach. rewrite (hget_some _ _ _ Hl1). cbn [bind]. change (bpar nd) with (@None nat). cbv iota. cbn [bind].
  rewrite (hupd_ok _ _ _ _ Hp1). cbn [bind].
  set (h2 := hset h1 p (set_ch pn (insert_before_id node l (bch pn)))).
  assert (Hl2 : nth_error h2 l = Some nd) by (unfold h2; rewrite hset_other by lia; exact Hl1).
  rewrite (hupd_ok _ _ _ _ Hl2). eexists. split; [reflexivity|].
  assert (Hp2 : nth_error h2 p = Some (set_ch pn (insert_before_id node l (bch pn)))).
  { unfold h2. apply hset_same. lia. }
  assert (HH2 : HInv (Some l) h2).
  { apply (HInv_hset space_table src (Some l) h1 p pn _ HH1 Hp1); cbn [set_ch bk bch bpar].
    - reflexivity.
    - pose proof (hi_ch _ _ _ _ HH1 p pn Hp1) as HF. rewrite Forall_forall in *. intros x Hx.
      apply in_insert_before_id in Hx. destruct Hx as [->|Hx]; [|apply HF, Hx].
      apply ch_ok_lt; lia.
    - intros q Eq. exact (hi_par _ _ _ _ HH1 p pn q Hp1 Eq).
    - exact (hi_ok _ _ _ _ HH1 p pn Hp1).
    - intros K. contradiction.
    - intros q qn Eq Eqn Kq. exact (hi_listp _ _ _ _ HH1 p pn q qn Hp1 Eq Eqn Kq).
    - intros K q qn Eq Eqn. exact (hi_item _ _ _ _ HH1 p pn q qn Hp1 K Eq Eqn). }
  assert (Len2 : length h2 = S l) by (unfold h2; rewrite hset_length; exact Len1).
  assert (HH3 : HInv (Some l) (hset h2 l (set_par nd (Some p)))).
  { apply (HInv_hset space_table src (Some l) h2 l nd _ HH2 Hl2); cbn [set_par bk bch bpar].
    - reflexivity.
    - exact (hi_ch _ _ _ _ HH2 l nd Hl2).
    - intros q Eq. injection Eq as <-. apply par_ok_lt; lia.
    - exact I.
    - intros K. discriminate.
    - intros q qn Eq Eqn Kq. injection Eq as <-. rewrite Hp2 in Eqn. injection Eqn as <-. cbn [set_ch bk] in Kq. contradiction.
    - intros K. discriminate. }
  split.
  { eapply HStep_trans.
    - apply (fn_HStep_hset (Some l) h1 p pn); [exact HH2|exact Hp1|reflexivity|reflexivity].
    - apply (fn_HStep_hset (Some l) h2 l nd); [exact HH3|exact Hl2|reflexivity|reflexivity]. }
  split.
  - split; [rewrite hset_length; fold l; lia|]. intros j m Hj.
    assert (Jl : (j < l)%nat) by (eapply nth_error_lt, Hj).
    rewrite hset_other by lia. destruct (Nat.eq_dec p j) as [<-|Jp].
    + rewrite Hp2. rewrite Hp in Hj. injection Hj as <-. eexists. split; [reflexivity|].
      cbn [set_ch bk blines bch bpar]. csplit; auto. intros K. contradiction.
    + unfold h2. rewrite hset_other by exact Jp. exists m. split; [apply nth_error_alloc_old, Hj|]. csplit; auto.
  - rewrite hset_other by lia. unfold h2. rewrite hset_other by lia. exact Hn1.
Qed.

End Heap.

Lemma fn_cframe_eq c c' : c' = c -> cframe c c'.
Proof. intros ->. unfold cframe. auto. Qed.

(* ---------- IndentPosition without incoming padding: the position it returns ---------- *)
Lemma fn_ip_loop bs cur width : forall w i w' i',
  indent_position_loop bs cur w i 0 width = (w', i') ->
  i <= i' <= i + zlen bs /\
  (forall k, 0 <= k < i' - i -> nth (Z.to_nat k) bs 0%N = 32%N \/ nth (Z.to_nat k) bs 0%N = 9%N).
Proof.
  induction bs as [|c r IH]; intros w i w' i' H.
  - cbn [indent_position_loop] in H. injection H as <- <-. rewrite zlen_nil. split; intros; lia.
  - cbn [indent_position_loop] in H. change (0 <? 0) with false in H. cbv iota in H.
    rewrite zlen_cons. pose proof (zlen_nonneg r) as Hr.
    assert (Hgo : forall w1, c = 32%N \/ c = 9%N -> indent_position_loop r cur w1 (i + 1) 0 width = (w', i') ->
              i <= i' <= i + (1 + zlen r) /\
              (forall k, 0 <= k < i' - i -> nth (Z.to_nat k) (c :: r) 0%N = 32%N \/ nth (Z.to_nat k) (c :: r) 0%N = 9%N)).
    { intros w1 Hc H1. destruct (IH w1 (i + 1) w' i' H1) as (B & C). split; [lia|].
      intros k Hk. destruct (Z.eq_dec k 0) as [->|Hk0]; [exact Hc|]. rewrite lp_nth_cons by lia. apply C. lia. }
    destruct (N.eqb_spec c 9) as [E9|N9]; cbn [andb] in H.
    + destruct (w <? width).
      * eapply Hgo; [right; exact E9|exact H].
      * destruct (N.eqb c 32); cbn [andb] in H; injection H as <- <-; split; intros; lia.
    + destruct (N.eqb_spec c 32) as [E32|N32]; cbn [andb] in H.
      * destruct (w <? width).
        -- eapply Hgo; [left; exact E32|exact H].
        -- injection H as <- <-; split; intros; lia.
      * injection H as <- <-; split; intros; lia.
Qed.

Lemma fn_indent_position bs cur width pos pad : indent_position bs cur width = (pos, pad) -> 0 <= pos ->
  pos <= zlen bs /\ 0 <= pad /\ (forall k, 0 <= k < pos -> nth (Z.to_nat k) bs 0%N <> 10%N).
Proof.
  unfold indent_position, indent_position_padding. intros E Hpos. pose proof (zlen_nonneg bs) as Hbs.
  destruct (Z.eqb_spec width 0) as [E0|E0].
  - injection E as <- <-. csplit; intros; lia.
  - destruct (indent_position_loop bs cur 0 0 0 width) as [w i] eqn:Hl.
    destruct (fn_ip_loop bs cur width 0 0 w i Hl) as (B & C).
    destruct (Z.leb_spec width w) as [Hle|Hlt]; injection E as <- <-; [|lia].
    csplit; try lia. intros k Hk. destruct (C k ltac:(lia)) as [-> | ->]; discriminate.
Qed.

Section S.
Variable space_table punct_table : list N.
Variable src : bytes.
Hypothesis tbl : TblOK space_table.
Notation SI := (SI space_table src).

(* the FootnoteList appears: a valid node written as a block quote that is not in the opened-blocks array *)
Lemma SI_lst_new s l ln : SI None s -> nth_error (s_h s) l = Some ln -> bk ln = BBlockquote ->
  (forall e, In e (c_arr (s_c s)) -> fst e <> l) -> SI (Some l) s.
Proof.
  intros [S1 S2 S3 S4 S5 S6] Hl Hk Hne. constructor; auto.
  - eapply HInv_lst_new; eassumption.
  - destruct S4 as [C1 C2 C3 C4 C5]. constructor; auto.
    intros e He E. injection E as E. exact (Hne e He (eq_sym E)).
Qed.

Lemma fn_open_none lst s s1 parent : SI lst s1 -> scache s s1 ->
  exists s' o, Ok (s1, @None (nat * bool * bool)) = Ok (s', o) /\ open_post space_table src lst PBlockquote parent s s' o.
Proof.
  intros HS1 (Ch & Cc & Cp). exists s1, None. split; [reflexivity|]. unfold open_post.
  split; [exact HS1|]. split; [apply same_pos_le, Cp|]. split; [apply fn_cframe_eq, Cc|].
  rewrite Cc. csplit; auto.
Qed.

Lemma footnote_open_ok lst s parent : SI lst s -> sin s -> BoffOK s ->
  exists s' o, footnote_open space_table punct_table s = Ok (s', o) /\
               open_post space_table src lst PBlockquote parent s s' o.
Proof.
  intros HS Hin (Hb1 & Hb2). unfold footnote_open.
  destruct (peek_line_s_ok space_table src lst s HS) as [s1 (E1 & HS1 & C1 & _)]. rewrite E1. cbn [bind].
  unfold sin in Hin. rewrite Hin. cbn [line_of].
  pose proof C1 as (Ch1 & Cc1 & Cp1). rewrite Cc1.
  pose proof (fn_open_none lst s s1 parent HS1 C1) as Hnone.
  set (line := sview s) in *. set (pos := c_boff (s_c s)) in *. set (padding := s_pad (r_pos (s_r s))) in *.
  destruct (Z.ltb_spec pos 0) as [Hneg|Hpos]; [exact Hnone|]. specialize (Hb2 Hpos).
  rewrite at_nth by lia. cbn [bind].
  destruct (negb (N.eqb (nth (Z.to_nat pos) line 0%N) 91)); [exact Hnone|].
  destruct (Z.ltb_spec (zlen line - 1) (pos + 1)) as [Hl1|Hl1]; [exact Hnone|].
  rewrite at_nth by lia. cbn [bind].
  destruct (negb (N.eqb (nth (Z.to_nat (pos + 1)) line 0%N) 94)); [exact Hnone|].
  cbv zeta. generalize (find_closure_bytes punct_table (zskip (pos + 1 + 1) line) 91 93). intros closure.
  destruct (Z.ltb_spec closure 0) as [Hcl|Hcl]; [exact Hnone|].
  destruct (Z.leb_spec (zlen line) (pos + 1 + 1 + closure + 1)) as [Hnx|Hnx]; [exact Hnone|].
  rewrite at_nth by lia. cbn [bind].
  destruct (negb (N.eqb (nth (Z.to_nat (pos + 1 + 1 + closure + 1)) line 0%N) 58)); [exact Hnone|].
  pose proof (si_r _ _ _ _ HS) as HI. pose proof (ri_bounds _ HI) as Hbd. pose proof HI as [Hinv _].
  pose proof (view_zlen _ Hinv) as Hvz. fold (sview s) in Hvz. fold line in Hvz. fold padding in Hvz.
  pose proof (si_pad _ _ _ _ HS) as Hpd. unfold PadB in Hpd. fold padding in Hpd.
  assert (Esrc : r_src (s_r s1) = r_src (s_r s)) by (destruct Cp1 as (E & _); exact E).
  unfold r_value, seg_value. cbn [mkseg s_start s_stop s_pad s_fnl]. rewrite Esrc.
  rewrite slice_sub by lia. cbn [bind]. change (0 =? 0) with true. change (0 <? 0) with false. cbv iota. cbn [bind].
  match goal with |- context [Reader.is_blank space_table ?l] => destruct (Reader.is_blank space_table l) end; [exact Hnone|].
  clear Hnone.
  match goal with |- context [new_node s1 ?n] => set (nd := n) end.
  destruct (new_node_ok space_table src lst s1 nd HS1 eq_refl eq_refl I) as (N1 & N2 & N3 & N4 & N5).
  { cbn. discriminate. }
  destruct (new_node s1 nd) as [s2 id] eqn:En. cbn [fst snd] in *.
  set (n := pos + 1 + 1 + closure + 1 + 1 - padding).
  assert (Hn0 : 0 <= n) by (unfold n; lia).
  assert (Hpost : forall s' kids, SI lst s' -> s_h s' = s_h s2 -> s_c s' = s_c s2 -> r_le (s_r s2) (s_r s') ->
            (kids = true -> same_line (s_r s2) (s_r s') /\ s_start (r_pos (s_r s2)) + 1 <= s_start (r_pos (s_r s'))) ->
            open_post space_table src lst PBlockquote parent s s' (Some (id, kids, false))).
  { intros s' kids HS' Eh Ec Hle Hk. unfold open_post. split; [exact HS'|].
    assert (P2 : same_pos (s_r s) (s_r s2)) by (rewrite N5; exact Cp1).
    split; [eapply r_le_trans; [apply same_pos_le, P2|exact Hle]|].
    rewrite Ec, N4, Cc1. split; [apply fn_cframe_eq; reflexivity|].
    exists nd. rewrite Eh, N3, Ch1. csplit; auto; try reflexivity; try congruence.
    cbn [open_extra]. intros Ek. destruct (Hk Ek) as [L1 L2].
    split; [eapply same_line_trans; [apply same_pos_line, P2|exact L1]|].
    destruct P2 as (_ & P2 & _). rewrite <- P2. exact L2. }
  destruct (Z.leb_spec (zlen line) n) as [Hz|Hz].
  - destruct (advance_s_ok space_table src lst s2 n N1 Hn0) as [s3 (E3 & HS3 & Eh3 & Ec3 & Hle3)].
    rewrite E3. cbn [bind]. exists s3, (Some (id, false, false)). split; [reflexivity|].
    apply Hpost; auto. discriminate.
  - pose proof (si_r _ _ _ _ N1) as HI2.
    assert (P2 : same_pos (s_r s) (s_r s2)) by (rewrite N5; exact Cp1).
    pose proof (same_pos_view _ _ P2) as V2. fold (sview s) in V2. fold line in V2.
    pose proof (same_pos_in_range _ _ P2) as Hin2. rewrite Hin in Hin2.
    destruct (ri_advance_and_set_padding_in_line (s_r s2) n padding HI2 Hin2) as [r' (E3 & I3 & L3 & S3)].
    { rewrite V2. lia. }
    { intros k Hk. apply view_no_nl; [exact HI2|]. rewrite V2. lia. }
    { lia. }
    rewrite E3. cbn [bind]. exists (st_r s2 r'), (Some (id, true, false)). split; [reflexivity|].
    apply Hpost; cbn [st_r s_h s_c s_r]; auto.
    + apply SI_set_r; [exact N1|exact I3|apply same_line_le, L3|].
      eapply PadB_advance_and_set_padding; [exact E3|exact (si_pad _ _ _ _ N1)|lia].
    + apply same_line_le, L3.
    + intros _. split; [exact L3|]. rewrite S3.
      destruct P2 as (_ & P2 & _). rewrite P2. fold padding. unfold n. lia.
Qed.

Lemma footnote_continue_ok lst s node : SI lst s -> sin s ->
  exists s' cont, footnote_continue space_table s = Ok (s', cont) /\
                  cont_post space_table src lst PBlockquote node s s' cont true.
Proof.
  intros HS Hin. unfold footnote_continue.
  destruct (peek_line_s_ok space_table src lst s HS) as [s1 (E1 & HS1 & C1 & _)]. rewrite E1. cbn [bind].
  unfold sin in Hin. rewrite Hin. cbn [line_of].
  pose proof C1 as (Ch1 & Cc1 & Cp1).
  destruct (Reader.is_blank space_table (sview s)).
  { exists s1, true. split; [reflexivity|]. unfold cont_post. cbn [is_container].
    split; [exact HS1|]. split; [apply same_pos_le, Cp1|]. split; [apply fn_cframe_eq, Cc1|].
    rewrite Cc1. csplit; auto; try discriminate. split; [exact Ch1|apply same_pos_line, Cp1]. }
  destruct (line_offset_s_ok space_table src lst s1 HS1) as [s2 (E2 & HS2 & C2 & _)]. rewrite E2. cbn [bind].
  pose proof (scache_trans _ _ _ C1 C2) as C12. pose proof C12 as (Ch2 & Cc2 & Cp2).
  destruct (indent_position (sview s) (soff s1) 4) as [childpos padding] eqn:Eip.
  destruct (Z.ltb_spec childpos 0) as [Hneg|Hpos].
  { exists s2, false. split; [reflexivity|]. unfold cont_post. cbn [is_container].
    split; [exact HS2|]. split; [apply same_pos_le, Cp2|]. split; [apply fn_cframe_eq, Cc2|].
    rewrite Cc2. csplit; auto; try discriminate. split; [exact Ch2|apply same_pos_line, Cp2]. }
  destruct (fn_indent_position _ _ _ _ _ Eip Hpos) as (Hle & Hpad & Hnl).
  pose proof (indent_position_bound _ _ _ _ _ Eip ltac:(lia)) as Hp3.
  pose proof (scache_view _ _ C12) as V2. unfold sview in V2.
  pose proof (scache_sin _ _ C12 Hin) as Hin2. unfold sin in Hin2.
  destruct (ri_advance_and_set_padding_in_line (s_r s2) childpos padding (si_r _ _ _ _ HS2) Hin2) as [r' (E3 & I3 & L3 & _)].
  { rewrite V2. fold (sview s). lia. }
  { rewrite V2. exact Hnl. }
  { exact Hpad. }
  rewrite E3. cbn [bind]. exists (st_r s2 r'), true. split; [reflexivity|].
  assert (L : same_line (s_r s) r') by (eapply same_line_trans; [apply same_pos_line, Cp2|exact L3]).
  unfold cont_post. cbn [st_r s_h s_c s_r is_container].
  split; [apply SI_set_r; [exact HS2|exact I3|apply same_line_le, L3|]|].
  { eapply PadB_advance_and_set_padding; [exact E3|exact (si_pad _ _ _ _ HS2)|exact Hp3]. }
  split; [apply same_line_le, L|]. split; [apply fn_cframe_eq, Cc2|].
  rewrite Cc2. csplit; auto; discriminate.
Qed.

Lemma footnote_close_ok x node n p : SI (bf_list x) (bf_s x) ->
  nth_error (s_h (bf_s x)) node = Some n -> bk n = BBlockquote -> bpar n = Some p ->
  bf_list x <> Some node ->
  exists x', footnote_close x node = Ok x' /\ SI (bf_list x') (bf_s x') /\
    s_r (bf_s x') = s_r (bf_s x) /\ s_c (bf_s x') = s_c (bf_s x) /\
    fn_close_frame node (s_h (bf_s x)) (s_h (bf_s x')).
Proof.
  destruct x as [s lst]. cbn [bf_s bf_list]. intros HS Hn Kn Ep Hnl.
  unfold footnote_close. cbn [bf_s bf_list]. rewrite (hget_some _ _ _ Hn). cbn [bind]. rewrite Ep.
  destruct lst as [l|].
  - cbn [bind].
    destruct (fn_move space_table src l (s_h s) node n p (si_h _ _ _ _ HS) Hn Kn Ep) as (h1 & h2 & E1 & E2 & S2 & F2).
    { intros ->. apply Hnl. reflexivity. }
    rewrite E1. cbn [bind]. rewrite E2. cbn [bind]. eexists. split; [reflexivity|]. cbn [bf_s bf_list st_h s_h s_r s_c].
    split; [apply SI_set_h; assumption|]. auto.
  - set (nd := mknode BBlockquote fn_list).
    destruct (new_node_ok space_table src None s nd HS eq_refl eq_refl I) as (N1 & N2 & N3 & N4 & N5).
    { cbn. discriminate. }
    destruct (new_node s nd) as [s1 l0] eqn:En. cbn [fst snd] in *. subst l0.
    destruct (fn_new_list space_table src (s_h s) node n p (si_h _ _ _ _ HS) Hn Kn Ep) as (h3 & E3 & S3 & F3 & Hn3).
    fold nd in E3, S3. rewrite N3. rewrite E3. cbn [bind].
    set (l := length (s_h s)) in *.
    assert (HS1 : SI (Some l) s1).
    { eapply SI_lst_new; [exact N1|rewrite N3; apply nth_error_alloc_new|reflexivity|].
      intros e He. rewrite N4 in He. destruct (ci_arr _ _ _ (si_c _ _ _ _ HS) e He) as [m [Hm _]].
      apply nth_error_lt in Hm. fold l in Hm. lia. }
    assert (HS3 : SI (Some l) (st_h s1 h3)).
    { apply SI_set_h; [exact HS1|rewrite N3; exact S3]. }
    destruct (fn_move space_table src l h3 node n p (si_h _ _ _ _ HS3) Hn3 Kn Ep) as (h4 & h5 & E4 & E5 & S5 & F5).
    { apply nth_error_lt in Hn. fold l in Hn. lia. }
    cbn [st_h s_h]. rewrite E4. cbn [bind]. rewrite E5. cbn [bind]. eexists. split; [reflexivity|].
    cbn [bf_s bf_list st_h s_h s_r s_c].
    split; [apply (SI_set_h space_table src (Some l) (st_h s1 h3) h5 HS3 S5)|].
    split; [exact N5|]. split; [exact N4|]. eapply fn_close_frame_trans; eassumption.
Qed.

End S.
