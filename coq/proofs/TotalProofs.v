(* Totality facts of the modelled code (C01): no Panic, no OutOfFuel. *)
Require Import GM.model.Base GM.model.Util.
From Coq Require Import ZArith Lia.
Open Scope Z_scope.

(* util.ToRune (after the fix) never panics for a position inside the slice *)
Theorem to_rune_total v pos : 0 <= pos < zlen v -> exists r, to_rune v pos = Ok r.
Proof.
  intros [H0 H1]. unfold to_rune.
  destruct (Z.ltb_spec pos 0) as [Hn|_]; [lia|].
  destruct (Z.leb_spec (zlen v) pos) as [Hge|_]; [lia|].
  destruct (rune_start_before _ _); eexists; reflexivity.
Qed.

(* ... and the pinned tree's behaviour (scan below index 0, then source[-1:]) is excluded:
   on a slice consisting only of continuation bytes the result is RuneError, not a panic *)
Example to_rune_continuation_bytes : to_rune [128%N; 128%N] 1 = Ok 65533%N.
Proof. vm_compute. reflexivity. Qed.
