(* Block quotes around plain paragraphs, block phase, part 4: one line of the loop over the
   opened blocks: the open quotes continue over their markers, then a paragraph continues, a new
   block opens, or a separator line / the end of the source closes blocks. *)
Require Import GM.model.Base GM.model.Util GM.model.Reader GM.model.ListItem GM.model.Blocks GM.model.CodeBlock
               GM.model.Regex GM.model.BlockParse.
Require Import GM.gen.Tables GM.proofs.SpecParaBytes GM.proofs.SpecParaReader GM.proofs.SpecParaBlocks GM.proofs.SpecParaBlocks2
               GM.proofs.SpecQuoteShape GM.proofs.SpecQuoteMachine GM.proofs.SpecQuoteReader GM.proofs.SpecQuoteSteps
               GM.proofs.SpecQuoteSteps2 GM.proofs.SpecQuoteSteps3.
From Coq Require Import List NArith ZArith Bool Lia.
Import ListNotations.
Open Scope Z_scope.

Opaque space_table punct_table.

Lemma chain_head ms (c0 : N) tl : c0 <> 32%N -> c0 <> 9%N ->
  exists c tail, chain ms ++ c0 :: tl = c :: tail /\ c <> 32%N /\ c <> 9%N.
Proof.
  intros H32 H9. destruct ms as [|s ms].
  - exists c0, tl. cbn [chain app]. auto.
  - destruct (mk_cons s) as [l Hl]. exists 62%N, (l ++ chain ms ++ c0 :: tl). cbn [chain]. rewrite Hl.
    split; [rewrite <- !app_assoc; reflexivity|]. split; discriminate.
Qed.
Lemma chain_length ms : (length ms <= length (chain ms))%nat.
Proof. induction ms as [|s ms IH]; [cbn; lia|]. cbn [chain length]. rewrite app_length. destruct s; cbn [mk length]; lia. Qed.
Lemma chain_app a b : chain (a ++ b) = chain a ++ chain b.
Proof. induction a as [|s a IH]; [reflexivity|]. cbn [app chain]. rewrite IH, app_assoc. reflexivity. Qed.

Section Driver.
Variable norm : bytes -> bytes.
Variables re_t1o re_t1c re_t2 re_t3 re_t4 re_t5 re_t6 re_t7 : re.
Variable allowed_tags : list bytes.
Notation OB := (open_blocks space_table punct_table norm re_t1o re_t1c re_t2 re_t3 re_t4 re_t5 re_t6 re_t7 allowed_tags).
Notation EACH := (each_opened space_table punct_table norm re_t1o re_t1c re_t2 re_t3 re_t4 re_t5 re_t6 re_t7 allowed_tags).
Notation CLOSE := (close_blocks space_table punct_table norm).

(* the open quotes from number i on continue over the markers ms *)
Lemma each_quotes ms : forall f q tailcap root i last_index stats h c src pre c0 tl rest k hd b st,
  at_line src pre (chain ms ++ c0 :: tl) rest st b -> c0 <> 32%N -> c0 <> 9%N -> 0 <= hd ->
  Forall (is_bq h) q -> (i + length ms <= length q)%nat -> Z.of_nat (i + length ms) <= last_index ->
  exists stats',
  EACH (length ms + f) (qop q ++ tailcap) root (Z.of_nat i) last_index stats (mkst h c (rd src k hd b st None (-1))) =
  EACH f (qop q ++ tailcap) root (Z.of_nat (i + length ms)) last_index stats'
       (mkst h c (rd src k hd b (st + zlen (chain ms)) None (-1))).
Proof.
  induction ms as [|s ms IH]; intros f q tailcap root i last_index stats h c src pre c0 tl rest k hd b st Hat H32 H9 Hhd Hq Hi Hlast.
  - exists stats. cbn [length chain]. rewrite Nat.add_0_r, zlen_nil, Z.add_0_r. reflexivity.
  - destruct (chain_head ms c0 tl H32 H9) as (c1 & tail & Hct & Hc32 & Hc9).
    assert (Hl : chain (s :: ms) ++ c0 :: tl = mk s ++ c1 :: tail) by (cbn [chain]; rewrite <- app_assoc, Hct; reflexivity).
    assert (Hne : chain (s :: ms) ++ c0 :: tl <> []) by (rewrite Hl; destruct s; discriminate).
    cbn [length] in Hi, Hlast.
    assert (Hlt : (i < length q)%nat) by lia.
    destruct (nth_error q i) as [x|] eqn:Ex; [|apply nth_error_None in Ex; lia].
    assert (Hx : is_bq h x) by (apply (proj1 (Forall_forall _ _) Hq); eapply nth_error_In; exact Ex).
    assert (Hat' : at_line src (pre ++ mk s) (chain ms ++ c0 :: tl) rest (st + zlen (mk s)) b).
    { apply at_line_shift. cbn [chain] in Hat. rewrite <- app_assoc in Hat. exact Hat. }
    destruct (IH f q tailcap root (S i) last_index
                ((k, Z.of_nat i, Reader.is_blank space_table (chain (s :: ms) ++ c0 :: tl)) :: stats)
                h c src (pre ++ mk s) c0 tl rest k hd b (st + zlen (mk s)) Hat' H32 H9 Hhd Hq) as (stats' & Hrun); [lia|lia|].
    exists stats'. cbn [length]. change (S (length ms) + f)%nat with (S (length ms + f)).
    cbn [each_opened].
    replace (last_index <? Z.of_nat i) with false by (symmetry; apply Z.ltb_ge; lia).
    rewrite Nat2Z.id. rewrite nth_error_app1 by (rewrite qop_length; exact Hlt). rewrite (nth_error_qop q i x Ex).
    rewrite (peek_s_any _ _ src pre _ rest k hd b st None (-1) Hat Hne (or_introl eq_refl)). cbn [bind s_h].
    rewrite (is_bq_not_para h x Hx). cbn [bind negb]. cbv iota. cbn [p_continue]. unfold bq_continue. cbn [s_r].
    rewrite (bq_mk src pre _ rest k hd b st (-1) s c1 tail Hat Hhd (or_introl eq_refl) Hl Hc32 Hc9). cbn [bind fst snd].
    unfold st_r. cbn [s_h s_c s_r].
    replace (Z.of_nat i =? last_index) with false by (symmetry; apply Z.eqb_neq; lia). cbn [andb]. cbv iota.
    unfold rline. cbn [s_r]. rewrite r_line_rd.
    replace (Z.of_nat i + 1) with (Z.of_nat (S i)) by lia. rewrite Hrun.
    replace (S i + length ms)%nat with (i + S (length ms))%nat by lia.
    cbn [chain]. rewrite zlen_app, Z.add_assoc. reflexivity.
Qed.
(* the parent openBlocks is given when a block does not continue: it always exists *)
Lemma this_parent_ok (q : list nat) tailcap root (i : nat) : (i <= length q)%nat ->
  exists tp, (if Z.of_nat i =? 0 then Ok root
              else match nth_error (qop q ++ tailcap) (Z.to_nat (Z.of_nat i - 1)) with
                   | Some (p, _) => Ok p | None => Panic end) = Ok tp.
Proof.
  intros Hi. destruct (Z.eqb_spec (Z.of_nat i) 0) as [_|Hne]; [exists root; reflexivity|].
  assert (Hlt : (Z.to_nat (Z.of_nat i - 1) < length q)%nat) by lia.
  destruct (nth_error q (Z.to_nat (Z.of_nat i - 1))) as [x|] eqn:Ex; [|apply nth_error_None in Ex; lia].
  rewrite nth_error_app1 by (rewrite qop_length; exact Hlt). rewrite (nth_error_qop q _ x Ex). exists x. reflexivity.
Qed.
Lemma nth_error_para (q : list nat) (pid : nat) : nth_error (qop q ++ [(pid, PParagraph)]) (Z.to_nat (zlen q)) = Some (pid, PParagraph).
Proof.
  replace (Z.to_nat (zlen q)) with (length (qop q)) by (rewrite qop_length; unfold zlen; lia). apply nth_error_mid.
Qed.
Lemma nth_error_para_arr (q : list nat) (pid : nat) junk :
  nth_error ((qop q ++ [(pid, PParagraph)]) ++ junk) (Z.to_nat (zlen q)) = Some (pid, PParagraph).
Proof.
  rewrite <- app_assoc. cbn [app].
  replace (Z.to_nat (zlen q)) with (length (qop q)) by (rewrite qop_length; unfold zlen; lia). apply nth_error_mid.
Qed.

(* at the open paragraph, on a text line: it continues *)
Lemma each_at_para_text f q junk root stats h0 pp ls bl src pre body term rest k hd b st :
  cur_line src pre body term rest st b -> 0 <= hd ->
  EACH (S f) (qop q ++ [(length h0, PParagraph)]) root (zlen q) (zlen q) stats
       (mkst (h0 ++ [pnode (Some pp) ls bl]) (octx (qop q ++ [(length h0, PParagraph)]) junk) (rd src k hd b st None (-1))) =
  Ok (inr (mkst (h0 ++ [pnode (Some pp) (ls ++ [mkseg st b]) bl]) (octx (qop q ++ [(length h0, PParagraph)]) junk)
                (rd src k hd b (b - 1) None (-1))),
      (k, zlen q, false) :: stats).
Proof.
  intros Hc Hhd. pose proof (cl_body _ _ _ _ _ _ _ Hc) as Hb.
  cbn [each_opened]. rewrite Z.ltb_irrefl. cbv iota. rewrite nth_error_para.
  rewrite (peek_s_any _ _ src pre (body ++ term) rest k hd b st None (-1) (cl_at _ _ _ _ _ _ _ Hc) (text_line_nonempty body term Hb) (or_introl eq_refl)).
  cbn [bind s_h]. rewrite is_paragraph_app_last. cbn [bind negb]. cbv iota.
  destruct (this_parent_ok q [(length h0, PParagraph)] root (length q) (le_n _)) as (tp & Htp).
  fold (zlen q) in Htp. rewrite Htp. cbn [bind].
  replace (2 * length (body ++ term) + 8)%nat with (S (2 * length (body ++ term) + 7))%nat by lia.
  rewrite (ob_cont_text norm re_t1o re_t1c re_t2 re_t3 re_t4 re_t5 re_t6 re_t7 allowed_tags _ h0 pp (qop q) junk ls bl src pre body term rest k hd b st tp _ Hc Hhd).
  cbn [bind]. change (paragraphContinuation =? paragraphContinuation) with true. cbn [negb]. cbv iota.
  unfold rline. cbn [s_r]. rewrite r_line_rd. rewrite (text_line_not_blank body term Hb). reflexivity.
Qed.

(* a text line: the quotes continue over their markers, the paragraph continues *)
Lemma each_txt_cont ms f q junk root stats h0 pp ls bl src pre body term rest k a b :
  at_line src pre (chain ms ++ body ++ term) rest a b -> body_okb body = true -> term_ok term rest ->
  Forall (is_bq h0) q -> length ms = length q -> (length q < f)%nat ->
  exists stats',
  EACH f (qop q ++ [(length h0, PParagraph)]) root 0 (zlen q) stats
       (mkst (h0 ++ [pnode (Some pp) ls bl]) (octx (qop q ++ [(length h0, PParagraph)]) junk) (rd src k a b a None (-1))) =
  Ok (inr (mkst (h0 ++ [pnode (Some pp) (ls ++ [mkseg (a + zlen (chain ms)) b]) bl]) (octx (qop q ++ [(length h0, PParagraph)]) junk)
                (rd src k a b (b - 1) None (-1))), stats').
Proof.
  intros Hat Hb Ht Hq Hlen Hf.
  destruct (body_ok_head body Hb) as (c0 & r0 & Eb & Hc0). pose proof (wordc_range c0 Hc0) as Hr0.
  assert (Ha : 0 <= a) by (destruct Hat as (_ & -> & _); apply zlen_nonneg).
  assert (Hat0 : at_line src pre (chain ms ++ c0 :: r0 ++ term) rest a b) by (rewrite Eb in Hat; exact Hat).
  replace f with (length ms + S (f - length ms - 1))%nat by lia.
  destruct (each_quotes ms (S (f - length ms - 1)) q [(length h0, PParagraph)] root 0%nat (zlen q) stats
              (h0 ++ [pnode (Some pp) ls bl]) (octx (qop q ++ [(length h0, PParagraph)]) junk)
              src pre c0 (r0 ++ term) rest k a b a Hat0) as (stats1 & Hrun); try lia.
  { eapply Forall_impl; [|exact Hq]. intros x Hx. apply is_bq_app. exact Hx. }
  { unfold zlen. lia. }
  change (Z.of_nat 0) with 0 in Hrun. rewrite Hrun. cbn [Nat.add]. rewrite Hlen. fold (zlen q).
  eexists. apply (each_at_para_text _ q junk root _ h0 pp ls bl src (pre ++ chain ms) body term rest k a b (a + zlen (chain ms))); [|exact Ha].
  split; [|exact Hb|exact Ht]. apply at_line_shift. exact Hat.
Qed.
End Driver.
