(* The backtracking matcher of model/Regex.v against a declarative semantics of the regular
   expressions: Matches r s i j = "r matches the bytes of s from byte offset i to byte offset j"
   (stepping rune by rune with Util.decode_rune as the matcher does).  Soundness: what re_find
   reports is a match.  Completeness: if some match exists, re_find finds one (so re_match
   decides the existence of a match).  Capture groups are not part of the semantics. *)
Require Import GM.model.Base GM.model.Util GM.model.Regex.
From Coq Require Import ZArith Lia.
Open Scope Z_scope.

(* the suffix of s at byte offset i *)
Definition suffix_at (s : bytes) (i : Z) : bytes := skipn (Z.to_nat i) s.

Inductive Matches (s : bytes) : re -> Z -> Z -> Prop :=
| MEmpty i : Matches s REmpty i i
| MLit c i r w : decode_rune (suffix_at s i) = (r, w) -> suffix_at s i <> [] -> r = c -> Matches s (RLit c) i (i + Z.of_N w)
| MClass rs i r w : decode_rune (suffix_at s i) = (r, w) -> suffix_at s i <> [] -> in_ranges rs r = true -> Matches s (RClass rs) i (i + Z.of_N w)
| MAny i r w : decode_rune (suffix_at s i) = (r, w) -> suffix_at s i <> [] -> Matches s RAny i (i + Z.of_N w)
| MAnyNotNL i r w : decode_rune (suffix_at s i) = (r, w) -> suffix_at s i <> [] -> r <> 10%N -> Matches s RAnyNotNL i (i + Z.of_N w)
| MBegin : Matches s RBeginText 0 0
| MEnd i : suffix_at s i = [] -> Matches s REndText i i
| MCat a b i j k : Matches s a i j -> Matches s b j k -> Matches s (RCat a b) i k
| MAltL a b i j : Matches s a i j -> Matches s (RAlt a b) i j
| MAltR a b i j : Matches s b i j -> Matches s (RAlt a b) i j
| MStar0 g a i : Matches s (RStar g a) i i
| MStarS g a i j k : Matches s a i j -> Matches s (RStar g a) j k -> Matches s (RStar g a) i k
| MPlus g a i j k : Matches s a i j -> Matches s (RStar g a) j k -> Matches s (RPlus g a) i k
| MQuest0 g a i : Matches s (RQuest g a) i i
| MQuest1 g a i j : Matches s a i j -> Matches s (RQuest g a) i j
| MCap n a i j : Matches s a i j -> Matches s (RCap n a) i j.

(* the offsets the leftmost search tries: those reached from 0 by stepping rune by rune *)
Inductive Boundary (s : bytes) : Z -> Prop :=
| B0 : Boundary s 0
| BS i r w : Boundary s i -> suffix_at s i <> [] -> decode_rune (suffix_at s i) = (r, w) -> Boundary s (i + Z.of_N w).

(* ---------- decode_rune: width ---------- *)

(* on non-empty input the width is between 1 and 4 and never exceeds the input length *)
Lemma decode_rune_width v r w : v <> [] -> decode_rune v = (r, w) ->
  (1 <= w <= 4)%N /\ (N.to_nat w <= length v)%nat.
Proof.
  destruct v as [|c0 r0]; [congruence|]. intros _. unfold decode_rune. cbv zeta.
  repeat match goal with
  | |- context [if ?b then _ else _] => destruct b
  | |- context [match ?l with [] => _ | _ :: _ => _ end] => destruct l
  end; intros H; inversion H; subst; cbn [length]; lia.
Qed.

(* ---------- suffixes and positions ---------- *)

Lemma suffix_len s i : length (suffix_at s i) = (length s - Z.to_nat i)%nat.
Proof. unfold suffix_at. apply skipn_length. Qed.

Lemma skipn_add {A} (a b : nat) (l : list A) : skipn a (skipn b l) = skipn (b + a) l.
Proof.
  revert l. induction b as [|b IH]; intros l; [reflexivity|].
  destruct l as [|x l]; [destruct a; reflexivity|]. cbn [skipn Nat.add]. apply IH.
Qed.

Lemma suffix_step s i w : 0 <= i ->
  skipn (N.to_nat w) (suffix_at s i) = suffix_at s (i + Z.of_N w).
Proof. intros Hi. unfold suffix_at. rewrite skipn_add. f_equal. lia. Qed.

Lemma suffix_0 s : suffix_at s 0 = s.
Proof. reflexivity. Qed.

Lemma rune_step_range s i r w : 0 <= i -> suffix_at s i <> [] ->
  decode_rune (suffix_at s i) = (r, w) -> i < i + Z.of_N w <= zlen s.
Proof.
  intros Hi Hne Hd. destruct (decode_rune_width _ _ _ Hne Hd) as [Hw Hl].
  rewrite suffix_len in Hl. unfold zlen. lia.
Qed.

Lemma step_rune_inv s i r p' : 0 <= i -> step_rune (i, suffix_at s i) = Some (r, p') ->
  exists w, suffix_at s i <> [] /\ decode_rune (suffix_at s i) = (r, w) /\
            p' = (i + Z.of_N w, suffix_at s (i + Z.of_N w)).
Proof.
  intros Hi. unfold step_rune. cbn [fst snd].
  remember (suffix_at s i) as v eqn:Hv. destruct v as [|x v']; [discriminate|].
  destruct (decode_rune (x :: v')) as [r0 w] eqn:Hd. intros H. inversion H; subst r0 p'.
  exists w. split; [discriminate|]. split; [reflexivity|].
  rewrite Hv. rewrite suffix_step by exact Hi. reflexivity.
Qed.

Lemma step_rune_intro s i r w : 0 <= i -> suffix_at s i <> [] ->
  decode_rune (suffix_at s i) = (r, w) ->
  step_rune (i, suffix_at s i) = Some (r, (i + Z.of_N w, suffix_at s (i + Z.of_N w))).
Proof.
  intros Hi Hne Hd. unfold step_rune. cbn [fst snd]. rewrite Hd.
  rewrite suffix_step by exact Hi.
  destruct (suffix_at s i); [congruence | reflexivity].
Qed.

(* a match stays inside the text *)
Lemma Matches_range s r i j : Matches s r i j -> 0 <= i <= zlen s -> i <= j <= zlen s.
Proof.
  intros H. induction H as
    [i|x i r w Hd Hne He|rs i r w Hd Hne He|i r w Hd Hne|i r w Hd Hne He| |i He
    |a b i j k Ha IHa Hb IHb|a b i j Ha IHa|a b i j Hb IHb|g a i
    |g a i j k Ha IHa Hb IHb|g a i j k Ha IHa Hb IHb|g a i|g a i j Ha IHa|n a i j Ha IHa];
    intros Hi;
    try (pose proof (rune_step_range s i r w (proj1 Hi) Hne Hd); lia);
    try lia; try (apply IHa; exact Hi); try (apply IHb; exact Hi);
    (specialize (IHa Hi); assert (Hj : 0 <= j <= zlen s) by lia; specialize (IHb Hj); lia).
Qed.

Lemma Boundary_range s i : Boundary s i -> 0 <= i <= zlen s.
Proof.
  intros H. induction H as [|i r w Hb IH Hne Hd]; [unfold zlen; lia|].
  pose proof (rune_step_range s i r w (proj1 IH) Hne Hd). lia.
Qed.

Lemma cap_at_set_cap0 c v : cap_at (set_cap c 0 v) 0 = Some v.
Proof. destruct c; reflexivity. Qed.

(* ---------- soundness ---------- *)

Lemma star_loop_sound s a g body :
  (forall i c k res, 0 <= i <= zlen s -> body (i, suffix_at s i) c k = Some res ->
     exists j c', Matches s a i j /\ k (j, suffix_at s j) c' = Some res) ->
  forall f i c k res, 0 <= i <= zlen s ->
    star_loop body g f (i, suffix_at s i) c k = Some res ->
    exists j c', Matches s (RStar g a) i j /\ k (j, suffix_at s j) c' = Some res.
Proof.
  intros Hbody. induction f as [|f IHf]; intros i c k res Hi H; cbn [star_loop] in H; [discriminate|].
  assert (Hiter : body (i, suffix_at s i) c
            (fun p' c' => if fst p' =? fst (i, suffix_at s i) then None
                          else star_loop body g f p' c' k) = Some res ->
          exists j c', Matches s (RStar g a) i j /\ k (j, suffix_at s j) c' = Some res).
  { intros E. apply Hbody in E; [|exact Hi]. destruct E as (j & c' & Hm & E).
    cbn [fst] in E. destruct (Z.eqb_spec j i) as [_|_]; [discriminate|].
    pose proof (Matches_range _ _ _ _ Hm Hi) as Hj.
    apply IHf in E; [|lia]. destruct E as (j' & c'' & Hm' & E).
    exists j', c''. split; [eapply MStarS; eauto | exact E]. }
  assert (Hk : k (i, suffix_at s i) c = Some res ->
          exists j c', Matches s (RStar g a) i j /\ k (j, suffix_at s j) c' = Some res).
  { intros E. exists i, c. split; [apply MStar0 | exact E]. }
  destruct g.
  - match type of H with match ?e with _ => _ end = _ => destruct e as [x|] eqn:E end.
    + inversion H; subst x. apply Hiter. first [exact E | reflexivity].
    + apply Hk, H.
  - match type of H with match ?e with _ => _ end = _ => destruct e as [x|] eqn:E end.
    + inversion H; subst x. apply Hk. first [exact E | reflexivity].
    + apply Hiter, H.
Qed.

Lemma m_sound s : forall r fuel i c k res, 0 <= i <= zlen s ->
  m r fuel (i, suffix_at s i) c k = Some res ->
  exists j c', Matches s r i j /\ k (j, suffix_at s j) c' = Some res.
Proof.
  induction r as [| |x|rs| | | | |a IHa b IHb|a IHa b IHb|g a IHa|g a IHa|g a IHa|n a IHa];
    intros fuel i c k res Hi H; cbn [m] in H.
  - exists i, c. split; [constructor | exact H].
  - discriminate.
  - destruct (step_rune (i, suffix_at s i)) as [[y p']|] eqn:Hs; [|discriminate].
    destruct (N.eqb_spec x y) as [He|_]; [|discriminate].
    apply step_rune_inv in Hs; [|lia]. destruct Hs as (w & Hne & Hd & ->).
    exists (i + Z.of_N w), c. split; [eapply MLit; eauto | exact H].
  - destruct (step_rune (i, suffix_at s i)) as [[y p']|] eqn:Hs; [|discriminate].
    destruct (in_ranges rs y) eqn:He; [|discriminate].
    apply step_rune_inv in Hs; [|lia]. destruct Hs as (w & Hne & Hd & ->).
    exists (i + Z.of_N w), c. split; [eapply MClass; eauto | exact H].
  - destruct (step_rune (i, suffix_at s i)) as [[y p']|] eqn:Hs; [|discriminate].
    apply step_rune_inv in Hs; [|lia]. destruct Hs as (w & Hne & Hd & ->).
    exists (i + Z.of_N w), c. split; [eapply MAny; eauto | exact H].
  - destruct (step_rune (i, suffix_at s i)) as [[y p']|] eqn:Hs; [|discriminate].
    destruct (N.eqb_spec y 10) as [_|He]; [discriminate|].
    apply step_rune_inv in Hs; [|lia]. destruct Hs as (w & Hne & Hd & ->).
    exists (i + Z.of_N w), c. split; [eapply MAnyNotNL; eauto | exact H].
  - cbn [fst] in H. destruct (Z.eqb_spec i 0) as [->|_]; [|discriminate].
    exists 0, c. split; [constructor | exact H].
  - cbn [snd] in H. destruct (suffix_at s i) as [|x v] eqn:E; [|discriminate].
    exists i, c. split; [constructor; exact E | rewrite E; exact H].
  - apply IHa in H; [|exact Hi]. destruct H as (j & c' & Ha & H).
    pose proof (Matches_range _ _ _ _ Ha Hi) as Hj.
    apply IHb in H; [|lia]. destruct H as (j' & c'' & Hb & H).
    exists j', c''. split; [eapply MCat; eauto | exact H].
  - destruct (m a fuel (i, suffix_at s i) c k) as [x|] eqn:E.
    + inversion H; subst x. apply IHa in E; [|exact Hi]. destruct E as (j & c' & Ha & E).
      exists j, c'. split; [apply MAltL; exact Ha | exact E].
    + apply IHb in H; [|exact Hi]. destruct H as (j & c' & Hb & H).
      exists j, c'. split; [apply MAltR; exact Hb | exact H].
  - eapply star_loop_sound; [|exact Hi|exact H].
    intros i0 c0 k0 res0 Hi0 H0. eapply IHa; eauto.
  - apply IHa in H; [|exact Hi]. destruct H as (j & c' & Ha & H).
    pose proof (Matches_range _ _ _ _ Ha Hi) as Hj.
    eapply star_loop_sound in H; [| |lia].
    2:{ intros i0 c0 k0 res0 Hi0 H0. eapply IHa; eauto. }
    destruct H as (j' & c'' & Hb & H).
    exists j', c''. split; [eapply MPlus; eauto | exact H].
  - assert (Hk : k (i, suffix_at s i) c = Some res ->
        exists j c', Matches s (RQuest g a) i j /\ k (j, suffix_at s j) c' = Some res).
    { intros E. exists i, c. split; [apply MQuest0 | exact E]. }
    assert (Hm : m a fuel (i, suffix_at s i) c k = Some res ->
        exists j c', Matches s (RQuest g a) i j /\ k (j, suffix_at s j) c' = Some res).
    { intros E. apply IHa in E; [|exact Hi]. destruct E as (j & c' & Ha & E).
      exists j, c'. split; [apply MQuest1; exact Ha | exact E]. }
    destruct g.
    + destruct (m a fuel (i, suffix_at s i) c k) as [x|] eqn:E.
      * inversion H; subst x. apply Hm. first [exact E | reflexivity].
      * apply Hk, H.
    + destruct (k (i, suffix_at s i) c) as [x|] eqn:E.
      * inversion H; subst x. apply Hk. first [exact E | reflexivity].
      * apply Hm, H.
  - apply IHa in H; [|exact Hi]. destruct H as (j & c' & Ha & H).
    exists j, (set_cap c' n (fst (i, suffix_at s i), fst (j, suffix_at s j))).
    split; [apply MCap; exact Ha | exact H].
Qed.

(* what the leftmost search reports is a match starting at a boundary *)
Lemma find_from_sound s r fuel : forall n i res, Boundary s i ->
  find_from r fuel n (i, suffix_at s i) = Some res ->
  exists i' j, Boundary s i' /\ cap_at res 0 = Some (i', j) /\ Matches s r i' j.
Proof.
  assert (Hhere : forall i res, Boundary s i ->
    m r fuel (i, suffix_at s i) [] (fun p' c' => Some (set_cap c' 0 (fst (i, suffix_at s i), fst p'))) = Some res ->
    exists i' j, Boundary s i' /\ cap_at res 0 = Some (i', j) /\ Matches s r i' j).
  { intros i res Hb E. apply m_sound in E; [|apply Boundary_range; exact Hb].
    destruct E as (j & c' & Hm & E). cbn [fst] in E. inversion E; subst res.
    exists i, j. split; [exact Hb|]. split; [apply cap_at_set_cap0 | exact Hm]. }
  induction n as [|n IHn]; intros i res Hb H; cbn [find_from] in H.
  - destruct (m r fuel (i, suffix_at s i) [] _) as [x|] eqn:E; [|discriminate].
    inversion H; subst x. eapply Hhere; eauto.
  - destruct (m r fuel (i, suffix_at s i) [] _) as [x|] eqn:E.
    + inversion H; subst x. eapply Hhere; eauto.
    + destruct (step_rune (i, suffix_at s i)) as [[y p']|] eqn:Hs; [|discriminate].
      pose proof (Boundary_range _ _ Hb) as Hi.
      apply step_rune_inv in Hs; [|lia]. destruct Hs as (w & Hne & Hd & ->).
      eapply IHn; [|exact H]. eapply BS; eauto.
Qed.

Lemma re_find_sound_boundary r s res : re_find r s = Some res ->
  exists i j, Boundary s i /\ cap_at res 0 = Some (i, j) /\ Matches s r i j.
Proof.
  unfold re_find. intros H. rewrite <- (suffix_0 s) in H at 3.
  eapply find_from_sound; [apply B0 | exact H].
Qed.

Theorem re_find_sound : forall r s caps, re_find r s = Some caps ->
  exists i j, cap_at caps 0 = Some (i, j) /\ 0 <= i <= j /\ j <= zlen s /\ Matches s r i j.
Proof.
  intros r s res H. apply re_find_sound_boundary in H. destruct H as (i & j & Hb & Hc & Hm).
  pose proof (Boundary_range _ _ Hb) as Hi. pose proof (Matches_range _ _ _ _ Hm Hi) as Hj.
  exists i, j. repeat split; try lia; assumption.
Qed.

(* ---------- completeness ---------- *)

(* if r matches from i to j and the continuation succeeds at j (whatever the captures), the
   matcher succeeds at i; for a star also with any loop counter above the remaining length *)
Definition complete_at (s : bytes) (r : re) (i j : Z) : Prop :=
  forall fuel, (length s < fuel)%nat ->
  forall k : kont, (forall c, k (j, suffix_at s j) c <> None) ->
    (forall c, m r fuel (i, suffix_at s i) c k <> None) /\
    match r with
    | RStar g a => forall f, (length (suffix_at s i) < f)%nat ->
                   forall c, star_loop (m a fuel) g f (i, suffix_at s i) c k <> None
    | _ => True
    end.

Lemma star_from_loop s g a i fuel (k : kont) : (length s < fuel)%nat ->
  (forall f, (length (suffix_at s i) < f)%nat ->
     forall c, star_loop (m a fuel) g f (i, suffix_at s i) c k <> None) ->
  forall c, m (RStar g a) fuel (i, suffix_at s i) c k <> None.
Proof.
  intros Hf H c. cbn [m]. apply H. rewrite suffix_len. lia.
Qed.

Lemma m_complete s r i j : Matches s r i j -> 0 <= i <= zlen s -> complete_at s r i j.
Proof.
  intros H. induction H as
    [i|x i r w Hd Hne He|rs i r w Hd Hne He|i r w Hd Hne|i r w Hd Hne He| |i He
    |a b i j k Ha IHa Hb IHb|a b i j Ha IHa|a b i j Hb IHb|g a i
    |g a i j k Ha IHa Hb IHb|g a i j k Ha IHa Hb IHb|g a i|g a i j Ha IHa|n a i j Ha IHa];
    intros Hi fuel Hfuel kk Hk.
  - split; [|exact I]. intros c. cbn [m]. apply Hk.
  - split; [|exact I]. intros c. cbn [m].
    rewrite (step_rune_intro s i r w) by (try lia; assumption).
    subst x. rewrite N.eqb_refl. apply Hk.
  - split; [|exact I]. intros c. cbn [m].
    rewrite (step_rune_intro s i r w) by (try lia; assumption).
    rewrite He. apply Hk.
  - split; [|exact I]. intros c. cbn [m].
    rewrite (step_rune_intro s i r w) by (try lia; assumption). apply Hk.
  - split; [|exact I]. intros c. cbn [m].
    rewrite (step_rune_intro s i r w) by (try lia; assumption).
    destruct (N.eqb_spec r 10) as [E|_]; [contradiction|]. apply Hk.
  - split; [|exact I]. intros c. cbn [m fst]. rewrite Z.eqb_refl. apply Hk.
  - split; [|exact I]. intros c. cbn [m snd]. rewrite He in Hk |- *. apply Hk.
  - split; [|exact I]. intros c. cbn [m].
    pose proof (Matches_range _ _ _ _ Ha Hi) as Hj.
    apply (IHa Hi fuel Hfuel). intros c'.
    apply (IHb ltac:(lia) fuel Hfuel kk Hk).
  - split; [|exact I]. intros c. cbn [m].
    destruct (m a fuel (i, suffix_at s i) c kk) as [x|] eqn:E; [discriminate|].
    exfalso. exact (proj1 (IHa Hi fuel Hfuel kk Hk) c E).
  - split; [|exact I]. intros c. cbn [m].
    destruct (m a fuel (i, suffix_at s i) c kk) as [x|] eqn:E; [discriminate|].
    apply (IHb Hi fuel Hfuel kk Hk).
  - assert (Hloop : forall f, (length (suffix_at s i) < f)%nat ->
       forall c, star_loop (m a fuel) g f (i, suffix_at s i) c kk <> None).
    { intros f Hf c. destruct f as [|f]; [lia|]. cbn [star_loop].
      destruct g.
      - match goal with |- match ?e with _ => _ end <> _ => destruct e as [x|] end;
          [discriminate | apply Hk].
      - destruct (kk (i, suffix_at s i) c) as [x|] eqn:E; [discriminate|].
        exfalso. exact (Hk c E). }
    split; [apply star_from_loop; assumption | exact Hloop].
  - pose proof (Matches_range _ _ _ _ Ha Hi) as Hj.
    assert (Hj' : 0 <= j <= zlen s) by lia.
    destruct (IHb Hj' fuel Hfuel kk Hk) as [_ IHloop].
    assert (Hloop : forall f, (length (suffix_at s i) < f)%nat ->
       forall c, star_loop (m a fuel) g f (i, suffix_at s i) c kk <> None).
    { destruct (Z.eq_dec i j) as [->|Hne]; [exact IHloop|].
      intros f Hf c. destruct f as [|f]; [lia|]. cbn [star_loop].
      assert (Hiter : m a fuel (i, suffix_at s i) c
                (fun p' c' => if fst p' =? fst (i, suffix_at s i) then None
                              else star_loop (m a fuel) g f p' c' kk) <> None).
      { apply (IHa Hi fuel Hfuel). intros c'. cbn [fst].
        destruct (Z.eqb_spec j i) as [E|_]; [lia|].
        apply IHloop. rewrite suffix_len in Hf |- *. unfold zlen in *. lia. }
      destruct g.
      - match goal with |- match ?e with _ => _ end <> _ => destruct e as [x|] eqn:E end;
          [discriminate | congruence].
      - destruct (kk (i, suffix_at s i) c) as [x|]; [discriminate | exact Hiter]. }
    split; [apply star_from_loop; assumption | exact Hloop].
  - split; [|exact I]. intros c. cbn [m].
    pose proof (Matches_range _ _ _ _ Ha Hi) as Hj.
    assert (Hj' : 0 <= j <= zlen s) by lia.
    destruct (IHb Hj' fuel Hfuel kk Hk) as [_ IHloop].
    apply (IHa Hi fuel Hfuel). intros c'. apply IHloop. rewrite suffix_len. lia.
  - split; [|exact I]. intros c. cbn [m]. destruct g.
    + destruct (m a fuel (i, suffix_at s i) c kk) as [x|]; [discriminate | apply Hk].
    + destruct (kk (i, suffix_at s i) c) as [x|] eqn:E; [discriminate|].
      exfalso. exact (Hk c E).
  - split; [|exact I]. intros c. cbn [m].
    pose proof (proj1 (IHa Hi fuel Hfuel kk Hk) c) as Hm. destruct g.
    + destruct (m a fuel (i, suffix_at s i) c kk) as [x|]; [discriminate | contradiction].
    + destruct (kk (i, suffix_at s i) c) as [x|]; [discriminate | exact Hm].
  - split; [|exact I]. intros c. cbn [m].
    apply (IHa Hi fuel Hfuel). intros c'. apply Hk.
Qed.

(* the search succeeds as soon as the matcher succeeds at the current offset *)
Lemma find_from_here r fuel n p :
  m r fuel p [] (fun p' c' => Some (set_cap c' 0 (fst p, fst p'))) <> None ->
  find_from r fuel n p <> None.
Proof.
  intros H. destruct n; cbn [find_from];
    destruct (m r fuel p [] _) as [x|]; try discriminate; contradiction.
Qed.

(* the search started at 0 either succeeds before offset i or arrives at i, after d steps *)
Lemma find_from_reach s r fuel i : Boundary s i ->
  exists d, (d + length (suffix_at s i) <= length s)%nat /\
    forall n, find_from r fuel (d + n) (0, s) <> None \/
              find_from r fuel (d + n) (0, s) = find_from r fuel n (i, suffix_at s i).
Proof.
  intros H. induction H as [|i r0 w Hb IH Hne Hd].
  - exists 0%nat. split; [rewrite suffix_0; lia|]. intros n. right. reflexivity.
  - destruct IH as (d & Hlen & IH). pose proof (Boundary_range _ _ Hb) as Hi.
    exists (S d). split.
    + pose proof (rune_step_range s i r0 w (proj1 Hi) Hne Hd) as Hr.
      rewrite suffix_len in Hlen |- *. unfold zlen in *. lia.
    + intros n. replace (S d + n)%nat with (d + S n)%nat by lia.
      destruct (IH (S n)) as [Hs|Heq]; [left; exact Hs|]. rewrite Heq.
      cbn [find_from].
      destruct (m r fuel (i, suffix_at s i) [] _) as [x|]; [left; discriminate|].
      rewrite (step_rune_intro s i r0 w) by (try lia; assumption). right. reflexivity.
Qed.

Theorem re_find_complete : forall r s i j, Boundary s i -> Matches s r i j -> re_find r s <> None.
Proof.
  intros r s i j Hb Hm. unfold re_find.
  destruct (find_from_reach s r (S (length s)) i Hb) as (d & Hlen & Hreach).
  replace (length s) with (d + (length s - d))%nat at 2 by lia.
  destruct (Hreach (length s - d)%nat) as [Hs|Heq]; [exact Hs|]. rewrite Heq.
  apply find_from_here.
  apply (m_complete s r i j Hm (Boundary_range _ _ Hb) (S (length s)) ltac:(lia)).
  intros c. discriminate.
Qed.

Corollary re_match_spec : forall r s, re_match r s = true <-> exists i j, Boundary s i /\ Matches s r i j.
Proof.
  intros r s. unfold re_match. split.
  - destruct (re_find r s) as [res|] eqn:E; [|discriminate]. intros _.
    apply re_find_sound_boundary in E. destruct E as (i & j & Hb & _ & Hm).
    exists i, j. split; assumption.
  - intros (i & j & Hb & Hm). pose proof (re_find_complete r s i j Hb Hm) as H.
    destruct (re_find r s); [reflexivity | contradiction].
Qed.
