(* Helper file for TypoDefWfTotBlk.v: the loop open_blocks_loopD and open_blocksD (part 1 of the port of
   ParseBlocksTotalOpen.v RG_nil / RG_single / RG_cons to the generalised driver):
     - small facts about is_dl / is_dd, the frame OFrameD (reflexivity, transitivity), ChainD (nil, cons),
       tree consistency under hsame_pc, "fresh" entries,
     - RGD: what a run of rounds that pushed the blocks `new` below `parent` has established, with
       RGD_nil, RGD_cons (one pushed block and the run below it; RG_single is RGD_cons + RGD_nil) and
       RGD_pre (a step in front of the run that pushes nothing),
     - the dispatch of p_continueD at a Paragraph node. *)
Require Import GM.model.Base GM.model.Util GM.model.Reader GM.model.ReaderSpec GM.model.Blocks GM.model.ListItem
               GM.model.LeafBlocks GM.model.CodeBlock GM.model.LinkDest GM.model.Regex GM.model.BlockParse
               GM.model.TypoDefParseD.
Require Import GM.proofs.ReaderProofs GM.proofs.BlocksProofs
               GM.proofs.ParseBlocksTotalReader GM.proofs.ParseBlocksTotalDefs GM.proofs.ParseBlocksTotalSpec
               GM.proofs.ParseBlocksTotalSt GM.proofs.ParseBlocksTotalShape GM.proofs.ParseBlocksTotalOpen
               GM.proofs.TypoDefConservativeBlkInv
               GM.proofs.TypoDefWfTotBlkDefs GM.proofs.TypoDefWfTotBlkSpec GM.proofs.TypoDefWfTotBlkOpenI.
From Coq Require Import ZArith Lia List Bool.
Import ListNotations.
Open Scope Z_scope.

(* ---------- kinds ---------- *)
Lemma is_dd_not_dl n : is_dd n = true -> is_dl n = false.
Proof.
  unfold is_dl, is_dd. intros H. apply andb_true_iff in H. destruct H as [_ H]. apply Z.eqb_eq in H. rewrite H.
  apply andb_false_r.
Qed.
Lemma is_dl_kind_false n : bk n <> BHTML -> is_dl n = false.
Proof. unfold is_dl. intros H. destruct (bkind_eqb_spec (bk n) BHTML); [contradiction|reflexivity]. Qed.
Lemma is_dd_kind_false n : bk n <> BHTML -> is_dd n = false.
Proof. unfold is_dd. intros H. destruct (bkind_eqb_spec (bk n) BHTML); [contradiction|reflexivity]. Qed.
Lemma dlk_not_ddk h i : dlk h i -> ddk h i -> False.
Proof. intros (n & E & D) (n' & E' & D'). rewrite E in E'. injection E' as <-. rewrite (is_dl_not_dd _ D) in D'. discriminate. Qed.
Lemma kkeep_len h h' : kkeep h h' -> (length h <= length h')%nat.
Proof. intros [L _]. exact L. Qed.
Lemma kkeep_is_dl h h' i n n' : kkeep h h' -> nth_error h i = Some n -> nth_error h' i = Some n' -> is_dl n' = is_dl n.
Proof.
  intros [_ H] E E'. destruct (H i n E) as (n2 & E2 & K & T). rewrite E' in E2. injection E2 as <-. apply is_dl_same; assumption.
Qed.
Lemma kkeep_bk h h' i n n' : kkeep h h' -> nth_error h i = Some n -> nth_error h' i = Some n' -> bk n' = bk n.
Proof. intros [_ H] E E'. destruct (H i n E) as (n2 & E2 & K & T). rewrite E' in E2. injection E2 as <-. exact K. Qed.

(* ---------- a new entry: a new node, or a PHTML entry whose node is a DefinitionList of the heap ---------- *)
Definition fresh (h : heap) (e : nat * bparser) : Prop :=
  (length h <= fst e)%nat \/ (snd e = PHTML /\ dlk h (fst e)).

Lemma fresh_back a b e : kkeep a b -> fresh b e -> fresh a e.
Proof.
  intros K [L|[P D]].
  - left. pose proof (kkeep_len _ _ K). lia.
  - destruct (le_lt_dec (length a) (fst e)) as [Hle|Hlt]; [left; exact Hle|].
    right. split; [exact P|]. eapply dlk_back; eassumption.
Qed.

(* ---------- the frame ---------- *)
Lemma OFrameD_refl h p : OFrameD h h p.
Proof. split; [lia|]. intros j n H. exists n. csplit; auto. Qed.
Lemma OFrameD_eq h h' p : h' = h -> OFrameD h h' p.
Proof. intros ->. apply OFrameD_refl. Qed.

(* the second step works below q: the same parent, a node that is new for the first heap, or a node
   that is no List in the first heap *)
Lemma OFrameD_trans a b c p q : OFrameD a b p -> OFrameD b c q ->
  (q = p \/ (length a <= q)%nat \/ (forall n, nth_error a q = Some n -> bk n <> BList)) -> OFrameD a c p.
Proof.
  intros [L1 H1] [L2 H2] Hq. split; [lia|]. intros j n Hj.
  destruct (H1 j n Hj) as (n1 & E1 & K1 & A1 & B1).
  destruct (H2 j n1 E1) as (n2 & E2 & K2 & A2 & B2).
  exists n2. csplit.
  - exact E2.
  - congruence.
  - intros Hk. destruct (A1 Hk) as [Q1 Q2]. destruct (A2 ltac:(congruence)) as [Q3 Q4]. split; congruence.
  - intros Kl Hp. rewrite B2; [apply B1; assumption|congruence|].
    destruct Hq as [->|[Hq|Hq]]; [exact Hp|apply nth_error_lt in Hj; lia|]. intros ->. exact (Hq n Hj Kl).
Qed.

(* ---------- tree consistency ---------- *)
Lemma TC_hsame_pc h h' : TC h -> hsame_pc h h' -> TC h'.
Proof.
  intros [T1 T2] [L H].
  assert (Hb : forall p pn', nth_error h' p = Some pn' -> exists pn, nth_error h p = Some pn /\ bch pn' = bch pn).
  { intros p pn' E. assert (Hp : (p < length h)%nat) by (rewrite <- L; eapply nth_error_lt, E).
    destruct (nth_error_ex_lt h p Hp) as [pn En]. destruct (H p pn En) as (pn2 & E2 & _ & C & _).
    rewrite E in E2. injection E2 as <-. exists pn. auto. }
  constructor.
  - intros p pn' c E Hin. destruct (Hb p pn' E) as (pn & En & Ec). rewrite Ec in Hin.
    destruct (T1 p pn c En Hin) as (cn & Ecn & Pcn). destruct (H c cn Ecn) as (cn' & Ecn' & _ & _ & P').
    exists cn'. split; [exact Ecn'|congruence].
  - intros p pn' E. destruct (Hb p pn' E) as (pn & En & Ec). rewrite Ec. exact (T2 p pn En).
Qed.

(* ---------- chains ---------- *)
Lemma ChainD_nil h p : ChainD h p [].
Proof.
  constructor.
  - intros k n q H. destruct k; discriminate.
  - intros k e H. destruct k; discriminate.
  - intros k L H. destruct k; discriminate.
  - intros k L q H. destruct k; discriminate.
Qed.

Lemma ChainD_cons h p node bp nn new : nth_error h node = Some nn -> bpar nn = Some p ->
  (new <> [] -> contD h (node, bp)) ->
  (bp = PList -> exists it, nth_error new 0%nat = Some (it, PListItem) /\ last_id (bch nn) = Some it) ->
  (is_dl nn = true -> exists D, nth_error new 0%nat = Some (D, PHTML) /\ ddk h D) ->
  ChainD h node new -> ChainD h p ((node, bp) :: new).
Proof.
  intros Hn Hp Hc Hl Hd [C1 C2 C3 C4]. constructor.
  - intros k n q H. destruct k as [|k].
    + cbn in H. injection H as <- <-. exists nn. split; [exact Hn|exact Hp].
    + cbn [nth_error] in H. destruct (C1 k n q H) as [m [Em Pm]]. exists m. split; [exact Em|].
      rewrite Pm. destruct k as [|k]; reflexivity.
  - intros k e H Hlt. destruct k as [|k].
    + cbn in H. injection H as <-. apply Hc. destruct new; [cbn in Hlt; lia|discriminate].
    + cbn [nth_error] in H. apply (C2 k e H). cbn [length] in Hlt. lia.
  - intros k L H. destruct k as [|k].
    + cbn in H. injection H as <- E. destruct (Hl E) as [it [E1 E2]]. exists it, nn. auto.
    + cbn [nth_error] in H. destruct (C3 k L H) as (it & Ln & E1 & E2 & E3). exists it, Ln. auto.
  - intros k L q H HD. destruct k as [|k].
    + cbn in H. injection H as <- <-. apply Hd. eapply dlk_node; eassumption.
    + cbn [nth_error] in H. exact (C4 k L q H HD).
Qed.

Section S.
Variable space_table : list N.
Variable re_t1c : re.
Variable src : bytes.
Notation SI := (SI space_table src).
Notation SD := (SD space_table src).

(* ---------- what a run of rounds that pushed the blocks `new` below `parent` has established ---------- *)
Definition RGD (parent : nat) (pn : bnode) (s s' : st) (new : list (nat * bparser)) : Prop :=
  SD s' /\ kkeep (s_h s) (s_h s') /\ r_le (s_r s) (s_r s') /\ ChainD (s_h s') parent new /\
  (forall e, In e new -> fresh (s_h s) e) /\
  OFrameD (s_h s) (s_h s') parent /\
  (bk pn = BList -> forall n1 p1, nth_error new 0%nat = Some (n1, p1) ->
     exists pn', nth_error (s_h s') parent = Some pn' /\ last_id (bch pn') = Some n1) /\
  fence_ok s s' new.

Lemma RGD_nil parent pn s s' : SD s' -> dcl s s' -> RGD parent pn s s' [].
Proof.
  intros HS D. pose proof D as (Eh & Ep & _ & _ & Ef & _). unfold RGD. csplit; auto.
  - apply kkeep_eq, Eh.
  - apply same_pos_le, Ep.
  - apply ChainD_nil.
  - intros e [].
  - apply OFrameD_eq, Eh.
  - intros _ n1 p1 H. discriminate.
  - split; [intros n H; discriminate|intros _; exact Ef].
Qed.

(* one step that pushes the block (node, bp) below `parent`, then the run below `node` (for a pushed
   paragraph - a leaf - the run is empty and keeps the heap) *)
Lemma RGD_cons parent pn s node bp nn s1 s' new' :
  kkeep (s_h s) (s_h s1) -> r_le (s_r s) (s_r s1) -> OFrameD (s_h s) (s_h s1) parent ->
  nth_error (s_h s1) node = Some nn -> bpar nn = Some parent -> (bk nn = BParagraph -> s_h s' = s_h s1) ->
  fresh (s_h s) (node, bp) ->
  (bp = PList -> bk nn = BList) ->
  (new' <> [] -> contD (s_h s1) (node, bp)) ->
  (is_dl nn = true -> exists D, nth_error new' 0%nat = Some (D, PHTML) /\ ddk (s_h s') D) ->
  (bk pn = BList -> exists pn1, nth_error (s_h s1) parent = Some pn1 /\ bk pn1 = BList /\ last_id (bch pn1) = Some node) ->
  (bp = PFenced -> new' = [] /\ exists ch ind fl, c_fence (s_c s1) = Some (ch, ind, fl, node)) ->
  (bp <> PFenced -> c_fence (s_c s1) = c_fence (s_c s)) ->
  RGD node nn s1 s' new' ->
  (bp = PList -> exists it, nth_error new' 0%nat = Some (it, PListItem)) ->
  RGD parent pn s s' ((node, bp) :: new').
Proof.
  intros K1 L1 F1 Hn Hp Hnp Hfr Hlk Hc Hdl Hlast Hf1 Hf2 (R1 & R2 & R3 & R4 & R5 & R6 & R7 & R8a & R8b) Hl.
  pose proof R6 as [L6 A6].
  destruct (A6 node nn Hn) as (nn' & E' & K' & A' & _).
  assert (Pnn' : bpar nn' = bpar nn).
  { destruct (bkind_eqb_spec (bk nn) BParagraph) as [Kp|Kp]; [|apply (A' Kp)].
    rewrite (Hnp Kp), Hn in E'. injection E' as <-. reflexivity. }
  assert (Hpn : (parent < node)%nat).
  { rewrite <- Pnn' in Hp. destruct R1 as [R1 _]. exact (hi_par _ _ _ (si_h _ _ _ R1) node nn' parent E' Hp). }
  assert (Hdl' : is_dl nn' = is_dl nn) by (eapply kkeep_is_dl; eassumption).
  unfold RGD. csplit.
  - exact R1.
  - eapply kkeep_trans; eassumption.
  - eapply r_le_trans; eassumption.
  - apply (ChainD_cons _ parent node bp nn' new'); auto.
    + congruence.
    + intros Hne. eapply contD_keep; [exact R2|]. apply Hc, Hne.
    + intros Ebp. destruct (Hl Ebp) as [it Hit]. exists it. split; [exact Hit|].
      destruct (R7 (Hlk Ebp) it PListItem Hit) as (pn'' & E'' & L''). rewrite E' in E''. injection E'' as <-. exact L''.
    + rewrite Hdl'. exact Hdl.
  - intros e [<-|He]; [exact Hfr|]. eapply fresh_back; [exact K1|]. apply R5, He.
  - eapply OFrameD_trans; [exact F1|exact R6|].
    destruct Hfr as [Hfr|[_ Hfr]]; cbn [fst] in Hfr; [right; left; exact Hfr|]. destruct Hfr as (n0 & E0 & D0).
    right. right. intros n En. rewrite E0 in En. injection En as <-. rewrite (is_dl_kind _ D0). discriminate.
  - intros Kl n1 p1 E. cbn in E. injection E as <- <-.
    destruct (Hlast Kl) as (pn1 & P1 & Kp1 & P2).
    destruct (A6 parent pn1 P1) as (pn2 & E2 & _ & _ & C2). exists pn2. split; [exact E2|].
    rewrite (C2 Kp1 ltac:(lia)). exact P2.
  - split.
    + intros n E. destruct new' as [|e' new''].
      * cbn in E. injection E as <- ->. destruct (Hf1 eq_refl) as (_ & ch & ind & fl & Ef). exists ch, ind, fl.
        rewrite R8b; [exact Ef|]. intros n' C. discriminate.
      * apply R8a. eapply lst_cons_some; [discriminate|exact E].
    + intros Hnf. destruct new' as [|e' new''].
      * assert (Hb : bp <> PFenced) by (intros ->; apply (Hnf node); reflexivity).
        rewrite R8b; [apply Hf2, Hb|]. intros n' C. discriminate.
      * assert (Hb : bp <> PFenced) by (intros ->; destruct (Hf1 eq_refl) as [C _]; discriminate).
        rewrite R8b; [apply Hf2, Hb|]. intros n E. apply (Hnf n). rewrite lst_cons. exact E.
Qed.

(* a step in front of the run that pushes nothing (the paragraph in front has been popped) *)
Lemma RGD_pre parent pn pn1 s s1 s' new :
  kkeep (s_h s) (s_h s1) -> r_le (s_r s) (s_r s1) -> OFrameD (s_h s) (s_h s1) parent ->
  c_fence (s_c s1) = c_fence (s_c s) -> (bk pn = BList -> bk pn1 = BList) ->
  RGD parent pn1 s1 s' new -> RGD parent pn s s' new.
Proof.
  intros K1 L1 F1 Ef Hk (R1 & R2 & R3 & R4 & R5 & R6 & R7 & R8a & R8b). unfold RGD. csplit.
  - exact R1.
  - eapply kkeep_trans; eassumption.
  - eapply r_le_trans; eassumption.
  - exact R4.
  - intros e He. eapply fresh_back; [exact K1|]. apply R5, He.
  - eapply OFrameD_trans; [exact F1|exact R6|]. left. reflexivity.
  - intros Kl. apply R7, Hk, Kl.
  - split; [exact R8a|]. intros Hn. rewrite <- Ef. apply R8b, Hn.
Qed.

(* ---------- Continue at a Paragraph node is the core function ---------- *)
Lemma p_continueD_para bp s l ln : nth_error (s_h s) l = Some ln -> bk ln = BParagraph ->
  p_continueD space_table re_t1c bp s l = p_continue space_table re_t1c bp s l.
Proof.
  intros E K. unfold p_continueD. rewrite (hget_some _ _ _ E). cbn [bind].
  rewrite is_dl_kind_false, is_dd_kind_false by (rewrite K; discriminate). reflexivity.
Qed.

End S.
