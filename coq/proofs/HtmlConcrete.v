(* The L1 renderer theorems instantiated with the tables and attribute allow-lists dumped from
   the running code; every hypothesis about the data is discharged by computation. *)
Require Import GM.model.Base GM.model.Util GM.model.Reader GM.model.HtmlDecode GM.model.UrlSpec.
Require Import GM.model.HtmlWriter GM.model.Html GM.model.HtmlI GM.model.HtmlSpec.
Require Import GM.gen.Tables GM.gen.Entities GM.gen.Filters.
Require Import GM.proofs.Concrete GM.proofs.HtmlProofs.
Open Scope N_scope.

Lemma real_filters_no_url :
  Forall (fun f => ~ In a_href f /\ ~ In a_src f)
         [f_global; f_blockquote; f_list; f_listitem; f_thematic; f_link; f_image; f_table; f_thead; f_tr; f_th; f_td].
Proof. apply filters_no_url_b_spec. vm_compute. reflexivity. Qed.

Theorem RenderHTML_total c src t : wf_tree src t = true -> exists o, RenderHTML c src t = Ok o.
Proof.
  apply (render_total html_escape_table punct_table entities url_escape_table utf8len_table
           f_global f_blockquote f_list f_listitem f_thematic f_link f_image f_table f_thead f_tr f_th f_td
           html_escape_table_std).
Qed.

Theorem RenderHTML_safe_inert c src t o : unsafe c = false -> wf_tree src t = true ->
  RenderHTML c src t = Ok o -> Inert o.
Proof.
  apply (safe_render_inert html_escape_table punct_table entities url_escape_table utf8len_table
           f_global f_blockquote f_list f_listitem f_thematic f_link f_image f_table f_thead f_tr f_th f_td
           html_escape_table_std real_url_tables_ok real_entities_bytes real_filters_no_url).
Qed.

Theorem RenderHTML_safe_inert_xhtml c src t o : unsafe c = false -> xhtml c = true -> wf_tree src t = true ->
  RenderHTML c src t = Ok o -> InertX o.
Proof.
  apply (safe_render_inert_xhtml html_escape_table punct_table entities url_escape_table utf8len_table
           f_global f_blockquote f_list f_listitem f_thematic f_link f_image f_table f_thead f_tr f_th f_td
           html_escape_table_std real_url_tables_ok real_entities_bytes real_filters_no_url).
Qed.
