(* HeadingOptsWf (block phase): every tree the block-phase model with the heading options (model/HeadingOpts.v:
   parse_blocksH, to_treeH) produces is well formed in the sense of HtmlSpec.wf_node (this includes attrs_ok of the
   attributes of the headings), the lines of its inline-bearing blocks satisfy tree_lines_okN (HeadingOptsWfNl.v:
   the block reader's hypothesis, except that the last line of a heading may be empty; every line of a heading but
   the last is a complete line of the source: it ends at the end of the source or behind a newline), and the
   reference map holds byte strings.  The analogue of ParseBlocksRange.v; for all four option sets hc.

   The proof lives in HeadingOptsWfBlk{B..J}.v (forks of ParseBlocksRange{B..J}.v with the weakened invariant for the
   lines of headings, and with "all lines but the last are complete source lines" in the sortedness predicate of
   line lists / "all lines are complete" for the paragraphs among the opened blocks), K (to_treeH), Q, L (closeBlocks), R, M, N (openBlocks), P (the loops, the final invariant). *)
Require Import GM.model.Base GM.model.Util GM.model.UtilI GM.model.Reader GM.model.ReaderSpec GM.model.Blocks GM.model.ListItem
               GM.model.LeafBlocks GM.model.CodeBlock GM.model.LinkDest GM.model.Regex GM.model.HtmlWriter
               GM.model.Html GM.model.HtmlSpec GM.model.BlockParse GM.model.InlineParse GM.model.ParseI
               GM.model.HeadingOpts GM.model.HeadingOptsI.
Require Import GM.gen.Tables GM.gen.Regexes.
Require Import GM.proofs.MiscProofs GM.proofs.ReaderProofs GM.proofs.BReaderProofs GM.proofs.BlockRangeProofs GM.proofs.ParseInv.
Require Import GM.proofs.ParseBlocksRange GM.proofs.ParseCompose.
Require Import GM.proofs.HeadingOptsWfDefs GM.proofs.HeadingOptsWfNl GM.proofs.HeadingOptsWfBlkB GM.proofs.HeadingOptsWfBlkK GM.proofs.HeadingOptsWfBlkP.
From Coq Require Import ZArith Lia.
Open Scope Z_scope.

Section S.
Variable hc : hcfg.
Variable space_table punct_table : list N.
Variable norm : bytes -> bytes.
Variable re_t1o re_t1c re_t2 re_t3 re_t4 re_t5 re_t6 re_t7 : re.
Variable allowed_tags : list bytes.
Variable utf8len_table : list N.
Variable spaces : bytes.
Notation PBH := (parse_blocksH hc space_table punct_table norm re_t1o re_t1c re_t2 re_t3 re_t4 re_t5 re_t6 re_t7 allowed_tags
                               utf8len_table spaces).
(* the white space table classifies the blank as white space *)
Hypothesis sp32 : is_space space_table 32%N = true.

Theorem parse_blocksH_tree_ok_sp : forall src x t,
  bytes_ok src -> PBH src = Ok x ->
  to_treeH (S (length (s_h (hx_s x)))) src (s_h (hx_s x)) (hx_attrs x) 0%nat = Ok t ->
  wf_node src false false t = true /\ tree_lines_okN src t = true /\ refs_ok (c_refs (s_c (hx_s x))).
Proof.
  intros src x t Hsrc Hpb Ht.
  destruct (parse_blocksH_final hc space_table punct_table norm re_t1o re_t1c re_t2 re_t3 re_t4 re_t5 re_t6 re_t7 allowed_tags
              utf8len_table spaces src sp32 Hsrc x Hpb) as [HhS [HJ [Hr HA]]].
  destruct (to_treeH_ok space_table punct_table norm re_t1o re_t1c re_t2 re_t3 re_t4 re_t5 re_t6 re_t7 allowed_tags
              src sp32 Hsrc (s_h (hx_s x)) (hx_attrs x) HhS HJ HA _ 0%nat t (or_introl eq_refl) Ht) as [Hwf Hl].
  auto.
Qed.

End S.

(* the block phase with the tables and regular expressions regenerated from the code *)
Corollary ParseBlocksH_tree_ok : forall hc src x t,
  bytes_ok src -> ParseBlocksH hc src = Ok x ->
  to_treeH (S (length (s_h (hx_s x)))) src (s_h (hx_s x)) (hx_attrs x) 0%nat = Ok t ->
  wf_node src false false t = true /\ tree_lines_okN src t = true /\ refs_ok (c_refs (s_c (hx_s x))).
Proof.
  intros hc src x t. unfold ParseBlocksH. apply parse_blocksH_tree_ok_sp. exact space_table_blank.
Qed.

Corollary ParseBlocksTreeH_ok : forall hc src t refs,
  bytes_ok src -> ParseBlocksTreeH hc src = Ok (t, refs) ->
  wf_node src false false t = true /\ tree_lines_okN src t = true /\ refs_ok refs.
Proof.
  intros hc src t refs Hsrc H. unfold ParseBlocksTreeH in H.
  destruct (ParseBlocksH hc src) as [x| |] eqn:Ex; cbn [bind] in H; try discriminate.
  destruct (to_treeH (S (length (s_h (hx_s x)))) src (s_h (hx_s x)) (hx_attrs x) 0%nat) as [t'| |] eqn:Et; cbn [bind] in H; try discriminate.
  injection H as <- <-. exact (ParseBlocksH_tree_ok hc src x t' Hsrc Ex Et).
Qed.

(* the kinds of the tree are those of the block phase (as ParseCompose.to_tree_block_kinds) *)
Lemma to_treeH_block_kinds : forall fuel src h a i t, to_treeH fuel src h a i = Ok t -> all_kinds block_kind t = true.
Proof.
  induction fuel as [|f IH]; intros src h a i t H; cbn [to_treeH] in H; [discriminate|].
  apply pc_bind_ok in H as (n & _ & H). apply pc_bind_ok in H as (k & Hk & H).
  apply pc_bind_ok in H as (kids & Hkids & H). apply pc_Ok_inj in H as <-.
  rewrite all_kinds_unfold. rewrite (kind_of_block_kind _ _ _ Hk). cbn [andb].
  apply map_res_forall2 in Hkids. apply forallb_forall. intros y Hy.
  induction Hkids as [|x y' xs ys Hxy Hrest IHrest]; [destruct Hy|].
  destruct Hy as [<- | Hy]; [exact (IH _ _ _ _ _ Hxy) | exact (IHrest Hy)].
Qed.
